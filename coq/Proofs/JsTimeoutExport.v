(** C11, the post phase (export of the result / text of the thrown value) of
    Model/ConcJsExport.v:

    - for the repaired code ([repaired_variant]): the invariants of
      JsTimeout.v; an endless post phase is interrupted under every fair
      schedule exactly like an endless main script; at most one more unit of
      interpreted code after the flag (every variant); without an end of the
      context nothing is reported as interrupted and the result is the
      script's (or the post phase's own failure); no crash; no leak;
    - the old order ([old_order], [old_order_trapped], [untrapped]) refuted;
      what the old order really does (the stale Interrupt after cancel() hits
      the post phase outside any trap: a panic);
    - the system of ConcJs.v is the special case "no post phase". *)
From Sheens Require Import Model.ConcJs Model.ConcJsExport Proofs.JsTimeout.
From Coq Require Import List Bool Arith Lia.
Import ListNotations.

Notation rv := repaired_variant.

Definition xafter (v : xvariant) (l : label) (s : xstate) : xstate :=
  match xstep v l s with Some s' => s' | None => s end.

Lemma xrun_cons : forall v l ls s, xrun v (l :: ls) s = xrun v ls (xafter v l s).
Proof. reflexivity. Qed.

Lemma xrun_app : forall v a b s, xrun v (a ++ b) s = xrun v b (xrun v a s).
Proof. intros v a. induction a as [|l r IH]; intros b s; simpl; [reflexivity | apply IH]. Qed.

Ltac xstep_inv H :=
  unfold xstep, with_script in H; simpl in H;
  repeat match type of H with
         | context [match ?x with _ => _ end] => destruct x eqn:?; simpl in H
         end;
  try discriminate; inversion H; subst; clear H; simpl in *.

Lemma xreach_xrun : forall v s0 ls s, xreach v s0 s -> xreach v s0 (xrun v ls s).
Proof.
  intros v s0 ls. induction ls as [|l r IH]; intros s H; [exact H|].
  simpl. apply IH. destruct (xstep v l s) eqn:E; [eapply xreach_step; eassumption | exact H].
Qed.

(** * Stable facts (every variant) *)

Definition xstable (v : xvariant) (P : xstate -> Prop) : Prop :=
  forall l s s', xstep v l s = Some s' -> P s -> P s'.

Lemma xstable_xrun :
  forall v P, xstable v P -> forall ls s, P s -> P (xrun v ls s).
Proof.
  intros v P HP ls. induction ls as [|l r IH]; intros s H; [exact H|].
  simpl. apply IH. destruct (xstep v l s) eqn:E; [eapply HP; eassumption | exact H].
Qed.

Lemma xstable_reach :
  forall v P, xstable v P -> forall s0 s, P s0 -> xreach v s0 s -> P s.
Proof.
  intros v P HP s0 s H0 Hr. induction Hr as [|s l s' _ IH Hs]; [exact H0 | eapply HP; eassumption].
Qed.

Lemma xctx_done_stable : forall v, xstable v (fun s => x_ctx_done s = true).
Proof. intros v l s s' H P. destruct l; xstep_inv H; auto. Qed.

Lemma xflag_stable : forall v, xstable v (fun s => x_flag s = true).
Proof.
  intros v l s s' H P. destruct l; xstep_inv H; auto.
  rewrite P. apply orb_true_r.
Qed.

Lemma xstopped_stable : forall v o, xstable v (fun s => x_script s = XStopped o).
Proof. intros v o l s s' H P. destruct l; xstep_inv H; auto; congruence. Qed.

Lemma xreturned_stable : forall v o, xstable v (fun s => x_returned s = Some o).
Proof. intros v o l s s' H P. destruct l; xstep_inv H; auto; congruence. Qed.

Lemma xexited_stable : forall v, xstable v (fun s => x_watcher s = Exited).
Proof. intros v l s s' H P. destruct l; xstep_inv H; auto; congruence. Qed.

Lemma xictx_stable : forall v, xstable v (fun s => x_ictx_done s = true).
Proof.
  intros v l s s' H P. destruct l; xstep_inv H; auto; rewrite P; apply orb_true_r.
Qed.

(** what has been returned is what the script stopped with *)
Lemma xret_script_stable :
  forall v, xstable v (fun s => forall o, x_returned s = Some o -> x_script s = XStopped o).
Proof.
  intros v l s s' H P. destruct l; xstep_inv H; auto; intros o' Ho; try congruence.
  all: try (apply P in Ho; congruence).
Qed.

(** * at most one more unit of interpreted code once the flag is set *)

Lemma xticks_stopped :
  forall v ls s o, x_script s = XStopped o -> xticks_taken v ls s = 0.
Proof.
  intros v ls. induction ls as [|l r IH]; intros s o Hs; simpl; [reflexivity|].
  destruct (xstep v l s) as [s'|] eqn:E.
  - assert (x_script s' = XStopped o) as Hs' by (eapply xstopped_stable; eassumption).
    rewrite (IH s' o Hs'). destruct l; try reflexivity.
    unfold xstep in E. rewrite Hs in E. discriminate.
  - eapply IH. exact Hs.
Qed.

Theorem xstop_after_flag :
  forall v ls s, x_flag s = true -> xticks_taken v ls s <= 1.
Proof.
  intros v ls. induction ls as [|l r IH]; intros s Hf; simpl; [lia|].
  destruct (xstep v l s) as [s'|] eqn:E; [|apply IH; exact Hf].
  assert (x_flag s' = true) as Hf' by (eapply xflag_stable; eassumption).
  destruct l; try (simpl; apply IH; exact Hf').
  (* Tick with the flag set: the script (either phase) is stopped *)
  unfold xstep in E. destruct (x_script s) as [lft thr post|lft thr mt|o] eqn:Es; [| |discriminate].
  - rewrite Hf in E. inversion E; subst; clear E.
    rewrite (xticks_stopped v r _ XInterrupted) by reflexivity. lia.
  - destruct (post_before_cancel v || x_cancelled s); [|discriminate].
    rewrite Hf in E. inversion E; subst; clear E.
    rewrite (xticks_stopped v r _ (post_interrupted v)) by reflexivity. lia.
Qed.

(** * No crash when the post phase is trapped *)

Definition no_crash_phase (ph : xphase) : Prop := ph <> XStopped XCrashed.

Lemma no_crash_stable :
  forall v, post_trapped v = true -> xstable v (fun s => no_crash_phase (x_script s)).
Proof.
  intros v Ht l s s' H P. unfold no_crash_phase in *.
  destruct l; [xstep_inv H; auto | xstep_inv H; auto | | xstep_inv H; auto].
  unfold xstep in H. destruct (x_script s) as [lft thr post|lft thr mt|o] eqn:Es; [| |discriminate].
  - destruct (x_flag s); [inversion H; subst; simpl; discriminate|].
    destruct lft as [[|n]|]; inversion H; subst; simpl; try discriminate; try congruence.
    (* the main script ends *)
    unfold end_main, script_result. destruct post; [destruct thr|]; discriminate.
  - destruct (post_before_cancel v || x_cancelled s); [|discriminate].
    destruct (x_flag s).
    + inversion H; subst; simpl. unfold post_interrupted. rewrite Ht. discriminate.
    + destruct lft as [[|n]|]; inversion H; subst; simpl; try discriminate; try congruence.
      unfold end_post, script_result. rewrite Ht. destruct thr; [|destruct mt]; discriminate.
Qed.

Definition no_crash_for (v : xvariant) : Prop :=
  forall e main thr post s, xreach v (xinit v e main thr post) s -> x_returned s <> Some XCrashed.

Theorem trapped_never_crashes : forall v, post_trapped v = true -> no_crash_for v.
Proof.
  intros v Ht e main thr post s Hr Hc.
  assert (no_crash_phase (x_script s)) as Hn.
  { apply (xstable_reach v _ (no_crash_stable v Ht) (xinit v e main thr post) s); [unfold no_crash_phase; simpl; discriminate | exact Hr]. }
  assert (forall o, x_returned s = Some o -> x_script s = XStopped o) as Hs.
  { apply (xstable_reach v _ (xret_script_stable v) (xinit v e main thr post) s); [simpl; discriminate | exact Hr]. }
  apply Hn. apply Hs. exact Hc.
Qed.

(** * Invariants of the repaired protocol *)

Record xinv (s : xstate) : Prop := mk_xinv {
  xi_ctx : x_ctx_done s = true -> x_ictx_done s = true;
  xi_exited : x_watcher s = Exited -> x_flag s = true;
  xi_flag : x_flag s = true -> x_watcher s = Exited;
  xi_present : x_watcher s <> Absent;
  xi_ret : forall o, x_returned s = Some o -> x_script s = XStopped o;
  xi_ret_ictx : x_returned s <> None -> x_ictx_done s = true;
  xi_exited_ictx : x_watcher s = Exited -> x_ictx_done s = true;
  xi_nocrash : no_crash_phase (x_script s)
}.

Lemma xinv_init : forall e main thr post, xinv (xinit rv e main thr post).
Proof.
  intros e main thr post. constructor; simpl; intros; try congruence; try discriminate.
Qed.

Lemma xinv_step : forall l s s', xinv s -> xstep rv l s = Some s' -> xinv s'.
Proof.
  intros l s s' [I1 I2 I3 I4 I5 I6 I7 I8] H.
  assert (no_crash_phase (x_script s')) as N by (eapply (no_crash_stable rv eq_refl); eassumption).
  assert (forall o, x_returned s' = Some o -> x_script s' = XStopped o) as R
      by (eapply (xret_script_stable rv); eassumption).
  destruct l; xstep_inv H; constructor; simpl; intros;
    repeat match goal with
           | H : ?a = ?a -> _ |- _ => specialize (H eq_refl)
           end;
    try congruence; auto.
  all: try (match goal with H : x_returned _ = Some ?o |- _ => apply I5 in H; congruence end).
  all: try (intuition congruence).
  all: try (unfold no_crash_phase in *; destruct o; simpl; try reflexivity; congruence).
Qed.

Lemma xinv_after : forall l s, xinv s -> xinv (xafter rv l s).
Proof.
  intros l s H. unfold xafter. destruct (xstep rv l s) eqn:E; [eapply xinv_step; eassumption | exact H].
Qed.

Lemma xinv_xrun : forall ls s, xinv s -> xinv (xrun rv ls s).
Proof.
  intros ls. induction ls as [|l r IH]; intros s H; [exact H|].
  rewrite xrun_cons. apply IH. apply xinv_after. exact H.
Qed.

Lemma xinv_reach : forall e main thr post s, xreach rv (xinit rv e main thr post) s -> xinv s.
Proof.
  intros e main thr post s H. induction H as [|s l s' _ IH Hs]; [apply xinv_init | eapply xinv_step; eassumption].
Qed.

(** * the watcher's step stays enabled from the end of the context on *)

Theorem xwatch_enabled :
  forall e main thr post s, xreach rv (xinit rv e main thr post) s -> x_ctx_done s = true ->
  (exists s', xstep rv Watch s = Some s') \/ x_flag s = true.
Proof.
  intros e main thr post s Hr Hc. apply xinv_reach in Hr. destruct Hr as [I1 I2 I3 I4 I5 I6 I7 I8].
  destruct (x_watcher s) eqn:Ew.
  - left. unfold xstep. rewrite Ew. simpl. rewrite (I1 Hc). eexists. reflexivity.
  - right. apply I2. reflexivity.
  - contradiction.
Qed.

(** * Endless scripts: the phases such a script goes through *)

Definition endless_phase (ph : xphase) : Prop :=
  match ph with
  | XMain None _ _ => True
  | XMain (Some _) _ (PostRun None _) => True
  | XPost None _ _ => True
  | XStopped XInterrupted => True
  | _ => False
  end.

Lemma endless_init :
  forall v e main thr post, endless_prog main post -> endless_phase (x_script (xinit v e main thr post)).
Proof.
  intros v e main thr post [Hm|[t Hp]]; subst; simpl; [exact I|].
  destruct main; exact I.
Qed.

Lemma endless_stable : xstable rv (fun s => endless_phase (x_script s)).
Proof.
  intros l s s' H P.
  destruct l; [xstep_inv H; auto | xstep_inv H; auto | | xstep_inv H; auto].
  unfold xstep in H. destruct (x_script s) as [lft thr post|lft thr mt|o] eqn:Es; [| |discriminate].
  - destruct (x_flag s); [inversion H; subst; simpl; exact I|].
    destruct lft as [[|n]|]; inversion H; subst; simpl; try (rewrite Es; exact P).
    + destruct post as [|[j|] pt]; simpl in *; try contradiction. exact I.
    + destruct post as [|[j|] pt]; simpl in *; try contradiction. exact I.
  - simpl in H. destruct (x_flag s); [inversion H; subst; simpl; exact I|].
    destruct lft as [[|n]|]; simpl in P; try contradiction.
    inversion H; subst. rewrite Es. exact I.
Qed.

(** * Progress along fair schedules *)

Lemma xexpire_sets : forall v s, x_ctx_done (xafter v Expire s) = true.
Proof.
  intros v s. unfold xafter, xstep. destruct (x_ctx_done s) eqn:E; [exact E | reflexivity].
Qed.

Lemma xwatch_sets : forall s, xinv s -> x_ctx_done s = true -> x_flag (xafter rv Watch s) = true.
Proof.
  intros s [I1 I2 I3 I4 I5 I6 I7 I8] Hc. unfold xafter, xstep. destruct (x_watcher s) eqn:Ew.
  - simpl. rewrite (I1 Hc). reflexivity.
  - apply I2. reflexivity.
  - contradiction.
Qed.

(** the unit of interpreted code that finds the flag set is the last one, in
    the main script and in the post phase alike *)
Lemma xtick_stops :
  forall s, endless_phase (x_script s) -> x_flag s = true ->
  x_script (xafter rv Tick s) = XStopped XInterrupted.
Proof.
  intros s He Hf. unfold xafter, xstep.
  destruct (x_script s) as [lft thr post|lft thr mt|o] eqn:Es.
  - rewrite Hf. reflexivity.
  - simpl. rewrite Hf. reflexivity.
  - rewrite Es. destruct o; simpl in He; try contradiction. reflexivity.
Qed.

Lemma xfinish_returns :
  forall s o, xinv s -> x_script s = XStopped o -> x_returned (xafter rv Finish s) = Some o.
Proof.
  intros s o Hi Hs. unfold xafter, xstep. rewrite Hs.
  destruct (x_returned s) as [o'|] eqn:Er.
  - rewrite Er. f_equal. pose proof (xi_ret s Hi o' Er). congruence.
  - reflexivity.
Qed.

(** from any state of an endless script - wherever it is, main script or post
    phase: the context ends, then the watcher, the script and the returning
    call get one turn each, with anything in between *)
Lemma fair_suffix_interrupts :
  forall s p0 p1 p2 p3, xinv s -> endless_phase (x_script s) ->
  x_returned (xrun rv (p0 ++ Expire :: p1 ++ Watch :: p2 ++ Tick :: p3 ++ [Finish]) s) = Some XInterrupted.
Proof.
  intros s p0 p1 p2 p3 Hi He.
  rewrite xrun_app, xrun_cons, xrun_app, xrun_cons, xrun_app, xrun_cons, xrun_app.
  set (s0 := xrun rv p0 s).
  assert (xinv s0) as H0 by (apply xinv_xrun; exact Hi).
  set (s1 := xafter rv Expire s0).
  assert (xinv s1) as H1 by (apply xinv_after; exact H0).
  assert (x_ctx_done s1 = true) as C1 by apply xexpire_sets.
  set (s2 := xrun rv p1 s1).
  assert (xinv s2) as H2 by (apply xinv_xrun; exact H1).
  assert (x_ctx_done s2 = true) as C2 by (apply (xstable_xrun rv _ (xctx_done_stable rv)); exact C1).
  set (s3 := xafter rv Watch s2).
  assert (xinv s3) as H3 by (apply xinv_after; exact H2).
  assert (x_flag s3 = true) as F3 by (apply xwatch_sets; assumption).
  set (s4 := xrun rv p2 s3).
  assert (xinv s4) as H4 by (apply xinv_xrun; exact H3).
  assert (x_flag s4 = true) as F4 by (apply (xstable_xrun rv _ (xflag_stable rv)); exact F3).
  assert (endless_phase (x_script s4)) as E4.
  { unfold s4, s3, s2, s1, s0.
    repeat first [ apply (xstable_xrun rv _ endless_stable)
                 | match goal with
                   | |- endless_phase (x_script (xafter rv ?l ?t)) =>
                       unfold xafter at 1; destruct (xstep rv l t) eqn:?;
                       [eapply endless_stable; [eassumption|] | ]
                   end ].
    all: exact He. }
  set (s5 := xafter rv Tick s4).
  assert (xinv s5) as H5 by (apply xinv_after; exact H4).
  assert (x_script s5 = XStopped XInterrupted) as S5 by (apply xtick_stops; assumption).
  set (s6 := xrun rv p3 s5).
  assert (xinv s6) as H6 by (apply xinv_xrun; exact H5).
  assert (x_script s6 = XStopped XInterrupted) as S6
      by (apply (xstable_xrun rv _ (xstopped_stable rv XInterrupted)); exact S5).
  simpl. fold (xafter rv Finish s6). apply xfinish_returns; assumption.
Qed.

Theorem xfair_schedule_interrupts :
  forall e main thr post p0 p1 p2 p3, endless_prog main post ->
  x_returned (xrun rv (p0 ++ Expire :: p1 ++ Watch :: p2 ++ Tick :: p3 ++ [Finish]) (xinit rv e main thr post))
  = Some XInterrupted.
Proof.
  intros e main thr post p0 p1 p2 p3 He.
  apply fair_suffix_interrupts; [apply xinv_init | apply endless_init; exact He].
Qed.

(** * The turns of a finite phase *)

Lemma with_script_twice : forall s a b, with_script (with_script s a) b = with_script s b.
Proof. reflexivity. Qed.

Lemma with_script_same : forall s, with_script s (x_script s) = s.
Proof. intros [a b c d e f g]. reflexivity. Qed.

(** k+1 turns of a main script of k+1 units, the flag not set: RunProgram returns *)
Lemma main_ticks :
  forall v thr post k s, x_flag s = false -> x_script s = XMain (Some k) thr post ->
  xrun v (repeat Tick (S k)) s = with_script s (end_main thr post).
Proof.
  intros v thr post k. induction k as [|k IH]; intros s Hf Hs.
  - simpl. unfold xstep. rewrite Hs, Hf. reflexivity.
  - change (repeat Tick (S (S k))) with (Tick :: repeat Tick (S k)). rewrite xrun_cons.
    unfold xafter, xstep. rewrite Hs, Hf.
    rewrite IH; [apply with_script_twice | exact Hf | reflexivity].
Qed.

(** j+1 turns of a post phase of j+1 units *)
Lemma post_ticks :
  forall v thr mt j s, post_before_cancel v || x_cancelled s = true -> x_flag s = false ->
  x_script s = XPost (Some j) thr mt ->
  xrun v (repeat Tick (S j)) s = with_script s (XStopped (end_post v thr mt)).
Proof.
  intros v thr mt j. induction j as [|j IH]; intros s Hc Hf Hs.
  - simpl. unfold xstep. rewrite Hs, Hc, Hf. reflexivity.
  - change (repeat Tick (S (S j))) with (Tick :: repeat Tick (S j)). rewrite xrun_cons.
    unfold xafter, xstep. rewrite Hs, Hc, Hf.
    rewrite IH; [apply with_script_twice | exact Hc | exact Hf | reflexivity].
Qed.

(** * (a) an endless post phase is interrupted like an endless script *)

(** the main script of k+1 units has returned (or thrown), the endless getter
    (toString) is running; then the context ends *)
Theorem endless_post_interrupted :
  forall k thr pt p0 p1 p2 p3,
  let s := xrun rv (repeat Tick (S k)) (xinit rv false (Some k) thr (PostRun None pt)) in
  x_script s = XPost None pt thr
  /\ x_returned s = None
  /\ x_returned (xrun rv (p0 ++ Expire :: p1 ++ Watch :: p2 ++ Tick :: p3 ++ [Finish]) s) = Some XInterrupted.
Proof.
  intros k thr pt p0 p1 p2 p3 s.
  assert (s = with_script (xinit rv false (Some k) thr (PostRun None pt)) (XPost None pt thr)) as Es
      by (unfold s; rewrite (main_ticks rv thr (PostRun None pt) k); reflexivity).
  split; [rewrite Es; reflexivity|]. split; [rewrite Es; reflexivity|].
  apply fair_suffix_interrupts.
  - unfold s. apply xinv_xrun, xinv_init.
  - rewrite Es. exact I.
Qed.

(** an endless script (either phase) returns nothing but Interrupted *)
Theorem xinfinite_only_interrupted :
  forall e main thr post s o, endless_prog main post ->
  xreach rv (xinit rv e main thr post) s -> x_returned s = Some o -> o = XInterrupted.
Proof.
  intros e main thr post s o He Hr Ho.
  assert (endless_phase (x_script s)) as Hp
      by (apply (xstable_reach rv _ endless_stable (xinit rv e main thr post) s); [apply endless_init; exact He | exact Hr]).
  apply xinv_reach in Hr. apply (xi_ret s Hr) in Ho. rewrite Ho in Hp.
  destruct o; simpl in Hp; try contradiction. reflexivity.
Qed.

(** * (b) a finite post phase completes *)

Lemma xfinish_after_stop :
  forall s o, xinv s -> x_script s = XStopped o -> x_returned (xrun rv [Finish] s) = Some o.
Proof. intros s o Hi Hs. simpl. fold (xafter rv Finish s). apply xfinish_returns; assumption. Qed.

Theorem finite_post_completes :
  forall k thr j,
  x_returned (xrun rv (repeat Tick (S k) ++ repeat Tick (S j) ++ [Finish])
                   (xinit rv false (Some k) thr (PostRun (Some j) false)))
  = Some (script_result thr).
Proof.
  intros k thr j. rewrite xrun_app, xrun_app.
  rewrite (main_ticks rv thr (PostRun (Some j) false) k) by reflexivity.
  rewrite (post_ticks rv false thr j) by reflexivity.
  apply xfinish_after_stop; [|reflexivity].
  rewrite <- (post_ticks rv false thr j) by reflexivity.
  rewrite <- (main_ticks rv thr (PostRun (Some j) false) k (xinit rv false (Some k) thr (PostRun (Some j) false))) by reflexivity.
  apply xinv_xrun, xinv_xrun, xinv_init.
Qed.

Theorem throwing_post_is_an_error :
  forall k thr j,
  x_returned (xrun rv (repeat Tick (S k) ++ repeat Tick (S j) ++ [Finish])
                   (xinit rv false (Some k) thr (PostRun (Some j) true)))
  = Some XPostFailed.
Proof.
  intros k thr j. rewrite xrun_app, xrun_app.
  rewrite (main_ticks rv thr (PostRun (Some j) true) k) by reflexivity.
  rewrite (post_ticks rv true thr j) by reflexivity.
  apply xfinish_after_stop; [|reflexivity].
  rewrite <- (post_ticks rv true thr j) by reflexivity.
  rewrite <- (main_ticks rv thr (PostRun (Some j) true) k (xinit rv false (Some k) thr (PostRun (Some j) true))) by reflexivity.
  apply xinv_xrun, xinv_xrun, xinv_init.
Qed.

Theorem no_post_phase_result :
  forall k thr,
  x_returned (xrun rv (repeat Tick (S k) ++ [Finish]) (xinit rv false (Some k) thr PostNone))
  = Some (script_result thr).
Proof.
  intros k thr. rewrite xrun_app.
  rewrite (main_ticks rv thr PostNone k) by reflexivity.
  apply xfinish_after_stop; [|reflexivity].
  rewrite <- (main_ticks rv thr PostNone k (xinit rv false (Some k) thr PostNone)) by reflexivity.
  apply xinv_xrun, xinv_init.
Qed.

(** * Without an end of the context: no interruption is reported, and what is
      returned is the script's result (or the failure of the post phase) *)

Definition expected (thr : bool) (post : post_spec) : xoutcome :=
  match post with
  | PostRun _ true => XPostFailed
  | _ => script_result thr
  end.

Definition on_track (thr : bool) (post : post_spec) (ph : xphase) : Prop :=
  match ph with
  | XMain _ thr' post' => thr' = thr /\ post' = post
  | XPost _ pt mt => mt = thr /\ match post with PostRun _ pt' => pt' = pt | PostNone => False end
  | XStopped o => o = expected thr post
  end.

Record xquiet (thr : bool) (post : post_spec) (s : xstate) : Prop := mk_xquiet {
  xq_ctx : x_ctx_done s = false;
  xq_ictx : x_returned s = None -> x_ictx_done s = false;
  xq_track : on_track thr post (x_script s)
}.

Lemma expected_not_interrupted : forall thr post, expected thr post <> XInterrupted.
Proof. intros thr post. unfold expected, script_result. destruct post as [|l [|]]; destruct thr; discriminate. Qed.

Lemma xquiet_init : forall main thr post, xquiet thr post (xinit rv false main thr post).
Proof. intros main thr post. constructor; simpl; auto. Qed.

Lemma xquiet_step :
  forall thr post l s s', l <> Expire -> xinv s -> xquiet thr post s -> xstep rv l s = Some s' ->
  xquiet thr post s'.
Proof.
  intros thr post l s s' Hl [I1 I2 I3 I4 I5 I6 I7 I8] [Q1 Q2 Q3] H. destruct l; [congruence| | |].
  - (* Watch *)
    unfold xstep in H. destruct (x_watcher s) eqn:Ew; try discriminate. simpl in H.
    destruct (x_ictx_done s) eqn:Ei; [|discriminate]. inversion H; subst; clear H.
    constructor; simpl; auto.
  - (* Tick *)
    assert (x_flag s = true -> False) as Hnf.
    { (* the flag is set only after cancel(), i.e. after both phases *)
      intro Ef. pose proof (I7 (I3 Ef)) as Hi.
      destruct (x_returned s) as [o|] eqn:Er.
      - pose proof (I5 o eq_refl) as Hs. unfold xstep in H. rewrite Hs in H. discriminate.
      - rewrite (Q2 eq_refl) in Hi. discriminate. }
    unfold xstep in H. destruct (x_script s) as [lft thr' post'|lft pt mt|o] eqn:Es; [| |discriminate].
    + destruct (x_flag s) eqn:Ef; [exfalso; apply Hnf; reflexivity|].
      simpl in Q3. destruct Q3 as [-> ->].
      destruct lft as [[|n]|]; inversion H; subst; clear H; constructor; simpl; auto.
      * unfold end_main. destruct post as [|l pt]; simpl; [reflexivity | split; reflexivity].
      * rewrite Es. simpl. split; reflexivity.
    + simpl in H. destruct (x_flag s) eqn:Ef; [exfalso; apply Hnf; reflexivity|].
      simpl in Q3. destruct Q3 as [-> Hp].
      destruct lft as [[|n]|]; inversion H; subst; clear H; constructor; simpl; auto.
      * destruct post as [|l pt']; [contradiction|]. subst pt'. unfold end_post, expected. simpl.
        destruct pt; reflexivity.
      * rewrite Es. simpl. split; [reflexivity | exact Hp].
  - (* Finish *)
    unfold xstep in H. destruct (x_script s) as [lft thr' post'|lft pt mt|o] eqn:Es; [discriminate|discriminate|].
    destruct (x_returned s) eqn:Er; [discriminate|]. inversion H; subst; clear H.
    constructor; simpl; auto; try congruence.
Qed.

Lemma xquiet_xrun :
  forall thr post ls s, ~ In Expire ls -> xinv s -> xquiet thr post s -> xquiet thr post (xrun rv ls s).
Proof.
  intros thr post ls. induction ls as [|l r IH]; intros s Hn Hi Hq; [exact Hq|].
  simpl. assert (l <> Expire) as Hl by (intro; subst; apply Hn; left; reflexivity).
  assert (~ In Expire r) as Hr by (intro; apply Hn; right; assumption).
  destruct (xstep rv l s) as [s'|] eqn:E.
  - apply IH; [exact Hr | eapply xinv_step; eassumption | eapply xquiet_step; eassumption].
  - apply IH; assumption.
Qed.

Theorem result_is_the_scripts :
  forall main thr post ls o, ~ In Expire ls ->
  x_returned (xrun rv ls (xinit rv false main thr post)) = Some o -> o = expected thr post.
Proof.
  intros main thr post ls o Hn Ho.
  pose proof (xquiet_xrun thr post ls _ Hn (xinv_init false main thr post) (xquiet_init main thr post)) as Hq.
  pose proof (xinv_xrun ls _ (xinv_init false main thr post)) as Hi.
  apply (xi_ret _ Hi) in Ho. pose proof (xq_track _ _ _ Hq) as Ht. rewrite Ho in Ht. exact Ht.
Qed.

Theorem xno_spurious_interrupt :
  forall main thr post ls, ~ In Expire ls ->
  x_returned (xrun rv ls (xinit rv false main thr post)) <> Some XInterrupted.
Proof.
  intros main thr post ls Hn Ho. apply result_is_the_scripts in Ho; [|exact Hn].
  symmetry in Ho. exact (expected_not_interrupted thr post Ho).
Qed.

(** * (c) no leak *)

Theorem xno_leak :
  forall e main thr post s, xreach rv (xinit rv e main thr post) s -> x_returned s <> None ->
  x_ictx_done s = true /\ xwatcher_blocked rv s = false.
Proof.
  intros e main thr post s Hr Hret. apply xinv_reach in Hr.
  pose proof (xi_ret_ictx s Hr Hret) as Hi. split; [exact Hi|].
  unfold xwatcher_blocked. destruct (x_watcher s) eqn:Ew; try reflexivity.
  unfold xstep. rewrite Ew. simpl. rewrite Hi. reflexivity.
Qed.

Theorem xwatcher_exits_after_return :
  forall e main thr post s, xreach rv (xinit rv e main thr post) s -> x_returned s <> None ->
  forall p q, x_watcher (xrun rv (p ++ Watch :: q) s) = Exited.
Proof.
  intros e main thr post s Hr Hret p q. apply xinv_reach in Hr.
  pose proof (xi_ret_ictx s Hr Hret) as Hi.
  rewrite xrun_app, xrun_cons.
  set (s1 := xrun rv p s).
  assert (xinv s1) as H1 by (apply xinv_xrun; exact Hr).
  assert (x_ictx_done s1 = true) as Hi1 by (apply (xstable_xrun rv _ (xictx_stable rv)); exact Hi).
  apply (xstable_xrun rv _ (xexited_stable rv)).
  unfold xafter, xstep. destruct (x_watcher s1) eqn:Ew.
  - simpl. rewrite Hi1. reflexivity.
  - exact Ew.
  - exfalso. exact (xi_present s1 H1 Ew).
Qed.

(** * (d) The old order *)

Definition xfair_interrupts_for (v : xvariant) : Prop :=
  forall e main thr post p0 p1 p2 p3, endless_prog main post ->
  x_returned (xrun v (p0 ++ Expire :: p1 ++ Watch :: p2 ++ Tick :: p3 ++ [Finish]) (xinit v e main thr post))
  = Some XInterrupted.
Definition xno_leak_for (v : xvariant) : Prop :=
  forall e main thr post s, xreach v (xinit v e main thr post) s -> x_returned s <> None ->
  xwatcher_blocked v s = false.
Definition xno_spurious_for (v : xvariant) : Prop :=
  forall main thr post ls, ~ In Expire ls ->
  x_returned (xrun v ls (xinit v false main thr post)) <> Some XInterrupted.

Lemma repaired_fair_interrupts : xfair_interrupts_for rv.
Proof. intros e main thr post p0 p1 p2 p3 He. apply xfair_schedule_interrupts. exact He. Qed.
Lemma repaired_no_crash : no_crash_for rv.
Proof. apply trapped_never_crashes. reflexivity. Qed.
Lemma repaired_no_spurious : xno_spurious_for rv.
Proof. intros main thr post ls Hn. apply xno_spurious_interrupt. exact Hn. Qed.
Lemma repaired_no_leak : xno_leak_for rv.
Proof. intros e main thr post s Hr Hret. apply (xno_leak e main thr post s Hr Hret). Qed.

(** the getter loops; the main script has returned and cancel() has been
    called ([Tick; Finish]); then the context ends and everybody gets a turn:
    the execution is not reported as Interrupted *)
Lemma old_order_not_interrupted : ~ xfair_interrupts_for old_order.
Proof.
  intro H.
  specialize (H false (Some 0) false (PostRun None false) [Tick; Finish] [] [] []
                (or_intror (ex_intro _ false eq_refl))).
  vm_compute in H. discriminate.
Qed.

(** a getter (toString) that throws, outside the trap: a panic *)
Lemma old_order_crashes : ~ no_crash_for old_order.
Proof.
  intro H.
  specialize (H false (Some 0) false (PostRun (Some 0) true)
                (xrun old_order [Tick; Finish; Tick; Finish] (xinit old_order false (Some 0) false (PostRun (Some 0) true)))
                (xreach_xrun _ _ _ _ (xreach_init _ _))).
  apply H. vm_compute. reflexivity.
Qed.

Lemma untrapped_crashes : ~ no_crash_for untrapped.
Proof.
  intro H.
  specialize (H false (Some 0) true (PostRun (Some 0) true)
                (xrun untrapped [Tick; Tick; Finish] (xinit untrapped false (Some 0) true (PostRun (Some 0) true)))
                (xreach_xrun _ _ _ _ (xreach_init _ _))).
  apply H. vm_compute. reflexivity.
Qed.

(** ... and since that panic skips cancel(), the watcher is left behind *)
Lemma untrapped_leaks : ~ xno_leak_for untrapped.
Proof.
  intro H.
  specialize (H false (Some 0) true (PostRun (Some 0) true)
                (xrun untrapped [Tick; Tick; Finish] (xinit untrapped false (Some 0) true (PostRun (Some 0) true)))
                (xreach_xrun _ _ _ _ (xreach_init _ _))).
  vm_compute in H. assert (true = false) as E by (apply H; discriminate). discriminate.
Qed.

(** the old order under a trap: the Interrupt that follows cancel() is taken
    for an end of the context although there was none - a getter of one unit
    is reported as Interrupted *)
Lemma old_order_trapped_spurious : ~ xno_spurious_for old_order_trapped.
Proof.
  intro H.
  apply (H (Some 0) false (PostRun (Some 0) false) [Tick; Finish; Watch; Tick; Finish]).
  - simpl. intuition discriminate.
  - vm_compute. reflexivity.
Qed.

(** ** what the old order does *)

Definition post_or_not_interrupted (ph : xphase) : Prop :=
  match ph with
  | XMain _ _ _ => False
  | XPost _ _ _ => True
  | XStopped o => o <> XInterrupted
  end.

Lemma old_order_post_stable :
  xstable old_order (fun s => post_or_not_interrupted (x_script s) /\ x_returned s <> Some XInterrupted).
Proof.
  intros l s s' H [P R].
  destruct l; [xstep_inv H; auto | xstep_inv H; auto | | ].
  - unfold xstep in H. destruct (x_script s) as [lft thr post|lft thr mt|o] eqn:Es; [contradiction| |discriminate].
    simpl in H. destruct (x_cancelled s); [|discriminate].
    destruct (x_flag s); [inversion H; subst; simpl; split; [discriminate | exact R]|].
    destruct lft as [[|n]|]; inversion H; subst; simpl; rewrite ?Es; try (split; [exact I | exact R]).
    split; [|exact R]. unfold end_post, script_result. simpl. destruct thr; [|destruct mt]; discriminate.
  - unfold xstep in H. destruct (x_script s) as [lft thr post|lft thr mt|o] eqn:Es; [discriminate| |].
    + simpl in H. destruct (x_cancelled s); [discriminate|]. inversion H; subst; simpl.
      rewrite ?Es. split; [exact I | exact R].
    + destruct (x_returned s) eqn:Er; [discriminate|]. inversion H; subst; simpl.
      rewrite ?Es. split; [exact P|]. simpl in P. congruence.
Qed.

(** once the post phase has been entered the old order never reports an
    interruption, whatever the schedule *)
Theorem old_order_never_interrupts_post :
  forall s ls lft thr mt, x_script s = XPost lft thr mt -> x_returned s = None ->
  x_returned (xrun old_order ls s) <> Some XInterrupted.
Proof.
  intros s ls lft thr mt Hs Hr.
  apply (xstable_xrun old_order _ old_order_post_stable ls s).
  rewrite Hs, Hr. split; [exact I | discriminate].
Qed.

Record oinv (s : xstate) : Prop := mk_oinv {
  oi_exited : x_watcher s = Exited -> x_flag s = true;
  oi_present : x_watcher s <> Absent;
  oi_cancelled : x_cancelled s = true -> x_ictx_done s = true;
  oi_ret : forall o, x_returned s = Some o -> x_script s = XStopped o;
  oi_crash : x_script s = XStopped XCrashed -> x_cancelled s = true
}.

Lemma oinv_init : forall e main thr post, oinv (xinit old_order e main thr post).
Proof. intros. constructor; simpl; intros; congruence. Qed.

Lemma oinv_step : forall l s s', oinv s -> xstep old_order l s = Some s' -> oinv s'.
Proof.
  intros l s s' [I1 I2 I3 I4 I5] H.
  assert (forall o, x_returned s' = Some o -> x_script s' = XStopped o) as R
      by (eapply (xret_script_stable old_order); eassumption).
  destruct l; xstep_inv H; constructor; simpl; intros;
    repeat match goal with
           | H : ?a = ?a -> _ |- _ => specialize (H eq_refl)
           end;
    try congruence; auto.
  all: try (intuition congruence).
  all: try (destruct o; simpl in *; try reflexivity; auto).
  (* the main script never ends in a panic *)
  exfalso. unfold end_main, script_result in H. destruct post; [destruct throws|]; discriminate.
Qed.

Lemma oinv_after : forall l s, oinv s -> oinv (xafter old_order l s).
Proof.
  intros l s H. unfold xafter. destruct (xstep old_order l s) eqn:E; [eapply oinv_step; eassumption | exact H].
Qed.

Lemma oinv_xrun : forall ls s, oinv s -> oinv (xrun old_order ls s).
Proof.
  intros ls. induction ls as [|l r IH]; intros s H; [exact H|].
  rewrite xrun_cons. apply IH. apply oinv_after. exact H.
Qed.

Lemma oinv_reach : forall e main thr post s, xreach old_order (xinit old_order e main thr post) s -> oinv s.
Proof.
  intros e main thr post s H. induction H as [|s l s' _ IH Hs]; [apply oinv_init | eapply oinv_step; eassumption].
Qed.

Definition endless_post_or_crashed (ph : xphase) : Prop :=
  match ph with
  | XPost None _ _ => True
  | XStopped XCrashed => True
  | _ => False
  end.

Lemma endless_post_or_crashed_stable : xstable old_order (fun s => endless_post_or_crashed (x_script s)).
Proof.
  intros l s s' H P.
  destruct l; [xstep_inv H; auto | xstep_inv H; auto | | xstep_inv H; auto].
  unfold xstep in H. destruct (x_script s) as [lft thr post|lft thr mt|o] eqn:Es; [contradiction| |discriminate].
  simpl in H. destruct (x_cancelled s); [|discriminate].
  destruct (x_flag s); [inversion H; subst; simpl; exact I|].
  destruct lft as [[|n]|]; simpl in P; try contradiction.
  inversion H; subst. rewrite Es. exact I.
Qed.

Lemma cancelled_stable : forall v, xstable v (fun s => x_cancelled s = true).
Proof.
  intros v l s s' H P. destruct l; xstep_inv H; auto. rewrite P. apply orb_true_r.
Qed.

(** the getter loops after cancel(): cancel() wakes the watcher, the watcher
    interrupts the runtime, the getter's next unit panics out of Exec - under
    every schedule that gives cancel(), the watcher, the script and the
    return one turn each, whether the context ends or not *)

Lemma xstable_after : forall v P, xstable v P -> forall l s, P s -> P (xafter v l s).
Proof.
  intros v P HP l s H. unfold xafter. destruct (xstep v l s) eqn:E; [eapply HP; eassumption | exact H].
Qed.

Lemma old_cancel_step :
  forall s, oinv s -> endless_post_or_crashed (x_script s) ->
  x_ictx_done (xafter old_order Finish s) = true /\ x_cancelled (xafter old_order Finish s) = true.
Proof.
  intros s [J1 J2 J3 J4 J5] E. destruct (x_cancelled s) eqn:Ec.
  - split.
    + apply (xstable_after old_order _ (xictx_stable old_order)). apply J3. reflexivity.
    + apply (xstable_after old_order _ (cancelled_stable old_order)). exact Ec.
  - unfold xafter, xstep.
    destruct (x_script s) as [lft thr post|[j|] pt mt|o] eqn:Es; simpl in E; try contradiction.
    + simpl. rewrite Ec. simpl. split; reflexivity.
    + destruct o; try contradiction. discriminate (J5 eq_refl).
Qed.

Lemma old_watch_sets :
  forall s, oinv s -> x_ictx_done s = true -> x_flag (xafter old_order Watch s) = true.
Proof.
  intros s [J1 J2 J3 J4 J5] Hi. unfold xafter, xstep. destruct (x_watcher s) eqn:Ew.
  - simpl. rewrite Hi. reflexivity.
  - apply J1. reflexivity.
  - contradiction.
Qed.

Lemma old_tick_panics :
  forall s, endless_post_or_crashed (x_script s) -> x_cancelled s = true -> x_flag s = true ->
  x_script (xafter old_order Tick s) = XStopped XCrashed.
Proof.
  intros s E Hc Hf. unfold xafter, xstep.
  destruct (x_script s) as [lft thr post|[j|] pt mt|o] eqn:Es; simpl in E; try contradiction.
  - simpl. rewrite Hc, Hf. reflexivity.
  - destruct o; try contradiction. exact Es.
Qed.

Lemma old_finish_returns :
  forall s o, oinv s -> x_script s = XStopped o -> x_returned (xafter old_order Finish s) = Some o.
Proof.
  intros s o Hi Hs. unfold xafter, xstep. rewrite Hs.
  destruct (x_returned s) as [o'|] eqn:Er.
  - rewrite Er. f_equal. pose proof (oi_ret s Hi o' Er). congruence.
  - reflexivity.
Qed.

(** the getter loops after cancel(): cancel() wakes the watcher, the watcher
    interrupts the runtime, the getter's next unit panics out of Exec - under
    every schedule that gives cancel(), the watcher, the script and the
    return one turn each, whether the context ends or not *)
Theorem old_order_endless_post_panics :
  forall e main thr post s pt mt p0 p1 p2 p3,
  xreach old_order (xinit old_order e main thr post) s -> x_script s = XPost None pt mt ->
  x_returned (xrun old_order (p0 ++ Finish :: p1 ++ Watch :: p2 ++ Tick :: p3 ++ [Finish]) s) = Some XCrashed.
Proof.
  intros e main thr post s pt mt p0 p1 p2 p3 Hr Hs. apply oinv_reach in Hr.
  assert (endless_post_or_crashed (x_script s)) as E by (rewrite Hs; exact I).
  rewrite xrun_app, xrun_cons, xrun_app, xrun_cons, xrun_app, xrun_cons, xrun_app.
  set (s0 := xrun old_order p0 s).
  assert (oinv s0) as H0 by (apply oinv_xrun; exact Hr).
  assert (endless_post_or_crashed (x_script s0)) as E0
      by (apply (xstable_xrun old_order _ endless_post_or_crashed_stable); exact E).
  set (s1 := xafter old_order Finish s0).
  assert (oinv s1) as H1 by (apply oinv_after; exact H0).
  assert (endless_post_or_crashed (x_script s1)) as E1
      by (apply (xstable_after old_order _ endless_post_or_crashed_stable); exact E0).
  destruct (old_cancel_step s0 H0 E0) as [C1 K1]. fold s1 in C1, K1.
  set (s2 := xrun old_order p1 s1).
  assert (oinv s2) as H2 by (apply oinv_xrun; exact H1).
  assert (endless_post_or_crashed (x_script s2)) as E2
      by (apply (xstable_xrun old_order _ endless_post_or_crashed_stable); exact E1).
  assert (x_ictx_done s2 = true) as C2 by (apply (xstable_xrun old_order _ (xictx_stable old_order)); exact C1).
  assert (x_cancelled s2 = true) as K2 by (apply (xstable_xrun old_order _ (cancelled_stable old_order)); exact K1).
  set (s3 := xafter old_order Watch s2).
  assert (oinv s3) as H3 by (apply oinv_after; exact H2).
  assert (endless_post_or_crashed (x_script s3)) as E3
      by (apply (xstable_after old_order _ endless_post_or_crashed_stable); exact E2).
  assert (x_cancelled s3 = true) as K3 by (apply (xstable_after old_order _ (cancelled_stable old_order)); exact K2).
  assert (x_flag s3 = true) as F3 by (apply old_watch_sets; assumption).
  set (s4 := xrun old_order p2 s3).
  assert (oinv s4) as H4 by (apply oinv_xrun; exact H3).
  assert (endless_post_or_crashed (x_script s4)) as E4
      by (apply (xstable_xrun old_order _ endless_post_or_crashed_stable); exact E3).
  assert (x_cancelled s4 = true) as K4 by (apply (xstable_xrun old_order _ (cancelled_stable old_order)); exact K3).
  assert (x_flag s4 = true) as F4 by (apply (xstable_xrun old_order _ (xflag_stable old_order)); exact F3).
  set (s5 := xafter old_order Tick s4).
  assert (oinv s5) as H5 by (apply oinv_after; exact H4).
  assert (x_script s5 = XStopped XCrashed) as S5 by (apply old_tick_panics; assumption).
  set (s6 := xrun old_order p3 s5).
  assert (oinv s6) as H6 by (apply oinv_xrun; exact H5).
  assert (x_script s6 = XStopped XCrashed) as S6
      by (apply (xstable_xrun old_order _ (xstopped_stable old_order XCrashed)); exact S5).
  simpl. fold (xafter old_order Finish s6). apply old_finish_returns; assumption.
Qed.

(** the same for the repaired order needs the context to end, and then the
    result is Interrupted: [endless_post_interrupted] *)

(** * The system of ConcJs.v is the special case "no post phase" *)

Definition plain_phase (ph : xphase) : Prop :=
  match ph with
  | XMain _ _ PostNone => True
  | XStopped XInterrupted | XStopped XFinished | XStopped XThrew => True
  | _ => False
  end.

Lemma proj_step :
  forall v l s, plain_phase (x_script s) ->
  match xstep v l s with
  | Some s' => tstep (xv_base v) l (proj s) = Some (proj s') /\ plain_phase (x_script s')
  | None => tstep (xv_base v) l (proj s) = None
  end.
Proof.
  intros v l [c i f sc w ca r] P. simpl in P.
  destruct l; unfold xstep, tstep, proj, with_script; simpl.
  - destruct c; [reflexivity|]. split; [reflexivity | exact P].
  - destruct w; try reflexivity.
    destruct (if v_watch_ictx (xv_base v) then i else c); [|reflexivity].
    split; [reflexivity | exact P].
  - destruct sc as [lft thr post|lft thr mt|o]; simpl in *; try contradiction; [|reflexivity].
    destruct post; try contradiction.
    destruct f; [split; [reflexivity | exact I]|].
    destruct lft as [[|n]|]; simpl.
    + split; [destruct thr; reflexivity | destruct thr; exact I].
    + split; [reflexivity | exact I].
    + split; [reflexivity | exact I].
  - destruct sc as [lft thr post|lft thr mt|o]; simpl in *; try contradiction; [reflexivity|].
    destruct r; simpl; [reflexivity|].
    destruct o; simpl in *; try contradiction; split; try reflexivity; exact I.
Qed.

Lemma proj_xrun :
  forall v ls s, plain_phase (x_script s) -> proj (xrun v ls s) = run_labels (xv_base v) ls (proj s).
Proof.
  intros v ls. induction ls as [|l r IH]; intros s P; [reflexivity|].
  simpl. pose proof (proj_step v l s P) as H. destruct (xstep v l s) as [s'|].
  - destruct H as [H P']. rewrite H. apply IH. exact P'.
  - rewrite H. apply IH. exact P.
Qed.

Lemma proj_init : forall v e k thr, proj (xinit v e k thr PostNone) = init (xv_base v) e k.
Proof. reflexivity. Qed.

(** every execution of the system of ConcJs.v (every variant, every schedule)
    is the image of the execution of this system without a post phase,
    whatever the two new switches say *)
Theorem conservative :
  forall b before trapped e k thr ls,
  run_labels b ls (init b e k)
  = proj (xrun (mk_xvariant b before trapped) ls (xinit (mk_xvariant b before trapped) e k thr PostNone)).
Proof.
  intros b before trapped e k thr ls.
  rewrite (proj_xrun (mk_xvariant b before trapped)) by exact I. reflexivity.
Qed.

(** C11_fair_schedule_interrupts of ConcJs.v obtained from the theorem of this file *)
Corollary fair_schedule_interrupts_again :
  forall e p0 p1 p2 p3,
  returned (run_labels faithful_variant (p0 ++ Expire :: p1 ++ Watch :: p2 ++ Tick :: p3 ++ [Finish])
                       (init faithful_variant e None))
  = Some Interrupted.
Proof.
  intros e p0 p1 p2 p3.
  rewrite (conservative faithful_variant true true e None false). fold rv. unfold proj. simpl.
  rewrite (xfair_schedule_interrupts e None false PostNone p0 p1 p2 p3 (or_introl eq_refl)). reflexivity.
Qed.

(** * Concrete runs *)

Lemma export_examples :
  (* an endless getter, the context ends while it runs *)
  x_returned (xrun rv [Tick; Tick; Expire; Watch; Tick; Finish] (xinit rv false (Some 0) false (PostRun None false)))
  = Some XInterrupted
  (* the same in the old order: cancel(), the stale Interrupt, a panic *)
  /\ x_returned (xrun old_order [Tick; Finish; Tick; Expire; Watch; Tick; Finish]
                      (xinit old_order false (Some 0) false (PostRun None false))) = Some XCrashed
  (* a getter of two units *)
  /\ x_returned (xrun rv [Tick; Tick; Tick; Finish] (xinit rv false (Some 0) false (PostRun (Some 1) false)))
     = Some XFinished
  (* a thrown object whose toString takes one unit *)
  /\ x_returned (xrun rv [Tick; Tick; Finish] (xinit rv false (Some 0) true (PostRun (Some 0) false)))
     = Some XThrew
  (* a throwing getter: an error; in the old order: a panic *)
  /\ x_returned (xrun rv [Tick; Tick; Finish] (xinit rv false (Some 0) false (PostRun (Some 0) true)))
     = Some XPostFailed
  /\ x_returned (xrun old_order [Tick; Finish; Tick; Finish] (xinit old_order false (Some 0) false (PostRun (Some 0) true)))
     = Some XCrashed
  (* the watcher after the return *)
  /\ xwatcher_blocked rv (xrun rv [Tick; Tick; Finish] (xinit rv false (Some 0) false (PostRun (Some 0) false))) = false
  /\ x_watcher (xrun rv [Tick; Tick; Finish; Watch] (xinit rv false (Some 0) false (PostRun (Some 0) false))) = Exited
  (* the post phase counts as interpreted code: one unit after the flag *)
  /\ xticks_taken rv [Tick; Tick; Expire; Watch; Tick; Tick; Tick] (xinit rv false (Some 0) false (PostRun None false)) = 3.
Proof. vm_compute. repeat split. Qed.
