(** Basic lemmas shared by the completeness proofs: strings, [json_eqb],
    an induction principle for [json], bindings restricted to a key set,
    [picks]/[inj_assign] by pairwise distinct positions. *)
From Sheens Require Export Spec.Embed.
From Coq Require Import Lia.

(** * Facts about the generated constants (isolated here) *)
Lemma allow_property_variables_true : allow_property_variables = true.
Proof. reflexivity. Qed.
Lemma inequalities_true : inequalities = true.
Proof. reflexivity. Qed.
Lemma anon_var_is_var : is_var anon_var = true.
Proof. reflexivity. Qed.
Lemma anon_var_not_optional : is_optional anon_var = false.
Proof. reflexivity. Qed.

(** * Booleans and small helpers *)
Lemma andb_prop_l : forall a b, a && b = true -> a = true.
Proof. intros a b H; apply andb_true_iff in H; tauto. Qed.
Lemma andb_prop_r : forall a b, a && b = true -> b = true.
Proof. intros a b H; apply andb_true_iff in H; tauto. Qed.

Ltac split_andb :=
  repeat match goal with
         | H : _ && _ = true |- _ => apply andb_true_iff in H; destruct H
         end.

(** * Strings *)
Lemma is_anon_eq : forall s, is_anon s = true -> s = anon_var.
Proof. intros s H; apply String.eqb_eq in H; exact H. Qed.

Lemma is_anon_not_optional : forall s, is_anon s = true -> is_optional s = false.
Proof. intros s H; apply is_anon_eq in H; subst; reflexivity. Qed.

Lemma smem_In : forall s l, smem s l = true <-> In s l.
Proof.
  intros s l; unfold smem; rewrite existsb_exists; split.
  - intros [x [Hin Hx]]; apply String.eqb_eq in Hx; subst; exact Hin.
  - intros Hin; exists s; split; [exact Hin | apply String.eqb_refl].
Qed.

Lemma smem_false : forall s l, smem s l = false <-> ~ In s l.
Proof.
  intros s l; split.
  - intros H Hin; apply smem_In in Hin; congruence.
  - intros H; destruct (smem s l) eqn:E; [apply smem_In in E; contradiction | reflexivity].
Qed.

(** ** the order on strings is transitive *)
Lemma ascii_compare_lt_trans : forall a b c,
  Ascii.compare a b = Lt -> Ascii.compare b c = Lt -> Ascii.compare a c = Lt.
Proof.
  unfold Ascii.compare; intros a b c H1 H2.
  apply N.compare_lt_iff in H1; apply N.compare_lt_iff in H2; apply N.compare_lt_iff;
  eapply N.lt_trans; eauto.
Qed.

Lemma string_compare_lt_trans : forall a b c,
  String.compare a b = Lt -> String.compare b c = Lt -> String.compare a c = Lt.
Proof.
  induction a as [|x a IH]; intros b c H1 H2.
  - destruct b; [discriminate|]. destruct c; [discriminate | reflexivity].
  - destruct b as [|y b]; [discriminate|]. destruct c as [|z c]; [discriminate|].
    cbn in *.
    destruct (Ascii.compare x y) eqn:Exy; try discriminate.
    + apply Ascii.compare_eq_iff in Exy; subst y.
      destruct (Ascii.compare x z) eqn:Exz; try discriminate; [eapply IH; eauto | reflexivity].
    + destruct (Ascii.compare y z) eqn:Eyz; try discriminate.
      * apply Ascii.compare_eq_iff in Eyz; subst z. rewrite Exy; reflexivity.
      * rewrite (ascii_compare_lt_trans _ _ _ Exy Eyz); reflexivity.
Qed.

Lemma string_compare_refl : forall a, String.compare a a = Eq.
Proof.
  induction a as [|x a IH]; [reflexivity|]. cbn.
  unfold Ascii.compare; rewrite N.compare_refl; exact IH.
Qed.

Lemma string_compare_lt_neq : forall a b, String.compare a b = Lt -> String.eqb a b = false.
Proof.
  intros a b H; apply String.eqb_neq; intros ->; rewrite string_compare_refl in H; discriminate.
Qed.

Lemma string_ltb_lt : forall a b, String.ltb a b = true -> String.compare a b = Lt.
Proof. unfold String.ltb; intros a b H; destruct (String.compare a b); congruence. Qed.

(** * An induction principle for [json] *)
Section JsonInd.
  Variable P : json -> Prop.
  Hypothesis Hnull : P JNull.
  Hypothesis Hbool : forall b, P (JBool b).
  Hypothesis Hnum : forall z, P (JNum z).
  Hypothesis Hstr : forall s, P (JStr s).
  Hypothesis Harr : forall l, Forall P l -> P (JArr l).
  Hypothesis Hobj : forall kvs, Forall (fun kv => P (snd kv)) kvs -> P (JObj kvs).

  Fixpoint json_ind' (j : json) : P j :=
    match j with
    | JNull => Hnull
    | JBool b => Hbool b
    | JNum z => Hnum z
    | JStr s => Hstr s
    | JArr l =>
        Harr l ((fix go (l : list json) : Forall P l :=
                   match l with
                   | [] => Forall_nil _
                   | x :: r => Forall_cons x (json_ind' x) (go r)
                   end) l)
    | JObj kvs =>
        Hobj kvs ((fix go (l : list (string * json)) : Forall (fun kv => P (snd kv)) l :=
                     match l with
                     | [] => Forall_nil _
                     | kv :: r => Forall_cons kv (json_ind' (snd kv)) (go r)
                     end) kvs)
    end.
End JsonInd.

(** * [json_eqb] decides equality *)
Definition arr_eqb_go :=
  fix go (l m : list json) {struct l} : bool :=
    match l, m with
    | [], [] => true
    | x :: l', y :: m' => json_eqb x y && go l' m'
    | _, _ => false
    end.
Definition obj_eqb_go :=
  fix go (l m : list (string * json)) {struct l} : bool :=
    match l, m with
    | [], [] => true
    | (k, x) :: l', (k', y) :: m' => String.eqb k k' && json_eqb x y && go l' m'
    | _, _ => false
    end.

Lemma json_eqb_arr : forall l m, json_eqb (JArr l) (JArr m) = arr_eqb_go l m.
Proof. reflexivity. Qed.
Lemma json_eqb_obj : forall l m, json_eqb (JObj l) (JObj m) = obj_eqb_go l m.
Proof. reflexivity. Qed.

Lemma json_eqb_eq : forall a b, json_eqb a b = true <-> a = b.
Proof.
  induction a as [| x | x | x | l IH | kvs IH] using json_ind'; intros b.
  - destruct b; cbn; split; congruence.
  - destruct b; cbn; split; try congruence.
    + intros H; apply Bool.eqb_prop in H; congruence.
    + intros H; inversion H; apply Bool.eqb_reflx.
  - destruct b; cbn; split; try congruence.
    + intros H; apply Z.eqb_eq in H; congruence.
    + intros H; inversion H; apply Z.eqb_refl.
  - destruct b; cbn; split; try congruence.
    + intros H; apply String.eqb_eq in H; congruence.
    + intros H; inversion H; apply String.eqb_refl.
  - destruct b as [| | | | m |]; try (cbn; split; congruence).
    rewrite json_eqb_arr.
    assert (Hgo : arr_eqb_go l m = true <-> l = m).
    { revert m; induction IH as [|x l Hx Hl IHl]; intros m.
      - destruct m; cbn; split; congruence.
      - destruct m as [|y m]; cbn; [split; congruence|].
        rewrite andb_true_iff, Hx, IHl. split; [intros [-> ->]; reflexivity | intros H; inversion H; auto]. }
    rewrite Hgo; split; congruence.
  - destruct b as [| | | | | m]; try (cbn; split; congruence).
    rewrite json_eqb_obj.
    assert (Hgo : obj_eqb_go kvs m = true <-> kvs = m).
    { revert m; induction IH as [|[k x] l Hx Hl IHl]; intros m.
      - destruct m; cbn; split; congruence.
      - destruct m as [|[k' y] m]; cbn; [split; congruence|].
        rewrite !andb_true_iff, String.eqb_eq. cbn in Hx. rewrite Hx, IHl.
        split; [intros [[-> ->] ->]; reflexivity | intros H; inversion H; auto]. }
    rewrite Hgo; split; congruence.
Qed.

Lemma json_eqb_refl : forall a, json_eqb a a = true.
Proof. intros a; apply json_eqb_eq; reflexivity. Qed.

Lemma json_eqb_neq : forall a b, json_eqb a b = false <-> a <> b.
Proof.
  intros a b; split.
  - intros H E; apply json_eqb_eq in E; congruence.
  - intros H; destruct (json_eqb a b) eqn:E; [apply json_eqb_eq in E; contradiction | reflexivity].
Qed.

Lemma jmem_In : forall x l, jmem x l = true <-> In x l.
Proof.
  intros x l; unfold jmem; rewrite existsb_exists; split.
  - intros [y [Hin Hy]]; apply json_eqb_eq in Hy; subst; exact Hin.
  - intros Hin; exists x; split; [exact Hin | apply json_eqb_refl].
Qed.

Lemma jmem_false : forall x l, jmem x l = false <-> ~ In x l.
Proof.
  intros x l; split.
  - intros H Hin; apply jmem_In in Hin; congruence.
  - intros H; destruct (jmem x l) eqn:E; [apply jmem_In in E; contradiction | reflexivity].
Qed.

Lemma In_jremove : forall x y l, In y (jremove x l) <-> In y l /\ y <> x.
Proof.
  intros x y l; induction l as [|z l IH]; cbn; [tauto|].
  destruct (json_eqb x z) eqn:E.
  - apply json_eqb_eq in E; subst z. rewrite IH. split; [tauto|].
    intros [[->|H] Hn]; [contradiction | tauto].
  - apply json_eqb_neq in E. cbn. rewrite IH. split.
    + intros [->|[H Hn]]; [split; [auto | congruence] | tauto].
    + tauto.
Qed.

(** * Depth *)
Lemma json_depth_pos : forall j, 1 <= json_depth j.
Proof. destruct j; cbn; lia. Qed.

Lemma depth_arr_lt : forall x l, In x l -> json_depth x < json_depth (JArr l).
Proof.
  intros x l Hin; cbn. apply Nat.lt_succ_r.
  induction l as [|y l IH]; [contradiction|].
  cbn. destruct Hin as [->|Hin]; [lia | specialize (IH Hin); lia].
Qed.

Lemma depth_obj_lt : forall kv kvs, In kv kvs -> json_depth (snd kv) < json_depth (JObj kvs).
Proof.
  intros kv l Hin; cbn. apply Nat.lt_succ_r.
  induction l as [|y l IH]; [contradiction|].
  cbn. destruct Hin as [->|Hin]; [lia | specialize (IH Hin); lia].
Qed.

Lemma assoc_In : forall k kvs v, assoc k kvs = Some v -> In (k, v) kvs.
Proof.
  intros k kvs v; induction kvs as [|[k' v'] r IH]; cbn; [discriminate|].
  destruct (String.eqb k k') eqn:E.
  - apply String.eqb_eq in E; subst; intros H; inversion H; auto.
  - auto.
Qed.

(** * Bindings: lookup, sorted insert, restriction to a key set *)
Lemma lookup_In : forall k bs v, lookup k bs = Some v -> In (k, v) bs.
Proof. exact assoc_In. Qed.

Definition restr (L : list string) (sg : bindings) : bindings :=
  filter (fun kv => smem (fst kv) L) sg.

Definition eqv (A B : list string) : Prop := forall s, In s A <-> In s B.

Lemma restr_ext : forall A B sg, eqv A B -> restr A sg = restr B sg.
Proof.
  intros A B sg H; unfold restr; apply filter_ext; intros [k v]; cbn.
  destruct (smem k A) eqn:EA, (smem k B) eqn:EB; try reflexivity.
  - apply smem_In in EA; apply H in EA; apply smem_In in EA; congruence.
  - apply smem_In in EB; apply H in EB; apply smem_In in EB; congruence.
Qed.

Lemma lookup_restr : forall L sg k,
  lookup k (restr L sg) = if smem k L then lookup k sg else None.
Proof.
  intros L sg k; unfold restr; induction sg as [|[k' v] r IH]; cbn [filter lookup fst].
  - destruct (smem k L); reflexivity.
  - destruct (smem k' L) eqn:EL; cbn [lookup].
    + destruct (String.eqb k k') eqn:E.
      * apply String.eqb_eq in E; subst; rewrite EL; reflexivity.
      * exact IH.
    + destruct (String.eqb k k') eqn:E.
      * apply String.eqb_eq in E; subst. rewrite IH, EL; reflexivity.
      * exact IH.
Qed.

Lemma smem_cons : forall k s L, smem k (s :: L) = String.eqb k s || smem k L.
Proof. reflexivity. Qed.
Lemma restr_cons : forall L k v r,
  restr L ((k, v) :: r) = if smem k L then (k, v) :: restr L r else restr L r.
Proof. reflexivity. Qed.
Lemma restr_nil : forall L, restr L [] = [].
Proof. reflexivity. Qed.

(** restriction by a set that misses a key not in [sg] *)
Lemma restr_cons_absent : forall s L sg, lookup s sg = None -> restr (s :: L) sg = restr L sg.
Proof.
  intros s L sg; induction sg as [|[k v] r IH]; [reflexivity|].
  cbn [lookup]. destruct (String.eqb s k) eqn:E; [discriminate|]. intros H.
  rewrite !restr_cons, smem_cons. rewrite String.eqb_sym in E. rewrite E. cbn [orb].
  rewrite (IH H). reflexivity.
Qed.

(** in a key-sorted list the head key is below all others *)
Definition head_lt (k : string) (bs : bindings) : Prop :=
  forall k' v', In (k', v') bs -> String.compare k k' = Lt.

Lemma sorted_head_lt : forall k v r, sorted_keys ((k, v) :: r) = true -> head_lt k r.
Proof.
  intros k v r; revert k v; induction r as [|[k1 v1] r IH]; intros k v H k' v' Hin; [contradiction|].
  cbn [sorted_keys] in H. apply andb_true_iff in H; destruct H as [Hlt Hs].
  apply string_ltb_lt in Hlt.
  destruct Hin as [Heq|Hin]; [inversion Heq; subst; exact Hlt|].
  eapply string_compare_lt_trans; [exact Hlt|]. exact (IH k1 v1 Hs _ _ Hin).
Qed.

Lemma sorted_tail : forall kv r, sorted_keys (kv :: r) = true -> sorted_keys r = true.
Proof.
  intros [k v] r H; destruct r as [|[k1 v1] r]; [reflexivity|].
  cbn in H. apply andb_true_iff in H; tauto.
Qed.

Lemma head_lt_restr : forall k L r, head_lt k r -> head_lt k (restr L r).
Proof.
  intros k L r H k' v' Hin; apply filter_In in Hin; destruct Hin as [Hin _]; eauto.
Qed.

Lemma bset_head_lt : forall k v bs, head_lt k bs -> bset k v bs = (k, v) :: bs.
Proof.
  intros k v bs H; destruct bs as [|[k' v'] r]; [reflexivity|].
  cbn. rewrite (H k' v' (or_introl eq_refl)). reflexivity.
Qed.

Lemma head_lt_lookup_none : forall k bs, head_lt k bs -> lookup k bs = None.
Proof.
  intros k bs H; destruct (lookup k bs) eqn:E; [|reflexivity].
  apply lookup_In in E; apply H in E; rewrite string_compare_refl in E; discriminate.
Qed.

Lemma bset_restr : forall s w L sg,
  sorted_keys sg = true -> lookup s sg = Some w -> ~ In s L ->
  bset s w (restr L sg) = restr (s :: L) sg.
Proof.
  intros s w L sg; induction sg as [|[k v] r IH]; intros Hs Hl Hn; [discriminate|].
  pose proof (sorted_head_lt _ _ _ Hs) as Hh. pose proof (sorted_tail _ _ Hs) as Hs'.
  cbn [lookup] in Hl. rewrite !restr_cons, smem_cons. destruct (String.eqb s k) eqn:E.
  - apply String.eqb_eq in E; subst k. inversion Hl; subst v.
    rewrite String.eqb_refl. cbn [orb].
    rewrite (restr_cons_absent s L r (head_lt_lookup_none _ _ Hh)).
    apply smem_false in Hn. rewrite Hn.
    apply bset_head_lt. apply head_lt_restr; exact Hh.
  - specialize (IH Hs' Hl Hn).
    assert (Hks : String.compare k s = Lt) by (apply lookup_In in Hl; eapply Hh; eauto).
    rewrite String.eqb_sym in E. rewrite E. cbn [orb].
    destruct (smem k L) eqn:EL.
    + cbn [bset]. rewrite String.compare_antisym, Hks. cbn [CompOpp].
      rewrite IH. reflexivity.
    + exact IH.
Qed.

Lemma restr_all : forall L sg,
  (forall k, In k (map fst sg) -> In k L) -> restr L sg = sg.
Proof.
  intros L sg; induction sg as [|[k v] r IH]; intros H; [reflexivity|].
  rewrite restr_cons.
  assert (E : smem k L = true) by (apply smem_In; apply H; left; reflexivity).
  rewrite E. rewrite IH; [reflexivity|]. intros k' Hk'; apply H; right; exact Hk'.
Qed.

(** * [picks] and [inj_assign] by distinct positions *)
Lemma picks_perm : forall (A : Type) (l : list A) x r, In (x, r) (picks l) -> Permutation (x :: r) l.
Proof.
  intros A l; induction l as [|y l IH]; intros x r Hin; [contradiction|].
  cbn in Hin. destruct Hin as [Heq|Hin].
  - inversion Heq; subst; apply Permutation_refl.
  - apply in_map_iff in Hin. destruct Hin as [[x' r'] [Heq Hin]]. cbn in Heq. inversion Heq; subst.
    apply IH in Hin. eapply perm_trans; [apply perm_swap|]. apply perm_skip; exact Hin.
Qed.

Lemma picks_complete : forall (A : Type) (l : list A) x, In x l -> exists r, In (x, r) (picks l).
Proof.
  intros A l; induction l as [|y l IH]; intros x Hin; [contradiction|].
  destruct Hin as [->|Hin].
  - exists l; left; reflexivity.
  - destruct (IH x Hin) as [r Hr]. exists (y :: r); right.
    apply in_map_iff. exists (x, r); split; [reflexivity | exact Hr].
Qed.

Lemma picks_map : forall (A B : Type) (g : A -> B) (l : list A),
  picks (map g l) = map (fun yr => (g (fst yr), map g (snd yr))) (picks l).
Proof.
  intros A B g l; induction l as [|x l IH]; [reflexivity|].
  cbn. f_equal. rewrite IH, !map_map. apply map_ext. intros [y r]; reflexivity.
Qed.

(** indexed lists *)
Definition ijson : Type := (nat * json)%type.

Section InjAssignIdx.
  Context {A : Type}.
  Variable P : A -> json -> bool.
  Let noskip : A -> bool := fun _ => false.

  (** from an injective assignment to a list of pairwise distinct entries *)
  Lemma inj_assign_idx : forall (xs : list A) (l : list ijson),
    NoDup (map fst l) ->
    inj_assign P noskip xs (map snd l) = true ->
    exists ws : list ijson,
      Forall2 (fun x w => P x (snd w) = true) xs ws /\
      NoDup (map fst ws) /\ incl ws l.
  Proof.
    induction xs as [|x xs IH]; intros l Hnd H.
    - exists []; repeat split; [constructor | constructor | intros w []].
    - cbn [inj_assign] in H. unfold noskip in H at 1. cbv beta iota in H.
      apply existsb_exists in H. destruct H as [[y rest] [Hin Hy]]. cbn [fst snd] in Hy.
      apply andb_true_iff in Hy; destruct Hy as [HP Hrest].
      rewrite picks_map in Hin. apply in_map_iff in Hin. destruct Hin as [[w r] [Heq Hin]].
      cbn [fst snd] in Heq. inversion Heq; subst y rest.
      pose proof (picks_perm _ _ _ _ Hin) as Hperm.
      assert (Hnd' : NoDup (map fst (w :: r))).
      { eapply Permutation_NoDup; [|exact Hnd]. apply Permutation_map. apply Permutation_sym; exact Hperm. }
      cbn [map] in Hnd'. inversion Hnd' as [|a b Hnotin Hndr]; subst.
      destruct (IH r Hndr Hrest) as [ws [HF [Hn Hi]]].
      exists (w :: ws). repeat split.
      + constructor; [exact HP | exact HF].
      + cbn [map]. constructor; [|exact Hn].
        intros Hc. apply Hnotin. apply in_map_iff in Hc. destruct Hc as [w' [Hfw Hw']].
        apply in_map_iff. exists w'; split; [exact Hfw | apply Hi; exact Hw'].
      + intros w' [<-|Hin'].
        * eapply Permutation_in; [exact Hperm | left; reflexivity].
        * eapply Permutation_in; [exact Hperm | right; apply Hi; exact Hin'].
  Qed.
End InjAssignIdx.
