(** The text level (Model/ToolsText.v) put on top of the statement level
    (Model/Tools.v): the node statements that [dot] / [mermaid] produce for a
    graph are written with pairwise different identifiers, label texts and
    ids - "exactly one node per spec node" survives the escaping. *)
From Coq Require Import String List Permutation FinFun.
From Sheens Require Import Spec.Graph Proofs.ToolsSets Proofs.ToolsSpec Proofs.ToolsRender
  Model.ToolsText Proofs.ToolsTextProofs.
Import ListNotations.

Lemma NoDup_map_injective : forall (A B : Type) (f : A -> B) (l : list A),
  (forall a b, f a = f b -> a = b) -> NoDup l -> NoDup (map f l).
Proof. intros A B f l Hf Hl. apply Injective_map_NoDup; [exact Hf | exact Hl]. Qed.

(** the names declared by the node statements are the node items *)
Lemma mer_denote_nodes : forall T m items,
  mer_denote T m = Some items -> map snd (mer_table m) = item_nodes items.
Proof.
  intros T. induction m as [|s r IH]; intros items Hi.
  - cbn in Hi. inversion Hi. reflexivity.
  - destruct s as [i x b | i j]; cbn [mer_denote] in Hi.
    + destruct (mer_denote T r) as [rest|] eqn:E; [|discriminate]. cbn in Hi. inversion Hi; subst items.
      cbn. f_equal. apply IH. reflexivity.
    + destruct (tab_get i T); [|discriminate]. destruct (tab_get j T); [|discriminate].
      destruct (mer_denote T r) as [rest|] eqn:E; [|discriminate]. inversion Hi; subst items.
      cbn. apply IH. reflexivity.
Qed.

(** Graphviz: the identifiers of the node statements are pairwise different *)
Theorem dot_rendered_ids_distinct : forall g l,
  NoDup (names g) -> dot g = Done l -> NoDup (map dot_id (item_nodes (dot_items l))).
Proof.
  intros g l Hg Hl. apply NoDup_map_injective; [exact dot_id_injective|].
  eapply Permutation_NoDup; [apply Permutation_sym, (dot_nodes g l Hg Hl) |].
  apply g_render_nodes_NoDup. exact Hg.
Qed.

(** Mermaid: the ids of the node statements are pairwise different texts, and
    so are the label texts *)
Theorem mermaid_rendered_ids_distinct : forall g, NoDup (names g) ->
  exists m, mermaid g = Done m /\
    NoDup (map (fun p => mermaid_nid (fst p)) (mer_table m)) /\
    NoDup (map (fun p => mermaid_text (snd p)) (mer_table m)).
Proof.
  intros g Hg. destruct (mermaid_items g Hg) as (m & items & Hm & Hi & Hn & _).
  exists m. split; [exact Hm|].
  assert (Hids : NoDup (map fst (mer_table m))).
  { unfold mer_items in Hi. destruct (nat_nodup (map fst (mer_table m))) eqn:E; [|discriminate].
    apply nat_nodup_NoDup. exact E. }
  split.
  - rewrite <- (map_map fst mermaid_nid). apply NoDup_map_injective; [exact mermaid_nid_injective | exact Hids].
  - rewrite <- (map_map snd mermaid_text). apply NoDup_map_injective; [exact mermaid_text_injective|].
    assert (Hnames : map snd (mer_table m) = item_nodes items).
    { unfold mer_items in Hi. destruct (nat_nodup (map fst (mer_table m))); [|discriminate].
      eapply mer_denote_nodes. exact Hi. }
    rewrite Hnames. eapply Permutation_NoDup; [apply Permutation_sym; exact Hn |].
    apply g_render_nodes_NoDup. exact Hg.
Qed.
