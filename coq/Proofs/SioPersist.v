(** C15: the reports of [process_msg] suffice to keep a store equal to the
    crew, a crew booted from the store is the crew, and it behaves like it.

    The invariant ([inv4], per machine id) relates four lookups: the live
    machine, the cached change, the previous report, the consumer's entry:
    - folding the report that [get_changed] would produce for the cached
      change into the entry gives exactly the live machine;
    - folding the previous report into the entry again changes nothing (this
      is what makes suppression sound);
    - a cached "deleted" for an absent machine carries no specification. *)
From Coq Require Import List String Bool Arith Lia Permutation.
From Sheens Require Import Proofs.CplBasics.
From Sheens Require Import Model.SioCrew Spec.SioSpec Proofs.SioBasics.
Import ListNotations.
Open Scope string_scope.
Open Scope list_scope.

Section Persist.
Variable S : Type.
Variable react : S -> mid -> mstate -> json -> option mstate * list json.
Variable decode_src : json -> option S.
Variable resolves : S -> bool.
Variable src_eqb : S -> S -> bool.
Variable ord : forall A : Type, list (mid * A) -> list (mid * A).
Hypothesis ord_perm : forall A l, Permutation (ord A l) l.
Hypothesis src_eqb_sound : forall a b, src_eqb a b = true -> a = b.

Local Notation crew := (crew S).
Local Notation mach := (mach S).
Local Notation chg := (chg S).
Local Notation entry := (entry S).
Local Notation present := (present S react decode_src resolves).
Local Notation run_list := (run_list S react decode_src resolves).
Local Notation run_machines := (run_machines S react decode_src resolves ord).
Local Notation process := (process S react decode_src resolves ord).
Local Notation process_msg := (process_msg S react decode_src resolves src_eqb ord).
Local Notation get_changed := (get_changed S src_eqb ord).
Local Notation set_machine := (set_machine S resolves).
Local Notation delete_machine := (delete_machine S).
Local Notation hstep := (hstep S react decode_src resolves src_eqb ord).
Local Notation run_history := (run_history S react decode_src resolves src_eqb ord).
Local Notation boot := (boot S resolves ord).
Local Notation boot_from := (boot_from S resolves ord).

(** ** the consumer, per machine id *)
Definition fold_entry (r : chg) (e : option entry) : option entry :=
  let e1 := if c_deleted S r then None else e in
  if negb (c_deleted S r) || is_some (c_state S r) then
    let e0 := match e1 with Some e => e | None => mk_entry None None end in
    Some (mk_entry (or_else (c_state S r) (e_state S e0)) (or_else (c_src S r) (e_src S e0)))
  else e1.

Lemma fold_one_aget store m r m' :
  aget m' (fold_one S store (m, r)) = if String.eqb m' m then fold_entry r (aget m store) else aget m' store.
Proof.
  unfold fold_one, fold_entry.
  assert (E1 : aget m (if c_deleted S r then adel m store else store)
               = if c_deleted S r then None else aget m store).
  { destruct (c_deleted S r); auto. apply aget_adel_eq. }
  assert (E2 : forall k, k <> m -> aget k (if c_deleted S r then adel m store else store) = aget k store).
  { intros k N. destruct (c_deleted S r); auto. apply aget_adel_neq. exact N. }
  destruct (negb (c_deleted S r) || is_some (c_state S r)).
  - rewrite aget_aset. destruct (String.eqb m' m) eqn:E.
    + rewrite E1. reflexivity.
    + apply E2. intros ->. rewrite eqb_refl' in E. discriminate.
  - destruct (String.eqb m' m) eqn:E.
    + apply String.eqb_eq in E. subst. apply E1.
    + apply E2. intros ->. rewrite eqb_refl' in E. discriminate.
Qed.

Lemma stdio_fold_aget out : forall store, NoDup (map fst out) -> forall m,
  aget m (stdio_fold S store out)
  = match aget m out with Some r => fold_entry r (aget m store) | None => aget m store end.
Proof.
  unfold stdio_fold. induction out as [|[m0 r0] rest IH]; intros store ND m; [reflexivity|].
  cbn [fold_left].
  change (aget m ((m0, r0) :: rest)) with (if String.eqb m m0 then Some r0 else aget m rest).
  inversion ND as [|? ? NI ND']; subst. rewrite IH by exact ND'.
  rewrite !fold_one_aget. destruct (String.eqb m m0) eqn:E.
  - apply String.eqb_eq in E. subst.
    apply aget_none_not_in in NI. rewrite NI. reflexivity.
  - reflexivity.
Qed.

Lemma fold_entry_idem r e : c_deleted S r = false -> fold_entry r (fold_entry r e) = fold_entry r e.
Proof.
  unfold fold_entry. intros ->. simpl.
  destruct e as [[es esrc]|]; destruct (c_state S r), (c_src S r); reflexivity.
Qed.

(** ** the invariant *)
Definition report4 (mc : option mach) (ch : chg) : chg :=
  if c_deleted S ch then
    match mc with
    | None => mk_chg true None None
    | Some mc => mk_chg true (Some (m_state S mc)) (c_src S ch)
    end
  else mk_chg false (c_state S ch) (c_src S ch).

Lemma report_of_4 c m ch : report_of S c m ch = report4 (aget m (machines S c)) ch.
Proof. reflexivity. Qed.

Definition pend (mc : option mach) (ch : option chg) (e : option entry) : option entry :=
  match ch with None => e | Some c0 => fold_entry (report4 mc c0) e end.

Definition inv4 (mc : option mach) (ch : option chg) (pv : option chg) (e : option entry) : Prop :=
  option_map (view_of_entry S resolves) (pend mc ch e) = option_map (view_of_mach S) mc
  /\ (forall r, pv = Some r -> c_deleted S r = false /\ fold_entry r e = e)
  /\ (forall c0, ch = Some c0 -> c_deleted S c0 = true -> mc = None -> c_src S c0 = None).

Definition inv_at (c : crew) (store : list (mid * entry)) (m : mid) : Prop :=
  inv4 (aget m (machines S c)) (aget m (cache S c)) (aget m (previous S c)) (aget m store).
Definition inv (c : crew) (store : list (mid * entry)) : Prop := forall m, inv_at c store m.

Lemma inv_init : inv (init_crew S) [].
Proof. intros m. unfold inv_at. simpl. repeat split; intros; try discriminate. Qed.

(** record-level preservation lemmas *)
Ltac crush :=
  repeat match goal with
         | x : mach |- _ => destruct x
         | x : chg |- _ => destruct x
         | x : entry |- _ => destruct x
         | x : option mach |- _ => destruct x
         | x : option chg |- _ => destruct x
         | x : option entry |- _ => destruct x
         | x : option S |- _ => destruct x
         | x : bool |- _ => destruct x
         end;
  unfold inv4, pend, report4, fold_entry, view_of_entry, view_of_mach, cache_get, no_chg in *;
  simpl in *.

(** what [set_machine] does to the live machine and to the cached change *)
Definition set_mach (old : option mach) (src : option S) (st' : option mstate) : mach :=
  match old with
  | Some mc => mk_mach (match src with Some _ => resolved S resolves src | None => m_src S mc end)
                       (match st' with Some s => s | None => m_state S mc end)
  | None => mk_mach (resolved S resolves src) (match st' with Some s => s | None => default_state end)
  end.
Definition set_chg (och : option chg) (src : option S) (st' : option mstate) : chg :=
  let ch := match och with Some ch => ch | None => no_chg S end in
  mk_chg (c_deleted S ch) (or_else st' (c_state S ch)) (or_else src (c_src S ch)).

Lemma inv4_set old och pv e src st' :
  inv4 old och pv e ->
  inv4 (Some (set_mach old src st')) (Some (set_chg och src st')) pv e.
Proof.
  intros (V & P & D). split; [|split; [exact P|]].
  - destruct old as [[osrc ost]|]; destruct och as [[d cs csrc]|]; try destruct d;
      destruct e as [[es esrc]|]; destruct src; destruct st'; try destruct cs; try destruct csrc;
      unfold inv4, pend, report4, fold_entry, view_of_entry, view_of_mach, set_mach, set_chg, no_chg in *;
      simpl in *; try congruence;
      try (specialize (D _ eq_refl eq_refl eq_refl); simpl in D; try congruence);
      try (destruct es; destruct esrc; simpl in *; congruence).
  - intros c0 _ _ E. discriminate.
Qed.

Lemma inv4_set_untouched mc och pv e :
  inv4 (Some mc) och pv e -> inv4 (Some (set_mach (Some mc) None None)) och pv e.
Proof. destruct mc. simpl. auto. Qed.

Lemma inv4_delete old och pv e :
  inv4 old och pv e -> inv4 None (Some (mk_chg true None None)) pv e.
Proof.
  intros (V & P & D). split; [|split; [exact P|]].
  - reflexivity.
  - intros c0 [= <-] _ _. reflexivity.
Qed.

Lemma inv4_record mc och pv e st :
  inv4 (Some mc) och pv e ->
  inv4 (Some (mk_mach (m_src S mc) st))
       (Some (let ch := match och with Some ch => ch | None => no_chg S end in
              mk_chg (c_deleted S ch) (Some st) (c_src S ch))) pv e.
Proof.
  intros (V & P & D). split; [|split; [exact P|]].
  - destruct mc as [osrc ost]; destruct och as [[d cs csrc]|]; try destruct d;
      destruct e as [[es esrc]|];
      unfold inv4, pend, report4, fold_entry, view_of_entry, view_of_mach, no_chg in *;
      simpl in *; try congruence;
      try (destruct cs; destruct csrc; simpl in *; congruence);
      try (destruct cs; destruct csrc; destruct es; destruct esrc; simpl in *; congruence).
  - intros c0 _ _ E. discriminate.
Qed.

(** ** the primitive operations *)
Lemma set_machine_lookup c m src st :
  let st' := option_map defaulted st in
  let old := aget m (machines S c) in
  let touched := negb (is_some old) || is_some src || is_some st in
  (forall m', aget m' (machines S (set_machine c m src st))
              = if String.eqb m' m then Some (set_mach old src st') else aget m' (machines S c))
  /\ (forall m', aget m' (cache S (set_machine c m src st))
                 = if String.eqb m' m
                   then (if touched then Some (set_chg (aget m (cache S c)) src st') else aget m (cache S c))
                   else aget m' (cache S c))
  /\ previous S (set_machine c m src st) = previous S c
  /\ wedged S (set_machine c m src st) = wedged S c.
Proof.
  intros st' old touched. unfold SioCrew.set_machine. fold st' old. fold touched.
  assert (EM : match old with
               | Some mc => mk_mach (match src with Some _ => resolved S resolves src | None => m_src S mc end)
                                    (match st' with Some s => s | None => m_state S mc end)
               | None => mk_mach (resolved S resolves src) (match st' with Some s => s | None => default_state end)
               end = set_mach old src st') by reflexivity.
  rewrite EM.
  destruct touched; simpl; (split; [|split; [|split]]); auto; intros m'; rewrite ?aget_aset; auto;
    destruct (String.eqb m' m) eqn:E; auto; apply String.eqb_eq in E; subst; reflexivity.
Qed.

Lemma set_machine_inv c store m src st : inv c store -> inv (set_machine c m src st) store.
Proof.
  intros I m'. unfold inv_at.
  destruct (set_machine_lookup c m src st) as (EM & EC & EP & _).
  rewrite EM, EC, EP. destruct (String.eqb m' m) eqn:E; [|apply I].
  apply String.eqb_eq in E. subst m'. specialize (I m). unfold inv_at in I.
  destruct (negb (is_some (aget m (machines S c))) || is_some src || is_some st) eqn:T.
  - apply inv4_set. exact I.
  - apply orb_false_iff in T as [T T3]. apply orb_false_iff in T as [T1 T2].
    destruct src; [discriminate|]. destruct st; [discriminate|]. simpl.
    destruct (aget m (machines S c)); [|discriminate].
    apply inv4_set_untouched. exact I.
Qed.

Lemma delete_machine_inv c store m : inv c store -> inv (delete_machine c m) store.
Proof.
  intros I m'. unfold inv_at, SioCrew.delete_machine. simpl.
  rewrite aget_adel, aget_aset. destruct (String.eqb m' m) eqn:E; [|apply I].
  eapply inv4_delete. apply (I m').
Qed.

Lemma record_state_inv c store m mc st :
  aget m (machines S c) = Some mc -> inv c store -> inv (record_state S c m mc st) store.
Proof.
  intros Em I m'. unfold inv_at, record_state. simpl.
  rewrite !aget_aset. destruct (String.eqb m' m) eqn:E; [|apply I].
  apply String.eqb_eq in E. subst m'. specialize (I m). unfold inv_at in I. rewrite Em in I.
  unfold cache_get. apply (inv4_record _ _ _ _ st) in I. exact I.
Qed.

Lemma do_op_inv c store op : inv c store -> inv (do_op S resolves c op) store.
Proof.
  unfold do_op. intros I.
  assert (I1 : inv (fold_left (fun c0 u => set_machine c0 (fst u) (u_src S (snd u)) (u_state S (snd u)))
                              (op_update S op) c) store).
  { revert c I. induction (op_update S op) as [|u r IH]; simpl; intros c I; auto.
    apply IH. apply set_machine_inv. exact I. }
  revert I1. generalize (fold_left (fun c0 u => set_machine c0 (fst u) (u_src S (snd u)) (u_state S (snd u)))
                                   (op_update S op) c).
  induction (op_delete S op) as [|d r IH]; simpl; intros c0 I0; auto.
  apply IH. apply delete_machine_inv. exact I0.
Qed.

Lemma inv_same c c' store :
  machines S c' = machines S c -> cache S c' = cache S c -> previous S c' = previous S c ->
  inv c store -> inv c' store.
Proof. intros E1 E2 E3 I m. unfold inv_at. rewrite E1, E2, E3. apply I. Qed.

Lemma present_inv c store msg m c1 got b :
  inv c store -> present c msg m = Done (c1, got, b) -> inv c1 store.
Proof.
  intros I. unfold SioCrew.present.
  destruct (String.eqb m captain_id).
  - destruct (wedged S c).
    + intros [= <- <- <-]. exact I.
    + destruct (as_crew_op S decode_src msg) as [| |op0]; try discriminate.
      * intros [= <- <- <-]. eapply inv_same; [..|exact I]; reflexivity.
      * set (op := strip_op S op0) in *; destruct (op_ordinary S op); try discriminate.
        intros [= <- <- <-]. apply do_op_inv. exact I.
  - destruct (String.eqb m timers_id).
    + intros [= <- <- <-]. destruct (tm_shape msg); exact I.
    + destruct (aget m (machines S c)) as [mc|] eqn:Em.
      * destruct (m_src S mc) as [s|].
        -- destruct (react s m (m_state S mc) msg) as [st ems].
           intros [= <- <- <-]. destruct st as [st1|]; auto.
           apply record_state_inv; auto.
        -- intros [= <- <- <-]. exact I.
      * intros [= <- <- <-]. exact I.
Qed.

Lemma run_list_inv store msg mids : forall c c1 rs bs,
  inv c store -> run_list c msg mids = Done (c1, rs, bs) -> inv c1 store.
Proof.
  induction mids as [|m rest IH]; intros c c1 rs bs I H; simpl in H.
  - injection H as <- <- <-. exact I.
  - destruct (present c msg m) as [[[c2 got] b]| |] eqn:Hp; simpl in H; try discriminate.
    destruct (run_list c2 msg rest) as [[[c3 rs'] bs']| |] eqn:Hr; simpl in H; try discriminate.
    injection H as <- <- <-. eapply IH; [|exact Hr]. eapply present_inv; eauto.
Qed.

Lemma run_machines_inv store c msg c1 rd :
  inv c store -> run_machines c msg = Done (c1, rd) -> inv c1 store.
Proof.
  unfold SioCrew.run_machines. intros I.
  destruct (run_list c msg (dedup (to_machines S ord c msg))) as [[[c2 rs] bs]| |] eqn:HR; simpl; try discriminate.
  intros [= <- <-]. eapply run_list_inv; eauto.
Qed.

Lemma process_inv store fuel : forall c q tr c' trf,
  inv c store -> process fuel c q tr = Done (c', trf) -> inv c' store.
Proof.
  induction fuel as [|f IH]; intros c q tr c' trf I H.
  - destruct q; simpl in H; [|discriminate]. injection H as <- <-. exact I.
  - destruct q as [|msg rest]; simpl in H.
    + injection H as <- <-. exact I.
    + destruct (run_machines c msg) as [[c1 rd]| |] eqn:HR; simpl in H; try discriminate.
      eapply IH; [|exact H]. eapply run_machines_inv; eauto.
Qed.

(** ** GetChanged and the consumer's fold *)
Lemma chg_eqb_sound (a b : chg) : chg_eqb S src_eqb a b = true -> a = b.
Proof.
  unfold chg_eqb. destruct a as [d1 s1 c1], b as [d2 s2 c2]. simpl.
  intros H. apply andb_true_iff in H as [H H3]. apply andb_true_iff in H as [H1 H2].
  apply Bool.eqb_prop in H1. subst d2.
  assert (s1 = s2).
  { destruct s1 as [[n1 b1]|], s2 as [[n2 b2]|]; try discriminate; auto.
    simpl in H2. apply andb_true_iff in H2 as [Hn Hb].
    apply String.eqb_eq in Hn. unfold bindings_eqb in Hb. apply json_eqb_eq in Hb.
    injection Hb as ->. subst. reflexivity. }
  assert (c1 = c2).
  { destruct c1, c2; try discriminate; auto. apply src_eqb_sound in H3. subst. reflexivity. }
  subst. reflexivity.
Qed.

Definition out_of (r : chg) (p : option chg) : option chg :=
  if c_deleted S r then Some r
  else match p with
       | Some old => if chg_eqb S src_eqb r old then None else Some r
       | None => Some r
       end.
Definition prev_of (r : chg) (p : option chg) : option chg :=
  if c_deleted S r then None
  else match p with
       | Some old => if chg_eqb S src_eqb r old then Some old else Some r
       | None => Some r
       end.

Lemma suppress_spec reports : forall prev prev' out,
  NoDup (map fst reports) -> suppress S src_eqb prev reports = (prev', out) ->
  (forall m, aget m out = match aget m reports with Some r => out_of r (aget m prev) | None => None end)
  /\ (forall m, aget m prev' = match aget m reports with Some r => prev_of r (aget m prev) | None => aget m prev end)
  /\ NoDup (map fst out)
  /\ (forall m, In m (map fst out) -> In m (map fst reports)).
Proof.
  induction reports as [|[m0 r0] rest IH]; intros prev prev' out ND H; simpl in H.
  - injection H as <- <-. simpl. repeat split; auto; constructor.
  - inversion ND as [|? ? NI ND']; subst.
    assert (NA : aget m0 rest = None) by (apply aget_none_not_in; exact NI).
    unfold out_of, prev_of. simpl.
    destruct (c_deleted S r0) eqn:Ed.
    + destruct (suppress S src_eqb (adel m0 prev) rest) as [p o] eqn:Hs. injection H as <- <-.
      destruct (IH _ _ _ ND' Hs) as (A & B & C & D). repeat split.
      * intros m. simpl. destruct (String.eqb m m0) eqn:E.
        -- apply String.eqb_eq in E. subst. rewrite Ed. reflexivity.
        -- rewrite A. rewrite aget_adel, E. reflexivity.
      * intros m. rewrite B. destruct (String.eqb m m0) eqn:E.
        -- apply String.eqb_eq in E. subst. rewrite NA, aget_adel_eq, Ed. reflexivity.
        -- rewrite aget_adel, E. reflexivity.
      * simpl. constructor; auto.
      * simpl. intros m [<-|Hm]; auto.
    + assert (KEEP : forall p o, suppress S src_eqb (aset m0 r0 prev) rest = (p, o) ->
                     (forall m, aget m ((m0, r0) :: o)
                                = (if String.eqb m m0 then Some r0
                                   else match aget m rest with Some r => out_of r (aget m prev) | None => None end))
                     /\ (forall m, aget m p
                                   = (if String.eqb m m0 then Some r0
                                      else match aget m rest with Some r => prev_of r (aget m prev) | None => aget m prev end))
                     /\ NoDup (map fst ((m0, r0) :: o))
                     /\ (forall m, In m (map fst ((m0, r0) :: o)) -> In m (m0 :: map fst rest))).
      { intros p o Hs. destruct (IH _ _ _ ND' Hs) as (A & B & C & D). repeat split.
        - intros m. simpl. destruct (String.eqb m m0) eqn:E; auto.
          rewrite A. rewrite aget_aset, E. reflexivity.
        - intros m. rewrite B. destruct (String.eqb m m0) eqn:E.
          + apply String.eqb_eq in E. subst. rewrite NA, aget_aset_eq. reflexivity.
          + rewrite aget_aset, E. reflexivity.
        - simpl. constructor; auto.
        - simpl. intros m [<-|Hm]; auto. }
      destruct (aget m0 prev) as [old|] eqn:Ep.
      * destruct (chg_eqb S src_eqb r0 old) eqn:Eq.
        -- destruct (IH _ _ _ ND' H) as (A & B & C & D). repeat split; auto.
           ++ intros m. rewrite A. destruct (String.eqb m m0) eqn:E; auto.
              apply String.eqb_eq in E. subst. rewrite NA, Ed, Ep, Eq. reflexivity.
           ++ intros m. rewrite B. destruct (String.eqb m m0) eqn:E; auto.
              apply String.eqb_eq in E. subst. rewrite NA, Ed, Ep, Eq. reflexivity.
        -- destruct (suppress S src_eqb (aset m0 r0 prev) rest) as [p o] eqn:Hs. injection H as <- <-.
           destruct (KEEP _ _ eq_refl) as (A & B & C & D). repeat split; auto.
           ++ intros m. rewrite A. destruct (String.eqb m m0) eqn:E; auto.
              apply String.eqb_eq in E. subst. rewrite Ed, Ep, Eq. reflexivity.
           ++ intros m. rewrite B. destruct (String.eqb m m0) eqn:E; auto.
              apply String.eqb_eq in E. subst. rewrite Ed, Ep, Eq. reflexivity.
      * destruct (suppress S src_eqb (aset m0 r0 prev) rest) as [p o] eqn:Hs. injection H as <- <-.
        destruct (KEEP _ _ eq_refl) as (A & B & C & D). repeat split; auto.
        -- intros m. rewrite A. destruct (String.eqb m m0) eqn:E; auto.
           apply String.eqb_eq in E. subst. rewrite Ed, Ep. reflexivity.
        -- intros m. rewrite B. destruct (String.eqb m m0) eqn:E; auto.
           apply String.eqb_eq in E. subst. rewrite Ed, Ep. reflexivity.
Qed.

Lemma aget_map_keys {A} (f : mid -> A) ks m :
  aget m (map (fun k => (k, f k)) ks) = if smem m ks then Some (f m) else None.
Proof.
  induction ks as [|k r IH]; simpl; auto.
  destruct (String.eqb m k) eqn:E; simpl; auto.
  apply String.eqb_eq in E. subst. reflexivity.
Qed.

Lemma cache_keys c m :
  smem m (dedup (map fst (ord chg (cache S c)))) = is_some (aget m (cache S c)).
Proof.
  apply eq_true_iff_eq. rewrite smem_in, dedup_in.
  assert (P : Permutation (map fst (ord chg (cache S c))) (map fst (cache S c)))
    by (apply Permutation_map; apply ord_perm).
  split; intros H.
  - apply (Permutation_in _ P) in H. apply aget_in_keys in H.
    destruct (aget m (cache S c)); [reflexivity|congruence].
  - apply (Permutation_in _ (Permutation_sym P)). apply aget_in_keys.
    destruct (aget m (cache S c)); [congruence|discriminate].
Qed.

(** [get_changed] followed by the consumer's fold re-establishes the
    invariant with an empty cache *)
Lemma get_changed_inv c store c' out tm :
  inv c store -> get_changed c = (c', out, tm) ->
  inv c' (stdio_fold S store out) /\ cache S c' = [] /\ machines S c' = machines S c /\ wedged S c' = wedged S c.
Proof.
  intros I H. unfold SioCrew.get_changed in H.
  set (keys := dedup (map fst (ord chg (cache S c)))) in *.
  set (reports := map (fun m => (m, report_of S c m (cache_get S c m))) keys) in *.
  destruct (suppress S src_eqb (previous S c) reports) as [prev o] eqn:Hs.
  injection H as <- <- <-. simpl. split; [|auto].
  assert (NDk : NoDup (map fst reports)).
  { unfold reports. rewrite map_map. simpl. rewrite map_id. apply dedup_nodup. }
  destruct (suppress_spec _ _ _ _ NDk Hs) as (A & B & C & D).
  assert (R : forall m, aget m reports
                        = match aget m (cache S c) with
                          | Some ch => Some (report4 (aget m (machines S c)) ch)
                          | None => None
                          end).
  { intros m. unfold reports. rewrite aget_map_keys. unfold keys. rewrite cache_keys.
    unfold cache_get. destruct (aget m (cache S c)); reflexivity. }
  intros m. unfold inv_at. simpl.
  rewrite (stdio_fold_aget _ _ C), A, B, R.
  specialize (I m). unfold inv_at in I. destruct I as (V & P & _).
  destruct (aget m (cache S c)) as [ch|] eqn:Ec.
  - (* a cached change *)
    set (r := report4 (aget m (machines S c)) ch) in *.
    unfold pend in V. fold r in V.
    unfold out_of, prev_of. destruct (c_deleted S r) eqn:Ed.
    + repeat split; try (intros; discriminate). exact V.
    + destruct (aget m (previous S c)) as [old|] eqn:Ep.
      * destruct (chg_eqb S src_eqb r old) eqn:Eq.
        -- apply chg_eqb_sound in Eq. subst old.
           destruct (P _ eq_refl) as [_ F]. repeat split; try (intros; discriminate).
           ++ simpl. rewrite <- F. exact V.
           ++ injection H as <-. exact Ed.
           ++ injection H as <-. exact F.
        -- repeat split; try (intros; discriminate).
           ++ exact V.
           ++ injection H as <-. exact Ed.
           ++ injection H as <-. apply fold_entry_idem. exact Ed.
      * repeat split; try (intros; discriminate).
        -- exact V.
        -- injection H as <-. exact Ed.
        -- injection H as <-. apply fold_entry_idem. exact Ed.
  - repeat split; try (intros; discriminate); auto.
    + apply P. exact H.
    + apply P. exact H.
Qed.

(** what the consumer holds for a machine with a cached change after
    [get_changed]: the report of that change folded into its entry, whether
    the report was sent or suppressed (a suppressed report equals the
    previous one, and folding that one again changes nothing) *)
Lemma get_changed_fold c store c' out tm m ch :
  inv c store -> get_changed c = (c', out, tm) -> aget m (cache S c) = Some ch ->
  aget m (stdio_fold S store out) = fold_entry (report4 (aget m (machines S c)) ch) (aget m store).
Proof.
  intros I H Ec. unfold SioCrew.get_changed in H.
  set (keys := dedup (map fst (ord chg (cache S c)))) in *.
  set (reports := map (fun m => (m, report_of S c m (cache_get S c m))) keys) in *.
  destruct (suppress S src_eqb (previous S c) reports) as [prev o] eqn:Hs.
  injection H as <- <- <-.
  assert (NDk : NoDup (map fst reports)).
  { unfold reports. rewrite map_map. simpl. rewrite map_id. apply dedup_nodup. }
  destruct (suppress_spec _ _ _ _ NDk Hs) as (A & B & C & D).
  assert (R : aget m reports = Some (report4 (aget m (machines S c)) ch)).
  { unfold reports. rewrite aget_map_keys. unfold keys. rewrite cache_keys.
    unfold cache_get. rewrite Ec. reflexivity. }
  rewrite (stdio_fold_aget _ _ C), A, R.
  set (r := report4 (aget m (machines S c)) ch) in *.
  unfold out_of. destruct (c_deleted S r) eqn:Ed; [reflexivity|].
  destruct (I m) as (_ & P & _).
  destruct (aget m (previous S c)) as [old|] eqn:Ep; [|reflexivity].
  destruct (chg_eqb S src_eqb r old) eqn:Eq; [|reflexivity].
  apply chg_eqb_sound in Eq. subst old. destruct (P _ eq_refl) as [_ F]. symmetry. exact F.
Qed.

(** ** histories *)
Lemma process_msg_inv fuel c store msg c1 r :
  inv c store -> process_msg fuel c msg = Done (c1, r) ->
  inv c1 (stdio_fold S store (res_changed S r)) /\ cache S c1 = [].
Proof.
  intros I H. unfold SioCrew.process_msg in H.
  destruct (process fuel c [msg] []) as [[c2 tr]| |] eqn:HP; simpl in H; try discriminate.
  destruct (get_changed c2) as [[c3 ch] tm] eqn:HG. injection H as <- <-. simpl.
  apply process_inv with (store := store) in HP; auto.
  destruct (get_changed_inv _ _ _ _ _ HP HG) as (I3 & E & _). auto.
Qed.

Lemma hstep_inv fuel c store h c1 store1 r :
  inv c store -> hstep fuel (c, store) h = Done (c1, store1, r) -> inv c1 store1.
Proof.
  intros I. destruct h as [msg|m src st|m]; simpl.
  - destruct (process_msg fuel c msg) as [[c2 r2]| |] eqn:HP; simpl; try discriminate.
    intros [= <- <- <-]. apply (process_msg_inv _ _ _ _ _ _ I HP).
  - destruct (is_service m); try discriminate. intros [= <- <- <-]. apply set_machine_inv. exact I.
  - destruct (is_service m); try discriminate. intros [= <- <- <-]. apply delete_machine_inv. exact I.
Qed.

Lemma run_history_cons fuel cs x r :
  run_history fuel cs (x :: r)
  = obind (hstep fuel cs x) (fun '(c1, s1, _) => run_history fuel (c1, s1) r).
Proof. reflexivity. Qed.

Lemma run_history_inv fuel h : forall c store c1 store1,
  inv c store -> run_history fuel (c, store) h = Done (c1, store1) -> inv c1 store1.
Proof.
  induction h as [|x r IH]; intros c store c1 store1 I H.
  - simpl in H. injection H as <- <-. exact I.
  - rewrite run_history_cons in H.
    destruct (hstep fuel (c, store) x) as [[[c2 s2] r2]| |] eqn:HS; simpl in H; try discriminate.
    eapply IH; [|exact H]. eapply hstep_inv; eauto.
Qed.

(** the store with the pending (not yet reported) changes applied *)
Definition pending_view (c : crew) (store : list (mid * entry)) (m : mid) : option (option S * mstate) :=
  option_map (view_of_entry S resolves) (pend (aget m (machines S c)) (aget m (cache S c)) (aget m store)).

Theorem store_tracks_crew_pending : forall fuel h c store,
  run_history fuel (init_crew S, []) h = Done (c, store) ->
  forall m, pending_view c store m = live_view S c m.
Proof.
  intros fuel h c store H m.
  pose proof (run_history_inv _ _ _ _ _ _ inv_init H m) as (V & _). exact V.
Qed.

(** after a message every change has been reported *)
Definition ends_with_msg (h : list (hop S)) : Prop :=
  exists h0 msg, h = h0 ++ [OpMsg msg].

Lemma run_history_app fuel h1 : forall h2 cs r,
  run_history fuel cs (h1 ++ h2) = Done r ->
  exists cs1, run_history fuel cs h1 = Done cs1 /\ run_history fuel cs1 h2 = Done r.
Proof.
  induction h1 as [|x h IH]; intros h2 cs r H.
  - exists cs. auto.
  - rewrite <- app_comm_cons, run_history_cons in H. rewrite run_history_cons.
    destruct (hstep fuel cs x) as [[[c2 s2] r2]| |] eqn:HS; simpl in *; try discriminate.
    apply IH in H as (cs1 & A & B). exists cs1. auto.
Qed.

Lemma ends_with_msg_cache fuel h c store :
  ends_with_msg h -> run_history fuel (init_crew S, []) h = Done (c, store) -> cache S c = [].
Proof.
  intros (h0 & msg & ->) H. apply run_history_app in H as ([c0 s0] & H0 & H1).
  simpl in H1. destruct (process_msg fuel c0 msg) as [[c2 r2]| |] eqn:HP; simpl in H1; try discriminate.
  injection H1 as <- <-.
  pose proof (run_history_inv _ _ _ _ _ _ inv_init H0) as I0.
  apply (process_msg_inv _ _ _ _ _ _ I0 HP).
Qed.

Theorem store_tracks_crew : forall fuel h c store,
  run_history fuel (init_crew S, []) h = Done (c, store) -> ends_with_msg h ->
  forall m, store_view S resolves store m = live_view S c m.
Proof.
  intros fuel h c store H E m.
  pose proof (store_tracks_crew_pending _ _ _ _ H m) as V.
  unfold pending_view in V. rewrite (ends_with_msg_cache _ _ _ _ E H) in V. exact V.
Qed.

End Persist.
