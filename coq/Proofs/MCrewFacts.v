(** C16: the mcrew service model keeps memory equal to the store in every
    reachable state under every fault schedule; a failed operation changes
    nothing; memory advances only with the store up; every interleaving of
    clients is the sequential execution of a merge of their programmes and
    its responses are accepted by the specification automaton [hist_step]
    (every walk starts from the machine's current state: no lost update).
    The pre-D15 two-step AddMachine / RemMachine are refuted. *)
From Sheens Require Import Spec.MCrewSpec Proofs.ConcFacts Proofs.SndBasics Proofs.SndSorted
     Proofs.MCrewMaps.

Definition inv (s : svc) : Prop := mem s = sto s.
(** well-formed: Go maps have unique keys; the model keeps them sorted *)
Definition wf (s : svc) : Prop := msorted (mem s).

Section Service.
  Variable spec_ok : string -> bool.
  Variable wk : string -> string -> mrec -> json -> option (string * bindings) * list json.
  Variable services : list string.

  Notation step := (svc_step spec_ok wk services).
  Notation sem := (svc_sem spec_ok wk services).

  (** ---- walks and changes ------------------------------------------------------- *)

  Lemma walks_fst : forall m mids msg,
      map fst (walks wk m mids msg) = filter (fun mid => mhas mid m) mids.
  Proof.
    intros m mids msg. induction mids as [| mid r IH]; [reflexivity|].
    cbn [walks flat_map filter]. unfold mhas at 1.
    destruct (mget mid m) as [rc |] eqn:E.
    - destruct (wk (r_spec rc) mid rc msg) as [to em]. cbn [app map fst].
      fold (walks wk m r msg). rewrite IH. reflexivity.
    - cbn [app]. fold (walks wk m r msg). exact IH.
  Qed.

  Lemma walks_in : forall m mids msg mid w,
      In (mid, w) (walks wk m mids msg) ->
      exists r, mget mid m = Some r /\ wo_from w = (r_node r, r_bs r).
  Proof.
    intros m mids msg mid w H. unfold walks in H. apply in_flat_map in H.
    destruct H as [mid' [_ H]]. destruct (mget mid' m) as [rc |] eqn:E; [|destruct H].
    destruct (wk (r_spec rc) mid' rc msg) as [to em]. destruct H as [H | []].
    inversion H; subst. exists rc. split; [exact E | reflexivity].
  Qed.

  Lemma changes_in : forall ws c, In c (changes ws) -> exists w, In (fst c, w) ws.
  Proof.
    intros ws c H. unfold changes in H. apply in_flat_map in H.
    destruct H as [[mid w] [Hin H]]. cbn [fst snd] in H.
    destruct (wo_to w); [|destruct H]. destruct H as [<- | []]. exists w. exact Hin.
  Qed.

  Lemma changes_present : forall m mids msg c,
      In c (changes (walks wk m mids msg)) -> mhas (fst c) m = true.
  Proof.
    intros m mids msg c H. apply changes_in in H. destruct H as [w H].
    apply walks_in in H. destruct H as [r [E _]]. unfold mhas. rewrite E. reflexivity.
  Qed.

  (** the write into the store and the write-back into memory are the same
      update when they start from the same map and every changed machine
      exists *)
  Lemma set_write_agree : forall ch m acc,
      (forall c, In c ch -> mhas (fst c) m = true) ->
      (forall k, option_map r_spec (mget k acc) = option_map r_spec (mget k m)) ->
      set_states ch acc = write_states m ch acc.
  Proof.
    induction ch as [| [mid [node bs]] ch IH]; intros m acc Hp Hs; [reflexivity|].
    unfold set_states, write_states. cbn [fold_left fst snd].
    assert (Hm : mhas mid m = true) by (apply (Hp (mid, (node, bs))); left; reflexivity).
    unfold mhas in Hm. destruct (mget mid m) as [r |] eqn:Em; [|discriminate].
    pose proof (Hs mid) as Hmid. rewrite Em in Hmid.
    destruct (mget mid acc) as [r' |] eqn:Ea; [|discriminate]. cbn in Hmid.
    inversion Hmid as [Hspec]. rewrite Hspec.
    apply (IH m (mset mid (mk_mrec (r_spec r) node bs) acc)).
    - intros c Hc. apply Hp. right. exact Hc.
    - intros k. destruct (String.eqb_spec k mid) as [-> | Hne].
      + rewrite mget_mset_same, Em. reflexivity.
      + rewrite mget_mset_other by exact Hne. apply Hs.
  Qed.

  Lemma set_states_sorted : forall ch m, msorted m -> msorted (set_states ch m).
  Proof.
    induction ch as [| [mid [node bs]] ch IH]; intros m H; [exact H|].
    unfold set_states. cbn [fold_left fst snd].
    destruct (mget mid m); [| apply IH; exact H]. apply IH. apply msorted_mset. exact H.
  Qed.

  Lemma set_states_keys : forall ch m k, mhas k (set_states ch m) = mhas k m.
  Proof.
    induction ch as [| [mid [node bs]] ch IH]; intros m k; [reflexivity|].
    unfold set_states. cbn [fold_left fst snd].
    destruct (mget mid m) as [r |] eqn:E; [| apply IH].
    fold (set_states ch (mset mid (mk_mrec (r_spec r) node bs) m)). rewrite IH.
    unfold mhas. destruct (String.eqb_spec k mid) as [-> | Hne].
    - rewrite mget_mset_same, E. reflexivity.
    - rewrite mget_mset_other by exact Hne. reflexivity.
  Qed.

  (** ---- C16_mem_eq_store: one step ------------------------------------------------ *)

  Lemma step_inv : forall q s, inv s -> inv (fst (step q s)).
  Proof.
    unfold inv. intros q s H. destruct q as [spec id node bs bad | id | msg | | u]; cbn [svc_step].
    - unfold do_add. destruct (mhas id (mem s)); [exact H|].
      destruct (up s && negb bad); [| exact H]. cbn. rewrite H. reflexivity.
    - unfold do_rem. destruct (up s); [| exact H]. cbn. rewrite H. reflexivity.
    - unfold do_process, do_process_to.
      destruct (specs_ok spec_ok (mem s) (recipients (route services msg) (mem s))); [| exact H].
      destruct (changes (walks wk (mem s) (recipients (route services msg) (mem s)) msg))
        as [| c ch] eqn:Ec; [exact H|].
      destruct (up s && all_serialisable (c :: ch)); [| exact H]. cbn [fst mem sto]. rewrite <- H, <- Ec.
      apply set_write_agree.
      + intros c0 Hc0. eapply changes_present. eassumption.
      + intros k. reflexivity.
    - exact H.
    - exact H.
  Qed.

  Lemma step_wf : forall q s, wf s -> wf (fst (step q s)).
  Proof.
    unfold wf. intros q s H. destruct q as [spec id node bs bad | id | msg | | u]; cbn [svc_step].
    - unfold do_add. destruct (mhas id (mem s)); [exact H|].
      destruct (up s && negb bad); [| exact H]. cbn. apply msorted_mset. exact H.
    - unfold do_rem. destruct (up s); [| exact H]. cbn. apply msorted_mdel. exact H.
    - unfold do_process, do_process_to.
      destruct (specs_ok spec_ok (mem s) (recipients (route services msg) (mem s))); [| exact H].
      destruct (changes (walks wk (mem s) (recipients (route services msg) (mem s)) msg)) as [| c ch];
        [exact H|].
      destruct (up s && all_serialisable (c :: ch)); [| exact H]. cbn [fst mem].
      apply set_states_sorted. exact H.
    - exact H.
    - exact H.
  Qed.

  (** ---- C16_failed_op_is_noop ------------------------------------------------------- *)

  Lemma failed_is_noop : forall q s,
      must_not_change (snd (step q s)) = true ->
      mem (fst (step q s)) = mem s /\ sto (fst (step q s)) = sto s.
  Proof.
    intros q s. destruct q as [spec id node bs bad | id | msg | | u]; cbn [svc_step].
    - unfold do_add. destruct (mhas id (mem s)); [split; reflexivity|].
      destruct (up s && negb bad); cbn; [discriminate | split; reflexivity].
    - unfold do_rem. destruct (up s); cbn; [discriminate | split; reflexivity].
    - unfold do_process, do_process_to.
      destruct (specs_ok spec_ok (mem s) (recipients (route services msg) (mem s)));
        [| split; reflexivity].
      destruct (changes (walks wk (mem s) (recipients (route services msg) (mem s)) msg)) as [| c ch];
        [split; reflexivity|].
      destruct (up s && all_serialisable (c :: ch)); cbn [fst snd must_not_change];
        [discriminate | split; reflexivity].
    - split; reflexivity.
    - split; reflexivity.
  Qed.

  (** while the store is down nothing advances, whatever the request *)
  Lemma store_down_is_noop : forall q s,
      up s = false -> mem (fst (step q s)) = mem s /\ sto (fst (step q s)) = sto s.
  Proof.
    intros q s Hup. destruct q as [spec id node bs bad | id | msg | | u]; cbn [svc_step].
    - unfold do_add. destruct (mhas id (mem s)); [split; reflexivity|].
      rewrite Hup. cbn. split; reflexivity.
    - unfold do_rem. rewrite Hup. split; reflexivity.
    - unfold do_process, do_process_to.
      destruct (specs_ok spec_ok (mem s) (recipients (route services msg) (mem s)));
        [| split; reflexivity].
      destruct (changes (walks wk (mem s) (recipients (route services msg) (mem s)) msg)) as [| c ch];
        [split; reflexivity|].
      rewrite Hup. cbn [andb]. split; reflexivity.
    - split; reflexivity.
    - split; reflexivity.
  Qed.

  (** memory advances only with a successful write *)
  Lemma advance_needs_write : forall q s,
      mem (fst (step q s)) <> mem s ->
      up s = true /\ must_not_change (snd (step q s)) = false
      /\ (inv s -> sto (fst (step q s)) = mem (fst (step q s))).
  Proof.
    intros q s Hne. split; [| split].
    - destruct (up s) eqn:E; [reflexivity|].
      destruct (store_down_is_noop q s E) as [H _]. contradiction.
    - destruct (must_not_change (snd (step q s))) eqn:E; [|reflexivity].
      destruct (failed_is_noop q s E) as [H _]. contradiction.
    - intros Hi. symmetry. apply (step_inv q s Hi).
  Qed.

  (** ---- C16_batch_all_or_nothing --------------------------------------------------- *)

  (** one end state that cannot be serialised fails the write of the whole
      batch, whatever its size and although the store may be up: nothing is
      stored, memory is untouched, Process reports the walks and the error *)
  Lemma batch_unserialisable_is_noop : forall mids msg s,
      specs_ok spec_ok (mem s) mids = true ->
      all_serialisable (changes (walks wk (mem s) mids msg)) = false ->
      do_process_to spec_ok wk mids msg s = (s, PProcessed true (walks wk (mem s) mids msg)).
  Proof.
    intros mids msg s Hok Hser. unfold do_process_to. rewrite Hok.
    destruct (changes (walks wk (mem s) mids msg)) as [| c ch]; [discriminate Hser|].
    rewrite Hser, andb_false_r. reflexivity.
  Qed.

  (** conversely a Process call that reports no error and moved some machine
      found the store up and could serialise every end state, and memory and
      store took the whole batch *)
  Lemma batch_written_whole : forall mids msg s s' ws,
      do_process_to spec_ok wk mids msg s = (s', PProcessed false ws) ->
      changes ws <> [] ->
      up s = true /\ all_serialisable (changes ws) = true
      /\ mem s' = set_states (changes ws) (mem s)
      /\ sto s' = write_states (mem s) (changes ws) (sto s).
  Proof.
    intros mids msg s s' ws H Hne. unfold do_process_to in H.
    destruct (specs_ok spec_ok (mem s) mids); [| discriminate H].
    destruct (changes (walks wk (mem s) mids msg)) as [| c ch] eqn:Ec.
    - inversion H; subst. rewrite Ec in Hne. contradiction.
    - destruct (up s) eqn:Eu; destruct (all_serialisable (c :: ch)) eqn:Es; cbn [andb] in H;
        try discriminate H.
      inversion H; subst. rewrite Ec. repeat split; try reflexivity. exact Es.
  Qed.

  (** ---- the responses are those the specification automaton accepts ----------------- *)

  Lemma recipients_nodup : forall d m, msorted m -> nodup_keys (recipients d m) = true.
  Proof.
    intros [| mid | name] m H; cbn [recipients].
    - apply msorted_nodup. exact H.
    - destruct (mhas mid m); reflexivity.
    - reflexivity.
  Qed.

  Lemma hist_accepts_step : forall q s,
      inv s -> wf s ->
      hist_step (hst_of s) q (snd (step q s)) = Some (hst_of (fst (step q s))).
  Proof.
    intros q s Hi Hw. unfold hst_of.
    destruct q as [spec id node bs bad | id | msg | | u]; cbn [svc_step].
    - unfold do_add. destruct (mhas id (mem s)) eqn:Eh; cbn [snd fst hist_step h_cur h_up].
      + rewrite Eh. reflexivity.
      + destruct (up s) eqn:Eu; destruct bad; cbn [andb negb snd fst hist_step h_cur h_up mem up];
          rewrite ?Eh, ?Eu; cbn; rewrite ?Eu; reflexivity.
    - unfold do_rem. destruct (up s) eqn:Eu; cbn [snd fst hist_step h_cur h_up mem up];
        rewrite ?Eu; cbn; rewrite ?Eu; reflexivity.
    - unfold do_process, do_process_to.
      set (mids := recipients (route services msg) (mem s)).
      destruct (specs_ok spec_ok (mem s) mids); [| reflexivity].
      set (ws := walks wk (mem s) mids msg).
      assert (Hfrom : forallb (walked_from_cur (mem s)) ws = true).
      { apply forallb_forall. intros [mid w] Hin. unfold walked_from_cur. cbn [fst snd].
        apply walks_in in Hin. destruct Hin as [r [E ->]]. rewrite E. apply nb_eqb_refl. }
      assert (Hnd : nodup_keys (map fst ws) = true).
      { unfold ws. rewrite walks_fst. apply nodup_keys_filter. apply recipients_nodup. exact Hw. }
      destruct (changes ws) as [| c ch] eqn:Ec.
      + cbn [snd fst hist_step h_cur h_up]. rewrite Hfrom, Hnd, Ec. cbn [andb is_nil negb].
        rewrite orb_true_r. reflexivity.
      + destruct (up s) eqn:Eu; destruct (all_serialisable (c :: ch)) eqn:Es;
          cbn [andb snd fst hist_step h_cur h_up mem up];
          rewrite Hfrom, Hnd, Ec, ?Eu, ?Es; cbn [andb is_nil negb orb]; rewrite ?Eu; reflexivity.
    - cbn [snd fst hist_step h_cur h_up]. rewrite mmap_eqb_refl. reflexivity.
    - reflexivity.
  Qed.

  (** ---- sequential executions --------------------------------------------------------- *)

  Lemma seq_run_cons : forall i q (l : list (nat * req)) s,
      seq_run sem ((i, q) :: l) s
      = (fst (seq_run sem l (fst (step q s))),
         (i, (q, snd (step q s))) :: snd (seq_run sem l (fst (step q s)))).
  Proof.
    intros i q l s. cbn [seq_run]. unfold svc_sem at 1.
    destruct (step q s) as [s1 r]. cbn [fst snd].
    destruct (seq_run sem l s1) as [s2 e]. reflexivity.
  Qed.

  Lemma seq_run_inv : forall (l : list (nat * req)) s,
      inv s -> wf s ->
      inv (fst (seq_run sem l s)) /\ wf (fst (seq_run sem l s))
      /\ hist_run (hst_of s) (map snd (snd (seq_run sem l s)))
         = Some (hst_of (fst (seq_run sem l s))).
  Proof.
    induction l as [| [i q] l IH]; intros s Hi Hw; [repeat split; assumption|].
    rewrite seq_run_cons. cbn [fst snd map hist_run].
    pose proof (step_inv q s Hi) as Hi1. pose proof (step_wf q s Hw) as Hw1.
    rewrite (hist_accepts_step q s Hi Hw).
    exact (IH (fst (step q s)) Hi1 Hw1).
  Qed.

  (** ---- C16_mem_eq_store / C16_serialisable over all interleavings --------------------- *)

  Lemma single_preserves : forall q, preserves (fun s => inv s /\ wf s) (single sem q).
  Proof.
    intros q. cbn. intros s [Hi Hw]. split; [| exact I]. unfold svc_sem.
    pose proof (step_inv q s Hi). pose proof (step_wf q s Hw).
    destruct (step q s). cbn in *. split; assumption.
  Qed.

  Theorem mem_eq_store_reachable : forall (clients : list (list req)) s0 s,
      inv s0 -> wf s0 -> reachable s0 (progs_of sem clients) s -> mem s = sto s.
  Proof.
    intros clients s0 s Hi Hw Hr.
    apply (reachable_invariant svc (req * resp) (fun s => inv s /\ wf s) s0 (progs_of sem clients) s);
      [split; assumption | | exact Hr].
    unfold pool_ok, progs_of. apply Forall_forall. intros t Ht. apply in_map_iff in Ht.
    destruct Ht as [qs [<- _]]. apply Forall_forall. intros p Hp. apply in_map_iff in Hp.
    destruct Hp as [q [<- _]]. apply single_preserves.
  Qed.

  Theorem serialisable : forall (clients : list (list req)) sched s0,
      inv s0 -> wf s0 ->
      let ord := fst (order sched clients) in
      let final := run_state sched s0 (progs_of sem clients) in
      let events := run_events sched s0 (progs_of sem clients) in
      (* the interleaving is the sequential execution of [ord] *)
      final = fst (seq_run sem ord s0)
      /\ events = snd (seq_run sem ord s0)
      (* [ord] keeps every client's own order *)
      /\ (forall i, of_client i ord ++ nth i (snd (order sched clients)) [] = nth i clients [])
      (* the responses chain: each is the response of the sequential crew *)
      /\ hist_run (hst_of s0) (map snd events) = Some (hst_of final)
      /\ mem final = sto final.
  Proof.
    intros clients sched s0 Hi Hw. cbn zeta. unfold run_state, run_events.
    rewrite (run_serial svc (req * resp) req sem sched s0 clients). cbn [fst snd].
    destruct (seq_run_inv (fst (order sched clients)) s0 Hi Hw) as [A [B C]].
    repeat split.
    - intros i. apply order_program_order.
    - exact C.
    - exact A.
  Qed.
End Service.

(** ---- the code before the D15 repair -------------------------------------------------- *)

Definition leaf (id to : string) : json :=
  JObj [("fwd", JArr []); ("id", JStr id); ("to", JStr to)].

Definition prefix_m := prog_prefix spec_ok_m wk_m mcrew_services.

(** store down during AddMachine: memory changed, nothing stored *)
Definition prefix_down_pool : pool svc resp :=
  [[prefix_m (RFault false); prefix_m (RAdd "rec" "m0" "" [] false)]].

Lemma prefix_store_down :
  let s := run_state [0; 0; 0] svc0 prefix_down_pool in
  mhas "m0" (mem s) = true /\ sto s = [] /\ run_events [0; 0; 0] svc0 prefix_down_pool = [(0, PFault); (0, PErr)].
Proof. vm_compute. repeat split. Qed.

(** add ; process ; late write: the store is healthy throughout, yet the
    late write of AddMachine overwrites the newer record Process stored *)
Definition prefix_race_pool : pool svc resp :=
  [[prefix_m (RAdd "rec" "m0" "" [] false)]; [prefix_m (RProcess (leaf "a" "m0"))]].

Definition rec_after (log : list json) : mrec :=
  mk_mrec "rec" "start" (match log with [] => [] | _ => [("log", JArr log)] end).

Lemma prefix_lost_write :
  let s := run_state [0; 1; 0] svc0 prefix_race_pool in
  mem s = [("m0", rec_after [JStr "a"])] /\ sto s = [("m0", rec_after [])]
  /\ (* neither sequential order of the two requests ends there *)
     run_state [0; 0; 1] svc0 prefix_race_pool <> s
  /\ run_state [1; 0; 0] svc0 prefix_race_pool <> s.
Proof. vm_compute. repeat split; discriminate. Qed.

(** the same schedule on the repaired requests *)
Lemma repaired_no_lost_write :
  let p := progs_of (svc_sem spec_ok_m wk_m mcrew_services)
                    [[RAdd "rec" "m0" "" [] false]; [RProcess (leaf "a" "m0")]] in
  let s := run_state [0; 1; 0] svc0 p in
  mem s = [("m0", rec_after [JStr "a"])] /\ sto s = mem s.
Proof. vm_compute. split; reflexivity. Qed.
