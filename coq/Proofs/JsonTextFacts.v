(** [parse (print j) = Some j] for every value of the text fragment
    (Model/JsonText.v), by induction on the value; and the facts about the
    printed text that the compile proofs need. *)
From Sheens Require Import Model.JsonText.
From Coq Require Import Decimal DecimalN DecimalPos NArith Lia.
Local Open Scope char_scope.

(** * Induction on [json] through the nested lists *)
Section JsonInd.
  Variable P : json -> Prop.
  Hypothesis Hnull : P JNull.
  Hypothesis Hbool : forall b, P (JBool b).
  Hypothesis Hnum : forall z, P (JNum z).
  Hypothesis Hstr : forall s, P (JStr s).
  Hypothesis Harr : forall l, Forall P l -> P (JArr l).
  Hypothesis Hobj : forall kvs, Forall (fun kv => P (snd kv)) kvs -> P (JObj kvs).

  Fixpoint json_ind2 (j : json) : P j :=
    match j with
    | JNull => Hnull
    | JBool b => Hbool b
    | JNum z => Hnum z
    | JStr s => Hstr s
    | JArr l =>
        Harr l ((fix go (l : list json) : Forall P l :=
                   match l with
                   | [] => Forall_nil _
                   | x :: r => Forall_cons x (json_ind2 x) (go r)
                   end) l)
    | JObj kvs =>
        Hobj kvs ((fix go (l : list (string * json)) : Forall (fun kv => P (snd kv)) l :=
                     match l with
                     | [] => Forall_nil _
                     | kv :: r => Forall_cons kv (json_ind2 (snd kv)) (go r)
                     end) kvs)
    end.
End JsonInd.

(** * Digits *)
Definition digit_chars : list ascii := ["0"; "1"; "2"; "3"; "4"; "5"; "6"; "7"; "8"; "9"].

(** what may follow a number: not a digit, not a point *)
Definition num_end (rest : list ascii) : Prop :=
  match rest with
  | [] => True
  | c :: _ => digit_con c = None /\ Ascii.eqb c "." = false
  end.
Definition no_digit_head (rest : list ascii) : Prop :=
  match rest with
  | [] => True
  | c :: _ => digit_con c = None
  end.

Lemma scan_digits_chars : forall u rest,
  no_digit_head rest -> scan_digits (chars_of_uint u ++ rest) = (u, rest).
Proof.
  induction u as [| u IH | u IH | u IH | u IH | u IH | u IH | u IH | u IH | u IH | u IH];
    intros rest H; simpl; try (rewrite (IH rest H); reflexivity).
  destruct rest as [| c r]; [reflexivity |].
  simpl in H. simpl. rewrite H. reflexivity.
Qed.

Lemma uint_beq_refl : forall u, uint_beq u u = true.
Proof. intros u. apply internal_uint_dec_lb. reflexivity. Qed.

Lemma unorm_to_uint : forall n, unorm (N.to_uint n) = N.to_uint n.
Proof.
  intros n. rewrite <- DecimalN.Unsigned.to_of. rewrite DecimalN.Unsigned.of_to. reflexivity.
Qed.

Lemma to_uint_nonnil : forall n, N.to_uint n <> Nil.
Proof.
  intros [| p]; [discriminate |]. simpl. apply DecimalPos.Unsigned.to_uint_nonnil.
Qed.

Lemma chars_of_uint_head : forall u,
  u <> Nil -> exists c t, chars_of_uint u = c :: t /\ In c digit_chars.
Proof.
  intros u H.
  destruct u; [congruence | | | | | | | | | |]; simpl; eexists; eexists; (split; [reflexivity |]);
    unfold digit_chars; simpl; tauto.
Qed.

Lemma digit_chars_facts : forall c,
  In c digit_chars ->
  is_ws c = false /\ Ascii.eqb c "]" = false /\ Ascii.eqb c "}" = false /\ digit_con c <> None.
Proof.
  intros c H. unfold digit_chars in H. simpl in H.
  repeat (destruct H as [H | H]; [subst c; repeat split; (reflexivity || discriminate) |]).
  contradiction.
Qed.

Lemma frac_no_digit_head : forall r rest, num_end rest -> no_digit_head (frac_chars r ++ rest).
Proof.
  intros r rest H. destruct r as [| p].
  - simpl. destruct rest; [exact I | exact (proj1 H)].
  - destruct p as [p | p |]; try destruct p; simpl; reflexivity.
Qed.

Lemma num_end_no_digit : forall rest, num_end rest -> no_digit_head rest.
Proof. intros [| c r] H; [exact I | exact (proj1 H)]. Qed.

Definition frac_chars_lit (s : string) : list ascii := chars s.

Lemma parse_unsigned_print : forall n rest,
  num_end rest -> parse_unsigned (print_unsigned n ++ rest) = Some (n, rest).
Proof.
  intros n rest Hend. unfold parse_unsigned, print_unsigned.
  rewrite <- app_assoc.
  rewrite (scan_digits_chars _ _ (frac_no_digit_head (n mod 4) rest Hend)).
  rewrite unorm_to_uint, uint_beq_refl. simpl negb. cbv iota.
  rewrite DecimalN.Unsigned.of_to.
  pose proof (N.div_mod' n 4) as Hdm.
  pose proof (N.mod_lt n 4 ltac:(discriminate)) as Hlt.
  remember (n mod 4)%N as r eqn:Hr. remember (n / 4)%N as q eqn:Hq.
  assert (Hcases : r = 0%N \/ r = 1%N \/ r = 2%N \/ r = 3%N) by lia.
  destruct Hcases as [E | [E | [E | E]]]; subst r; rewrite E in *;
    change (frac_chars 0) with (@nil ascii); change (frac_chars 1) with (frac_chars_lit ".25");
    change (frac_chars 2) with (frac_chars_lit ".5"); change (frac_chars 3) with (frac_chars_lit ".75").
  - rewrite app_nil_l. destruct rest as [| c t].
    + f_equal. f_equal. lia.
    + destruct Hend as [_ Hdot]. rewrite Hdot. f_equal. f_equal. lia.
  - change (frac_chars_lit ".25" ++ rest) with ("." :: (chars_of_uint (D2 (D5 Nil)) ++ rest)).
    cbv iota. rewrite Ascii.eqb_refl.
    rewrite (scan_digits_chars _ _ (num_end_no_digit _ Hend)).
    change (fst (nztail (D2 (D5 Nil)))) with (D2 (D5 Nil)). cbv iota. f_equal. f_equal. lia.
  - change (frac_chars_lit ".5" ++ rest) with ("." :: (chars_of_uint (D5 Nil) ++ rest)).
    cbv iota. rewrite Ascii.eqb_refl.
    rewrite (scan_digits_chars _ _ (num_end_no_digit _ Hend)).
    change (fst (nztail (D5 Nil))) with (D5 Nil). cbv iota. f_equal. f_equal. lia.
  - change (frac_chars_lit ".75" ++ rest) with ("." :: (chars_of_uint (D7 (D5 Nil)) ++ rest)).
    cbv iota. rewrite Ascii.eqb_refl.
    rewrite (scan_digits_chars _ _ (num_end_no_digit _ Hend)).
    change (fst (nztail (D7 (D5 Nil)))) with (D7 (D5 Nil)). cbv iota. f_equal. f_equal. lia.
Qed.

Lemma print_unsigned_head : forall n,
  exists c t, print_unsigned n = c :: t /\ In c digit_chars.
Proof.
  intros n. unfold print_unsigned.
  destruct (chars_of_uint_head _ (to_uint_nonnil (n / 4))) as [c [t [E H]]].
  rewrite E. exists c, (t ++ frac_chars (n mod 4)). split; [reflexivity | exact H].
Qed.

(** * Strings *)
Lemma plain_char_not_quote : forall c, plain_char c = true -> Ascii.eqb c """" = false.
Proof.
  intros c H. destruct (Ascii.eqb_spec c """") as [E | E]; [| reflexivity].
  subst c. discriminate H.
Qed.

Lemma scan_str_chars : forall s rest,
  plain_string s = true -> scan_str (chars s ++ """" :: rest) = Some (s, rest).
Proof.
  induction s as [| c s IH]; intros rest H.
  - reflexivity.
  - simpl in H. apply andb_prop in H. destruct H as [Hc Hs].
    change (chars (String c s)) with (c :: chars s). simpl.
    rewrite (plain_char_not_quote c Hc), Hc, (IH rest Hs). reflexivity.
Qed.

Lemma print_str_app : forall s rest, print_str s ++ rest = """" :: chars s ++ """" :: rest.
Proof. intros s rest. unfold print_str. simpl. rewrite <- app_assoc. reflexivity. Qed.

(** * The first character of a printed value *)
Definition val_start (c : ascii) : Prop :=
  is_ws c = false /\ Ascii.eqb c "]" = false /\ Ascii.eqb c "}" = false.

Lemma print_l_head : forall j, exists c t, print_l j = c :: t /\ val_start c.
Proof.
  intros j. destruct j as [| b | z | s | l | kvs].
  - eexists; eexists; split; [reflexivity | repeat split].
  - destruct b; eexists; eexists; (split; [reflexivity | repeat split]).
  - simpl. unfold print_num. destruct (Z.ltb z 0).
    + eexists; eexists; split; [reflexivity | repeat split].
    + destruct (print_unsigned_head (Z.abs_N z)) as [c [t [E H]]]. rewrite E.
      exists c, t. split; [reflexivity |].
      destruct (digit_chars_facts c H) as [H1 [H2 [H3 _]]]. repeat split; assumption.
  - eexists; eexists; split; [reflexivity | repeat split].
  - eexists; eexists; split; [reflexivity | repeat split].
  - eexists; eexists; split; [reflexivity | repeat split].
Qed.

Lemma skip_ws_start : forall c t, is_ws c = false -> skip_ws (c :: t) = c :: t.
Proof. intros c t H. simpl. rewrite H. reflexivity. Qed.

(** * Fuel: the number of values *)
Fixpoint weight (j : json) : nat :=
  match j with
  | JArr l => S (fold_right (fun x acc => S (weight x + acc)) 0 l)
  | JObj kvs => S (fold_right (fun kv acc => S (weight (snd kv) + acc)) 0 kvs)
  | _ => 1
  end.
Definition wl (l : list json) : nat := fold_right (fun x acc => S (weight x + acc)) 0 l.
Definition wm (l : list (string * json)) : nat :=
  fold_right (fun kv acc => S (weight (snd kv) + acc)) 0 l.

(** what may follow a value inside the roundtrip statement *)
Definition val_end := num_end.

Definition roundtrips (j : json) : Prop :=
  forall fuel rest, weight j <= fuel -> val_end rest ->
  parse_val fuel (print_l j ++ rest) = Some (j, rest).

Lemma parse_val_digit : forall c r f,
  In c digit_chars ->
  parse_val (S f) (c :: r) =
  match parse_unsigned (c :: r) with
  | Some (n, r') => Some (JNum (Z.of_N n), r')
  | None => None
  end.
Proof.
  intros c r f H. unfold digit_chars in H. simpl in H.
  repeat (destruct H as [H | H]; [subst c; reflexivity |]). contradiction.
Qed.

Lemma roundtrips_num : forall z, roundtrips (JNum z).
Proof.
  intros z fuel rest Hf Hend. destruct fuel as [| f]; [simpl in Hf; lia |].
  simpl print_l. unfold print_num.
  destruct (Z.ltb_spec z 0) as [Hneg | Hpos].
  - change ((("-" :: nil) ++ print_unsigned (Z.abs_N z)) ++ rest)
      with ("-" :: (print_unsigned (Z.abs_N z) ++ rest)).
    simpl parse_val.
    change (skip_ws ("-" :: print_unsigned (Z.abs_N z) ++ rest))
      with ("-" :: print_unsigned (Z.abs_N z) ++ rest).
    cbv iota. rewrite (parse_unsigned_print _ _ Hend).
    f_equal. f_equal. f_equal. rewrite N2Z.inj_abs_N. lia.
  - destruct (print_unsigned_head (Z.abs_N z)) as [c [t [E H]]].
    pose proof (parse_unsigned_print (Z.abs_N z) rest Hend) as Hp.
    rewrite E in *. rewrite app_nil_l.
    change ((c :: t) ++ rest) with (c :: (t ++ rest)) in *.
    rewrite (parse_val_digit c (t ++ rest) f H). rewrite Hp.
    f_equal. f_equal. f_equal. rewrite N2Z.inj_abs_N. lia.
Qed.

Lemma val_end_sep_elems : forall pr r rest, val_end (sep_elems pr r ++ rest).
Proof. intros pr [| y r] rest; simpl; split; reflexivity. Qed.
Lemma val_end_sep_members : forall pr r rest, val_end (sep_members pr r ++ rest).
Proof. intros pr [| y r] rest; simpl; split; reflexivity. Qed.

Lemma parse_elems_S : forall f cs acc,
  parse_elems (S f) cs acc =
  match parse_val f cs with
  | Some (v, r) =>
      match skip_ws r with
      | "," :: r' => parse_elems f r' (v :: acc)
      | "]" :: r' => Some (JArr (List.rev (v :: acc)), r')
      | _ => None
      end
  | None => None
  end.
Proof. reflexivity. Qed.

Lemma parse_members_S : forall f cs acc,
  parse_members (S f) cs acc =
  match skip_ws cs with
  | """" :: r =>
      match scan_str r with
      | Some (k, r1) =>
          match skip_ws r1 with
          | ":" :: r2 =>
              match parse_val f r2 with
              | Some (v, r3) =>
                  match skip_ws r3 with
                  | "," :: r4 => parse_members f r4 ((k, v) :: acc)
                  | "}" :: r4 => Some (JObj (List.rev ((k, v) :: acc)), r4)
                  | _ => None
                  end
              | None => None
              end
          | _ => None
          end
      | None => None
      end
  | _ => None
  end.
Proof. reflexivity. Qed.

Lemma skip_ws_lit : forall c t, is_ws c = false -> skip_ws (c :: t) = c :: t.
Proof. intros c t H. simpl. rewrite H. reflexivity. Qed.

Lemma parse_elems_print : forall r,
  Forall roundtrips r ->
  forall x acc fuel rest,
  roundtrips x -> wl (x :: r) <= fuel ->
  parse_elems fuel (print_l x ++ sep_elems print_l r ++ rest) acc
  = Some (JArr (List.rev acc ++ x :: r), rest).
Proof.
  induction r as [| y r IH]; intros Hall x acc fuel rest Hx Hf;
    (destruct fuel as [| f]; [simpl in Hf; lia |]); simpl in Hf.
  - rewrite parse_elems_S. rewrite (Hx f _ ltac:(lia) (val_end_sep_elems print_l [] rest)).
    simpl. reflexivity.
  - inversion Hall as [| y' r' Hy Hr]; subst.
    rewrite parse_elems_S. rewrite (Hx f _ ltac:(lia) (val_end_sep_elems print_l (y :: r) rest)).
    change (sep_elems print_l (y :: r) ++ rest)
      with ("," :: ((print_l y ++ sep_elems print_l r) ++ rest)).
    rewrite (skip_ws_lit "," _ eq_refl).
    rewrite <- app_assoc.
    rewrite (IH Hr y (x :: acc) f rest Hy ltac:(simpl; lia)).
    simpl. rewrite <- app_assoc. reflexivity.
Qed.

Lemma parse_members_print : forall r,
  Forall (fun kv => roundtrips (snd kv)) r ->
  forall k v acc fuel rest,
  roundtrips v -> plain_string k = true ->
  forallb (fun kv => plain_string (fst kv)) r = true ->
  wm ((k, v) :: r) <= fuel ->
  parse_members fuel (print_str k ++ ":" :: print_l v ++ sep_members print_l r ++ rest) acc
  = Some (JObj (List.rev acc ++ (k, v) :: r), rest).
Proof.
  induction r as [| [k' v'] r IH]; intros Hall k v acc fuel rest Hv Hk Hks Hf;
    (destruct fuel as [| f]; [simpl in Hf; lia |]); simpl in Hf.
  - rewrite parse_members_S. rewrite print_str_app. rewrite (skip_ws_lit """" _ eq_refl).
    rewrite (scan_str_chars k _ Hk). rewrite (skip_ws_lit ":" _ eq_refl).
    rewrite (Hv f _ ltac:(lia) (val_end_sep_members print_l [] rest)).
    simpl. reflexivity.
  - inversion Hall as [| kv' r' Hy Hr]; subst. simpl in Hy.
    simpl in Hks. apply andb_prop in Hks. destruct Hks as [Hk' Hks].
    rewrite parse_members_S. rewrite print_str_app. rewrite (skip_ws_lit """" _ eq_refl).
    rewrite (scan_str_chars k _ Hk). rewrite (skip_ws_lit ":" _ eq_refl).
    rewrite (Hv f _ ltac:(lia) (val_end_sep_members print_l ((k', v') :: r) rest)).
    change (sep_members print_l ((k', v') :: r) ++ rest)
      with ("," :: ((print_str k' ++ ":" :: print_l v' ++ sep_members print_l r) ++ rest)).
    rewrite (skip_ws_lit "," _ eq_refl).
    replace ((print_str k' ++ ":" :: print_l v' ++ sep_members print_l r) ++ rest)
      with (print_str k' ++ ":" :: print_l v' ++ sep_members print_l r ++ rest)
      by (rewrite <- !app_assoc; simpl; rewrite <- !app_assoc; reflexivity).
    rewrite (IH Hr k' v' ((k, v) :: acc) f rest Hy Hk' Hks ltac:(simpl; lia)).
    simpl. rewrite <- app_assoc. reflexivity.
Qed.

Lemma forallb_Forall : forall A (f : A -> bool) l, forallb f l = true -> Forall (fun x => f x = true) l.
Proof.
  induction l as [| x l IH]; intros H; [constructor |].
  simpl in H. apply andb_prop in H. destruct H as [Hx Hl]. constructor; [exact Hx | exact (IH Hl)].
Qed.

Lemma parse_val_arr : forall f c t,
  val_start c -> parse_val (S f) ("[" :: c :: t) = parse_elems f (c :: t) [].
Proof.
  intros f c t [Hws [Hb _]].
  change (parse_val (S f) ("[" :: c :: t))
    with (match skip_ws (c :: t) with
          | c' :: r' => if Ascii.eqb c' "]" then Some (JArr [], r') else parse_elems f (c' :: r') []
          | [] => None
          end).
  rewrite (skip_ws_lit c t Hws), Hb. reflexivity.
Qed.

Lemma parse_val_obj : forall f t,
  parse_val (S f) ("{" :: """" :: t) = parse_members f ("""" :: t) [].
Proof. reflexivity. Qed.

Lemma parse_val_str : forall f t,
  parse_val (S f) ("""" :: t) =
  match scan_str t with Some (s, r') => Some (JStr s, r') | None => None end.
Proof. reflexivity. Qed.

Theorem parse_val_print : forall j, plain_json j = true -> roundtrips j.
Proof.
  induction j as [| b | z | s | l IH | kvs IH] using json_ind2; intros Hp.
  - intros fuel rest Hf _. destruct fuel as [| f]; [simpl in Hf; lia | reflexivity].
  - intros fuel rest Hf _. destruct fuel as [| f]; [simpl in Hf; lia |]. destruct b; reflexivity.
  - apply roundtrips_num.
  - intros fuel rest Hf _. destruct fuel as [| f]; [simpl in Hf; lia |].
    simpl in Hp. simpl print_l. rewrite print_str_app. rewrite parse_val_str.
    rewrite (scan_str_chars s rest Hp). reflexivity.
  - intros fuel rest Hf _. destruct fuel as [| f]; [simpl in Hf; lia |].
    destruct l as [| x r].
    + reflexivity.
    + simpl in Hp. apply andb_prop in Hp. destruct Hp as [Hpx Hpr].
      inversion IH as [| x' r' Hx Hr]; subst.
      assert (Hall : Forall roundtrips r).
      { apply forallb_Forall in Hpr. clear -Hr Hpr. induction r as [| y r IHr]; [constructor |].
        inversion Hr; subst. inversion Hpr; subst. constructor; [auto | auto]. }
      change (print_l (JArr (x :: r)) ++ rest)
        with ("[" :: ((print_l x ++ sep_elems print_l r) ++ rest)).
      rewrite <- app_assoc.
      destruct (print_l_head x) as [c [t [E Hstart]]].
      pose proof (parse_elems_print r Hall x [] f rest (Hx Hpx)
                    ltac:(simpl in Hf; simpl; unfold wl; lia)) as Hm.
      rewrite E in *. change ((c :: t) ++ sep_elems print_l r ++ rest)
        with (c :: (t ++ sep_elems print_l r ++ rest)) in *.
      rewrite (parse_val_arr f c _ Hstart). rewrite Hm. reflexivity.
  - intros fuel rest Hf _. destruct fuel as [| f]; [simpl in Hf; lia |].
    destruct kvs as [| [k v] r].
    + reflexivity.
    + simpl in Hp. apply andb_prop in Hp. destruct Hp as [Hpx Hpr].
      apply andb_prop in Hpx. destruct Hpx as [Hk Hv].
      inversion IH as [| x' r' Hx Hr]; subst. simpl in Hx.
      assert (Hall : Forall (fun kv => roundtrips (snd kv)) r).
      { apply forallb_Forall in Hpr. clear -Hr Hpr. induction r as [| y r IHr]; [constructor |].
        inversion Hr; subst. inversion Hpr as [| y' r' Hy Hr']; subst.
        apply andb_prop in Hy. destruct Hy as [_ Hy]. constructor; [auto | auto]. }
      assert (Hks : forallb (fun kv : string * json => plain_string (fst kv)) r = true).
      { clear -Hpr. induction r as [| y r IHr]; [reflexivity |].
        simpl in Hpr. apply andb_prop in Hpr. destruct Hpr as [Hy Hr].
        apply andb_prop in Hy. destruct Hy as [Hy _]. simpl. rewrite Hy. exact (IHr Hr). }
      pose proof (parse_members_print r Hall k v [] f rest (Hx Hv) Hk Hks
                    ltac:(simpl in Hf; simpl; unfold wm; lia)) as Hm.
      change (print_l (JObj ((k, v) :: r)) ++ rest)
        with ("{" :: ((print_str k ++ ":" :: print_l v ++ sep_members print_l r) ++ rest)).
      replace ((print_str k ++ ":" :: print_l v ++ sep_members print_l r) ++ rest)
        with (print_str k ++ ":" :: print_l v ++ sep_members print_l r ++ rest)
        by (rewrite <- !app_assoc; simpl; rewrite <- !app_assoc; reflexivity).
      rewrite print_str_app in *.
      rewrite parse_val_obj. rewrite Hm. reflexivity.
Qed.

(** * Enough fuel: one value per character at most *)
Lemma print_unsigned_length : forall n, 1 <= List.length (print_unsigned n).
Proof.
  intros n. destruct (print_unsigned_head n) as [c [t [E _]]]. rewrite E. simpl. lia.
Qed.

Lemma weight_le_length : forall j, weight j <= List.length (print_l j).
Proof.
  induction j as [| b | z | s | l IH | kvs IH] using json_ind2.
  - simpl. lia.
  - destruct b; simpl; lia.
  - simpl. unfold print_num. rewrite app_length. pose proof (print_unsigned_length (Z.abs_N z)). lia.
  - simpl. lia.
  - destruct l as [| x r]; [simpl; lia |].
    inversion IH as [| x' r' Hx Hr]; subst.
    assert (Hsep : wl r + 1 <= List.length (sep_elems print_l r)).
    { clear -Hr. induction r as [| y r IHr]; [simpl; lia |].
      inversion Hr; subst. simpl. rewrite app_length. specialize (IHr H2). unfold wl in *. lia. }
    simpl. rewrite app_length. unfold wl in Hsep. lia.
  - destruct kvs as [| [k v] r]; [simpl; lia |].
    inversion IH as [| x' r' Hx Hr]; subst. simpl in Hx.
    assert (Hsep : wm r + 1 <= List.length (sep_members print_l r)).
    { clear -Hr. induction r as [| y r IHr]; [simpl; lia |].
      inversion Hr; subst. simpl. repeat (rewrite app_length; simpl). specialize (IHr H2).
      unfold wm in *. lia. }
    simpl. repeat (rewrite app_length; simpl). unfold wm in Hsep. lia.
Qed.

Theorem parse_chars_print : forall j, plain_json j = true -> parse_chars (print_l j) = Some j.
Proof.
  intros j Hp. unfold parse_chars.
  pose proof (parse_val_print j Hp (S (List.length (print_l j))) []
                ltac:(pose proof (weight_le_length j); lia) I) as H.
  rewrite app_nil_r in H. rewrite H. reflexivity.
Qed.

(** the statement of DESIGN section 5 C13: the parser inverts the printer
    on the whole fragment *)
Theorem parse_print : forall j, plain_json j = true -> parse (print j) = Some j.
Proof.
  intros j Hp. unfold parse, print.
  rewrite list_ascii_of_string_of_list_ascii. exact (parse_chars_print j Hp).
Qed.

(** a printed text is never itself the text of a different value: two
    values with the same text are equal (the printer is injective) *)
Corollary print_inj : forall a b,
  plain_json a = true -> plain_json b = true -> print a = print b -> a = b.
Proof.
  intros a b Ha Hb E. pose proof (parse_print a Ha) as Pa. rewrite E, (parse_print b Hb) in Pa.
  congruence.
Qed.
