(** Structural lemmas about the traversals of Model/Compile.v: [mapM], the
    pattern traversal [tr_nodes], the patterns of a Spec value. *)
From Sheens Require Import Model.Compile Proofs.CanonFacts Proofs.JsonTextFacts.
From Coq Require Import Lia.

(** * [mapM] *)
Lemma mapM_ext_in : forall A B (f g : A -> cres B) l,
  (forall x, In x l -> f x = g x) -> mapM f l = mapM g l.
Proof.
  induction l as [| x r IH]; intros H; [reflexivity |].
  simpl. rewrite (H x (or_introl eq_refl)). rewrite IH; [reflexivity |].
  intros y Hy. apply H. right. exact Hy.
Qed.

Lemma mapM_map : forall A B C (g : A -> B) (f : B -> cres C) l,
  mapM f (map g l) = mapM (fun x => f (g x)) l.
Proof.
  induction l as [| x r IH]; [reflexivity |]. simpl. rewrite IH. reflexivity.
Qed.

Lemma mapM_pure : forall A B (g : A -> B) l, mapM (fun x => inr (g x)) l = inr (map g l).
Proof.
  induction l as [| x r IH]; [reflexivity |]. simpl. rewrite IH. reflexivity.
Qed.

Lemma mapM_inr_id : forall A (f : A -> cres A) l,
  (forall x, In x l -> f x = inr x) -> mapM f l = inr l.
Proof.
  induction l as [| x r IH]; intros H; [reflexivity |].
  simpl. rewrite (H x (or_introl eq_refl)). rewrite IH; [reflexivity |].
  intros y Hy. apply H. right. exact Hy.
Qed.

Lemma mapM_map_inr : forall A B (g : A -> B) (f : B -> cres A) l,
  (forall x, In x l -> f (g x) = inr x) -> mapM f (map g l) = inr l.
Proof.
  intros A B g f l H. rewrite mapM_map. apply mapM_inr_id. exact H.
Qed.

Lemma mapM_Forall2 : forall A B (f : A -> cres B) l l',
  mapM f l = inr l' -> Forall2 (fun x y => f x = inr y) l l'.
Proof.
  induction l as [| x r IH]; intros l' H; simpl in H.
  - inversion H. constructor.
  - destruct (f x) as [e | y] eqn:E; [discriminate |].
    destruct (mapM f r) as [e | ys] eqn:Er; [discriminate |].
    inversion H; subst. constructor; [exact E | exact (IH ys eq_refl)].
Qed.

Lemma mapM_inl_in : forall A B (f : A -> cres B) l x e,
  In x l -> f x = inl e -> exists e', mapM f l = inl e'.
Proof.
  induction l as [| y r IH]; intros x e Hin Hf; [contradiction |].
  simpl. destruct Hin as [E | Hin].
  - subst y. rewrite Hf. eexists. reflexivity.
  - destruct (f y) as [e1 | y1]; [eexists; reflexivity |].
    destruct (IH x e Hin Hf) as [e' He']. rewrite He'. eexists. reflexivity.
Qed.

Lemma mapM_all_inl : forall A B (f : A -> cres B) l e,
  (forall x e', f x = inl e' -> e' = e) ->
  (exists x, In x l /\ f x = inl e) -> mapM f l = inl e.
Proof.
  induction l as [| y r IH]; intros e Hf [x [Hin Hx]]; [contradiction |].
  simpl. destruct Hin as [E | Hin].
  - subst y. rewrite Hx. reflexivity.
  - destruct (f y) as [e1 | y1] eqn:Ey.
    + rewrite (Hf y e1 Ey). reflexivity.
    + rewrite (IH e Hf (ex_intro _ x (conj Hin Hx))). reflexivity.
Qed.

Lemma Forall2_in_l : forall A B (R : A -> B -> Prop) l l' x,
  Forall2 R l l' -> In x l -> exists y, In y l' /\ R x y.
Proof.
  intros A B R l l' x H. induction H as [| a b l l' Hab Hl IH]; intros Hin; [contradiction |].
  destruct Hin as [E | Hin].
  - subst a. exists b. split; [left; reflexivity | exact Hab].
  - destruct (IH Hin) as [y [Hy Hr]]. exists y. split; [right; exact Hy | exact Hr].
Qed.

Lemma Forall2_in_r : forall A B (R : A -> B -> Prop) l l' y,
  Forall2 R l l' -> In y l' -> exists x, In x l /\ R x y.
Proof.
  intros A B R l l' y H. induction H as [| a b l l' Hab Hl IH]; intros Hin; [contradiction |].
  destruct Hin as [E | Hin].
  - subst b. exists a. split; [left; reflexivity | exact Hab].
  - destruct (IH Hin) as [x [Hx Hr]]. exists x. split; [right; exact Hx | exact Hr].
Qed.

Lemma Forall2_Forall_r : forall A B (R : A -> B -> Prop) (P : A -> Prop) (Q : B -> Prop) l l',
  Forall2 R l l' -> Forall P l -> (forall x y, P x -> R x y -> Q y) -> Forall Q l'.
Proof.
  intros A B R P Q l l' H. induction H as [| a b l l' Hab Hl IH]; intros HP Himp; [constructor |].
  inversion HP; subst. constructor; [eapply Himp; eassumption | apply IH; assumption].
Qed.

(** * The patterns of a Spec value *)
Definition branch_patterns (ob : option dbranch) : list json :=
  match ob with Some b => [db_pattern b] | None => [] end.
Definition node_patterns (kn : string * option dnode) : list json :=
  match snd kn with
  | Some n =>
      match dn_branching n with
      | Some bg => flat_map branch_patterns (dg_branches bg)
      | None => []
      end
  | None => []
  end.
Definition nodes_patterns (ns : list (string * option dnode)) : list json := flat_map node_patterns ns.
Definition doc_patterns (a : adoc) : list json := nodes_patterns (ad_nodes a).

(** * The traversal only depends on what [f] does on the patterns present *)
Lemma tr_branch_ext : forall f g ob,
  (forall p, In p (branch_patterns ob) -> f p = g p) -> tr_branch f ob = tr_branch g ob.
Proof.
  intros f g [b |] H; [| reflexivity]. simpl. rewrite (H (db_pattern b) (or_introl eq_refl)). reflexivity.
Qed.

Lemma tr_node_ext : forall f g kn,
  (forall p, In p (node_patterns kn) -> f p = g p) -> tr_node f kn = tr_node g kn.
Proof.
  intros f g [k [n |]] H; [| reflexivity]. unfold tr_node, node_patterns in *. simpl in *.
  destruct (dn_branching n) as [bg |]; [| reflexivity].
  rewrite (mapM_ext_in _ _ (tr_branch f) (tr_branch g) (dg_branches bg)); [reflexivity |].
  intros ob Hob. apply tr_branch_ext. intros p Hp. apply H. apply in_flat_map. exists ob. auto.
Qed.

Lemma tr_nodes_ext : forall f g ns,
  (forall p, In p (nodes_patterns ns) -> f p = g p) -> tr_nodes f ns = tr_nodes g ns.
Proof.
  intros f g ns H. unfold tr_nodes. apply mapM_ext_in. intros kn Hkn.
  apply tr_node_ext. intros p Hp. apply H. unfold nodes_patterns. apply in_flat_map. exists kn. auto.
Qed.

(** * Rewriting every pattern, then traversing *)
Definition map_branch (g : json -> json) (ob : option dbranch) : option dbranch :=
  option_map (fun b => mk_dbranch (g (db_pattern b)) (db_guard b) (db_guard_src b) (db_target b)) ob.
Definition map_node (g : json -> json) (kn : string * option dnode) : string * option dnode :=
  match snd kn with
  | Some n =>
      match dn_branching n with
      | Some bg =>
          (fst kn, Some (mk_dnode (dn_action n) (dn_source n)
                                  (Some (mk_dbranching (dg_type bg) (map (map_branch g) (dg_branches bg))))))
      | None => kn
      end
  | None => kn
  end.

Lemma tr_branch_pure : forall g ob, tr_branch (fun p => inr (g p)) ob = inr (map_branch g ob).
Proof. intros g [b |]; reflexivity. Qed.

Lemma tr_node_pure : forall g kn, tr_node (fun p => inr (g p)) kn = inr (map_node g kn).
Proof.
  intros g [k [n |]]; [| reflexivity]. unfold tr_node, map_node. simpl.
  destruct (dn_branching n) as [bg |]; [| reflexivity].
  rewrite (mapM_ext_in _ _ _ (fun ob => inr (map_branch g ob)) _ (fun ob _ => tr_branch_pure g ob)).
  rewrite mapM_pure. reflexivity.
Qed.

Lemma tr_nodes_pure : forall g ns, tr_nodes (fun p => inr (g p)) ns = inr (map (map_node g) ns).
Proof.
  intros g ns. unfold tr_nodes.
  rewrite (mapM_ext_in _ _ _ (fun kn => inr (map_node g kn)) _ (fun kn _ => tr_node_pure g kn)).
  apply mapM_pure.
Qed.

Lemma tr_branch_map : forall f g ob, tr_branch f (map_branch g ob) = tr_branch (fun p => f (g p)) ob.
Proof. intros f g [b |]; reflexivity. Qed.

Lemma tr_node_map : forall f g kn, tr_node f (map_node g kn) = tr_node (fun p => f (g p)) kn.
Proof.
  intros f g [k [n |]]; [| reflexivity]. unfold tr_node, map_node. simpl.
  destruct (dn_branching n) as [bg |] eqn:E; simpl; [| rewrite E; reflexivity].
  rewrite mapM_map.
  rewrite (mapM_ext_in _ _ _ (tr_branch (fun p => f (g p))) _ (fun ob _ => tr_branch_map f g ob)).
  reflexivity.
Qed.

Lemma tr_nodes_map : forall f g ns,
  tr_nodes f (map (map_node g) ns) = tr_nodes (fun p => f (g p)) ns.
Proof.
  intros f g ns. unfold tr_nodes. rewrite mapM_map. apply mapM_ext_in.
  intros kn _. apply tr_node_map.
Qed.

Lemma map_patterns_nodes : forall g a, ad_nodes (map_patterns g a) = map (map_node g) (ad_nodes a).
Proof. intros g a. unfold map_patterns. rewrite tr_nodes_pure. reflexivity. Qed.

(** * What the traversal leaves alone *)
Lemma tr_branch_inv : forall f ob ob1,
  tr_branch f ob = inr ob1 ->
  match ob, ob1 with
  | None, None => True
  | Some b, Some b1 =>
      f (db_pattern b) = inr (db_pattern b1) /\ db_guard b1 = db_guard b
      /\ db_guard_src b1 = db_guard_src b /\ db_target b1 = db_target b
  | _, _ => False
  end.
Proof.
  intros f [b |] ob1 H; simpl in H.
  - destruct (f (db_pattern b)) as [e | p] eqn:E; simpl in H; [discriminate |].
    inversion H; subst. simpl. auto.
  - inversion H. exact I.
Qed.

Lemma tr_node_inv : forall f kn kn1,
  tr_node f kn = inr kn1 ->
  fst kn1 = fst kn /\
  match snd kn, snd kn1 with
  | None, None => True
  | Some n, Some n1 =>
      dn_action n1 = dn_action n /\ dn_source n1 = dn_source n /\
      match dn_branching n, dn_branching n1 with
      | None, None => True
      | Some bg, Some bg1 =>
          dg_type bg1 = dg_type bg /\
          Forall2 (fun ob ob1 => tr_branch f ob = inr ob1) (dg_branches bg) (dg_branches bg1)
      | _, _ => False
      end
  | _, _ => False
  end.
Proof.
  intros f [k [n |]] kn1 H; unfold tr_node in H; simpl in H.
  - destruct (dn_branching n) as [bg |] eqn:E.
    + destruct (mapM (tr_branch f) (dg_branches bg)) as [e | brs] eqn:Em; simpl in H; [discriminate |].
      inversion H; subst. simpl. rewrite E. split; [reflexivity |]. repeat split.
      exact (mapM_Forall2 _ _ _ _ _ Em).
    + inversion H; subst. simpl. rewrite E. auto.
  - inversion H; subst. simpl. auto.
Qed.
