(** Part 2 of completeness without the restriction to plain variables.
    [sg] is the whole final binding set (bounds of inequality variables
    included); from the bindings "[sg] restricted to the names seen so far"
    the matcher returns, among others, the restriction of [sg] to these plus
    the names the pattern binds ([bvars]: its variables and the plain
    counterparts of its inequality variables).  An unassigned optional
    variable binds nothing.  The proof follows Proofs/MatchComplete.v. *)
From Sheens Require Export Proofs.MatchComplete Proofs.CplGenTotal.
From Coq Require Import Lia.
From Sheens Require Import Proofs.BoundMatch.

(** * Variable syntax *)
Lemma prefix_empty : forall s, String.prefix "" s = true.
Proof. destruct s; reflexivity. Qed.

Lemma optional_shape : forall s, is_optional s = true -> exists r, s = String "?" (String "?" r).
Proof.
  intros s H. unfold is_optional, opt_sigil in H.
  destruct s as [|a [|b r]]; cbn [String.prefix] in H.
  - discriminate.
  - destruct (ascii_dec "?" a); discriminate.
  - destruct (ascii_dec "?" a) as [<-|]; [|discriminate].
    destruct (ascii_dec "?" b) as [<-|]; [|discriminate]. exists r; reflexivity.
Qed.

Lemma optional_is_var : forall s, is_optional s = true -> is_var s = true.
Proof.
  intros s H. destruct (optional_shape s H) as [r ->]. unfold is_var, var_sigil.
  cbn [String.prefix]. destruct (ascii_dec "?" "?") as [_|n]; [reflexivity | congruence].
Qed.

Lemma optional_no_ineq : forall s, is_optional s = true -> ineq_parse s = None.
Proof.
  intros s H. destruct (optional_shape s H) as [r ->]. unfold ineq_parse.
  destruct (negb (String.prefix var_sigil (String "?" (String "?" r)))); [reflexivity|].
  destruct (Nat.leb (String.length (String "?" (String "?" r))) 2); [reflexivity|].
  reflexivity.
Qed.

Lemma bv_no_ineq : forall s, no_ineq_var s = true -> bv s = [s].
Proof. intros s H. unfold bv, no_ineq_var in *. destruct (ineq_parse s); [discriminate | reflexivity]. Qed.

Lemma bv_optional : forall s, is_optional s = true -> bv s = [s].
Proof. intros s H. unfold bv. rewrite (optional_no_ineq s H). reflexivity. Qed.

Lemma bv_anon : bv anon_var = [anon_var].
Proof. reflexivity. Qed.

(** * [bvars] of sub-patterns *)
Lemma bvars_obj_cons : forall k v r,
  bvars (JObj ((k, v) :: r)) = (flat_map bv (if is_var k then [k] else []) ++ bvars v) ++ bvars (JObj r).
Proof. intros k v r. unfold bvars. rewrite pvars_obj_cons, !flat_map_app. reflexivity. Qed.

Lemma bvars_arr_cons : forall x r, bvars (JArr (x :: r)) = bvars x ++ bvars (JArr r).
Proof. intros x r. unfold bvars. rewrite pvars_arr_cons, flat_map_app. reflexivity. Qed.

Lemma bvars_scalar_nonvar : forall c, is_scalar c = true -> is_var_json c = false -> bvars c = [].
Proof. intros c Hs Hv. unfold bvars. rewrite (pvars_scalar_nonvar c Hs Hv). reflexivity. Qed.

Lemma bvars_var : forall s, is_var s = true -> bvars (JStr s) = bv s.
Proof. intros s H. unfold bvars. cbn [pvars]. rewrite H. cbn [flat_map]. apply app_nil_r. Qed.

Lemma pvars_incl_bvars : forall p s, In s (pvars p) -> In s (bvars p).
Proof.
  intros p s H. unfold bvars. apply in_flat_map. exists s; split; [exact H | left; reflexivity].
Qed.

(** * [inequal] when the bound is there *)
Lemma inequal_bound : forall s op vv a b bs,
  ineq_parse s = Some (op, vv) -> lookup s bs = Some (JNum b) -> sat op a b = true ->
  lookup vv bs = Some (JNum a) -> inequal (JNum a) bs s = Using [bs].
Proof.
  intros s op vv a b bs Hp Hl Hs Hv. unfold inequal. rewrite inequalities_true. cbn [negb].
  rewrite Hl, Hp, Hs, Hv, Z.eqb_refl. reflexivity.
Qed.

Lemma inequal_fresh : forall s op vv a b bs,
  ineq_parse s = Some (op, vv) -> lookup s bs = Some (JNum b) -> sat op a b = true ->
  lookup vv bs = None -> inequal (JNum a) bs s = Using [bset vv (JNum a) bs].
Proof.
  intros s op vv a b bs Hp Hl Hs Hv. unfold inequal. rewrite inequalities_true. cbn [negb].
  rewrite Hl, Hp, Hs, Hv. reflexivity.
Qed.

(** * [inj_assign] with skipped elements, by distinct positions *)
Lemma inj_assign_idx_skip : forall (A : Type) (P : A -> json -> bool) (skip : A -> bool)
    (xs : list A) (l : list ijson),
  NoDup (map fst l) ->
  inj_assign P skip xs (map snd l) = true ->
  exists ws : list ijson,
    Forall2 (fun x w => P x (snd w) = true) (filter (fun x => negb (skip x)) xs) ws /\
    NoDup (map fst ws) /\ incl ws l.
Proof.
  intros A P skip; induction xs as [|x xs IH]; intros l Hnd H.
  - exists []; repeat split; [constructor | constructor | intros w []].
  - cbn [inj_assign] in H. cbn [filter]. destruct (skip x) eqn:Esk; cbn [negb].
    + apply IH; assumption.
    + apply existsb_exists in H. destruct H as [[y rest] [Hin Hy]]. cbn [fst snd] in Hy.
      apply andb_true_iff in Hy; destruct Hy as [HP Hrest].
      rewrite picks_map in Hin. apply in_map_iff in Hin. destruct Hin as [[w r] [Heq Hin]].
      cbn [fst snd] in Heq. inversion Heq; subst y rest.
      pose proof (picks_perm _ _ _ _ Hin) as Hperm.
      assert (Hnd' : NoDup (map fst (w :: r))).
      { eapply Permutation_NoDup; [|exact Hnd]. apply Permutation_map. apply Permutation_sym; exact Hperm. }
      cbn [map] in Hnd'. inversion Hnd' as [|a b Hnotin Hndr]; subst.
      destruct (IH r Hndr Hrest) as [ws [HF [Hn Hi]]].
      exists (w :: ws). repeat split.
      * constructor; [exact HP | exact HF].
      * cbn [map]. constructor; [|exact Hn].
        intros Hc. apply Hnotin. apply in_map_iff in Hc. destruct Hc as [w' [Hfw Hw']].
        apply in_map_iff. exists w'; split; [exact Hfw | apply Hi; exact Hw'].
      * intros w' [<-|Hin'].
        -- eapply Permutation_in; [exact Hperm | left; reflexivity].
        -- eapply Permutation_in; [exact Hperm | right; apply Hi; exact Hin'].
Qed.

Lemma Permutation_filter_g : forall (A : Type) (g : A -> bool) (a b : list A),
  Permutation a b -> Permutation (filter g a) (filter g b).
Proof.
  intros A g a b H; induction H as [| x a b H IH | x y a | a b c H1 IH1 H2 IH2]; cbn [filter].
  - constructor.
  - destruct (g x); [apply perm_skip|]; exact IH.
  - destruct (g x), (g y); try apply Permutation_refl. apply perm_swap.
  - eapply perm_trans; eauto.
Qed.

(** * Lengths: every element of the pattern uses up an element of the array *)
Lemma index_facts_len : forall fa i fxs fxa,
  index_facts i fa = (fxs, fxa) -> List.length fxs + List.length fxa <= List.length fa.
Proof.
  induction fa as [|y r IH]; intros i fxs fxa H; cbn [index_facts] in H.
  - inversion H; subst; cbn; lia.
  - destruct (index_facts (S i) r) as [fxs0 fxa0] eqn:E. specialize (IH _ _ _ E).
    destruct (is_scalar y); inversion H; subst; cbn [List.length].
    + destruct (jmem y fxs0); cbn [List.length]; lia.
    + lia.
Qed.

Lemma jremove_len : forall x l, jmem x l = true -> List.length (jremove x l) + 1 <= List.length l.
Proof.
  intros x l; induction l as [|y l IH]; intros H; [discriminate|].
  cbn [jmem existsb] in H. cbn [jremove]. destruct (json_eqb x y) eqn:E.
  - cbn [List.length].
    assert (Hle : List.length (jremove x l) <= List.length l).
    { clear. induction l as [|z l IHl]; cbn [jremove List.length]; [lia|].
      destruct (json_eqb x z); cbn [List.length]; lia. }
    lia.
  - cbn [orb] in H. specialize (IH H). cbn [List.length]. lia.
Qed.

Lemma remove_idx_len : forall j fact mm,
  In (j, fact) mm -> List.length (remove_idx j mm) + 1 <= List.length mm.
Proof.
  intros j fact mm; induction mm as [|[j0 y0] mm IH]; intros H; [contradiction|].
  unfold remove_idx in *. cbn [filter fst].
  assert (Hle : List.length (filter (fun e : nat * json => negb (Nat.eqb (fst e) j)) mm) <= List.length mm).
  { clear. induction mm as [|e mm IHm]; cbn [filter List.length]; [lia|].
    destruct (negb (Nat.eqb (fst e) j)); cbn [List.length]; lia. }
  destruct H as [Heq|H].
  - inversion Heq; subst. rewrite Nat.eqb_refl. cbn [negb List.length]. lia.
  - specialize (IH H). destruct (negb (Nat.eqb j0 j)); cbn [List.length]; lia.
Qed.

Section Lengths.
  Variable ord : order_oracle.
  Hypothesis Hord : perm_oracle ord.
  Variable rec : rec_t.

  Lemma try_each_len : forall mm bss x mm_all r,
    try_each rec bss x mm_all mm = Ok r -> incl mm mm_all ->
    forall pr, In pr r -> List.length (snd pr) + 1 <= List.length mm_all.
  Proof.
    induction mm as [|[j fact] mm IH]; intros bss x mm_all r H Hi pr Hpr; cbn [try_each] in H.
    - inversion H; subst. contradiction.
    - destruct (mwb rec bss x fact) as [acc| |]; try discriminate.
      destruct (try_each rec bss x mm_all mm) as [rest| |] eqn:E2; try discriminate.
      assert (Hrest : In pr rest -> List.length (snd pr) + 1 <= List.length mm_all).
      { intros Hin. eapply IH; eauto. intros e He; apply Hi; right; exact He. }
      inversion H; subst. destruct acc as [|a acc]; [auto|].
      destruct Hpr as [<-|Hpr]; [|auto]. cbn [snd].
      eapply remove_idx_len. apply Hi; left; reflexivity.
  Qed.

  Lemma arraycat_len : forall pairs x r m,
    arraycat ord rec pairs x = Ok r ->
    (forall pr, In pr pairs -> List.length (snd pr) <= m) ->
    forall pr, In pr r -> List.length (snd pr) + 1 <= m.
  Proof.
    induction pairs as [|[bss mm] pairs IH]; intros x r m H Hm pr Hpr; cbn [arraycat] in H.
    - inversion H; subst. contradiction.
    - destruct (try_each rec bss x mm (ord _ mm)) as [a| |] eqn:E1; try discriminate.
      destruct (arraycat ord rec pairs x) as [b| |] eqn:E2; try discriminate.
      inversion H; subst. apply in_app_or in Hpr. destruct Hpr as [Hpr|Hpr].
      + assert (Hi : incl (ord _ mm) mm)
          by (intros e He; eapply Permutation_in; [apply Hord | exact He]).
        pose proof (try_each_len _ _ _ _ _ E1 Hi pr Hpr) as Hl.
        specialize (Hm (bss, mm) (or_introl eq_refl)). cbn [snd] in Hm. lia.
      + eapply IH; eauto. intros pr' Hpr'. apply Hm; right; exact Hpr'.
  Qed.

  Lemma arr_loop_len : forall cs fe fxs pairs fxs' pairs' c M,
    arr_loop ord rec fe cs fxs pairs = Ok (Some (fxs', pairs')) ->
    (forall pr, In pr pairs -> List.length (snd pr) + List.length fxs + c <= M) ->
    forall pr, In pr pairs' -> List.length (snd pr) + List.length fxs' + c + List.length cs <= M.
  Proof.
    induction cs as [|x cs IH]; intros fe fxs pairs fxs' pairs' c M H Hm pr Hpr; cbn [arr_loop] in H.
    - inversion H; subst. cbn [List.length]. specialize (Hm pr Hpr). lia.
    - cbn [List.length]. destruct (is_scalar x).
      + destruct (jmem x fxs) eqn:Em; [|discriminate].
        pose proof (jremove_len x fxs Em) as Hj.
        pose proof (IH fe (jremove x fxs) pairs fxs' pairs' (S c) M H) as IH'.
        assert (Hm' : forall pr0, In pr0 pairs -> List.length (snd pr0) + List.length (jremove x fxs) + S c <= M)
          by (intros pr0 Hpr0; specialize (Hm pr0 Hpr0); lia).
        specialize (IH' Hm' pr Hpr). lia.
      + destruct fe; [discriminate|].
        destruct (arraycat ord rec pairs x) as [[|np0 np]| |] eqn:E1; try discriminate.
        pose proof (IH false fxs (np0 :: np) fxs' pairs' (S c) M H) as IH'.
        assert (Hm' : forall pr0, In pr0 (np0 :: np) -> List.length (snd pr0) + List.length fxs + S c <= M).
        { intros pr0 Hpr0.
          assert (Hb : forall pr1, In pr1 pairs -> List.length (snd pr1) <= M - List.length fxs - c)
            by (intros pr1 Hpr1; specialize (Hm pr1 Hpr1); lia).
          pose proof (arraycat_len pairs x (np0 :: np) _ E1 Hb pr0 Hpr0) as Hl.
          destruct pairs as [|pr1 pairs]; [cbn [arraycat] in E1; discriminate|].
          specialize (Hm pr1 (or_introl eq_refl)). lia. }
        specialize (IH' Hm' pr Hpr). lia.
  Qed.

  Lemma arraycat_no_facts : forall pairs x,
    (forall pr, In pr pairs -> snd pr = []) -> arraycat ord rec pairs x = Ok [].
  Proof.
    induction pairs as [|[bss mm] pairs IH]; intros x H; cbn [arraycat]; [reflexivity|].
    pose proof (H (bss, mm) (or_introl eq_refl)) as Hmm. cbn [snd] in Hmm. subst mm.
    assert (Ho : ord _ (@nil (nat * json)) = []) by (apply Permutation_nil; apply Permutation_sym; apply Hord).
    rewrite Ho. cbn [try_each]. rewrite IH; [reflexivity|].
    intros pr Hpr; apply H; right; exact Hpr.
  Qed.
End Lengths.

(** * The general embedding *)
Lemma embeds_with_obj_eq : forall unas vemb kvs fkvs,
  embeds_with unas vemb (JObj kvs) (JObj fkvs) =
  match kvs with
  | [(k, q)] =>
      if is_var k then
        existsb (fun fkv : string * json =>
                   var_at vemb k (JStr (fst fkv)) && embeds_with unas vemb q (snd fkv)) fkvs
      else
        match assoc k fkvs with
        | Some y => embeds_with unas vemb q y
        | None => absent_here unas q
        end
  | _ =>
      forallb (fun kv : string * json =>
                 negb (is_var (fst kv)) &&
                 match assoc (fst kv) fkvs with
                 | Some y => embeds_with unas vemb (snd kv) y
                 | None => absent_here unas (snd kv)
                 end) kvs
  end.
Proof. intros unas vemb kvs fkvs. destruct kvs as [|[k q] [|kv2 r]]; reflexivity. Qed.

Lemma scalar_embeds_with : forall unas vemb c y,
  is_scalar c = true -> is_var_json c = false -> embeds_with unas vemb c y = true -> y = c.
Proof.
  intros unas vemb c y Hs Hv H. destruct c as [| b | z | s | |]; try discriminate; cbn [embeds_with] in H.
  - destruct y; congruence.
  - destruct y; try discriminate. apply Bool.eqb_prop in H. congruence.
  - destruct y; try discriminate. apply Z.eqb_eq in H. congruence.
  - cbn [is_var_json] in Hv. rewrite Hv in H. destruct y; try discriminate.
    apply String.eqb_eq in H. congruence.
Qed.

Lemma struct_embeds_with : forall unas vemb c y,
  is_scalar c = false -> embeds_with unas vemb c y = true -> is_scalar y = false.
Proof.
  intros unas vemb c y Hs H. destruct c; try discriminate; cbn [embeds_with] in H;
    destruct y; try discriminate; reflexivity.
Qed.

Lemma absent_here_inv : forall unas x, absent_here unas x = true ->
  exists s, x = JStr s /\ is_optional s = true /\ unas s = true.
Proof.
  intros unas x H. destruct x as [| | | s | |]; try discriminate. cbn [absent_here] in H.
  apply andb_true_iff in H. exists s; tauto.
Qed.

Lemma absent_here_nonvar : forall unas c, is_var_json c = false -> absent_here unas c = false.
Proof.
  intros unas c H. destruct (absent_here unas c) eqn:E; [|reflexivity].
  destruct (absent_here_inv _ _ E) as [s [-> [Ho _]]]. cbn [is_var_json] in H.
  rewrite (optional_is_var s Ho) in H. discriminate.
Qed.

Lemma filter_present_nonvars : forall unas cs,
  Forall (fun c => is_var_json c = false) cs ->
  filter (fun x => negb (absent_here unas x)) cs = cs.
Proof.
  intros unas cs H; induction H as [|c cs Hc Hcs IH]; [reflexivity|].
  cbn [filter]. rewrite (absent_here_nonvar unas c Hc). cbn [negb]. rewrite IH. reflexivity.
Qed.

Section WitnessG.
  Variable ord : order_oracle.
  Hypothesis Hord : perm_oracle ord.
  Variable sg : bindings.
  Hypothesis Hsg_sorted : sorted_keys sg = true.
  Hypothesis Hsg_vf : var_free_bs sg = true.
  Hypothesis Hsg_anon : lookup anon_var sg = None.

  Notation E := (embeds_with (unassigned sg) (ineq_at sg sg)).
  Notation U := (absent_here (unassigned sg)).

  (** names met again have scalar values; inequality variables are bound *)
  Definition vok (L vs : list string) : Prop :=
    scal_ok sg L (flat_map bv vs) /\
    (forall s, In s vs -> no_ineq_var s = false -> In s L).

  Lemma vok_app_l : forall L a b, vok L (a ++ b) -> vok L a.
  Proof.
    intros L a b [H1 H2]. split.
    - rewrite flat_map_app in H1. eapply scal_ok_app_l; exact H1.
    - intros s Hs. apply H2. apply in_or_app; left; exact Hs.
  Qed.

  Lemma vok_app_r : forall L a b, vok L (a ++ b) -> vok (flat_map bv a ++ L) b.
  Proof.
    intros L a b [H1 H2]. split.
    - rewrite flat_map_app in H1. apply scal_ok_app_r; exact H1.
    - intros s Hs Hn. apply in_or_app; right. apply H2; [apply in_or_app; right; exact Hs | exact Hn].
  Qed.

  Lemma vok_perm : forall L a b, Permutation a b -> vok L a -> vok L b.
  Proof.
    intros L a b Hp [H1 H2]. split.
    - eapply scal_ok_perm; [|exact H1]. apply Permutation_flat_map. exact Hp.
    - intros s Hs. apply H2. eapply Permutation_in; [apply Permutation_sym; exact Hp | exact Hs].
  Qed.

  Ltac solve_eqv :=
    let s := fresh "s" in
    intros s; cbn [app In]; repeat rewrite in_app_iff; cbn [In]; tauto.

  Lemma restr_absent_front : forall s A sg', lookup s sg' = None ->
    restr ([s] ++ A) sg' = restr A sg'.
  Proof. intros s A sg' H. cbn [app]. apply restr_cons_absent; exact H. Qed.

  Section WithRec.
    Variable rec : rec_t.
    Definition rec_wit_g : Prop :=
      forall p f L r, rec p f (restr L sg) = Ok r ->
                      fc f -> E p f = true -> vok L (pvars p) ->
                      In (restr (bvars p ++ L) sg) r.
    Hypothesis Hrec : rec_wit_g.

    Lemma mwb_wit_g : forall bss p f r L, mwb rec bss p f = Ok r -> In (restr L sg) bss ->
      fc f -> E p f = true -> vok L (pvars p) ->
      In (restr (bvars p ++ L) sg) r.
    Proof.
      intros bss p f r L H Hin Hf He Hs.
      destruct (mwb_in rec bss p f r _ H Hin) as [a [Ha Hi]]. apply Hi. eapply Hrec; eauto.
    Qed.

    (** an entry of the pattern object: its key is there and the value
        embeds, or the value is an unassigned optional variable and the key
        is missing *)
    Definition entry_ok (fkvs : list (string * json)) (k : string) (v : json) : Prop :=
      is_var k = false /\
      match assoc k fkvs with
      | Some y => fc y /\ E v y = true
      | None => U v = true
      end.

    Lemma mapcat_wit_g : forall kvs bss fkvs r L,
      mapcat rec bss kvs fkvs = Ok r -> In (restr L sg) bss ->
      (forall k v, In (k, v) kvs -> entry_ok fkvs k v) ->
      vok L (pvars (JObj kvs)) ->
      In (restr (bvars (JObj kvs) ++ L) sg) r.
    Proof.
      induction kvs as [|[k v] kvs IH]; intros bss fkvs r L H Hin Hkv Hs.
      - cbn [mapcat] in H. inversion H; subst. exact Hin.
      - cbn [mapcat] in H.
        destruct (Hkv k v (or_introl eq_refl)) as [Hk Hy].
        rewrite pvars_obj_cons, Hk in Hs. rewrite bvars_obj_cons, Hk. cbn [app flat_map] in Hs |- *.
        assert (Hkv' : forall k' v', In (k', v') kvs -> entry_ok fkvs k' v')
          by (intros k' v' Hin'; apply Hkv; right; exact Hin').
        destruct (assoc k fkvs) as [y|] eqn:Ea.
        + destruct Hy as [Hfy Hey].
          destruct (mwb rec bss v y) as [acc| |] eqn:E1; try discriminate.
          pose proof (mwb_wit_g bss v y acc L E1 Hin Hfy Hey (vok_app_l _ _ _ Hs)) as Hw.
          destruct acc as [|a acc]; [contradiction|].
          specialize (IH (a :: acc) fkvs r (bvars v ++ L) H Hw Hkv' (vok_app_r _ _ _ Hs)).
          rewrite (restr_ext ((bvars v ++ bvars (JObj kvs)) ++ L) (bvars (JObj kvs) ++ bvars v ++ L));
            [exact IH | solve_eqv].
        + destruct (absent_here_inv _ _ Hy) as [s [-> [Ho Hu]]].
          cbn [is_optional_json] in H. rewrite Ho in H.
          assert (Hbs : bvars (JStr s) = [s])
            by (rewrite (bvars_var s (optional_is_var s Ho)); apply bv_optional; exact Ho).
          unfold unassigned in Hu. destruct (lookup s sg) eqn:El; [discriminate|].
          specialize (IH bss fkvs r (bvars (JStr s) ++ L) H).
          rewrite Hbs in IH |- *. rewrite (restr_absent_front s L sg El) in IH.
          rewrite (restr_ext (([s] ++ bvars (JObj kvs)) ++ L) (bvars (JObj kvs) ++ [s] ++ L)); [|solve_eqv].
          apply IH; [exact Hin | exact Hkv'|].
          rewrite <- Hbs. apply (vok_app_r L (pvars (JStr s)) (pvars (JObj kvs))). exact Hs.
    Qed.

    Lemma propvar_loop_wit_g : forall fkvs bss k v r L fk fv,
      propvar_loop rec bss k v fkvs = Ok r -> In (restr L sg) bss ->
      is_var k = true ->
      In (fk, fv) fkvs -> E (JStr k) (JStr fk) = true -> E v fv = true -> fc fv ->
      vok L (k :: pvars v) ->
      In (restr (bv k ++ bvars v ++ L) sg) r.
    Proof.
      induction fkvs as [|[fk0 fv0] fkvs IH]; intros bss k v r L fk fv H Hin Hk Hfin Hek Hev Hfc Hs;
        [contradiction|].
      cbn [propvar_loop] in H.
      destruct (mwb rec bss (JStr k) (JStr fk0)) as [ext| |] eqn:E1; try discriminate.
      destruct Hfin as [Heq|Hfin].
      - inversion Heq; subst fk0 fv0.
        assert (Hpk' : pvars (JStr k) = [k]) by (cbn [pvars]; rewrite Hk; reflexivity).
        pose proof (bvars_var k Hk) as Hbk.
        assert (Hw : In (restr (bvars (JStr k) ++ L) sg) ext).
        { eapply mwb_wit_g; eauto.
          - reflexivity.
          - rewrite Hpk'. apply (vok_app_l L [k] (pvars v)). exact Hs. }
        destruct ext as [|a ext]; [contradiction|].
        destruct (mwb rec (a :: ext) v fv) as [ext2| |] eqn:E2; try discriminate.
        assert (Hw2 : In (restr (bvars v ++ bvars (JStr k) ++ L) sg) ext2).
        { eapply mwb_wit_g; eauto. rewrite Hbk.
          replace (bv k) with (flat_map bv [k]) by (cbn [flat_map]; apply app_nil_r).
          apply (vok_app_r L [k] (pvars v)). exact Hs. }
        destruct (propvar_loop rec bss k v fkvs) as [g| |]; try discriminate.
        inversion H; subst. apply in_or_app; left. rewrite Hbk in Hw2.
        rewrite (restr_ext (bv k ++ bvars v ++ L) (bvars v ++ bv k ++ L)); [exact Hw2 | solve_eqv].
      - destruct ext as [|a ext].
        + eapply IH; eauto.
        + destruct (mwb rec (a :: ext) v fv0) as [ext2| |]; try discriminate.
          destruct (propvar_loop rec bss k v fkvs) as [g| |] eqn:E3; try discriminate.
          inversion H; subst. apply in_or_app; right. eapply IH; eauto.
    Qed.

    Lemma match_obj_wit_g : forall kvs fkvs r L,
      match_obj ord rec (restr L sg) kvs fkvs = Ok r ->
      fc (JObj fkvs) ->
      E (JObj kvs) (JObj fkvs) = true -> vok L (pvars (JObj kvs)) ->
      In (restr (bvars (JObj kvs) ++ L) sg) r.
    Proof.
      intros kvs fkvs r L H Hf He Hs.
      rewrite embeds_with_obj_eq in He.
      assert (Hone : In (restr L sg) [restr L sg]) by (left; reflexivity).
      assert (Hgen : forall kvs',
                 (forall kv, In kv kvs' -> In kv kvs) ->
                 forallb (fun kv : string * json =>
                            negb (is_var (fst kv)) &&
                            match assoc (fst kv) fkvs with
                            | Some y => E (snd kv) y
                            | None => U (snd kv)
                            end) kvs = true ->
                 forall k v, In (k, v) kvs' -> entry_ok fkvs k v).
      { intros kvs' Hsub Hall k v Hin. rewrite forallb_forall in Hall.
        specialize (Hall (k, v) (Hsub _ Hin)). cbn [fst snd] in Hall.
        apply andb_true_iff in Hall. destruct Hall as [Hk Hy]. apply negb_true_iff in Hk.
        split; [exact Hk|].
        destruct (assoc k fkvs) as [y|] eqn:Ea; [|exact Hy].
        split; [|exact Hy].
        eapply fc_obj_in; [exact Hf | apply assoc_In; exact Ea]. }
      unfold match_obj in H. destruct kvs as [|[k v] [|kv2 kvs]].
      - inversion H; subst. exact Hone.
      - destruct (is_var k) eqn:Ek.
        + rewrite allow_property_variables_true in H. unfold propvar in H.
          apply existsb_exists in He. destruct He as [[fk fv] [Hfin Hfe]]. cbn [fst snd] in Hfe.
          apply andb_true_iff in Hfe. destruct Hfe as [Hek Hev].
          rewrite pvars_obj_cons, Ek in Hs. rewrite bvars_obj_cons, Ek.
          cbn [pvars flat_map] in Hs. rewrite app_nil_r in Hs. cbn [app] in Hs.
          change (bvars (JObj [])) with (@nil string).
          rewrite (restr_ext (((flat_map bv [k] ++ bvars v) ++ []) ++ L) (bv k ++ bvars v ++ L));
            [|cbn [flat_map]; solve_eqv].
          eapply propvar_loop_wit_g; eauto.
          * eapply Permutation_in; [apply Permutation_sym, Hord | exact Hfin].
          * cbn [embeds_with]. rewrite Ek. exact Hek.
          * eapply fc_obj_in; eauto.
        + eapply mapcat_wit_g; eauto. apply (Hgen [(k, v)]); [auto|].
          cbn [forallb fst snd]. rewrite Ek, andb_true_r. cbn [negb]. rewrite Bool.andb_true_l. exact He.
      - destruct (has_var_key ((k, v) :: kv2 :: kvs)) eqn:Eh;
          [rewrite andb_true_r in H; destruct check_bad_property_variables; discriminate|].
        rewrite andb_false_r in H.
        pose proof (sort_kvs_perm ((k, v) :: kv2 :: kvs)) as Hperm.
        assert (Hpp : Permutation (pvars (JObj (sort_kvs ((k, v) :: kv2 :: kvs))))
                                  (pvars (JObj ((k, v) :: kv2 :: kvs)))).
        { cbn [pvars]. apply Permutation_flat_map. exact Hperm. }
        assert (Hbp : Permutation (bvars (JObj (sort_kvs ((k, v) :: kv2 :: kvs))))
                                  (bvars (JObj ((k, v) :: kv2 :: kvs))))
          by (unfold bvars; apply Permutation_flat_map; exact Hpp).
        rewrite (restr_ext (bvars (JObj ((k, v) :: kv2 :: kvs)) ++ L)
                           (bvars (JObj (sort_kvs ((k, v) :: kv2 :: kvs))) ++ L)).
        * eapply mapcat_wit_g; eauto.
          -- apply Hgen; [|exact He]. intros kv Hin. eapply Permutation_in; [exact Hperm | exact Hin].
          -- eapply vok_perm; [apply Permutation_sym; exact Hpp | exact Hs].
        * intros s. rewrite !in_app_iff. split; intros [Hi|Hi]; auto; left.
          -- eapply Permutation_in; [apply Permutation_sym; exact Hbp | exact Hi].
          -- eapply Permutation_in; [exact Hbp | exact Hi].
    Qed.

    (** ** arrays *)
    Lemma arr_loop_wit_g : forall cs wcs keep fe fxs pairs L res,
      arr_loop ord rec fe cs fxs pairs = Ok res ->
      Forall2 (fun c w => E c (snd w) = true) cs wcs ->
      Forall (fun c => is_var_json c = false) cs ->
      Forall (fun w => fc (snd w)) wcs ->
      NoDup (map fst (wcs ++ keep)) ->
      (forall w w', In w (wcs ++ keep) -> In w' (wcs ++ keep) ->
                    is_scalar (snd w) = true -> snd w = snd w' -> fst w = fst w') ->
      (forall w, In w wcs -> is_scalar (snd w) = true -> In (snd w) fxs) ->
      (fe = true -> forall w, In w wcs -> is_scalar (snd w) = true) ->
      has_wit sg pairs L (wcs ++ keep) ->
      vok L (pvars (JArr cs)) ->
      exists fxs' pairs', res = Some (fxs', pairs') /\
        has_wit sg pairs' (bvars (JArr cs) ++ L) keep /\
        (forall y, In y fxs -> (forall w, In w wcs -> snd w <> y) -> In y fxs').
    Proof.
      induction cs as [|c cs IH]; intros wcs keep fe fxs pairs L res H HF Hnv Hfc Hnd Hdist Hfxs Hfe Hw Hs.
      - inversion HF; subst. cbn [arr_loop] in H. inversion H; subst.
        exists fxs, pairs. split; [reflexivity|]. split; [exact Hw | auto].
      - inversion HF as [|c0 w cs0 wcs' Hcw HF']; subst.
        inversion Hnv as [|c0 cs0 Hcv Hnv']; subst.
        inversion Hfc as [|w0 ws0 Hwf Hfc']; subst.
        cbn [app map] in Hnd. inversion Hnd as [|j0 js0 Hjn Hnd']; subst.
        rewrite pvars_arr_cons in Hs. rewrite bvars_arr_cons.
        cbn [arr_loop] in H. destruct (is_scalar c) eqn:Ec.
        + (* a scalar constant *)
          pose proof (scalar_embeds_with _ _ c (snd w) Ec Hcv Hcw) as Hy.
          assert (Hm : jmem c fxs = true).
          { apply jmem_In. rewrite <- Hy. apply Hfxs; [left; reflexivity | rewrite Hy; exact Ec]. }
          rewrite Hm in H.
          rewrite (pvars_scalar_nonvar c Ec Hcv) in Hs. rewrite (bvars_scalar_nonvar c Ec Hcv).
          cbn [app] in Hs |- *.
          assert (Hne : forall w', In w' wcs' -> snd w' <> c).
          { intros w' Hin' Heq. apply Hjn.
            assert (Hf : fst w = fst w').
            { apply Hdist; [left; reflexivity | right; apply in_or_app; left; exact Hin' | rewrite Hy; exact Ec | congruence]. }
            rewrite Hf. apply in_map. apply in_or_app; left; exact Hin'. }
          destruct (IH wcs' keep fe (jremove c fxs) pairs L res H HF' Hnv' Hfc' Hnd') as [fxs' [pairs' [Hres [Hw' Hk']]]].
          * intros w1 w2 H1 H2. apply Hdist; right; assumption.
          * intros w' Hin' Hsc. apply In_jremove. split; [apply Hfxs; [right; exact Hin' | exact Hsc] | apply Hne; exact Hin'].
          * intros Hfe' w' Hin'. apply Hfe; [exact Hfe' | right; exact Hin'].
          * destruct Hw as [bss [mm [Hp1 [Hp2 Hp3]]]]. exists bss, mm. split; [exact Hp1|]. split; [exact Hp2|].
            intros w' Hin'. apply Hp3. right; exact Hin'.
          * exact Hs.
          * exists fxs', pairs'. split; [exact Hres|]. split; [exact Hw'|].
            intros y Hy1 Hy2. apply Hk'.
            -- apply In_jremove. split; [exact Hy1|]. rewrite <- Hy. intros Eq. apply (Hy2 w (or_introl eq_refl)). congruence.
            -- intros w' Hin'. apply Hy2. right; exact Hin'.
        + (* a structured element *)
          pose proof (struct_embeds_with _ _ c (snd w) Ec Hcw) as Hys.
          destruct fe.
          { specialize (Hfe eq_refl w (or_introl eq_refl)). congruence. }
          destruct (arraycat ord rec pairs c) as [np| |] eqn:E1; try discriminate.
          destruct Hw as [bss [mm [Hp1 [Hp2 Hp3]]]].
          destruct w as [j fact]. cbn [fst snd] in *.
          assert (Hjm : In (j, fact) mm) by (apply Hp3; [left; reflexivity | exact Hys]).
          destruct (arraycat_in ord Hord rec pairs c np bss mm j fact _ E1 Hp1 Hjm Hp2) as [a [Ha Hx]].
          pose proof (Hrec c fact L a Ha Hwf Hcw (vok_app_l _ _ _ Hs)) as Hwa.
          destruct (Hx _ Hwa) as [acc [Hacc1 Hacc2]].
          destruct np as [|np0 np]; [contradiction|].
          destruct (IH wcs' keep false fxs (np0 :: np) (bvars c ++ L) res H HF' Hnv' Hfc' Hnd') as [fxs' [pairs' [Hres [Hw' Hk']]]].
          * intros w1 w2 H1 H2. apply Hdist; right; assumption.
          * intros w' Hin' Hsc. apply Hfxs; [right; exact Hin' | exact Hsc].
          * discriminate.
          * exists acc, (remove_idx j mm). split; [exact Hacc1|]. split; [exact Hacc2|].
            intros w' Hin' Hsc. apply In_remove_idx; [apply Hp3; [right; exact Hin' | exact Hsc]|].
            intros Eq. apply Hjn. rewrite <- Eq. apply in_map. exact Hin'.
          * apply vok_app_r. exact Hs.
          * exists fxs', pairs'. split; [exact Hres|]. split.
            -- destruct Hw' as [bss' [mm' [Hq1 [Hq2 Hq3]]]]. exists bss', mm'. split; [exact Hq1|]. split; [|exact Hq3].
               rewrite (restr_ext ((bvars c ++ bvars (JArr cs)) ++ L) (bvars (JArr cs) ++ bvars c ++ L));
                 [exact Hq2 | solve_eqv].
            -- intros y Hy1 Hy2. apply Hk'; [exact Hy1|]. intros w' Hin'. apply Hy2. right; exact Hin'.
    Qed.

    Lemma match_arr_wit_g : forall xs f r L,
      match_arr ord rec (restr L sg) xs f = Ok r ->
      fc f -> E (JArr xs) f = true -> vok L (pvars (JArr xs)) ->
      In (restr (bvars (JArr xs) ++ L) sg) r.
    Proof.
      intros xs f r L H Hf He Hs.
      cbn [embeds_with] in He. destruct f as [| | | | fa0 |]; try discriminate.
      apply andb_true_iff in He. destruct He as [He Hfull].
      unfold match_arr in H.
      destruct (get_var xs None) as [[v cs]|] eqn:Eg; [|discriminate].
      pose proof (get_var_perm _ _ _ _ Eg) as Hperm. cbn beta iota in Hperm.
      destruct (get_var_incl _ _ _ _ Eg) as [Hincl [Hv Hnv]].
      (* the witness positions of the elements other than an absent variable *)
      pose proof (fc_arr_nodup _ Hf) as Hnds.
      rewrite <- (number_from_snd fa0 0) in He.
      destruct (inj_assign_idx_skip _ E U xs (number_from 0 fa0) (number_from_NoDup fa0 0) He)
        as [ws [HF [Hnd Hinc]]].
      assert (Hpf : Permutation (filter (fun x => negb (U x)) xs)
                                (cs ++ filter (fun x => negb (U x)) (vlist v))).
      { eapply perm_trans; [apply Permutation_filter_g; exact Hperm|].
        rewrite filter_app, (filter_present_nonvars _ cs Hnv). apply Permutation_refl. }
      pose proof (Permutation_length Hpf) as Hlen.
      destruct (Permutation_Forall2 Hpf HF) as [ws' [Hpw HF']].
      apply Forall2_app_inv_l in HF'. destruct HF' as [wcs [wv [HFc [HFv ->]]]].
      assert (Hnd' : NoDup (map fst (wcs ++ wv)))
        by (eapply Permutation_NoDup; [apply Permutation_map; exact Hpw | exact Hnd]).
      assert (Hinc' : forall w, In w (wcs ++ wv) -> In w (number_from 0 fa0))
        by (intros w Hw; apply Hinc; eapply Permutation_in; [apply Permutation_sym; exact Hpw | exact Hw]).
      assert (Hinfa : forall j y, In (j, y) (wcs ++ wv) -> In y fa0)
        by (intros j y Hw; eapply number_from_In_snd; apply Hinc'; exact Hw).
      assert (Hps : Permutation (pvars (JArr xs)) (pvars (JArr cs) ++ pvars (JArr (vlist v)))).
      { cbn [pvars]. rewrite <- flat_map_app. apply Permutation_flat_map. exact Hperm. }
      assert (Hbps : Permutation (bvars (JArr xs)) (bvars (JArr cs) ++ bvars (JArr (vlist v)))).
      { unfold bvars. rewrite <- flat_map_app. apply Permutation_flat_map. exact Hps. }
      pose proof (vok_perm _ _ _ Hps Hs) as Hs'.
      assert (Heqv : eqv (bvars (JArr xs) ++ L) (bvars (JArr (vlist v)) ++ bvars (JArr cs) ++ L)).
      { intros s. rewrite !in_app_iff. split.
        - intros [Hi|Hi]; [|tauto]. apply (Permutation_in _ Hbps) in Hi. apply in_app_or in Hi. tauto.
        - intros [Hi|[Hi|Hi]]; [left | left | tauto].
          + apply (Permutation_in _ (Permutation_sym Hbps)). apply in_or_app; tauto.
          + apply (Permutation_in _ (Permutation_sym Hbps)). apply in_or_app; tauto. }
      rewrite (restr_ext _ _ sg Heqv).
      destruct (index_facts 0 fa0) as [fxs fxa] eqn:Ei.
      destruct (arr_loop ord rec (match fxa with [] => true | _ => false end) cs fxs [([restr L sg], fxa)])
        as [res| |] eqn:El; try discriminate.
      destruct (arr_loop_wit_g cs wcs wv _ fxs _ L res El HFc) as [fxs' [pairs' [-> [Hw' Hk']]]].
      - exact Hnv.
      - apply Forall_forall. intros [j y] Hw. cbn [snd]. eapply fc_arr_in; [exact Hf|].
        eapply Hinfa. apply in_or_app; left; exact Hw.
      - exact Hnd'.
      - intros [j y] [j' y'] H1 H2 Hsc Heq. cbn [fst snd] in *. subst y'.
        eapply nodup_scalars_inj; eauto.
      - intros [j y] Hw Hsc. cbn [snd] in *. eapply index_facts_fxs; eauto.
        eapply Hinfa. apply in_or_app; left; exact Hw.
      - intros Hfe w Hw. destruct (is_scalar (snd w)) eqn:Esc; [reflexivity|].
        assert (Hin : In w fxa)
          by (eapply index_facts_fxa; eauto; apply Hinc'; apply in_or_app; left; exact Hw).
        destruct fxa; [contradiction | discriminate].
      - exists [restr L sg], fxa. split; [left; reflexivity|]. split; [left; reflexivity|].
        intros w Hw Hsc. eapply index_facts_fxa; eauto.
      - eapply vok_app_l; exact Hs'.
      - cbn beta iota in H.
        pose proof (arr_loop_len ord Hord rec cs _ fxs _ fxs' pairs' 0 (List.length fa0) El) as Hlens.
        destruct Hw' as [bss [mm [Hq1 [Hq2 Hq3]]]].
        set (merged := map (fun pr : pair_t => (fst pr, snd pr ++ number_from (List.length fa0) fxs')) pairs') in H.
        assert (Hmer : In (bss, mm ++ number_from (List.length fa0) fxs') merged).
        { apply in_map_iff. exists (bss, mm). split; [reflexivity | exact Hq1]. }
        destruct v as [s|].
        + destruct (Hv s eq_refl) as [Habs|[Hsin Hsvar]]; [discriminate|].
          assert (Hpv : pvars (JArr [JStr s]) = pvars (JStr s)) by (cbn [pvars flat_map]; apply app_nil_r).
          assert (Hbv : bvars (JArr [JStr s]) = bvars (JStr s)) by (unfold bvars; rewrite Hpv; reflexivity).
          cbn [vlist] in *. rewrite Hbv. rewrite Hpv in Hs'.
          cbn [filter] in HFv, Hlen.
          destruct (U (JStr s)) eqn:EU; cbn [negb] in HFv, Hlen.
          * (* the array variable is optional and unassigned: nothing is left over *)
            inversion HFv; subst wv. rewrite app_nil_r in Hlen.
            cbn [absent_here] in EU. apply andb_true_iff in EU. destruct EU as [Ho Hu].
            unfold unassigned in Hu. destruct (lookup s sg) eqn:Els; [discriminate|].
            assert (Hex : existsb U xs = true).
            { apply existsb_exists. exists (JStr s). split; [exact Hsin|]. cbn [absent_here].
              unfold unassigned. rewrite Ho, Els. reflexivity. }
            rewrite Hex in Hfull. cbn [negb orb] in Hfull. apply Nat.eqb_eq in Hfull.
            assert (Hinit : forall pr, In pr [([restr L sg], fxa)] ->
                       List.length (snd pr) + List.length fxs + 0 <= List.length fa0).
            { intros pr [<-|[]]. cbn [snd]. pose proof (index_facts_len fa0 0 fxs fxa Ei). lia. }
            specialize (Hlens Hinit).
            assert (Hfxs' : fxs' = []).
            { specialize (Hlens _ Hq1). destruct fxs' as [|y0 fxs']; [reflexivity|].
              cbn [List.length] in Hlens. lia. }
            assert (Hall : forall pr, In pr merged -> snd pr = []).
            { intros pr Hpr. apply in_map_iff in Hpr. destruct Hpr as [pr0 [<- Hpr0]]. cbn [snd].
              specialize (Hlens _ Hpr0). subst fxs'. cbn [number_from]. rewrite app_nil_r.
              destruct (snd pr0) as [|e0 t0]; [reflexivity|]. cbn [List.length] in Hlens. lia. }
            rewrite (arraycat_no_facts ord Hord rec merged (JStr s) Hall) in H. rewrite Ho in H.
            inversion H; subst r.
            rewrite (bvars_var s Hsvar), (bv_optional s Ho).
            rewrite (restr_absent_front s _ sg Els).
            eapply In_combine_pairs; eauto.
          * (* the array variable is assigned *)
            inversion HFv as [|s0 wv0 l0 l1 Hev HFnil]; subst. inversion HFnil; subst.
            destruct wv0 as [j y]. cbn [snd] in Hev.
            assert (Hyin : In y fa0) by (eapply Hinfa; apply in_or_app; right; left; reflexivity).
            assert (Hcand : exists j', In (j', y) (mm ++ number_from (List.length fa0) fxs')).
            { destruct (is_scalar y) eqn:Esc.
              - assert (Hy' : In y fxs').
                { apply Hk'; [eapply index_facts_fxs; eauto|].
                  intros [j1 y1] Hw Heq. cbn [snd] in Heq. subst y1.
                  assert (Hjj : j1 = j).
                  { eapply (nodup_scalars_inj fa0 0 j1 j y Hnds Esc); apply Hinc'; apply in_or_app;
                      [left; exact Hw | right; left; reflexivity]. }
                  subst j1. rewrite map_app in Hnd'.
                  eapply (NoDup_app_disjoint _ _ _ j Hnd'); [apply (in_map fst _ _ Hw) | left; reflexivity]. }
                destruct (In_number_from fxs' (List.length fa0) y Hy') as [j' Hj'].
                exists j'. apply in_or_app; right; exact Hj'.
              - exists j. apply in_or_app; left. apply Hq3; [left; reflexivity | exact Esc]. }
            destruct Hcand as [j' Hj'].
            destruct (arraycat ord rec merged (JStr s)) as [np| |] eqn:E2; try discriminate.
            destruct (arraycat_in ord Hord rec merged (JStr s) np bss _ j' y _ E2 Hmer Hj' Hq2) as [a [Ha Hx]].
            assert (Hwa : In (restr (bvars (JStr s) ++ bvars (JArr cs) ++ L) sg) a).
            { apply (Hrec (JStr s) y _ a Ha).
              - eapply fc_arr_in; [exact Hf | exact Hyin].
              - exact Hev.
              - apply vok_app_r. exact Hs'. }
            destruct (Hx _ Hwa) as [acc [Hacc1 Hacc2]].
            destruct np as [|np0 np]; [contradiction|].
            inversion H; subst. eapply In_combine_pairs; eauto.
        + inversion H; subst. cbn [vlist]. change (bvars (JArr [])) with (@nil string). cbn [app].
          eapply In_combine_pairs; eauto.
    Qed.
  End WithRec.
End WitnessG.

(** * The matcher *)
Section MatchWitG.
  Variable ord : order_oracle.
  Hypothesis Hord : perm_oracle ord.
  Variable sg : bindings.
  Hypothesis Hsg_sorted : sorted_keys sg = true.
  Hypothesis Hsg_vf : var_free_bs sg = true.
  Hypothesis Hsg_anon : lookup anon_var sg = None.

  Notation E := (embeds_with (unassigned sg) (ineq_at sg sg)).

  Theorem match_wit_g : forall fuel p f L r,
    match_ ord fuel p f (restr L sg) = Ok r ->
    fc f -> E p f = true -> vok sg L (pvars p) ->
    In (restr (bvars p ++ L) sg) r.
  Proof.
    induction fuel as [|n IH]; intros p f L r H Hf He Hs; [discriminate|].
    assert (Hrec : rec_wit_g sg (match_ ord n)) by (intros p' f' L' r' H'; apply IH; exact H').
    cbn [match_] in H. destruct p as [| b | z | s | xs | kvs].
    - cbn [embeds_with] in He. destruct f; try discriminate. inversion H; subst. left; reflexivity.
    - cbn [embeds_with] in He. destruct f; try discriminate. rewrite He in H. inversion H; subst. left; reflexivity.
    - cbn [embeds_with] in He. destruct f; try discriminate. rewrite He in H. inversion H; subst. left; reflexivity.
    - cbn [embeds_with] in He. destruct (is_var s) eqn:Es.
      + rewrite (bvars_var s Es). unfold var_at in He. destruct (is_anon s) eqn:Ea.
        * inversion H; subst. left. apply is_anon_eq in Ea; subst. rewrite bv_anon.
          cbn [app]. symmetry; apply restr_cons_absent; exact Hsg_anon.
        * unfold ineq_at in He. destruct (ineq_parse s) as [[op vv]|] eqn:Ep.
          -- (* an inequality variable: its bound is among the bindings *)
             destruct (lookup s sg) as [[| | b | | |]|] eqn:El; try discriminate.
             destruct f as [| | a | | |]; try discriminate.
             apply andb_true_iff in He. destruct He as [Hsat Hvv].
             unfold assigned_to in Hvv. destruct (lookup vv sg) as [w|] eqn:Elv; [|discriminate].
             apply json_eqb_eq in Hvv; subst w.
             assert (HsL : In s L).
             { destruct Hs as [_ Hs2]. apply Hs2; [cbn [pvars]; rewrite Es; left; reflexivity|].
               unfold no_ineq_var; rewrite Ep; reflexivity. }
             assert (Hbv : bv s = [s; vv]) by (unfold bv; rewrite Ep; reflexivity).
             rewrite Hbv.
             assert (Hls : lookup s (restr L sg) = Some (JNum b)).
             { rewrite lookup_restr. pose proof HsL as HsL'. apply smem_In in HsL'. rewrite HsL'. exact El. }
             destruct (smem vv L) eqn:Em.
             ++ assert (Hlv : lookup vv (restr L sg) = Some (JNum a)) by (rewrite lookup_restr, Em; exact Elv).
                rewrite (inequal_bound s op vv a b _ Ep Hls Hsat Hlv) in H. inversion H; subst. left.
                apply restr_ext. apply smem_In in Em. intros s'; cbn [app In]; split; [tauto|].
                intros [<-|[<-|Hi]]; assumption.
             ++ assert (Hlv : lookup vv (restr L sg) = None) by (rewrite lookup_restr, Em; reflexivity).
                rewrite (inequal_fresh s op vv a b _ Ep Hls Hsat Hlv) in H. inversion H; subst. left.
                rewrite (bset_restr vv (JNum a) L sg Hsg_sorted Elv); [|apply smem_false; exact Em].
                apply restr_ext. intros s'; cbn [app In]; split; [tauto|].
                intros [<-|[<-|Hi]]; auto.
          -- (* a plain or an optional variable *)
             unfold assigned_to in He.
             destruct (lookup s sg) as [w|] eqn:El; [|discriminate]. apply json_eqb_eq in He; subst f.
             assert (Hni : no_ineq_var s = true) by (unfold no_ineq_var; rewrite Ep; reflexivity).
             rewrite (no_ineq_inequal s w _ Hni) in H. rewrite (bv_no_ineq s Hni). cbn [app].
             rewrite lookup_restr, El in H. destruct (smem s L) eqn:Em.
             ++ apply smem_In in Em.
                assert (Hsc : is_scalar w = true).
                { destruct Hs as [Hs1 _]. apply (Hs1 s w); [|left; exact Em | exact El].
                  cbn [pvars]. rewrite Es. cbn [flat_map]. rewrite (bv_no_ineq s Hni). left; reflexivity. }
                assert (Hwvf : var_free w = true) by (eapply sg_value_var_free; eauto).
                rewrite (bound_match_var_free _ _ _ _ Hwvf) in H.
                apply scalar_self_match in H; [|exact Hsc | exact Hwvf]. subst r.
                left. apply restr_ext. intros s'; cbn [In]; split; [tauto|]. intros [<-|Hi]; assumption.
             ++ inversion H; subst. left. apply bset_restr; [exact Hsg_sorted | exact El | apply smem_false; exact Em].
      + unfold bvars. cbn [pvars]. rewrite Es. cbn [flat_map app].
        destruct f; try discriminate. rewrite He in H. inversion H; subst. left; reflexivity.
    - eapply match_arr_wit_g; eauto.
    - destruct f as [| | | | | fkvs]; try (cbn [embeds_with] in He; discriminate).
      eapply match_obj_wit_g; eauto.
  Qed.
End MatchWitG.
