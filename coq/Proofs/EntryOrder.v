(** Independence from the listed order of object entries (at any depth, in
    the pattern, the message and the bound values) and from the iteration
    order oracle, for inputs whose objects have unique keys. *)
From Sheens Require Import Model.Match Proofs.OrderBase Proofs.SortKvs Proofs.MatchOrder.
From Coq Require Import List Permutation Bool.
Import ListNotations.

(** same value up to permuting the entry lists of objects at any depth *)
Inductive jperm : json -> json -> Prop :=
| jp_null : jperm JNull JNull
| jp_bool : forall b, jperm (JBool b) (JBool b)
| jp_num : forall z, jperm (JNum z) (JNum z)
| jp_str : forall s, jperm (JStr s) (JStr s)
| jp_arr : forall l l', Forall2 jperm l l' -> jperm (JArr l) (JArr l')
| jp_obj : forall kvs m kvs',
    Permutation kvs m ->
    Forall2 (fun kv kv' => fst kv = fst kv' /\ jperm (snd kv) (snd kv')) m kvs' ->
    jperm (JObj kvs) (JObj kvs').

(** bindings with the same keys and [jperm]-related values *)
Definition bs_jperm : bindings -> bindings -> Prop :=
  Forall2 (fun kv kv' => fst kv = fst kv' /\ jperm (snd kv) (snd kv')).

Definition res_equiv_up_to_jperm (a b : res (list bindings)) : Prop :=
  res_rel (PermR bs_jperm) a b.

(** * Relations carrying the well-formedness of the left side *)

Definition jw (j j' : json) : Prop := wf_json j = true /\ jperm j j'.
Definition kvw (kv kv' : string * json) : Prop :=
  fst kv = fst kv' /\ jw (snd kv) (snd kv').
Definition bsw : bindings -> bindings -> Prop := Forall2 kvw.
Definition ixw (e e' : nat * json) : Prop :=
  fst e = fst e' /\ jw (snd e) (snd e').
Definition pairw (p p' : pair_t) : Prop :=
  PermR bsw (fst p) (fst p') /\ Forall2 ixw (snd p) (snd p').
Definition RBw : res (list bindings) -> res (list bindings) -> Prop :=
  res_rel (PermR bsw).
Definition recw (rec1 rec2 : rec_t) : Prop :=
  forall p p' f f' bs bs', jw p p' -> jw f f' -> bsw bs bs' ->
    RBw (rec1 p f bs) (rec2 p' f' bs').

(** * generic list facts *)

Lemma Forall2_and_Forall_l : forall A B (P : A -> Prop) (R : A -> B -> Prop) l l',
  Forall P l -> Forall2 R l l' -> Forall2 (fun a b => P a /\ R a b) l l'.
Proof.
  intros A B P R l l' HP HF. induction HF as [|a b l l' Hab HF IH].
  - constructor.
  - inversion HP; subst. constructor; auto.
Qed.

Lemma Forall2_flip : forall A B (R : A -> B -> Prop) l l',
  Forall2 R l l' -> Forall2 (fun b a => R a b) l' l.
Proof. intros A B R l l' H. induction H; constructor; auto. Qed.

Lemma PermR_perm_r : forall A B (R : A -> B -> Prop) l1 l2 l2',
  PermR R l1 l2 -> Permutation l2 l2' -> PermR R l1 l2'.
Proof.
  intros A B R l1 l2 l2' [m [HP HF]] HP2.
  apply Forall2_flip in HF.
  destruct (Permutation_Forall2 HP2 HF) as [m' [HPm HF']].
  exists m'. split.
  - eapply perm_trans; eassumption.
  - apply Forall2_flip in HF'. exact HF'.
Qed.

Lemma Forall2_impl : forall A B (R S : A -> B -> Prop) l l',
  (forall a b, R a b -> S a b) -> Forall2 R l l' -> Forall2 S l l'.
Proof. intros A B R S l l' H HF. induction HF; constructor; auto. Qed.

Lemma Forall2_map_fst_eq : forall A B C (R : A * B -> A * C -> Prop) l l',
  (forall x y, R x y -> fst x = fst y) ->
  Forall2 R l l' -> map fst l = map fst l'.
Proof.
  intros A B C R l l' HR HF. induction HF as [|a b l l' Hab HF IH]; cbn.
  - reflexivity.
  - rewrite (HR _ _ Hab), IH. reflexivity.
Qed.

Lemma PermR_keys : forall A B C (R : A * B -> A * C -> Prop) l l',
  (forall x y, R x y -> fst x = fst y) ->
  PermR R l l' -> Permutation (map fst l) (map fst l').
Proof.
  intros A B C R l l' HR [m [HP HF]].
  rewrite <- (Forall2_map_fst_eq _ _ _ R m l' HR HF).
  apply Permutation_map. exact HP.
Qed.

Lemma kvw_fst : forall x y, kvw x y -> fst x = fst y.
Proof. intros x y [H _]. exact H. Qed.

Lemma ixw_fst : forall x y, ixw x y -> fst x = fst y.
Proof. intros x y [H _]. exact H. Qed.

(** * inversion of [jw] *)

Lemma jperm_shape : forall j j', jperm j j' ->
  match j, j' with
  | JNull, JNull => True
  | JBool a, JBool b => a = b
  | JNum a, JNum b => a = b
  | JStr a, JStr b => a = b
  | JArr l, JArr l' => Forall2 jperm l l'
  | JObj kvs, JObj kvs' =>
      PermR (fun kv kv' => fst kv = fst kv' /\ jperm (snd kv) (snd kv')) kvs kvs'
  | _, _ => False
  end.
Proof.
  intros j j' H. inversion H; subst; auto.
  exists m. split; assumption.
Qed.

Lemma wf_obj : forall kvs, wf_json (JObj kvs) = true ->
  NoDup (map fst kvs) /\ Forall (fun kv => wf_json (snd kv) = true) kvs.
Proof.
  intros kvs H. cbn [wf_json] in H. apply andb_true_iff in H. destruct H as [H1 H2].
  split.
  - apply nodup_keys_NoDup. exact H1.
  - apply Forall_forall. rewrite forallb_forall in H2. exact H2.
Qed.

Lemma wf_arr : forall l, wf_json (JArr l) = true -> Forall (fun x => wf_json x = true) l.
Proof.
  intros l H. cbn [wf_json] in H. apply Forall_forall. rewrite forallb_forall in H. exact H.
Qed.

Lemma jw_obj : forall kvs kvs', jw (JObj kvs) (JObj kvs') ->
  NoDup (map fst kvs) /\ PermR kvw kvs kvs'.
Proof.
  intros kvs kvs' [Hwf Hj]. apply wf_obj in Hwf. destruct Hwf as [HND HW].
  split; [exact HND|].
  apply jperm_shape in Hj. destruct Hj as [m [HP HF]].
  exists m. split; [exact HP|].
  assert (HWm : Forall (fun kv => wf_json (snd kv) = true) m).
  { eapply Permutation_Forall; eassumption. }
  pose proof (Forall2_and_Forall_l _ _ _ _ _ _ HWm HF) as HF2.
  eapply Forall2_impl; [|exact HF2].
  intros a b [Hwa [Hk Hjab]]. split; [exact Hk | split; assumption].
Qed.

Lemma jw_arr : forall l l', jw (JArr l) (JArr l') -> Forall2 jw l l'.
Proof.
  intros l l' [Hwf Hj]. apply wf_arr in Hwf. apply jperm_shape in Hj.
  pose proof (Forall2_and_Forall_l _ _ _ _ _ _ Hwf Hj) as HF2.
  eapply Forall2_impl; [|exact HF2].
  intros a b [Hwa Hjab]. split; assumption.
Qed.

Definition sc (x : json) : Prop := is_scalar x = true.

Lemma jperm_scalar : forall j j', jperm j j' -> is_scalar j = true -> j' = j.
Proof.
  intros j j' H Hs. apply jperm_shape in H.
  destruct j, j'; cbn in *; try contradiction; try discriminate; congruence.
Qed.

Lemma jperm_is_scalar : forall j j', jperm j j' -> is_scalar j = is_scalar j'.
Proof.
  intros j j' H. apply jperm_shape in H.
  destruct j, j'; cbn in *; try contradiction; reflexivity.
Qed.

Lemma sc_jw : forall x, sc x -> jw x x.
Proof.
  intros x H. destruct x; try discriminate H; split; try reflexivity; constructor.
Qed.

Lemma jw_str : forall s, jw (JStr s) (JStr s).
Proof. intros s. apply sc_jw. reflexivity. Qed.

Lemma jw_num : forall z, jw (JNum z) (JNum z).
Proof. intros z. apply sc_jw. reflexivity. Qed.

(** * assoc, lookup, bset *)

Definition optw (o o' : option json) : Prop :=
  match o, o' with
  | Some v, Some v' => jw v v'
  | None, None => True
  | _, _ => False
  end.

Lemma assoc_in : forall k v l, assoc k l = Some v -> In (k, v) l.
Proof.
  intros k v l. induction l as [|[k' v'] r IH]; cbn [assoc]; intros H.
  - discriminate.
  - destruct (String.eqb k k') eqn:E.
    + apply String.eqb_eq in E. inversion H; subst. left. reflexivity.
    + right. apply IH. exact H.
Qed.

Lemma in_assoc : forall k v l, NoDup (map fst l) -> In (k, v) l -> assoc k l = Some v.
Proof.
  intros k v l. induction l as [|[k' v'] r IH]; cbn [assoc map fst]; intros HND Hin.
  - destruct Hin.
  - inversion HND as [|? ? Hnin HND']; subst.
    destruct Hin as [Heq | Hin].
    + inversion Heq; subst. rewrite String.eqb_refl. reflexivity.
    + destruct (String.eqb k k') eqn:E.
      * apply String.eqb_eq in E. subst. exfalso. apply Hnin.
        apply in_map_iff. exists (k', v). split; [reflexivity | exact Hin].
      * apply IH; assumption.
Qed.

Lemma assoc_none : forall k l, assoc k l = None <-> ~ In k (map fst l).
Proof.
  intros k l. induction l as [|[k' v'] r IH]; cbn [assoc map fst].
  - split; [intros _ H; destruct H | reflexivity].
  - destruct (String.eqb k k') eqn:E.
    + apply String.eqb_eq in E. subst. split; [discriminate|].
      intros H. exfalso. apply H. left. reflexivity.
    + apply String.eqb_neq in E. rewrite IH. split.
      * intros H [H1 | H1]; [congruence | contradiction].
      * intros H H1. apply H. right. exact H1.
Qed.

Lemma assoc_rel : forall k l l',
  NoDup (map fst l) -> PermR kvw l l' -> optw (assoc k l) (assoc k l').
Proof.
  intros k l l' HND HP.
  pose proof (PermR_keys _ _ _ _ _ _ kvw_fst HP) as HK.
  assert (HND' : NoDup (map fst l')) by (eapply Permutation_NoDup; eassumption).
  destruct (assoc k l) as [v|] eqn:E.
  - apply assoc_in in E.
    destruct (PermR_in_l HP E) as [[k' v'] [Hin [Hk Hv]]]. cbn [fst snd] in *. subst k'.
    rewrite (in_assoc _ _ _ HND' Hin). exact Hv.
  - rewrite assoc_none in E.
    assert (E' : ~ In k (map fst l')).
    { intros H. apply E. eapply Permutation_in; [apply Permutation_sym; exact HK | exact H]. }
    apply assoc_none in E'. rewrite E'. exact I.
Qed.

Lemma lookup_rel : forall s bs bs', bsw bs bs' -> optw (lookup s bs) (lookup s bs').
Proof.
  intros s bs bs' H. induction H as [|[k v] [k' v'] r r' [Hk Hv] HF IH]; cbn [lookup].
  - exact I.
  - cbn [fst snd] in *. subst k'. destruct (String.eqb s k); [exact Hv | exact IH].
Qed.

Lemma bset_rel : forall k v v' bs bs',
  jw v v' -> bsw bs bs' -> bsw (bset k v bs) (bset k v' bs').
Proof.
  intros k v v' bs bs' Hv H.
  induction H as [|[k1 v1] [k1' v1'] r r' [Hk Hv1] HF IH]; cbn [bset].
  - constructor; [split; [reflexivity | exact Hv] | constructor].
  - cbn [fst snd] in *. subst k1'.
    destruct (String.compare k k1).
    + constructor; [split; [reflexivity | exact Hv] | exact HF].
    + constructor; [split; [reflexivity | exact Hv]|].
      constructor; [split; [reflexivity | exact Hv1] | exact HF].
    + constructor; [split; [reflexivity | exact Hv1] | exact IH].
Qed.

Lemma PermR_bsw_single : forall bs bs', bsw bs bs' -> PermR bsw [bs] [bs'].
Proof. intros bs bs' H. apply PermR_cons; [exact H | apply PermR_nil]. Qed.

Lemma jw_num_inv : forall z j, jw (JNum z) j -> j = JNum z.
Proof. intros z j [_ H]. apply jperm_scalar in H; [exact H | reflexivity]. Qed.

Definition ineqw (a b : ineq_res) : Prop :=
  match a, b with
  | NotUsing, NotUsing => True
  | Using r, Using r' => PermR bsw r r'
  | _, _ => False
  end.

Lemma inequal_rel : forall f f' bs bs' s,
  jw f f' -> bsw bs bs' -> ineqw (inequal f bs s) (inequal f' bs' s).
Proof.
  intros f f' bs bs' s Hf Hbs. unfold inequal.
  destruct (negb inequalities); [exact I|].
  pose proof (lookup_rel s bs bs' Hbs) as HL.
  destruct (lookup s bs) as [b|], (lookup s bs') as [b'|]; cbn in HL; try contradiction;
    [|exact I].
  destruct HL as [_ HL]. apply jperm_shape in HL.
  destruct b, b'; cbn in HL; try contradiction; try exact I. subst z0.
  destruct Hf as [Hwf Hjf]. apply jperm_shape in Hjf.
  destruct f, f'; cbn in Hjf; try contradiction; try exact I. subst z1.
  destruct (ineq_parse s) as [[op vv]|]; [|exact I].
  destruct (sat op z0 z); [|cbn; apply PermR_nil].
  pose proof (lookup_rel vv bs bs' Hbs) as HL2.
  destruct (lookup vv bs) as [c|], (lookup vv bs') as [c'|]; cbn in HL2; try contradiction.
  - destruct HL2 as [_ HL2]. apply jperm_shape in HL2.
    destruct c, c'; cbn in HL2; try contradiction; try exact I. subst z2.
    destruct (Z.eqb z1 z0); cbn; [apply PermR_bsw_single; exact Hbs | apply PermR_nil].
  - cbn. apply PermR_bsw_single. apply bset_rel; [apply jw_num | exact Hbs].
Qed.

(** * mwb, mapcat *)

Lemma mwb_rel2 : forall rec1 rec2 bss bss' p p' f f',
  recw rec1 rec2 -> jw p p' -> jw f f' -> PermR bsw bss bss' ->
  RBw (mwb rec1 bss p f) (mwb rec2 bss' p' f').
Proof.
  intros rec1 rec2 bss bss' p p' f f' Hrec Hp Hf HP.
  rewrite !mwb_eq. unfold RBw.
  apply rflatmap_rel with (RA := bsw); [exact HP|].
  intros x y Hxy. apply Hrec; assumption.
Qed.

Lemma jw_is_optional : forall v v', jw v v' -> is_optional_json v = is_optional_json v'.
Proof.
  intros v v' [_ H]. apply jperm_shape in H.
  destruct v, v'; cbn in *; try contradiction; try reflexivity. subst. reflexivity.
Qed.

(** case analysis shared by all the "Ok [] => ... | Ok acc => ..." tests *)
Ltac res_cases HM a1 a2 :=
  match type of HM with
  | res_rel _ ?x ?y =>
      destruct x as [a1| |]; destruct y as [a2| |]; cbn in HM;
      try contradiction; try exact I;
      try apply res_rel_fuel_l; try apply res_rel_fuel_r
  end.

Lemma mapcat_rel2 : forall rec1 rec2 kvs kvs' fkvs fkvs' bss bss',
  recw rec1 rec2 -> Forall2 kvw kvs kvs' ->
  NoDup (map fst fkvs) -> PermR kvw fkvs fkvs' -> PermR bsw bss bss' ->
  RBw (mapcat rec1 bss kvs fkvs) (mapcat rec2 bss' kvs' fkvs').
Proof.
  intros rec1 rec2 kvs kvs' fkvs fkvs' bss bss' Hrec HK HND HF. revert bss bss'.
  induction HK as [|[k v] [k' v'] r r' [Hk Hv] HK IH]; intros bss bss' HP; cbn [mapcat].
  - exact HP.
  - cbn [fst snd] in *. subst k'.
    pose proof (assoc_rel k fkvs fkvs' HND HF) as HA.
    destruct (assoc k fkvs) as [fv|], (assoc k fkvs') as [fv'|]; cbn in HA; try contradiction.
    + pose proof (mwb_rel2 rec1 rec2 bss bss' v v' fv fv' Hrec Hv HA HP) as HM.
      unfold RBw in *. res_cases HM a1 a2.
      destruct (PermR_case _ _ _ _ _ HM) as [[-> ->] | [x1 [t1 [x2 [t2 [E1 E2]]]]]].
      * cbn. apply PermR_nil.
      * rewrite E1 at 1. rewrite E2 at 1. apply IH. exact HM.
    + rewrite <- (jw_is_optional v v' Hv). destruct (is_optional_json v).
      * apply IH. exact HP.
      * cbn. apply PermR_nil.
Qed.

(** * property variable *)

Lemma pv_step_rel2 : forall rec1 rec2 bss bss' k v v' kv kv',
  recw rec1 rec2 -> jw v v' -> kvw kv kv' -> PermR bsw bss bss' ->
  RBw (pv_step rec1 bss k v kv) (pv_step rec2 bss' k v' kv').
Proof.
  intros rec1 rec2 bss bss' k v v' [fk fv] [fk' fv'] Hrec Hv [Hk Hfv] HP.
  cbn [fst snd] in *. subst fk'. unfold pv_step. cbn [fst snd].
  pose proof (mwb_rel2 rec1 rec2 bss bss' (JStr k) (JStr k) (JStr fk) (JStr fk)
                       Hrec (jw_str k) (jw_str fk) HP) as HM.
  unfold RBw in *. res_cases HM a1 a2.
  destruct (PermR_case _ _ _ _ _ HM) as [[-> ->] | [x1 [t1 [x2 [t2 [E1 E2]]]]]].
  - cbn. apply PermR_nil.
  - rewrite E1 at 1. rewrite E2 at 1. apply mwb_rel2; assumption.
Qed.

Lemma ord_PermR : forall ord1 ord2 A B (R : A -> B -> Prop) l l',
  perm_oracle ord1 -> perm_oracle ord2 -> PermR R l l' ->
  PermR R (ord1 A l) (ord2 B l').
Proof.
  intros ord1 ord2 A B R l l' Ho1 Ho2 HP.
  apply PermR_perm_l with (l1' := l); [apply Ho1|].
  apply PermR_perm_r with (l2 := l'); [exact HP|].
  apply Permutation_sym. apply Ho2.
Qed.

Lemma propvar_rel2 : forall ord1 ord2 rec1 rec2 bss bss' k v v' fkvs fkvs',
  perm_oracle ord1 -> perm_oracle ord2 -> recw rec1 rec2 ->
  jw v v' -> PermR kvw fkvs fkvs' -> PermR bsw bss bss' ->
  RBw (propvar ord1 rec1 bss k v fkvs) (propvar ord2 rec2 bss' k v' fkvs').
Proof.
  intros ord1 ord2 rec1 rec2 bss bss' k v v' fkvs fkvs' Ho1 Ho2 Hrec Hv HF HP.
  unfold propvar. rewrite !propvar_loop_eq. unfold RBw.
  apply rflatmap_rel with (RA := kvw).
  - apply ord_PermR; assumption.
  - intros x y Hxy. apply pv_step_rel2; assumption.
Qed.

(** * objects *)

Lemma has_var_key_keys : forall kvs, has_var_key kvs = existsb is_var (map fst kvs).
Proof.
  induction kvs as [|kv r IH]; cbn; [reflexivity|]. unfold has_var_key in IH.
  rewrite IH. reflexivity.
Qed.

Lemma match_obj_rel2 : forall ord1 ord2 rec1 rec2 bs bs' kvs kvs' fkvs fkvs',
  perm_oracle ord1 -> perm_oracle ord2 -> recw rec1 rec2 ->
  NoDup (map fst kvs) -> PermR kvw kvs kvs' ->
  NoDup (map fst fkvs) -> PermR kvw fkvs fkvs' -> bsw bs bs' ->
  RBw (match_obj ord1 rec1 bs kvs fkvs) (match_obj ord2 rec2 bs' kvs' fkvs').
Proof.
  intros ord1 ord2 rec1 rec2 bs bs' kvs kvs' fkvs fkvs' Ho1 Ho2 Hrec HNDk HK HNDf HF Hbs.
  pose proof (PermR_length _ _ _ _ _ HK) as HL.
  pose proof (PermR_bsw_single _ _ Hbs) as Hsingle.
  destruct kvs as [|[k v] [|kv2 r]].
  - destruct kvs'; [|discriminate HL]. cbn. exact Hsingle.
  - destruct kvs' as [|[k' v'] [|? ?]]; try discriminate HL.
    destruct HK as [m [HPm HFm]].
    apply Permutation_length_1_inv in HPm. subst m.
    inversion HFm as [|? ? ? ? [Hk Hv] _]; subst. cbn [fst snd] in *. subst k'.
    unfold match_obj. destruct (is_var k).
    + destruct allow_property_variables; [|exact I].
      apply propvar_rel2; assumption.
    + apply mapcat_rel2; assumption.
  - destruct kvs' as [|kv1' [|kv2' r']]; try discriminate HL.
    assert (HV : has_var_key ((k, v) :: kv2 :: r) = has_var_key (kv1' :: kv2' :: r')).
    { rewrite !has_var_key_keys. apply existsb_perm.
      apply (PermR_keys _ _ _ _ _ _ kvw_fst HK). }
    assert (HS : Forall2 kvw (sort_kvs ((k, v) :: kv2 :: r)) (sort_kvs (kv1' :: kv2' :: r'))).
    { destruct HK as [m [HPm HFm]].
      rewrite (sort_kvs_perm _ _ HPm HNDk).
      apply sort_kvs_Forall2; [exact kvw_fst | exact HFm]. }
    unfold match_obj. destruct kv1' as [k1' v1'].
    rewrite <- HV.
    destruct (check_bad_property_variables && has_var_key ((k, v) :: kv2 :: r))%bool;
      [exact I|].
    destruct (has_var_key ((k, v) :: kv2 :: r)); [exact I|].
    apply mapcat_rel2; assumption.
Qed.

(** * arrays *)

Definition gvw (a b : option (option string * list json)) : Prop :=
  match a, b with
  | Some (v, cs), Some (v', cs') => v = v' /\ Forall2 jw cs cs'
  | None, None => True
  | _, _ => False
  end.

Lemma get_var_rel : forall xs xs', Forall2 jw xs xs' ->
  forall v, gvw (get_var xs v) (get_var xs' v).
Proof.
  intros xs xs' H. induction H as [|x x' r r' Hx HF IH]; intros v; cbn [get_var].
  - cbn. split; [reflexivity | constructor].
  - assert (Hgen : gvw (match get_var r v with
                        | Some (v', acc) => Some (v', x :: acc) | None => None end)
                       (match get_var r' v with
                        | Some (v', acc) => Some (v', x' :: acc) | None => None end)).
    { specialize (IH v).
      destruct (get_var r v) as [[a cs]|], (get_var r' v) as [[a' cs']|]; cbn in IH |- *;
        try contradiction; try exact I.
      destruct IH as [-> IH]. split; [reflexivity | constructor; assumption]. }
    pose proof Hx as [_ Hj]. apply jperm_shape in Hj.
    destruct x, x'; cbn in Hj; try contradiction; try exact Hgen.
    subst s0. destruct (is_var s); [|exact Hgen].
    destruct v; [exact I | apply IH].
Qed.

Lemma index_facts_rel : forall fa fa', Forall2 jw fa fa' -> forall i,
  fst (index_facts i fa) = fst (index_facts i fa') /\
  Forall2 ixw (snd (index_facts i fa)) (snd (index_facts i fa')) /\
  Forall sc (fst (index_facts i fa)).
Proof.
  intros fa fa' H. induction H as [|y y' r r' Hy HF IH]; intros i; cbn [index_facts].
  - cbn. repeat split; constructor.
  - specialize (IH (S i)).
    destruct (index_facts (S i) r) as [fxs fxa].
    destruct (index_facts (S i) r') as [fxs' fxa'].
    cbn [fst snd] in IH. destruct IH as [<- [IHa IHs]].
    pose proof Hy as [_ Hj].
    rewrite <- (jperm_is_scalar _ _ Hj).
    destruct (is_scalar y) eqn:Es.
    + rewrite (jperm_scalar _ _ Hj Es). cbn [fst snd].
      repeat split; try assumption.
      destruct (jmem y fxs); [exact IHs | constructor; assumption].
    + cbn [fst snd]. repeat split; try assumption.
      constructor; [split; [reflexivity | exact Hy] | exact IHa].
Qed.

Lemma remove_idx_rel : forall j mm mm',
  Forall2 ixw mm mm' -> Forall2 ixw (remove_idx j mm) (remove_idx j mm').
Proof.
  intros j mm mm' H. unfold remove_idx.
  induction H as [|e e' r r' He HF IH]; cbn [filter].
  - constructor.
  - rewrite <- (ixw_fst _ _ He). destruct (negb (Nat.eqb (fst e) j)).
    + constructor; assumption.
    + exact IH.
Qed.

Lemma te_step_rel2 : forall rec1 rec2 bss bss' x x' mm_all mm_all' e e',
  recw rec1 rec2 -> jw x x' -> PermR bsw bss bss' ->
  Forall2 ixw mm_all mm_all' -> ixw e e' ->
  res_rel (PermR pairw) (te_step rec1 bss x mm_all e) (te_step rec2 bss' x' mm_all' e').
Proof.
  intros rec1 rec2 bss bss' x x' mm_all mm_all' e e' Hrec Hx HP Hmm [Hj Hfact].
  unfold te_step.
  pose proof (mwb_rel2 rec1 rec2 bss bss' x x' (snd e) (snd e') Hrec Hx Hfact HP) as HM.
  unfold RBw in *. res_cases HM a1 a2.
  cbn [res_rel].
  destruct (PermR_case _ _ _ _ _ HM) as [[-> ->] | [x1 [t1 [x2 [t2 [E1 E2]]]]]].
  - apply PermR_nil.
  - rewrite E1 at 1. rewrite E2 at 1.
    apply PermR_cons; [|apply PermR_nil].
    split; cbn [fst snd]; [exact HM|].
    rewrite <- Hj. apply remove_idx_rel. exact Hmm.
Qed.

Lemma arraycat_rel2 : forall ord1 ord2 rec1 rec2 pairs pairs' x x',
  perm_oracle ord1 -> perm_oracle ord2 -> recw rec1 rec2 ->
  jw x x' -> PermR pairw pairs pairs' ->
  res_rel (PermR pairw) (arraycat ord1 rec1 pairs x) (arraycat ord2 rec2 pairs' x').
Proof.
  intros ord1 ord2 rec1 rec2 pairs pairs' x x' Ho1 Ho2 Hrec Hx HP.
  rewrite !arraycat_eq.
  apply rflatmap_rel with (RA := pairw); [exact HP|].
  intros [bss mm] [bss' mm'] [Hb Hm]. cbn [fst snd] in *.
  rewrite !try_each_eq.
  apply rflatmap_rel with (RA := ixw).
  - apply ord_PermR; try assumption. apply PermR_Forall2. exact Hm.
  - intros e e' He. apply te_step_rel2; assumption.
Qed.

Definition optw2 (o1 o2 : option (list json * list pair_t)) : Prop :=
  match o1, o2 with
  | None, None => True
  | Some (f1, p1), Some (f2, p2) => f1 = f2 /\ Forall sc f1 /\ PermR pairw p1 p2
  | _, _ => False
  end.

Lemma jremove_sc : forall x l, Forall sc l -> Forall sc (jremove x l).
Proof.
  intros x l H. induction H as [|y r Hy HF IH]; cbn [jremove].
  - constructor.
  - destruct (json_eqb x y); [exact IH | constructor; assumption].
Qed.

Lemma arr_loop_rel2 : forall ord1 ord2 rec1 rec2 fe xs xs',
  perm_oracle ord1 -> perm_oracle ord2 -> recw rec1 rec2 ->
  Forall2 jw xs xs' ->
  forall fxs pairs pairs', Forall sc fxs -> PermR pairw pairs pairs' ->
  res_rel optw2 (arr_loop ord1 rec1 fe xs fxs pairs) (arr_loop ord2 rec2 fe xs' fxs pairs').
Proof.
  intros ord1 ord2 rec1 rec2 fe xs xs' Ho1 Ho2 Hrec HX.
  induction HX as [|x x' r r' Hx HX IH]; intros fxs pairs pairs' Hsc HP; cbn [arr_loop].
  - cbn. repeat split; assumption.
  - pose proof Hx as [_ Hj].
    rewrite <- (jperm_is_scalar _ _ Hj).
    destruct (is_scalar x) eqn:Es.
    + rewrite (jperm_scalar _ _ Hj Es).
      destruct (jmem x fxs); [|exact I].
      apply IH; [apply jremove_sc; exact Hsc | exact HP].
    + destruct fe; [exact I|].
      pose proof (arraycat_rel2 ord1 ord2 rec1 rec2 pairs pairs' x x' Ho1 Ho2 Hrec Hx HP) as HA.
      res_cases HA a1 a2.
      destruct (PermR_case _ _ _ _ _ HA) as [[-> ->] | [x1 [t1 [x2 [t2 [E1 E2]]]]]].
      * exact I.
      * rewrite E1 at 1. rewrite E2 at 1. apply IH; assumption.
Qed.

Lemma combine_pairs_rel2 : forall pairs pairs',
  PermR pairw pairs pairs' -> PermR bsw (combine_pairs pairs) (combine_pairs pairs').
Proof.
  intros pairs pairs' [l' [HP HF]]. unfold combine_pairs.
  apply PermR_perm_l with (l1' := concat (map fst l')).
  - apply Permutation_concat'. apply Permutation_map. exact HP.
  - apply PermR_concat. clear HP.
    induction HF as [|a b la lb [Hab _] HF IH]; cbn; constructor; assumption.
Qed.

Lemma merged_rel2 : forall pairs pairs' (extra extra' : list (nat * json)),
  Forall2 ixw extra extra' -> PermR pairw pairs pairs' ->
  PermR pairw (map (fun pr : pair_t => (fst pr, snd pr ++ extra)) pairs)
              (map (fun pr : pair_t => (fst pr, snd pr ++ extra')) pairs').
Proof.
  intros pairs pairs' extra extra' HE HP.
  apply PermR_map with (R := pairw); [|exact HP].
  intros [b1 m1] [b2 m2] [Hb Hm]. cbn [fst snd] in *.
  split; cbn [fst snd]; [exact Hb|]. apply Forall2_app; assumption.
Qed.

Lemma number_from_rel : forall l n, Forall sc l -> Forall2 ixw (number_from n l) (number_from n l).
Proof.
  intros l n H. revert n. induction H as [|x r Hx HF IH]; intros n; cbn [number_from].
  - constructor.
  - constructor; [split; [reflexivity | apply sc_jw; exact Hx] | apply IH].
Qed.

Lemma Forall2_len : forall A B (R : A -> B -> Prop) l l', Forall2 R l l' -> length l = length l'.
Proof. intros A B R l l' H. induction H; cbn; congruence. Qed.

Lemma match_arr_rel2 : forall ord1 ord2 rec1 rec2 bs bs' xs xs' f f',
  perm_oracle ord1 -> perm_oracle ord2 -> recw rec1 rec2 ->
  Forall2 jw xs xs' -> jw f f' -> bsw bs bs' ->
  RBw (match_arr ord1 rec1 bs xs f) (match_arr ord2 rec2 bs' xs' f').
Proof.
  intros ord1 ord2 rec1 rec2 bs bs' xs xs' f f' Ho1 Ho2 Hrec HX Hf Hbs. unfold match_arr.
  pose proof (get_var_rel xs xs' HX None) as HG.
  destruct (get_var xs None) as [[v cs]|], (get_var xs' None) as [[v' cs']|]; cbn in HG;
    try contradiction; [|exact I].
  destruct HG as [<- HC].
  pose proof Hf as [_ Hjf]. apply jperm_shape in Hjf.
  destruct f as [| | | |fa|], f' as [| | | |fa'|]; cbn in Hjf; try contradiction;
    try (cbn; apply PermR_nil).
  clear Hjf. apply jw_arr in Hf.
  destruct (index_facts_rel fa fa' Hf 0) as [Hfxs [Hfxa Hsc]].
  destruct (index_facts 0 fa) as [fxs fxa].
  destruct (index_facts 0 fa') as [fxs' fxa'].
  cbn [fst snd] in *. subst fxs'.
  assert (Hfe : (match fxa' with [] => true | _ => false end)
                = (match fxa with [] => true | _ => false end)).
  { inversion Hfxa; reflexivity. }
  rewrite Hfe.
  set (fe := match fxa with [] => true | _ => false end).
  assert (HP0 : PermR pairw [([bs], fxa)] [([bs'], fxa')]).
  { apply PermR_cons; [|apply PermR_nil].
    split; cbn [fst snd]; [apply PermR_bsw_single; exact Hbs | exact Hfxa]. }
  pose proof (arr_loop_rel2 ord1 ord2 rec1 rec2 fe cs cs' Ho1 Ho2 Hrec HC fxs _ _ Hsc HP0) as HL.
  unfold RBw.
  res_cases HL o1 o2.
  destruct o1 as [[f1 p1]|], o2 as [[f2 p2]|]; cbn in HL; try contradiction.
  2:{ cbn. apply PermR_nil. }
  destruct HL as [<- [Hsc1 HPp]].
  rewrite <- (Forall2_len _ _ _ _ _ Hf).
  pose proof (merged_rel2 p1 p2 _ _ (number_from_rel f1 (length fa) Hsc1) HPp) as HMg.
  set (m1 := map (fun pr : pair_t => (fst pr, snd pr ++ number_from (length fa) f1)) p1) in *.
  set (m2 := map (fun pr : pair_t => (fst pr, snd pr ++ number_from (length fa) f1)) p2) in *.
  destruct v as [vname|].
  - pose proof (arraycat_rel2 ord1 ord2 rec1 rec2 m1 m2 (JStr vname) (JStr vname)
                              Ho1 Ho2 Hrec (jw_str vname) HMg) as HA.
    res_cases HA a1 a2.
    destruct (PermR_case _ _ _ _ _ HA) as [[-> ->] | [x1 [t1 [x2 [t2 [E1 E2]]]]]].
    + destruct (is_optional vname); cbn.
      * apply combine_pairs_rel2. exact HMg.
      * apply PermR_nil.
    + rewrite E1 at 1. rewrite E2 at 1. cbn [res_rel].
      apply combine_pairs_rel2. exact HA.
  - cbn. apply combine_pairs_rel2. exact HMg.
Qed.

(** * the recursive matcher *)

Lemma match_recw : forall ord1 ord2,
  perm_oracle ord1 -> perm_oracle ord2 ->
  forall fuel, recw (match_ ord1 fuel) (match_ ord2 fuel).
Proof.
  intros ord1 ord2 Ho1 Ho2 fuel.
  induction fuel as [|n IH]; intros p p' f f' bs bs' Hp Hf Hbs; cbn [match_].
  - exact I.
  - pose proof (PermR_bsw_single _ _ Hbs) as Hsingle.
    pose proof Hp as [_ Hjp]. apply jperm_shape in Hjp.
    pose proof Hf as [_ Hjf]. apply jperm_shape in Hjf.
    unfold RBw.
    destruct p as [|x|x|s|xs|kvs], p' as [|x'|x'|s'|xs'|kvs']; cbn in Hjp;
      try contradiction.
    + destruct f, f'; cbn in Hjf; try contradiction; cbn;
        try apply PermR_nil; exact Hsingle.
    + subst x'. destruct f as [|y| | | |], f' as [|y'| | | |]; cbn in Hjf;
        try contradiction; cbn; try apply PermR_nil.
      subst y'. destruct (Bool.eqb x y); cbn; [exact Hsingle | apply PermR_nil].
    + subst x'. destruct f as [| |y| | |], f' as [| |y'| | |]; cbn in Hjf;
        try contradiction; cbn; try apply PermR_nil.
      subst y'. destruct (Z.eqb x y); cbn; [exact Hsingle | apply PermR_nil].
    + subst s'. destruct (is_var s).
      * destruct (is_anon s); [cbn; exact Hsingle|].
        pose proof (inequal_rel f f' bs bs' s Hf Hbs) as HI.
        destruct (inequal f bs s) as [|r], (inequal f' bs' s) as [|r']; cbn in HI;
          try contradiction; [|exact HI].
        pose proof (lookup_rel s bs bs' Hbs) as HL.
        destruct (lookup s bs) as [b|], (lookup s bs') as [b'|]; cbn in HL;
          try contradiction.
        -- unfold bound_match. pose proof HL as [_ Hjb]. apply jperm_shape in Hjb.
           destruct b as [| | |t| |], b' as [| | |t'| |]; cbn in Hjb; try contradiction;
             try (apply IH; assumption).
           subst t'. destruct (is_var t); [|apply IH; assumption].
           destruct f as [| | |u| |], f' as [| | |u'| |]; cbn in Hjf;
             try contradiction; cbn; try apply PermR_nil.
           subst u'. destruct (String.eqb t u); cbn; [exact Hsingle | apply PermR_nil].
        -- cbn. apply PermR_bsw_single. apply bset_rel; assumption.
      * destruct f as [| | |t| |], f' as [| | |t'| |]; cbn in Hjf;
          try contradiction; cbn; try apply PermR_nil.
        subst t'. destruct (String.eqb s t); cbn; [exact Hsingle | apply PermR_nil].
    + apply match_arr_rel2; try assumption. apply jw_arr. exact Hp.
    + destruct f as [| | | | |fkvs], f' as [| | | | |fkvs']; cbn in Hjf;
        try contradiction; try (cbn; apply PermR_nil).
      destruct (jw_obj _ _ Hp) as [HNDk HK].
      destruct (jw_obj _ _ Hf) as [HNDf HF].
      apply match_obj_rel2; assumption.
Qed.

(** * [jperm] is reflexive *)

Fixpoint jperm_refl (j : json) : jperm j j :=
  match j as j0 return jperm j0 j0 with
  | JNull => jp_null
  | JBool b => jp_bool b
  | JNum z => jp_num z
  | JStr s => jp_str s
  | JArr l =>
      jp_arr l l
        ((fix go (l : list json) : Forall2 jperm l l :=
            match l with
            | [] => Forall2_nil _
            | x :: r => Forall2_cons x x (jperm_refl x) (go r)
            end) l)
  | JObj kvs =>
      jp_obj kvs kvs kvs (Permutation_refl kvs)
        ((fix go (l : list (string * json))
            : Forall2 (fun kv kv' => fst kv = fst kv' /\ jperm (snd kv) (snd kv')) l l :=
            match l with
            | [] => Forall2_nil _
            | kv :: r =>
                Forall2_cons kv kv
                  (conj eq_refl (match kv as kv0 return jperm (snd kv0) (snd kv0) with
                                 | (k, v) => jperm_refl v
                                 end))
                  (go r)
            end) kvs)
  end.

Lemma bs_jperm_refl : forall bs, bs_jperm bs bs.
Proof.
  induction bs as [|kv r IH]; constructor; [|exact IH].
  split; [reflexivity | apply jperm_refl].
Qed.

Lemma bsw_of : forall bs bs', wf_bs bs = true -> bs_jperm bs bs' -> bsw bs bs'.
Proof.
  intros bs bs' Hwf HJ. unfold wf_bs in Hwf. rewrite forallb_forall in Hwf.
  apply Forall_forall in Hwf.
  pose proof (Forall2_and_Forall_l _ _ _ _ _ _ Hwf HJ) as HF.
  eapply Forall2_impl; [|exact HF].
  intros a b [Hwa [Hk Hj]]. split; [exact Hk | split; assumption].
Qed.

Lemma bsw_bs_jperm : forall bs bs', bsw bs bs' -> bs_jperm bs bs'.
Proof.
  intros bs bs' H. eapply Forall2_impl; [|exact H].
  intros a b [Hk [_ Hj]]. split; assumption.
Qed.

Lemma bsw_wf : forall bs bs', bsw bs bs' -> wf_bs bs = true.
Proof.
  intros bs bs' H. unfold wf_bs. induction H as [|a b r r' [_ [Hw _]] HF IH]; cbn.
  - reflexivity.
  - rewrite Hw, IH. reflexivity.
Qed.

(** Independence from the oracle and from the listed order of the entries of
    every object of the pattern, the message and the bound values. *)
Theorem match_entry_order_independent : forall ord1 ord2,
  perm_oracle ord1 -> perm_oracle ord2 ->
  forall fuel p p' f f' bs bs',
  wf_json p = true -> wf_json f = true -> wf_bs bs = true ->
  jperm p p' -> jperm f f' -> bs_jperm bs bs' ->
  res_equiv_up_to_jperm (match_ ord1 fuel p f bs) (match_ ord2 fuel p' f' bs').
Proof.
  intros ord1 ord2 Ho1 Ho2 fuel p p' f f' bs bs' Hwp Hwf Hwb Hp Hf Hb.
  unfold res_equiv_up_to_jperm.
  apply res_rel_impl with (R := PermR bsw).
  - intros x y. apply PermR_impl. exact bsw_bs_jperm.
  - apply (match_recw ord1 ord2 Ho1 Ho2 fuel); [split; assumption | split; assumption|].
    apply bsw_of; assumption.
Qed.

(** the statement of the task: one oracle, same bindings *)
Corollary match_jperm : forall ord, perm_oracle ord ->
  forall fuel p p' f f' bs,
  wf_json p = true -> wf_json f = true -> wf_bs bs = true ->
  jperm p p' -> jperm f f' ->
  res_equiv_up_to_jperm (match_ ord fuel p f bs) (match_ ord fuel p' f' bs).
Proof.
  intros ord Ho fuel p p' f f' bs Hwp Hwf Hwb Hp Hf.
  apply match_entry_order_independent; try assumption. apply bs_jperm_refl.
Qed.

(** by-product: on well-formed inputs every returned binding set is well-formed *)
Theorem match_results_wf : forall ord, perm_oracle ord ->
  forall fuel p f bs r,
  wf_json p = true -> wf_json f = true -> wf_bs bs = true ->
  match_ ord fuel p f bs = Ok r -> Forall (fun b => wf_bs b = true) r.
Proof.
  intros ord Ho fuel p f bs r Hwp Hwf Hwb HM.
  assert (H : RBw (match_ ord fuel p f bs) (match_ ord fuel p f bs)).
  { apply (match_recw ord ord Ho Ho fuel).
    - split; [exact Hwp | apply jperm_refl].
    - split; [exact Hwf | apply jperm_refl].
    - apply bsw_of; [exact Hwb | apply bs_jperm_refl]. }
  rewrite HM in H. cbn in H.
  apply Forall_forall. intros b Hb.
  destruct (PermR_in_l H Hb) as [b' [_ Hbb]].
  eapply bsw_wf. exact Hbb.
Qed.

Print Assumptions match_entry_order_independent.
Print Assumptions match_jperm.
Print Assumptions match_results_wf.
