(** Generic tools for the order-independence proofs:
    - [res_rel]: results related up to a relation on the payload, silent on [Fuel];
    - [PermR]: lists equal up to a permutation and an element-wise relation;
    - [rflatmap]: the "concatenate every element's result, fail if one fails" loop
      that [mwb], [propvar_loop], [try_each] and [arraycat] all instantiate. *)
From Sheens Require Import Model.Match.
From Coq Require Import List Permutation.
Import ListNotations.


(** * Results up to a relation *)

Definition res_rel {A B : Type} (R : A -> B -> Prop) (a : res A) (b : res B) : Prop :=
  match a, b with
  | Ok x, Ok y => R x y
  | Err, Err => True
  | Fuel, _ | _, Fuel => True
  | _, _ => False
  end.

Lemma res_rel_fuel_l : forall A B (R : A -> B -> Prop) b, res_rel R Fuel b.
Proof. intros A B R b. destruct b; exact I. Qed.

Lemma res_rel_fuel_r : forall A B (R : A -> B -> Prop) a, res_rel R a Fuel.
Proof. intros A B R a. destruct a; exact I. Qed.

Lemma res_rel_impl : forall A B (R S : A -> B -> Prop) a b,
  (forall x y, R x y -> S x y) -> res_rel R a b -> res_rel S a b.
Proof.
  intros A B R S a b HRS H. destruct a, b; cbn in *; auto.
Qed.

(** * Lists up to permutation and an element-wise relation *)

Definition PermR {A B : Type} (R : A -> B -> Prop) (l1 : list A) (l2 : list B) : Prop :=
  exists l', Permutation l1 l' /\ Forall2 R l' l2.

Section PermRFacts.
Variables A B : Type.
Variable R : A -> B -> Prop.

Lemma PermR_nil : PermR R [] [].
Proof. exists []. split; constructor. Qed.

Lemma PermR_Forall2 : forall l1 l2, Forall2 R l1 l2 -> PermR R l1 l2.
Proof. intros l1 l2 H. exists l1. split; [apply Permutation_refl | exact H]. Qed.

Lemma PermR_perm_l : forall l1 l1' l2,
  Permutation l1 l1' -> PermR R l1' l2 -> PermR R l1 l2.
Proof.
  intros l1 l1' l2 HP [l' [HP' HF]]. exists l'. split; [|exact HF].
  eapply perm_trans; eassumption.
Qed.

Lemma PermR_app : forall a a' b b',
  PermR R a a' -> PermR R b b' -> PermR R (a ++ b) (a' ++ b').
Proof.
  intros a a' b b' [la [HPa HFa]] [lb [HPb HFb]].
  exists (la ++ lb). split.
  - apply Permutation_app; assumption.
  - apply Forall2_app; assumption.
Qed.

Lemma PermR_cons : forall x y l1 l2,
  R x y -> PermR R l1 l2 -> PermR R (x :: l1) (y :: l2).
Proof.
  intros x y l1 l2 Hxy [l' [HP HF]]. exists (x :: l'). split.
  - apply perm_skip; exact HP.
  - constructor; assumption.
Qed.

Lemma Forall2_length' : forall (l1 : list A) (l2 : list B),
  Forall2 R l1 l2 -> length l1 = length l2.
Proof. intros l1 l2 H. induction H; cbn; congruence. Qed.

Lemma PermR_length : forall l1 l2, PermR R l1 l2 -> length l1 = length l2.
Proof.
  intros l1 l2 [l' [HP HF]].
  rewrite (Permutation_length HP). eapply Forall2_length'; eassumption.
Qed.

Lemma PermR_nil_l : forall l, PermR R [] l -> l = [].
Proof.
  intros l H. apply PermR_length in H. destruct l; [reflexivity | discriminate].
Qed.

Lemma PermR_nil_r : forall l, PermR R l [] -> l = [].
Proof.
  intros l H. apply PermR_length in H. destruct l; [reflexivity | discriminate].
Qed.

Lemma Forall2_in_r : forall (l1 : list A) (l2 : list B) y,
  Forall2 R l1 l2 -> In y l2 -> exists x, In x l1 /\ R x y.
Proof.
  intros l1 l2 y H. induction H as [|a b la lb Hab HF IH]; intros Hin.
  - destruct Hin.
  - destruct Hin as [Heq | Hin].
    + subst. exists a. split; [left; reflexivity | exact Hab].
    + destruct (IH Hin) as [x [Hx HR]]. exists x. split; [right; exact Hx | exact HR].
Qed.

Lemma Forall2_in_l : forall (l1 : list A) (l2 : list B) x,
  Forall2 R l1 l2 -> In x l1 -> exists y, In y l2 /\ R x y.
Proof.
  intros l1 l2 x H. induction H as [|a b la lb Hab HF IH]; intros Hin.
  - destruct Hin.
  - destruct Hin as [Heq | Hin].
    + subst. exists b. split; [left; reflexivity | exact Hab].
    + destruct (IH Hin) as [y [Hy HR]]. exists y. split; [right; exact Hy | exact HR].
Qed.

Lemma PermR_in_r : forall l1 l2 y,
  PermR R l1 l2 -> In y l2 -> exists x, In x l1 /\ R x y.
Proof.
  intros l1 l2 y [l' [HP HF]] Hin.
  destruct (Forall2_in_r _ _ _ HF Hin) as [x [Hx HR]].
  exists x. split; [|exact HR].
  eapply Permutation_in; [apply Permutation_sym; exact HP | exact Hx].
Qed.

Lemma PermR_in_l : forall l1 l2 x,
  PermR R l1 l2 -> In x l1 -> exists y, In y l2 /\ R x y.
Proof.
  intros l1 l2 x [l' [HP HF]] Hin.
  apply (Permutation_in _ HP) in Hin.
  exact (Forall2_in_l _ _ _ HF Hin).
Qed.

Lemma PermR_concat : forall (ls1 : list (list A)) (ls2 : list (list B)),
  Forall2 (PermR R) ls1 ls2 -> PermR R (concat ls1) (concat ls2).
Proof.
  intros ls1 ls2 H. induction H as [|a b la lb Hab HF IH]; cbn.
  - apply PermR_nil.
  - apply PermR_app; assumption.
Qed.

End PermRFacts.

Lemma PermR_eq_perm : forall A (l1 l2 : list A), PermR eq l1 l2 -> Permutation l1 l2.
Proof.
  intros A l1 l2 [l' [HP HF]].
  assert (l' = l2) as ->; [|exact HP].
  clear HP. induction HF; [reflexivity | congruence].
Qed.

Lemma perm_PermR_eq : forall A (l1 l2 : list A), Permutation l1 l2 -> PermR eq l1 l2.
Proof.
  intros A l1 l2 HP. exists l2. split; [exact HP|].
  clear HP. induction l2; constructor; auto.
Qed.

Lemma PermR_map : forall A B C D (R : A -> B -> Prop) (S : C -> D -> Prop)
    (f : A -> C) (g : B -> D) l1 l2,
  (forall x y, R x y -> S (f x) (g y)) ->
  PermR R l1 l2 -> PermR S (map f l1) (map g l2).
Proof.
  intros A B C D R S f g l1 l2 Hfg [l' [HP HF]].
  exists (map f l'). split.
  - apply Permutation_map; exact HP.
  - clear HP. induction HF; cbn; constructor; auto.
Qed.

Lemma PermR_impl : forall A B (R S : A -> B -> Prop) l1 l2,
  (forall x y, R x y -> S x y) -> PermR R l1 l2 -> PermR S l1 l2.
Proof.
  intros A B R S l1 l2 HRS [l' [HP HF]]. exists l'. split; [exact HP|].
  clear HP. induction HF; constructor; auto.
Qed.

Lemma Permutation_concat' : forall A (l1 l2 : list (list A)),
  Permutation l1 l2 -> Permutation (concat l1) (concat l2).
Proof.
  intros A l1 l2 HP. induction HP; cbn.
  - apply Permutation_refl.
  - apply Permutation_app_head; assumption.
  - rewrite !app_assoc. apply Permutation_app_tail. apply Permutation_app_comm.
  - eapply perm_trans; eassumption.
Qed.

(** * The generic accumulating loop *)

Fixpoint rflatmap {A B : Type} (g : A -> res (list B)) (l : list A) : res (list B) :=
  match l with
  | [] => Ok []
  | x :: r =>
      match g x with
      | Ok a =>
          match rflatmap g r with
          | Ok b => Ok (a ++ b)
          | Err => Err
          | Fuel => Fuel
          end
      | Err => Err
      | Fuel => Fuel
      end
  end.

Lemma rflatmap_ext : forall A B (g1 g2 : A -> res (list B)) l,
  (forall x, g1 x = g2 x) -> rflatmap g1 l = rflatmap g2 l.
Proof.
  intros A B g1 g2 l H. induction l as [|x r IH]; cbn; [reflexivity|].
  rewrite H, IH. reflexivity.
Qed.

Lemma rflatmap_ok : forall A B (g : A -> res (list B)) l r,
  rflatmap g l = Ok r ->
  exists rs, Forall2 (fun x rx => g x = Ok rx) l rs /\ r = concat rs.
Proof.
  intros A B g l. induction l as [|x t IH]; cbn; intros r H.
  - inversion H; subst. exists []. split; [constructor | reflexivity].
  - destruct (g x) as [a| |] eqn:Hg; try discriminate.
    destruct (rflatmap g t) as [b| |] eqn:Ht; try discriminate.
    inversion H; subst.
    destruct (IH b eq_refl) as [rs [HF Hb]]. subst b.
    exists (a :: rs). split; [constructor; assumption | reflexivity].
Qed.

Lemma rflatmap_err : forall A B (g : A -> res (list B)) l,
  rflatmap g l = Err -> exists x, In x l /\ g x = Err.
Proof.
  intros A B g l. induction l as [|x t IH]; cbn; intros H.
  - discriminate.
  - destruct (g x) as [a| |] eqn:Hg; try discriminate.
    + destruct (rflatmap g t) as [b| |] eqn:Ht; try discriminate.
      destruct (IH eq_refl) as [y [Hy Hgy]]. exists y. split; [right; exact Hy | exact Hgy].
    + exists x. split; [left; reflexivity | exact Hg].
Qed.

Lemma Forall2_ok_in : forall A B (g : A -> res B) l rs x,
  Forall2 (fun x rx => g x = Ok rx) l rs -> In x l -> exists rx, g x = Ok rx.
Proof.
  intros A B g l rs x HF Hin.
  destruct (Forall2_in_l _ _ _ _ _ _ HF Hin) as [y [_ Hy]]. exists y. exact Hy.
Qed.

(** Main generic lemma: related element lists (up to permutation) and
    element-wise related bodies give related results. *)

Arguments PermR_in_r {A B R l1 l2 y}.
Arguments PermR_in_l {A B R l1 l2 x}.
Arguments Forall2_ok_in {A B} g {l rs x}.

Lemma rflatmap_rel : forall A A' B B' (RA : A -> A' -> Prop) (RB : B -> B' -> Prop)
    (g1 : A -> res (list B)) (g2 : A' -> res (list B')) l1 l2,
  PermR RA l1 l2 ->
  (forall x y, RA x y -> res_rel (PermR RB) (g1 x) (g2 y)) ->
  res_rel (PermR RB) (rflatmap g1 l1) (rflatmap g2 l2).
Proof.
  intros A A' B B' RA RB g1 g2 l1 l2 HPR Hg.
  destruct (rflatmap g1 l1) as [r1| |] eqn:H1;
  destruct (rflatmap g2 l2) as [r2| |] eqn:H2; cbn; try exact I.
  - (* Ok, Ok *)
    apply rflatmap_ok in H1 as [rs1 [HF1 ->]].
    apply rflatmap_ok in H2 as [rs2 [HF2 ->]].
    destruct HPR as [l' [HP HF]].
    destruct (Permutation_Forall2 HP HF1) as [rs1' [HPrs HF1']].
    apply PermR_perm_l with (l1' := concat rs1').
    { apply Permutation_concat'; exact HPrs. }
    apply PermR_concat.
    clear HP HF1 HPrs.
    revert rs1' rs2 HF1' HF2.
    induction HF as [|x y lx ly Hxy HF IH]; intros rs1' rs2 HF1' HF2.
    + inversion HF1'; inversion HF2; subst. constructor.
    + inversion HF1' as [|? a ? ra Ha HFa]; subst.
      inversion HF2 as [|? b ? rb Hb HFb]; subst.
      constructor.
      * specialize (Hg x y Hxy). rewrite Ha, Hb in Hg. exact Hg.
      * apply IH; assumption.
  - (* Ok, Err *)
    apply rflatmap_ok in H1 as [rs1 [HF1 _]].
    apply rflatmap_err in H2 as [y [Hy Hgy]].
    destruct (PermR_in_r HPR Hy) as [x [Hx Hxy]].
    destruct (Forall2_ok_in _ HF1 Hx) as [rx Hrx].
    specialize (Hg x y Hxy). rewrite Hrx, Hgy in Hg. exact Hg.
  - (* Err, Ok *)
    apply rflatmap_ok in H2 as [rs2 [HF2 _]].
    apply rflatmap_err in H1 as [x [Hx Hgx]].
    destruct (PermR_in_l HPR Hx) as [y [Hy Hxy]].
    destruct (Forall2_ok_in _ HF2 Hy) as [ry Hry].
    specialize (Hg x y Hxy). rewrite Hgx, Hry in Hg. exact Hg.
Qed.
