(** C08: the oracle clause [failed_action_silent] (Spec/SilentSpec.v) is a
    consequence of the model.

    The clause is evaluated on the strides the implementation returned: a
    stride whose end state gained the binding "actionError" - and whose
    node's action is not a native action that hands back an execution
    together with its error - reports no message.  Here: every stride the
    model's [step] produces, and every stride of the model's [walk],
    satisfies it, for every specification in which no program of a
    constrained node writes the key "actionError" itself
    ([no_action_error_writer]).  So the clause demands nothing beyond the
    modelled semantics.

    Why the model's strides satisfy it: the key "actionError" enters the
    bindings of an end state only (1) through [step]'s own
    [bset "actionError"] on the failure path, where the reported list is what
    [func_exec] returned beside the error - empty for a script and for a
    native action that returns (nil, err); (2) through a program
    (excluded by the hypothesis); never (3) through pattern matching: [Match]
    adds only variables (names starting with "?": [match_keeps]), nor (4)
    through the restoration of permanent bindings or the engine's error
    bindings ("error", "lastNode", "lastBindings"). *)
From Coq Require Import Lia.
From Sheens Require Import Model.Step Model.Action Spec.WalkSpec Spec.SilentSpec
     Proofs.SndBasics Proofs.SndArrayFacts Proofs.StepFacts Proofs.EngineFacts.

(** * The matcher adds only variables *)

Lemma prefix_app a b : String.prefix a (a ++ b)%string = true.
Proof.
  induction a as [|c a IH]; cbn; [destruct b; reflexivity|].
  destruct (Ascii.ascii_dec c c); [exact IH | congruence].
Qed.

Lemma find_op_var ops rest op vv : find_op ops rest = Some (op, vv) -> is_var vv = true.
Proof.
  induction ops as [|o ops IH]; cbn [find_op]; [discriminate|].
  destruct (String.prefix o rest); [|exact IH].
  intros [= _ <-]. exact (prefix_app var_sigil _).
Qed.

Lemma ineq_parse_var s op vv : ineq_parse s = Some (op, vv) -> is_var vv = true.
Proof.
  unfold ineq_parse. destruct s as [|c rest]; [discriminate|].
  destruct (negb _); [discriminate|]. destruct (Nat.leb _ 2); [discriminate|].
  apply find_op_var.
Qed.

Lemma lookup_bremove_none K k bs : lookup K bs = None -> lookup K (bremove k bs) = None.
Proof.
  induction bs as [|[k1 v1] bs IH]; cbn; [reflexivity|].
  destruct (String.eqb K k1) eqn:E; [discriminate|]. intros H.
  destruct (String.eqb k k1); [exact (IH H)|]. cbn. rewrite E. exact (IH H).
Qed.

Section Keep.
Variable K : string.
Hypothesis HK : is_var K = false.

(** a binding set that lacks the key [K] still lacks it *)
Definition keeps (a b : bindings) : Prop := lookup K a = None -> lookup K b = None.
(** every member of [r] comes from a member of [bss] *)
Definition from (bss r : list bindings) : Prop :=
  forall b', In b' r -> exists b, In b bss /\ keeps b b'.

Lemma keeps_refl a : keeps a a.
Proof. intros H. exact H. Qed.

Lemma keeps_bset k v bs : is_var k = true -> keeps bs (bset k v bs).
Proof.
  intros Hv H. rewrite lookup_bset. destruct (String.eqb K k) eqn:E; [|exact H].
  apply String.eqb_eq in E. subst k. congruence.
Qed.

Lemma from_refl bss : from bss bss.
Proof. intros b Hin. exists b. split; [exact Hin | apply keeps_refl]. Qed.

Lemma from_nil bss : from bss [].
Proof. intros b []. Qed.

Lemma from_trans a b c : from a b -> from b c -> from a c.
Proof.
  intros H1 H2 z Hz. destruct (H2 z Hz) as [y [Hy Hyz]]. destruct (H1 y Hy) as [x [Hx Hxy]].
  exists x. split; [exact Hx | intros H; auto].
Qed.

Lemma from_app bss a b : from bss a -> from bss b -> from bss (a ++ b).
Proof. intros Ha Hb z Hz. apply in_app_iff in Hz. destruct Hz; auto. Qed.

Lemma from_incl bss bss' r : incl bss bss' -> from bss r -> from bss' r.
Proof.
  intros Hi H z Hz. destruct (H z Hz) as [x [Hx Hxz]]. exists x. split; [apply Hi; exact Hx | exact Hxz].
Qed.

Lemma from_single bs b : keeps bs b -> from [bs] [b].
Proof. intros H z [<- | []]. exists bs. split; [left; reflexivity | exact H]. Qed.

Definition closed_rec (rec : rec_t) : Prop :=
  forall p f bs r, rec p f bs = Ok r -> from [bs] r.

Lemma combine_pairs_app (a b : list pair_t) : combine_pairs (a ++ b) = combine_pairs a ++ combine_pairs b.
Proof. unfold combine_pairs. rewrite map_app, concat_app. reflexivity. Qed.

Section Rec.
Variable ord : order_oracle.
Variable rec : rec_t.
Hypothesis Hrec : closed_rec rec.

Lemma mwb_from bss p f r : mwb rec bss p f = Ok r -> from bss r.
Proof.
  intros Hm b' Hin. destruct (mwb_inv _ _ _ _ _ _ Hm Hin) as [bs [a [H1 [H2 H3]]]].
  destruct (Hrec _ _ _ _ H2 b' H3) as [b0 [[<- | []] Hk]]. exists bs. split; assumption.
Qed.

Lemma mapcat_from fkvs : forall kvs bss r, mapcat rec bss kvs fkvs = Ok r -> from bss r.
Proof.
  induction kvs as [|[k v] kvs IH]; intros bss r; cbn [mapcat].
  - intros [= <-]. apply from_refl.
  - destruct (assoc k fkvs) as [fv|].
    + destruct (mwb rec bss v fv) as [acc| |] eqn:Em; try discriminate.
      destruct acc as [|a0 acc].
      * intros [= <-]. apply from_nil.
      * intros H. eapply from_trans; [eapply mwb_from; exact Em | eapply IH; exact H].
    + destruct (is_optional_json v); [apply IH | intros [= <-]; apply from_nil].
Qed.

Lemma propvar_loop_from bss k v : forall fkvs r, propvar_loop rec bss k v fkvs = Ok r -> from bss r.
Proof.
  induction fkvs as [|[fk fv] fkvs IH]; intros r; cbn [propvar_loop].
  - intros [= <-]. apply from_nil.
  - destruct (mwb rec bss (JStr k) (JStr fk)) as [ext| |] eqn:E1; try discriminate.
    destruct ext as [|e0 ext]; [apply IH|].
    destruct (mwb rec (e0 :: ext) v fv) as [ext2| |] eqn:E2; try discriminate.
    destruct (propvar_loop rec bss k v fkvs) as [g| |] eqn:E3; try discriminate.
    intros [= <-]. apply from_app; [|apply IH; reflexivity].
    eapply from_trans; [eapply mwb_from; exact E1 | eapply mwb_from; exact E2].
Qed.

Lemma match_obj_from bs kvs fkvs r : match_obj ord rec bs kvs fkvs = Ok r -> from [bs] r.
Proof.
  unfold match_obj. destruct kvs as [|[k v] [|kv2 kvs]].
  - intros [= <-]. apply from_refl.
  - destruct (is_var k); [|apply mapcat_from].
    rewrite allow_property_variables_on. unfold propvar. apply propvar_loop_from.
  - destruct (check_bad_property_variables && _); [discriminate|].
    destruct (has_var_key _); [discriminate|]. apply mapcat_from.
Qed.

Lemma try_each_from bss x mm_all mm r :
  try_each rec bss x mm_all mm = Ok r -> from bss (combine_pairs r).
Proof.
  intros Ht b' Hin. unfold combine_pairs in Hin. apply in_concat in Hin.
  destruct Hin as [acc [Hacc Hb]]. apply in_map_iff in Hacc. destruct Hacc as [[acc' mm2] [Heq Hp]].
  cbn [fst] in Heq. subst acc'.
  destruct (try_each_inv _ _ _ _ _ _ _ _ Ht Hp) as [j [fact [_ [Hm _]]]].
  exact (mwb_from _ _ _ _ Hm b' Hb).
Qed.

Lemma arraycat_from x : forall pairs r,
  arraycat ord rec pairs x = Ok r -> from (combine_pairs pairs) (combine_pairs r).
Proof.
  induction pairs as [|[bss mm] pairs IH]; intros r; cbn [arraycat].
  - intros [= <-]. apply from_nil.
  - destruct (try_each rec bss x mm (ord _ mm)) as [a| |] eqn:Ea; try discriminate.
    destruct (arraycat ord rec pairs x) as [b| |] eqn:Eb; try discriminate.
    intros [= <-]. rewrite combine_pairs_app.
    change (combine_pairs ((bss, mm) :: pairs)) with (bss ++ combine_pairs pairs).
    apply from_app.
    + eapply from_incl; [|eapply try_each_from; exact Ea]. apply incl_appl, incl_refl.
    + eapply from_incl; [|apply IH; reflexivity]. apply incl_appr, incl_refl.
Qed.

Lemma arr_loop_from fe : forall xs fxs pairs fxs' pairs',
  arr_loop ord rec fe xs fxs pairs = Ok (Some (fxs', pairs')) ->
  from (combine_pairs pairs) (combine_pairs pairs').
Proof.
  induction xs as [|x xs IH]; intros fxs pairs fxs' pairs'; cbn [arr_loop].
  - intros [= _ <-]. apply from_refl.
  - destruct (is_scalar x).
    + destruct (jmem x fxs); [apply IH | discriminate].
    + destruct fe; [discriminate|].
      destruct (arraycat ord rec pairs x) as [np| |] eqn:En; try discriminate.
      destruct np as [|p0 np]; [discriminate|].
      intros H. eapply from_trans; [eapply arraycat_from; exact En | eapply IH; exact H].
Qed.

Lemma match_arr_from bs xs f r : match_arr ord rec bs xs f = Ok r -> from [bs] r.
Proof.
  unfold match_arr. destruct (get_var xs None) as [[v cs]|]; [|discriminate].
  destruct f as [| | | | fa |]; try (intros [= <-]; apply from_nil).
  destruct (index_facts 0 fa) as [fxs fxa].
  destruct (arr_loop ord rec _ cs fxs [([bs], fxa)]) as [[[fxs' pairs]|]| |] eqn:Ea; try discriminate;
    [|intros [= <-]; apply from_nil].
  pose proof (arr_loop_from _ _ _ _ _ _ Ea) as H.
  change (combine_pairs [([bs], fxa)]) with ([bs] ++ []) in H. cbn [app] in H.
  match goal with |- context [map ?g pairs] => set (merged := map g pairs) end.
  assert (Hm : combine_pairs merged = combine_pairs pairs).
  { unfold merged, combine_pairs. rewrite map_map. cbn [fst]. reflexivity. }
  destruct v as [vname|].
  - destruct (arraycat ord rec merged (JStr vname)) as [np| |] eqn:En; try discriminate.
    destruct np as [|p0 np].
    + destruct (is_optional vname); intros [= <-]; [rewrite Hm; exact H | apply from_nil].
    + intros [= <-]. eapply from_trans; [exact H|]. rewrite <- Hm. eapply arraycat_from. exact En.
  - intros [= <-]. rewrite Hm. exact H.
Qed.

Lemma bound_match_from b f bs r : bound_match rec b f bs = Ok r -> from [bs] r.
Proof.
  unfold bound_match. destruct b as [| | | t | |]; try apply Hrec.
  destruct (is_var t); [|apply Hrec].
  destruct f as [| | | u | |]; try (intros [= <-]; apply from_nil).
  destruct (String.eqb t u); intros [= <-]; [apply from_refl | apply from_nil].
Qed.
End Rec.

Lemma inequal_from f bs s r : inequal f bs s = Using r -> from [bs] r.
Proof.
  unfold inequal. destruct (negb inequalities); [discriminate|].
  destruct (lookup s bs) as [[| | b | | |]|]; try discriminate.
  destruct f as [| | a | | |]; try discriminate.
  destruct (ineq_parse s) as [[op vv]|] eqn:Ep; [|discriminate].
  destruct (sat op a b); [|intros [= <-]; apply from_nil].
  destruct (lookup vv bs) as [[| | c | | |]|]; try discriminate.
  - destruct (Z.eqb c a); intros [= <-]; [apply from_refl | apply from_nil].
  - intros [= <-]. apply from_single. apply keeps_bset. exact (ineq_parse_var _ _ _ Ep).
Qed.

Lemma match_closed ord : forall n, closed_rec (match_ ord n).
Proof.
  induction n as [|n IH]; intros p f bs r H; [discriminate|].
  cbn [match_] in H. destruct p as [| x | x | s | xs | kvs].
  - destruct f; injection H as <-; (apply from_refl || apply from_nil).
  - destruct f as [| y | | | |]; try (injection H as <-; apply from_nil).
    destruct (Bool.eqb x y); injection H as <-; [apply from_refl | apply from_nil].
  - destruct f as [| | y | | |]; try (injection H as <-; apply from_nil).
    destruct (Z.eqb x y); injection H as <-; [apply from_refl | apply from_nil].
  - destruct (is_var s) eqn:Ev.
    + destruct (is_anon s); [injection H as <-; apply from_refl|].
      destruct (inequal f bs s) as [|r0] eqn:Ei.
      * destruct (lookup s bs) as [b|].
        -- exact (bound_match_from _ IH _ _ _ _ H).
        -- injection H as <-. apply from_single. apply keeps_bset. exact Ev.
      * injection H as <-. exact (inequal_from _ _ _ _ Ei).
    + destruct f as [| | | t | |]; try (injection H as <-; apply from_nil).
      destruct (String.eqb s t); injection H as <-; [apply from_refl | apply from_nil].
  - exact (match_arr_from ord _ IH _ _ _ _ H).
  - destruct f as [| | | | | fkvs]; try (injection H as <-; apply from_nil).
    exact (match_obj_from ord _ IH _ _ _ _ H).
Qed.

(** whatever the pattern, the message and the given bindings (values that are
    themselves patterns included): a key that is no variable and is not bound
    beforehand is not bound afterwards *)
Theorem match_keeps p f bs r b' :
  Match p f bs = Ok r -> In b' r -> lookup K bs = None -> lookup K b' = None.
Proof.
  unfold Match. generalize default_fuel. intros n Hm Hin Hk.
  destruct (match_closed ord_id n p f bs r Hm b' Hin) as [b0 [[Hb | []] H]].
  subst b0. exact (H Hk).
Qed.
End Keep.

(** * Programs that do not write the key *)

Notation AE := "actionError"%string.

Lemma AE_not_var : is_var AE = false.
Proof. reflexivity. Qed.

Lemma run_ops_keeps ops :
  existsb op_writes_action_error ops = false ->
  forall b em b' em' failed,
    run_ops ops b em = (b', em', failed) ->
    lookup AE (copy_bs b) = None -> lookup AE (copy_bs b') = None.
Proof.
  induction ops as [|op ops IH]; intros Hw b em b' em' failed; cbn [run_ops].
  - intros [= <- _ _] H. exact H.
  - cbn [existsb] in Hw. apply orb_false_iff in Hw. destruct Hw as [Hop Hw]. specialize (IH Hw).
    destruct op as [j | k | k j | dst src | k | | k | k]; cbn [op_writes_action_error] in Hop;
      try (apply IH); (destruct b as [bs|]; [|intros [= <- _ _] H; exact H]).
    + apply IH.
    + intros Hr Hl. apply (IH _ _ _ _ _ Hr). cbn [copy_bs] in *. rewrite lookup_bset.
      rewrite String.eqb_sym, Hop. exact Hl.
    + destruct (lookup src bs); [|apply IH].
      intros Hr Hl. apply (IH _ _ _ _ _ Hr). cbn [copy_bs] in *. rewrite lookup_bset.
      rewrite String.eqb_sym, Hop. exact Hl.
    + intros Hr Hl. apply (IH _ _ _ _ _ Hr). cbn [copy_bs] in *. apply lookup_bremove_none. exact Hl.
    + intros Hr Hl. apply (IH _ _ _ _ _ Hr). reflexivity.
    + destruct (lookup k bs) as [v|] eqn:Ek; [|apply IH].
      intros Hr Hl. apply (IH _ _ _ _ _ Hr). cbn [copy_bs] in *. rewrite lookup_bset.
      destruct (String.eqb AE k) eqn:E; [|exact Hl].
      apply String.eqb_eq in E. subst k. congruence.
    + intros Hr Hl. apply (IH _ _ _ _ _ Hr). cbn [copy_bs] in *. rewrite lookup_bset.
      rewrite String.eqb_sym, Hop. exact Hl.
Qed.

(** what a program that completes returns lacks the key if it was not there *)
Lemma run_act_keeps a bs ob em :
  act_writes_action_error a = false ->
  xr_exe (run_act a bs) = Some (ob, em) -> xr_err (run_act a bs) = false ->
  lookup AE (copy_bs bs) = None -> lookup AE (copy_bs ob) = None.
Proof.
  intros Hw Hx He Hl.
  assert (Hp : exists p, prog_writes_action_error p = false /\
                         (run_act a bs = run_js p bs \/ exists e, run_act a bs = run_native p e bs)).
  { destruct a as [p | p e]; exists p; (split; [exact Hw|]); [left | right; exists e]; reflexivity. }
  destruct Hp as [p [Hpw Hrun]]. unfold prog_writes_action_error in Hpw.
  apply orb_false_iff in Hpw. destruct Hpw as [Hops Hterm].
  assert (Hfin : forall r : exec_raw,
            (forall b em0 failed, run_ops (pg_ops p) bs [] = (b, em0, failed) ->
               (r = mk_raw None true \/ (exists x, r = mk_raw x true) \/
                exists ob0 em1, r = mk_raw (Some (ob0, em1)) false /\ lookup AE (copy_bs ob0) = None)) ->
            xr_exe r = Some (ob, em) -> xr_err r = false -> lookup AE (copy_bs ob) = None).
  { intros r Hr Hxr Her. destruct (run_ops (pg_ops p) bs []) as [[b em0] failed] eqn:Er.
    destruct (Hr _ _ _ eq_refl) as [-> | [[x ->] | [ob0 [em1 [-> Hk]]]]]; cbn in *; try discriminate.
    injection Hxr as <- _. exact Hk. }
  assert (Hok : forall b em0 failed, run_ops (pg_ops p) bs [] = (b, em0, failed) ->
                lookup AE (copy_bs b) = None).
  { intros b em0 failed Er. exact (run_ops_keeps _ Hops _ _ _ _ _ Er Hl). }
  destruct Hrun as [Hrun | [e Hrun]]; rewrite Hrun in Hx, He; revert Hx He; apply Hfin;
    intros b em0 failed Er; pose proof (Hok _ _ _ Er) as Hb.
  - unfold run_js. rewrite Er. destruct failed; [left; reflexivity|].
    destruct (pg_term p) as [| kvs | | | | | | | k j]; try (left; reflexivity);
      try (right; right; eexists; eexists; split; [reflexivity|]).
    + exact Hb.
    + cbn [copy_bs]. destruct (lookup AE kvs); [discriminate | reflexivity].
    + reflexivity.
    + destruct b as [b1|]; [|left; reflexivity].
      destruct (lookup k b1); [destruct (json_eqb _ _)|];
        right; right; eexists; eexists; (split; [reflexivity|]); (exact Hb || reflexivity).
  - unfold run_native. rewrite Er.
    assert (Hfail : forall r, r = (if e then mk_raw (Some (b, em0)) true else mk_raw None true) ->
              r = mk_raw None true \/ (exists x, r = mk_raw x true) \/
              exists ob0 em1, r = mk_raw (Some (ob0, em1)) false /\ lookup AE (copy_bs ob0) = None).
    { intros r ->. right. left. destruct e; eexists; reflexivity. }
    destruct failed; [apply Hfail; reflexivity|].
    destruct (pg_term p) as [| kvs | | | | | | | k j]; try (apply Hfail; reflexivity);
      try (right; right; eexists; eexists; split; [reflexivity|]).
    + exact Hb.
    + cbn [copy_bs]. destruct (lookup AE kvs); [discriminate | reflexivity].
    + reflexivity.
    + destruct b as [b1|]; [|apply Hfail; reflexivity].
      destruct (lookup k b1); [destruct (json_eqb _ _)|];
        right; right; eexists; eexists; (split; [reflexivity|]); (exact Hb || reflexivity).
Qed.

Lemma in_lookup_some k v (bs : bindings) : In (k, v) bs -> lookup k bs <> None.
Proof.
  intros Hin. rewrite lookup_assoc. apply assoc_some_key. apply in_map_iff. exists (k, v). split; [reflexivity | exact Hin].
Qed.

(** FuncAction.Exec around such a program: the restored permanent bindings
    are bindings that were there *)
Lemma func_exec_keeps a bs ob em :
  act_writes_action_error a = false ->
  func_exec act run_act a bs = ((ob, em), false) ->
  lookup AE (copy_bs bs) = None -> lookup AE (copy_bs ob) = None.
Proof.
  intros Hw Hf Hl. unfold func_exec in Hf.
  destruct (xr_exe (run_act a bs)) as [[ob0 em0]|] eqn:Ex.
  - injection Hf as <- _ He. pose proof (run_act_keeps _ _ _ _ Hw Ex He Hl) as Hk.
    destruct ob0 as [b0|]; [|reflexivity]. cbn [option_map copy_bs] in *.
    rewrite lookup_restore_other; [exact Hk|].
    intros Hin. apply in_map_iff in Hin. destruct Hin as [[k v] [Hk1 Hin]]. cbn [fst] in Hk1. subst k.
    unfold permanent_of in Hin. destruct exp_permanent_bindings; [|destruct Hin].
    apply filter_In in Hin. destruct Hin as [Hin _]. exact (in_lookup_some _ _ _ Hin Hl).
  - injection Hf as <- _ _. reflexivity.
Qed.

(** a script, or a native action that returns (nil, err), reports nothing
    beside its error *)
Lemma func_exec_error_silent a bs ob em :
  match a with Native _ true => False | _ => True end ->
  func_exec act run_act a bs = ((ob, em), true) -> em = [].
Proof.
  intros Ha Hf. unfold func_exec in Hf.
  destruct (xr_exe (run_act a bs)) as [[ob0 em0]|] eqn:Ex; [|injection Hf as _ <- _; reflexivity].
  exfalso. injection Hf as _ _ He. destruct a as [p | p e].
  - cbn [run_act] in *. rewrite (run_js_failure_has_no_execution p bs He) in Ex. discriminate.
  - destruct e; [contradiction|]. cbn [run_act] in *. unfold run_native in *.
    destruct (run_ops (pg_ops p) bs []) as [[b em1] failed].
    destruct failed; [discriminate|].
    destruct (pg_term p); cbn in *; try discriminate.
    destruct b as [b1|]; [|discriminate].
    destruct (lookup k b1); [destruct (json_eqb _ _)|]; discriminate.
Qed.

(** * Branches *)

Definition guard_no_writer (b : branch act) : bool :=
  match br_guard b with Some g => negb (act_writes_action_error g) | None => true end.

Lemma guard_loop_keeps g : act_writes_action_error g = false ->
  forall cands b, guard_loop act run_act g cands = Some (Some b) ->
  exists c, In c cands /\ (lookup AE (copy_bs c) = None -> lookup AE b = None).
Proof.
  intros Hw. induction cands as [|c cands IH]; intros b; cbn [guard_loop]; [discriminate|].
  destruct (func_exec act run_act g c) as [[ob em] err] eqn:Ef.
  destruct err; [discriminate|]. destruct ob as [b0|].
  - intros [= <-]. exists c. split; [left; reflexivity|].
    intros Hl. exact (func_exec_keeps _ _ _ _ Hw Ef Hl).
  - intros H. destruct (IH _ H) as [c0 [Hin Hk]]. exists c0. split; [right; exact Hin | exact Hk].
Qed.

(** [try_branch] after the candidates have been computed *)
Definition try_tail (b : branch act) (cs : list (option bindings)) : try_res * bool :=
  let ambiguous :=
    match br_guard b, cs with
    | Some g, _ :: _ :: _ => negb (guard_order_free act run_act g cs)
    | _, _ => false
    end in
  let chosen : option (option bindings) :=
    match br_guard b with
    | None => match cs with [] => Some None | [c] => Some c | _ => None end
    | Some g => guard_loop act run_act g cs
    end in
  match chosen with
  | None => (TErr (match br_guard b with None => ETooMany | Some _ => EGuard end), ambiguous)
  | Some None => (TNone, ambiguous)
  | Some (Some bs') => (TTo (mk_state (target act b bs') (Some bs')), ambiguous)
  end.

Lemma try_branch_tail b bs against :
  try_branch act run_act b bs against =
  match (match br_pattern b with
         | Some p => match Match p against (copy_bs bs) with
                     | Ok r => Ok (map Some r) | Err => Err | Fuel => Fuel end
         | None => Ok [bs]
         end) with
  | Err => (TErr EMatch, false)
  | Fuel => (TErr EFuel, false)
  | Ok cs => try_tail b cs
  end.
Proof. reflexivity. Qed.

Lemma try_tail_keeps b cs st' amb :
  guard_no_writer b = true ->
  (forall c, In c cs -> lookup AE (copy_bs c) = None) ->
  try_tail b cs = (TTo st', amb) -> lookup AE (copy_bs (st_bs st')) = None.
Proof.
  unfold guard_no_writer, try_tail. intros Hg Hcs.
  destruct (br_guard b) as [g|].
  - apply negb_true_iff in Hg.
    destruct (guard_loop act run_act g cs) as [[b'|]|] eqn:Eg; intros H; inversion H. cbn.
    destruct (guard_loop_keeps g Hg cs b' Eg) as [c [Hin Hk]]. apply Hk. apply Hcs. exact Hin.
  - destruct cs as [|c [|c2 cs]]; intros H; inversion H.
    destruct c as [b'|]; inversion H. cbn. apply (Hcs (Some b')). left. reflexivity.
Qed.

Lemma try_branch_keeps b bs against st' amb :
  guard_no_writer b = true -> lookup AE (copy_bs bs) = None ->
  try_branch act run_act b bs against = (TTo st', amb) -> lookup AE (copy_bs (st_bs st')) = None.
Proof.
  intros Hg Hl. rewrite try_branch_tail.
  destruct (br_pattern b) as [p|].
  - destruct (Match p against (copy_bs bs)) as [r| |] eqn:Em; try discriminate.
    apply try_tail_keeps; [exact Hg|].
    intros c Hin. apply in_map_iff in Hin. destruct Hin as [b' [<- Hin]]. cbn [copy_bs].
    exact (match_keeps AE AE_not_var _ _ _ _ _ Em Hin Hl).
  - apply try_tail_keeps; [exact Hg|]. intros c [<- | []]. exact Hl.
Qed.

Lemma first_branch_keeps bs against : forall brs st' amb,
  forallb guard_no_writer brs = true -> lookup AE (copy_bs bs) = None ->
  first_branch act run_act brs bs against = (TTo st', amb) -> lookup AE (copy_bs (st_bs st')) = None.
Proof.
  induction brs as [|b brs IH]; intros st' amb Hg Hl; cbn [first_branch]; [discriminate|].
  cbn [forallb] in Hg. apply andb_true_iff in Hg. destruct Hg as [Hb Hg].
  destruct (try_branch act run_act b bs against) as [[| s | e] amb0] eqn:Et.
  - destruct (first_branch act run_act brs bs against) as [t amb1] eqn:Ef.
    intros [= -> _]. exact (IH _ _ Hg Hl eq_refl).
  - intros [= -> _]. exact (try_branch_keeps _ _ _ _ _ Hb Hl Et).
  - discriminate.
Qed.

Definition branches_of (n : node act) : list (branch act) :=
  match nd_branching n with Some bg => bg_branches bg | None => [] end.

Lemma consider_keeps n bs pending st' c amb :
  forallb guard_no_writer (branches_of n) = true -> lookup AE (copy_bs bs) = None ->
  consider act run_act (nd_branching n) bs pending = (TTo st', c, amb) ->
  lookup AE (copy_bs (st_bs st')) = None.
Proof.
  unfold branches_of, consider. intros Hg Hl. destruct (nd_branching n) as [bg|]; [|discriminate].
  destruct (String.eqb (bg_type bg) "message").
  - destruct pending as [m|]; [|discriminate].
    destruct (first_branch act run_act (bg_branches bg) bs m) as [t amb0] eqn:Ef.
    intros [= -> _ _]. exact (first_branch_keeps _ _ _ _ _ Hg Hl Ef).
  - destruct (first_branch act run_act (bg_branches bg) bs (JObj (copy_bs bs))) as [t amb0] eqn:Ef.
    intros [= -> _ _]. exact (first_branch_keeps _ _ _ _ _ Hg Hl Ef).
Qed.

Lemma lookup_AE_error_bindings base text from :
  lookup AE (error_bindings base text from) = lookup AE base.
Proof. unfold error_bindings. rewrite !lookup_bset. reflexivity. Qed.

(** the part of [step] after the action: the end state has the key only if
    the bindings the branches were considered with have it *)
Lemma continue_keeps n st pending have bs em sd :
  forallb guard_no_writer (branches_of n) = true -> lookup AE (copy_bs bs) = None ->
  so_stride (continue_ act run_act n st pending have bs em) = Some sd ->
  has_key AE (sd_to sd) = false.
Proof.
  intros Hg Hl. unfold continue_.
  destruct (consider act run_act (nd_branching n) bs pending) as [[tr c] amb] eqn:Ec.
  destruct tr as [| st' | e]; cbn; intros [= <-]; cbn.
  - destruct have; cbn; [|reflexivity]. rewrite lookup_AE_error_bindings, Hl. reflexivity.
  - rewrite (consider_keeps _ _ _ _ _ _ Hg Hl Ec). reflexivity.
  - destruct have; cbn; [|reflexivity]. rewrite lookup_AE_error_bindings, Hl. reflexivity.
Qed.

(** * The clause *)

Lemma silent_of_nil sp sd : sd_emitted sd = [] -> failed_action_silent sp sd = true.
Proof. unfold failed_action_silent. intros ->. destruct (_ && _); reflexivity. Qed.

Lemma silent_of_no_gain sp sd :
  has_key AE (sd_to sd) = false \/ has_key AE (Some (sd_from sd)) = true \/ hands_back_on_error sp sd = true ->
  failed_action_silent sp sd = true.
Proof.
  unfold failed_action_silent. intros [-> | [-> | ->]]; [reflexivity | |].
  - rewrite andb_false_r. reflexivity.
  - cbn [negb]. rewrite andb_false_r. reflexivity.
Qed.

Lemma find_node_in {A} name (ns : list (string * node A)) n :
  find_node name ns = Some n -> exists k, In (k, n) ns.
Proof.
  induction ns as [|[k n0] ns IH]; cbn [find_node]; [discriminate|].
  destruct (String.eqb name k).
  - intros [= <-]. exists k. left. reflexivity.
  - intros H. destruct (IH H) as [k' Hin]. exists k'. right. exact Hin.
Qed.

(** (a) one step *)
Theorem step_failed_action_silent (sp : aspec) st pending sd :
  no_action_error_writer sp = true ->
  so_stride (astep sp st pending) = Some sd -> failed_action_silent sp sd = true.
Proof.
  intros Hsp Hs. pose proof (step_from act run_act sp st pending sd Hs) as Hfrom.
  unfold astep in Hs. rewrite step_unfold in Hs.
  destruct (negb (sp_compiled sp)); [discriminate|].
  destruct (find_node (st_node st) (sp_nodes sp)) as [n|] eqn:En; [|discriminate].
  cbv zeta in Hs.
  destruct (negb _ && nd_uncompiled n); [discriminate|].
  destruct (_ && is_consumer act (nd_branching n)); [discriminate|].
  assert (Hn : node_no_writer n = true).
  { destruct (find_node_in _ _ _ En) as [k Hin]. unfold no_action_error_writer in Hsp.
    rewrite forallb_forall in Hsp. exact (Hsp _ Hin). }
  destruct (has_key AE (Some (sd_from sd))) eqn:Hk; [apply silent_of_no_gain; auto|].
  assert (Hl : lookup AE (copy_bs (st_bs st)) = None).
  { rewrite Hfrom in Hk. cbn in Hk. destruct (lookup AE (copy_bs (st_bs st))); [discriminate | reflexivity]. }
  destruct (hands_back_on_error sp sd) eqn:Hh; [apply silent_of_no_gain; auto|].
  unfold hands_back_on_error in Hh. rewrite Hfrom in Hh. cbn [copy_state st_node] in Hh. rewrite En in Hh.
  unfold node_no_writer in Hn.
  destruct (nd_action n) as [a|].
  - assert (Ha : match a with Native _ true => False | _ => True end).
    { destruct a as [p | p [|]]; (exact I || discriminate). }
    assert (Hn' : act_writes_action_error a = false /\ forallb guard_no_writer (branches_of n) = true).
    { destruct a as [p | p [|]]; [| discriminate |];
        apply andb_true_iff in Hn; destruct Hn as [H1 H2]; apply negb_true_iff in H1; split; assumption. }
    destruct Hn' as [Hw Hg].
    destruct (func_exec act run_act a (st_bs st)) as [[ob em] err] eqn:Ef.
    destruct err; cbn [negb] in Hs.
    + (* the action failed: nothing is reported *)
      pose proof (func_exec_error_silent _ _ _ _ Ha Ef) as ->.
      apply silent_of_nil.
      destruct (negb (sp_err_branches sp)).
      * destruct (String.eqb (sp_err_node sp) ""); [discriminate|]. injection Hs as <-. reflexivity.
      * exact (continue_emitted _ _ _ _ _ _ _ _ _ Hs).
    + (* the action completed: the end state does not gain the key *)
      apply silent_of_no_gain. left.
      apply (continue_keeps _ _ _ _ _ _ _ Hg) in Hs; [exact Hs|].
      cbn [copy_bs]. exact (func_exec_keeps _ _ _ _ Hw Ef Hl).
  - apply silent_of_nil. exact (continue_emitted _ _ _ _ _ _ _ _ _ Hs).
Qed.

(** the stride a walk records for one iteration *)
Theorem walk_stride_failed_action_silent (sp : aspec) st p :
  no_action_error_writer sp = true ->
  failed_action_silent sp (fst (walk_stride act run_act sp st p)) = true.
Proof.
  intros Hsp. unfold walk_stride.
  destruct (so_stride (step act run_act sp st (peek p))) as [sd|] eqn:Es.
  - pose proof (step_failed_action_silent sp st (peek p) sd Hsp Es) as H.
    pose proof (step_from act run_act sp st _ sd Es) as Hfrom.
    destruct (so_err _); [destruct (String.eqb _ _)|]; cbn [fst]; try exact H.
    (* a step error inside a walk: the engine's own error bindings *)
    destruct (has_key AE (Some (sd_from sd))) eqn:Hk; apply silent_of_no_gain; cbn; [auto|].
    left. rewrite lookup_AE_error_bindings.
    rewrite Hfrom in Hk. cbn in Hk. destruct (lookup AE (copy_bs (st_bs st))); [discriminate | reflexivity].
  - destruct (so_err _); [destruct (String.eqb _ _)|]; cbn [fst]; apply silent_of_nil; reflexivity.
Qed.

(** (b) every stride of a walk *)
Lemma walk_loop_silent (sp : aspec) bp : no_action_error_writer sp = true ->
  forall limit st pendings acc amb w amb',
    walk_loop act run_act sp bp limit st pendings acc amb = (w, amb') ->
    (forall sd, In sd acc -> failed_action_silent sp sd = true) ->
    forall sd, In sd (w_strides w) -> failed_action_silent sp sd = true.
Proof.
  intros Hsp. induction limit as [|n IH]; intros st pendings acc amb w amb' Hw Hacc.
  - cbn in Hw. injection Hw as <- _. cbn. intros sd Hin. apply in_rev in Hin. auto.
  - cbn [walk_loop] in Hw. destruct (bp st).
    { injection Hw as <- _. cbn. intros sd Hin. apply in_rev in Hin. auto. }
    pose proof (walk_stride_failed_action_silent sp st pendings Hsp) as Hsd.
    destruct (walk_stride act run_act sp st pendings) as [sd0 a]. cbn [fst] in Hsd.
    assert (Hacc' : forall sd, In sd (sd0 :: acc) -> failed_action_silent sp sd = true).
    { intros sd [<- | Hin]; auto. }
    assert (Hdone : forall sd, In sd (rev (sd0 :: acc)) -> failed_action_silent sp sd = true).
    { intros sd Hin. apply in_rev in Hin. auto. }
    destruct (sd_to sd0) as [t|].
    + exact (IH _ _ _ _ _ _ Hw Hacc').
    + destruct (match sd_consumed sd0 with Some _ => tl pendings | None => pendings end).
      * injection Hw as <- _. exact Hdone.
      * destruct (sd_consumed sd0).
        -- exact (IH _ _ _ _ _ _ Hw Hacc').
        -- injection Hw as <- _. exact Hdone.
Qed.

Theorem walk_failed_action_silent (sp : aspec) bp limit st msgs w amb :
  no_action_error_writer sp = true ->
  awalk sp bp limit st msgs = (w, amb) ->
  forallb (failed_action_silent sp) (w_strides w) = true.
Proof.
  intros Hsp Hw. apply forallb_forall.
  exact (walk_loop_silent sp bp Hsp limit st msgs [] false w amb Hw (fun _ (H : In _ []) => match H with end)).
Qed.
