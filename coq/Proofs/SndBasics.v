(** Basic facts used by the proofs about the matcher model: the generated
    constants (isolated in the first section), a nested induction principle
    for [json], association lists, bindings, [inj_assign], [contains] and
    [fits]. *)
From Sheens Require Import Spec.Contain.
From Coq Require Import Lia.

(** * Facts that depend on the concrete generated constants *)

Lemma inequalities_on : inequalities = true.
Proof. reflexivity. Qed.
Lemma allow_property_variables_on : allow_property_variables = true.
Proof. reflexivity. Qed.
Lemma check_bad_property_variables_on : check_bad_property_variables = true.
Proof. reflexivity. Qed.

Lemma opt_is_var s : is_optional s = true -> is_var s = true.
Proof.
  unfold is_optional, is_var, opt_sigil, var_sigil.
  destruct s as [|c s]; cbn [String.prefix]; [discriminate|].
  destruct (Ascii.ascii_dec "?" c); [|discriminate].
  destruct s; reflexivity.
Qed.

(** * Nested induction on [json] *)

Section JsonInd.
  Variable P : json -> Prop.
  Hypothesis HNull : P JNull.
  Hypothesis HBool : forall b, P (JBool b).
  Hypothesis HNum : forall z, P (JNum z).
  Hypothesis HStr : forall s, P (JStr s).
  Hypothesis HArr : forall l, Forall P l -> P (JArr l).
  Hypothesis HObj : forall kvs, Forall (fun kv => P (snd kv)) kvs -> P (JObj kvs).

  Fixpoint json_nested_ind (j : json) : P j :=
    match j with
    | JNull => HNull
    | JBool b => HBool b
    | JNum z => HNum z
    | JStr s => HStr s
    | JArr l =>
        HArr l ((fix go (l : list json) : Forall P l :=
                   match l with
                   | [] => Forall_nil _
                   | x :: r => Forall_cons x (json_nested_ind x) (go r)
                   end) l)
    | JObj kvs =>
        HObj kvs ((fix go (l : list (string * json)) : Forall (fun kv => P (snd kv)) l :=
                     match l with
                     | [] => Forall_nil _
                     | kv :: r =>
                         Forall_cons kv
                           (match kv as kv0 return P (snd kv0) with
                            | (k, v) => json_nested_ind v
                            end) (go r)
                     end) kvs)
    end.
End JsonInd.

(** * [json_eqb] *)

Lemma json_eqb_refl j : json_eqb j j = true.
Proof.
  induction j as [| b | z | s | l IH | kvs IH] using json_nested_ind; cbn.
  - reflexivity.
  - apply Bool.eqb_reflx.
  - apply Z.eqb_refl.
  - apply String.eqb_refl.
  - induction IH as [| x l Hx _ IHl]; [reflexivity|].
    rewrite Hx, IHl. reflexivity.
  - induction IH as [| [k v] l Hx _ IHl]; [reflexivity|].
    cbn in Hx. rewrite String.eqb_refl, Hx, IHl. reflexivity.
Qed.

Lemma scalar_eqb_eq x y : is_scalar x = true -> json_eqb x y = true -> x = y.
Proof.
  destruct x, y; cbn; try discriminate; intros _ H.
  - reflexivity.
  - apply Bool.eqb_prop in H. congruence.
  - apply Z.eqb_eq in H. congruence.
  - apply String.eqb_eq in H. congruence.
Qed.

(** * Association lists, [lookup], [bset] *)

Lemma lookup_assoc k (bs : bindings) : lookup k bs = assoc k bs.
Proof. reflexivity. Qed.

Lemma assoc_in k v (l : list (string * json)) : assoc k l = Some v -> In (k, v) l.
Proof.
  induction l as [| [k' v'] l IH]; cbn; [discriminate|].
  destruct (String.eqb k k') eqn:E.
  - apply String.eqb_eq in E. intros [= ->]. left. congruence.
  - intros H. right. auto.
Qed.

Lemma smem_in s l : smem s l = true <-> In s l.
Proof.
  unfold smem. rewrite existsb_exists. split.
  - intros [x [Hin E]]. apply String.eqb_eq in E. congruence.
  - intros H. exists s. split; [assumption | apply String.eqb_refl].
Qed.

Lemma existsb_eqb_in s l : existsb (String.eqb s) l = true <-> In s l.
Proof. exact (smem_in s l). Qed.

Lemma assoc_nodup k v (l : list (string * json)) :
  nodup_keys (map fst l) = true -> In (k, v) l -> assoc k l = Some v.
Proof.
  induction l as [| [k' v'] l IH]; cbn; [contradiction|].
  intros Hnd [Heq | Hin].
  - injection Heq as -> ->. rewrite String.eqb_refl. reflexivity.
  - apply andb_true_iff in Hnd. destruct Hnd as [Hnot Hnd].
    destruct (String.eqb k k') eqn:E.
    + apply String.eqb_eq in E. subst k'.
      apply negb_true_iff in Hnot.
      assert (Hex : existsb (String.eqb k) (map fst l) = true).
      { apply existsb_eqb_in. apply (in_map fst) in Hin. exact Hin. }
      congruence.
    + auto.
Qed.

Lemma assoc_some_key k (l : list (string * json)) :
  assoc k l <> None <-> In k (map fst l).
Proof.
  induction l as [| [k' v'] l IH]; cbn.
  - split; [congruence | contradiction].
  - destruct (String.eqb k k') eqn:E.
    + apply String.eqb_eq in E. subst. split; [auto | congruence].
    + apply String.eqb_neq in E. rewrite IH. split; [auto|].
      intros [H | H]; [congruence | assumption].
Qed.

Lemma lookup_in k v (bs : bindings) : lookup k bs = Some v -> In (k, v) bs.
Proof. exact (assoc_in k v bs). Qed.

Lemma string_compare_refl s : String.compare s s = Eq.
Proof.
  pose proof (String.compare_antisym s s) as H.
  destruct (String.compare s s); cbn in H; congruence.
Qed.

Lemma lookup_bset k' k v bs :
  lookup k' (bset k v bs) = if String.eqb k' k then Some v else lookup k' bs.
Proof.
  induction bs as [| [k1 v1] bs IH]; cbn.
  - reflexivity.
  - destruct (String.compare k k1) eqn:C; cbn.
    + apply String.compare_eq_iff in C. subst k1.
      destruct (String.eqb k' k); reflexivity.
    + reflexivity.
    + assert (Hne : k <> k1).
      { intros ->. rewrite string_compare_refl in C. discriminate. }
      rewrite IH.
      destruct (String.eqb k' k1) eqn:E1; [|reflexivity].
      apply String.eqb_eq in E1. subst k1.
      apply String.eqb_neq in Hne. rewrite String.eqb_sym, Hne. reflexivity.
Qed.

(** [bset] keeps the keys sorted *)
Lemma sorted_keys_tail k v bs : sorted_keys ((k, v) :: bs) = true -> sorted_keys bs = true.
Proof.
  cbn. destruct bs as [| [k' v'] r]; [reflexivity|].
  intros H. apply andb_true_iff in H. tauto.
Qed.
