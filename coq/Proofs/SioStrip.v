(** C14/C15: the modelling decision [strip_op] (Model/SioCrew.v) is harmless.

    A crew operation may name a service machine (the timers machine, the
    captain).  The model does not cover operations on those ([op_ordinary])
    with one exception: an update of a service machine that carries no state
    ([svc_noop]) changes nothing a crew's user observes - [SetMachine] keeps
    the service machine's own specification - and [present] drops such
    updates ([strip_op]) before [do_op].  Here:

    - [strip_ordinary]: what is left is ordinary exactly when every update is
      ordinary or such a no-op and every delete is ordinary;
    - [strip_idem]: stripping twice is stripping once;
    - [strip_all_noop]: an operation that consists of such no-ops only leaves
      the crew as it is (machines, change cache, previous reports - the whole
      record);
    - [strip_ordinary_id]: an operation that was modelled before (ordinary)
      is not touched, so nothing changes for those.

    All statements are general in the type of specification sources and in
    the resolver. *)
From Coq Require Import List String Bool.
From Sheens Require Import Model.SioCrew.
Import ListNotations.
Open Scope string_scope.
Open Scope list_scope.

Section Strip.
Variable S : Type.
Variable resolves : S -> bool.

Local Notation crew := (crew S).
Local Notation crew_op := (crew_op S).
Local Notation svc_noop := (svc_noop S).
Local Notation strip_op := (strip_op S).
Local Notation op_ordinary := (op_ordinary S).
Local Notation do_op := (do_op S resolves).

(** an update the model covers: of an ordinary machine, or a service update without state *)
Definition upd_covered (u : mid * mupd S) : bool := negb (is_service (fst u)) || svc_noop u.

Lemma ordinary_not_noop (u : mid * mupd S) : is_service (fst u) = false -> svc_noop u = false.
Proof. unfold SioCrew.svc_noop. intros ->. reflexivity. Qed.

Lemma strip_ordinary_eq (op : crew_op) :
  op_ordinary (strip_op op)
  = forallb upd_covered (op_update S op) && forallb (fun d => negb (is_service d)) (op_delete S op).
Proof.
  unfold SioCrew.op_ordinary, SioCrew.strip_op. cbn [op_update op_delete]. f_equal.
  induction (op_update S op) as [|u us IH]; cbn [filter forallb]; [reflexivity|].
  unfold upd_covered at 1.
  destruct (svc_noop u) eqn:E; cbn [negb].
  - rewrite orb_true_r. exact IH.
  - cbn [forallb]. rewrite orb_false_r, IH. reflexivity.
Qed.

Lemma strip_ordinary (op : crew_op) :
  forallb upd_covered (op_update S op) = true ->
  forallb (fun d => negb (is_service d)) (op_delete S op) = true ->
  op_ordinary (strip_op op) = true.
Proof. intros H1 H2. rewrite strip_ordinary_eq, H1, H2. reflexivity. Qed.

Lemma filter_idem {A} (f : A -> bool) l : filter f (filter f l) = filter f l.
Proof.
  induction l as [|a l IH]; cbn [filter]; [reflexivity|].
  destruct (f a) eqn:E; cbn [filter]; [rewrite E, IH; reflexivity | exact IH].
Qed.

Lemma strip_idem (op : crew_op) : strip_op (strip_op op) = strip_op op.
Proof. unfold SioCrew.strip_op. cbn [op_update op_delete]. rewrite filter_idem. reflexivity. Qed.

Lemma filter_none {A} (f : A -> bool) l : forallb f l = true -> filter (fun a => negb (f a)) l = [].
Proof.
  induction l as [|a l IH]; cbn [filter forallb]; [reflexivity|].
  intros H. apply andb_true_iff in H. destruct H as [Ha H]. rewrite Ha. cbn [negb]. exact (IH H).
Qed.

Lemma strip_all_noop (c : crew) (op : crew_op) :
  forallb svc_noop (op_update S op) = true -> op_delete S op = [] ->
  do_op c (strip_op op) = c.
Proof.
  intros Hu Hd. unfold SioCrew.do_op, SioCrew.strip_op. cbn [op_update op_delete].
  rewrite (filter_none _ _ Hu), Hd. reflexivity.
Qed.

Lemma filter_all {A} (f : A -> bool) l : forallb f l = true -> filter f l = l.
Proof.
  induction l as [|a l IH]; cbn [filter forallb]; [reflexivity|].
  intros H. apply andb_true_iff in H. destruct H as [Ha H]. rewrite Ha, (IH H). reflexivity.
Qed.

Lemma strip_ordinary_id (op : crew_op) : op_ordinary op = true -> strip_op op = op.
Proof.
  unfold SioCrew.op_ordinary, SioCrew.strip_op. intros H. apply andb_true_iff in H. destruct H as [Hu _].
  destruct op as [us ds]. cbn [op_update op_delete] in *. f_equal.
  apply filter_all. rewrite forallb_forall in *. intros u Hin.
  specialize (Hu u Hin). apply negb_true_iff in Hu. rewrite (ordinary_not_noop u Hu). reflexivity.
Qed.

(** the four together *)
Theorem service_update_without_state_is_noop (c : crew) (op : crew_op) :
  (forallb upd_covered (op_update S op) = true ->
   forallb (fun d => negb (is_service d)) (op_delete S op) = true ->
   op_ordinary (strip_op op) = true)
  /\ strip_op (strip_op op) = strip_op op
  /\ (forallb svc_noop (op_update S op) = true -> op_delete S op = [] ->
      do_op c (strip_op op) = c)
  /\ (op_ordinary op = true -> strip_op op = op).
Proof.
  split; [apply strip_ordinary|]. split; [apply strip_idem|].
  split; [apply strip_all_noop | apply strip_ordinary_id].
Qed.
End Strip.
