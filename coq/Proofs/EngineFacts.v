(** Facts about the engine model used by C07 (failures are surfaced), C08
    (emission is atomic) and C18 (permanent bindings). *)
From Coq Require Import Lia.
From Sheens Require Import Model.Step Model.Action Spec.WalkSpec Proofs.SndBasics Proofs.StepFacts.

(** * Permanent bindings (C18) *)

Lemma lookup_restore_other k perm : forall b,
  ~ In k (map fst perm) -> lookup k (restore perm b) = lookup k b.
Proof.
  unfold restore. induction perm as [|[k1 v1] r IH]; intros b Hn; [reflexivity|].
  cbn [fold_left fst snd]. rewrite IH.
  - rewrite lookup_bset. destruct (String.eqb k k1) eqn:E; [|reflexivity].
    apply String.eqb_eq in E. subst. exfalso. apply Hn. left. reflexivity.
  - intros H. apply Hn. right. exact H.
Qed.

Lemma lookup_restore_in k v perm : forall b,
  NoDup (map fst perm) -> In (k, v) perm -> lookup k (restore perm b) = Some v.
Proof.
  unfold restore. induction perm as [|[k1 v1] r IH]; intros b Hnd Hin; [destruct Hin|].
  cbn [fold_left fst snd]. inversion Hnd as [|? ? Hk1 Hr]. subst.
  destruct Hin as [E | Hin].
  - inversion E. subst k1 v1.
    change (fold_left _ r (bset k v b)) with (restore r (bset k v b)).
    rewrite lookup_restore_other by exact Hk1.
    rewrite lookup_bset, String.eqb_refl. reflexivity.
  - apply IH; assumption.
Qed.

Lemma nodup_keys_NoDup ks : nodup_keys ks = true -> NoDup ks.
Proof.
  induction ks as [|k r IH]; cbn; intros H; [constructor|].
  apply andb_true_iff in H. destruct H as [H1 H2]. constructor; [|apply IH; exact H2].
  intros Hin. apply negb_true_iff in H1.
  assert (existsb (String.eqb k) r = true); [|congruence].
  apply existsb_exists. exists k. split; [exact Hin | apply String.eqb_refl].
Qed.

Lemma NoDup_map_filter {A B} (f : A -> B) (p : A -> bool) l :
  NoDup (map f l) -> NoDup (map f (filter p l)).
Proof.
  induction l as [|x r IH]; cbn; intros H; [constructor|].
  inversion H as [|? ? Hx Hr]. subst. destruct (p x); cbn; [|apply IH; exact Hr].
  constructor; [|apply IH; exact Hr].
  intros Hin. apply Hx. apply in_map_iff in Hin. destruct Hin as [y [Hy Hin]].
  apply filter_In in Hin. apply in_map_iff. exists y. tauto.
Qed.

Lemma lookup_In k v bs : lookup k bs = Some v -> In (k, v) bs.
Proof.
  induction bs as [|[k1 v1] r IH]; cbn; [discriminate|].
  destruct (String.eqb k k1) eqn:E.
  - apply String.eqb_eq in E. intros H. inversion H. subst. left. reflexivity.
  - intros H. right. exact (IH H).
Qed.

Section Engine.
  Variable action : Type.
  Variable run : action -> option bindings -> exec_raw.

  (** whatever the wrapped function deleted, overwrote or returned instead:
      every permanent binding present beforehand is present, with its
      previous value, in the bindings an execution returns *)
  Theorem func_exec_restores a bs out em err k v :
    func_exec action run a bs = ((Some out, em), err) ->
    nodup_keys (map fst (copy_bs bs)) = true ->
    is_permanent k = true -> lookup k (copy_bs bs) = Some v ->
    lookup k out = Some v.
  Proof.
    unfold func_exec. intros H Hnd Hp Hl.
    destruct (xr_exe (run a bs)) as [[ob em']|]; [|discriminate].
    destruct ob as [b|]; [|discriminate]. cbn in H. inversion H. subst out em' err.
    apply lookup_restore_in.
    - unfold permanent_of. change exp_permanent_bindings with true. cbv iota.
      apply NoDup_map_filter. apply nodup_keys_NoDup. exact Hnd.
    - unfold permanent_of. change exp_permanent_bindings with true. cbv iota.
      apply filter_In. split; [apply lookup_In; exact Hl | exact Hp].
  Qed.

  (** an execution never invents an Execution: no result from the wrapped
      function means no bindings and no emissions *)
  Lemma func_exec_none a bs :
    xr_exe (run a bs) = None -> func_exec action run a bs = ((None, []), xr_err (run a bs)).
  Proof. unfold func_exec. intros ->. reflexivity. Qed.

  Variable s : spec action.
  Notation step := (step action run).
  Notation walk_stride := (walk_stride action run s).

  (** * What a stride emitted (C08) *)

  (** the emissions of the node's action, as the engine sees them *)
  Definition action_emission (st : state) : list json :=
    match find_node (st_node st) (sp_nodes s) with
    | Some n =>
        match nd_action n with
        | Some a => snd (fst (func_exec action run a (st_bs st)))
        | None => []
        end
    | None => []
    end.

  (** a stride reports exactly the emissions of its node's action - nothing
      from guards, nothing invented; in particular nothing when the action
      produced no Execution *)
  Theorem step_emitted st pending sd :
    so_stride (step s st pending) = Some sd -> sd_emitted sd = action_emission st.
  Proof.
    rewrite step_unfold. unfold action_emission.
    destruct (negb (sp_compiled s)); [discriminate|].
    destruct (find_node (st_node st) (sp_nodes s)) as [n|]; [|discriminate].
    cbv zeta.
    destruct (negb _ && nd_uncompiled n); [discriminate|].
    destruct (_ && is_consumer action (nd_branching n)); [discriminate|].
    destruct (nd_action n) as [a|].
    - destruct (func_exec action run a (st_bs st)) as [[ob em] err]. cbn [fst snd].
      destruct (negb err).
      + apply continue_emitted.
      + destruct (negb (sp_err_branches s)).
        * destruct (String.eqb (sp_err_node s) ""); [discriminate|].
          intros H. inversion H. reflexivity.
        * apply continue_emitted.
    - apply continue_emitted.
  Qed.

  Theorem walk_stride_emitted st p :
    sd_emitted (fst (walk_stride st p)) = [] \/
    sd_emitted (fst (walk_stride st p)) = action_emission st.
  Proof.
    unfold Step.walk_stride.
    destruct (so_stride (step s st (peek p))) as [sd|] eqn:Es.
    - right. pose proof (step_emitted _ _ _ Es) as H.
      destruct (so_err _); [destruct (String.eqb _ _)|]; cbn; exact H.
    - left. destruct (so_err _); [destruct (String.eqb _ _)|]; reflexivity.
  Qed.

  (** * Failures are surfaced (C07) *)

  Lemma lookup_error_bindings base text from :
    lookup "error" (error_bindings base text from) = Some text /\
    lookup "lastNode" (error_bindings base text from) = Some (JStr (st_node from)) /\
    lookup "lastBindings" (error_bindings base text from) = Some (JObj (copy_bs (st_bs from))).
  Proof. unfold error_bindings. rewrite !lookup_bset. cbn. auto. Qed.

  (** every step error inside a walk becomes a transition to the error node
      whose bindings carry the error text, the node at which it occurred and
      the bindings at that point (unless the machine is at the error node) *)
  Theorem walk_error_surfaced st p e :
    so_err (step s st (peek p)) = Some e -> st_node st <> error_node_literal ->
    exists bs', sd_to (fst (walk_stride st p)) = Some (mk_state error_node_literal (Some bs')) /\
                lookup "error" bs' = Some err_text /\
                lookup "lastNode" bs' = Some (JStr (st_node st)) /\
                lookup "lastBindings" bs' = Some (JObj (copy_bs (st_bs st))).
  Proof.
    intros He Hn. unfold Step.walk_stride. rewrite He.
    apply String.eqb_neq in Hn. rewrite Hn. cbn.
    eexists. split; [reflexivity|]. apply lookup_error_bindings.
  Qed.

  (** an action node that follows no branch goes to the error node, with the diagnostics *)
  Theorem action_no_branch_surfaced n st pending bs em sd :
    so_stride (continue_ action run n st pending true bs em) = Some sd ->
    (exists st', sd_to sd = Some (copy_state st') /\
                 fst (fst (consider action run (nd_branching n) bs pending)) = TTo st') \/
    (exists bs', sd_to sd = Some (mk_state error_node_literal (Some bs')) /\
                 lookup "error" bs' = Some no_branch_text /\
                 lookup "lastNode" bs' = Some (JStr (st_node st)) /\
                 lookup "lastBindings" bs' = Some (JObj (copy_bs (st_bs st)))).
  Proof.
    unfold continue_.
    destruct (consider action run (nd_branching n) bs pending) as [[tr consumer] amb].
    destruct tr; cbn; intros H; inversion H; cbn.
    - right. eexists. split; [reflexivity|]. apply lookup_error_bindings.
    - left. eexists. split; reflexivity.
    - right. eexists. split; [reflexivity|]. apply lookup_error_bindings.
  Qed.

  (** an action failure is a returned error, a transition to the designated
      node carrying the error, or error bindings handed to the branches *)
  Theorem action_error_routed st pending n a r :
    sp_compiled s = true -> find_node (st_node st) (sp_nodes s) = Some n ->
    nd_action n = Some a -> is_consumer action (nd_branching n) = false ->
    func_exec action run a (st_bs st) = (r, true) ->
    let ebs := bset "error" err_text (bset "actionError" err_text (copy_bs (st_bs st))) in
    lookup "error" ebs = Some err_text /\ lookup "actionError" ebs = Some err_text /\
    (forall k v, k <> "error" -> k <> "actionError" ->
                 lookup k (copy_bs (st_bs st)) = Some v -> lookup k ebs = Some v) /\
    match sp_err_branches s, String.eqb (sp_err_node s) "" with
    | false, true => step s st pending = mk_step_out None (Some EAction) false
    | false, false =>
        step s st pending =
        mk_step_out (Some (mk_stride (copy_state st) (Some (mk_state (sp_err_node s) (Some ebs))) None (snd r)))
                    None false
    | true, _ => step s st pending = continue_ action run n st pending true (Some ebs) (snd r)
    end.
  Proof.
    intros Hc Hn Ha Hnc Hf ebs. unfold ebs. rewrite !lookup_bset. cbn.
    split; [reflexivity|]. split; [reflexivity|]. split.
    - intros k v H1 H2 Hl. rewrite !lookup_bset.
      apply String.eqb_neq in H1, H2. rewrite H1, H2. exact Hl.
    - rewrite step_unfold, Hc, Hn. cbn [negb]. cbv zeta. rewrite Ha, Hnc. cbn [negb andb].
      rewrite Hf. destruct r as [ob em]. cbn [negb snd].
      destruct (sp_err_branches s); cbn [negb]; [reflexivity|].
      destruct (String.eqb (sp_err_node s) ""); reflexivity.
  Qed.
End Engine.

(** * The ECMAScript rendering of the action language (C08) *)

(** a failing script returns no Execution: whatever it emitted before
    failing - for every prefix of emissions and every way of failing - is
    dropped with it *)
Theorem run_js_failure_has_no_execution p bs :
  xr_err (run_js p bs) = true -> xr_exe (run_js p bs) = None.
Proof.
  unfold run_js. destruct (run_ops (pg_ops p) bs []) as [[b em] failed].
  destruct failed; [reflexivity|]. destruct (pg_term p); cbn; intros H; try discriminate; try reflexivity.
  destruct b as [bs'|]; [|reflexivity]. destruct (lookup k bs'); [destruct (json_eqb _ _)|]; discriminate.
Qed.

Theorem js_failure_emits_nothing p bs :
  xr_err (run_js p bs) = true ->
  func_exec act run_act (Js p) bs = ((None, []), true).
Proof.
  intros H. unfold func_exec. cbn [run_act].
  rewrite (run_js_failure_has_no_execution p bs H), H. reflexivity.
Qed.

(** the emissions of a successful script are its [AEmit]s, in order *)
Fixpoint emits_of (ops : list aop) (b : bindings) : list json :=
  match ops with
  | [] => []
  | AEmit j :: r => j :: emits_of r b
  | AEmitBinding k :: r =>
      JObj [("got", match lookup k b with Some v => v | None => JNull end)] :: emits_of r b
  | ASet k j :: r => emits_of r (bset k j b)
  | ACopy dst src :: r =>
      match lookup src b with Some v => emits_of r (bset dst v b) | None => emits_of r b end
  | ADel k :: r => emits_of r (bremove k b)
  | ADelAll :: r => emits_of r []
  | APoke k :: r =>
      match lookup k b with Some v => emits_of r (bset k (poke v) b) | None => emits_of r b end
  | ACountGlobal k :: r => emits_of r (bset k (JNum 4) b)
  end.

Lemma run_ops_some ops : forall b em,
  exists b', run_ops ops (Some b) em = (Some b', em ++ emits_of ops b, false).
Proof.
  induction ops as [|op r IH]; intros b em; cbn.
  - exists b. rewrite app_nil_r. reflexivity.
  - destruct op; cbn.
    + destruct (IH b (em ++ [j])) as [b' ->]. exists b'. rewrite <- app_assoc. reflexivity.
    + destruct (IH b (em ++ [JObj [("got", match lookup k b with Some v => v | None => JNull end)]]))
        as [b' ->]. exists b'. rewrite <- app_assoc. reflexivity.
    + apply IH.
    + destruct (lookup src b); apply IH.
    + apply IH.
    + apply IH.
    + destruct (lookup k b); apply IH.
    + apply IH.
Qed.

Theorem js_success_emits_in_order p b :
  xr_err (run_js p (Some b)) = false ->
  exists ob, xr_exe (run_js p (Some b)) = Some (ob, emits_of (pg_ops p) b).
Proof.
  unfold run_js. destruct (run_ops_some (pg_ops p) b []) as [b' ->]. cbn [app].
  destruct (pg_term p); cbn; intros H; try discriminate; try (eexists; reflexivity).
  destruct (lookup k b'); [destruct (json_eqb _ _)|]; eexists; reflexivity.
Qed.
