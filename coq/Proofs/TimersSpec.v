(** The abstract timer service satisfies the statements of C17, in every
    reachable state, for both add policies (an inductive invariant). *)
From Coq Require Import ZArith List Bool Arith Lia.
From Sheens Require Import Spec.TimerSpec Proofs.TimersBase.
Import ListNotations.
Local Open Scope Z_scope.

Record AInv (a : astate) : Prop := mkAInv {
  ai_ids : NoDup (map tid (apending a));
  ai_kn : NoDup (map tg (aknown a));
  ai_pk : forall e, In e (apending a) -> In e (aknown a);
  ai_fk : forall g, In g (afiring a) ->
                    exists e, In e (aknown a) /\ tg e = g /\ tdue e <= aclock a;
  ai_fnd : NoDup (afiring a);
  ai_rnd : NoDup (map fst (areported a));
  ai_rk : forall g t, In (g, t) (areported a) ->
                      exists e, In e (aknown a) /\ tg e = g /\ tdue e <= t;
  ai_ck : forall g, In g (acancelled a) -> In g (map tg (aknown a));
  ai_xp : forall e, In e (apending a) ->
                    ~ In (tg e) (acancelled a) /\ ~ In (tg e) (afiring a) /\
                    ~ In (tg e) (map fst (areported a));
  ai_xf : forall g, In g (afiring a) ->
                    ~ In g (acancelled a) /\ ~ In g (map fst (areported a));
  ai_xc : forall g, In g (acancelled a) -> ~ In g (map fst (areported a));
  ai_cover : forall e, In e (aknown a) ->
                       In e (apending a) \/ In (tg e) (acancelled a) \/
                       In (tg e) (afiring a) \/ In (tg e) (map fst (areported a))
}.

Lemma ainv_init : AInv ainit.
Proof.
  constructor; simpl; try (constructor; fail); try (intros; contradiction).
Qed.

(** a generation of a known timer *)
Lemma known_gen : forall a e, In e (aknown a) -> In (tg e) (map tg (aknown a)).
Proof. intros a e H. apply in_map. exact H. Qed.

Lemma reported_known : forall a g, AInv a -> In g (map fst (areported a)) -> In g (map tg (aknown a)).
Proof.
  intros a g I H. apply in_map_iff in H. destruct H as [[g' t] [Hg Hi]]. simpl in Hg. subst g'.
  destruct (ai_rk a I g t Hi) as [e [He [Hge _]]]. subst g. apply in_map. exact He.
Qed.

Lemma firing_known : forall a g, AInv a -> In g (afiring a) -> In g (map tg (aknown a)).
Proof.
  intros a g I H. destruct (ai_fk a I g H) as [e [He [Hge _]]]. subst g. apply in_map. exact He.
Qed.

(** two pending timers with the same generation are the same timer *)
Lemma pending_gen_inj : forall a e1 e2, AInv a ->
  In e1 (apending a) -> In e2 (apending a) -> tg e1 = tg e2 -> e1 = e2.
Proof.
  intros a e1 e2 I H1 H2 Hg.
  apply (nodup_key_inj tm tg (aknown a) e1 e2 (ai_kn a I)); auto using (ai_pk a I).
Qed.

Lemma known_gen_inj : forall a e1 e2, AInv a ->
  In e1 (aknown a) -> In e2 (aknown a) -> tg e1 = tg e2 -> e1 = e2.
Proof.
  intros a e1 e2 I H1 H2 Hg. apply (nodup_key_inj tm tg (aknown a) e1 e2 (ai_kn a I)); assumption.
Qed.

(** * Preservation, label by label *)

Lemma ainv_tick : forall a t, AInv a ->
  AInv (mkA (apending a) (afiring a) (Z.max (aclock a) t) (aknown a) (areported a) (acancelled a)).
Proof.
  intros a t I. destruct I. constructor; simpl; auto.
  intros g Hg. destruct (ai_fk0 g Hg) as [e [H1 [H2 H3]]]. exists e. repeat split; auto. lia.
Qed.

(** accepting a new timer [e] (fresh generation) after removing the entries
    with its id, whose generations [gone] are recorded as cancelled *)
Lemma ainv_accept_free : forall a e,
  AInv a -> ~ In (tg e) (map tg (aknown a)) ->
  find_id (tid e) (apending a) = None ->
  AInv (a_accept a e (apending a) (acancelled a)).
Proof.
  intros a e I Hfresh Hfree. pose proof I as I0. destruct I.
  assert (Hnp : forall e', In e' (apending a) -> tid e' <> tid e).
  { intros e' He'. apply (find_id_none (tid e) (apending a) Hfree e' He'). }
  constructor; unfold a_accept; simpl.
  - rewrite map_app. simpl. apply nodup_snoc; [exact ai_ids0|].
    intros Hi. apply in_map_iff in Hi. destruct Hi as [e' [H1 H2]]. exact (Hnp e' H2 H1).
  - rewrite map_app. simpl. apply nodup_snoc; assumption.
  - intros e' H. apply in_app_or in H. apply in_or_app. destruct H as [H|H]; [left; auto | right; exact H].
  - intros g Hg. destruct (ai_fk0 g Hg) as [e' [H1 [H2 H3]]]. exists e'. repeat split; auto.
    apply in_or_app. left. exact H1.
  - exact ai_fnd0.
  - exact ai_rnd0.
  - intros g t Hg. destruct (ai_rk0 g t Hg) as [e' [H1 [H2 H3]]]. exists e'. repeat split; auto.
    apply in_or_app. left. exact H1.
  - intros g Hg. rewrite map_app. apply in_or_app. left. auto.
  - intros e' H. apply in_app_or in H. destruct H as [H|[H|[]]].
    + auto.
    + subst e'. repeat split; intros Hx; apply Hfresh.
      * apply ai_ck0. exact Hx.
      * apply (firing_known a _ I0 Hx).
      * apply (reported_known a _ I0 Hx).
  - exact ai_xf0.
  - exact ai_xc0.
  - intros e' H. apply in_app_or in H. destruct H as [H|[H|[]]].
    + destruct (ai_cover0 e' H) as [H1|H1]; [left; apply in_or_app; left; exact H1 | right; exact H1].
    + subst e'. left. apply in_or_app. right. left. reflexivity.
Qed.

Lemma ainv_accept_replace : forall a e old,
  AInv a -> ~ In (tg e) (map tg (aknown a)) ->
  find_id (tid e) (apending a) = Some old ->
  AInv (a_accept a e (rm_id (tid e) (apending a)) (tg old :: acancelled a)).
Proof.
  intros a e old I Hfresh Hold. pose proof I as I0. destruct I.
  pose proof (find_id_some _ _ _ Hold) as [Hoin Hoid].
  assert (Hone : forall e', In e' (apending a) -> tid e' = tid e -> e' = old).
  { intros e' H1 H2. apply (find_id_unique (tid e) (apending a) old e' ai_ids0 Hold H1 H2). }
  assert (Hog : tg old <> tg e).
  { intros Heq. apply Hfresh. rewrite <- Heq. apply in_map. apply ai_pk0. exact Hoin. }
  constructor; unfold a_accept; simpl.
  - rewrite map_app. simpl. apply nodup_snoc.
    + unfold rm_id. apply nodup_map_filter. exact ai_ids0.
    + intros Hi. apply in_map_iff in Hi. destruct Hi as [e' [H1 H2]].
      apply in_rm_id in H2. destruct H2 as [_ H2]. exact (H2 H1).
  - rewrite map_app. simpl. apply nodup_snoc; assumption.
  - intros e' H. apply in_app_or in H. apply in_or_app. destruct H as [H|H]; [left | right; exact H].
    apply in_rm_id in H. destruct H as [H _]. auto.
  - intros g Hg. destruct (ai_fk0 g Hg) as [e' [H1 [H2 H3]]]. exists e'. repeat split; auto.
    apply in_or_app. left. exact H1.
  - exact ai_fnd0.
  - exact ai_rnd0.
  - intros g t Hg. destruct (ai_rk0 g t Hg) as [e' [H1 [H2 H3]]]. exists e'. repeat split; auto.
    apply in_or_app. left. exact H1.
  - intros g Hg. rewrite map_app. apply in_or_app. left. destruct Hg as [Hg|Hg].
    + subst g. apply in_map. apply ai_pk0. exact Hoin.
    + auto.
  - intros e' H. apply in_app_or in H. destruct H as [H|[H|[]]].
    + apply in_rm_id in H. destruct H as [H Hne].
      destruct (ai_xp0 e' H) as [X1 [X2 X3]]. repeat split; auto.
      intros [Hx|Hx]; [|exact (X1 Hx)].
      apply Hne. assert (e' = old) as ->.
      { apply (pending_gen_inj a e' old I0 H Hoin). congruence. }
      exact Hoid.
    + subst e'. repeat split; intros Hx.
      * destruct Hx as [Hx|Hx]; [exact (Hog Hx)|]. apply Hfresh. apply ai_ck0. exact Hx.
      * apply Hfresh. apply (firing_known a _ I0 Hx).
      * apply Hfresh. apply (reported_known a _ I0 Hx).
  - intros g Hg. destruct (ai_xf0 g Hg) as [X1 X2]. split; [|exact X2].
    intros [Hx|Hx]; [|exact (X1 Hx)]. subst g.
    destruct (ai_xp0 old Hoin) as [_ [Y _]]. exact (Y Hg).
  - intros g [Hg|Hg].
    + subst g. destruct (ai_xp0 old Hoin) as [_ [_ Y]]. exact Y.
    + auto.
  - intros e' H. apply in_app_or in H. destruct H as [H|[H|[]]].
    + destruct (ai_cover0 e' H) as [H1|[H1|H1]].
      * destruct (Nat.eq_dec (tid e') (tid e)) as [Heq|Hne].
        -- right. left. left. rewrite (Hone e' H1 Heq). reflexivity.
        -- left. apply in_or_app. left. apply in_rm_id. split; assumption.
      * right. left. right. exact H1.
      * right. right. exact H1.
    + subst e'. left. apply in_or_app. right. left. reflexivity.
Qed.

Lemma ainv_rem : forall a i old,
  AInv a -> find_id i (apending a) = Some old ->
  AInv (mkA (rm_id i (apending a)) (afiring a) (aclock a) (aknown a) (areported a)
            (tg old :: acancelled a)).
Proof.
  intros a i old I Hold. pose proof I as I0. destruct I.
  pose proof (find_id_some _ _ _ Hold) as [Hoin Hoid].
  assert (Hone : forall e', In e' (apending a) -> tid e' = i -> e' = old).
  { intros e' H1 H2. apply (find_id_unique i (apending a) old e' ai_ids0 Hold H1 H2). }
  constructor; simpl; auto.
  - unfold rm_id. apply nodup_map_filter. exact ai_ids0.
  - intros e' H. apply in_rm_id in H. destruct H as [H _]. auto.
  - intros g [Hg|Hg]; [|auto]. subst g. apply in_map. apply ai_pk0. exact Hoin.
  - intros e' H. apply in_rm_id in H. destruct H as [H Hne].
    destruct (ai_xp0 e' H) as [X1 [X2 X3]]. repeat split; auto.
    intros [Hx|Hx]; [|exact (X1 Hx)].
    apply Hne. assert (e' = old) as ->.
    { apply (pending_gen_inj a e' old I0 H Hoin). congruence. }
    exact Hoid.
  - intros g Hg. destruct (ai_xf0 g Hg) as [X1 X2]. split; [|exact X2].
    intros [Hx|Hx]; [|exact (X1 Hx)]. subst g.
    destruct (ai_xp0 old Hoin) as [_ [Y _]]. exact (Y Hg).
  - intros g [Hg|Hg].
    + subst g. destruct (ai_xp0 old Hoin) as [_ [_ Y]]. exact Y.
    + auto.
  - intros e' H. destruct (ai_cover0 e' H) as [H1|[H1|H1]].
    + destruct (Nat.eq_dec (tid e') i) as [Heq|Hne].
      * right. left. left. rewrite (Hone e' H1 Heq). reflexivity.
      * left. apply in_rm_id. split; assumption.
    + right. left. right. exact H1.
    + right. right. exact H1.
Qed.

Lemma ainv_fire : forall a g e,
  AInv a -> find_gen g (apending a) = Some e -> tdue e <= aclock a ->
  AInv (mkA (rm_gen g (apending a)) (g :: afiring a) (aclock a) (aknown a) (areported a)
            (acancelled a)).
Proof.
  intros a g e I He Hdue. pose proof I as I0. destruct I.
  pose proof (find_gen_some _ _ _ He) as [Hein Heg].
  destruct (ai_xp0 e Hein) as [E1 [E2 E3]]. rewrite Heg in E1, E2, E3.
  constructor; simpl; auto.
  - unfold rm_gen. apply nodup_map_filter. exact ai_ids0.
  - intros e' H. apply in_rm_gen in H. destruct H as [H _]. auto.
  - intros g' [Hg|Hg]; [|auto]. subst g'. exists e. repeat split; auto.
  - constructor; assumption.
  - intros e' H. apply in_rm_gen in H. destruct H as [H Hne].
    destruct (ai_xp0 e' H) as [X1 [X2 X3]]. repeat split; auto.
    intros [Hx|Hx]; [exact (Hne (eq_sym Hx)) | exact (X2 Hx)].
  - intros g' [Hg|Hg]; [subst g'; split; assumption | auto].
  - intros e' H. destruct (ai_cover0 e' H) as [H1|[H1|[H1|H1]]].
    + destruct (Nat.eq_dec (tg e') g) as [Heq|Hne].
      * right. right. left. left. symmetry. exact Heq.
      * left. apply in_rm_gen. split; assumption.
    + right. left. exact H1.
    + right. right. left. right. exact H1.
    + right. right. right. exact H1.
Qed.

Lemma ainv_report : forall a g,
  AInv a -> In g (afiring a) ->
  AInv (mkA (apending a) (rmn g (afiring a)) (aclock a) (aknown a) ((g, aclock a) :: areported a)
            (acancelled a)).
Proof.
  intros a g I Hg. pose proof I as I0. destruct I.
  destruct (ai_xf0 g Hg) as [F1 F2].
  constructor; simpl; auto.
  - intros g' H. apply in_rmn in H. destruct H as [H _]. auto.
  - unfold rmn. apply NoDup_filter. exact ai_fnd0.
  - constructor; assumption.
  - intros g' t [H|H].
    + inversion H; subst. destruct (ai_fk0 g' Hg) as [e [H1 [H2 H3]]]. exists e. auto.
    + auto.
  - intros e H. destruct (ai_xp0 e H) as [X1 [X2 X3]]. repeat split; auto.
    + intros Hx. apply in_rmn in Hx. destruct Hx as [Hx _]. exact (X2 Hx).
    + intros [Hx|Hx]; [|exact (X3 Hx)]. apply X2. rewrite <- Hx. exact Hg.
  - intros g' H. apply in_rmn in H. destruct H as [H Hne].
    destruct (ai_xf0 g' H) as [X1 X2]. split; auto.
    intros [Hx|Hx]; [exact (Hne (eq_sym Hx)) | exact (X2 Hx)].
  - intros g' H [Hx|Hx]; [subst g'; exact (F1 H) | exact (ai_xc0 g' H Hx)].
  - intros e H. destruct (ai_cover0 e H) as [H1|[H1|[H1|H1]]].
    + left. exact H1.
    + right. left. exact H1.
    + destruct (Nat.eq_dec (tg e) g) as [Heq|Hne].
      * right. right. right. left. symmetry. exact Heq.
      * right. right. left. apply in_rmn. split; assumption.
    + right. right. right. right. exact H1.
Qed.

Theorem ainv_step : forall p a l a', AInv a -> astep p a l = Some a' -> AInv a'.
Proof.
  intros p a l a' I H. destruct l as [v|g]; [destruct v as [t|g i d ok|i ok|g|ids|]|]; simpl in H.
  - inversion H; subst. apply ainv_tick. exact I.
  - destruct (memn g (map tg (aknown a))) eqn:Hm; [discriminate|].
    apply memn_false in Hm.
    destruct (find_id i (apending a)) as [old|] eqn:Hf.
    + destruct (replaces p).
      * destruct ok; [|discriminate]. inversion H; subst.
        apply (ainv_accept_replace a (mkTm g i (aclock a + d)) old I Hm Hf).
      * destruct ok; [discriminate|]. inversion H; subst. exact I.
    + destruct ok; [|discriminate]. inversion H; subst.
      apply (ainv_accept_free a (mkTm g i (aclock a + d)) I Hm Hf).
  - destruct (find_id i (apending a)) as [old|] eqn:Hf.
    + destruct ok; [|discriminate]. inversion H; subst. apply ainv_rem; assumption.
    + destruct ok; [discriminate|]. inversion H; subst. exact I.
  - destruct (memn g (afiring a)) eqn:Hm; [|discriminate]. inversion H; subst.
    apply ainv_report; [exact I | apply memn_in; exact Hm].
  - destruct (ids_eqb ids (map tid (apending a))); [|discriminate]. inversion H; subst. exact I.
  - destruct (replaces p); [|discriminate]. destruct (afiring a); [|discriminate].
    inversion H; subst. exact I.
  - destruct (find_gen g (apending a)) as [e|] eqn:Hf; [|discriminate].
    destruct (tdue e <=? aclock a) eqn:Hd; [|discriminate]. inversion H; subst.
    apply (ainv_fire a g e I Hf). apply Z.leb_le. exact Hd.
Qed.

Theorem ainv_exec : forall p tr a a', AInv a -> aexec p a tr = Some a' -> AInv a'.
Proof.
  intros p tr. induction tr as [|l r IH]; simpl; intros a a' I H.
  - inversion H; subst. exact I.
  - destruct (astep p a l) as [a1|] eqn:Hs; [|discriminate].
    apply (IH a1 a'); [apply (ainv_step p a l a1 I Hs) | exact H].
Qed.

(** * The statements of C17 for the abstract service *)
Theorem spec_at_most_once : forall a, AInv a -> a_at_most_once a.
Proof. intros a I. exact (ai_rnd a I). Qed.

Theorem spec_never_early : forall a, AInv a -> a_never_early a.
Proof. intros a I g t H. exact (ai_rk a I g t H). Qed.

Theorem spec_not_after_cancel : forall a, AInv a -> a_not_after_cancel a.
Proof.
  intros a I g H. split; [exact (ai_xc a I g H)|].
  intros Hf. destruct (ai_xf a I g Hf) as [X _]. exact (X H).
Qed.

Theorem spec_pending_exact : forall a, AInv a -> a_pending_exact a.
Proof.
  intros a I e. split.
  - intros H. destruct (ai_xp a I e H) as [X1 [X2 X3]]. repeat split; auto. exact (ai_pk a I e H).
  - intros [H [X1 [X2 X3]]]. destruct (ai_cover a I e H) as [Y|[Y|[Y|Y]]]; tauto.
Qed.

Theorem spec_ids_unique : forall a, AInv a -> st_ids_unique (apending a).
Proof. intros a I. exact (ai_ids a I). Qed.

(** progress: a pending timer that is due can fire, a fired one can hand
    over its message; nothing but a cancel or a replace removes a timer
    from the pending set without firing it *)
Theorem spec_fire_enabled : forall p a e, AInv a ->
  In e (apending a) -> tdue e <= aclock a ->
  exists a1 a2, astep p a (AFire (tg e)) = Some a1 /\
                astep p a1 (AVis (VReport (tg e))) = Some a2 /\
                In (tg e, aclock a) (areported a2) /\ ~ In e (apending a2).
Proof.
  intros p a e I He Hd.
  assert (Hf : find_gen (tg e) (apending a) = Some e).
  { destruct (find_gen (tg e) (apending a)) as [e'|] eqn:Hf.
    - apply find_gen_some in Hf. destruct Hf as [H1 H2].
      f_equal. apply (pending_gen_inj a e' e I H1 He H2).
    - exfalso. apply (find_gen_none _ _ Hf e He). reflexivity. }
  simpl. rewrite Hf. apply Z.leb_le in Hd. rewrite Hd.
  eexists. eexists. split; [reflexivity|]. simpl.
  rewrite Nat.eqb_refl. simpl. split; [reflexivity|]. simpl. split; [left; reflexivity|].
  intros Hx. apply in_rm_gen in Hx. destruct Hx as [_ Hx]. apply Hx. reflexivity.
Qed.
