(** A bound value that contains no variable is matched as a pattern, exactly
    as before the literal treatment of bound variable names. *)
From Sheens Require Import Model.Match.

Lemma bound_match_var_free rec b f bs :
  var_free b = true -> bound_match rec b f bs = rec b f bs.
Proof.
  destruct b as [| | |t| |]; try reflexivity.
  cbn [var_free bound_match]. intros H. apply Bool.negb_true_iff in H. rewrite H. reflexivity.
Qed.
