(** The set of errors the correspondence accepts from Go ([possible_errs] of
    Corr/CompileCorr.v, needed because Go visits the node map in random
    order) is tied to [compile]: it is empty exactly when [compile]
    succeeds, and it contains the error [compile] reports. *)
From Sheens Require Import Corr.CompileCorr Proofs.CompileBase.

Lemma mapM_errs_inl : forall A B (f : A -> cres B) l e,
  mapM f l = inl e -> In e (flat_map (fun x => match f x with inl e => [e] | inr _ => [] end) l).
Proof.
  induction l as [| x r IH]; intros e H; simpl in H; [discriminate |].
  simpl. apply in_or_app. destruct (f x) as [e1 | y].
  - inversion H; subst. left. left. reflexivity.
  - destruct (mapM f r) as [e2 | ys] eqn:E; [| discriminate]. inversion H; subst. right. apply IH. reflexivity.
Qed.

Lemma mapM_errs_inr : forall A B (f : A -> cres B) l l',
  mapM f l = inr l' -> flat_map (fun x => match f x with inl e => [e] | inr _ => [] end) l = [].
Proof.
  induction l as [| x r IH]; intros l' H; simpl in H; [reflexivity |].
  simpl. destruct (f x) as [e1 | y]; [discriminate |].
  destruct (mapM f r) as [e2 | ys] eqn:E; [discriminate |]. simpl. exact (IH ys eq_refl).
Qed.

Theorem possible_errs_failure : forall I force a e,
  compile I force a = inl e -> In e (possible_errs I force a).
Proof.
  intros I force a e H. unfold compile in H. unfold possible_errs.
  destruct (parse_patterns a) as [e0 | a1]; simpl in H; [inversion H; left; reflexivity |].
  destruct (compile_opt I force (ad_boot_src a1) (ad_boot a1)) as [e0 | b]; simpl in H; [inversion H; left; reflexivity |].
  destruct (compile_opt I force (ad_toob_src a1) (ad_toob a1)) as [e0 | t]; simpl in H; [inversion H; left; reflexivity |].
  match type of H with
  | cbind (mapM ?f ?l) _ = _ => destruct (mapM f l) as [e0 | ns'] eqn:E; simpl in H; [| discriminate]
  end.
  inversion H; subst. exact (mapM_errs_inl _ _ _ _ _ E).
Qed.

Theorem possible_errs_success : forall I force a a',
  compile I force a = inr a' -> possible_errs I force a = [].
Proof.
  intros I force a a' H. unfold compile in H. unfold possible_errs.
  destruct (parse_patterns a) as [e0 | a1]; simpl in H; [discriminate |].
  destruct (compile_opt I force (ad_boot_src a1) (ad_boot a1)) as [e0 | b]; simpl in H; [discriminate |].
  destruct (compile_opt I force (ad_toob_src a1) (ad_toob a1)) as [e0 | t]; simpl in H; [discriminate |].
  match type of H with
  | cbind (mapM ?f ?l) _ = _ => destruct (mapM f l) as [e0 | ns'] eqn:E; simpl in H; [discriminate |]
  end.
  exact (mapM_errs_inr _ _ _ _ _ E).
Qed.
