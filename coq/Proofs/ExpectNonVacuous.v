(** C19: a pass is explained by a segmentation in which every step was
    given at least one JSON line (no step is vacuous), and the boolean oracle
    decides exactly that. *)
From Sheens Require Import Spec.ExpectSpec Proofs.ExpectProofs.
From Coq Require Import Lia.

Lemma sound_nv_from_iff :
  forall steps chunks pending,
    sound_nv_from steps chunks pending = true <->
    exists segs, causal_from pending segs chunks /\
                 Forall2 (fun outs seg => step_ok outs seg /\ has_json seg = true) steps segs.
Proof.
  intros steps. induction steps as [|outs more IH]; intros chunks pending.
  - simpl. split; [| reflexivity]. intros _. exists []. split; [| constructor].
    intros k Hk. simpl in Hk. assert (k = 0) by lia. subst k.
    exists pending. simpl. rewrite app_nil_r. reflexivity.
  - simpl. rewrite existsb_exists. split.
    + intros [[seg rest] [Hin H]]. simpl in H. apply andb_true_iff in H. destruct H as [H Hrec].
      apply andb_true_iff in H. destruct H as [Hok Hj].
      apply splits_iff in Hin. apply step_ok_b_iff in Hok. apply IH in Hrec.
      destruct Hrec as [segs' [Hc Hf]]. exists (seg :: segs'). split.
      * eapply causal_from_cons; eauto.
      * constructor; [split; assumption | assumption].
    + intros [segs [Hc Hf]]. inversion Hf as [| o1 seg l1 segs' [Hok Hj] Hf' ]; subst.
      apply causal_from_inv in Hc. destruct Hc as [rest [Hsplit Hc']].
      exists (seg, rest). split; [apply splits_iff; exact Hsplit |].
      simpl. apply andb_true_iff. split; [apply andb_true_iff; split |].
      * apply step_ok_b_iff. exact Hok.
      * exact Hj.
      * apply IH. exists segs'. split; assumption.
Qed.

Theorem session_sound_nv_b_iff :
  forall steps chunks, session_sound_nv_b steps chunks = true <-> session_sound_nv steps chunks.
Proof.
  intros steps chunks. unfold session_sound_nv_b. rewrite sound_nv_from_iff. unfold session_sound_nv. split.
  - intros [segs [Hc Hf]]. exists segs. split; [| exact Hf].
    intros k Hk. destruct (Hc k Hk) as [r Hr]. exists r. exact Hr.
  - intros [segs [Hc Hf]]. exists segs. split; [| exact Hf].
    intros k Hk. destruct (Hc k Hk) as [r Hr]. exists r. exact Hr.
Qed.

Lemma step_minimal_has_json : forall outs seg, step_minimal outs seg -> has_json seg = true.
Proof.
  intros outs seg [pre [m [Heq _]]]. subst seg. unfold has_json.
  rewrite existsb_app. simpl. apply orb_true_r.
Qed.

(** the model's passes are never vacuous *)
Theorem expect_run_sound_nonvacuous :
  forall steps chunks, expect_run steps chunks = Pass -> session_sound_nv steps chunks.
Proof.
  intros steps chunks H. destruct (expect_run_sound_minimal steps chunks H) as [segs [Hc Hf]].
  exists segs. split; [exact Hc |].
  clear Hc H. induction Hf as [| outs seg steps' segs' [Hok Hmin] Hf IH]; constructor.
  - split; [exact Hok | eapply step_minimal_has_json; exact Hmin].
  - exact IH.
Qed.

Corollary expect_run_oracle_nv :
  forall steps chunks, expect_run steps chunks = Pass -> session_sound_nv_b steps chunks = true.
Proof.
  intros steps chunks H. apply session_sound_nv_b_iff. apply expect_run_sound_nonvacuous. exact H.
Qed.

(** the stronger oracle implies the plain one *)
Lemma session_sound_nv_sound :
  forall steps chunks, session_sound_nv steps chunks -> session_sound steps chunks.
Proof.
  intros steps chunks [segs [Hc Hf]]. exists segs. split; [exact Hc |].
  clear Hc. induction Hf as [| outs seg steps' segs' [Hok _] Hf IH]; constructor; assumption.
Qed.

(** a forbidden-only step is not vacuous: when the first JSON line the step
    can see is forbidden, there is no explanation *)
Example forbidden_only_step_is_checked :
  let o := mk_output (JObj [("bad", JStr "?x")]) Expect.GNone true in
  session_sound_b [[o]] [[Some (JObj [("bad", JNum 4)])]] = true /\
  session_sound_nv_b [[o]] [[Some (JObj [("bad", JNum 4)])]] = false.
Proof. vm_compute. split; reflexivity. Qed.
