(** Facts about the specification functions: [inj_assign], [contains],
    [fits], [pvars]. *)
From Sheens Require Import Spec.Contain Proofs.SndBasics.
From Coq Require Import Lia.

(** * Sub-values *)

Lemma depth_elem_lt x l : In x l -> json_depth x < json_depth (JArr l).
Proof.
  cbn [json_depth]. induction l as [| y l IH]; cbn [In fold_right]; [contradiction|].
  intros [-> | H]; [lia|]. specialize (IH H). lia.
Qed.

Lemma depth_val_lt k v kvs : In (k, v) kvs -> json_depth v < json_depth (JObj kvs).
Proof.
  cbn [json_depth]. induction kvs as [| y l IH]; cbn [In fold_right]; [contradiction|].
  intros [-> | H]; [cbn [snd]; lia|]. specialize (IH H). lia.
Qed.

Lemma depth_pos j : 1 <= json_depth j.
Proof. destruct j; cbn [json_depth]; lia. Qed.

Lemma var_free_elem x l : var_free (JArr l) = true -> In x l -> var_free x = true.
Proof. cbn [var_free]. intros H Hin. rewrite forallb_forall in H. auto. Qed.

Lemma var_free_val k v kvs :
  var_free (JObj kvs) = true -> In (k, v) kvs -> is_var k = false /\ var_free v = true.
Proof.
  cbn [var_free]. intros H Hin. rewrite forallb_forall in H.
  specialize (H _ Hin). cbn [fst snd] in H. apply andb_true_iff in H.
  destruct H as [H1 H2]. apply negb_true_iff in H1. auto.
Qed.

Lemma wf_elem x l : wf_json (JArr l) = true -> In x l -> wf_json x = true.
Proof. cbn [wf_json]. intros H Hin. rewrite forallb_forall in H. auto. Qed.

Lemma wf_val k v kvs : wf_json (JObj kvs) = true -> In (k, v) kvs -> wf_json v = true.
Proof.
  cbn [wf_json]. intros H Hin. apply andb_true_iff in H. destruct H as [_ H].
  rewrite forallb_forall in H. exact (H _ Hin).
Qed.

Lemma wf_obj_nodup kvs : wf_json (JObj kvs) = true -> nodup_keys (map fst kvs) = true.
Proof. cbn [wf_json]. intros H. apply andb_true_iff in H. tauto. Qed.

Lemma var_free_not_optional j : var_free j = true -> is_optional_json j = false.
Proof.
  destruct j; cbn [var_free is_optional_json]; try reflexivity.
  intros H. apply negb_true_iff in H.
  destruct (is_optional s) eqn:E; [|reflexivity].
  apply opt_is_var in E. congruence.
Qed.

(** * [picks] and [inj_assign] *)

Lemma picks_in {A} (l1 : list A) y l2 : In (y, l1 ++ l2) (picks (l1 ++ y :: l2)).
Proof.
  induction l1 as [| a l1 IH]; cbn [picks app].
  - left. reflexivity.
  - right. apply in_map_iff. exists (y, l1 ++ l2). split; [reflexivity | exact IH].
Qed.

Lemma existsb_ext_in {A} (f g : A -> bool) l :
  (forall a, In a l -> f a = g a) -> existsb f l = existsb g l.
Proof.
  induction l as [| a l IH]; cbn [existsb]; [reflexivity|].
  intros H. rewrite (H a (or_introl eq_refl)), IH; [reflexivity|].
  intros b Hb. apply H. right. exact Hb.
Qed.

Lemma forallb_ext_in' {A} (f g : A -> bool) l :
  (forall a, In a l -> f a = g a) -> forallb f l = forallb g l.
Proof.
  induction l as [| a l IH]; cbn [forallb]; [reflexivity|].
  intros H. rewrite (H a (or_introl eq_refl)), IH; [reflexivity|].
  intros b Hb. apply H. right. exact Hb.
Qed.

Section InjFacts.
  Context {A : Type}.

  Lemma inj_assign_intro (P : A -> json -> bool) skip xs :
    forall ys rest fa,
      Forall2 (fun x y => P x y = true) (filter (fun x => negb (skip x)) xs) ys ->
      Permutation (ys ++ rest) fa ->
      inj_assign P skip xs fa = true.
  Proof.
    induction xs as [| x r IH]; intros ys rest fa HF HP; cbn [inj_assign filter]; [reflexivity|].
    cbn [filter] in HF.
    destruct (skip x) eqn:Es; cbn [negb] in HF.
    - eapply IH; eassumption.
    - inversion HF as [| x0 y l ys' Hxy HF' E1 E2]; subst.
      assert (Hin : In y fa).
      { eapply Permutation_in; [exact HP|]. left. reflexivity. }
      apply in_split in Hin. destruct Hin as [l1 [l2 ->]].
      apply existsb_exists. exists (y, l1 ++ l2). split; [apply picks_in|].
      cbn [fst snd]. rewrite Hxy. cbn [andb].
      eapply IH; [exact HF'|].
      cbn [app] in HP. eapply Permutation_cons_app_inv. exact HP.
  Qed.

  Lemma inj_assign_pairs (P : A -> json -> bool) skip xs fa (asg : list (A * json)) rest :
    Permutation (map fst asg) (filter (fun x => negb (skip x)) xs) ->
    (forall x y, In (x, y) asg -> P x y = true) ->
    Permutation (map snd asg ++ rest) fa ->
    inj_assign P skip xs fa = true.
  Proof.
    intros HP1 HP HP2.
    apply Permutation_sym in HP1. apply Permutation_map_inv in HP1.
    destruct HP1 as [asg' [E Hperm]].
    apply (inj_assign_intro P skip xs (map snd asg') rest).
    - rewrite E.
      assert (Hall : forall x y, In (x, y) asg' -> P x y = true).
      { intros x y Hin. apply HP. eapply Permutation_in; [apply Permutation_sym; exact Hperm | exact Hin]. }
      clear - Hall. induction asg' as [| [x y] l IH]; cbn [map]; constructor.
      + cbn [fst snd]. apply Hall. left. reflexivity.
      + apply IH. intros x' y' Hin. apply Hall. right. exact Hin.
    - eapply Permutation_trans; [|exact HP2].
      apply Permutation_app_tail. apply Permutation_map. apply Permutation_sym. exact Hperm.
  Qed.

  Lemma inj_assign_mono (P P' : A -> json -> bool) skip xs :
    (forall x, In x xs -> forall y, P x y = true -> P' x y = true) ->
    forall fa, inj_assign P skip xs fa = true -> inj_assign P' skip xs fa = true.
  Proof.
    induction xs as [| x r IH]; intros HPP fa; cbn [inj_assign]; [reflexivity|].
    assert (HPP' : forall x0, In x0 r -> forall y, P x0 y = true -> P' x0 y = true).
    { intros x0 Hin. apply HPP. right. exact Hin. }
    destruct (skip x).
    - apply IH. exact HPP'.
    - rewrite !existsb_exists. intros [yr [Hin H]]. exists yr. split; [exact Hin|].
      apply andb_true_iff in H. destruct H as [H1 H2].
      apply andb_true_iff. split.
      + apply HPP; [left; reflexivity | exact H1].
      + apply IH; assumption.
  Qed.

  Lemma inj_assign_ext (P P' : A -> json -> bool) skip skip' xs :
    (forall x, In x xs -> skip x = skip' x /\ forall y, P x y = P' x y) ->
    forall fa, inj_assign P skip xs fa = inj_assign P' skip' xs fa.
  Proof.
    induction xs as [| x r IH]; intros HE fa; cbn [inj_assign]; [reflexivity|].
    assert (HE' : forall x0, In x0 r -> skip x0 = skip' x0 /\ forall y, P x0 y = P' x0 y).
    { intros x0 Hin. apply HE. right. exact Hin. }
    destruct (HE x (or_introl eq_refl)) as [Es EP]. rewrite <- Es.
    destruct (skip x).
    - apply IH. exact HE'.
    - apply existsb_ext_in. intros yr _. rewrite EP, (IH HE'). reflexivity.
  Qed.
End InjFacts.

(** * [contains] *)

Lemma contains_arr xs fa :
  contains (JArr xs) (JArr fa) = inj_assign contains (fun _ => false) xs fa.
Proof. reflexivity. Qed.

Lemma contains_obj kvs fkvs :
  contains (JObj kvs) (JObj fkvs) =
  forallb (fun kv : string * json =>
             match assoc (fst kv) fkvs with
             | Some y => contains (snd kv) y
             | None => false
             end) kvs.
Proof. reflexivity. Qed.

Lemma Forall2_refl_in {A} (R : A -> A -> Prop) l :
  (forall x, In x l -> R x x) -> Forall2 R l l.
Proof.
  induction l as [| a l IH]; intros H; constructor.
  - apply H. left. reflexivity.
  - apply IH. intros x Hx. apply H. right. exact Hx.
Qed.

Lemma filter_all_true {A} (f : A -> bool) l : (forall x, In x l -> f x = true) -> filter f l = l.
Proof.
  induction l as [| a l IH]; intros H; cbn [filter]; [reflexivity|].
  rewrite (H a (or_introl eq_refl)), IH; [reflexivity|].
  intros x Hx. apply H. right. exact Hx.
Qed.

Lemma contains_refl f : wf_json f = true -> contains f f = true.
Proof.
  induction f as [| b | z | s | l IH | kvs IH] using json_nested_ind; intros Hwf.
  - reflexivity.
  - cbn. apply Bool.eqb_reflx.
  - cbn. apply Z.eqb_refl.
  - cbn. apply String.eqb_refl.
  - rewrite contains_arr.
    apply (inj_assign_intro contains (fun _ => false) l l []).
    + rewrite filter_all_true by reflexivity.
      apply Forall2_refl_in. intros x Hx. rewrite Forall_forall in IH.
      apply IH; [exact Hx|]. eapply wf_elem; eassumption.
    + rewrite app_nil_r. apply Permutation_refl.
  - rewrite contains_obj. apply forallb_forall. intros [k v] Hin. cbn [fst snd].
    rewrite (assoc_nodup k v kvs (wf_obj_nodup _ Hwf) Hin).
    rewrite Forall_forall in IH. apply (IH (k, v) Hin).
    eapply wf_val; eassumption.
Qed.

(** * [fits]: unfolding lemmas *)

Lemma fits_arr bs0 bs' xs fa :
  fits bs0 bs' (JArr xs) (JArr fa) = inj_assign (fits bs0 bs') is_optional_json xs fa.
Proof. reflexivity. Qed.

Definition obj_const_rule bs0 bs' (fkvs : list (string * json)) (k : string) (q : json) : bool :=
  match assoc k fkvs with
  | Some y => fits bs0 bs' q y
  | None => is_optional_json q
  end.

Lemma fits_obj1 bs0 bs' k q fkvs :
  fits bs0 bs' (JObj [(k, q)]) (JObj fkvs) =
  if is_var k then
    existsb (fun fkv : string * json => key_fits bs0 bs' k (fst fkv) && fits bs0 bs' q (snd fkv)) fkvs
  else obj_const_rule bs0 bs' fkvs k q.
Proof. reflexivity. Qed.

Lemma fits_objn bs0 bs' kvs fkvs :
  List.length kvs <> 1 ->
  fits bs0 bs' (JObj kvs) (JObj fkvs) =
  forallb (fun kv : string * json =>
             negb (is_var (fst kv)) && obj_const_rule bs0 bs' fkvs (fst kv) (snd kv)) kvs.
Proof.
  destruct kvs as [| [k q] [| b r]]; cbn [List.length]; intros H; try reflexivity.
  contradiction H; reflexivity.
Qed.

Lemma fits_obj_not_obj bs0 bs' kvs f :
  (forall fkvs, f <> JObj fkvs) -> fits bs0 bs' (JObj kvs) f = false.
Proof. destruct f; intros H; try reflexivity. contradiction (H kvs0); reflexivity. Qed.

Lemma fits_str bs0 bs' s f :
  fits bs0 bs' (JStr s) f =
  if is_var s then if is_anon s then true else var_fits bs0 bs' s f
  else match f with JStr t => String.eqb s t | _ => false end.
Proof. reflexivity. Qed.

Lemma key_fits_eq bs0 bs' k fk :
  is_var k = true -> key_fits bs0 bs' k fk = fits bs0 bs' (JStr k) (JStr fk).
Proof. intros H. rewrite fits_str, H. reflexivity. Qed.

(** * A variable-free pattern fits exactly when it is contained *)

Lemma fits_var_free bs0 bs' w :
  var_free w = true -> forall f, fits bs0 bs' w f = contains w f.
Proof.
  induction w as [| b | z | s | l IH | kvs IH] using json_nested_ind; intros Hvf f.
  - reflexivity.
  - reflexivity.
  - reflexivity.
  - rewrite fits_str. cbn [var_free] in Hvf. apply negb_true_iff in Hvf. rewrite Hvf.
    destruct f; reflexivity.
  - destruct f; try reflexivity.
    rewrite fits_arr, contains_arr. apply inj_assign_ext.
    intros x Hx. rewrite Forall_forall in IH.
    pose proof (var_free_elem _ _ Hvf Hx) as Hx'. split.
    + apply var_free_not_optional. exact Hx'.
    + apply IH; assumption.
  - destruct f as [| | | | | fkvs]; try reflexivity.
    rewrite contains_obj. rewrite Forall_forall in IH.
    assert (Hrule : forall k q, In (k, q) kvs ->
              obj_const_rule bs0 bs' fkvs k q =
              match assoc k fkvs with Some y => contains q y | None => false end).
    { intros k q Hin. unfold obj_const_rule.
      destruct (var_free_val _ _ _ Hvf Hin) as [_ Hq].
      destruct (assoc k fkvs) as [y|].
      - apply (IH (k, q) Hin Hq).
      - apply var_free_not_optional. exact Hq. }
    destruct (Nat.eq_dec (List.length kvs) 1) as [E1 | E1].
    + destruct kvs as [| [k q] [| b r]]; try discriminate E1.
      rewrite fits_obj1.
      destruct (var_free_val _ _ _ Hvf (or_introl eq_refl)) as [Hk _]. rewrite Hk.
      cbn [forallb fst snd]. rewrite andb_true_r. apply Hrule. left. reflexivity.
    + rewrite fits_objn by exact E1.
      apply forallb_ext_in'.
      intros [k q] Hin. cbn [fst snd].
      destruct (var_free_val _ _ _ Hvf Hin) as [Hk _]. rewrite Hk. cbn [negb andb].
      apply Hrule. exact Hin.
Qed.

(** * [fits] is monotone in the returned bindings *)

Definition extends (a b : bindings) : Prop :=
  forall k v, lookup k a = Some v -> lookup k b = Some v.

Lemma extends_refl a : extends a a.
Proof. intros k v H. exact H. Qed.

Lemma extends_trans a b c : extends a b -> extends b c -> extends a c.
Proof. intros H1 H2 k v H. auto. Qed.

Lemma plain_rule_mono bs1 bs2 s f :
  extends bs1 bs2 -> plain_rule bs1 s f = true -> plain_rule bs2 s f = true.
Proof.
  unfold plain_rule. intros He. destruct (lookup s bs1) as [w|] eqn:E; [|discriminate].
  rewrite (He _ _ E). auto.
Qed.

Lemma ineq_rule_mono bs1 bs2 op vv b f :
  extends bs1 bs2 -> ineq_rule bs1 op vv b f = true -> ineq_rule bs2 op vv b f = true.
Proof.
  unfold ineq_rule. intros He. destruct f; try discriminate.
  destruct (lookup vv bs1) as [w|] eqn:E.
  - rewrite (He _ _ E). auto.
  - rewrite andb_false_r. discriminate.
Qed.

Lemma var_fits_mono bs0 bs1 bs2 s f :
  extends bs1 bs2 -> var_fits bs0 bs1 s f = true -> var_fits bs0 bs2 s f = true.
Proof.
  intros He. unfold var_fits.
  destruct (ineq_parse s) as [[op vv]|]; [|apply plain_rule_mono; exact He].
  assert (Hgen : plain_rule bs1 s f
                 || match lookup s bs1 with
                    | Some (JNum b) => ineq_rule bs1 op vv b f
                    | _ => false
                    end = true ->
                 plain_rule bs2 s f
                 || match lookup s bs2 with
                    | Some (JNum b) => ineq_rule bs2 op vv b f
                    | _ => false
                    end = true).
  { intros H. apply orb_true_iff in H. apply orb_true_iff. destruct H as [H | H].
    - left. eapply plain_rule_mono; eassumption.
    - right. destruct (lookup s bs1) as [w|] eqn:E; [|discriminate].
      rewrite (He _ _ E). destruct w; try discriminate.
      eapply ineq_rule_mono; eassumption. }
  destruct (lookup s bs0) as [[| | b | | |]|]; try exact Hgen.
  destruct f as [| | a | | |]; try (apply plain_rule_mono; exact He).
  destruct (lookup vv bs1) as [w|] eqn:E.
  - rewrite (He _ _ E). destruct w; try (apply ineq_rule_mono; exact He).
    all: intros H; apply andb_true_iff in H; destruct H as [H1 H2];
      apply andb_true_iff; split; [exact H1 | eapply plain_rule_mono; eassumption].
  - unfold ineq_rule at 1. rewrite E, andb_false_r. discriminate.
Qed.

Lemma fits_mono bs0 bs1 bs2 p :
  extends bs1 bs2 -> forall f, fits bs0 bs1 p f = true -> fits bs0 bs2 p f = true.
Proof.
  intros He.
  induction p as [| b | z | s | l IH | kvs IH] using json_nested_ind; intros f.
  - auto.
  - auto.
  - auto.
  - rewrite !fits_str. destruct (is_var s); [|auto].
    destruct (is_anon s); [auto|]. apply var_fits_mono. exact He.
  - destruct f as [| | | | fa |]; try (cbn; discriminate).
    rewrite !fits_arr. apply inj_assign_mono.
    intros x Hx y. rewrite Forall_forall in IH. apply IH. exact Hx.
  - destruct f as [| | | | | fkvs]; try (cbn; discriminate).
    rewrite Forall_forall in IH.
    assert (Hrule : forall k q, In (k, q) kvs ->
              obj_const_rule bs0 bs1 fkvs k q = true -> obj_const_rule bs0 bs2 fkvs k q = true).
    { intros k q Hin. unfold obj_const_rule. destruct (assoc k fkvs); [|auto].
      apply (IH (k, q) Hin). }
    destruct (Nat.eq_dec (List.length kvs) 1) as [E1 | E1].
    + destruct kvs as [| [k q] [| b r]]; try discriminate E1.
      rewrite !fits_obj1. destruct (is_var k) eqn:Ek.
      * rewrite !existsb_exists. intros [fkv [Hin H]]. exists fkv. split; [exact Hin|].
        apply andb_true_iff in H. destruct H as [H1 H2]. apply andb_true_iff. split.
        -- unfold key_fits in *. destruct (is_anon k); [reflexivity|].
           eapply var_fits_mono; eassumption.
        -- apply (IH (k, q) (or_introl eq_refl)). exact H2.
      * apply Hrule. left. reflexivity.
    + rewrite !fits_objn by exact E1. rewrite !forallb_forall.
      intros H [k q] Hin. specialize (H _ Hin). cbn [fst snd] in *.
      apply andb_true_iff in H. destruct H as [H1 H2]. apply andb_true_iff. split; [exact H1|].
      apply Hrule; assumption.
Qed.

(** * Pattern variables and the names a match may bind *)

Definition cp (v : string) : list string :=
  match ineq_parse v with Some (_, vv) => [vv] | None => [] end.

(** the names a match can actually bind: the non-anonymous variables and the
    plain counterparts of the inequality variables *)
Definition nb (p : json) : list string :=
  filter (fun v => negb (is_anon v)) (pvars p) ++ flat_map cp (pvars p).

Lemma bindable_eq p : bindable p = pvars p ++ flat_map cp (pvars p).
Proof. reflexivity. Qed.

Lemma nb_bindable p : incl (nb p) (bindable p).
Proof.
  rewrite bindable_eq. unfold nb. intros k H. apply in_app_iff in H. apply in_app_iff.
  destruct H as [H | H]; [left | right; exact H].
  apply filter_In in H. tauto.
Qed.

Lemma nb_incl q p : incl (pvars q) (pvars p) -> incl (nb q) (nb p).
Proof.
  intros Hi k H. unfold nb in *. apply in_app_iff in H. apply in_app_iff.
  destruct H as [H | H].
  - left. apply filter_In in H. apply filter_In. destruct H. split; auto.
  - right. apply in_flat_map in H. destruct H as [v [Hv Hk]]. apply in_flat_map.
    exists v. split; auto.
Qed.

Lemma pvars_elem x xs : In x xs -> incl (pvars x) (pvars (JArr xs)).
Proof.
  intros Hin k Hk. cbn [pvars]. apply in_flat_map. exists x. split; assumption.
Qed.

Lemma pvars_val k v kvs : In (k, v) kvs -> incl (pvars v) (pvars (JObj kvs)).
Proof.
  intros Hin s Hs. cbn [pvars]. apply in_flat_map. exists (k, v). split; [assumption|].
  cbn [fst snd]. apply in_app_iff. right. exact Hs.
Qed.

Lemma pvars_key k v kvs : In (k, v) kvs -> incl (pvars (JStr k)) (pvars (JObj kvs)).
Proof.
  intros Hin s Hs. cbn [pvars] in *. apply in_flat_map. exists (k, v). split; [assumption|].
  cbn [fst snd]. apply in_app_iff. left. exact Hs.
Qed.

Lemma pvars_var_free w : var_free w = true -> pvars w = [].
Proof.
  induction w as [| b | z | s | l IH | kvs IH] using json_nested_ind; intros Hvf; try reflexivity.
  - cbn [pvars var_free] in *. apply negb_true_iff in Hvf. rewrite Hvf. reflexivity.
  - cbn [pvars]. rewrite Forall_forall in IH.
    induction l as [| x l IHl]; [reflexivity|]. cbn [flat_map].
    rewrite (IH x (or_introl eq_refl) (var_free_elem _ _ Hvf (or_introl eq_refl))).
    cbn [app]. apply IHl.
    + intros y Hy. apply IH. right. exact Hy.
    + cbn [var_free forallb] in Hvf. apply andb_true_iff in Hvf. apply Hvf.
  - cbn [pvars]. rewrite Forall_forall in IH.
    induction kvs as [| [k v] l IHl]; [reflexivity|]. cbn [flat_map fst snd].
    destruct (var_free_val _ _ _ Hvf (or_introl eq_refl)) as [Hk Hv].
    pose proof (IH (k, v) (or_introl eq_refl) Hv) as Hq. cbn [snd] in Hq.
    rewrite Hk, Hq. cbn [app]. apply IHl.
    + intros y Hy. apply IH. right. exact Hy.
    + cbn [var_free forallb] in Hvf. apply andb_true_iff in Hvf. apply Hvf.
Qed.

Lemma nb_var_free w : var_free w = true -> nb w = [].
Proof. intros H. unfold nb. rewrite (pvars_var_free w H). reflexivity. Qed.

Lemma nb_var s : is_var s = true -> is_anon s = false -> In s (nb (JStr s)).
Proof.
  intros Hv Ha. unfold nb. cbn [pvars]. rewrite Hv. cbn [filter]. rewrite Ha. cbn [negb].
  apply in_app_iff. left. left. reflexivity.
Qed.

Lemma nb_counterpart s op vv :
  is_var s = true -> ineq_parse s = Some (op, vv) -> In vv (nb (JStr s)).
Proof.
  intros Hv Hp. unfold nb. cbn [pvars]. rewrite Hv. apply in_app_iff. right.
  cbn [flat_map]. unfold cp. rewrite Hp. left. reflexivity.
Qed.
