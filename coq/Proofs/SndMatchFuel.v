(** Fuel is only a termination device: more fuel never changes a result that
    is not [Fuel], and [match_bound] fuel is always enough. *)
From Sheens Require Import Spec.Contain Proofs.SndBasics Proofs.SndSpecFacts Proofs.SndArrayFacts
     Proofs.SndMatchSound.
From Coq Require Import Lia.
From Sheens Require Import Proofs.BoundMatch.

(** * One unfolding of [match_] *)

Definition match_body (ord : order_oracle) (rec : rec_t) (p f : json) (bs : bindings)
  : res (list bindings) :=
  match p with
  | JNull => match f with JNull => Ok [bs] | _ => Ok [] end
  | JBool x => match f with JBool y => if Bool.eqb x y then Ok [bs] else Ok [] | _ => Ok [] end
  | JNum x => match f with JNum y => if Z.eqb x y then Ok [bs] else Ok [] | _ => Ok [] end
  | JStr s =>
      if is_var s then
        if is_anon s then Ok [bs]
        else
          match inequal f bs s with
          | Using r => Ok r
          | NotUsing =>
              match lookup s bs with
              | Some b => bound_match rec b f bs
              | None => Ok [bset s f bs]
              end
          end
      else
        match f with
        | JStr t => if String.eqb s t then Ok [bs] else Ok []
        | _ => Ok []
        end
  | JObj kvs =>
      match f with
      | JObj fkvs => match_obj ord rec bs kvs fkvs
      | _ => Ok []
      end
  | JArr xs => match_arr ord rec bs xs f
  end.

Lemma match_S ord n p f bs :
  match_ ord (S n) p f bs = match_body ord (match_ ord n) p f bs.
Proof. reflexivity. Qed.

(** * Monotonicity in the fuel *)

Definition rec_le (rec rec' : rec_t) : Prop :=
  forall p f bs, rec p f bs <> Fuel -> rec' p f bs = rec p f bs.

Ltac use_mono lem E := rewrite lem by (rewrite E; discriminate); rewrite E.

Section Mono.
Variable ord : order_oracle.
Variables rec rec' : rec_t.
Hypothesis Hle : rec_le rec rec'.

Lemma mwb_mono bss p f : mwb rec bss p f <> Fuel -> mwb rec' bss p f = mwb rec bss p f.
Proof.
  induction bss as [| bs bss IH]; cbn [mwb]; [reflexivity|]. intros H.
  destruct (rec p f bs) as [a| |] eqn:E1; [| | contradiction H; reflexivity].
  - use_mono Hle E1.
    destruct (mwb rec bss p f) as [b| |] eqn:E2; [| | contradiction H; reflexivity];
      rewrite IH by discriminate; reflexivity.
  - use_mono Hle E1. reflexivity.
Qed.

Lemma mapcat_mono fkvs :
  forall kvs bss, mapcat rec bss kvs fkvs <> Fuel ->
                  mapcat rec' bss kvs fkvs = mapcat rec bss kvs fkvs.
Proof.
  induction kvs as [| [k v] kvs IH]; intros bss; cbn [mapcat]; [reflexivity|].
  destruct (assoc k fkvs) as [fv|].
  - intros H. destruct (mwb rec bss v fv) as [acc| |] eqn:E1; [| | contradiction H; reflexivity].
    + use_mono mwb_mono E1. destruct acc; [reflexivity | apply IH; exact H].
    + use_mono mwb_mono E1. reflexivity.
  - destruct (is_optional_json v); [apply IH | reflexivity].
Qed.

Lemma propvar_loop_mono bss k v :
  forall fkvs, propvar_loop rec bss k v fkvs <> Fuel ->
               propvar_loop rec' bss k v fkvs = propvar_loop rec bss k v fkvs.
Proof.
  induction fkvs as [| [fk fv] fkvs IH]; cbn [propvar_loop]; [reflexivity|]. intros H.
  destruct (mwb rec bss (JStr k) (JStr fk)) as [ext| |] eqn:E1; [| | contradiction H; reflexivity].
  - use_mono mwb_mono E1. destruct ext as [| e0 ext]; [apply IH; exact H|].
    destruct (mwb rec (e0 :: ext) v fv) as [ext2| |] eqn:E2; [| | contradiction H; reflexivity].
    + use_mono mwb_mono E2.
      destruct (propvar_loop rec bss k v fkvs) as [g| |] eqn:E3; [| | contradiction H; reflexivity];
        rewrite IH by discriminate; reflexivity.
    + use_mono mwb_mono E2. reflexivity.
  - use_mono mwb_mono E1. reflexivity.
Qed.

Lemma match_obj_mono bs kvs fkvs :
  match_obj ord rec bs kvs fkvs <> Fuel ->
  match_obj ord rec' bs kvs fkvs = match_obj ord rec bs kvs fkvs.
Proof.
  unfold match_obj. destruct kvs as [| [k v] [| kv2 kvs]]; [reflexivity | |].
  - destruct (is_var k).
    + destruct allow_property_variables; [|reflexivity]. unfold propvar. apply propvar_loop_mono.
    + apply mapcat_mono.
  - destruct (check_bad_property_variables && has_var_key ((k, v) :: kv2 :: kvs)); [reflexivity|].
    destruct (has_var_key ((k, v) :: kv2 :: kvs)); [reflexivity|]. apply mapcat_mono.
Qed.

Lemma try_each_mono bss x mm_all :
  forall mm, try_each rec bss x mm_all mm <> Fuel ->
             try_each rec' bss x mm_all mm = try_each rec bss x mm_all mm.
Proof.
  induction mm as [| [j fact] mm IH]; cbn [try_each]; [reflexivity|]. intros H.
  destruct (mwb rec bss x fact) as [acc| |] eqn:E1; [| | contradiction H; reflexivity].
  - use_mono mwb_mono E1.
    destruct (try_each rec bss x mm_all mm) as [rest| |] eqn:E2; [| | contradiction H; reflexivity];
      rewrite IH by discriminate; reflexivity.
  - use_mono mwb_mono E1. reflexivity.
Qed.

Lemma arraycat_mono x :
  forall pairs, arraycat ord rec pairs x <> Fuel ->
                arraycat ord rec' pairs x = arraycat ord rec pairs x.
Proof.
  induction pairs as [| [bss mm] pairs IH]; cbn [arraycat]; [reflexivity|]. intros H.
  destruct (try_each rec bss x mm (ord _ mm)) as [a| |] eqn:E1; [| | contradiction H; reflexivity].
  - use_mono try_each_mono E1.
    destruct (arraycat ord rec pairs x) as [b| |] eqn:E2; [| | contradiction H; reflexivity];
      rewrite IH by discriminate; reflexivity.
  - use_mono try_each_mono E1. reflexivity.
Qed.

Lemma arr_loop_mono fe :
  forall xs fxs pairs, arr_loop ord rec fe xs fxs pairs <> Fuel ->
                       arr_loop ord rec' fe xs fxs pairs = arr_loop ord rec fe xs fxs pairs.
Proof.
  induction xs as [| x xs IH]; intros fxs pairs; cbn [arr_loop]; [reflexivity|].
  destruct (is_scalar x).
  - destruct (jmem x fxs); [apply IH | reflexivity].
  - destruct fe; [reflexivity|]. intros H.
    destruct (arraycat ord rec pairs x) as [np| |] eqn:E1; [| | contradiction H; reflexivity].
    + use_mono arraycat_mono E1. destruct np; [reflexivity | apply IH; exact H].
    + use_mono arraycat_mono E1. reflexivity.
Qed.

Lemma match_arr_mono bs xs f :
  match_arr ord rec bs xs f <> Fuel ->
  match_arr ord rec' bs xs f = match_arr ord rec bs xs f.
Proof.
  unfold match_arr. destruct (get_var xs None) as [[v cs]|]; [|reflexivity].
  destruct f as [| | | | fa |]; try reflexivity.
  destruct (index_facts 0 fa) as [fxs fxa]. intros H.
  destruct (arr_loop ord rec match fxa with [] => true | _ :: _ => false end cs fxs [([bs], fxa)])
    as [[[fxs' pairs]|]| |] eqn:E1; [| | | contradiction H; reflexivity].
  - use_mono arr_loop_mono E1. destruct v as [vname|]; [|reflexivity].
    match type of H with
    | match ?X with _ => _ end <> _ => destruct X as [np| |] eqn:E2
    end; [| | contradiction H; reflexivity].
    + use_mono arraycat_mono E2. reflexivity.
    + use_mono arraycat_mono E2. reflexivity.
  - use_mono arr_loop_mono E1. reflexivity.
  - use_mono arr_loop_mono E1. reflexivity.
Qed.

Lemma match_body_mono p f bs :
  match_body ord rec p f bs <> Fuel ->
  match_body ord rec' p f bs = match_body ord rec p f bs.
Proof.
  unfold match_body. destruct p as [| x | x | s | xs | kvs]; try reflexivity.
  - destruct (is_var s); [|reflexivity]. destruct (is_anon s); [reflexivity|].
    destruct (inequal f bs s); [|reflexivity].
    destruct (lookup s bs) as [b|]; [|reflexivity].
    unfold bound_match. destruct b as [| | |t| |]; try apply Hle.
    destruct (is_var t); [reflexivity | apply Hle].
  - apply match_arr_mono.
  - destruct f; try reflexivity. apply match_obj_mono.
Qed.

End Mono.

Lemma match_mono_S ord : forall n, rec_le (match_ ord n) (match_ ord (S n)).
Proof.
  induction n as [| n IH]; intros p f bs H.
  - contradiction H. reflexivity.
  - rewrite (match_S ord (S n)), (match_S ord n). apply match_body_mono; [exact IH|].
    rewrite <- match_S. exact H.
Qed.

Lemma match_mono ord fuel fuel' :
  fuel <= fuel' -> rec_le (match_ ord fuel) (match_ ord fuel').
Proof.
  induction 1 as [| m Hle IH]; intros p f bs H; [reflexivity|].
  rewrite (match_mono_S ord m p f bs); rewrite (IH p f bs H); [reflexivity | exact H].
Qed.

Theorem match_fuel_mono :
  forall ord fuel fuel' p f bs r, fuel <= fuel' ->
    match_ ord fuel p f bs = Ok r -> match_ ord fuel' p f bs = Ok r.
Proof.
  intros ord fuel fuel' p f bs r Hle H.
  rewrite (match_mono ord fuel fuel' Hle p f bs); [exact H|]. rewrite H. discriminate.
Qed.

Theorem match_fuel_mono_err :
  forall ord fuel fuel' p f bs, fuel <= fuel' ->
    match_ ord fuel p f bs = Err -> match_ ord fuel' p f bs = Err.
Proof.
  intros ord fuel fuel' p f bs Hle H.
  rewrite (match_mono ord fuel fuel' Hle p f bs); [exact H|]. rewrite H. discriminate.
Qed.

(** * Enough fuel *)

Definition match_bound (p f : json) (bs0 : bindings) : nat :=
  json_depth p + Nat.max (json_depth f) (depth_bs bs0).

Section Enough.
Variable ord : order_oracle.
Hypothesis ord_perm : perm_oracle ord.
Variable bs0 : bindings.
Variable M : nat.
Variable Q : bindings -> Prop.
Hypothesis Q_bset : forall k v bs, Q bs -> Q (bset k v bs).

(** patterns that [match_ ord n] can handle without running out of fuel:
    any pattern with [M] spare fuel (for a bound value), or a variable-free
    one (never looks up bindings) *)
Definition can (n : nat) (p : json) : Prop :=
  json_depth p + M <= n \/ (var_free p = true /\ json_depth p <= n).

Definition nf_rec (rec : rec_t) (n : nat) : Prop :=
  forall p f bs, good M f -> inv bs0 M Q bs -> can n p -> rec p f bs <> Fuel.

Lemma can_elem n x xs : can (S n) (JArr xs) -> In x xs -> can n x.
Proof.
  intros [H | [H1 H2]] Hin; pose proof (depth_elem_lt x xs Hin).
  - left. lia.
  - right. split; [eapply var_free_elem; eassumption | lia].
Qed.

Lemma can_val n k v kvs : can (S n) (JObj kvs) -> In (k, v) kvs -> can n v.
Proof.
  intros [H | [H1 H2]] Hin; pose proof (depth_val_lt k v kvs Hin).
  - left. lia.
  - right. split; [eapply var_free_val; eassumption | lia].
Qed.

Lemma can_key n k v kvs : can (S n) (JObj kvs) -> In (k, v) kvs -> is_var k = true -> can n (JStr k).
Proof.
  intros [H | [H1 H2]] Hin Hk; pose proof (depth_val_lt k v kvs Hin); pose proof (depth_pos v).
  - left. cbn [json_depth]. lia.
  - destruct (var_free_val _ _ _ H1 Hin) as [Hk' _]. congruence.
Qed.

Lemma can_var_elem n s xs : can (S n) (JArr xs) -> In (JStr s) xs -> is_var s = true -> can n (JStr s).
Proof.
  intros [H | [H1 H2]] Hin Hs; pose proof (depth_elem_lt _ xs Hin) as Hd; cbn [json_depth] in Hd.
  - left. cbn [json_depth]. cbn [json_depth] in H. lia.
  - pose proof (var_free_elem _ _ H1 Hin) as Hv. cbn [var_free] in Hv. rewrite Hs in Hv. discriminate.
Qed.

Definition pair_good (pr : pair_t) : Prop :=
  (forall b, In b (fst pr) -> inv bs0 M Q b) /\ (forall j fact, In (j, fact) (snd pr) -> good M fact).

Section Helpers.
Variable rec : rec_t.
Variable n : nat.
Hypothesis Hs : sound_rec bs0 M Q rec.
Hypothesis Hnf : nf_rec rec n.

Lemma mwb_out_inv bss p f acc :
  good M f -> (forall bs, In bs bss -> inv bs0 M Q bs) -> mwb rec bss p f = Ok acc ->
  forall b, In b acc -> inv bs0 M Q b.
Proof.
  intros Hf Hinv Hm b Hb.
  destruct (mwb_sound bs0 M Q rec Hs bss p f acc b Hf Hinv Hm Hb) as [bs [H1 [H2 _]]].
  eapply inv_step; [apply Hinv; exact H1 | exact H2].
Qed.

Lemma mwb_nf bss p f :
  good M f -> can n p -> (forall bs, In bs bss -> inv bs0 M Q bs) -> mwb rec bss p f <> Fuel.
Proof.
  intros Hf Hc. induction bss as [| bs bss IH]; intros Hinv; cbn [mwb]; [discriminate|].
  pose proof (Hnf p f bs Hf (Hinv bs (or_introl eq_refl)) Hc) as H1.
  destruct (rec p f bs); [| discriminate | contradiction H1; reflexivity].
  assert (H2 : mwb rec bss p f <> Fuel).
  { apply IH. intros b Hb. apply Hinv. right. exact Hb. }
  destruct (mwb rec bss p f); [discriminate | discriminate | contradiction H2; reflexivity].
Qed.

Lemma mapcat_nf fkvs (Hf : good M (JObj fkvs)) :
  forall kvs bss,
    (forall k v, In (k, v) kvs -> can n v) -> (forall bs, In bs bss -> inv bs0 M Q bs) ->
    mapcat rec bss kvs fkvs <> Fuel.
Proof.
  induction kvs as [| [k v] kvs IH]; intros bss Hc Hinv; cbn [mapcat]; [discriminate|].
  assert (Hc' : forall k0 v0, In (k0, v0) kvs -> can n v0).
  { intros k0 v0 H0. eapply Hc. right. exact H0. }
  destruct (assoc k fkvs) as [fv|] eqn:Ea.
  - assert (Hfv : good M fv) by (eapply good_val; [exact Hf | eapply assoc_in; exact Ea]).
    pose proof (mwb_nf bss v fv Hfv (Hc k v (or_introl eq_refl)) Hinv) as H1.
    destruct (mwb rec bss v fv) as [acc| |] eqn:Em; [| discriminate | contradiction H1; reflexivity].
    destruct acc as [| a0 acc]; [discriminate|].
    apply IH; [exact Hc'|]. eapply mwb_out_inv; eassumption.
  - destruct (is_optional_json v); [apply IH; assumption | discriminate].
Qed.

Lemma propvar_loop_nf bss k v :
  can n (JStr k) -> can n v -> (forall bs, In bs bss -> inv bs0 M Q bs) ->
  forall fkvs, (forall fk fv, In (fk, fv) fkvs -> good M (JStr fk) /\ good M fv) ->
               propvar_loop rec bss k v fkvs <> Fuel.
Proof.
  intros Hck Hcv Hinv. induction fkvs as [| [fk fv] fkvs IH]; intros Hg; cbn [propvar_loop];
    [discriminate|].
  destruct (Hg fk fv (or_introl eq_refl)) as [Hgk Hgv].
  assert (IH' : propvar_loop rec bss k v fkvs <> Fuel).
  { apply IH. intros fk' fv' H'. apply Hg. right. exact H'. }
  pose proof (mwb_nf bss (JStr k) (JStr fk) Hgk Hck Hinv) as H1.
  destruct (mwb rec bss (JStr k) (JStr fk)) as [ext| |] eqn:E1;
    [| discriminate | contradiction H1; reflexivity].
  destruct ext as [| e0 ext]; [exact IH'|].
  pose proof (mwb_nf (e0 :: ext) v fv Hgv Hcv (mwb_out_inv _ _ _ _ Hgk Hinv E1)) as H2.
  destruct (mwb rec (e0 :: ext) v fv); [| discriminate | contradiction H2; reflexivity].
  destruct (propvar_loop rec bss k v fkvs); [discriminate | discriminate | contradiction IH'; reflexivity].
Qed.

Lemma match_obj_nf bs kvs fkvs :
  good M (JObj fkvs) -> inv bs0 M Q bs -> can (S n) (JObj kvs) ->
  match_obj ord rec bs kvs fkvs <> Fuel.
Proof.
  intros Hf Hinv Hc. unfold match_obj.
  assert (Hbs : forall b, In b [bs] -> inv bs0 M Q b) by (intros b [<- | []]; exact Hinv).
  destruct kvs as [| [k v] [| kv2 kvs]]; [discriminate | |].
  - destruct (is_var k) eqn:Ek.
    + destruct allow_property_variables; [|discriminate]. unfold propvar.
      apply propvar_loop_nf.
      * eapply can_key; [exact Hc | left; reflexivity | exact Ek].
      * eapply can_val; [exact Hc | left; reflexivity].
      * exact Hbs.
      * intros fk fv Hin.
        assert (Hin' : In (fk, fv) fkvs) by (eapply Permutation_in; [apply ord_perm | exact Hin]).
        split; [eapply good_key | eapply good_val]; eassumption.
    + apply mapcat_nf; [exact Hf | | exact Hbs].
      intros k0 v0 H0. eapply can_val; eassumption.
  - destruct (check_bad_property_variables && has_var_key ((k, v) :: kv2 :: kvs)); [discriminate|].
    destruct (has_var_key ((k, v) :: kv2 :: kvs)); [discriminate|].
    apply mapcat_nf; [exact Hf | | exact Hbs].
    intros k0 v0 H0. apply (proj1 (sort_kvs_in _ _)) in H0. eapply can_val; eassumption.
Qed.

Lemma try_each_nf bss x mm_all :
  can n x -> (forall b, In b bss -> inv bs0 M Q b) ->
  forall mm, (forall j fact, In (j, fact) mm -> good M fact) ->
             try_each rec bss x mm_all mm <> Fuel.
Proof.
  intros Hc Hinv. induction mm as [| [j fact] mm IH]; intros Hg; cbn [try_each]; [discriminate|].
  pose proof (mwb_nf bss x fact (Hg j fact (or_introl eq_refl)) Hc Hinv) as H1.
  destruct (mwb rec bss x fact); [| discriminate | contradiction H1; reflexivity].
  assert (H2 : try_each rec bss x mm_all mm <> Fuel).
  { apply IH. intros j' fact' H'. eapply Hg. right. exact H'. }
  destruct (try_each rec bss x mm_all mm); [discriminate | discriminate | contradiction H2; reflexivity].
Qed.

Lemma arraycat_nf x :
  can n x -> forall pairs, (forall pr, In pr pairs -> pair_good pr) ->
                           arraycat ord rec pairs x <> Fuel.
Proof.
  intros Hc. induction pairs as [| [bss mm] pairs IH]; intros Hg; cbn [arraycat]; [discriminate|].
  destruct (Hg _ (or_introl eq_refl)) as [Hg1 Hg2]. cbn [fst snd] in Hg1, Hg2.
  assert (H1 : try_each rec bss x mm (ord _ mm) <> Fuel).
  { apply try_each_nf; [exact Hc | exact Hg1|]. intros j fact Hin. eapply Hg2.
    eapply Permutation_in; [apply ord_perm | exact Hin]. }
  destruct (try_each rec bss x mm (ord _ mm)); [| discriminate | contradiction H1; reflexivity].
  assert (H2 : arraycat ord rec pairs x <> Fuel).
  { apply IH. intros pr Hpr. apply Hg. right. exact Hpr. }
  destruct (arraycat ord rec pairs x); [discriminate | discriminate | contradiction H2; reflexivity].
Qed.

Lemma arraycat_good x pairs np :
  (forall pr, In pr pairs -> pair_good pr) -> arraycat ord rec pairs x = Ok np ->
  forall pr, In pr np -> pair_good pr.
Proof.
  intros Hg Hac [acc mm2] Hpr.
  destruct (arraycat_inv ord ord_perm rec x pairs np acc mm2 Hac Hpr)
    as (bss & mm & j & fact & H1 & H2 & H3 & H4 & ->).
  destruct (Hg _ H1) as [Hg1 Hg2]. cbn [fst snd] in Hg1, Hg2.
  split; cbn [fst snd].
  - eapply mwb_out_inv; [eapply Hg2; exact H2 | exact Hg1 | exact H3].
  - intros j' fact' H'. eapply Hg2. eapply remove_idx_in. exact H'.
Qed.

Lemma arr_loop_nf fe :
  forall cs fxs pairs,
    (forall x, In x cs -> can n x) -> (forall pr, In pr pairs -> pair_good pr) ->
    arr_loop ord rec fe cs fxs pairs <> Fuel.
Proof.
  induction cs as [| x cs IH]; intros fxs pairs Hc Hg; cbn [arr_loop]; [discriminate|].
  assert (Hc' : forall x0, In x0 cs -> can n x0) by (intros x0 H0; apply Hc; right; exact H0).
  destruct (is_scalar x).
  - destruct (jmem x fxs); [apply IH; assumption | discriminate].
  - destruct fe; [discriminate|].
    pose proof (arraycat_nf x (Hc x (or_introl eq_refl)) pairs Hg) as H1.
    destruct (arraycat ord rec pairs x) as [np| |] eqn:Eac;
      [| discriminate | contradiction H1; reflexivity].
    destruct np as [| p0 np]; [discriminate|].
    apply IH; [exact Hc'|]. eapply arraycat_good; eassumption.
Qed.

Lemma arr_loop_good fe :
  forall cs fxs pairs fxs' pairs',
    (forall pr, In pr pairs -> pair_good pr) ->
    arr_loop ord rec fe cs fxs pairs = Ok (Some (fxs', pairs')) ->
    (forall pr, In pr pairs' -> pair_good pr) /\ incl fxs' fxs.
Proof.
  induction cs as [| x cs IH]; intros fxs pairs fxs' pairs' Hg; cbn [arr_loop].
  - intros [= <- <-]. split; [exact Hg | apply incl_refl].
  - destruct (is_scalar x).
    + destruct (jmem x fxs); [|discriminate]. intros H.
      destruct (IH _ _ _ _ Hg H) as [H1 H2]. split; [exact H1|].
      intros y Hy. apply H2 in Hy. apply jremove_in in Hy. tauto.
    + destruct fe; [discriminate|].
      destruct (arraycat ord rec pairs x) as [np| |] eqn:Eac; try discriminate.
      destruct np as [| p0 np]; [discriminate|]. intros H.
      eapply IH; [|exact H]. eapply arraycat_good; eassumption.
Qed.

Lemma match_arr_nf bs xs f :
  good M f -> inv bs0 M Q bs -> can (S n) (JArr xs) -> match_arr ord rec bs xs f <> Fuel.
Proof.
  intros Hf Hinv Hc. unfold match_arr.
  destruct (get_var xs None) as [[v cs]|] eqn:Eg; [|discriminate].
  destruct f as [| | | | fa |]; try discriminate.
  destruct (index_facts 0 fa) as [fxs fxa] eqn:Ei.
  destruct (get_var_spec _ _ _ _ Eg) as [Hnv Hcase].
  destruct (index_facts_spec _ _ _ _ Ei) as [Hfxs [Hfxa _]].
  assert (Hcsxs : forall x, In x cs -> In x xs).
  { destruct Hcase as [[_ ->] | [_ [s [_ [_ HP]]]]]; [auto|].
    intros x Hx. eapply Permutation_in; [apply Permutation_sym; exact HP|]. right. exact Hx. }
  assert (Hg0 : forall pr, In pr [([bs], fxa)] -> pair_good pr).
  { intros pr [<- | []]. split; cbn [fst snd].
    - intros b [<- | []]. exact Hinv.
    - intros j fact Hj.
      assert (H : In fact (map snd fxa)) by (apply in_map_iff; exists (j, fact); auto).
      rewrite Hfxa in H. apply filter_In in H. eapply good_elem; [exact Hf | tauto]. }
  assert (Hccs : forall x, In x cs -> can n x).
  { intros x Hx. eapply can_elem; [exact Hc | apply Hcsxs; exact Hx]. }
  pose proof (arr_loop_nf match fxa with [] => true | _ :: _ => false end cs fxs _ Hccs Hg0) as H1.
  destruct (arr_loop ord rec match fxa with [] => true | _ :: _ => false end cs fxs [([bs], fxa)])
    as [[[fxs' pairs]|]| |] eqn:El; [| discriminate | discriminate | contradiction H1; reflexivity].
  destruct v as [vname|]; [|discriminate].
  destruct (arr_loop_good _ _ _ _ _ _ Hg0 El) as [Hg1 Hsub].
  match goal with
  | |- match ?X with _ => _ end <> _ => assert (H2 : X <> Fuel)
  end.
  { apply arraycat_nf.
    - destruct Hcase as [[Habs _] | [_ [s [Ev [Hsv HP]]]]]; [discriminate|].
      injection Ev as ->. eapply can_var_elem; [exact Hc | | exact Hsv].
      eapply Permutation_in; [apply Permutation_sym; exact HP|]. left. reflexivity.
    - intros mpr Hmpr. apply in_map_iff in Hmpr. destruct Hmpr as [pr [<- Hpr]].
      destruct (Hg1 pr Hpr) as [G1 G2]. split; cbn [fst snd]; [exact G1|].
      intros j fact Hj. apply in_app_iff in Hj. destruct Hj as [Hj | Hj]; [eapply G2; exact Hj|].
      apply number_from_in in Hj. apply Hsub in Hj.
      eapply good_elem; [exact Hf | apply Hfxs; exact Hj]. }
  match goal with
  | |- match ?X with _ => _ end <> _ => destruct X as [np| |]
  end; [| discriminate | contradiction H2; reflexivity].
  destruct np; [destruct (is_optional vname)|]; discriminate.
Qed.

Lemma match_body_nf p f bs :
  good M f -> inv bs0 M Q bs -> can (S n) p -> match_body ord rec p f bs <> Fuel.
Proof.
  intros Hf Hinv Hc. unfold match_body.
  destruct p as [| x | x | s | xs | kvs].
  - destruct f; discriminate.
  - destruct f; try discriminate. destruct (Bool.eqb x b); discriminate.
  - destruct f; try discriminate. destruct (Z.eqb x z); discriminate.
  - destruct (is_var s) eqn:Ev.
    + destruct (is_anon s); [discriminate|].
      destruct (inequal f bs s); [|discriminate].
      destruct (lookup s bs) as [b|] eqn:El; [|discriminate].
      rewrite (bound_match_var_free rec b f bs (proj1 (proj1 (proj2 Hinv) _ _ El))).
      apply Hnf; [exact Hf | exact Hinv|].
      destruct Hinv as [_ Hgb]. destruct (proj1 Hgb _ _ El) as [Hb1 Hb2].
      right. split; [exact Hb1|].
      destruct Hc as [Hc | [Hc _]].
      * cbn [json_depth] in Hc. lia.
      * cbn [var_free] in Hc. rewrite Ev in Hc. discriminate.
    + destruct f; try discriminate. destruct (String.eqb s s0); discriminate.
  - apply match_arr_nf; assumption.
  - destruct f; try discriminate. apply match_obj_nf; assumption.
Qed.

End Helpers.

Lemma match_nf : forall n, nf_rec (match_ ord n) n.
Proof.
  induction n as [| n IH]; intros p f bs Hf Hinv Hc.
  - pose proof (depth_pos p). destruct Hc as [Hc | [_ Hc]]; lia.
  - rewrite match_S. apply (match_body_nf (match_ ord n) n); try assumption.
    apply match_sound_rec; assumption.
Qed.

End Enough.

Theorem match_fuel_enough :
  forall ord, perm_oracle ord ->
  forall p f bs0,
    var_free f = true -> var_free_bs bs0 = true ->
    match_ ord (match_bound p f bs0) p f bs0 <> Fuel.
Proof.
  intros ord Hord p f bs0 Hvf Hvfb. unfold match_bound.
  set (M := Nat.max (json_depth f) (depth_bs bs0)).
  apply (match_nf ord Hord bs0 M (fun _ => True) (fun _ _ _ _ => I)).
  - split; [exact Hvf | unfold M; lia].
  - split; [apply extends_refl | apply good_bs_init; [exact Hvfb | unfold M; lia | exact I]].
  - left. lia.
Qed.

(** with [match_fuel_mono]: any larger fuel gives the same, non-[Fuel], result *)
Corollary match_fuel_irrelevant :
  forall ord, perm_oracle ord ->
  forall p f bs0 fuel,
    var_free f = true -> var_free_bs bs0 = true ->
    match_bound p f bs0 <= fuel ->
    match_ ord fuel p f bs0 = match_ ord (match_bound p f bs0) p f bs0.
Proof.
  intros ord Hord p f bs0 fuel Hvf Hvfb Hle.
  apply (match_mono ord _ _ Hle). apply match_fuel_enough; assumption.
Qed.
