(** List facts used by the timer proofs (C17). *)
From Coq Require Import ZArith List Bool Arith Lia.
From Sheens Require Import Spec.TimerSpec.
Import ListNotations.
Local Open Scope Z_scope.

Lemma memn_in : forall x l, memn x l = true <-> In x l.
Proof.
  intros x l. unfold memn. rewrite existsb_exists. split.
  - intros [y [Hy He]]. apply Nat.eqb_eq in He. subst. exact Hy.
  - intros Hi. exists x. split; [exact Hi | apply Nat.eqb_refl].
Qed.

Lemma memn_false : forall x l, memn x l = false <-> ~ In x l.
Proof.
  intros x l. split.
  - intros H Hi. apply memn_in in Hi. congruence.
  - intros H. destruct (memn x l) eqn:E; [|reflexivity].
    exfalso. apply H. apply memn_in. exact E.
Qed.

Lemma in_rmn : forall x y l, In y (rmn x l) <-> In y l /\ y <> x.
Proof.
  intros x y l. unfold rmn. rewrite filter_In. split; intros [H1 H2]; split; try exact H1.
  - apply negb_true_iff in H2. apply Nat.eqb_neq in H2. congruence.
  - apply negb_true_iff. apply Nat.eqb_neq. congruence.
Qed.

Lemma in_rm_id : forall i l e, In e (rm_id i l) <-> In e l /\ tid e <> i.
Proof.
  intros i l e. unfold rm_id, id_is. rewrite filter_In. split; intros [H1 H2]; split; try exact H1.
  - apply negb_true_iff in H2. apply Nat.eqb_neq in H2. exact H2.
  - apply negb_true_iff. apply Nat.eqb_neq. exact H2.
Qed.

Lemma in_rm_gen : forall g l e, In e (rm_gen g l) <-> In e l /\ tg e <> g.
Proof.
  intros g l e. unfold rm_gen, gen_is. rewrite filter_In. split; intros [H1 H2]; split; try exact H1.
  - apply negb_true_iff in H2. apply Nat.eqb_neq in H2. exact H2.
  - apply negb_true_iff. apply Nat.eqb_neq. exact H2.
Qed.

Lemma find_id_some : forall i l e, find_id i l = Some e -> In e l /\ tid e = i.
Proof.
  intros i l e H. unfold find_id in H. apply find_some in H. destruct H as [H1 H2].
  split; [exact H1 | apply Nat.eqb_eq; exact H2].
Qed.

Lemma find_id_none : forall i l, find_id i l = None -> forall e, In e l -> tid e <> i.
Proof.
  intros i l H e He Hi. unfold find_id in H.
  pose proof (find_none _ _ H e He) as Hn. unfold id_is in Hn.
  apply Nat.eqb_neq in Hn. congruence.
Qed.

Lemma find_gen_some : forall g l e, find_gen g l = Some e -> In e l /\ tg e = g.
Proof.
  intros g l e H. unfold find_gen in H. apply find_some in H. destruct H as [H1 H2].
  split; [exact H1 | apply Nat.eqb_eq; exact H2].
Qed.

Lemma find_gen_none : forall g l, find_gen g l = None -> forall e, In e l -> tg e <> g.
Proof.
  intros g l H e He Hi. unfold find_gen in H.
  pose proof (find_none _ _ H e He) as Hn. unfold gen_is in Hn.
  apply Nat.eqb_neq in Hn. congruence.
Qed.

Lemma nodup_map_filter : forall (A B : Type) (f : A -> B) (p : A -> bool) (l : list A),
  NoDup (map f l) -> NoDup (map f (filter p l)).
Proof.
  intros A B f p l. induction l as [|x r IH]; simpl; intros H.
  - constructor.
  - inversion H as [|y ys Hn Hr]; subst. destruct (p x); simpl.
    + constructor.
      * intros Hi. apply Hn. apply in_map_iff in Hi. destruct Hi as [z [Hz1 Hz2]].
        apply filter_In in Hz2. apply in_map_iff. exists z. tauto.
      * apply IH. exact Hr.
    + apply IH. exact Hr.
Qed.

Lemma nodup_key_inj : forall (A : Type) (f : A -> nat) (l : list A) (a b : A),
  NoDup (map f l) -> In a l -> In b l -> f a = f b -> a = b.
Proof.
  intros A f l. induction l as [|x r IH]; simpl; intros a b H Ha Hb Hf.
  - contradiction.
  - inversion H as [|y ys Hn Hr]; subst.
    destruct Ha as [Ha|Ha]; destruct Hb as [Hb|Hb]; subst.
    + reflexivity.
    + exfalso. apply Hn. rewrite Hf. apply in_map. exact Hb.
    + exfalso. apply Hn. rewrite <- Hf. apply in_map. exact Ha.
    + apply IH; assumption.
Qed.

Lemma nodup_snoc : forall (A : Type) (l : list A) (x : A),
  NoDup l -> ~ In x l -> NoDup (l ++ [x]).
Proof.
  intros A l x. induction l as [|y r IH]; simpl; intros H Hn.
  - constructor; [intros [] | constructor].
  - inversion H as [|z zs Hz Hr]; subst. constructor.
    + intros Hi. apply in_app_or in Hi. destruct Hi as [Hi|[Hi|[]]].
      * exact (Hz Hi).
      * apply Hn. left. symmetry. exact Hi.
    + apply IH; [exact Hr | intros Hi; apply Hn; right; exact Hi].
Qed.

Lemma nodup_filter_nat : forall (p : nat -> bool) (l : list nat), NoDup l -> NoDup (filter p l).
Proof. intros p l H. apply NoDup_filter. exact H. Qed.

(** with unique ids, the entry found under an id is the only one with it *)
Lemma find_id_unique : forall i l old e,
  NoDup (map tid l) -> find_id i l = Some old -> In e l -> tid e = i -> e = old.
Proof.
  intros i l old e Hnd Hf He Hi. apply find_id_some in Hf. destruct Hf as [Ho Hoi].
  apply (nodup_key_inj tm tid l e old Hnd He Ho). congruence.
Qed.

Lemma ids_eqb_refl_map : forall l : list nat, ids_eqb l l = true.
Proof.
  intros l. unfold ids_eqb. rewrite Nat.eqb_refl.
  assert (H : subn l l = true).
  { unfold subn. apply forallb_forall. intros x Hx. apply memn_in. exact Hx. }
  rewrite H. reflexivity.
Qed.

Lemma find_app_none : forall (A : Type) (f : A -> bool) (l1 l2 : list A),
  find f l1 = None -> find f (l1 ++ l2) = find f l2.
Proof.
  intros A f l1 l2. induction l1 as [|x r IH]; simpl; intros H.
  - reflexivity.
  - destruct (f x); [discriminate | apply IH; exact H].
Qed.
