(** The listed order of a pattern object's entries is irrelevant (exact
    equality of results, same oracle). *)
From Sheens Require Import Model.Match Proofs.SortKvs.
From Coq Require Import List Permutation.
Import ListNotations.

Lemma match_obj_perm : forall ord rec bs kvs kvs' fkvs,
  Permutation kvs kvs' -> NoDup (map fst kvs) ->
  match_obj ord rec bs kvs fkvs = match_obj ord rec bs kvs' fkvs.
Proof.
  intros ord rec bs kvs kvs' fkvs HP HND.
  destruct kvs as [|kv1 [|kv2 r]].
  - apply Permutation_nil in HP. subst. reflexivity.
  - apply Permutation_length_1_inv in HP. subst. reflexivity.
  - pose proof (Permutation_length HP) as HL.
    destruct kvs' as [|kv1' [|kv2' r']]; try discriminate HL.
    unfold match_obj.
    rewrite (existsb_perm _ (fun kv => is_var (fst kv)) _ _ HP : has_var_key _ = has_var_key _).
    rewrite (sort_kvs_perm _ _ HP HND). destruct kv1, kv1'. reflexivity.
Qed.

Theorem match_pattern_entry_order_irrelevant : forall ord fuel kvs kvs' f bs,
  Permutation kvs kvs' -> NoDup (map fst kvs) ->
  match_ ord fuel (JObj kvs) f bs = match_ ord fuel (JObj kvs') f bs.
Proof.
  intros ord fuel kvs kvs' f bs HP HND.
  destruct fuel as [|n]; cbn [match_]; [reflexivity|].
  destruct f; try reflexivity.
  apply match_obj_perm; assumption.
Qed.

Print Assumptions match_pattern_entry_order_irrelevant.
