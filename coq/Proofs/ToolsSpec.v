(** The computed graph notions of Spec/Graph.v are the propositions they are
    named after. *)
From Sheens Require Import Spec.Graph Proofs.ToolsSets.
From Coq Require Import Permutation Lia.

Lemma in_all_branches : forall g x b,
  In (x, b) (all_branches g) <-> exists o, In (x, o) g /\ In b (branches_of o).
Proof.
  intros g x b. unfold all_branches. rewrite in_flat_map. split.
  - intros ([y o] & Hp & Hb). cbn in Hb. apply in_map_iff in Hb.
    destruct Hb as (b' & E & Hb'). inversion E; subst. exists o. auto.
  - intros (o & Hp & Hb). exists (x, o). split; [exact Hp |]. cbn. apply in_map. exact Hb.
Qed.

Lemma in_targets : forall g t, In t (targets g) <-> is_target g t.
Proof.
  intros g t. unfold targets, is_target, has_branch. rewrite in_map_iff. split.
  - intros ([x b] & E & H). exists x, b. auto.
  - intros (x & b & H & E). exists (x, b). auto.
Qed.

Lemma in_names : forall (g : gspec) x, In x (names g) <-> exists o, In (x, o) g.
Proof.
  intros g x. unfold names. rewrite in_map_iff. split.
  - intros ([y o] & E & H). cbn in E. subst. exists o. exact H.
  - intros (o & H). exists (x, o). auto.
Qed.

Lemma g_missing_spec : forall g t, In t (g_missing g) <-> missing_target g t.
Proof.
  intros g t. unfold g_missing, missing_target, is_node.
  rewrite sdedup_In, filter_In, in_targets, andb_true_iff, !negb_true_iff, smem_notIn. tauto.
Qed.

Lemma g_tvars_spec : forall g t, In t (g_tvars g) <-> target_variable g t.
Proof.
  intros g t. unfold g_tvars, target_variable. rewrite sdedup_In, filter_In, in_targets. tauto.
Qed.

Lemma is_nil_true : forall (A : Type) (l : list A), is_nil l = true <-> l = [].
Proof. intros A [|x r]; cbn; split; intros H; try reflexivity; discriminate. Qed.

Lemma g_terminal_spec : forall g x, In x (g_terminal g) <-> terminal_node g x.
Proof.
  intros g x. unfold g_terminal, terminal_node. rewrite in_map_iff. split.
  - intros ([y o] & E & H). cbn in E. subst. apply filter_In in H. destruct H as [H1 H2].
    cbn in H2. apply is_nil_true in H2. exists o. auto.
  - intros (o & H1 & H2). exists (x, o). split; [reflexivity |].
    apply filter_In. split; [exact H1 |]. cbn. apply is_nil_true. exact H2.
Qed.

Lemma g_orphans_spec : forall g x, In x (g_orphans g) <-> orphan_node g x.
Proof.
  intros g x. unfold g_orphans, orphan_node, is_node.
  rewrite filter_In, negb_true_iff, smem_notIn, in_targets. tauto.
Qed.

Lemma g_empty_spec : forall g x, In x (g_empty g) <-> has_empty_target g x.
Proof.
  intros g x. unfold g_empty, has_empty_target, has_branch. rewrite sdedup_In, in_map_iff. split.
  - intros ([y b] & E & H). cbn in E. subst. apply filter_In in H. destruct H as [H1 H2].
    cbn in H2. apply String.eqb_eq in H2. exists b. auto.
  - intros (b & H1 & H2). exists (x, b). split; [reflexivity |].
    apply filter_In. split; [exact H1 |]. cbn. apply String.eqb_eq. exact H2.
Qed.

Lemma in_opt_list : forall (A : Type) (o : option A) x, In x (opt_list o) <-> o = Some x.
Proof.
  intros A [a|] x; cbn; split; intros H; try discriminate; try tauto.
  - destruct H as [-> | []]. reflexivity.
  - inversion H. auto.
Qed.

Lemma g_interp_used_spec : forall g i, In i (g_interp_used g) <-> uses_interpreter g i.
Proof.
  intros g i. unfold g_interp_used, uses_interpreter, has_branch.
  rewrite sdedup_In, in_app_iff, !in_flat_map. split.
  - intros [([x o] & H & Hi) | ([x b] & H & Hi)]; cbn in Hi; apply in_opt_list in Hi.
    + left. exists x, o. auto.
    + right. exists x, b. auto.
  - intros [(x & o & H & Hi) | (x & b & H & Hi)].
    + left. exists (x, o). split; [exact H |]. cbn. apply in_opt_list. exact Hi.
    + right. exists (x, b). split; [exact H |]. cbn. apply in_opt_list. exact Hi.
Qed.

(** the reported interpreters: those used, or the one word "default" when
    no source names any *)
Lemma g_interpreters_spec : forall g,
  (forall i, ~ uses_interpreter g i) /\ g_interpreters g = [default_interpreter] \/
  (exists i, uses_interpreter g i) /\ (forall i, In i (g_interpreters g) <-> uses_interpreter g i).
Proof.
  intros g. unfold g_interpreters. destruct (g_interp_used g) as [|i r] eqn:E.
  - left. split; [| reflexivity]. intros i H. apply g_interp_used_spec in H. rewrite E in H. exact H.
  - right. split.
    + exists i. apply g_interp_used_spec. rewrite E. left. reflexivity.
    + intros j. rewrite <- E. apply g_interp_used_spec.
Qed.

(** no duplicates *)
Lemma NoDup_map_fst_filter : forall (A : Type) (f : string * A -> bool) (l : list (string * A)),
  NoDup (map fst l) -> NoDup (map fst (filter f l)).
Proof.
  intros A f l. induction l as [|[x a] r IH]; cbn; intros H; [constructor |].
  inversion H as [|? ? Hx Hr]; subst. destruct (f (x, a)); cbn; [| apply IH, Hr].
  constructor; [| apply IH, Hr]. intros Hin. apply Hx.
  apply in_map_iff in Hin. destruct Hin as (q & E & Hq). apply filter_In in Hq.
  apply in_map_iff. exists q. tauto.
Qed.

Lemma g_terminal_NoDup : forall g, NoDup (names g) -> NoDup (g_terminal g).
Proof. intros g H. apply NoDup_map_fst_filter. exact H. Qed.

Lemma g_orphans_NoDup : forall g, NoDup (names g) -> NoDup (g_orphans g).
Proof. intros g H. apply NoDup_filter. exact H. Qed.

(** the counts, in words: one per element of the graph with the feature *)
Lemma g_branches_sum : forall g,
  g_branches g = list_sum (map (fun p => List.length (branches_of (snd p))) g).
Proof.
  intros g. unfold g_branches, all_branches. induction g as [|p r IH]; cbn; [reflexivity |].
  rewrite app_length, map_length, IH. reflexivity.
Qed.

(** placeholders are the targets that are not nodes *)
Lemma g_placeholders_spec : forall g t,
  In t (g_placeholders g) <-> is_target g t /\ ~ is_node g t.
Proof.
  intros g t. unfold g_placeholders, is_node.
  rewrite sdedup_In, filter_In, in_targets, negb_true_iff, smem_notIn. tauto.
Qed.

Lemma NoDup_app_disjoint : forall (A : Type) (a b : list A),
  NoDup a -> NoDup b -> (forall x, In x a -> ~ In x b) -> NoDup (a ++ b).
Proof.
  intros A a. induction a as [|x r IH]; intros b Ha Hb Hd; cbn; [exact Hb |].
  inversion Ha as [|? ? Hx Hr]; subst. constructor.
  - rewrite in_app_iff. intros [H | H]; [contradiction | apply (Hd x); [left; reflexivity | exact H]].
  - apply IH; try assumption. intros y Hy. apply Hd. right. exact Hy.
Qed.

Lemma g_render_nodes_NoDup : forall g, NoDup (names g) -> NoDup (g_render_nodes g).
Proof.
  intros g H. unfold g_render_nodes. apply NoDup_app_disjoint; [exact H | apply sdedup_NoDup |].
  intros x Hx Hp. apply g_placeholders_spec in Hp. destruct Hp as [_ Hn]. apply Hn. exact Hx.
Qed.

Lemma g_render_nodes_spec : forall g x,
  In x (g_render_nodes g) <-> is_node g x \/ is_target g x.
Proof.
  intros g x. unfold g_render_nodes. rewrite in_app_iff, g_placeholders_spec. unfold is_node.
  split; [tauto |]. intros [H | H]; [auto |].
  destruct (smem x (names g)) eqn:E; [left; apply smem_In; exact E |].
  right. split; [exact H | apply smem_notIn; exact E].
Qed.
