(** Writing a state out as JSON text and reading it back yields the very
    same state - hence the same processing from then on (C09). *)
From Sheens Require Import Model.StateText Proofs.JsonTextFacts.

Lemma plain_state_json st : plain_state st = true -> plain_json (state_json st) = true.
Proof.
  unfold plain_state, state_json. intros H. apply andb_true_iff in H. destruct H as [Hn Hb].
  cbn [plain_json forallb fst snd plain_string]. rewrite Hn.
  destruct (st_bs st) as [b|]; cbn [plain_json] in *; [rewrite Hb|]; reflexivity.
Qed.

Lemma state_of_state_json st : state_of_json (state_json st) = Some st.
Proof.
  unfold state_json, state_of_json. cbn. destruct st as [n [b|]]; reflexivity.
Qed.

Theorem decode_encode_state : forall st, plain_state st = true -> decode_state (encode_state st) = Some st.
Proof.
  intros st H. unfold decode_state, encode_state.
  rewrite (parse_print _ (plain_state_json st H)). apply state_of_state_json.
Qed.

(** two states with the same stored text are the same state *)
Corollary encode_state_inj : forall a b,
  plain_state a = true -> plain_state b = true -> encode_state a = encode_state b -> a = b.
Proof.
  intros a b Ha Hb E. pose proof (decode_encode_state a Ha) as Pa.
  rewrite E, (decode_encode_state b Hb) in Pa. congruence.
Qed.

(** persisting at a message boundary is unobservable: whatever is computed
    from the reloaded state equals what is computed from the state in memory *)
Corollary reload_unobservable : forall (A : Type) (process : state -> A) st,
  plain_state st = true ->
  option_map process (decode_state (encode_state st)) = Some (process st).
Proof. intros A process st H. rewrite (decode_encode_state st H). reflexivity. Qed.
