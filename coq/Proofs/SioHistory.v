(** Witnesses kept beside the C15 theorems.

    1. The behaviour of [SetMachine] before the repairs D13 / D42
       ([set_machine_prefix]: the new state of an existing machine is
       reported but not applied; the creation of a machine without
       specification and state is not a change) falsifies
       [C15_store_tracks_crew]: the witnesses that the correspondence corpus
       replays on the Go code.
    2. Restart equivalence across two different schedules is false without
       the commutation hypothesis of the property: two recorders that answer
       one message feed a third one in an order that depends on the map
       iteration order. *)
From Coq Require Import List String Bool Permutation.
From Sheens Require Import Model.SioRecorder Spec.SioSpec Proofs.SioPersist Proofs.SioRestart.
Import ListNotations.
Open Scope string_scope.

(** [Crew.SetMachine] as it was (sio/crew.go at 66642ba) *)
Definition set_machine_prefix (c : rcrew) (m : mid) (src : option rcfg) (st : option mstate) : rcrew :=
  let st' := option_map defaulted st in
  let mc := match aget m (machines _ c) with
            | Some mc => mk_mach (or_else src (m_src _ mc)) (m_state _ mc)
            | None => mk_mach src (match st' with Some s => s | None => default_state end)
            end in
  let c1 := with_machines _ c (aset m mc (machines _ c)) in
  if is_some src || is_some st then
    let ch := cache_get _ c m in
    with_cache _ c1 (aset m (mk_chg (c_deleted _ ch) (or_else st' (c_state _ ch)) (or_else src (c_src _ ch))) (cache _ c))
  else c1.

Definition flush (cs : rcrew * list (mid * entry rcfg)) : outcome (rcrew * list (mid * entry rcfg)) :=
  obind (r_process_msg 10 (fst cs) (JObj [("tag", JStr "flush"); ("to", JStr "nobody")])) (fun '(c1, r) =>
  Done (c1, stdio_fold _ (snd cs) (res_changed _ r))).

(** D13: create a, report; replace a's state the old way, report *)
Definition d13_prefix_run : outcome (rcrew * list (mid * entry rcfg)) :=
  obind (flush (set_machine_prefix (init_crew rcfg) "a" (Some (mk_rcfg "L0" RFwd)) None, [])) (fun cs =>
  flush (set_machine_prefix (fst cs) "a" None (Some (mk_ms "flip" [("k", JNum 4)])), snd cs)).

Lemma d13_prefix_refuted :
  exists c store, d13_prefix_run = Done (c, store) /\ store_view rcfg rresolves store "a" <> live_view rcfg c "a".
Proof.
  destruct d13_prefix_run as [[c store]| |] eqn:H; try (vm_compute in H; discriminate).
  exists c, store. split; [reflexivity|]. vm_compute in H. injection H as <- <-. vm_compute. discriminate.
Qed.

(** D42: a machine created without specification and state, reported the old way *)
Lemma d42_prefix_refuted :
  exists c store, flush (set_machine_prefix (init_crew rcfg) "z" None None, []) = Done (c, store)
                  /\ store_view rcfg rresolves store "z" <> live_view rcfg c "z".
Proof.
  destruct (flush (set_machine_prefix (init_crew rcfg) "z" None None, [])) as [[c store]| |] eqn:H;
    try (vm_compute in H; discriminate).
  exists c, store. split; [reflexivity|]. vm_compute in H. injection H as <- <-. vm_compute. discriminate.
Qed.

(** two schedules *)
Definition ord_rev (A : Type) (l : list (mid * A)) : list (mid * A) := rev l.
Lemma ord_rev_perm : forall A (l : list (mid * A)), Permutation (ord_rev A l) l.
Proof. intros. apply Permutation_sym. apply Permutation_rev. Qed.

(** the statement without the commutation hypothesis: whatever the two
    schedules, original and rebooted crew end with the same machines *)
Definition restart_two_schedules_full : Prop :=
  forall ord1 ord2 : forall A : Type, list (mid * A) -> list (mid * A),
  (forall A l, Permutation (ord1 A l) l) -> (forall A l, Permutation (ord2 A l) l) ->
  forall fuel h c store,
    run_history rcfg rreact rdecode rresolves rcfg_eqb ord1 fuel (init_crew rcfg, []) h = Done (c, store) ->
    ends_with_msg rcfg h -> wedged rcfg c = false ->
    forall h2,
      orel (fun x y => machines rcfg (fst x) = machines rcfg (fst y))
           (run_outputs rcfg rreact rdecode rresolves rcfg_eqb ord1 fuel c h2)
           (run_outputs rcfg rreact rdecode rresolves rcfg_eqb ord2 fuel (boot rcfg rresolves ord2 store) h2).

Definition two_sched_h : list (hop rcfg) :=
  [OpSet "a" (Some (mk_rcfg "L0" RFwd)) None; OpSet "b" (Some (mk_rcfg "L1" RFwd)) None;
   OpSet "c" (Some (mk_rcfg "L2" RMute)) None;
   OpMsg (JObj [("tag", JStr "flush"); ("to", JStr "nobody")])].
Definition two_sched_h2 : list (hop rcfg) :=
  [OpMsg (JObj [("tag", JStr "t"); ("then", JArr [JObj [("tag", JStr "u"); ("to", JStr "c")]]);
                ("to", JArr [JStr "a"; JStr "b"])])].

Lemma restart_two_schedules_refuted : ~ restart_two_schedules_full.
Proof.
  intros F.
  destruct (run_history rcfg rreact rdecode rresolves rcfg_eqb ord_id 20 (init_crew rcfg, []) two_sched_h)
    as [[c store]| |] eqn:H; try (vm_compute in H; discriminate).
  assert (E : ends_with_msg rcfg two_sched_h).
  { exists (removelast two_sched_h), (JObj [("tag", JStr "flush"); ("to", JStr "nobody")]). reflexivity. }
  assert (W : wedged rcfg c = false) by (vm_compute in H; injection H as <- <-; reflexivity).
  specialize (F ord_id ord_rev (fun A l => Permutation_refl (ord_id A l)) ord_rev_perm 20 two_sched_h c store H E W two_sched_h2).
  vm_compute in H. injection H as <- <-. vm_compute in F. discriminate.
Qed.
