(** C03, the aliasing half: the heap-level matcher (Model/MatchHeap.v)
    - erases to the pure model [match_] (same list, same outcome class);
    - never writes to, and never returns, an address that existed before the
      call (in particular the caller's map);
    - returns pairwise distinct addresses, all allocated during the call, and
      writes only to addresses allocated during the call;
    - never writes to an address after a [Matcher.Match] (the outer one or
      any inner one) has returned it.
    All statements hold for every order oracle (no hypothesis on [ord]). *)
From Coq Require Import Lia.
From Sheens Require Import Model.Match Model.MatchHeap.

(** * The heap primitives *)

Lemma upd_length b : forall h a, List.length (upd a b h) = List.length h.
Proof.
  induction h as [|y t IHt]; intros a0; [reflexivity|].
  destruct a0; cbn [upd List.length]; [reflexivity | rewrite IHt; reflexivity].
Qed.

Lemma upd_nth_same b : forall h a, a < List.length h -> nth a (upd a b h) [] = b.
Proof.
  induction h as [|x r IH]; intros a Ha; cbn [List.length] in Ha; [lia|].
  destruct a; cbn [upd nth]; [reflexivity | apply IH; lia].
Qed.

Lemma upd_nth_other b : forall h a c, c <> a -> nth c (upd a b h) [] = nth c h [].
Proof.
  induction h as [|x r IH]; intros a c Hne; [reflexivity|].
  destruct a; cbn [upd].
  - destruct c; [congruence | reflexivity].
  - destruct c; [reflexivity|]. cbn [nth]. apply IH. congruence.
Qed.

Lemma hsize_hcopy a s : hsize (snd (hcopy a s)) = S (hsize s).
Proof. unfold hcopy, hsize. cbn [snd st_heap]. rewrite app_length. cbn [List.length]. lia. Qed.

Lemma hread_hcopy_old a s b : b < hsize s -> hread (snd (hcopy a s)) b = hread s b.
Proof. intros Hb. unfold hcopy, hread. cbn [snd st_heap]. apply app_nth1. exact Hb. Qed.

Lemma hread_hcopy_new a s : hread (snd (hcopy a s)) (hsize s) = hread s a.
Proof.
  unfold hcopy, hread at 1. cbn [snd st_heap]. rewrite app_nth2; [|unfold hsize; lia].
  unfold hsize. rewrite Nat.sub_diag. reflexivity.
Qed.

Lemma hsize_hwrite a k v s : hsize (hwrite a k v s) = hsize s.
Proof. unfold hwrite, hsize. cbn [st_heap]. apply upd_length. Qed.

Lemma hread_hwrite_same a k v s :
  a < hsize s -> hread (hwrite a k v s) a = bset k v (hread s a).
Proof. intros Ha. unfold hwrite, hread at 1. cbn [st_heap]. apply upd_nth_same. exact Ha. Qed.

Lemma hread_hwrite_other a k v s b : b <> a -> hread (hwrite a k v s) b = hread s b.
Proof. intros Hne. unfold hwrite, hread. cbn [st_heap]. apply upd_nth_other. exact Hne. Qed.

(** * What a run may do to the heap and the log *)

(** only the owned address, among the addresses that existed, may change *)
Definition frame (own : option addr) (s s' : st) : Prop :=
  hsize s <= hsize s' /\
  forall b, b < hsize s -> own <> Some b -> hread s' b = hread s b.

(** a log (newest first) in which no write follows a return of its target *)
Fixpoint no_late (L : list event) : Prop :=
  match L with
  | [] => True
  | EvWrite x _ :: r => (forall l, In (EvReturn l) r -> ~ In x l) /\ no_late r
  | _ :: r => no_late r
  end.

(** [n0], [n1]: heap size before and after *)
Definition log_ok (own : option addr) (n0 n1 : nat) (L : list event) : Prop :=
  (forall x k, In (EvWrite x k) L -> own = Some x \/ n0 <= x < n1) /\
  (forall l x, In (EvReturn l) L -> In x l -> n0 <= x < n1) /\
  no_late L.

Definition eff (own : option addr) (s s' : st) : Prop :=
  frame own s s' /\
  exists L, st_log s' = L ++ st_log s /\ log_ok own (hsize s) (hsize s') L.

Lemma no_late_app L2 : forall L1,
  no_late L2 -> no_late L1 ->
  (forall x k l, In (EvWrite x k) L2 -> In (EvReturn l) L1 -> ~ In x l) ->
  no_late (L2 ++ L1).
Proof.
  induction L2 as [|e r IH]; intros L1 H2 H1 Hx; [exact H1|].
  destruct e as [a d|x k|l]; cbn [app no_late] in *.
  - apply IH; [exact H2 | exact H1|]. intros x k l Hw. apply (Hx x k l). right. exact Hw.
  - destruct H2 as [Hr H2]. split.
    + intros l Hin. apply in_app_or in Hin. destruct Hin as [Hin | Hin].
      * apply Hr. exact Hin.
      * apply (Hx x k l); [left; reflexivity | exact Hin].
    + apply IH; [exact H2 | exact H1|]. intros x' k' l' Hw. apply (Hx x' k' l'). right. exact Hw.
  - apply IH; [exact H2 | exact H1|]. intros x k l' Hw. apply (Hx x k l'). right. exact Hw.
Qed.

Lemma eff_refl own s : eff own s s.
Proof.
  split; [split; [lia | reflexivity]|].
  exists []. split; [reflexivity|]. repeat split; try (intros; contradiction).
Qed.

Lemma eff_trans s s1 s2 : eff None s s1 -> eff None s1 s2 -> eff None s s2.
Proof.
  intros [[Hs1 Hf1] [L1 [El1 [Hw1 [Hr1 Hn1]]]]] [[Hs2 Hf2] [L2 [El2 [Hw2 [Hr2 Hn2]]]]].
  split.
  - split; [lia|]. intros b Hb Ho. rewrite Hf2; [apply Hf1; assumption | lia | exact Ho].
  - exists (L2 ++ L1). split; [rewrite El2, El1, app_assoc; reflexivity|].
    split; [|split].
    + intros x k Hin. right. apply in_app_or in Hin. destruct Hin as [Hin | Hin].
      * destruct (Hw2 x k Hin) as [Hc | Hc]; [discriminate | lia].
      * destruct (Hw1 x k Hin) as [Hc | Hc]; [discriminate | lia].
    + intros l x Hin Hx. apply in_app_or in Hin. destruct Hin as [Hin | Hin].
      * pose proof (Hr2 l x Hin Hx). lia.
      * pose proof (Hr1 l x Hin Hx). lia.
    + apply no_late_app; [exact Hn2 | exact Hn1|].
      intros x k l Hw Hret Hx.
      destruct (Hw2 x k Hw) as [Hc | Hc]; [discriminate|].
      pose proof (Hr1 l x Hret Hx). lia.
Qed.

Lemma eff_own a s s' : eff None s s' -> eff (Some a) s s'.
Proof.
  intros [[Hs Hf] [L [El [Hw [Hr Hn]]]]]. split.
  - split; [exact Hs|]. intros b Hb _. apply Hf; [exact Hb | discriminate].
  - exists L. split; [exact El|]. split; [|split; assumption].
    intros x k Hin. destruct (Hw x k Hin) as [Hc | Hc]; [discriminate | right; exact Hc].
Qed.

Lemma eff_size own s s' : eff own s s' -> hsize s <= hsize s'.
Proof. intros [[H _] _]. exact H. Qed.

Lemma eff_read s s' b : eff None s s' -> b < hsize s -> hread s' b = hread s b.
Proof. intros [[_ H] _] Hb. apply H; [exact Hb | discriminate]. Qed.

Lemma eff_reads s s' l :
  eff None s s' -> (forall x, In x l -> x < hsize s) -> map (hread s') l = map (hread s) l.
Proof.
  intros He Hl. apply map_ext_in. intros x Hx. apply (eff_read s s' x He). apply Hl. exact Hx.
Qed.

Lemma eff_hcopy a s : eff None s (snd (hcopy a s)).
Proof.
  split.
  - split; [rewrite hsize_hcopy; lia|]. intros b Hb _. apply hread_hcopy_old. exact Hb.
  - exists [EvCopy a (hsize s)]. split; [reflexivity|].
    split; [|split].
    + intros x k [H | []]. discriminate.
    + intros l x [H | []]. discriminate.
    + exact I.
Qed.

Lemma eff_hwrite a k v s : a < hsize s -> eff (Some a) s (hwrite a k v s).
Proof.
  intros Ha. split.
  - split; [rewrite hsize_hwrite; lia|]. intros b Hb Ho. apply hread_hwrite_other. congruence.
  - exists [EvWrite a k]. split; [reflexivity|].
    split; [|split].
    + intros x k' [H | []]. inversion H. left. reflexivity.
    + intros l x [H | []]. discriminate.
    + split; [intros l []| exact I].
Qed.

(** * Results *)

(** all fresh, pairwise distinct *)
Definition fresh_nodup (s : st) (out : list addr) (s' : st) : Prop :=
  NoDup out /\ forall x, In x out -> hsize s <= x < hsize s'.

(** a run hands back exactly the addresses it was given, or only fresh ones *)
Definition out_ok (ins : option (list addr)) (s : st) (out : list addr) (s' : st) : Prop :=
  ins = Some out \/ fresh_nodup s out s'.

Lemma NoDup_app_intro {T : Type} (x y : list T) :
  NoDup x -> NoDup y -> (forall z, In z x -> In z y -> False) -> NoDup (x ++ y).
Proof.
  induction x as [|a r IH]; intros Hx Hy Hd; [exact Hy|].
  inversion Hx as [|a' r' Hna Hr]; subst. cbn [app]. constructor.
  - intros Hin. apply in_app_or in Hin. destruct Hin as [Hin | Hin]; [exact (Hna Hin)|].
    apply (Hd a); [left; reflexivity | exact Hin].
  - apply IH; [exact Hr | exact Hy|]. intros z Hz. apply Hd. right. exact Hz.
Qed.

Lemma fresh_nodup_nil s s' : fresh_nodup s [] s'.
Proof. split; [constructor | intros x []]. Qed.

Lemma fresh_nodup_mono s0 s s' s1 out :
  hsize s0 <= hsize s -> hsize s' <= hsize s1 -> fresh_nodup s out s' -> fresh_nodup s0 out s1.
Proof. intros H0 H1 [Hn Hb]. split; [exact Hn|]. intros x Hx. pose proof (Hb x Hx). lia. Qed.

Lemma fresh_nodup_app s s1 s2 x y :
  fresh_nodup s x s1 -> fresh_nodup s1 y s2 -> hsize s <= hsize s1 -> hsize s1 <= hsize s2 ->
  fresh_nodup s (x ++ y) s2.
Proof.
  intros [Nx Bx] [Ny By] H1 H2. split.
  - apply NoDup_app_intro; [exact Nx | exact Ny|].
    intros z Hzx Hzy. pose proof (Bx z Hzx). pose proof (By z Hzy). lia.
  - intros z Hz. apply in_app_or in Hz. destruct Hz as [Hz | Hz].
    + pose proof (Bx z Hz). lia.
    + pose proof (By z Hz). lia.
Qed.

Lemma out_ok_bound ins s out s' :
  out_ok (Some ins) s out s' -> hsize s <= hsize s' -> (forall x, In x ins -> x < hsize s) ->
  forall x, In x out -> x < hsize s'.
Proof.
  intros [E | [_ Hb]] Hs Hi x Hx.
  - inversion E. subst. pose proof (Hi x Hx). lia.
  - pose proof (Hb x Hx). lia.
Qed.

Section RunOk.
  Context {A B : Type}.
  Variable flat : A -> list addr.
  Variable rel : st -> A -> B -> Prop.

  Definition outs (r : res A) : list addr :=
    match r with Ok a => flat a | _ => [] end.

  Definition res_rel (s : st) (r : res A) (pr : res B) : Prop :=
    match r, pr with
    | Ok a, Ok b => rel s a b
    | Err, Err => True
    | Fuel, Fuel => True
    | _, _ => False
    end.

  Record run_ok (own : option addr) (ins : option (list addr))
         (s : st) (r : res A) (s' : st) (pr : res B) : Prop := mk_run_ok {
    ro_eff : eff own s s';
    ro_erase : res_rel s' r pr;
    ro_out : out_ok ins s (outs r) s'
  }.
End RunOk.

Arguments ro_eff {A B flat rel own ins s r s' pr}.
Arguments ro_erase {A B flat rel own ins s r s' pr}.
Arguments ro_out {A B flat rel own ins s r s' pr}.

(** lists of maps *)
Definition flat_l (l : list addr) : list addr := l.
Definition rel_l (s : st) (l : list addr) (pl : list bindings) : Prop := map (hread s) l = pl.

(** lists of (maps, remaining structured facts) *)
Definition erase_pair (s : st) (p : hpair_t) : pair_t := (map (hread s) (fst p), snd p).
Definition flat_p (l : list hpair_t) : list addr := List.concat (map fst l).
Definition rel_p (s : st) (l : list hpair_t) (pl : list pair_t) : Prop := map (erase_pair s) l = pl.

Definition flat_o (o : option (list json * list hpair_t)) : list addr :=
  match o with Some (_, l) => flat_p l | None => [] end.
Definition rel_o (s : st) (o : option (list json * list hpair_t))
           (po : option (list json * list pair_t)) : Prop :=
  match o, po with
  | None, None => True
  | Some (x, l), Some (px, pl) => x = px /\ rel_p s l pl
  | _, _ => False
  end.

Notation run_l := (run_ok flat_l rel_l).
Notation run_p := (run_ok flat_p rel_p).
Notation run_o := (run_ok flat_o rel_o).

Lemma erase_pairs_eff s s' l :
  eff None s s' -> (forall x, In x (flat_p l) -> x < hsize s) ->
  map (erase_pair s') l = map (erase_pair s) l.
Proof.
  intros He Hl. apply map_ext_in. intros [bss mm] Hin. unfold erase_pair. cbn [fst snd].
  rewrite (eff_reads s s' bss He); [reflexivity|].
  intros x Hx. apply Hl. unfold flat_p. apply in_concat. exists bss. split; [|exact Hx].
  change bss with (fst (bss, mm)). apply in_map. exact Hin.
Qed.

Lemma rel_p_combine s l pl :
  rel_p s l pl -> map (hread s) (flat_p l) = combine_pairs pl.
Proof.
  intros <-. unfold flat_p, combine_pairs. rewrite concat_map, !map_map. reflexivity.
Qed.

(** * The open-recursion hypothesis and the helpers *)

Definition rec_ok (hrec : hrec_t) (prec : rec_t) : Prop :=
  forall p f a s r s', a < hsize s -> hrec p f a s = (r, s') ->
  run_l (Some a) (Some [a]) s r s' (prec p f (hread s a)).

Lemma run_l_stay own a s :
  run_l own (Some [a]) s (Ok [a]) s (Ok [hread s a]).
Proof. split; [apply eff_refl | reflexivity | left; reflexivity]. Qed.

Lemma run_l_none own ins s :
  run_l own ins s (Ok []) s (Ok []).
Proof. split; [apply eff_refl | reflexivity | right; apply fresh_nodup_nil]. Qed.

Lemma out_ok_none s out s' : out_ok None s out s' -> fresh_nodup s out s'.
Proof. intros [H | H]; [discriminate | exact H]. Qed.

Lemma out_ok_weaken ins s out s' : out_ok None s out s' -> out_ok ins s out s'.
Proof. intros H. right. apply out_ok_none. exact H. Qed.

Lemma out_ok_mono ins s out s1 s2 :
  out_ok ins s out s1 -> hsize s1 <= hsize s2 -> out_ok ins s out s2.
Proof.
  intros [H | H] Hs; [left; exact H | right].
  apply (fresh_nodup_mono s s s1 s2); [lia | exact Hs | exact H].
Qed.

Lemma run_err {A B : Type} (flat : A -> list addr) (rel : st -> A -> B -> Prop) own ins s s' :
  eff own s s' -> run_ok flat rel own ins s Err s' Err.
Proof. intros H. split; [exact H | exact I | right; apply fresh_nodup_nil]. Qed.

Lemma run_fuel {A B : Type} (flat : A -> list addr) (rel : st -> A -> B -> Prop) own ins s s' :
  eff own s s' -> run_ok flat rel own ins s Fuel s' Fuel.
Proof. intros H. split; [exact H | exact I | right; apply fresh_nodup_nil]. Qed.

Lemma run_seq {A B : Type} (flat : A -> list addr) (rel : st -> A -> B -> Prop)
      ins ins1 s s1 r s2 pr :
  eff None s s1 -> run_ok flat rel None ins1 s1 r s2 pr ->
  match ins1 with
  | None => True
  | Some mid => fresh_nodup s mid s1 \/ ins = Some mid
  end ->
  run_ok flat rel None ins s r s2 pr.
Proof.
  intros He1 [He2 Hr Ho] Hmid.
  pose proof (eff_size _ _ _ He1) as Hs1. pose proof (eff_size _ _ _ He2) as Hs2.
  split; [exact (eff_trans _ _ _ He1 He2) | exact Hr|].
  destruct Ho as [E | F].
  - subst ins1. destruct Hmid as [Hf | Hi]; [right | left; exact Hi].
    apply (fresh_nodup_mono s s s1 s2); [lia | exact Hs2 | exact Hf].
  - right. apply (fresh_nodup_mono s s1 s2 s2); [exact Hs1 | lia | exact F].
Qed.

Lemma flat_p_app x y : flat_p (x ++ y) = flat_p x ++ flat_p y.
Proof. unfold flat_p. rewrite map_app, concat_app. reflexivity. Qed.

Lemma run_l_app s s1 s2 x y px py :
  eff None s s1 -> eff None s1 s2 ->
  fresh_nodup s x s1 -> rel_l s1 x px -> fresh_nodup s1 y s2 -> rel_l s2 y py ->
  run_l None None s (Ok (x ++ y)) s2 (Ok (px ++ py)).
Proof.
  intros He1 He2 Fx Rx Fy Ry. split; [exact (eff_trans _ _ _ He1 He2)| |].
  - cbn. unfold rel_l in *. rewrite map_app. f_equal; [|exact Ry].
    rewrite (eff_reads s1 s2 x He2); [exact Rx|].
    intros z Hz. destruct Fx as [_ Hb]. pose proof (Hb z Hz). lia.
  - right. cbn [outs flat_l].
    apply (fresh_nodup_app s s1 s2); [exact Fx | exact Fy | exact (eff_size _ _ _ He1)
                                      | exact (eff_size _ _ _ He2)].
Qed.

Lemma run_p_app s s1 s2 x y px py :
  eff None s s1 -> eff None s1 s2 ->
  fresh_nodup s (flat_p x) s1 -> rel_p s1 x px -> fresh_nodup s1 (flat_p y) s2 -> rel_p s2 y py ->
  run_p None None s (Ok (x ++ y)) s2 (Ok (px ++ py)).
Proof.
  intros He1 He2 Fx Rx Fy Ry. split; [exact (eff_trans _ _ _ He1 He2)| |].
  - cbn. unfold rel_p in *. rewrite map_app. f_equal; [|exact Ry].
    rewrite (erase_pairs_eff s1 s2 x He2); [exact Rx|].
    intros z Hz. destruct Fx as [_ Hb]. pose proof (Hb z Hz). lia.
  - right. cbn [outs]. rewrite flat_p_app.
    apply (fresh_nodup_app s s1 s2); [exact Fx | exact Fy | exact (eff_size _ _ _ He1)
                                      | exact (eff_size _ _ _ He2)].
Qed.

Lemma run_weaken {A B : Type} (flat : A -> list addr) (rel : st -> A -> B -> Prop)
      a ins ins' s r s' pr :
  run_ok flat rel None ins s r s' pr -> ins = None \/ ins = ins' ->
  run_ok flat rel (Some a) ins' s r s' pr.
Proof.
  intros [He Hr Ho] Hi. split; [apply eff_own; exact He | exact Hr|].
  destruct Hi as [-> | ->]; [apply out_ok_weaken; exact Ho | exact Ho].
Qed.

Lemma run_l_write a k v s :
  a < hsize s ->
  run_l (Some a) (Some [a]) s (Ok [a]) (hwrite a k v s) (Ok [bset k v (hread s a)]).
Proof.
  intros Ha. split; [apply eff_hwrite; exact Ha| | left; reflexivity].
  cbn. unfold rel_l. cbn [map]. rewrite hread_hwrite_same; [reflexivity | exact Ha].
Qed.

(** inequal *)
Lemma hinequal_ok f a v s iq s1 :
  a < hsize s -> hinequal f a v s = (iq, s1) ->
  match iq, inequal f (hread s a) v with
  | HNotUsing, NotUsing => s1 = s
  | HUsing r, Using pr => run_l (Some a) (Some [a]) s (Ok r) s1 (Ok pr)
  | _, _ => False
  end.
Proof.
  intros Ha E. unfold hinequal in E. unfold inequal.
  destruct (negb inequalities); [inversion E; reflexivity|].
  destruct (lookup v (hread s a)) as [j|]; [|inversion E; reflexivity].
  destruct j as [| |b| | |]; try (inversion E; reflexivity).
  destruct f as [| |x| | |]; try (inversion E; reflexivity).
  destruct (ineq_parse v) as [[op vv]|]; [|inversion E; reflexivity].
  destruct (sat op x b); [|inversion E; subst; apply run_l_none].
  destruct (lookup vv (hread s a)) as [j|].
  - destruct j as [| |c| | |]; try (inversion E; reflexivity).
    destruct (Z.eqb c x); inversion E; subst; [apply run_l_stay | apply run_l_none].
  - inversion E; subst. apply run_l_write. exact Ha.
Qed.

Lemma merged_erase s extra (pairs : list hpair_t) :
  map (erase_pair s) (map (fun pr : hpair_t => (fst pr, snd pr ++ extra)) pairs) =
  map (fun pr : pair_t => (fst pr, snd pr ++ extra)) (map (erase_pair s) pairs).
Proof. rewrite !map_map. apply map_ext. intros [bss mm]. reflexivity. Qed.

Lemma merged_flat extra (pairs : list hpair_t) :
  flat_p (map (fun pr : hpair_t => (fst pr, snd pr ++ extra)) pairs) = flat_p pairs.
Proof. unfold flat_p. rewrite map_map. reflexivity. Qed.

(** copyBindingss *)
Lemma hcopys_ok l : forall s ds s',
  (forall x, In x l -> x < hsize s) -> hcopys l s = (ds, s') ->
  eff None s s' /\ map (hread s') ds = map (hread s) l /\ fresh_nodup s ds s'.
Proof.
  induction l as [|a r IH]; intros s ds s' Hl E; cbn [hcopys] in E.
  - inversion E; subst. split; [apply eff_refl | split; [reflexivity | apply fresh_nodup_nil]].
  - destruct (hcopy a s) as [d s1] eqn:Ec.
    assert (Ed : d = hsize s) by (unfold hcopy in Ec; inversion Ec; reflexivity).
    assert (Es1 : s1 = snd (hcopy a s)) by (rewrite Ec; reflexivity).
    assert (He1 : eff None s s1) by (rewrite Es1; apply eff_hcopy).
    assert (Hsz : hsize s1 = S (hsize s)) by (rewrite Es1; apply hsize_hcopy).
    destruct (hcopys r s1) as [ds' s2] eqn:Er. inversion E; subst ds s'. clear E.
    assert (Hr : forall x, In x r -> x < hsize s1).
    { intros x Hx. pose proof (Hl x (or_intror Hx)). lia. }
    destruct (IH s1 ds' s2 Hr Er) as [He2 [Hm Hf]].
    split; [exact (eff_trans s s1 s2 He1 He2)|]. split.
    + cbn [map]. f_equal.
      * rewrite (eff_read s1 s2 d He2); [|lia]. rewrite Es1, Ed. apply hread_hcopy_new.
      * rewrite Hm. apply eff_reads; [exact He1|]. intros x Hx. apply Hl. right. exact Hx.
    + change (d :: ds') with ([d] ++ ds').
      apply (fresh_nodup_app s s1 s2); [|exact Hf | lia | exact (eff_size _ _ _ He2)].
      split; [repeat constructor; intros []|]. intros x [<- | []]. lia.
Qed.

Section Helpers.
  Variable ord : order_oracle.
  Variable hrec : hrec_t.
  Variable prec : rec_t.
  Hypothesis Hrec : rec_ok hrec prec.

  (** Matcher.Match: nothing that existed is touched, everything returned is fresh *)
  Lemma hMatch_ok p f a s r s' :
    a < hsize s -> hMatch hrec p f a s = (r, s') ->
    run_l None None s r s' (prec p f (hread s a)).
  Proof.
    intros Ha E. unfold hMatch in E.
    destruct (hcopy a s) as [a' s1] eqn:Ec.
    assert (Ea' : a' = hsize s) by (unfold hcopy in Ec; inversion Ec; reflexivity).
    assert (Es1 : s1 = snd (hcopy a s)) by (rewrite Ec; reflexivity).
    destruct (hrec p f a' s1) as [r0 s2] eqn:Er.
    assert (Hsz : hsize s1 = S (hsize s)) by (rewrite Es1; apply hsize_hcopy).
    assert (Ha' : a' < hsize s1) by lia.
    pose proof (Hrec p f a' s1 r0 s2 Ha' Er) as H.
    assert (Hrd : hread s1 a' = hread s a) by (rewrite Es1, Ea'; apply hread_hcopy_new).
    rewrite Hrd in H. destruct H as [[[Hs2 Hf2] [L [El [Hw [Hr Hn]]]]] Her Hout].
    assert (Hc : eff None s s1) by (rewrite Es1; apply eff_hcopy).
    destruct Hc as [[Hs1 Hf1] _].
    set (L1 := [EvCopy a (hsize s)]).
    assert (El1 : st_log s1 = L1 ++ st_log s) by (rewrite Es1; reflexivity).
    assert (Hw1 : forall x k, ~ In (EvWrite x k) L1) by (intros x k [Hc | []]; discriminate).
    assert (Hr1 : forall l, ~ In (EvReturn l) L1) by (intros l [Hc | []]; discriminate).
    assert (Hn1 : no_late L1) by exact I.
    clearbody L1.
    (* the outputs of the inner match are fresh for the outer call *)
    assert (Hfresh : fresh_nodup s (outs flat_l r0) s2).
    { destruct Hout as [Eo | [Hnd Hb]].
      - injection Eo as Eo'. rewrite <- Eo'. split; [repeat constructor; intros []|].
        intros x [<- | []]. lia.
      - split; [exact Hnd|]. intros x Hx. pose proof (Hb x Hx). lia. }
    (* frame and the log up to the return *)
    assert (Hfr : frame None s s2).
    { split; [lia|]. intros b Hb _. rewrite Hf2; [apply Hf1; [exact Hb | discriminate] | lia|].
      intros Hc. inversion Hc. lia. }
    assert (Hlog : log_ok None (hsize s) (hsize s2) (L ++ L1)).
    { split; [|split].
      - intros x k Hin. right. apply in_app_or in Hin. destruct Hin as [Hin | Hin].
        + destruct (Hw x k Hin) as [Hc | Hc]; [inversion Hc; lia | lia].
        + destruct (Hw1 x k Hin).
      - intros l x Hin Hx. apply in_app_or in Hin. destruct Hin as [Hin | Hin].
        + pose proof (Hr l x Hin Hx). lia.
        + destruct (Hr1 l Hin).
      - apply no_late_app; [exact Hn | exact Hn1|].
        intros x k l Hwx Hret Hx. destruct (Hr1 l Hret). }
    destruct r0 as [l| |]; inversion E; subst r s'; clear E.
    - split.
      + split; [exact Hfr|].
        exists (EvReturn l :: L ++ L1). split.
        * unfold hreturn. cbn [st_log]. rewrite El, El1, app_assoc. reflexivity.
        * destruct Hlog as [Hlw [Hlr Hln]]. split; [|split].
          -- intros x k [Hc | Hin]; [discriminate | apply (Hlw x k Hin)].
          -- intros l' x [Hc | Hin] Hx.
             ++ inversion Hc. subst l'. destruct Hfresh as [_ Hb]. apply (Hb x Hx).
             ++ apply (Hlr l' x Hin Hx).
          -- exact Hln.
      + exact Her.
      + right. exact Hfresh.
    - split; [split; [exact Hfr | exists (L ++ L1); split; [rewrite El, El1, app_assoc; reflexivity | exact Hlog]]
             | exact Her | right; apply fresh_nodup_nil].
    - split; [split; [exact Hfr | exists (L ++ L1); split; [rewrite El, El1, app_assoc; reflexivity | exact Hlog]]
             | exact Her | right; apply fresh_nodup_nil].
  Qed.

  (** matchWithBindingss *)
  Lemma hmwb_ok p f : forall bss s r s',
    (forall x, In x bss -> x < hsize s) -> hmwb hrec bss p f s = (r, s') ->
    run_l None None s r s' (mwb prec (map (hread s) bss) p f).
  Proof.
    induction bss as [|a t IH]; intros s r s' Hl E; cbn [hmwb] in E.
    - inversion E; subst. apply run_l_none.
    - destruct (hMatch hrec p f a s) as [r1 s1] eqn:E1.
      pose proof (hMatch_ok p f a s r1 s1 (Hl a (or_introl eq_refl)) E1) as [He1 Hr1 Ho1].
      cbn [map mwb].
      destruct r1 as [x| |]; destruct (prec p f (hread s a)) as [px| |]; cbn in Hr1; try contradiction.
      + destruct (hmwb hrec t p f s1) as [r2 s2] eqn:E2.
        assert (Ht : forall y, In y t -> y < hsize s1).
        { intros y Hy. pose proof (Hl y (or_intror Hy)). pose proof (eff_size _ _ _ He1). lia. }
        pose proof (IH s1 r2 s2 Ht E2) as [He2 Hr2 Ho2].
        rewrite (eff_reads s s1 t He1) in Hr2; [|intros y Hy; apply Hl; right; exact Hy].
        apply out_ok_none in Ho1. apply out_ok_none in Ho2.
        destruct r2 as [y| |]; destruct (mwb prec (map (hread s) t) p f) as [py| |];
          cbn in Hr2; try contradiction; inversion E; subst r s'; clear E.
        * split; [exact (eff_trans _ _ _ He1 He2)| |].
          -- cbn. unfold rel_l, flat_l in *. rewrite map_app. f_equal; [|exact Hr2].
             rewrite (eff_reads s1 s2 x He2); [exact Hr1|].
             intros z Hz. destruct Ho1 as [_ Hb]. pose proof (Hb z Hz). lia.
          -- right. cbn [outs flat_l] in *.
             apply (fresh_nodup_app s s1 s2); [exact Ho1 | exact Ho2 | exact (eff_size _ _ _ He1)
                                               | exact (eff_size _ _ _ He2)].
        * apply run_err. exact (eff_trans _ _ _ He1 He2).
        * apply run_fuel. exact (eff_trans _ _ _ He1 He2).
      + inversion E; subst. apply run_err. exact He1.
      + inversion E; subst. apply run_fuel. exact He1.
  Qed.

  (** mapcatMatch, constant keys: the given maps, or fresh ones *)
  Lemma hmapcat_ok fkvs : forall kvs bss s r s',
    (forall x, In x bss -> x < hsize s) -> hmapcat hrec bss kvs fkvs s = (r, s') ->
    run_l None (Some bss) s r s' (mapcat prec (map (hread s) bss) kvs fkvs).
  Proof.
    induction kvs as [|[k v] t IH]; intros bss s r s' Hl E; cbn [hmapcat] in E; cbn [mapcat].
    - inversion E; subst. split; [apply eff_refl | reflexivity | left; reflexivity].
    - destruct (assoc k fkvs) as [fv|].
      + destruct (hmwb hrec bss v fv s) as [r1 s1] eqn:E1.
        pose proof (hmwb_ok v fv bss s r1 s1 Hl E1) as [He1 Hr1 Ho1].
        apply out_ok_none in Ho1.
        destruct r1 as [x| |]; destruct (mwb prec (map (hread s) bss) v fv) as [px| |];
          cbn in Hr1; try contradiction.
        * unfold rel_l in Hr1. subst px. cbn [outs flat_l] in Ho1.
          destruct x as [|x0 xs]; cbn [map].
          -- inversion E; subst. split; [exact He1 | reflexivity | right; apply fresh_nodup_nil].
          -- assert (Hx : forall z, In z (x0 :: xs) -> z < hsize s1).
             { intros z Hz. destruct Ho1 as [_ Hb]. pose proof (Hb z Hz). lia. }
             pose proof (IH (x0 :: xs) s1 r s' Hx E) as H.
             apply (run_seq flat_l rel_l (Some bss) (Some (x0 :: xs)) s s1 r s' _ He1 H).
             left. exact Ho1.
        * inversion E; subst. apply run_err. exact He1.
        * inversion E; subst. apply run_fuel. exact He1.
      + destruct (is_optional_json v).
        * apply IH; assumption.
        * inversion E; subst. apply run_l_none.
  Qed.

  (** mapcatMatch, the property variable *)
  Lemma hpropvar_loop_ok k v bss : forall fkvs s r s',
    (forall x, In x bss -> x < hsize s) -> hpropvar_loop hrec bss k v fkvs s = (r, s') ->
    run_l None None s r s' (propvar_loop prec (map (hread s) bss) k v fkvs).
  Proof.
    induction fkvs as [|[fk fv] t IH]; intros s r s' Hl E; cbn [hpropvar_loop] in E;
      cbn [propvar_loop].
    - inversion E; subst. apply run_l_none.
    - destruct (hcopys bss s) as [ext s1] eqn:E0.
      destruct (hcopys_ok bss s ext s1 Hl E0) as [He0 [Hm0 Hf0]].
      destruct (hmwb hrec ext (JStr k) (JStr fk) s1) as [r1 s2] eqn:E1.
      assert (Hext : forall z, In z ext -> z < hsize s1).
      { intros z Hz. destruct Hf0 as [_ Hb]. pose proof (Hb z Hz). lia. }
      pose proof (hmwb_ok (JStr k) (JStr fk) ext s1 r1 s2 Hext E1) as [He1 Hr1 Ho1].
      rewrite Hm0 in Hr1. apply out_ok_none in Ho1.
      pose proof (eff_trans _ _ _ He0 He1) as He01.
      assert (Hl2 : forall x, In x bss -> x < hsize s2).
      { intros x Hx. pose proof (Hl x Hx). pose proof (eff_size _ _ _ He01). lia. }
      destruct r1 as [x| |]; destruct (mwb prec (map (hread s) bss) (JStr k) (JStr fk)) as [px| |];
        cbn in Hr1; try contradiction.
      + unfold rel_l in Hr1. subst px. cbn [outs flat_l] in Ho1.
        destruct x as [|x0 xs]; cbn [map].
        * pose proof (IH s2 r s' Hl2 E) as H.
          rewrite (eff_reads s s2 bss He01 Hl) in H.
          exact (run_seq flat_l rel_l None None s s2 r s' _ He01 H I).
        * change (hread s2 x0 :: map (hread s2) xs) with (map (hread s2) (x0 :: xs)).
          set (ext1 := x0 :: xs) in *. clearbody ext1.
          destruct (hmwb hrec ext1 v fv s2) as [r2 s3] eqn:E2.
          assert (Hext1 : forall z, In z ext1 -> z < hsize s2).
          { intros z Hz. destruct Ho1 as [_ Hb]. pose proof (Hb z Hz). lia. }
          pose proof (hmwb_ok v fv ext1 s2 r2 s3 Hext1 E2) as [He2 Hr2 Ho2].
          apply out_ok_none in Ho2.
          pose proof (eff_trans _ _ _ He01 He2) as He02.
          destruct r2 as [y| |]; destruct (mwb prec (map (hread s2) ext1) v fv) as [py| |];
            cbn in Hr2; try contradiction.
          -- destruct (hpropvar_loop hrec bss k v t s3) as [r3 s4] eqn:E3.
             assert (Hl3 : forall z, In z bss -> z < hsize s3).
             { intros z Hz. pose proof (Hl z Hz). pose proof (eff_size _ _ _ He02). lia. }
             pose proof (IH s3 r3 s4 Hl3 E3) as [He3 Hr3 Ho3].
             rewrite (eff_reads s s3 bss He02 Hl) in Hr3. apply out_ok_none in Ho3.
             destruct r3 as [g| |]; destruct (propvar_loop prec (map (hread s) bss) k v t) as [pg| |];
               cbn in Hr3; try contradiction; inversion E; subst r s'; clear E.
             ++ apply (run_seq flat_l rel_l None None s s2 _ s4 _ He01); [|exact I].
                exact (run_l_app s2 s3 s4 y g py pg He2 He3 Ho2 Hr2 Ho3 Hr3).
             ++ apply run_err. exact (eff_trans _ _ _ He02 He3).
             ++ apply run_fuel. exact (eff_trans _ _ _ He02 He3).
          -- inversion E; subst. apply run_err. exact He02.
          -- inversion E; subst. apply run_fuel. exact He02.
      + inversion E; subst. apply run_err. exact He01.
      + inversion E; subst. apply run_fuel. exact He01.
  Qed.

  (** arraycatMatch, one (bss, mm) pair *)
  Lemma htry_each_ok x bss mm_all : forall mm s r s',
    (forall z, In z bss -> z < hsize s) -> htry_each hrec bss x mm_all mm s = (r, s') ->
    run_p None None s r s' (try_each prec (map (hread s) bss) x mm_all mm).
  Proof.
    induction mm as [|[j fact] t IH]; intros s r s' Hl E; cbn [htry_each] in E; cbn [try_each].
    - inversion E; subst. split; [apply eff_refl | reflexivity | right; apply fresh_nodup_nil].
    - destruct (hcopys bss s) as [cp s1] eqn:E0.
      destruct (hcopys_ok bss s cp s1 Hl E0) as [He0 [Hm0 Hf0]].
      destruct (hmwb hrec cp x fact s1) as [r1 s2] eqn:E1.
      assert (Hcp : forall z, In z cp -> z < hsize s1).
      { intros z Hz. destruct Hf0 as [_ Hb]. pose proof (Hb z Hz). lia. }
      pose proof (hmwb_ok x fact cp s1 r1 s2 Hcp E1) as [He1 Hr1 Ho1].
      rewrite Hm0 in Hr1. apply out_ok_none in Ho1.
      pose proof (eff_trans _ _ _ He0 He1) as He01.
      destruct r1 as [acc| |]; destruct (mwb prec (map (hread s) bss) x fact) as [pacc| |];
        cbn in Hr1; try contradiction.
      + destruct (htry_each hrec bss x mm_all t s2) as [r2 s3] eqn:E2.
        assert (Hl2 : forall z, In z bss -> z < hsize s2).
        { intros z Hz. pose proof (Hl z Hz). pose proof (eff_size _ _ _ He01). lia. }
        pose proof (IH s2 r2 s3 Hl2 E2) as [He2 Hr2 Ho2].
        rewrite (eff_reads s s2 bss He01 Hl) in Hr2. apply out_ok_none in Ho2.
        unfold rel_l in Hr1. subst pacc. cbn [outs flat_l] in Ho1.
        destruct r2 as [rest| |]; destruct (try_each prec (map (hread s) bss) x mm_all t) as [prest| |];
          cbn in Hr2; try contradiction; inversion E; subst r s'; clear E.
        * apply (run_seq flat_p rel_p None None s s1 _ s3 _ He0); [|exact I].
          destruct acc as [|a0 acc']; cbn [map].
          -- split; [exact (eff_trans _ _ _ He1 He2) | exact Hr2|].
             right. apply (fresh_nodup_mono s1 s2 s3 s3);
                      [exact (eff_size _ _ _ He1) | lia | exact Ho2].
          -- change (hread s2 a0 :: map (hread s2) acc') with (map (hread s2) (a0 :: acc')).
             set (acc := a0 :: acc') in *.
             change ((acc, remove_idx j mm_all) :: rest) with ([(acc, remove_idx j mm_all)] ++ rest).
             change ((map (hread s2) acc, remove_idx j mm_all) :: prest)
               with ([(map (hread s2) acc, remove_idx j mm_all)] ++ prest).
             apply (run_p_app s1 s2 s3); [exact He1 | exact He2| | reflexivity | exact Ho2 | exact Hr2].
             unfold flat_p. cbn [map fst List.concat]. rewrite app_nil_r. exact Ho1.
        * apply run_err. exact (eff_trans _ _ _ He01 He2).
        * apply run_fuel. exact (eff_trans _ _ _ He01 He2).
      + inversion E; subst. apply run_err. exact He01.
      + inversion E; subst. apply run_fuel. exact He01.
  Qed.

  Lemma flat_p_cons bss mm r : flat_p ((bss, mm) :: r) = bss ++ flat_p r.
  Proof. reflexivity. Qed.

  (** arraycatMatch *)
  Lemma harraycat_ok x : forall pairs s r s',
    (forall z, In z (flat_p pairs) -> z < hsize s) -> harraycat ord hrec pairs x s = (r, s') ->
    run_p None None s r s' (arraycat ord prec (map (erase_pair s) pairs) x).
  Proof.
    induction pairs as [|[bss mm] t IH]; intros s r s' Hl E; cbn [harraycat] in E;
      cbn [map arraycat].
    - inversion E; subst. split; [apply eff_refl | reflexivity | right; apply fresh_nodup_nil].
    - unfold erase_pair at 1. cbn [fst snd].
      assert (Hbss : forall z, In z bss -> z < hsize s).
      { intros z Hz. apply Hl. rewrite flat_p_cons. apply in_or_app. left. exact Hz. }
      assert (Ht : forall z, In z (flat_p t) -> z < hsize s).
      { intros z Hz. apply Hl. rewrite flat_p_cons. apply in_or_app. right. exact Hz. }
      destruct (htry_each hrec bss x mm (ord _ mm) s) as [r1 s1] eqn:E1.
      pose proof (htry_each_ok x bss mm (ord _ mm) s r1 s1 Hbss E1) as [He1 Hr1 Ho1].
      apply out_ok_none in Ho1.
      destruct r1 as [a| |];
        destruct (try_each prec (map (hread s) bss) x mm (ord _ mm)) as [pa| |];
        cbn in Hr1; try contradiction.
      + destruct (harraycat ord hrec t x s1) as [r2 s2] eqn:E2.
        assert (Ht1 : forall z, In z (flat_p t) -> z < hsize s1).
        { intros z Hz. pose proof (Ht z Hz). pose proof (eff_size _ _ _ He1). lia. }
        pose proof (IH s1 r2 s2 Ht1 E2) as [He2 Hr2 Ho2].
        rewrite (erase_pairs_eff s s1 t He1 Ht) in Hr2. apply out_ok_none in Ho2.
        destruct r2 as [b| |]; destruct (arraycat ord prec (map (erase_pair s) t) x) as [pb| |];
          cbn in Hr2; try contradiction; inversion E; subst r s'; clear E.
        * exact (run_p_app s s1 s2 a b pa pb He1 He2 Ho1 Hr1 Ho2 Hr2).
        * apply run_err. exact (eff_trans _ _ _ He1 He2).
        * apply run_fuel. exact (eff_trans _ _ _ He1 He2).
      + inversion E; subst. apply run_err. exact He1.
      + inversion E; subst. apply run_fuel. exact He1.
  Qed.

  Lemma run_o_none own ins s : run_o own ins s (Ok None) s (Ok None).
  Proof. split; [apply eff_refl | exact I | right; apply fresh_nodup_nil]. Qed.

  (** the loop over the non-variable elements of an array pattern *)
  Lemma harr_loop_ok fe : forall xs fxs pairs s r s',
    (forall z, In z (flat_p pairs) -> z < hsize s) ->
    harr_loop ord hrec fe xs fxs pairs s = (r, s') ->
    run_o None (Some (flat_p pairs)) s r s'
          (arr_loop ord prec fe xs fxs (map (erase_pair s) pairs)).
  Proof.
    induction xs as [|x t IH]; intros fxs pairs s r s' Hl E; cbn [harr_loop] in E; cbn [arr_loop].
    - inversion E; subst. split; [apply eff_refl | split; reflexivity | left; reflexivity].
    - destruct (is_scalar x).
      + destruct (jmem x fxs).
        * apply IH; assumption.
        * inversion E; subst. apply run_o_none.
      + destruct fe.
        * inversion E; subst. apply run_o_none.
        * destruct (harraycat ord hrec pairs x s) as [r1 s1] eqn:E1.
          pose proof (harraycat_ok x pairs s r1 s1 Hl E1) as [He1 Hr1 Ho1].
          apply out_ok_none in Ho1.
          destruct r1 as [np| |];
            destruct (arraycat ord prec (map (erase_pair s) pairs) x) as [pnp| |];
            cbn in Hr1; try contradiction.
          -- unfold rel_p in Hr1. subst pnp. cbn [outs] in Ho1.
             destruct np as [|n0 np']; cbn [map].
             ++ inversion E; subst. split; [exact He1 | exact I | right; apply fresh_nodup_nil].
             ++ change (erase_pair s1 n0 :: map (erase_pair s1) np')
                  with (map (erase_pair s1) (n0 :: np')).
                set (np := n0 :: np') in *.
                assert (Hnp : forall z, In z (flat_p np) -> z < hsize s1).
                { intros z Hz. destruct Ho1 as [_ Hb]. pose proof (Hb z Hz). lia. }
                assert (E' : harr_loop ord hrec false t fxs np s1 = (r, s')) by exact E.
                pose proof (IH fxs np s1 r s' Hnp E') as H.
                apply (run_seq flat_o rel_o _ (Some (flat_p np)) s s1 r s' _ He1 H).
                left. exact Ho1.
          -- inversion E; subst. apply run_err. exact He1.
          -- inversion E; subst. apply run_fuel. exact He1.
  Qed.

  (** the array case of match *)
  Lemma hmatch_arr_ok a xs f s r s' :
    a < hsize s -> hmatch_arr ord hrec a xs f s = (r, s') ->
    run_l (Some a) (Some [a]) s r s' (match_arr ord prec (hread s a) xs f).
  Proof.
    intros Ha E.
    apply (run_weaken flat_l rel_l a (Some [a]) (Some [a])); [|right; reflexivity].
    unfold hmatch_arr in E. unfold match_arr.
    destruct (get_var xs None) as [[v cs]|]; [|inversion E; subst; apply run_err; apply eff_refl].
    destruct f as [| | | | fa |]; try (inversion E; subst; apply run_l_none).
    destruct (index_facts 0 fa) as [fxs fxa].
    set (fe := match fxa with [] => true | _ => false end) in *. clearbody fe.
    match type of E with
    | context [harr_loop ?o ?h ?e ?c ?x ?l ?t] =>
        destruct (harr_loop o h e c x l t) as [r1 s1] eqn:E1
    end.
    assert (Hl : forall z, In z (flat_p [([a], fxa)]) -> z < hsize s).
    { intros z [<- | []]. exact Ha. }
    pose proof (harr_loop_ok fe cs fxs [([a], fxa)] s r1 s1 Hl E1) as [He1 Hr1 Ho1].
    change (map (erase_pair s) [([a], fxa)]) with [([hread s a], fxa)] in Hr1.
    change (flat_p [([a], fxa)]) with [a] in Ho1, Hl.
    pose proof (eff_size _ _ _ He1) as Hs1.
    destruct r1 as [[[fxs' pairs]|]| |];
      destruct (arr_loop ord prec fe cs fxs [([hread s a], fxa)]) as [[[pfxs ppairs]|]| |];
      cbn in Hr1; try contradiction.
    - destruct Hr1 as [<- Hr1]. cbn [outs flat_o] in Ho1.
      set (extra := number_from (List.length fa) fxs') in *.
      set (merged := map (fun pr : hpair_t => (fst pr, snd pr ++ extra)) pairs) in *.
      assert (Hm : rel_p s1 merged
                     (map (fun pr : pair_t => (fst pr, snd pr ++ extra)) ppairs)).
      { unfold rel_p, merged. rewrite merged_erase. unfold rel_p in Hr1. rewrite Hr1. reflexivity. }
      assert (Hmf : flat_p merged = flat_p pairs) by apply merged_flat.
      assert (Hmb : forall z, In z (flat_p merged) -> z < hsize s1).
      { rewrite Hmf. apply (out_ok_bound [a] s (flat_p pairs) s1 Ho1 Hs1). exact Hl. }
      destruct v as [vname|].
      + destruct (harraycat ord hrec merged (JStr vname) s1) as [r2 s2] eqn:E2.
        pose proof (harraycat_ok (JStr vname) merged s1 r2 s2 Hmb E2) as [He2 Hr2 Ho2].
        unfold rel_p in Hm. rewrite Hm in Hr2. apply out_ok_none in Ho2.
        pose proof (eff_size _ _ _ He2) as Hs2.
        pose proof (eff_trans _ _ _ He1 He2) as He12.
        destruct r2 as [np| |];
          destruct (arraycat ord prec (map (fun pr : pair_t => (fst pr, snd pr ++ extra)) ppairs)
                             (JStr vname)) as [pnp| |];
          cbn in Hr2; try contradiction.
        * unfold rel_p in Hr2. subst pnp. cbn [outs] in Ho2.
          destruct np as [|n0 np']; cbn [map].
          -- destruct (is_optional vname); (cbv beta iota in E; injection E as <- <-).
             ++ split; [exact He12| |].
                ** cbn. unfold rel_l, flat_l, hcombine. fold (flat_p merged).
                   rewrite (eff_reads s1 s2 (flat_p merged) He2 Hmb).
                   apply rel_p_combine. exact Hm.
                ** cbn [outs flat_l]. unfold hcombine. fold (flat_p merged). rewrite Hmf.
                   apply (out_ok_mono _ s _ s1 s2 Ho1 Hs2).
             ++ split; [exact He12 | reflexivity | right; apply fresh_nodup_nil].
          -- (cbv beta iota in E; injection E as <- <-).
             change (erase_pair s2 n0 :: map (erase_pair s2) np')
               with (map (erase_pair s2) (n0 :: np')).
             set (np := n0 :: np') in *.
             split; [exact He12| |].
             ++ change (map (hread s2) (flat_p np) = combine_pairs (map (erase_pair s2) np)).
                apply rel_p_combine. reflexivity.
             ++ right. cbn [outs flat_l]. unfold hcombine. fold (flat_p np).
                apply (fresh_nodup_mono s s1 s2 s2); [exact Hs1 | lia | exact Ho2].
        * inversion E; subst. apply run_err. exact He12.
        * inversion E; subst. apply run_fuel. exact He12.
      + (cbv beta iota in E; injection E as <- <-). split; [exact He1| |].
        * cbn. unfold rel_l, flat_l, hcombine. fold (flat_p merged).
          apply rel_p_combine. exact Hm.
        * cbn [outs flat_l]. unfold hcombine. fold (flat_p merged). rewrite Hmf. exact Ho1.
    - inversion E; subst. split; [exact He1 | reflexivity | right; apply fresh_nodup_nil].
    - inversion E; subst. apply run_err. exact He1.
    - inversion E; subst. apply run_fuel. exact He1.
  Qed.

  (** the object case of match *)
  Lemma hmatch_obj_ok a kvs fkvs s r s' :
    a < hsize s -> hmatch_obj ord hrec a kvs fkvs s = (r, s') ->
    run_l (Some a) (Some [a]) s r s' (match_obj ord prec (hread s a) kvs fkvs).
  Proof.
    intros Ha E. unfold hmatch_obj in E. unfold match_obj.
    assert (Hl : forall z, In z [a] -> z < hsize s) by (intros z [<- | []]; exact Ha).
    destruct kvs as [|[k v] [|kv2 t]].
    - inversion E; subst. apply run_l_stay.
    - destruct (is_var k).
      + destruct allow_property_variables.
        * apply (run_weaken flat_l rel_l a None (Some [a])); [|left; reflexivity].
          exact (hpropvar_loop_ok k v [a] (ord _ fkvs) s r s' Hl E).
        * inversion E; subst. apply run_err. apply eff_refl.
      + apply (run_weaken flat_l rel_l a (Some [a]) (Some [a])); [|right; reflexivity].
        exact (hmapcat_ok fkvs [(k, v)] [a] s r s' Hl E).
    - destruct (check_bad_property_variables && has_var_key ((k, v) :: kv2 :: t));
        [inversion E; subst; apply run_err; apply eff_refl|].
      destruct (has_var_key ((k, v) :: kv2 :: t));
        [inversion E; subst; apply run_err; apply eff_refl|].
      apply (run_weaken flat_l rel_l a (Some [a]) (Some [a])); [|right; reflexivity].
      exact (hmapcat_ok fkvs (sort_kvs ((k, v) :: kv2 :: t)) [a] s r s' Hl E).
  Qed.

  (** a bound variable: the same map goes on to [match] *)
  Lemma hbound_match_ok b f a s r s' :
    a < hsize s -> hbound_match hrec b f a s = (r, s') ->
    run_l (Some a) (Some [a]) s r s' (bound_match prec b f (hread s a)).
  Proof.
    intros Ha E. unfold hbound_match in E. unfold bound_match.
    destruct b as [| | | t | |]; try (apply (Hrec _ _ _ _ _ _ Ha E)).
    destruct (is_var t); [|apply (Hrec _ _ _ _ _ _ Ha E)].
    destruct f as [| | | u | |]; try (inversion E; subst; apply run_l_none).
    destruct (String.eqb t u); inversion E; subst; [apply run_l_stay | apply run_l_none].
  Qed.
End Helpers.

(** * The recursive matcher *)
Theorem hmatch_ok ord : forall fuel, rec_ok (hmatch ord fuel) (match_ ord fuel).
Proof.
  induction fuel as [|n IH]; intros p f a s r s' Ha E.
  - inversion E; subst. apply run_fuel. apply eff_refl.
  - cbn [hmatch] in E. cbn [match_].
    destruct p as [|x|x|v|xs|kvs].
    + destruct f; inversion E; subst; (apply run_l_stay || apply run_l_none).
    + destruct f as [|y| | | |]; try (inversion E; subst; apply run_l_none).
      destruct (Bool.eqb x y); inversion E; subst; [apply run_l_stay | apply run_l_none].
    + destruct f as [| |y| | |]; try (inversion E; subst; apply run_l_none).
      destruct (Z.eqb x y); inversion E; subst; [apply run_l_stay | apply run_l_none].
    + destruct (is_var v).
      * destruct (is_anon v); [inversion E; subst; apply run_l_stay|].
        destruct (hinequal f a v s) as [iq s1] eqn:Ei.
        pose proof (hinequal_ok f a v s iq s1 Ha Ei) as H.
        destruct iq as [|ri]; destruct (inequal f (hread s a) v) as [|pri]; try contradiction.
        -- subst s1. destruct (lookup v (hread s a)) as [b|].
           ++ exact (hbound_match_ok (hmatch ord n) (match_ ord n) IH b f a s r s' Ha E).
           ++ inversion E; subst. apply run_l_write. exact Ha.
        -- inversion E; subst. exact H.
      * destruct f as [| | |t| |]; try (inversion E; subst; apply run_l_none).
        destruct (String.eqb v t); inversion E; subst; [apply run_l_stay | apply run_l_none].
    + exact (hmatch_arr_ok ord (hmatch ord n) (match_ ord n) IH a xs f s r s' Ha E).
    + destruct f as [| | | | |fkvs]; try (inversion E; subst; apply run_l_none).
      exact (hmatch_obj_ok ord (hmatch ord n) (match_ ord n) IH a kvs fkvs s r s' Ha E).
Qed.

(** * The entry point [Matcher.Match] *)

Lemma no_late_split A : forall l B,
  no_late (A ++ EvReturn l :: B) -> forall x k, In (EvWrite x k) A -> ~ In x l.
Proof.
  induction A as [|e A' IH]; intros l B Hn x k Hin; [destruct Hin|].
  destruct e as [a d|y k'|l']; cbn [app no_late] in Hn.
  - destruct Hin as [Hc | Hin]; [discriminate | exact (IH l B Hn x k Hin)].
  - destruct Hn as [Hr Hn]. destruct Hin as [Hc | Hin].
    + inversion Hc; subst. apply Hr. apply in_or_app. right. left. reflexivity.
    + exact (IH l B Hn x k Hin).
  - destruct Hin as [Hc | Hin]; [discriminate | exact (IH l B Hn x k Hin)].
Qed.

Section Top.
  Variable ord : order_oracle.

  Lemma hMatch_at_ok fuel p f c s r s' :
    c < hsize s -> hMatch_at ord fuel p f c s = (r, s') ->
    run_l None None s r s' (match_ ord fuel p f (hread s c)).
  Proof.
    intros Hc E.
    exact (hMatch_ok (hmatch ord fuel) (match_ ord fuel) (hmatch_ok ord fuel) p f c s r s' Hc E).
  Qed.

  (** (a) ERASURE *)
  Theorem heap_erasure fuel p f c s :
    c < hsize s ->
    read_res (hMatch_at ord fuel p f c s) = match_ ord fuel p f (hread s c).
  Proof.
    intros Hc. destruct (hMatch_at ord fuel p f c s) as [r s'] eqn:E.
    pose proof (hMatch_at_ok fuel p f c s r s' Hc E) as [_ Hr _].
    unfold read_res. cbn [fst snd].
    destruct r as [l| |]; destruct (match_ ord fuel p f (hread s c)) as [pl| |];
      cbn in Hr; try contradiction; try reflexivity.
    unfold rel_l in Hr. unfold read_all. rewrite Hr. reflexivity.
  Qed.

  Corollary heap_erasure_init fuel p f bs :
    read_res (hMatch_at ord fuel p f caller_addr (init_st bs)) = match_ ord fuel p f bs.
  Proof. apply (heap_erasure fuel p f caller_addr (init_st bs)). unfold caller_addr, init_st, hsize. cbn [st_heap List.length]. lia. Qed.

  (** (b) CALLER INTACT: no map that existed before the call - the caller's
      in particular - changes, is written, or is returned *)
  Theorem heap_caller_intact fuel p f c s r s' :
    c < hsize s -> hMatch_at ord fuel p f c s = (r, s') ->
    (forall b, b < hsize s -> hread s' b = hread s b) /\
    (forall b, b < hsize s -> ~ In b (res_addrs r)) /\
    exists L, st_log s' = L ++ st_log s /\
              forall b k, b < hsize s -> ~ In (EvWrite b k) L.
  Proof.
    intros Hc E.
    pose proof (hMatch_at_ok fuel p f c s r s' Hc E) as [He _ Ho].
    apply out_ok_none in Ho. split; [|split].
    - intros b Hb. exact (eff_read s s' b He Hb).
    - intros b Hb Hin. destruct Ho as [_ Hbd].
      change (res_addrs r) with (outs flat_l r) in Hin. pose proof (Hbd b Hin). lia.
    - destruct He as [_ [L [El [Hw _]]]]. exists L. split; [exact El|].
      intros b k Hb Hin. destruct (Hw b k Hin) as [Hx | Hx]; [discriminate | lia].
  Qed.

  (** (c) FRESH AND DISTINCT *)
  Theorem heap_results_fresh_distinct fuel p f c s r s' :
    c < hsize s -> hMatch_at ord fuel p f c s = (r, s') ->
    NoDup (res_addrs r) /\
    (forall x, In x (res_addrs r) -> hsize s <= x < hsize s') /\
    exists L, st_log s' = L ++ st_log s /\
              forall x k, In (EvWrite x k) L -> hsize s <= x < hsize s'.
  Proof.
    intros Hc E.
    pose proof (hMatch_at_ok fuel p f c s r s' Hc E) as [He _ Ho].
    apply out_ok_none in Ho. destruct Ho as [Hnd Hb].
    split; [exact Hnd | split; [exact Hb|]].
    destruct He as [_ [L [El [Hw _]]]]. exists L. split; [exact El|].
    intros x k Hin. destruct (Hw x k Hin) as [Hx | Hx]; [discriminate | exact Hx].
  Qed.

  (** so: changing one returned map changes neither another returned map nor
      any map that existed before the call *)
  Corollary heap_results_independent fuel p f c s r s' :
    c < hsize s -> hMatch_at ord fuel p f c s = (r, s') ->
    forall x k v, In x (res_addrs r) ->
    (forall y, In y (res_addrs r) -> y <> x -> hread (hwrite x k v s') y = hread s' y) /\
    (forall b, b < hsize s -> hread (hwrite x k v s') b = hread s b).
  Proof.
    intros Hc E x k v Hx.
    destruct (heap_results_fresh_distinct fuel p f c s r s' Hc E) as [_ [Hb _]].
    destruct (heap_caller_intact fuel p f c s r s' Hc E) as [Hi _].
    split.
    - intros y _ Hne. apply hread_hwrite_other. exact Hne.
    - intros b Hlt. rewrite hread_hwrite_other; [exact (Hi b Hlt)|].
      pose proof (Hb x Hx). lia.
  Qed.

  (** the last thing a successful Match does is to return its result *)
  Lemma hMatch_at_log_head fuel p f c s l s' :
    c < hsize s -> hMatch_at ord fuel p f c s = (Ok l, s') ->
    exists L', st_log s' = EvReturn l :: L' ++ st_log s.
  Proof.
    intros Hc E. unfold hMatch_at, hMatch in E.
    destruct (hcopy c s) as [a' s1] eqn:Ec.
    assert (Ea' : a' = hsize s) by (unfold hcopy in Ec; inversion Ec; reflexivity).
    assert (Es1 : s1 = snd (hcopy c s)) by (rewrite Ec; reflexivity).
    destruct (hmatch ord fuel p f a' s1) as [r0 s2] eqn:Er.
    assert (Ha' : a' < hsize s1) by (rewrite Es1, hsize_hcopy; lia).
    pose proof (hmatch_ok ord fuel p f a' s1 r0 s2 Ha' Er) as [[_ [L [El _]]] _ _].
    destruct r0 as [l0| |]; inversion E; subst.
    exists (L ++ [EvCopy c (hsize s)]). cbn [hreturn st_log]. rewrite El.
    cbn [hcopy snd st_log]. rewrite <- app_assoc. reflexivity.
  Qed.

  (** (d) NO LATE WRITES, in chronological order: the events of the call end
      with the return of the result, and after any return of a list of maps
      - by this Match or by a Match called inside it - no write targets a
      map of that list *)
  Theorem heap_no_late_writes fuel p f c s r s' :
    c < hsize s -> hMatch_at ord fuel p f c s = (r, s') ->
    exists C, chron s' = chron s ++ C /\
      (forall l, r = Ok l -> exists C', C = C' ++ [EvReturn l]) /\
      (forall C1 l C2, C = C1 ++ EvReturn l :: C2 ->
         forall x k, In (EvWrite x k) C2 -> ~ In x l).
  Proof.
    intros Hc E.
    pose proof (hMatch_at_ok fuel p f c s r s' Hc E) as [[_ [L [El [_ [_ Hn]]]]] _ _].
    exists (rev L). split; [|split].
    - unfold chron. rewrite El, rev_app_distr. reflexivity.
    - intros l Hr. subst r.
      destruct (hMatch_at_log_head fuel p f c s l s' Hc E) as [L' El'].
      rewrite El in El'. change (EvReturn l :: L' ++ st_log s) with ((EvReturn l :: L') ++ st_log s) in El'.
      apply app_inv_tail in El'. subst L. exists (rev L'). reflexivity.
    - intros C1 l C2 EC x k Hin.
      assert (EL : L = rev C2 ++ EvReturn l :: rev C1).
      { rewrite <- (rev_involutive L), EC, rev_app_distr. cbn [rev]. rewrite <- app_assoc. reflexivity. }
      rewrite EL in Hn. apply (no_late_split (rev C2) l (rev C1) Hn x k).
      apply in_rev in Hin. exact Hin.
  Qed.
End Top.
