(** C03: the matcher's result does not depend on the order in which the
    runtime iterates over maps (the order oracle). *)
From Sheens Require Import Model.Match Proofs.OrderBase.
From Coq Require Import List Permutation.
Import ListNotations.

(** results equal as multisets, same outcome class; an exhausted fuel on
    either side says nothing *)
Definition res_equiv (a b : res (list bindings)) : Prop :=
  match a, b with
  | Ok r1, Ok r2 => Permutation r1 r2
  | Err, Err => True
  | Fuel, _ | _, Fuel => True
  | _, _ => False
  end.

(** internal form: [PermR eq] is [Permutation] *)
Definition rb_equiv (a b : res (list bindings)) : Prop :=
  res_rel (PermR (@eq bindings)) a b.

Lemma rb_equiv_res_equiv : forall a b, rb_equiv a b -> res_equiv a b.
Proof.
  intros a b H. destruct a, b; cbn in *; auto using PermR_eq_perm.
Qed.

Definition rec_equiv (rec1 rec2 : rec_t) : Prop :=
  forall p f bs, rb_equiv (rec1 p f bs) (rec2 p f bs).

(** * mwb *)

Lemma mwb_eq : forall rec bss p f, mwb rec bss p f = rflatmap (rec p f) bss.
Proof.
  intros rec bss p f. induction bss as [|bs r IH]; cbn; [reflexivity|].
  rewrite IH. reflexivity.
Qed.

Lemma mwb_rel : forall rec1 rec2 bss1 bss2 p f,
  rec_equiv rec1 rec2 -> PermR eq bss1 bss2 ->
  rb_equiv (mwb rec1 bss1 p f) (mwb rec2 bss2 p f).
Proof.
  intros rec1 rec2 bss1 bss2 p f Hrec HP.
  rewrite !mwb_eq. unfold rb_equiv.
  apply rflatmap_rel with (RA := eq); [exact HP|].
  intros x y ->. apply Hrec.
Qed.

(** emptiness is invariant *)
Lemma PermR_case : forall A B (R : A -> B -> Prop) l1 l2,
  PermR R l1 l2 ->
  (l1 = [] /\ l2 = []) \/
  (exists x1 t1 x2 t2, l1 = x1 :: t1 /\ l2 = x2 :: t2).
Proof.
  intros A B R l1 l2 H. pose proof (PermR_length _ _ _ _ _ H) as HL.
  destruct l1 as [|x1 t1], l2 as [|x2 t2]; try discriminate.
  - left. split; reflexivity.
  - right. exists x1, t1, x2, t2. split; reflexivity.
Qed.

(** * mapcat *)

Lemma mapcat_rel : forall rec1 rec2 kvs fkvs bss1 bss2,
  rec_equiv rec1 rec2 -> PermR eq bss1 bss2 ->
  rb_equiv (mapcat rec1 bss1 kvs fkvs) (mapcat rec2 bss2 kvs fkvs).
Proof.
  intros rec1 rec2 kvs fkvs bss1 bss2 Hrec. revert bss1 bss2.
  induction kvs as [|[k v] r IH]; intros bss1 bss2 HP; cbn [mapcat].
  - exact HP.
  - destruct (assoc k fkvs) as [fv|].
    + pose proof (mwb_rel rec1 rec2 bss1 bss2 v fv Hrec HP) as HM.
      unfold rb_equiv in *.
      destruct (mwb rec1 bss1 v fv) as [a1| |];
      destruct (mwb rec2 bss2 v fv) as [a2| |]; cbn in HM;
        try contradiction; try exact I;
        try apply res_rel_fuel_l; try apply res_rel_fuel_r.
      destruct (PermR_case _ _ _ _ _ HM) as [[-> ->] | [x1 [t1 [x2 [t2 [E1 E2]]]]]].
      * cbn. apply PermR_nil.
      * rewrite E1 at 1. rewrite E2 at 1. apply IH. exact HM.
    + destruct (is_optional_json v).
      * apply IH. exact HP.
      * cbn. apply PermR_nil.
Qed.

(** * the property-variable loop *)

Definition pv_step (rec : rec_t) (bss : list bindings) (k : string) (v : json)
           (kv : string * json) : res (list bindings) :=
  match mwb rec bss (JStr k) (JStr (fst kv)) with
  | Ok [] => Ok []
  | Ok ext => mwb rec ext v (snd kv)
  | Err => Err
  | Fuel => Fuel
  end.

Lemma propvar_loop_eq : forall rec bss k v fkvs,
  propvar_loop rec bss k v fkvs = rflatmap (pv_step rec bss k v) fkvs.
Proof.
  intros rec bss k v fkvs. induction fkvs as [|[fk fv] r IH]; cbn [propvar_loop rflatmap].
  - reflexivity.
  - unfold pv_step at 1. cbn [fst snd]. rewrite <- IH.
    destruct (mwb rec bss (JStr k) (JStr fk)) as [[|e ext]| |]; try reflexivity.
    destruct (propvar_loop rec bss k v r); reflexivity.
Qed.

Lemma pv_step_rel : forall rec1 rec2 bss1 bss2 k v kv,
  rec_equiv rec1 rec2 -> PermR eq bss1 bss2 ->
  rb_equiv (pv_step rec1 bss1 k v kv) (pv_step rec2 bss2 k v kv).
Proof.
  intros rec1 rec2 bss1 bss2 k v kv Hrec HP. unfold pv_step.
  pose proof (mwb_rel rec1 rec2 bss1 bss2 (JStr k) (JStr (fst kv)) Hrec HP) as HM.
  unfold rb_equiv in *.
  destruct (mwb rec1 bss1 (JStr k) (JStr (fst kv))) as [a1| |];
  destruct (mwb rec2 bss2 (JStr k) (JStr (fst kv))) as [a2| |]; cbn in HM;
    try contradiction; try exact I;
    try apply res_rel_fuel_l; try apply res_rel_fuel_r.
  destruct (PermR_case _ _ _ _ _ HM) as [[-> ->] | [x1 [t1 [x2 [t2 [E1 E2]]]]]].
  - cbn. apply PermR_nil.
  - rewrite E1 at 1. rewrite E2 at 1. apply mwb_rel; assumption.
Qed.

Lemma perm_oracles : forall ord1 ord2 A (l : list A),
  perm_oracle ord1 -> perm_oracle ord2 -> Permutation (ord1 A l) (ord2 A l).
Proof.
  intros ord1 ord2 A l H1 H2.
  eapply perm_trans; [apply H1 | apply Permutation_sym; apply H2].
Qed.

Lemma propvar_rel : forall ord1 ord2 rec1 rec2 bss1 bss2 k v fkvs,
  perm_oracle ord1 -> perm_oracle ord2 ->
  rec_equiv rec1 rec2 -> PermR eq bss1 bss2 ->
  rb_equiv (propvar ord1 rec1 bss1 k v fkvs) (propvar ord2 rec2 bss2 k v fkvs).
Proof.
  intros ord1 ord2 rec1 rec2 bss1 bss2 k v fkvs Ho1 Ho2 Hrec HP.
  unfold propvar. rewrite !propvar_loop_eq. unfold rb_equiv.
  apply rflatmap_rel with (RA := eq).
  - apply perm_PermR_eq. apply perm_oracles; assumption.
  - intros x y ->. apply pv_step_rel; assumption.
Qed.

(** * objects *)

Lemma PermR_single : forall (bs : bindings), PermR eq [bs] [bs].
Proof. intros bs. apply perm_PermR_eq. apply Permutation_refl. Qed.

Lemma match_obj_rel : forall ord1 ord2 rec1 rec2 bs kvs fkvs,
  perm_oracle ord1 -> perm_oracle ord2 -> rec_equiv rec1 rec2 ->
  rb_equiv (match_obj ord1 rec1 bs kvs fkvs) (match_obj ord2 rec2 bs kvs fkvs).
Proof.
  intros ord1 ord2 rec1 rec2 bs kvs fkvs Ho1 Ho2 Hrec. unfold match_obj.
  destruct kvs as [|[k v] [|kv2 r]].
  - cbn. apply PermR_single.
  - destruct (is_var k).
    + destruct allow_property_variables.
      * apply propvar_rel; auto using PermR_single.
      * exact I.
    + apply mapcat_rel; auto using PermR_single.
  - destruct (check_bad_property_variables && has_var_key ((k, v) :: kv2 :: r))%bool;
      [exact I|].
    destruct (has_var_key ((k, v) :: kv2 :: r)); [exact I|].
    apply mapcat_rel; auto using PermR_single.
Qed.

(** * arrays *)

Definition pair_rel (p1 p2 : pair_t) : Prop :=
  PermR eq (fst p1) (fst p2) /\ snd p1 = snd p2.

Definition pairs_rel : list pair_t -> list pair_t -> Prop := PermR pair_rel.

Definition te_step (rec : rec_t) (bss : list bindings) (x : json)
           (mm_all : list (nat * json)) (e : nat * json) : res (list pair_t) :=
  match mwb rec bss x (snd e) with
  | Ok acc => Ok (match acc with
                  | [] => []
                  | _ => [(acc, remove_idx (fst e) mm_all)]
                  end)
  | Err => Err
  | Fuel => Fuel
  end.

Lemma try_each_eq : forall rec bss x mm_all mm,
  try_each rec bss x mm_all mm = rflatmap (te_step rec bss x mm_all) mm.
Proof.
  intros rec bss x mm_all mm. induction mm as [|[j fact] r IH]; cbn [try_each rflatmap].
  - reflexivity.
  - unfold te_step at 1. cbn [fst snd]. rewrite <- IH.
    destruct (mwb rec bss x fact) as [acc| |]; try reflexivity.
    destruct (try_each rec bss x mm_all r) as [rest| |]; try reflexivity.
    destruct acc; reflexivity.
Qed.

Lemma te_step_rel : forall rec1 rec2 bss1 bss2 x mm_all e,
  rec_equiv rec1 rec2 -> PermR eq bss1 bss2 ->
  res_rel pairs_rel (te_step rec1 bss1 x mm_all e) (te_step rec2 bss2 x mm_all e).
Proof.
  intros rec1 rec2 bss1 bss2 x mm_all e Hrec HP. unfold te_step.
  pose proof (mwb_rel rec1 rec2 bss1 bss2 x (snd e) Hrec HP) as HM.
  unfold rb_equiv in *.
  destruct (mwb rec1 bss1 x (snd e)) as [a1| |];
  destruct (mwb rec2 bss2 x (snd e)) as [a2| |]; cbn in HM;
    try contradiction; try exact I.
  cbn. unfold pairs_rel.
  destruct (PermR_case _ _ _ _ _ HM) as [[-> ->] | [x1 [t1 [x2 [t2 [E1 E2]]]]]].
  - apply PermR_nil.
  - rewrite E1 at 1. rewrite E2 at 1.
    apply PermR_cons; [|apply PermR_nil].
    split; [exact HM | reflexivity].
Qed.

Lemma arraycat_eq : forall ord rec pairs x,
  arraycat ord rec pairs x =
  rflatmap (fun pr : pair_t => try_each rec (fst pr) x (snd pr) (ord _ (snd pr))) pairs.
Proof.
  intros ord rec pairs x. induction pairs as [|[bss mm] r IH]; cbn [arraycat rflatmap].
  - reflexivity.
  - cbn [fst snd]. rewrite <- IH. reflexivity.
Qed.

Lemma arraycat_rel : forall ord1 ord2 rec1 rec2 pairs1 pairs2 x,
  perm_oracle ord1 -> perm_oracle ord2 -> rec_equiv rec1 rec2 ->
  pairs_rel pairs1 pairs2 ->
  res_rel pairs_rel (arraycat ord1 rec1 pairs1 x) (arraycat ord2 rec2 pairs2 x).
Proof.
  intros ord1 ord2 rec1 rec2 pairs1 pairs2 x Ho1 Ho2 Hrec HP.
  rewrite !arraycat_eq. unfold pairs_rel.
  apply rflatmap_rel with (RA := pair_rel); [exact HP|].
  intros [bss1 mm1] [bss2 mm2] [Hb Hm]. cbn [fst snd] in *. subst mm2.
  rewrite !try_each_eq.
  apply rflatmap_rel with (RA := eq).
  - apply perm_PermR_eq. apply perm_oracles; assumption.
  - intros e1 e2 ->. apply te_step_rel; assumption.
Qed.

Definition opt_rel (o1 o2 : option (list json * list pair_t)) : Prop :=
  match o1, o2 with
  | None, None => True
  | Some (f1, p1), Some (f2, p2) => f1 = f2 /\ pairs_rel p1 p2
  | _, _ => False
  end.

Lemma arr_loop_rel : forall ord1 ord2 rec1 rec2 fe xs fxs pairs1 pairs2,
  perm_oracle ord1 -> perm_oracle ord2 -> rec_equiv rec1 rec2 ->
  pairs_rel pairs1 pairs2 ->
  res_rel opt_rel (arr_loop ord1 rec1 fe xs fxs pairs1) (arr_loop ord2 rec2 fe xs fxs pairs2).
Proof.
  intros ord1 ord2 rec1 rec2 fe xs fxs pairs1 pairs2 Ho1 Ho2 Hrec.
  revert fxs pairs1 pairs2.
  induction xs as [|x r IH]; intros fxs pairs1 pairs2 HP; cbn [arr_loop].
  - cbn. split; [reflexivity | exact HP].
  - destruct (is_scalar x).
    + destruct (jmem x fxs).
      * apply IH. exact HP.
      * exact I.
    + destruct fe; [exact I|].
      pose proof (arraycat_rel ord1 ord2 rec1 rec2 pairs1 pairs2 x Ho1 Ho2 Hrec HP) as HA.
      destruct (arraycat ord1 rec1 pairs1 x) as [a1| |];
      destruct (arraycat ord2 rec2 pairs2 x) as [a2| |]; cbn in HA;
        try contradiction; try exact I;
        try apply res_rel_fuel_l; try apply res_rel_fuel_r.
      destruct (PermR_case _ _ _ _ _ HA) as [[-> ->] | [x1 [t1 [x2 [t2 [E1 E2]]]]]].
      * exact I.
      * rewrite E1 at 1. rewrite E2 at 1. apply IH. exact HA.
Qed.

Lemma combine_pairs_rel : forall pairs1 pairs2,
  pairs_rel pairs1 pairs2 -> PermR eq (combine_pairs pairs1) (combine_pairs pairs2).
Proof.
  intros pairs1 pairs2 [l' [HP HF]]. unfold combine_pairs.
  apply PermR_perm_l with (l1' := concat (map fst l')).
  - apply Permutation_concat'. apply Permutation_map. exact HP.
  - apply PermR_concat. clear HP.
    induction HF as [|a b la lb [Hab _] HF IH]; cbn; constructor; assumption.
Qed.

Lemma merged_rel : forall pairs1 pairs2 (extra : list (nat * json)),
  pairs_rel pairs1 pairs2 ->
  pairs_rel (map (fun pr : pair_t => (fst pr, snd pr ++ extra)) pairs1)
            (map (fun pr : pair_t => (fst pr, snd pr ++ extra)) pairs2).
Proof.
  intros pairs1 pairs2 extra HP. unfold pairs_rel.
  apply PermR_map with (R := pair_rel); [|exact HP].
  intros [b1 m1] [b2 m2] [Hb Hm]. cbn [fst snd] in *. subst m2.
  split; cbn [fst snd]; [exact Hb | reflexivity].
Qed.

Lemma match_arr_rel : forall ord1 ord2 rec1 rec2 bs xs f,
  perm_oracle ord1 -> perm_oracle ord2 -> rec_equiv rec1 rec2 ->
  rb_equiv (match_arr ord1 rec1 bs xs f) (match_arr ord2 rec2 bs xs f).
Proof.
  intros ord1 ord2 rec1 rec2 bs xs f Ho1 Ho2 Hrec. unfold match_arr.
  destruct (get_var xs None) as [[v cs]|]; [|exact I].
  destruct f as [| | | |fa|]; try (cbn; apply PermR_nil).
  destruct (index_facts 0 fa) as [fxs fxa].
  set (fe := match fxa with [] => true | _ => false end).
  assert (HP0 : pairs_rel [([bs], fxa)] [([bs], fxa)]).
  { apply PermR_cons; [|apply PermR_nil]. split; [apply PermR_single | reflexivity]. }
  pose proof (arr_loop_rel ord1 ord2 rec1 rec2 fe cs fxs _ _ Ho1 Ho2 Hrec HP0) as HL.
  unfold rb_equiv.
  destruct (arr_loop ord1 rec1 fe cs fxs [([bs], fxa)]) as [o1| |];
  destruct (arr_loop ord2 rec2 fe cs fxs [([bs], fxa)]) as [o2| |]; cbn in HL;
    try contradiction; try exact I;
    try apply res_rel_fuel_l; try apply res_rel_fuel_r.
  destruct o1 as [[f1 p1]|], o2 as [[f2 p2]|]; cbn in HL; try contradiction.
  2:{ cbn. apply PermR_nil. }
  destruct HL as [<- HPp].
  pose proof (merged_rel p1 p2 (number_from (length fa) f1) HPp) as HMg.
  set (m1 := map (fun pr : pair_t => (fst pr, snd pr ++ number_from (length fa) f1)) p1) in *.
  set (m2 := map (fun pr : pair_t => (fst pr, snd pr ++ number_from (length fa) f1)) p2) in *.
  destruct v as [vname|].
  - pose proof (arraycat_rel ord1 ord2 rec1 rec2 m1 m2 (JStr vname) Ho1 Ho2 Hrec HMg) as HA.
    destruct (arraycat ord1 rec1 m1 (JStr vname)) as [a1| |];
    destruct (arraycat ord2 rec2 m2 (JStr vname)) as [a2| |]; cbn in HA;
      try contradiction; try exact I;
      try apply res_rel_fuel_l; try apply res_rel_fuel_r.
    destruct (PermR_case _ _ _ _ _ HA) as [[-> ->] | [x1 [t1 [x2 [t2 [E1 E2]]]]]].
    + destruct (is_optional vname); cbn.
      * apply combine_pairs_rel. exact HMg.
      * apply PermR_nil.
    + rewrite E1 at 1. rewrite E2 at 1. cbn [res_rel].
      apply combine_pairs_rel. exact HA.
  - cbn. apply combine_pairs_rel. exact HMg.
Qed.

(** * the recursive matcher *)

Lemma match_rec_equiv : forall ord1 ord2,
  perm_oracle ord1 -> perm_oracle ord2 ->
  forall fuel, rec_equiv (match_ ord1 fuel) (match_ ord2 fuel).
Proof.
  intros ord1 ord2 Ho1 Ho2 fuel.
  induction fuel as [|n IH]; intros p f bs; cbn [match_].
  - exact I.
  - destruct p as [|x|x|s|xs|kvs].
    + destruct f; cbn; try apply PermR_nil; apply PermR_single.
    + destruct f as [|y| | | |]; cbn; try apply PermR_nil.
      destruct (Bool.eqb x y); cbn; [apply PermR_single | apply PermR_nil].
    + destruct f as [| |y| | |]; cbn; try apply PermR_nil.
      destruct (Z.eqb x y); cbn; [apply PermR_single | apply PermR_nil].
    + destruct (is_var s).
      * destruct (is_anon s); [cbn; apply PermR_single|].
        destruct (inequal f bs s) as [|r].
        -- destruct (lookup s bs) as [b|]; [|cbn; apply PermR_single].
           unfold bound_match. destruct b as [| | |t| |]; try apply IH.
           destruct (is_var t); [|apply IH].
           destruct f as [| | |u| |]; cbn; try apply PermR_nil.
           destruct (String.eqb t u); cbn; [apply PermR_single | apply PermR_nil].
        -- cbn. apply perm_PermR_eq. apply Permutation_refl.
      * destruct f as [| | |t| |]; cbn; try apply PermR_nil.
        destruct (String.eqb s t); cbn; [apply PermR_single | apply PermR_nil].
    + apply match_arr_rel; assumption.
    + destruct f as [| | | | |fkvs]; try (cbn; apply PermR_nil).
      apply match_obj_rel; assumption.
Qed.

Theorem match_order_independent : forall ord1 ord2, perm_oracle ord1 -> perm_oracle ord2 ->
  forall fuel p f bs, res_equiv (match_ ord1 fuel p f bs) (match_ ord2 fuel p f bs).
Proof.
  intros ord1 ord2 Ho1 Ho2 fuel p f bs.
  apply rb_equiv_res_equiv. apply match_rec_equiv; assumption.
Qed.

Print Assumptions match_order_independent.
