(** The recorder instance (Model/SioRecorder.v) meets the hypotheses of the
    generic theorems: its order oracle is a permutation, equality of its
    specification sources is decided soundly, and its machines end at named
    nodes.  So the theorems of Properties/C14.v and C15.v apply to the very
    definitions ([r_process_msg], [r_run_history], [r_boot]) that the
    correspondence run evaluates against the Go code. *)
From Coq Require Import List String Bool Permutation.
From Sheens Require Import Model.SioRecorder.
Import ListNotations.
Open Scope string_scope.

Lemma ord_id_perm : forall A (l : list (mid * A)), Permutation (ord_id A l) l.
Proof. intros. apply Permutation_refl. Qed.

Lemma rcfg_eqb_sound : forall a b, rcfg_eqb a b = true -> a = b.
Proof.
  intros [l1 m1] [l2 m2]. unfold rcfg_eqb. simpl. intros H.
  apply andb_true_iff in H as [H1 H2]. apply String.eqb_eq in H1. subst.
  destruct m1, m2; try discriminate; reflexivity.
Qed.

Lemma rreact_named : forall s m st msg st', fst (rreact s m st msg) = Some st' -> ms_node st' <> "".
Proof.
  intros s m st msg st'. unfold rreact, flip_node.
  destruct (String.eqb (ms_node st) "start") eqn:E1.
  - apply String.eqb_eq in E1. destruct (rc_mode s); simpl; intros [= <-]; simpl; try discriminate;
      rewrite E1; discriminate.
  - destruct (String.eqb (ms_node st) "flip") eqn:E2; [|discriminate].
    apply String.eqb_eq in E2. destruct (rc_mode s); simpl; intros [= <-]; simpl; try discriminate;
      rewrite E2; discriminate.
Qed.
