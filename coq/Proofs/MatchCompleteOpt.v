(** Completeness with optional variables: an assignment that embeds the
    pattern in the sense of [embeds_opt] (Spec/EmbedOpt.v) is returned.
    Derived from the general witness theorem (Proofs/CplGenWit.v) and the
    general totality theorem (Proofs/CplGenTotal.v). *)
From Sheens Require Export Proofs.CplGenWit.
From Coq Require Import Lia.
From Sheens Require Import Proofs.MatchLinear.

(** * [embeds_with] is monotone in the variable rule *)
Lemma inj_assign_impl : forall (A : Type) (P Q : A -> json -> bool) (sk1 sk2 : A -> bool) xs,
  (forall x, In x xs -> sk1 x = sk2 x) ->
  (forall x, In x xs -> forall y, P x y = true -> Q x y = true) ->
  forall fa, inj_assign P sk1 xs fa = true -> inj_assign Q sk2 xs fa = true.
Proof.
  intros A P Q sk1 sk2; induction xs as [|x xs IH]; intros Hsk HPQ fa H; [reflexivity|].
  cbn [inj_assign] in *. rewrite <- (Hsk x (or_introl eq_refl)).
  assert (Hsk' : forall x', In x' xs -> sk1 x' = sk2 x') by (intros x' Hx'; apply Hsk; right; exact Hx').
  assert (HPQ' : forall x', In x' xs -> forall y, P x' y = true -> Q x' y = true)
    by (intros x' Hx'; apply HPQ; right; exact Hx').
  destruct (sk1 x); [apply IH; assumption|].
  apply existsb_exists in H. destruct H as [[y rest] [Hin Hy]]. cbn [fst snd] in Hy.
  apply andb_true_iff in Hy. destruct Hy as [H1 H2].
  apply existsb_exists. exists (y, rest). split; [exact Hin|]. cbn [fst snd].
  rewrite (HPQ x (or_introl eq_refl) y H1), (IH Hsk' HPQ' rest H2). reflexivity.
Qed.

Definition rule_le (u1 u2 : string -> bool) (v1 v2 : string -> json -> bool) (vs : list string) : Prop :=
  forall s, In s vs ->
    (is_optional s = true -> u1 s = u2 s) /\
    (is_anon s = false -> forall y, v1 s y = true -> v2 s y = true).

Lemma rule_le_incl : forall u1 u2 v1 v2 a b, (forall s, In s a -> In s b) ->
  rule_le u1 u2 v1 v2 b -> rule_le u1 u2 v1 v2 a.
Proof. intros u1 u2 v1 v2 a b Hi H s Hs. apply H. apply Hi. exact Hs. Qed.

Lemma absent_here_agree : forall u1 u2 v1 v2 x,
  rule_le u1 u2 v1 v2 (pvars x) -> absent_here u1 x = absent_here u2 x.
Proof.
  intros u1 u2 v1 v2 x H. destruct x as [| | | s | |]; try reflexivity. cbn [absent_here].
  destruct (is_optional s) eqn:Eo; [|reflexivity]. cbn [andb].
  apply (H s); [|exact Eo]. cbn [pvars]. rewrite (optional_is_var s Eo). left; reflexivity.
Qed.

Lemma var_at_le : forall u1 u2 v1 v2 vs s y,
  rule_le u1 u2 v1 v2 vs -> In s vs -> var_at v1 s y = true -> var_at v2 s y = true.
Proof.
  intros u1 u2 v1 v2 vs s y H Hin Hv. unfold var_at in *.
  destruct (is_anon s) eqn:Ea; [reflexivity|]. apply (H s Hin); assumption.
Qed.

Lemma embeds_with_impl : forall u1 v1 u2 v2 p,
  rule_le u1 u2 v1 v2 (pvars p) ->
  forall f, embeds_with u1 v1 p f = true -> embeds_with u2 v2 p f = true.
Proof.
  intros u1 v1 u2 v2.
  induction p as [| x | x | s | l IH | kvs IH] using json_ind'; intros Hle f H; try exact H.
  - cbn [embeds_with] in *. destruct (is_var s) eqn:Es; [|exact H].
    eapply var_at_le; [exact Hle | cbn [pvars]; rewrite Es; left; reflexivity | exact H].
  - cbn [embeds_with] in *. destruct f as [| | | | fa |]; try discriminate.
    assert (Hsub : forall x, In x l -> rule_le u1 u2 v1 v2 (pvars x)).
    { intros x Hx. eapply rule_le_incl; [|exact Hle]. intros s Hs. eapply pvars_arr_in; eauto. }
    assert (Hab : forall x, In x l -> absent_here u1 x = absent_here u2 x)
      by (intros x Hx; eapply absent_here_agree; apply Hsub; exact Hx).
    apply andb_true_iff in H. destruct H as [H1 H2]. apply andb_true_iff. split.
    + eapply inj_assign_impl; [exact Hab | | exact H1].
      intros x Hx y Hy. rewrite Forall_forall in IH. apply (IH x Hx (Hsub x Hx) y Hy).
    + rewrite <- (existsb_ext_in _ _ _ l Hab).
      rewrite <- (filter_ext_in (fun x => negb (absent_here u1 x)) (fun x => negb (absent_here u2 x)) l);
        [exact H2|]. intros x Hx. rewrite (Hab x Hx). reflexivity.
  - destruct f as [| | | | | fkvs]; try (cbn [embeds_with] in H; discriminate).
    rewrite embeds_with_obj_eq in *.
    assert (Hsub : forall k x, In (k, x) kvs -> rule_le u1 u2 v1 v2 (pvars x)).
    { intros k x Hx. eapply rule_le_incl; [|exact Hle]. intros s Hs. eapply pvars_obj_in; eauto. }
    rewrite Forall_forall in IH.
    assert (Hval : forall k x, In (k, x) kvs ->
              match assoc k fkvs with
              | Some y => embeds_with u1 v1 x y
              | None => absent_here u1 x
              end = true ->
              match assoc k fkvs with
              | Some y => embeds_with u2 v2 x y
              | None => absent_here u2 x
              end = true).
    { intros k x Hx Hm. destruct (assoc k fkvs) as [y|].
      - apply (IH (k, x) Hx (Hsub k x Hx) y Hm).
      - rewrite <- (absent_here_agree u1 u2 v1 v2 x (Hsub k x Hx)). exact Hm. }
    assert (Hmulti : forallb (fun kv : string * json =>
                 negb (is_var (fst kv)) &&
                 match assoc (fst kv) fkvs with
                 | Some y => embeds_with u1 v1 (snd kv) y
                 | None => absent_here u1 (snd kv)
                 end) kvs = true ->
              forallb (fun kv : string * json =>
                 negb (is_var (fst kv)) &&
                 match assoc (fst kv) fkvs with
                 | Some y => embeds_with u2 v2 (snd kv) y
                 | None => absent_here u2 (snd kv)
                 end) kvs = true).
    { intros Hall. rewrite forallb_forall in *. intros [k x] Hx. specialize (Hall (k, x) Hx).
      cbn [fst snd] in *. apply andb_true_iff in Hall. destruct Hall as [Hk Hm].
      rewrite Hk. cbn [andb]. apply (Hval k x Hx Hm). }
    destruct kvs as [|[k q] [|kv2 r]]; [exact H | | apply Hmulti; exact H].
    destruct (is_var k) eqn:Ek.
    + apply existsb_exists in H. destruct H as [[fk fv] [Hin Hy]]. cbn [fst snd] in Hy.
      apply andb_true_iff in Hy. destruct Hy as [H1 H2].
      apply existsb_exists. exists (fk, fv). split; [exact Hin|]. cbn [fst snd].
      rewrite (var_at_le u1 u2 v1 v2 _ k (JStr fk) Hle (pvars_obj_key k q [(k, q)] (or_introl eq_refl) Ek) H1).
      pose proof (IH (k, q) (or_introl eq_refl) (Hsub k q (or_introl eq_refl)) fv H2) as H3.
      cbn [snd] in H3. rewrite H3. reflexivity.
    + apply (Hval k q (or_introl eq_refl) H).
Qed.

(** * Small facts *)
Lemma flat_map_bv_id : forall l, (forall v, In v l -> bv v = [v]) -> flat_map bv l = l.
Proof.
  induction l as [|x l IH]; intros H; [reflexivity|].
  cbn [flat_map]. rewrite (H x (or_introl eq_refl)), IH; [reflexivity|].
  intros v Hv; apply H; right; exact Hv.
Qed.

Lemma anon_no_ineq : forall s, is_anon s = true -> no_ineq_var s = true.
Proof. intros s H. apply is_anon_eq in H; subst. reflexivity. Qed.

Lemma In_nonanon_vars : forall p k, In k (nonanon_vars p) <-> In k (pvars p) /\ is_anon k = false.
Proof.
  intros p k. unfold nonanon_vars. rewrite filter_In. rewrite negb_true_iff. tauto.
Qed.

Lemma keys_no_anon : forall (sg : bindings),
  (forall k, In k (map fst sg) -> is_anon k = false) -> lookup anon_var sg = None.
Proof.
  intros sg H. destruct (lookup anon_var sg) as [w|] eqn:El; [|reflexivity].
  apply lookup_In in El. apply (in_map fst) in El. cbn [fst] in El.
  apply H in El. unfold is_anon in El. rewrite String.eqb_refl in El. discriminate.
Qed.

(** * Completeness with optional variables *)
(** the form with the hypotheses the proof uses and an explicit fuel bound *)
Theorem match_complete_opt_strong : forall ord, perm_oracle ord -> forall p f sg,
  supported p = true -> all_plain_or_opt p = true -> var_free f = true ->
  arrays_are_sets f = true ->
  var_free_bs sg = true -> sorted_keys sg = true ->
  (forall k, In k (map fst sg) -> In k (pvars p) /\ is_anon k = false) ->
  (forall s w, lookup s sg = Some w -> 2 <= count_occ_str s (pvars p) -> is_scalar w = true) ->
  embeds_opt sg p f = true ->
  forall fuel, need (json_depth f) p <= fuel ->
    exists bss, match_ ord fuel p f [] = Ok bss /\ In sg bss.
Proof.
  intros ord Hord p f sg Hsup Hpl Hvff Hasf Hvfs Hsort Hdom Hrep He fuel Hfuel.
  destruct (match_supported_ok_g ord Hord (json_depth f) fuel p f [] Hsup
              (conj Hvff (le_n _)) (Forall_nil _) Hfuel) as [bss Hb].
  exists bss; split; [exact Hb|].
  assert (Hanon : lookup anon_var sg = None)
    by (apply keys_no_anon; intros k Hk; apply Hdom; exact Hk).
  unfold all_plain_or_opt in Hpl. rewrite forallb_forall in Hpl.
  assert (Hni : forall v, In v (pvars p) -> no_ineq_var v = true).
  { intros v Hv. specialize (Hpl v Hv). apply orb_true_iff in Hpl.
    destruct Hpl as [Ha|Hn]; [apply anon_no_ineq; exact Ha | exact Hn]. }
  assert (Hbv : bvars p = pvars p).
  { unfold bvars. apply flat_map_bv_id. intros v Hv. apply bv_no_ineq. apply Hni; exact Hv. }
  pose proof (match_wit_g ord Hord sg Hsort Hvfs Hanon fuel p f [] bss) as Hw.
  rewrite restr_empty in Hw. rewrite restr_all in Hw.
  - apply Hw; [exact Hb | exact Hasf | |].
    + (* the embedding, in the general form *)
      apply (embeds_with_impl (unassigned sg) (assigned_to sg)); [|exact He].
      intros s Hs. split; [reflexivity|]. intros _ y Hy. unfold ineq_at.
      specialize (Hni s Hs). unfold no_ineq_var in Hni. destruct (ineq_parse s); [discriminate | exact Hy].
    + split.
      * fold (bvars p). rewrite Hbv. intros s w Hin Hc Hl. destruct Hc as [[]|Hc]. eapply Hrep; eauto.
      * intros s Hs Hn. rewrite (Hni s Hs) in Hn. discriminate.
  - intros k Hk. apply in_or_app; left. rewrite Hbv. apply Hdom; exact Hk.
Qed.

Theorem match_complete_opt : forall ord, perm_oracle ord -> forall p f sg,
  c02_pre_opt p f sg = true -> embeds_opt sg p f = true ->
  exists n0, forall fuel, n0 <= fuel ->
    exists bss, match_ ord fuel p f [] = Ok bss /\ In sg bss.
Proof.
  intros ord Hord p f sg Hpre He. unfold c02_pre_opt in Hpre.
  repeat rewrite andb_true_iff in Hpre.
  destruct Hpre as [[[[[[[[[[[Hsup Hpl] Hwfp] Hwff] Hvff] Hasp] Hasf] Hvfs] Hsort] Hk1] Hk2] Hrep].
  exists (need (json_depth f) p). intros fuel Hfuel.
  rewrite forallb_forall in Hk1.
  apply (match_complete_opt_strong ord Hord p f sg Hsup Hpl Hvff Hasf Hvfs Hsort); try assumption.
  - intros k Hk. specialize (Hk1 k Hk). apply smem_In in Hk1. apply In_nonanon_vars in Hk1. exact Hk1.
  - intros s w Hl Hc.
    rewrite forallb_forall in Hrep. specialize (Hrep (s, w) (lookup_In _ _ _ Hl)). cbn [fst snd] in Hrep.
    apply orb_true_iff in Hrep. destruct Hrep as [Hle|Hsc]; [|exact Hsc].
    apply Nat.leb_le in Hle. lia.
Qed.

(** the supported fragment never reports an error, whatever kinds of
    variables the pattern has and whatever (variable-free) bindings are given *)
Theorem match_supported_no_err_any_vars : forall ord, perm_oracle ord -> forall fuel p f bs,
  supported p = true -> var_free f = true -> var_free_bs bs = true ->
  match_ ord fuel p f bs <> Err.
Proof. exact match_supported_no_err_g. Qed.

(** * [embeds_opt] extends [embeds]: on plain patterns they coincide, and
      [c02_pre] implies [c02_pre_opt] - [match_complete] is an instance *)
Lemma inj_assign_skip_ext_in : forall (A : Type) (P : A -> json -> bool) (sk1 sk2 : A -> bool) xs fa,
  (forall x, In x xs -> sk1 x = sk2 x) ->
  inj_assign P sk1 xs fa = inj_assign P sk2 xs fa.
Proof.
  intros A P sk1 sk2; induction xs as [|x xs IH]; intros fa H; [reflexivity|].
  cbn [inj_assign].
  assert (Hr : forall fa', inj_assign P sk1 xs fa' = inj_assign P sk2 xs fa')
    by (intros fa'; apply IH; intros x' Hx'; apply H; right; exact Hx').
  rewrite (H x (or_introl eq_refl)), Hr. destruct (sk2 x); [reflexivity|].
  apply existsb_ext_in. intros [y rest] _. cbn [fst snd]. rewrite Hr. reflexivity.
Qed.

Lemma existsb_const_false : forall (A : Type) (l : list A), existsb (fun _ => false) l = false.
Proof. intros A l; induction l as [|x l IH]; [reflexivity | exact IH]. Qed.

Lemma absent_here_aplain : forall u x, aplain x -> absent_here u x = false.
Proof.
  intros u x H. pose proof (aplain_not_optional x H) as Ho.
  destruct x as [| | | s | |]; try reflexivity. cbn [absent_here is_optional_json] in *.
  rewrite Ho. reflexivity.
Qed.

Lemma embeds_opt_plain : forall sg p, aplain p -> forall f, embeds_opt sg p f = embeds sg p f.
Proof.
  intros sg. unfold embeds_opt.
  induction p as [| x | x | s | l IH | kvs IH] using json_ind'; intros Hp f; try reflexivity.
  - destruct f as [| | | | fa |]; try reflexivity. cbn [embeds_with embeds].
    rewrite Forall_forall in IH.
    assert (Hab : forall x, In x l -> absent_here (unassigned sg) x = (fun _ : json => false) x)
      by (intros x Hx; apply absent_here_aplain; eapply aplain_arr_in; eauto).
    rewrite (existsb_ext_in _ _ _ l Hab), existsb_const_false. cbn [negb orb]. rewrite andb_true_r.
    rewrite (inj_assign_skip_ext_in _ _ _ (fun _ : json => false) l fa Hab).
    apply inj_assign_ext_in. intros x Hx y. apply IH; [exact Hx | eapply aplain_arr_in; eauto].
  - destruct f as [| | | | | fkvs]; try reflexivity.
    rewrite embeds_with_obj_eq, embeds_obj_eq. rewrite Forall_forall in IH.
    assert (Hval : forall k x, In (k, x) kvs ->
              match assoc k fkvs with
              | Some y => embeds_with (unassigned sg) (assigned_to sg) x y
              | None => absent_here (unassigned sg) x
              end = match assoc k fkvs with Some y => embeds sg x y | None => false end).
    { intros k x Hx. destruct (assoc k fkvs) as [y|].
      - apply (IH (k, x) Hx). eapply aplain_obj_in; eauto.
      - apply absent_here_aplain. eapply aplain_obj_in; eauto. }
    destruct kvs as [|[k q] [|kv2 r]]; [reflexivity | |].
    + destruct (is_var k).
      * apply existsb_ext_in. intros [fk fv] _. cbn [fst snd].
        pose proof (IH (k, q) (or_introl eq_refl)) as IHq. cbn [snd] in IHq.
        rewrite IHq; [reflexivity|]. eapply aplain_obj_in; [exact Hp | left; reflexivity].
      * apply (Hval k q (or_introl eq_refl)).
    + apply forallb_ext_in. intros [k' x] Hx. cbn [fst snd]. rewrite (Hval k' x Hx). reflexivity.
Qed.

Lemma forallb_impl : forall (A : Type) (g h : A -> bool) l,
  (forall x, g x = true -> h x = true) -> forallb g l = true -> forallb h l = true.
Proof.
  intros A g h l Hi H. rewrite forallb_forall in *. intros x Hx. apply Hi. apply H. exact Hx.
Qed.

Lemma c02_pre_opt_of_c02_pre : forall p f sg, c02_pre p f sg = true -> c02_pre_opt p f sg = true.
Proof.
  intros p f sg H. unfold c02_pre in H. unfold c02_pre_opt.
  repeat rewrite andb_true_iff in H.
  destruct H as [[[[[[[[[[Hsup Hpl] Hwfp] Hwff] Hvff] Hasp] Hasf] Hvfs] Hsort] Hkeys] Hrep].
  unfold same_keys in Hkeys. apply andb_true_iff in Hkeys. destruct Hkeys as [Hk1 Hk2].
  rewrite Hsup, Hwfp, Hwff, Hvff, Hasp, Hasf, Hvfs, Hsort, Hrep.
  fold (nonanon_vars p) in Hk1, Hk2. rewrite Hk1.
  assert (Hpo : all_plain_or_opt p = true).
  { unfold all_plain, all_plain_or_opt in *. eapply forallb_impl; [|exact Hpl].
    intros v Hv. apply orb_true_iff in Hv. destruct Hv as [Ha|Hv]; [rewrite Ha; reflexivity|].
    unfold is_plain_var in Hv. apply andb_true_iff in Hv. destruct Hv as [_ Hv].
    unfold no_ineq_var. rewrite Hv. apply orb_true_r. }
  rewrite Hpo.
  rewrite (forallb_impl _ (fun k => smem k (map fst sg)) (fun v => is_optional v || smem v (map fst sg))
             (nonanon_vars p)); [reflexivity | | exact Hk2].
  intros v Hv. rewrite Hv. apply orb_true_r.
Qed.

Theorem embeds_opt_extends_embeds : forall p f sg,
  c02_pre p f sg = true ->
  c02_pre_opt p f sg = true /\ embeds_opt sg p f = embeds sg p f.
Proof.
  intros p f sg H. split; [apply c02_pre_opt_of_c02_pre; exact H|].
  apply embeds_opt_plain. apply all_plain_aplain.
  unfold c02_pre in H. repeat rewrite andb_true_iff in H. tauto.
Qed.

(** * Why the array clause of [embeds_opt] asks that nothing is left over,
      and why a present key must be assigned *)
(** the other elements embed and the optional variable is unassigned - but
    the matcher binds it to the left-over "b" and returns only that *)
Lemma optional_array_leftover_refuted :
  exists xs s fa sg,
    is_optional s = true /\ unassigned sg s = true /\
    c02_pre_opt (JArr (xs ++ [JStr s])) (JArr fa) sg = true /\
    embeds sg (JArr xs) (JArr fa) = true /\
    match Match (JArr (xs ++ [JStr s])) (JArr fa) [] with
    | Ok r => c02_found sg r
    | _ => true
    end = false.
Proof.
  exists [JStr "a"], "??v", [JStr "a"; JStr "b"], []. vm_compute. repeat split; reflexivity.
Qed.

(** the rest of the object embeds and the optional variable is unassigned -
    but its key is there, so the matcher binds it *)
Lemma optional_present_key_refuted :
  exists k s kvs fkvs sg,
    is_optional s = true /\ unassigned sg s = true /\
    c02_pre_opt (JObj ((k, JStr s) :: kvs)) (JObj fkvs) sg = true /\
    embeds sg (JObj kvs) (JObj fkvs) = true /\
    match Match (JObj ((k, JStr s) :: kvs)) (JObj fkvs) [] with
    | Ok r => c02_found sg r
    | _ => true
    end = false.
Proof.
  exists "a", "??x", [("b", JStr "?y")], [("a", JNum 4); ("b", JNum 8)], [("?y", JNum 8)].
  vm_compute. repeat split; reflexivity.
Qed.

(** the converse is not claimed: a repeated optional variable that is bound
    at one occurrence and absent at another is returned, but is not an
    embedding in the sense of [embeds_opt] (there "unassigned" means "not in
    the assignment") *)
Lemma optional_results_are_embeddings_refuted :
  exists p f bs',
    c02_pre_opt p f bs' = true /\ Match p f [] = Ok [bs'] /\ embeds_opt bs' p f = false.
Proof.
  exists (JObj [("a", JStr "??x"); ("b", JStr "??x")]), (JObj [("b", JNum 8)]), [("??x", JNum 8)].
  vm_compute. repeat split; reflexivity.
Qed.

(** * Non-vacuity *)
(** optional variables as an object value (present and missing) and as the
    variable of an array (assigned, and unassigned with nothing left over),
    next to a repeated plain variable and a property variable *)
Definition exo_p : json :=
  JObj [("a", JStr "??x"); ("b", JStr "?y"); ("c", JStr "??z");
        ("l", JArr [JStr "u"; JStr "??v"]); ("m", JArr [JObj [("k", JStr "?y")]; JStr "??w"]);
        ("o", JObj [("?key", JStr "??q")])].
Definition exo_f : json :=
  JObj [("a", JNum 4); ("b", JNum 8); ("l", JArr [JStr "u"]);
        ("m", JArr [JNum 12; JObj [("k", JNum 8); ("j", JNull)]]);
        ("o", JObj [("p", JBool true)]); ("extra", JNull)].
Definition exo_sg : bindings :=
  [("??q", JBool true); ("??w", JNum 12); ("??x", JNum 4); ("?key", JStr "p"); ("?y", JNum 8)].

Example exo_pre : c02_pre_opt exo_p exo_f exo_sg = true.
Proof. vm_compute. reflexivity. Qed.
Example exo_embeds : embeds_opt exo_sg exo_p exo_f = true.
Proof. vm_compute. reflexivity. Qed.
Example exo_found : match Match exo_p exo_f [] with Ok r => c02_found exo_sg r | _ => false end = true.
Proof. vm_compute. reflexivity. Qed.
Example exo_has_optional : existsb is_optional (pvars exo_p) = true.
Proof. vm_compute. reflexivity. Qed.

Print Assumptions match_complete_opt.
