(** Facts about the generic interleaving semantics of Model/Conc.v:
    invariants hold in every reachable state; a pool of one-step requests
    behaves, under every schedule, like the sequential execution of the
    requests in the order in which the schedule takes them, and that order
    keeps every client's own order. *)
From Sheens Require Import Model.Conc.
From Coq Require Import Lia.

Section Facts.
  Variables (S R : Type).

  Lemma set_nth_same {A : Type} : forall (l : list A) i x,
      nth_error l i = Some x -> set_nth i x l = l.
  Proof.
    induction l as [| y l IH]; intros [| i] x H; cbn in *; try discriminate.
    - inversion H. reflexivity.
    - rewrite (IH _ _ H). reflexivity.
  Qed.

  Lemma map_set_nth {A B : Type} (f : A -> B) : forall (l : list A) i x,
      map f (set_nth i x l) = set_nth i (f x) (map f l).
  Proof.
    induction l as [| y l IH]; intros [| i] x; cbn; try reflexivity.
    rewrite IH. reflexivity.
  Qed.

  Lemma nth_set_nth_same {A : Type} (d : A) : forall (l : list A) i x y,
      nth_error l i = Some y -> nth i (set_nth i x l) d = x.
  Proof.
    induction l as [| z l IH]; intros [| i] x y H; cbn in *; try discriminate; try reflexivity.
    eapply IH; eassumption.
  Qed.

  Lemma nth_set_nth_other {A : Type} (d : A) : forall (l : list A) i j x,
      i <> j -> nth j (set_nth i x l) d = nth j l d.
  Proof.
    induction l as [| z l IH]; intros [| i] [| j] x H; cbn; try reflexivity; try congruence.
    apply IH. congruence.
  Qed.

  Lemma Forall_set_nth {A : Type} (P : A -> Prop) : forall (l : list A) i x,
      Forall P l -> P x -> Forall P (set_nth i x l).
  Proof.
    induction l as [| y l IH]; intros [| i] x Hl Hx; cbn; try exact Hl.
    - inversion Hl; subst. constructor; assumption.
    - inversion Hl; subst. constructor; [assumption | apply IH; assumption].
  Qed.

  (** ---- invariants ---------------------------------------------------- *)
  Section Invariant.
    Variable Inv : S -> Prop.

    Definition pool_ok (p : pool S R) : Prop := Forall (Forall (preserves Inv)) p.

    Lemma step_thread_inv : forall s (t : thread S R),
        Inv s -> Forall (preserves Inv) t ->
        Inv (fst (fst (step_thread s t))) /\ Forall (preserves Inv) (snd (fst (step_thread s t))).
    Proof.
      intros s [| [r | f k] rest] Hs Ht; cbn.
      - split; [exact Hs | constructor].
      - split; [exact Hs | inversion Ht; assumption].
      - inversion Ht as [| ? ? Hp Hrest]; subst. cbn in Hp.
        destruct (Hp s Hs) as [Hfs Hk].
        destruct (k s) as [r | f' k'] eqn:Ek; cbn.
        + split; assumption.
        + split; [assumption | constructor; assumption].
    Qed.

    Lemma pick_inv : forall i s (p : pool S R),
        Inv s -> pool_ok p ->
        Inv (fst (fst (pick i s p))) /\ pool_ok (snd (fst (pick i s p))).
    Proof.
      intros i s p Hs Hp. unfold pick.
      destruct (nth_error p i) as [t |] eqn:Et; cbn; [| split; assumption].
      assert (Ht : Forall (preserves Inv) t).
      { unfold pool_ok in Hp. rewrite Forall_forall in Hp. apply Hp.
        eapply nth_error_In; eassumption. }
      pose proof (step_thread_inv s t Hs Ht) as [H1 H2].
      destruct (step_thread s t) as [[s' t'] r]. cbn in *.
      split; [exact H1 | apply Forall_set_nth; assumption].
    Qed.

    (** an invariant that every atomic step of every request keeps holds in
        every state the interleaving can reach *)
    Theorem run_invariant : forall sched s (p : pool S R),
        Inv s -> pool_ok p ->
        Inv (run_state sched s p) /\ pool_ok (run_pool sched s p).
    Proof.
      unfold run_state, run_pool.
      induction sched as [| i rest IH]; intros s p Hs Hp; cbn; [split; assumption|].
      pose proof (pick_inv i s p Hs Hp) as [H1 H2].
      destruct (pick i s p) as [[s1 p1] e1]. cbn in H1, H2.
      specialize (IH s1 p1 H1 H2).
      destruct (run rest s1 p1) as [[s2 p2] e2]. cbn in *. exact IH.
    Qed.

    Corollary reachable_invariant : forall s0 (p0 : pool S R) s,
        Inv s0 -> pool_ok p0 -> reachable s0 p0 s -> Inv s.
    Proof.
      intros s0 p0 s H0 Hp [sched <-]. apply (run_invariant sched s0 p0 H0 Hp).
    Qed.
  End Invariant.

  (** ---- one-step requests: every interleaving is a sequential execution -- *)
  Section Serial.
    Variable Q : Type.
    Variable sem : Q -> S -> S * R.

    Lemma pick_progs : forall i s (p : list (list Q)),
        pick i s (progs_of sem p)
        = match nth_error p i with
          | Some (q :: t) =>
              (fst (sem q s), progs_of sem (set_nth i t p), [(i, snd (sem q s))])
          | _ => (s, progs_of sem p, [])
          end.
    Proof.
      intros i s p. unfold pick, progs_of. rewrite nth_error_map.
      destruct (nth_error p i) as [[| q t] |] eqn:Et; cbn [option_map]; [| | reflexivity].
      - cbn [map step_thread ev_of]. rewrite set_nth_same; [reflexivity|].
        rewrite nth_error_map, Et. reflexivity.
      - cbn [map step_thread single ev_of]. rewrite map_set_nth. reflexivity.
    Qed.

    Theorem run_serial : forall sched s (p : list (list Q)),
        run sched s (progs_of sem p)
        = (fst (seq_run sem (fst (order sched p)) s),
           progs_of sem (snd (order sched p)),
           snd (seq_run sem (fst (order sched p)) s)).
    Proof.
      induction sched as [| i rest IH]; intros s p; [reflexivity|].
      cbn [run order]. rewrite pick_progs.
      destruct (nth_error p i) as [[| q t] |] eqn:Et.
      - rewrite IH. reflexivity.
      - rewrite IH.
        destruct (order rest (set_nth i t p)) as [l p'] eqn:Eo. cbn [fst snd seq_run].
        destruct (sem q s) as [s1 x] eqn:Es. cbn [fst snd].
        destruct (seq_run sem l s1) as [s2 e] eqn:Er. cbn [fst snd app]. reflexivity.
      - rewrite IH. reflexivity.
    Qed.

    (** the order in which the schedule takes the requests keeps every
        client's program order: client [i]'s requests taken so far, followed
        by those it still has to issue, are its programme *)
    Theorem order_program_order : forall sched (p : list (list Q)) i,
        of_client i (fst (order sched p)) ++ nth i (snd (order sched p)) [] = nth i p [].
    Proof.
      induction sched as [| j rest IH]; intros p i; [reflexivity|].
      cbn [order].
      destruct (nth_error p j) as [[| q t] |] eqn:Et; try apply IH.
      destruct (order rest (set_nth j t p)) as [l p'] eqn:Eo.
      cbn [fst snd]. unfold of_client. cbn [filter fst].
      specialize (IH (set_nth j t p) i). rewrite Eo in IH. cbn [fst snd] in IH.
      unfold of_client in IH.
      destruct (Nat.eqb j i) eqn:Eji.
      - apply Nat.eqb_eq in Eji. subst j. cbn [map snd app]. rewrite IH.
        rewrite (nth_set_nth_same [] p i t (q :: t) Et).
        symmetry. apply nth_error_nth with (d := []) in Et. rewrite Et. reflexivity.
      - apply Nat.eqb_neq in Eji. rewrite IH. apply nth_set_nth_other. exact Eji.
    Qed.

    (** nothing is invented: the sequential list is as long as what was taken *)
    Lemma seq_run_events_length : forall l s, List.length (snd (seq_run sem l s)) = List.length l.
    Proof.
      induction l as [| [i q] l IH]; intros s; [reflexivity|].
      cbn [seq_run]. destruct (sem q s) as [s1 x]. specialize (IH s1).
      destruct (seq_run sem l s1) as [s2 e]. cbn in *. rewrite IH. reflexivity.
    Qed.
  End Serial.
End Facts.
