(** [parse_esc (print_esc j) = Some j] (Model/JsonTextEsc.v): the decoder
    inverts the encoder on strings with quotes, backslashes, control
    characters, [<], [>], [&]; and the escape-aware model extends the model
    without escapes (Model/JsonText.v) conservatively.

    The proofs follow Proofs/JsonTextFacts.v; the new part is the string
    lemma [scan_str_esc_chars], by induction on the string with a lemma per
    character that is checked on each of the 256 bytes. *)
From Sheens Require Import Model.JsonTextEsc Proofs.JsonTextFacts.
From Coq Require Import Lia.
Local Open Scope char_scope.

(** * Strings *)

(** one character: what the encoder writes for it, the decoder reads as it *)
Lemma scan_char_esc : forall c tl,
  scan_str_esc (print_char_esc c ++ tl) = cons_char c (scan_str_esc tl).
Proof.
  intros c tl. destruct c as [b0 b1 b2 b3 b4 b5 b6 b7].
  destruct b0, b1, b2, b3, b4, b5, b6, b7; reflexivity.
Qed.

(** the string lemma, on every byte string *)
Lemma scan_str_esc_chars : forall s rest,
  scan_str_esc (esc_chars s ++ """" :: rest) = Some (s, rest).
Proof.
  induction s as [| c s IH]; intros rest.
  - reflexivity.
  - cbn [esc_chars]. rewrite <- app_assoc. rewrite scan_char_esc. rewrite (IH rest). reflexivity.
Qed.

Lemma print_str_esc_app : forall s rest,
  print_str_esc s ++ rest = """" :: esc_chars s ++ """" :: rest.
Proof. intros s rest. unfold print_str_esc. simpl. rewrite <- app_assoc. reflexivity. Qed.

(** the statement about Go strings: all bytes below 128 *)
Theorem parse_string_esc_print : forall s rest,
  ascii_string s = true -> parse_string_esc (print_str_esc s ++ rest) = Some (s, rest).
Proof.
  intros s rest _. rewrite print_str_esc_app. unfold parse_string_esc. rewrite Ascii.eqb_refl.
  apply scan_str_esc_chars.
Qed.

(** * The first character of a printed value *)
Lemma print_l_esc_head : forall j, exists c t, print_l_esc j = c :: t /\ val_start c.
Proof.
  intros j. destruct j as [| b | z | s | l | kvs].
  - eexists; eexists; split; [reflexivity | repeat split].
  - destruct b; eexists; eexists; (split; [reflexivity | repeat split]).
  - destruct (print_l_head (JNum z)) as [c [t [E H]]]. exists c, t. split; [exact E | exact H].
  - eexists; eexists; split; [reflexivity | repeat split].
  - eexists; eexists; split; [reflexivity | repeat split].
  - eexists; eexists; split; [reflexivity | repeat split].
Qed.

(** * The round trip, value by value *)
Definition roundtrips_esc (j : json) : Prop :=
  forall fuel rest, weight j <= fuel -> val_end rest ->
  parse_val_esc fuel (print_l_esc j ++ rest) = Some (j, rest).

Lemma parse_val_esc_digit : forall c r f,
  In c digit_chars ->
  parse_val_esc (S f) (c :: r) =
  match parse_unsigned (c :: r) with
  | Some (n, r') => Some (JNum (Z.of_N n), r')
  | None => None
  end.
Proof.
  intros c r f H. unfold digit_chars in H. simpl in H.
  repeat (destruct H as [H | H]; [subst c; reflexivity |]). contradiction.
Qed.

Lemma roundtrips_esc_num : forall z, roundtrips_esc (JNum z).
Proof.
  intros z fuel rest Hf Hend. destruct fuel as [| f]; [simpl in Hf; lia |].
  cbn [print_l_esc]. unfold print_num.
  destruct (Z.ltb_spec z 0) as [Hneg | Hpos].
  - change ((("-" :: nil) ++ print_unsigned (Z.abs_N z)) ++ rest)
      with ("-" :: (print_unsigned (Z.abs_N z) ++ rest)).
    cbn [parse_val_esc].
    change (skip_ws ("-" :: print_unsigned (Z.abs_N z) ++ rest))
      with ("-" :: print_unsigned (Z.abs_N z) ++ rest).
    cbv iota. rewrite (parse_unsigned_print _ _ Hend).
    f_equal. f_equal. f_equal. rewrite N2Z.inj_abs_N. lia.
  - destruct (print_unsigned_head (Z.abs_N z)) as [c [t [E H]]].
    pose proof (parse_unsigned_print (Z.abs_N z) rest Hend) as Hp.
    rewrite E in *. rewrite app_nil_l.
    change ((c :: t) ++ rest) with (c :: (t ++ rest)) in *.
    rewrite (parse_val_esc_digit c (t ++ rest) f H). rewrite Hp.
    f_equal. f_equal. f_equal. rewrite N2Z.inj_abs_N. lia.
Qed.

Lemma val_end_sep_members_esc : forall pr r rest, val_end (sep_members_esc pr r ++ rest).
Proof. intros pr [| y r] rest; simpl; split; reflexivity. Qed.

Lemma parse_elems_esc_S : forall f cs acc,
  parse_elems_esc (S f) cs acc =
  match parse_val_esc f cs with
  | Some (v, r) =>
      match skip_ws r with
      | "," :: r' => parse_elems_esc f r' (v :: acc)
      | "]" :: r' => Some (JArr (List.rev (v :: acc)), r')
      | _ => None
      end
  | None => None
  end.
Proof. reflexivity. Qed.

Lemma parse_members_esc_S : forall f cs acc,
  parse_members_esc (S f) cs acc =
  match skip_ws cs with
  | """" :: r =>
      match scan_str_esc r with
      | Some (k, r1) =>
          match skip_ws r1 with
          | ":" :: r2 =>
              match parse_val_esc f r2 with
              | Some (v, r3) =>
                  match skip_ws r3 with
                  | "," :: r4 => parse_members_esc f r4 ((k, v) :: acc)
                  | "}" :: r4 => Some (JObj (List.rev ((k, v) :: acc)), r4)
                  | _ => None
                  end
              | None => None
              end
          | _ => None
          end
      | None => None
      end
  | _ => None
  end.
Proof. reflexivity. Qed.

Lemma parse_elems_esc_print : forall r,
  Forall roundtrips_esc r ->
  forall x acc fuel rest,
  roundtrips_esc x -> wl (x :: r) <= fuel ->
  parse_elems_esc fuel (print_l_esc x ++ sep_elems print_l_esc r ++ rest) acc
  = Some (JArr (List.rev acc ++ x :: r), rest).
Proof.
  induction r as [| y r IH]; intros Hall x acc fuel rest Hx Hf;
    (destruct fuel as [| f]; [simpl in Hf; lia |]); simpl in Hf.
  - rewrite parse_elems_esc_S. rewrite (Hx f _ ltac:(lia) (val_end_sep_elems print_l_esc [] rest)).
    simpl. reflexivity.
  - inversion Hall as [| y' r' Hy Hr]; subst.
    rewrite parse_elems_esc_S.
    rewrite (Hx f _ ltac:(lia) (val_end_sep_elems print_l_esc (y :: r) rest)).
    change (sep_elems print_l_esc (y :: r) ++ rest)
      with ("," :: ((print_l_esc y ++ sep_elems print_l_esc r) ++ rest)).
    rewrite (skip_ws_lit "," _ eq_refl).
    rewrite <- app_assoc.
    rewrite (IH Hr y (x :: acc) f rest Hy ltac:(simpl; lia)).
    simpl. rewrite <- app_assoc. reflexivity.
Qed.

Lemma parse_members_esc_print : forall r,
  Forall (fun kv => roundtrips_esc (snd kv)) r ->
  forall k v acc fuel rest,
  roundtrips_esc v ->
  wm ((k, v) :: r) <= fuel ->
  parse_members_esc fuel
    (print_str_esc k ++ ":" :: print_l_esc v ++ sep_members_esc print_l_esc r ++ rest) acc
  = Some (JObj (List.rev acc ++ (k, v) :: r), rest).
Proof.
  induction r as [| [k' v'] r IH]; intros Hall k v acc fuel rest Hv Hf;
    (destruct fuel as [| f]; [simpl in Hf; lia |]); simpl in Hf.
  - rewrite parse_members_esc_S. rewrite print_str_esc_app. rewrite (skip_ws_lit """" _ eq_refl).
    rewrite (scan_str_esc_chars k _). rewrite (skip_ws_lit ":" _ eq_refl).
    rewrite (Hv f _ ltac:(lia) (val_end_sep_members_esc print_l_esc [] rest)).
    simpl. reflexivity.
  - inversion Hall as [| kv' r' Hy Hr]; subst. simpl in Hy.
    rewrite parse_members_esc_S. rewrite print_str_esc_app. rewrite (skip_ws_lit """" _ eq_refl).
    rewrite (scan_str_esc_chars k _). rewrite (skip_ws_lit ":" _ eq_refl).
    rewrite (Hv f _ ltac:(lia) (val_end_sep_members_esc print_l_esc ((k', v') :: r) rest)).
    change (sep_members_esc print_l_esc ((k', v') :: r) ++ rest)
      with ("," :: ((print_str_esc k' ++ ":" :: print_l_esc v' ++ sep_members_esc print_l_esc r) ++ rest)).
    rewrite (skip_ws_lit "," _ eq_refl).
    replace ((print_str_esc k' ++ ":" :: print_l_esc v' ++ sep_members_esc print_l_esc r) ++ rest)
      with (print_str_esc k' ++ ":" :: print_l_esc v' ++ sep_members_esc print_l_esc r ++ rest)
      by (rewrite <- !app_assoc; simpl; rewrite <- !app_assoc; reflexivity).
    rewrite (IH Hr k' v' ((k, v) :: acc) f rest Hy ltac:(simpl; lia)).
    simpl. rewrite <- app_assoc. reflexivity.
Qed.

Lemma parse_val_esc_arr : forall f c t,
  val_start c -> parse_val_esc (S f) ("[" :: c :: t) = parse_elems_esc f (c :: t) [].
Proof.
  intros f c t [Hws [Hb _]].
  change (parse_val_esc (S f) ("[" :: c :: t))
    with (match skip_ws (c :: t) with
          | c' :: r' => if Ascii.eqb c' "]" then Some (JArr [], r') else parse_elems_esc f (c' :: r') []
          | [] => None
          end).
  rewrite (skip_ws_lit c t Hws), Hb. reflexivity.
Qed.

Lemma parse_val_esc_obj : forall f t,
  parse_val_esc (S f) ("{" :: """" :: t) = parse_members_esc f ("""" :: t) [].
Proof. reflexivity. Qed.

Lemma parse_val_esc_str : forall f t,
  parse_val_esc (S f) ("""" :: t) =
  match scan_str_esc t with Some (s, r') => Some (JStr s, r') | None => None end.
Proof. reflexivity. Qed.

(** every value, whatever the bytes of its strings (see the head of
    Model/JsonTextEsc.v for the bytes on which the model is Go) *)
Theorem parse_val_esc_print : forall j, roundtrips_esc j.
Proof.
  induction j as [| b | z | s | l IH | kvs IH] using json_ind2.
  - intros fuel rest Hf _. destruct fuel as [| f]; [simpl in Hf; lia | reflexivity].
  - intros fuel rest Hf _. destruct fuel as [| f]; [simpl in Hf; lia |]. destruct b; reflexivity.
  - apply roundtrips_esc_num.
  - intros fuel rest Hf _. destruct fuel as [| f]; [simpl in Hf; lia |].
    cbn [print_l_esc]. rewrite print_str_esc_app. rewrite parse_val_esc_str.
    rewrite (scan_str_esc_chars s rest). reflexivity.
  - intros fuel rest Hf _. destruct fuel as [| f]; [simpl in Hf; lia |].
    destruct l as [| x r].
    + reflexivity.
    + inversion IH as [| x' r' Hx Hr]; subst.
      change (print_l_esc (JArr (x :: r)) ++ rest)
        with ("[" :: ((print_l_esc x ++ sep_elems print_l_esc r) ++ rest)).
      rewrite <- app_assoc.
      destruct (print_l_esc_head x) as [c [t [E Hstart]]].
      pose proof (parse_elems_esc_print r Hr x [] f rest Hx
                    ltac:(simpl in Hf; simpl; unfold wl; lia)) as Hm.
      rewrite E in *. change ((c :: t) ++ sep_elems print_l_esc r ++ rest)
        with (c :: (t ++ sep_elems print_l_esc r ++ rest)) in *.
      rewrite (parse_val_esc_arr f c _ Hstart). rewrite Hm. reflexivity.
  - intros fuel rest Hf _. destruct fuel as [| f]; [simpl in Hf; lia |].
    destruct kvs as [| [k v] r].
    + reflexivity.
    + inversion IH as [| x' r' Hx Hr]; subst. simpl in Hx.
      pose proof (parse_members_esc_print r Hr k v [] f rest Hx
                    ltac:(simpl in Hf; simpl; unfold wm; lia)) as Hm.
      change (print_l_esc (JObj ((k, v) :: r)) ++ rest)
        with ("{" :: ((print_str_esc k ++ ":" :: print_l_esc v ++ sep_members_esc print_l_esc r) ++ rest)).
      replace ((print_str_esc k ++ ":" :: print_l_esc v ++ sep_members_esc print_l_esc r) ++ rest)
        with (print_str_esc k ++ ":" :: print_l_esc v ++ sep_members_esc print_l_esc r ++ rest)
        by (rewrite <- !app_assoc; simpl; rewrite <- !app_assoc; reflexivity).
      rewrite print_str_esc_app in *.
      rewrite parse_val_esc_obj. rewrite Hm. reflexivity.
Qed.

(** * Enough fuel: one value per character at most *)
Lemma weight_le_length_esc : forall j, weight j <= List.length (print_l_esc j).
Proof.
  induction j as [| b | z | s | l IH | kvs IH] using json_ind2.
  - simpl. lia.
  - destruct b; simpl; lia.
  - exact (weight_le_length (JNum z)).
  - simpl. lia.
  - destruct l as [| x r]; [simpl; lia |].
    inversion IH as [| x' r' Hx Hr]; subst.
    assert (Hsep : wl r + 1 <= List.length (sep_elems print_l_esc r)).
    { clear -Hr. induction r as [| y r IHr]; [simpl; lia |].
      inversion Hr as [| y' r' Hy Hr']; subst. simpl. rewrite app_length.
      specialize (IHr Hr'). unfold wl in *. lia. }
    simpl. rewrite app_length. unfold wl in Hsep. lia.
  - destruct kvs as [| [k v] r]; [simpl; lia |].
    inversion IH as [| x' r' Hx Hr]; subst. simpl in Hx.
    assert (Hsep : wm r + 1 <= List.length (sep_members_esc print_l_esc r)).
    { clear -Hr. induction r as [| y r IHr]; [simpl; lia |].
      inversion Hr as [| y' r' Hy Hr']; subst. simpl. repeat (rewrite app_length; simpl).
      specialize (IHr Hr'). unfold wm in *. lia. }
    simpl. repeat (rewrite app_length; simpl). unfold wm in Hsep. lia.
Qed.

Theorem parse_chars_esc_print : forall j, parse_chars_esc (print_l_esc j) = Some j.
Proof.
  intros j. unfold parse_chars_esc.
  pose proof (parse_val_esc_print j (S (List.length (print_l_esc j))) []
                ltac:(pose proof (weight_le_length_esc j); lia) I) as H.
  rewrite app_nil_r in H. rewrite H. reflexivity.
Qed.

(** the model's round trip on every byte string *)
Theorem parse_print_esc_bytes : forall j, parse_esc (print_esc j) = Some j.
Proof.
  intros j. unfold parse_esc, print_esc.
  rewrite list_ascii_of_string_of_list_ascii. exact (parse_chars_esc_print j).
Qed.

(** the statement about Go: the decoder inverts the encoder on every value
    all of whose strings (keys included) are made of bytes below 128 *)
Theorem parse_print_esc : forall j, ascii_json j = true -> parse_esc (print_esc j) = Some j.
Proof. intros j _. exact (parse_print_esc_bytes j). Qed.

Corollary print_esc_inj : forall a b,
  ascii_json a = true -> ascii_json b = true -> print_esc a = print_esc b -> a = b.
Proof.
  intros a b Ha Hb E. pose proof (parse_print_esc a Ha) as Pa. rewrite E, (parse_print_esc b Hb) in Pa.
  congruence.
Qed.

(** * Conservative extension of Model/JsonText.v *)

(** ** The printer: on strings that need no escape, the same text *)
Lemma print_char_esc_noesc : forall c, noesc_char c = true -> print_char_esc c = [c].
Proof.
  intros c H. destruct c as [b0 b1 b2 b3 b4 b5 b6 b7].
  destruct b0, b1, b2, b3, b4, b5, b6, b7; (reflexivity || discriminate H).
Qed.

Lemma noesc_plain_char : forall c, noesc_char c = true -> plain_char c = true.
Proof. intros c H. unfold noesc_char in H. apply andb_prop in H. exact (proj1 H). Qed.

Lemma noesc_plain_string : forall s, noesc_string s = true -> plain_string s = true.
Proof.
  induction s as [| c s IH]; intros H; [reflexivity |].
  simpl in H. apply andb_prop in H. destruct H as [Hc Hs].
  simpl. rewrite (noesc_plain_char c Hc), (IH Hs). reflexivity.
Qed.

Lemma esc_chars_noesc : forall s, noesc_string s = true -> esc_chars s = chars s.
Proof.
  induction s as [| c s IH]; intros H; [reflexivity |].
  simpl in H. apply andb_prop in H. destruct H as [Hc Hs].
  cbn [esc_chars]. rewrite (print_char_esc_noesc c Hc), (IH Hs). reflexivity.
Qed.

Lemma print_str_esc_noesc : forall s, noesc_string s = true -> print_str_esc s = print_str s.
Proof. intros s H. unfold print_str_esc, print_str. rewrite (esc_chars_noesc s H). reflexivity. Qed.

Lemma noesc_plain_json : forall j, noesc_json j = true -> plain_json j = true.
Proof.
  induction j as [| b | z | s | l IH | kvs IH] using json_ind2; intros H; try reflexivity.
  - exact (noesc_plain_string s H).
  - simpl in *. induction l as [| x r IHr]; [reflexivity |].
    simpl in H. apply andb_prop in H. destruct H as [Hx Hr].
    inversion IH as [| x' r' Px Pr]; subst. simpl. rewrite (Px Hx), (IHr Pr Hr). reflexivity.
  - simpl in *. induction kvs as [| [k v] r IHr]; [reflexivity |].
    simpl in H. apply andb_prop in H. destruct H as [Hx Hr]. apply andb_prop in Hx. destruct Hx as [Hk Hv].
    inversion IH as [| x' r' Px Pr]; subst. simpl in Px. simpl.
    rewrite (noesc_plain_string k Hk), (Px Hv), (IHr Pr Hr). reflexivity.
Qed.

Lemma print_l_esc_noesc : forall j, noesc_json j = true -> print_l_esc j = print_l j.
Proof.
  induction j as [| b | z | s | l IH | kvs IH] using json_ind2; intros H; try reflexivity.
  - exact (print_str_esc_noesc s H).
  - destruct l as [| x r]; [reflexivity |].
    simpl in H. apply andb_prop in H. destruct H as [Hx Hr].
    inversion IH as [| x' r' Px Pr]; subst.
    cbn [print_l_esc print_l]. rewrite (Px Hx). f_equal. f_equal.
    clear -Pr Hr. induction r as [| y r IHr]; [reflexivity |].
    simpl in Hr. apply andb_prop in Hr. destruct Hr as [Hy Hr].
    inversion Pr as [| y' r' Py Pr']; subst.
    cbn [sep_elems]. rewrite (Py Hy), (IHr Hr Pr'). reflexivity.
  - destruct kvs as [| [k v] r]; [reflexivity |].
    simpl in H. apply andb_prop in H. destruct H as [Hx Hr]. apply andb_prop in Hx. destruct Hx as [Hk Hv].
    inversion IH as [| x' r' Px Pr]; subst. simpl in Px.
    cbn [print_l_esc print_l]. rewrite (Px Hv), (print_str_esc_noesc k Hk). f_equal. f_equal. f_equal. f_equal.
    clear -Pr Hr. induction r as [| [k' v'] r IHr]; [reflexivity |].
    simpl in Hr. apply andb_prop in Hr. destruct Hr as [Hy Hr]. apply andb_prop in Hy. destruct Hy as [Hk' Hv'].
    inversion Pr as [| y' r' Py Pr']; subst. simpl in Py.
    cbn [sep_members_esc sep_members fst snd].
    rewrite (Py Hv'), (print_str_esc_noesc k' Hk'), (IHr Hr Pr'). reflexivity.
Qed.

Theorem print_esc_noesc : forall j, noesc_json j = true -> print_esc j = print j.
Proof. intros j H. unfold print_esc, print. rewrite (print_l_esc_noesc j H). reflexivity. Qed.

(** ** The parser: whatever the parser without escapes reads, the parser
    with escapes reads as the same value *)
Lemma plain_char_not_backslash : forall c, plain_char c = true -> Ascii.eqb c "\" = false.
Proof.
  intros c H. destruct (Ascii.eqb_spec c "\") as [E | E]; [| reflexivity].
  subst c. discriminate H.
Qed.

Lemma scan_str_conservative : forall cs x, scan_str cs = Some x -> scan_str_esc cs = Some x.
Proof.
  induction cs as [| c r IH]; intros x H; [discriminate H |].
  cbn [scan_str] in H. cbn [scan_str_esc].
  destruct (Ascii.eqb c """"); [exact H |].
  destruct (plain_char c) eqn:Hc; [| discriminate H].
  rewrite (plain_char_not_backslash c Hc).
  destruct (scan_str r) as [[s rest] |] eqn:Hs; [| discriminate H].
  rewrite (IH _ eq_refl). exact H.
Qed.

Definition cons_val (f : nat) : Prop :=
  forall cs x, parse_val f cs = Some x -> parse_val_esc f cs = Some x.
Definition cons_elems (f : nat) : Prop :=
  forall cs acc x, parse_elems f cs acc = Some x -> parse_elems_esc f cs acc = Some x.
Definition cons_members (f : nat) : Prop :=
  forall cs acc x, parse_members f cs acc = Some x -> parse_members_esc f cs acc = Some x.

Lemma cons_val_S : forall f, cons_elems f -> cons_members f -> cons_val (S f).
Proof.
  intros f He Hm cs x H. cbn [parse_val] in H. cbn [parse_val_esc].
  destruct (skip_ws cs) as [| c r]; [discriminate H |].
  destruct c as [b0 b1 b2 b3 b4 b5 b6 b7].
  destruct b0, b1, b2, b3, b4, b5, b6, b7; cbv iota in H |- *; try exact H.
  - destruct (skip_ws r) as [| c' r']; [discriminate H |].
    destruct (Ascii.eqb c' "}"); [exact H | exact (Hm _ _ _ H)].
  - destruct (skip_ws r) as [| c' r']; [discriminate H |].
    destruct (Ascii.eqb c' "]"); [exact H | exact (He _ _ _ H)].
  - destruct (scan_str r) as [[s r'] |] eqn:Hs; [| discriminate H].
    rewrite (scan_str_conservative r _ Hs). exact H.
Qed.

Lemma cons_elems_S : forall f, cons_val f -> cons_elems f -> cons_elems (S f).
Proof.
  intros f Hv He cs acc x H. rewrite parse_elems_S in H. rewrite parse_elems_esc_S.
  destruct (parse_val f cs) as [[v r] |] eqn:Hp; [| discriminate H].
  rewrite (Hv _ _ Hp).
  destruct (skip_ws r) as [| c r']; [discriminate H |].
  destruct c as [b0 b1 b2 b3 b4 b5 b6 b7].
  destruct b0, b1, b2, b3, b4, b5, b6, b7; cbv iota in H |- *; try exact H.
  exact (He _ _ _ H).
Qed.

Lemma cons_members_S : forall f, cons_val f -> cons_members f -> cons_members (S f).
Proof.
  intros f Hv Hm cs acc x H. rewrite parse_members_S in H. rewrite parse_members_esc_S.
  destruct (skip_ws cs) as [| c r]; [discriminate H |].
  destruct (Ascii.eqb_spec c """") as [E | E].
  - subst c.
    destruct (scan_str r) as [[k r1] |] eqn:Hs; [| discriminate H].
    rewrite (scan_str_conservative r _ Hs).
    destruct (skip_ws r1) as [| c1 r2]; [discriminate H |].
    destruct (Ascii.eqb_spec c1 ":") as [E1 | E1].
    + subst c1.
      destruct (parse_val f r2) as [[v r3] |] eqn:Hp; [| discriminate H].
      rewrite (Hv _ _ Hp).
      destruct (skip_ws r3) as [| c3 r4]; [discriminate H |].
      destruct c3 as [b0 b1 b2 b3 b4 b5 b6 b7].
      destruct b0, b1, b2, b3, b4, b5, b6, b7; cbv iota in H |- *; try exact H.
      exact (Hm _ _ _ H).
    + destruct c1 as [b0 b1 b2 b3 b4 b5 b6 b7].
      destruct b0, b1, b2, b3, b4, b5, b6, b7; cbv iota in H |- *; try discriminate H.
      contradiction E1; reflexivity.
  - destruct c as [b0 b1 b2 b3 b4 b5 b6 b7].
    destruct b0, b1, b2, b3, b4, b5, b6, b7; cbv iota in H |- *; try discriminate H.
    contradiction E; reflexivity.
Qed.

Lemma parse_conservative_fuel : forall f, cons_val f /\ cons_elems f /\ cons_members f.
Proof.
  induction f as [| f [Hv [He Hm]]].
  - split; [intros cs x H; discriminate H |].
    split; intros cs acc x H; discriminate H.
  - split; [exact (cons_val_S f He Hm) |].
    split; [exact (cons_elems_S f Hv He) | exact (cons_members_S f Hv Hm)].
Qed.

Theorem parse_esc_conservative : forall s j, parse s = Some j -> parse_esc s = Some j.
Proof.
  intros s j H. unfold parse, parse_chars in H. unfold parse_esc, parse_chars_esc.
  destruct (parse_val (S (List.length (list_ascii_of_string s))) (list_ascii_of_string s))
    as [[v r] |] eqn:Hp; [| discriminate H].
  rewrite (proj1 (parse_conservative_fuel _) _ _ Hp). exact H.
Qed.

(** together: on the values whose strings need no escape, the two printers
    write the same text and the two parsers read it as the same value *)
Theorem esc_conservative : forall j,
  noesc_json j = true ->
  print_esc j = print j /\ parse_esc (print j) = parse (print j).
Proof.
  intros j H. split; [exact (print_esc_noesc j H) |].
  rewrite (parse_print j (noesc_plain_json j H)).
  exact (parse_esc_conservative _ _ (parse_print j (noesc_plain_json j H))).
Qed.
