(** Dot and Mermaid write one node statement per node (and per target that
    is not a node) and one edge statement per branch.

    Both renderers walk the graph in the same way: [process] touches the
    node, then for every branch touches the target and writes an edge.  That
    walk is the list of [events] below; a renderer is the interpretation of
    the events with its own book-keeping (Dot: the set [seen]; Mermaid: the
    map [nids] and the counter [num]).  The stateful models of
    Model/Tools.v are shown to compute exactly these interpretations
    ([dot_is_dedup], [mermaid_is_mer_evs]); the theorems are then proved about
    the interpretations. *)
From Sheens Require Import Spec.Graph Proofs.ToolsSets Proofs.ToolsSpec.
From Coq Require Import Permutation Lia.
Local Opaque start_name.

Inductive event : Type :=
| Touch (x : string) (n : option node)       (* node(x, n) *)
| Edge (a b : string).

Definition is_none {A : Type} (o : option A) : bool := negb (is_some o).

(** * Dot: statements for a list of events, given the names already seen *)
Fixpoint dedup (seen : list string) (evs : list event) : list dstmt :=
  match evs with
  | [] => []
  | Touch x n :: r =>
      if smem x seen then dedup seen r else DNode x (is_none n) :: dedup (x :: seen) r
  | Edge a b :: r => DEdge a b :: dedup seen r
  end.
Fixpoint seen_after (seen : list string) (evs : list event) : list string :=
  match evs with
  | [] => seen
  | Touch x _ :: r => seen_after (if smem x seen then seen else x :: seen) r
  | Edge _ _ :: r => seen_after seen r
  end.

Lemma dedup_app : forall e1 e2 seen,
  dedup seen (e1 ++ e2) = dedup seen e1 ++ dedup (seen_after seen e1) e2.
Proof.
  induction e1 as [|e r IH]; intros e2 seen; cbn; [reflexivity |].
  destruct e as [x n | a b]; cbn.
  - destruct (smem x seen); cbn; rewrite IH; reflexivity.
  - rewrite IH. reflexivity.
Qed.

Lemma seen_after_app : forall e1 e2 seen,
  seen_after seen (e1 ++ e2) = seen_after (seen_after seen e1) e2.
Proof.
  induction e1 as [|e r IH]; intros e2 seen; cbn; [reflexivity |].
  destruct e as [x n | a b]; apply IH.
Qed.

Definition drun (evs : list event) (st : dstate) : dstate :=
  mk_dstate (seen_after (d_seen st) evs) (d_out st ++ dedup (d_seen st) evs).

Lemma drun_app : forall e1 e2 st, drun (e1 ++ e2) st = drun e2 (drun e1 st).
Proof.
  intros e1 e2 st. unfold drun. cbn. rewrite seen_after_app, dedup_app, app_assoc. reflexivity.
Qed.

Lemma drun_nil : forall st, drun [] st = st.
Proof. intros [seen out]. unfold drun. cbn. rewrite app_nil_r. reflexivity. Qed.

(** ** the model computes [drun] *)
Lemma dot_node_run : forall x n st, dot_node x n st = Done (drun [Touch x n] st).
Proof.
  intros x n [seen out]. unfold dot_node, drun. cbn.
  destruct (smem x seen); cbn; [rewrite app_nil_r; reflexivity |].
  destruct n as [nd|]; cbn; [| reflexivity].
  destruct (n_source nd); reflexivity.
Qed.

Definition branch_events (nodes : gspec) (name : string) (b : branch) : list event :=
  [Touch (b_target b) (nodes_get (b_target b) nodes); Edge name (b_target b)].

Lemma dot_branch_run : forall nodes name st b,
  dot_branch nodes name st b = Done (drun (branch_events nodes name b) st).
Proof.
  intros nodes name st b. unfold dot_branch. rewrite dot_node_run. cbn [obind].
  unfold branch_events.
  change [Touch (b_target b) (nodes_get (b_target b) nodes); Edge name (b_target b)]
    with ([Touch (b_target b) (nodes_get (b_target b) nodes)] ++ [Edge name (b_target b)]).
  rewrite drun_app. reflexivity.
Qed.

Lemma dot_branches_run : forall nodes name bs st,
  ofold (dot_branch nodes name) bs st = Done (drun (flat_map (branch_events nodes name) bs) st).
Proof.
  intros nodes name bs. induction bs as [|b r IH]; intros st.
  - cbn [ofold flat_map]. rewrite drun_nil. reflexivity.
  - cbn [ofold flat_map]. rewrite dot_branch_run. cbn [obind]. rewrite IH, drun_app. reflexivity.
Qed.

Definition node_events (nodes : gspec) (name : string) (nd : node) : list event :=
  Touch name (Some nd) :: flat_map (branch_events nodes name) (branches_of_node nd).

Lemma dot_process_run : forall nodes name nd st,
  dot_process nodes name (Some nd) st = Done (drun (node_events nodes name nd) st).
Proof.
  intros nodes name nd st. unfold dot_process. rewrite dot_node_run. cbn [obind deref].
  unfold node_events, branches_of_node.
  change (Touch name (Some nd) :: flat_map (branch_events nodes name)
            match n_branches nd with Some l => l | None => [] end)
    with ([Touch name (Some nd)] ++ flat_map (branch_events nodes name)
            match n_branches nd with Some l => l | None => [] end).
  rewrite drun_app. destruct (n_branches nd) as [bs|].
  - apply dot_branches_run.
  - cbn [flat_map]. rewrite drun_nil. reflexivity.
Qed.

(** ** the walk *)
Definition not_start (p : string * option node) : bool := negb (String.eqb (fst p) start_name).

(** "start" first, then the other nodes in the order of the range loop *)
Definition ordered (nodes : gspec) : gspec :=
  (if has_key start_name nodes then [(start_name, nodes_get start_name nodes)] else [])
  ++ filter not_start nodes.

Definition events_of (nodes : gspec) (l : gspec) : list event :=
  flat_map (fun p => node_events nodes (fst p) (node_of (snd p))) l.
Definition events (nodes : gspec) : list event := events_of nodes (ordered nodes).

Definition all_some (nodes : gspec) : Prop :=
  forall p, In p nodes -> exists nd, snd p = Some nd.

Lemma normalize_all_some : forall g, all_some (normalize g).
Proof.
  intros g p Hp. unfold normalize in Hp. apply in_map_iff in Hp.
  destruct Hp as (q & <- & _). cbn. eauto.
Qed.

Lemma has_key_In : forall x (g : gspec), has_key x g = true <-> In x (names g).
Proof.
  intros x g. induction g as [|[y o] r IH]; cbn.
  - split; [discriminate | tauto].
  - rewrite orb_true_iff, IH, String.eqb_eq. split; intros [H | H]; auto.
Qed.

Lemma nodes_get_In : forall x (g : gspec),
  has_key x g = true -> In (x, nodes_get x g) g.
Proof.
  intros x g. induction g as [|[y o] r IH]; cbn; [discriminate |].
  destruct (String.eqb x y) eqn:E; cbn.
  - intros _. apply String.eqb_eq in E. subst. left. reflexivity.
  - intros H. right. apply IH, H.
Qed.

Lemma nodes_get_none : forall x (g : gspec), has_key x g = false -> nodes_get x g = None.
Proof.
  intros x g. induction g as [|[y o] r IH]; cbn; [reflexivity |].
  destruct (String.eqb x y); cbn; [discriminate | exact IH].
Qed.

Lemma dot_loop_run : forall nodes l st,
  all_some l ->
  ofold (fun st p => if String.eqb (fst p) start_name then Done st
                     else dot_process nodes (fst p) (snd p) st) l st =
  Done (drun (events_of nodes (filter not_start l)) st).
Proof.
  intros nodes l. induction l as [|p r IH]; intros st Hl.
  - cbn. rewrite drun_nil. reflexivity.
  - cbn [ofold filter]. unfold not_start at 1.
    assert (Hr : all_some r) by (intros q Hq; apply Hl; right; exact Hq).
    destruct (String.eqb (fst p) start_name) eqn:E; cbn [negb obind].
    + apply IH, Hr.
    + destruct (Hl p (or_introl eq_refl)) as (nd & Hnd). rewrite Hnd, dot_process_run. cbn [obind].
      rewrite IH by exact Hr. unfold events_of. cbn [flat_map]. rewrite drun_app, Hnd. reflexivity.
Qed.

Theorem dot_is_dedup : forall g, dot g = Done (dedup [] (events (normalize g))).
Proof.
  intros g. unfold dot. set (nodes := normalize g).
  assert (Hs : all_some nodes) by apply normalize_all_some.
  unfold events, ordered, events_of. rewrite flat_map_app.
  destruct (has_key start_name nodes) eqn:Ek.
  - destruct (Hs _ (nodes_get_In _ _ Ek)) as (nd & Hnd). cbn in Hnd.
    rewrite Hnd, dot_process_run. cbn [obind].
    rewrite dot_loop_run by exact Hs. cbn [obind flat_map fst snd node_of].
    rewrite app_nil_r, <- drun_app. reflexivity.
  - cbn [obind]. rewrite dot_loop_run by exact Hs. reflexivity.
Qed.

(** * What [dedup] writes *)
Definition ev_edges (evs : list event) : list (string * string) :=
  flat_map (fun e => match e with Edge a b => [(a, b)] | Touch _ _ => [] end) evs.
Definition ev_touched (evs : list event) : list string :=
  flat_map (fun e => match e with Touch x _ => [x] | Edge _ _ => [] end) evs.

Lemma dedup_edges : forall evs seen, item_edges (dot_items (dedup seen evs)) = ev_edges evs.
Proof.
  induction evs as [|e r IH]; intros seen; cbn; [reflexivity |].
  destruct e as [x n | a b]; cbn.
  - destruct (smem x seen); cbn; apply IH.
  - f_equal. apply IH.
Qed.

Lemma dedup_nodes_In : forall evs seen x,
  In x (item_nodes (dot_items (dedup seen evs))) <-> In x (ev_touched evs) /\ ~ In x seen.
Proof.
  induction evs as [|e r IH]; intros seen x; cbn; [tauto |].
  destruct e as [y n | a b]; cbn.
  - destruct (smem y seen) eqn:E; cbn.
    + rewrite IH. apply smem_In in E. split; [tauto |].
      intros [[<- | H] Hn]; [contradiction | auto].
    + rewrite IH. apply smem_notIn in E. cbn. split.
      * intros [<- | [H Hn]]; [auto |]. split; [auto | tauto].
      * intros [[<- | H] Hn]; [auto |].
        destruct (String.eqb_spec y x) as [-> | Hne]; [auto |]. right. split; [exact H |].
        intros [Hx | Hx]; [congruence | contradiction].
  - apply IH.
Qed.

Lemma dedup_nodes_NoDup : forall evs seen, NoDup (item_nodes (dot_items (dedup seen evs))).
Proof.
  induction evs as [|e r IH]; intros seen; cbn; [constructor |].
  destruct e as [y n | a b]; cbn; [| apply IH].
  destruct (smem y seen); cbn; [apply IH |].
  constructor; [| apply IH]. rewrite dedup_nodes_In. cbn. tauto.
Qed.

Lemma dedup_ph : forall evs seen x ph,
  In (DNode x ph) (dedup seen evs) -> exists n, In (Touch x n) evs /\ ph = is_none n.
Proof.
  induction evs as [|e r IH]; intros seen x ph; cbn; [tauto |].
  destruct e as [y n | a b]; cbn.
  - destruct (smem y seen); cbn.
    + intros H. destruct (IH _ _ _ H) as (m & Hm & E). exists m. auto.
    + intros [E | H].
      * inversion E; subst. exists n. auto.
      * destruct (IH _ _ _ H) as (m & Hm & E). exists m. auto.
  - intros [E | H]; [discriminate |]. destruct (IH _ _ _ H) as (m & Hm & E). exists m. auto.
Qed.

(** * What the walk contains *)
Lemma ev_edges_app : forall a b, ev_edges (a ++ b) = ev_edges a ++ ev_edges b.
Proof. intros. unfold ev_edges. apply flat_map_app. Qed.
Lemma ev_touched_app : forall a b, ev_touched (a ++ b) = ev_touched a ++ ev_touched b.
Proof. intros. unfold ev_touched. apply flat_map_app. Qed.

Lemma ev_edges_branches : forall nodes name bs,
  ev_edges (flat_map (branch_events nodes name) bs) = map (fun b => (name, b_target b)) bs.
Proof.
  intros nodes name bs. induction bs as [|b r IH]; cbn; [reflexivity |]. f_equal. exact IH.
Qed.

Lemma ev_edges_events_of : forall nodes l, ev_edges (events_of nodes l) = g_edges l.
Proof.
  intros nodes l. unfold events_of, g_edges, all_branches.
  induction l as [|p r IH]; cbn; [reflexivity |].
  rewrite ev_edges_app, map_app, IH. f_equal.
  rewrite ev_edges_branches, map_map. reflexivity.
Qed.

Lemma ev_touched_branches : forall nodes name bs,
  ev_touched (flat_map (branch_events nodes name) bs) = map b_target bs.
Proof.
  intros nodes name bs. induction bs as [|b r IH]; cbn; [reflexivity |]. f_equal. exact IH.
Qed.

Lemma ev_touched_events_of : forall nodes l x,
  In x (ev_touched (events_of nodes l)) <-> In x (names l) \/ In x (targets l).
Proof.
  intros nodes l x. unfold events_of, targets, all_branches.
  induction l as [|p r IH]; cbn; [tauto |].
  rewrite ev_touched_app, in_app_iff, IH, ev_touched_branches, map_app, in_app_iff, !map_map. cbn.
  unfold branches_of. tauto.
Qed.

(** ** "start" first is a permutation of the nodes *)
Lemma filter_not_start_id : forall (l : gspec),
  ~ In start_name (names l) -> filter not_start l = l.
Proof.
  induction l as [|[y o] r IH]; cbn; intros H; [reflexivity |].
  unfold not_start at 1. cbn. destruct (String.eqb_spec y start_name) as [-> | Hne]; cbn.
  - exfalso. apply H. left. reflexivity.
  - f_equal. apply IH. tauto.
Qed.

Lemma ordered_perm : forall nodes, NoDup (names nodes) -> Permutation (ordered nodes) nodes.
Proof.
  unfold ordered. induction nodes as [|[y o] r IH]; cbn; intros Hn; [constructor |].
  inversion Hn as [|? ? Hy Hr]; subst.
  unfold not_start at 1. cbn [fst].
  destruct (String.eqb_spec y start_name) as [-> | Hne].
  - rewrite String.eqb_refl. cbn. rewrite filter_not_start_id by exact Hy. apply Permutation_refl.
  - assert (E : String.eqb start_name y = false) by (apply String.eqb_neq; congruence).
    rewrite E. cbn [orb negb].
    eapply perm_trans; [apply Permutation_sym, Permutation_middle |].
    apply perm_skip. apply IH, Hr.
Qed.

Lemma all_branches_perm : forall (l l' : gspec),
  Permutation l l' -> Permutation (all_branches l) (all_branches l').
Proof. intros l l' H. unfold all_branches. apply Permutation_flat_map, H. Qed.

Lemma g_edges_perm : forall (l l' : gspec), Permutation l l' -> Permutation (g_edges l) (g_edges l').
Proof. intros l l' H. unfold g_edges. apply Permutation_map, all_branches_perm, H. Qed.

Lemma names_perm : forall (l l' : gspec), Permutation l l' -> Permutation (names l) (names l').
Proof. intros l l' H. unfold names. apply Permutation_map, H. Qed.

Lemma targets_perm : forall (l l' : gspec), Permutation l l' -> Permutation (targets l) (targets l').
Proof. intros l l' H. unfold targets. apply Permutation_map, all_branches_perm, H. Qed.

(** ** normalising the nil nodes changes nothing the graph notions see *)
Lemma names_normalize : forall g, names (normalize g) = names g.
Proof. intros g. unfold names, normalize. rewrite map_map. reflexivity. Qed.

Lemma all_branches_normalize : forall g, all_branches (normalize g) = all_branches g.
Proof.
  intros g. unfold all_branches, normalize. induction g as [|p r IH]; cbn; [reflexivity |].
  rewrite IH. reflexivity.
Qed.

Lemma g_edges_normalize : forall g, g_edges (normalize g) = g_edges g.
Proof. intros g. unfold g_edges. rewrite all_branches_normalize. reflexivity. Qed.

Lemma targets_normalize : forall g, targets (normalize g) = targets g.
Proof. intros g. unfold targets. rewrite all_branches_normalize. reflexivity. Qed.

(** * Dot: the theorems *)
Theorem dot_total : forall g, exists l, dot g = Done l.
Proof. intros g. eexists. apply dot_is_dedup. Qed.

Theorem dot_edges : forall g l,
  NoDup (names g) -> dot g = Done l -> Permutation (item_edges (dot_items l)) (g_edges g).
Proof.
  intros g l Hg Hl. rewrite dot_is_dedup in Hl. inversion Hl; subst l.
  rewrite dedup_edges. unfold events. rewrite ev_edges_events_of, <- (g_edges_normalize g).
  apply g_edges_perm, ordered_perm. rewrite names_normalize. exact Hg.
Qed.

Lemma events_touched : forall g x,
  NoDup (names g) ->
  In x (ev_touched (events (normalize g))) <-> In x (names g) \/ In x (targets g).
Proof.
  intros g x Hg. unfold events. rewrite ev_touched_events_of.
  assert (Hp : Permutation (ordered (normalize g)) (normalize g))
    by (apply ordered_perm; rewrite names_normalize; exact Hg).
  rewrite <- (names_normalize g), <- (targets_normalize g). split.
  - intros [H | H]; [left | right]; (eapply Permutation_in; [| exact H]);
      [apply names_perm | apply targets_perm]; exact Hp.
  - intros [H | H]; [left | right]; (eapply Permutation_in; [| exact H]);
      [apply names_perm | apply targets_perm]; apply Permutation_sym; exact Hp.
Qed.

Theorem dot_nodes : forall g l,
  NoDup (names g) -> dot g = Done l -> Permutation (item_nodes (dot_items l)) (g_render_nodes g).
Proof.
  intros g l Hg Hl. rewrite dot_is_dedup in Hl. inversion Hl; subst l.
  apply NoDup_Permutation; [apply dedup_nodes_NoDup | apply g_render_nodes_NoDup; exact Hg |].
  intros x. rewrite dedup_nodes_In, events_touched by exact Hg.
  rewrite g_render_nodes_spec, <- in_targets. unfold is_node. cbn. tauto.
Qed.

(** every [Touch] of the walk carries what [nodes[x]] holds *)
Lemma ordered_incl : forall nodes p, In p (ordered nodes) -> In p nodes.
Proof.
  intros nodes p H. unfold ordered in H. apply in_app_iff in H. destruct H as [H | H].
  - destruct (has_key start_name nodes) eqn:Ek; [| destruct H].
    destruct H as [<- | []]. apply nodes_get_In, Ek.
  - apply filter_In in H. tauto.
Qed.

Lemma nodes_get_unique : forall (nodes : gspec) y o,
  NoDup (names nodes) -> In (y, o) nodes -> nodes_get y nodes = o.
Proof.
  induction nodes as [|[z o'] r IH]; cbn; intros y o Hn Hin; [tauto |].
  inversion Hn as [|? ? Hz Hr]; subst. destruct Hin as [E | Hin].
  - inversion E; subst. rewrite String.eqb_refl. reflexivity.
  - destruct (String.eqb_spec y z) as [-> | Hne]; [| apply IH; assumption].
    exfalso. apply Hz. apply in_map_iff. exists (z, o). auto.
Qed.

Lemma events_touch : forall nodes l x n,
  (forall p, In p l -> In p nodes) ->
  NoDup (names nodes) -> all_some nodes ->
  In (Touch x n) (events_of nodes l) -> n = nodes_get x nodes.
Proof.
  intros nodes l x n Hl Hn Hs H. unfold events_of in H. apply in_flat_map in H.
  destruct H as (p & Hp & H). unfold node_events in H. cbn in H. destruct H as [E | H].
  - inversion E; subst. clear E. apply Hl in Hp. destruct p as [y o].
    destruct (Hs _ Hp) as (nd & Hnd). cbn in Hnd. subst o. cbn.
    symmetry. apply nodes_get_unique; assumption.
  - apply in_flat_map in H. destruct H as (b & Hb & H). cbn in H.
    destruct H as [E | [E | []]]; [| discriminate]. inversion E; subst. reflexivity.
Qed.

Lemma nodes_get_is_none : forall nodes x,
  all_some nodes -> is_none (nodes_get x nodes) = negb (has_key x nodes).
Proof.
  intros nodes x Hs. destruct (has_key x nodes) eqn:Ek; cbn.
  - destruct (Hs _ (nodes_get_In _ _ Ek)) as (nd & Hnd). cbn in Hnd. rewrite Hnd. reflexivity.
  - rewrite nodes_get_none by exact Ek. reflexivity.
Qed.

Lemma in_dot_placeholders : forall l x, In x (dot_placeholders l) <-> In (DNode x true) l.
Proof.
  intros l x. unfold dot_placeholders. rewrite in_flat_map. split.
  - intros (s & Hs & Hx). destruct s as [y [|] | a b]; cbn in Hx; try tauto.
    destruct Hx as [<- | []]. exact Hs.
  - intros H. exists (DNode x true). split; [exact H | left; reflexivity].
Qed.

Lemma in_item_nodes_dot : forall l x,
  In x (item_nodes (dot_items l)) <-> exists ph, In (DNode x ph) l.
Proof.
  intros l x. unfold item_nodes, dot_items. rewrite in_flat_map. split.
  - intros (it & Hit & Hx). apply in_map_iff in Hit. destruct Hit as (s & <- & Hs).
    destruct s as [y ph | a b]; cbn in Hx; [| tauto]. destruct Hx as [<- | []]. eauto.
  - intros (ph & H). exists (NodeItem x). split; [| left; reflexivity].
    apply in_map_iff. exists (DNode x ph). auto.
Qed.

Lemma dot_placeholders_NoDup : forall l,
  NoDup (item_nodes (dot_items l)) -> NoDup (dot_placeholders l).
Proof.
  induction l as [|s r IH]; cbn; intros H; [constructor |].
  destruct s as [y [|] | a b]; cbn in *.
  - inversion H as [|? ? Hy Hr]; subst. constructor; [| apply IH, Hr].
    intros Hin. apply Hy. apply in_item_nodes_dot. exists true. apply in_dot_placeholders, Hin.
  - inversion H; subst. auto.
  - auto.
Qed.

Theorem dot_placeholders_spec : forall g l,
  NoDup (names g) -> dot g = Done l -> Permutation (dot_placeholders l) (g_placeholders g).
Proof.
  intros g l Hg Hl. pose proof (dot_nodes g l Hg Hl) as Hnodes.
  rewrite dot_is_dedup in Hl. inversion Hl; subst l. clear Hl.
  set (nodes := normalize g) in *.
  assert (Hs : all_some nodes) by apply normalize_all_some.
  assert (Hn : NoDup (names nodes)) by (unfold nodes; rewrite names_normalize; exact Hg).
  assert (Hph : forall x ph, In (DNode x ph) (dedup [] (events nodes)) -> ph = negb (has_key x nodes)).
  { intros x ph H. apply dedup_ph in H. destruct H as (n & Hn' & ->).
    apply (events_touch nodes (ordered nodes)) in Hn'; try assumption; [| apply ordered_incl].
    subst n. apply nodes_get_is_none, Hs. }
  apply NoDup_Permutation.
  - apply dot_placeholders_NoDup, dedup_nodes_NoDup.
  - apply sdedup_NoDup.
  - intros x. rewrite in_dot_placeholders, g_placeholders_spec. unfold is_node. split.
    + intros H. pose proof (Hph _ _ H) as E.
      assert (Hk : ~ In x (names g)).
      { rewrite <- (names_normalize g). fold nodes. rewrite <- has_key_In.
        destruct (has_key x nodes); [discriminate | congruence]. }
      split; [| exact Hk].
      assert (Hx : In x (g_render_nodes g)).
      { eapply Permutation_in; [exact Hnodes |]. apply in_item_nodes_dot. eauto. }
      apply g_render_nodes_spec in Hx. destruct Hx as [Hx | Hx]; [contradiction | exact Hx].
    + intros [Ht Hk].
      assert (Hx : In x (item_nodes (dot_items (dedup [] (events nodes))))).
      { eapply Permutation_in; [apply Permutation_sym, Hnodes |].
        apply g_render_nodes_spec. right. exact Ht. }
      apply in_item_nodes_dot in Hx. destruct Hx as (ph & Hx).
      rewrite (Hph _ _ Hx) in Hx.
      replace (has_key x nodes) with false in Hx; [exact Hx |].
      symmetry. destruct (has_key x nodes) eqn:E; [| reflexivity].
      exfalso. apply Hk. rewrite <- (names_normalize g). apply has_key_In. exact E.
Qed.

(** * Mermaid: statements for a list of events, given the ids handed out *)
Definition boxed_of (n : option node) : bool :=
  match n with Some nd => n_action nd | None => true end.
Definition nid0 (x : string) (nids : list (string * nat)) : nat :=
  match nid_get x nids with Some i => i | None => 0 end.

Fixpoint mer_evs (nids : list (string * nat)) (num : nat) (evs : list event) : list mstmt :=
  match evs with
  | [] => []
  | Touch x n :: r =>
      match nid_get x nids with
      | Some _ => mer_evs nids num r
      | None => MNode (S num) x (boxed_of n) :: mer_evs ((x, S num) :: nids) (S num) r
      end
  | Edge a b :: r => MEdge (nid0 a nids) (nid0 b nids) :: mer_evs nids num r
  end.
Fixpoint mer_after (nids : list (string * nat)) (num : nat) (evs : list event)
  : list (string * nat) * nat :=
  match evs with
  | [] => (nids, num)
  | Touch x _ :: r =>
      match nid_get x nids with
      | Some _ => mer_after nids num r
      | None => mer_after ((x, S num) :: nids) (S num) r
      end
  | Edge _ _ :: r => mer_after nids num r
  end.

Definition mrun (evs : list event) (st : mstate) : mstate :=
  mk_mstate (fst (mer_after (m_nids st) (m_num st) evs)) (snd (mer_after (m_nids st) (m_num st) evs))
            (m_out st ++ mer_evs (m_nids st) (m_num st) evs).

Lemma mer_evs_app : forall e1 e2 nids num,
  mer_evs nids num (e1 ++ e2) =
  mer_evs nids num e1 ++ mer_evs (fst (mer_after nids num e1)) (snd (mer_after nids num e1)) e2.
Proof.
  induction e1 as [|e r IH]; intros e2 nids num; cbn; [reflexivity |].
  destruct e as [x n | a b]; cbn.
  - destruct (nid_get x nids); cbn; rewrite IH; reflexivity.
  - rewrite IH. reflexivity.
Qed.

Lemma mer_after_app : forall e1 e2 nids num,
  mer_after nids num (e1 ++ e2) =
  mer_after (fst (mer_after nids num e1)) (snd (mer_after nids num e1)) e2.
Proof.
  induction e1 as [|e r IH]; intros e2 nids num; cbn; [reflexivity |].
  destruct e as [x n | a b]; cbn; [destruct (nid_get x nids) |]; apply IH.
Qed.

Lemma mrun_app : forall e1 e2 st, mrun (e1 ++ e2) st = mrun e2 (mrun e1 st).
Proof.
  intros e1 e2 st. unfold mrun. cbn. rewrite mer_after_app, mer_evs_app, app_assoc. reflexivity.
Qed.

Lemma mrun_nil : forall st, mrun [] st = st.
Proof. intros [nids num out]. unfold mrun. cbn. rewrite app_nil_r. reflexivity. Qed.

(** an id, once handed out, stays *)
Lemma mer_after_keeps : forall evs nids num x i,
  nid_get x nids = Some i -> nid_get x (fst (mer_after nids num evs)) = Some i.
Proof.
  induction evs as [|e r IH]; intros nids num x i H; cbn; [exact H |].
  destruct e as [y n | a b]; [| apply IH, H].
  destruct (nid_get y nids) eqn:Ey; [apply IH, H |].
  apply IH. cbn. destruct (String.eqb_spec x y) as [-> | Hne]; [congruence | exact H].
Qed.

(** ** the model computes [mrun] *)
Lemma mer_node_run : forall x n st,
  mer_node x n st = (nid0 x (m_nids (mrun [Touch x n] st)), mrun [Touch x n] st).
Proof.
  intros x n [nids num out]. unfold mer_node, mrun, nid0. cbn.
  destruct (nid_get x nids) eqn:E; cbn.
  - rewrite E, app_nil_r. reflexivity.
  - rewrite String.eqb_refl. reflexivity.
Qed.

Lemma mer_node_get : forall x n st,
  nid_get x (m_nids (mrun [Touch x n] st)) = Some (nid0 x (m_nids (mrun [Touch x n] st))).
Proof.
  intros x n [nids num out]. unfold mrun, nid0. cbn.
  destruct (nid_get x nids) eqn:E; cbn.
  - rewrite E. reflexivity.
  - rewrite String.eqb_refl. reflexivity.
Qed.

Lemma mer_branch_run : forall nodes name nid st b,
  nid_get name (m_nids st) = Some nid ->
  mer_branch nodes nid st b = mrun (branch_events nodes name b) st.
Proof.
  intros nodes name nid st b Hnid. unfold mer_branch. rewrite mer_node_run.
  unfold branch_events.
  change [Touch (b_target b) (nodes_get (b_target b) nodes); Edge name (b_target b)]
    with ([Touch (b_target b) (nodes_get (b_target b) nodes)] ++ [Edge name (b_target b)]).
  rewrite mrun_app.
  set (st' := mrun [Touch (b_target b) (nodes_get (b_target b) nodes)] st).
  assert (Hk : nid_get name (m_nids st') = Some nid).
  { unfold st', mrun. cbn [m_nids]. apply mer_after_keeps, Hnid. }
  clearbody st'. unfold mrun. cbn. unfold nid0 at 2. rewrite Hk. reflexivity.
Qed.

Lemma mer_branches_run : forall nodes name nid bs st,
  nid_get name (m_nids st) = Some nid ->
  fold_left (mer_branch nodes nid) bs st = mrun (flat_map (branch_events nodes name) bs) st.
Proof.
  intros nodes name nid bs. induction bs as [|b r IH]; intros st Hnid.
  - cbn. rewrite mrun_nil. reflexivity.
  - cbn [fold_left flat_map]. rewrite (mer_branch_run nodes name) by exact Hnid.
    rewrite mrun_app. apply IH. unfold mrun. cbn [m_nids]. apply mer_after_keeps, Hnid.
Qed.

Lemma mer_process_run : forall nodes name nd st,
  mer_process nodes name (Some nd) st = Done (mrun (node_events nodes name nd) st).
Proof.
  intros nodes name nd st. unfold mer_process. rewrite mer_node_run. cbn [obind deref].
  unfold node_events, branches_of_node.
  change (Touch name (Some nd) :: flat_map (branch_events nodes name)
            match n_branches nd with Some l => l | None => [] end)
    with ([Touch name (Some nd)] ++ flat_map (branch_events nodes name)
            match n_branches nd with Some l => l | None => [] end).
  rewrite mrun_app. destruct (n_branches nd) as [bs|].
  - f_equal. apply mer_branches_run. apply mer_node_get.
  - cbn [flat_map]. rewrite mrun_nil. reflexivity.
Qed.

Lemma mer_loop_run : forall nodes l st,
  all_some l ->
  ofold (fun st p => if String.eqb (fst p) start_name then Done st
                     else mer_process nodes (fst p) (snd p) st) l st =
  Done (mrun (events_of nodes (filter not_start l)) st).
Proof.
  intros nodes l. induction l as [|p r IH]; intros st Hl.
  - cbn. rewrite mrun_nil. reflexivity.
  - cbn [ofold filter]. unfold not_start at 1.
    assert (Hr : all_some r) by (intros q Hq; apply Hl; right; exact Hq).
    destruct (String.eqb (fst p) start_name) eqn:E; cbn [negb obind].
    + apply IH, Hr.
    + destruct (Hl p (or_introl eq_refl)) as (nd & Hnd). rewrite Hnd, mer_process_run. cbn [obind].
      rewrite IH by exact Hr. unfold events_of. cbn [flat_map]. rewrite mrun_app, Hnd. reflexivity.
Qed.

Theorem mermaid_is_mer_evs : forall g, mermaid g = Done (mer_evs [] 0 (events (normalize g))).
Proof.
  intros g. unfold mermaid. set (nodes := normalize g).
  assert (Hs : all_some nodes) by apply normalize_all_some.
  unfold events, ordered, events_of. rewrite flat_map_app.
  destruct (has_key start_name nodes) eqn:Ek.
  - destruct (Hs _ (nodes_get_In _ _ Ek)) as (nd & Hnd). cbn in Hnd.
    rewrite Hnd, mer_process_run. cbn [obind].
    rewrite mer_loop_run by exact Hs. cbn [obind flat_map fst snd node_of].
    rewrite app_nil_r, <- mrun_app. reflexivity.
  - cbn [obind]. rewrite mer_loop_run by exact Hs. reflexivity.
Qed.

Theorem mermaid_total : forall g, exists l, mermaid g = Done l.
Proof. intros g. eexists. apply mermaid_is_mer_evs. Qed.

(** * What the Mermaid statements denote *)

(** every edge of the walk joins names that were touched before *)
Fixpoint wt (seen : list string) (evs : list event) : Prop :=
  match evs with
  | [] => True
  | Touch x _ :: r => wt (x :: seen) r
  | Edge a b :: r => In a seen /\ In b seen /\ wt seen r
  end.

Lemma wt_mono : forall evs seen seen',
  (forall x, In x seen -> In x seen') -> wt seen evs -> wt seen' evs.
Proof.
  induction evs as [|e r IH]; intros seen seen' Hi H; cbn in *; [exact I |].
  destruct e as [x n | a b].
  - eapply IH; [| exact H]. intros y [<- | Hy]; [left; reflexivity | right; apply Hi, Hy].
  - destruct H as (Ha & Hb & Hr). repeat split; auto. eapply IH; eassumption.
Qed.

Lemma wt_app : forall e1 e2 seen,
  wt seen e1 -> (forall seen', wt seen' e2) -> wt seen (e1 ++ e2).
Proof.
  induction e1 as [|e r IH]; intros e2 seen H1 H2; cbn in *; [apply H2 |].
  destruct e as [x n | a b].
  - apply IH; assumption.
  - destruct H1 as (Ha & Hb & Hr). repeat split; auto.
Qed.

Lemma wt_branches : forall nodes name bs seen,
  In name seen -> wt seen (flat_map (branch_events nodes name) bs).
Proof.
  intros nodes name bs. induction bs as [|b r IH]; intros seen Hn; cbn; [exact I |].
  repeat split; [right; exact Hn | left; reflexivity |].
  apply IH. right. exact Hn.
Qed.

Lemma wt_events_of : forall nodes l seen, wt seen (events_of nodes l).
Proof.
  intros nodes l. unfold events_of. induction l as [|p r IH]; intros seen; cbn [flat_map]; [exact I |].
  apply wt_app; [| exact IH]. unfold node_events. cbn [wt]. apply wt_branches. left. reflexivity.
Qed.

Lemma tab_get_in : forall (T : list (nat * string)) i x,
  NoDup (map fst T) -> In (i, x) T -> tab_get i T = Some x.
Proof.
  induction T as [|[j y] r IH]; cbn; intros i x Hn Hin; [tauto |].
  inversion Hn as [|? ? Hj Hr]; subst. destruct Hin as [E | Hin].
  - inversion E; subst. rewrite Nat.eqb_refl. reflexivity.
  - destruct (Nat.eqb_spec i j) as [-> | Hne]; [| apply IH; assumption].
    exfalso. apply Hj. apply in_map_iff. exists (j, x). auto.
Qed.

Lemma nat_nodup_NoDup : forall l, nat_nodup l = true <-> NoDup l.
Proof.
  induction l as [|x r IH]; cbn; [split; [constructor | reflexivity] |].
  rewrite andb_true_iff, negb_true_iff, IH. split.
  - intros [Hx Hr]. constructor; [| exact Hr]. intros Hin.
    assert (E : existsb (Nat.eqb x) r = true) by (apply existsb_exists; exists x; split; [exact Hin | apply Nat.eqb_refl]).
    congruence.
  - intros H. inversion H as [|? ? Hx Hr]; subst. split; [| exact Hr].
    destruct (existsb (Nat.eqb x) r) eqn:E; [| reflexivity].
    apply existsb_exists in E. destruct E as (y & Hy & E). apply Nat.eqb_eq in E. subst. contradiction.
Qed.

(** the ids are handed out in increasing order: fresh and distinct *)
Lemma mer_evs_ids : forall evs nids num,
  (forall i, In i (map fst (mer_table (mer_evs nids num evs))) -> num < i) /\
  NoDup (map fst (mer_table (mer_evs nids num evs))).
Proof.
  induction evs as [|e r IH]; intros nids num; cbn; [split; [tauto | constructor] |].
  destruct e as [x n | a b]; cbn; [| apply IH].
  destruct (nid_get x nids); [apply IH |].
  cbn. destruct (IH ((x, S num) :: nids) (S num)) as [Hlt Hnd]. split.
  - intros i [<- | Hi]; [lia |]. apply Hlt in Hi. lia.
  - constructor; [| exact Hnd]. intros Hin. apply Hlt in Hin. lia.
Qed.

Lemma mer_denote_evs : forall T evs nids num seen,
  (forall x, In x seen <-> exists i, nid_get x nids = Some i) ->
  (forall x i, nid_get x nids = Some i -> tab_get i T = Some x) ->
  (forall i x b, In (MNode i x b) (mer_evs nids num evs) -> tab_get i T = Some x) ->
  wt seen evs ->
  mer_denote T (mer_evs nids num evs) = Some (dot_items (dedup seen evs)).
Proof.
  intros T evs. induction evs as [|e r IH]; intros nids num seen Hseen Hnids Hout Hwt; [reflexivity |].
  destruct e as [x n | a b]; cbn in *.
  - destruct (nid_get x nids) as [i|] eqn:Ex.
    + assert (Hx : smem x seen = true) by (apply smem_In, Hseen; eauto).
      rewrite Hx. apply IH; try assumption.
      eapply wt_mono; [| exact Hwt]. intros y [<- | Hy]; [apply smem_In, Hx | exact Hy].
    + assert (Hx : smem x seen = false).
      { apply smem_notIn. intros Hin. apply Hseen in Hin. destruct Hin as (i & Hi). congruence. }
      rewrite Hx. cbn.
      rewrite (IH ((x, S num) :: nids) (S num) (x :: seen)); [reflexivity | | | | exact Hwt].
      * intros y. cbn. destruct (String.eqb_spec y x) as [-> | Hne].
        -- split; [eauto | auto].
        -- rewrite <- Hseen. split; [intros [E | H]; [congruence | exact H] | auto].
      * intros y i. cbn. destruct (String.eqb_spec y x) as [-> | Hne].
        -- intros E. inversion E; subst. apply (Hout _ _ (boxed_of n)). left. reflexivity.
        -- apply Hnids.
      * intros i y b H. apply (Hout i y b). right. exact H.
  - destruct Hwt as (Ha & Hb & Hr).
    apply Hseen in Ha. destruct Ha as (i & Hi). apply Hseen in Hb. destruct Hb as (j & Hj).
    unfold nid0. rewrite Hi, Hj, (Hnids _ _ Hi), (Hnids _ _ Hj).
    rewrite (IH nids num seen); try assumption; [reflexivity |].
    intros k y c H. apply (Hout k y c). right. exact H.
Qed.

Theorem mer_items_evs : forall nodes l,
  mer_items (mer_evs [] 0 (events_of nodes l)) = Some (dot_items (dedup [] (events_of nodes l))).
Proof.
  intros nodes l. unfold mer_items.
  destruct (mer_evs_ids (events_of nodes l) [] 0) as [_ Hnd].
  rewrite (proj2 (nat_nodup_NoDup _) Hnd).
  apply mer_denote_evs.
  - intros x. cbn. split; [tauto | intros (i & Hi); discriminate].
  - intros x i Hi. discriminate.
  - intros i x b H. apply tab_get_in; [exact Hnd |].
    unfold mer_table. apply in_flat_map. exists (MNode i x b). split; [exact H | left; reflexivity].
  - apply wt_events_of.
Qed.

(** * Mermaid: the theorems *)

(** the two renderings denote the same list of items *)
Theorem renderers_agree : forall g l m,
  dot g = Done l -> mermaid g = Done m -> mer_items m = Some (dot_items l).
Proof.
  intros g l m Hl Hm. rewrite dot_is_dedup in Hl. rewrite mermaid_is_mer_evs in Hm.
  inversion Hl; inversion Hm; subst. apply mer_items_evs.
Qed.

Theorem mermaid_items : forall g, NoDup (names g) ->
  exists m items,
    mermaid g = Done m /\ mer_items m = Some items /\
    Permutation (item_nodes items) (g_render_nodes g) /\
    Permutation (item_edges items) (g_edges g).
Proof.
  intros g Hg. destruct (dot_total g) as (l & Hl). destruct (mermaid_total g) as (m & Hm).
  exists m, (dot_items l). split; [exact Hm |]. split; [eapply renderers_agree; eassumption |].
  split; [apply dot_nodes | apply dot_edges]; assumption.
Qed.

(** * The order in which the runtime ranges over Spec.Nodes is immaterial *)
Lemma g_render_nodes_perm : forall g g',
  NoDup (names g) -> Permutation g g' -> Permutation (g_render_nodes g) (g_render_nodes g').
Proof.
  intros g g' Hg Hp.
  assert (Hg' : NoDup (names g')) by (eapply Permutation_NoDup; [apply names_perm, Hp | exact Hg]).
  apply NoDup_Permutation; try (apply g_render_nodes_NoDup; assumption).
  intros x. rewrite !g_render_nodes_spec, <- !in_targets. unfold is_node.
  split; intros [H | H]; [left | right | left | right];
    (eapply Permutation_in; [| exact H]);
    first [apply names_perm, Hp | apply targets_perm, Hp
          | apply Permutation_sym, names_perm, Hp | apply Permutation_sym, targets_perm, Hp].
Qed.

Theorem render_order_independent : forall g g' l l',
  NoDup (names g) -> Permutation g g' -> dot g = Done l -> dot g' = Done l' ->
  Permutation (item_nodes (dot_items l)) (item_nodes (dot_items l')) /\
  Permutation (item_edges (dot_items l)) (item_edges (dot_items l')).
Proof.
  intros g g' l l' Hg Hp Hl Hl'.
  assert (Hg' : NoDup (names g')) by (eapply Permutation_NoDup; [apply names_perm, Hp | exact Hg]).
  split.
  - eapply perm_trans; [apply (dot_nodes g l Hg Hl) |].
    eapply perm_trans; [apply g_render_nodes_perm; eassumption |].
    apply Permutation_sym, dot_nodes; assumption.
  - eapply perm_trans; [apply (dot_edges g l Hg Hl) |].
    eapply perm_trans; [apply g_edges_perm; eassumption |].
    apply Permutation_sym, dot_edges; assumption.
Qed.
