(** String sets as lists ([smem], [sadd], [sdedup]), [ssort] (sort.Strings)
    and the folds that fill a Go map[string]bool: membership, absence of
    duplicates, order. *)
From Sheens Require Import Spec.Graph Proofs.SortKvs.
From Coq Require Import Permutation Sorted Lia.

Lemma smem_In : forall x l, smem x l = true <-> In x l.
Proof.
  intros x l. induction l as [|y r IH]; cbn.
  - split; [discriminate | tauto].
  - rewrite orb_true_iff, IH, String.eqb_eq. split; intros [H | H]; auto.
Qed.

Lemma smem_notIn : forall x l, smem x l = false <-> ~ In x l.
Proof.
  intros x l. rewrite <- smem_In. destruct (smem x l); split; intros H; try discriminate; auto.
  exfalso. apply H. reflexivity.
Qed.

Lemma sadd_In : forall x y l, In y (sadd x l) <-> y = x \/ In y l.
Proof.
  intros x y l. unfold sadd. destruct (smem x l) eqn:E.
  - apply smem_In in E. split; [auto | intros [-> | H]; auto].
  - cbn. split; intros [H | H]; auto.
Qed.

Lemma sadd_NoDup : forall x l, NoDup l -> NoDup (sadd x l).
Proof.
  intros x l H. unfold sadd. destruct (smem x l) eqn:E; [exact H |].
  constructor; [apply smem_notIn; exact E | exact H].
Qed.

(** * sort.Strings *)
Lemma sinsert_perm : forall x l, Permutation (sinsert x l) (x :: l).
Proof.
  intros x l. induction l as [|y r IH]; cbn; [apply Permutation_refl |].
  destruct (String.leb x y); [apply Permutation_refl |].
  eapply perm_trans; [apply perm_skip; exact IH | apply perm_swap].
Qed.

Lemma ssort_perm : forall l, Permutation (ssort l) l.
Proof.
  induction l as [|x r IH]; cbn; [constructor |].
  eapply perm_trans; [apply sinsert_perm | apply perm_skip; exact IH].
Qed.

Lemma ssort_In : forall x l, In x (ssort l) <-> In x l.
Proof.
  intros x l. split; apply Permutation_in; [apply ssort_perm | apply Permutation_sym, ssort_perm].
Qed.

Lemma ssort_NoDup : forall l, NoDup l -> NoDup (ssort l).
Proof.
  intros l H. eapply Permutation_NoDup; [apply Permutation_sym, ssort_perm | exact H].
Qed.

Definition sleb (a b : string) : Prop := String.leb a b = true.

Lemma sinsert_sorted : forall x l, StronglySorted sleb l -> StronglySorted sleb (sinsert x l).
Proof.
  intros x l H. induction H as [|y r Hr IH Hall]; cbn.
  - constructor; constructor.
  - destruct (String.leb x y) eqn:E.
    + constructor; [constructor; assumption |].
      constructor; [exact E |].
      rewrite Forall_forall in *. intros z Hz. eapply string_leb_trans; [exact E | apply Hall, Hz].
    + constructor; [exact IH |].
      rewrite Forall_forall in *. intros z Hz.
      apply (Permutation_in _ (sinsert_perm x r)) in Hz. destruct Hz as [<- | Hz].
      * destruct (String.leb_total x y) as [H1 | H1]; [congruence | exact H1].
      * apply Hall, Hz.
Qed.

Lemma ssort_sorted : forall l, StronglySorted sleb (ssort l).
Proof.
  induction l as [|x r IH]; cbn; [constructor | apply sinsert_sorted, IH].
Qed.

(** two sorted duplicate-free lists with the same elements are equal *)
Lemma sorted_unique : forall a b,
  StronglySorted sleb a -> StronglySorted sleb b -> NoDup a -> NoDup b ->
  same_set a b -> a = b.
Proof.
  induction a as [|x a IH]; intros b Sa Sb Na Nb Hs.
  - destruct b as [|y b]; [reflexivity |]. exfalso. apply (Hs y). left. reflexivity.
  - destruct b as [|y b]; [exfalso; apply (Hs x); left; reflexivity |].
    inversion Sa as [|? ? Sa' Ha]; inversion Sb as [|? ? Sb' Hb]; subst.
    inversion Na as [|? ? Nx Na']; inversion Nb as [|? ? Ny Nb']; subst.
    rewrite Forall_forall in Ha, Hb.
    assert (x = y) as ->.
    { destruct (proj1 (Hs x) (or_introl eq_refl)) as [E | Hx]; [auto |].
      destruct (proj2 (Hs y) (or_introl eq_refl)) as [E | Hy]; [auto |].
      apply String.leb_antisym; [apply Ha, Hy | apply Hb, Hx]. }
    f_equal. apply IH; try assumption.
    intros z. split; intros Hz.
    + destruct (proj1 (Hs z) (or_intror Hz)) as [E | H]; [subst; contradiction | exact H].
    + destruct (proj2 (Hs z) (or_intror Hz)) as [E | H]; [subst; contradiction | exact H].
Qed.

Lemma keys_to_slice_none : forall m, keys_to_slice m None = ssort m.
Proof. intros m. unfold keys_to_slice. destruct (ssort m); reflexivity. Qed.

Lemma keys_to_slice_some : forall m d,
  keys_to_slice m (Some d) = match m with [] => [d] | _ => ssort m end.
Proof.
  intros m d. unfold keys_to_slice. destruct m as [|x r]; [reflexivity |].
  destruct (ssort (x :: r)) eqn:E; [| reflexivity].
  exfalso. assert (H : In x (ssort (x :: r))) by (apply ssort_In; left; reflexivity).
  rewrite E in H. exact H.
Qed.

(** * duplicates removed *)
Lemma sdedup_In : forall x l, In x (sdedup l) <-> In x l.
Proof.
  intros x l. induction l as [|y r IH]; cbn; [tauto |].
  destruct (smem y r) eqn:E.
  - rewrite IH. apply smem_In in E. split; [auto | intros [<- | H]; auto].
  - cbn. rewrite IH. tauto.
Qed.

Lemma sdedup_NoDup : forall l, NoDup (sdedup l).
Proof.
  induction l as [|y r IH]; cbn; [constructor |].
  destruct (smem y r) eqn:E; [exact IH |].
  constructor; [| exact IH]. rewrite sdedup_In. apply smem_notIn. exact E.
Qed.

(** * filling a set in a loop *)
Lemma fold_sadd : forall (A : Type) (p : A -> bool) (k : A -> string) (l : list A) (s0 : list string),
  (forall y, In y (fold_left (fun s x => if p x then sadd (k x) s else s) l s0) <->
             In y s0 \/ exists x, In x l /\ p x = true /\ k x = y) /\
  (NoDup s0 -> NoDup (fold_left (fun s x => if p x then sadd (k x) s else s) l s0)).
Proof.
  intros A p k l. induction l as [|x r IH]; intros s0; cbn.
  - split; [| auto]. intros y. split; [auto | intros [H | (x & [] & _)]; exact H].
  - destruct (IH (if p x then sadd (k x) s0 else s0)) as [IHin IHnd]. split.
    + intros y. rewrite IHin. destruct (p x) eqn:Ep.
      * rewrite sadd_In. split.
        -- intros [[-> | H] | (z & Hz & Hp & Hk)]; auto.
           ++ right. exists x. auto.
           ++ right. exists z. auto.
        -- intros [H | (z & [<- | Hz] & Hp & Hk)]; auto.
           right. exists z. auto.
      * split.
        -- intros [H | (z & Hz & Hp & Hk)]; auto. right. exists z. auto.
        -- intros [H | (z & [<- | Hz] & Hp & Hk)]; auto; [congruence |].
           right. exists z. auto.
    + intros H. apply IHnd. destruct (p x); [apply sadd_NoDup |]; exact H.
Qed.

Lemma fold_sadd_In : forall (A : Type) (p : A -> bool) (k : A -> string) l s0 y,
  In y (fold_left (fun s x => if p x then sadd (k x) s else s) l s0) <->
  In y s0 \/ exists x : A, In x l /\ p x = true /\ k x = y.
Proof. intros. apply fold_sadd. Qed.

Lemma fold_sadd_NoDup : forall (A : Type) (p : A -> bool) (k : A -> string) l s0,
  NoDup s0 -> NoDup (fold_left (fun s x => if p x then sadd (k x) s else s) l s0).
Proof. intros. apply fold_sadd. assumption. Qed.

(** counting in a loop *)
Lemma fold_count : forall (A : Type) (p : A -> bool) (l : list A) (c0 : nat),
  fold_left (fun c x => if p x then S c else c) l c0 = c0 + List.length (filter p l).
Proof.
  intros A p l. induction l as [|x r IH]; intros c0; cbn; [lia |].
  rewrite IH. destruct (p x); cbn; lia.
Qed.

(** a fold over the branches of every node is a fold over all branches *)
Lemma fold_left_flat_map : forall (A B C : Type) (f : C -> B -> C) (h : A -> list B) (l : list A) (c0 : C),
  fold_left (fun c a => fold_left f (h a) c) l c0 = fold_left f (flat_map h l) c0.
Proof.
  intros A B C f h l. induction l as [|a r IH]; intros c0; cbn; [reflexivity |].
  rewrite fold_left_app. apply IH.
Qed.

Lemma fold_left_map : forall (A B C : Type) (f : C -> B -> C) (h : A -> B) (l : list A) (c0 : C),
  fold_left f (map h l) c0 = fold_left (fun c a => f c (h a)) l c0.
Proof.
  intros A B C f h l. induction l as [|a r IH]; intros c0; cbn; [reflexivity | apply IH].
Qed.

Lemma fold_left_ext_in : forall (A B : Type) (f g : B -> A -> B) (l : list A) (b0 : B),
  (forall b a, In a l -> f b a = g b a) -> fold_left f l b0 = fold_left g l b0.
Proof.
  intros A B f g l. induction l as [|a r IH]; intros b0 H; cbn; [reflexivity |].
  rewrite H by (left; reflexivity). apply IH. intros b a' Ha. apply H. right. exact Ha.
Qed.

Lemma NoDup_same_set_perm : forall (a b : list string),
  NoDup a -> NoDup b -> same_set a b -> Permutation a b.
Proof. intros a b Ha Hb H. apply NoDup_Permutation; assumption. Qed.
