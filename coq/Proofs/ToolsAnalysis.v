(** Analyze reports the graph notions of Spec/Graph.v: the single pass of
    [analyze] (nine local variables updated per node and per branch) is
    decomposed variable by variable into a fold over the nodes or over all
    branches, and each fold is characterised. *)
From Sheens Require Import Spec.Graph Proofs.SortKvs Proofs.ToolsSets Proofs.ToolsSpec.
From Coq Require Import Permutation Sorted Lia.

Lemma an_node_eq : forall g a p,
  an_node g a p = fold_left (an_branch g (fst p)) (branches_of (snd p)) (an_pre a p).
Proof.
  intros g a p. unfold an_node, branches_of, branches_of_node.
  destruct (n_branches (node_of (snd p))); reflexivity.
Qed.

(** one local variable, seen through the whole pass *)
Lemma an_fold_proj : forall (C : Type) (f : acc -> C)
    (ub : string -> branch -> C -> C) (un : string * option node -> C -> C) g0,
  (forall name a b, f (an_branch g0 name a b) = ub name b (f a)) ->
  (forall a p, f (an_pre a p) = un p (f a)) ->
  forall g a,
    f (fold_left (an_node g0) g a) =
    fold_left (fun c p => fold_left (fun c b => ub (fst p) b c) (branches_of (snd p)) (un p c)) g (f a).
Proof.
  intros C f ub un g0 Hb Hn.
  assert (Hin : forall name bs a,
             f (fold_left (an_branch g0 name) bs a) = fold_left (fun c b => ub name b c) bs (f a)).
  { intros name bs. induction bs as [|b r IH]; intros a; cbn; [reflexivity |].
    rewrite IH, Hb. reflexivity. }
  induction g as [|p r IH]; intros a; cbn; [reflexivity |].
  rewrite IH, an_node_eq, Hin, Hn. reflexivity.
Qed.

Lemma fold_nodes_branches : forall (C : Type) (F : C -> string * branch -> C) (g : gspec) (c0 : C),
  fold_left (fun c p => fold_left (fun c b => F c (fst p, b)) (branches_of (snd p)) c) g c0 =
  fold_left F (all_branches g) c0.
Proof.
  intros C F g. induction g as [|p r IH]; intros c0; [reflexivity |].
  unfold all_branches. cbn. rewrite fold_left_app, fold_left_map. apply IH.
Qed.

Lemma fold_const_inner : forall (C : Type) (un : string * option node -> C -> C) (g : gspec) (c0 : C),
  fold_left (fun c p => fold_left (fun c (_ : branch) => c) (branches_of (snd p)) (un p c)) g c0 =
  fold_left (fun c p => un p c) g c0.
Proof.
  intros C un g. induction g as [|p r IH]; intros c0; cbn; [reflexivity |].
  assert (E : forall (l : list branch) (c : C), fold_left (fun c _ => c) l c = c).
  { induction l as [|x l IHl]; intros c; cbn; auto. }
  rewrite E. apply IH.
Qed.

(** * the four counters *)
Lemma an_c_branches : forall g0 g a,
  c_branches (fold_left (an_node g0) g a) = c_branches a + g_branches g.
Proof.
  intros g0 g a.
  rewrite (an_fold_proj nat c_branches (fun _ _ c => S c) (fun _ c => c) g0)
    by (intros; reflexivity).
  etransitivity; [apply (fold_nodes_branches nat (fun c _ => S c)) |].
  unfold g_branches. generalize (c_branches a). generalize (all_branches g).
  induction l as [|x r IH]; intros c; cbn; [lia | rewrite IH; lia].
Qed.

Lemma an_c_guards : forall g0 g a,
  c_guards (fold_left (an_node g0) g a) = c_guards a + g_guards g.
Proof.
  intros g0 g a.
  rewrite (an_fold_proj nat c_guards (fun _ b c => if branch_has_guard b then S c else c)
             (fun _ c => c) g0) by (intros; reflexivity).
  etransitivity;
    [apply (fold_nodes_branches nat (fun c xb => if branch_has_guard (snd xb) then S c else c)) |].
  unfold g_guards. apply fold_count.
Qed.

Lemma an_c_actions : forall g0 g a,
  c_actions (fold_left (an_node g0) g a) = c_actions a + g_actions g.
Proof.
  intros g0 g a.
  rewrite (an_fold_proj nat c_actions (fun _ _ c => c)
             (fun p c => if node_has_action (snd p) then S c else c) g0) by (intros; reflexivity).
  rewrite fold_const_inner. unfold g_actions. apply fold_count.
Qed.

(** * terminal nodes: appended in node order *)
Lemma an_s_terminal : forall g0 g a,
  s_terminal (fold_left (an_node g0) g a) = s_terminal a ++ g_terminal g.
Proof.
  intros g0 g a.
  rewrite (an_fold_proj (list string) s_terminal (fun _ _ s => s)
             (fun p s => if is_nil (branches_of (snd p)) then s ++ [fst p] else s) g0)
    by (intros; reflexivity).
  rewrite fold_const_inner. unfold g_terminal. generalize (s_terminal a).
  induction g as [|p r IH]; intros s; cbn; [symmetry; apply app_nil_r |].
  rewrite IH. destruct (is_nil (branches_of (snd p))); cbn; [| reflexivity].
  rewrite <- app_assoc. reflexivity.
Qed.

(** * the sets filled per branch *)
Lemma an_s_targeted : forall g0 g a t,
  In t (s_targeted (fold_left (an_node g0) g a)) <-> In t (s_targeted a) \/ In t (targets g).
Proof.
  intros g0 g a t.
  rewrite (an_fold_proj (list string) s_targeted (fun _ b s => sadd (b_target b) s) (fun _ s => s) g0)
    by (intros; reflexivity).
  rewrite (fold_nodes_branches (list string) (fun s xb => sadd (b_target (snd xb)) s)).
  rewrite (fold_sadd_In _ (fun _ => true) (fun xb : string * branch => b_target (snd xb))).
  unfold targets. rewrite in_map_iff. split; intros [H | (x & H)]; auto; right; exists x; tauto.
Qed.

Lemma an_s_targeted_NoDup : forall g0 g a,
  NoDup (s_targeted a) -> NoDup (s_targeted (fold_left (an_node g0) g a)).
Proof.
  intros g0 g a H.
  rewrite (an_fold_proj (list string) s_targeted (fun _ b s => sadd (b_target b) s) (fun _ s => s) g0)
    by (intros; reflexivity).
  rewrite (fold_nodes_branches (list string) (fun s xb => sadd (b_target (snd xb)) s)).
  apply (fold_sadd_NoDup _ (fun _ => true) (fun xb : string * branch => b_target (snd xb))). exact H.
Qed.

Definition empty_p (xb : string * branch) : bool := String.eqb (b_target (snd xb)) "".
Lemma an_s_empty_fold : forall g0 g a,
  s_empty (fold_left (an_node g0) g a) =
  fold_left (fun s xb => if empty_p xb then sadd (fst xb) s else s) (all_branches g) (s_empty a).
Proof.
  intros g0 g a.
  rewrite (an_fold_proj (list string) s_empty
             (fun name b s => if String.eqb (b_target b) "" then sadd name s else s) (fun _ s => s) g0)
    by (intros; reflexivity).
  apply (fold_nodes_branches (list string) (fun s xb => if empty_p xb then sadd (fst xb) s else s)).
Qed.

Definition missing_p (g0 : gspec) (xb : string * branch) : bool :=
  negb (is_tvar (b_target (snd xb))) && negb (smem (b_target (snd xb)) (names g0)).
Lemma an_s_missing_fold : forall g0 g a,
  s_missing (fold_left (an_node g0) g a) =
  fold_left (fun s xb => if missing_p g0 xb then sadd (b_target (snd xb)) s else s)
            (all_branches g) (s_missing a).
Proof.
  intros g0 g a.
  rewrite (an_fold_proj (list string) s_missing
             (fun _ b s => if is_tvar (b_target b) then s
                           else if smem (b_target b) (names g0) then s else sadd (b_target b) s)
             (fun _ s => s) g0) by (intros; reflexivity).
  etransitivity;
    [apply (fold_nodes_branches (list string)
              (fun s xb => if is_tvar (b_target (snd xb)) then s
                           else if smem (b_target (snd xb)) (names g0) then s
                                else sadd (b_target (snd xb)) s)) |].
  apply fold_left_ext_in. intros s xb _. unfold missing_p.
  destruct (is_tvar (b_target (snd xb))); [reflexivity |].
  destruct (smem (b_target (snd xb)) (names g0)); reflexivity.
Qed.

Definition tvar_p (xb : string * branch) : bool := is_tvar (b_target (snd xb)).
Lemma an_s_tvars_fold : forall g0 g a,
  s_tvars (fold_left (an_node g0) g a) =
  fold_left (fun s xb => if tvar_p xb then sadd (b_target (snd xb)) s else s)
            (all_branches g) (s_tvars a).
Proof.
  intros g0 g a.
  rewrite (an_fold_proj (list string) s_tvars
             (fun _ b s => if is_tvar (b_target b) then sadd (b_target b) s else s) (fun _ s => s) g0)
    by (intros; reflexivity).
  apply (fold_nodes_branches (list string)
           (fun s xb => if tvar_p xb then sadd (b_target (snd xb)) s else s)).
Qed.

Lemma fold_sadd_all : forall (l s0 : list string),
  (forall y, In y (fold_left (fun s i => sadd i s) l s0) <-> In y s0 \/ In y l) /\
  (NoDup s0 -> NoDup (fold_left (fun s i => sadd i s) l s0)).
Proof.
  induction l as [|x r IH]; intros s0; cbn.
  - split; [intros y; tauto | auto].
  - destruct (IH (sadd x s0)) as [IHin IHnd]. split.
    + intros y. rewrite IHin, sadd_In. split; [intros [[-> | H] | H] | intros [H | [<- | H]]]; auto.
    + intros H. apply IHnd, sadd_NoDup, H.
Qed.

(** * interpreters: noted per node and per branch *)
Definition interp_adds (g : gspec) : list string :=
  flat_map (fun p => opt_list (n_source (node_of (snd p)))
                     ++ flat_map (fun b => opt_list (b_gsource b)) (branches_of (snd p))) g.

Lemma an_s_interp_fold : forall g0 g a,
  s_interp (fold_left (an_node g0) g a) =
  fold_left (fun s i => sadd i s) (interp_adds g) (s_interp a).
Proof.
  intros g0 g a.
  rewrite (an_fold_proj (list string) s_interp
             (fun _ b s => if b_guard b || is_some (b_gsource b)
                           then match b_gsource b with Some i => sadd i s | None => s end else s)
             (fun p s => if n_action (node_of (snd p)) || is_some (n_source (node_of (snd p)))
                         then match n_source (node_of (snd p)) with Some i => sadd i s | None => s end
                         else s) g0) by (intros; reflexivity).
  generalize (s_interp a). induction g as [|p r IH]; intros s; [reflexivity |].
  cbn [fold_left]. rewrite IH. unfold interp_adds. cbn [flat_map]. rewrite !fold_left_app.
  f_equal.
  assert (E1 : (if n_action (node_of (snd p)) || is_some (n_source (node_of (snd p)))
                then match n_source (node_of (snd p)) with Some i => sadd i s | None => s end
                else s) =
               fold_left (fun s i => sadd i s)
                         (opt_list (n_source (node_of (snd p)))) s).
  { destruct (n_source (node_of (snd p))); cbn; [rewrite orb_true_r; reflexivity |].
    destruct (n_action (node_of (snd p))); reflexivity. }
  rewrite E1. generalize (fold_left (fun s i => sadd i s)
                                    (opt_list (n_source (node_of (snd p)))) s).
  generalize (branches_of (snd p)). induction l as [|b l IHl]; intros s'; [reflexivity |].
  cbn [fold_left flat_map]. rewrite fold_left_app, IHl. f_equal.
  destruct (b_gsource b); cbn; [rewrite orb_true_r; reflexivity |].
  destruct (b_guard b); reflexivity.
Qed.

Lemma in_interp_adds : forall g i, In i (interp_adds g) <-> In i (g_interp_used g).
Proof.
  intros g i. rewrite g_interp_used_spec. unfold interp_adds, uses_interpreter, has_branch.
  rewrite in_flat_map. split.
  - intros ([x o] & Hp & Hi). cbn in Hi. apply in_app_iff in Hi. destruct Hi as [Hi | Hi].
    + left. exists x, o. split; [exact Hp | apply in_opt_list; exact Hi].
    + right. apply in_flat_map in Hi. destruct Hi as (b & Hb & Hi). exists x, b.
      split; [apply in_all_branches; exists o; auto | apply in_opt_list; exact Hi].
  - intros [(x & o & Hp & Hi) | (x & b & Hb & Hi)].
    + exists (x, o). split; [exact Hp |]. cbn. apply in_app_iff. left. apply in_opt_list. exact Hi.
    + apply in_all_branches in Hb. destruct Hb as (o & Hp & Hb). exists (x, o).
      split; [exact Hp |]. cbn. apply in_app_iff. right. apply in_flat_map. exists b.
      split; [exact Hb | apply in_opt_list; exact Hi].
Qed.

(** * The report *)

(** a reported list is the given set: same elements, no duplicates, sorted *)
Definition reports (reported spec : list string) : Prop :=
  same_set reported spec /\ NoDup reported /\ StronglySorted sleb reported.

Definition analysis_faithful (g : gspec) (a : analysis) : Prop :=
  a_nodecount a = g_nodecount g /\
  a_branches a = g_branches g /\
  a_actions a = g_actions g /\
  a_guards a = g_guards g /\
  Permutation (a_terminal a) (g_terminal g) /\
  reports (a_orphans a) (g_orphans g) /\
  reports (a_empty a) (g_empty g) /\
  reports (a_missing a) (g_missing g) /\
  reports (a_tvars a) (g_tvars g) /\
  reports (a_interpreters a) (g_interpreters g).

Lemma reports_ssort : forall m spec,
  same_set m spec -> NoDup m -> reports (keys_to_slice m None) spec.
Proof.
  intros m spec Hs Hn. rewrite keys_to_slice_none. split; [| split].
  - intros x. rewrite ssort_In. apply Hs.
  - apply ssort_NoDup. exact Hn.
  - apply ssort_sorted.
Qed.

Lemma report_orphans : forall g, NoDup (names g) ->
  reports (a_orphans (analyze g)) (g_orphans g).
Proof.
  intros g Hg. unfold analyze. cbn [a_orphans]. rewrite keys_to_slice_none. split; [| split].
  - intros x. rewrite ssort_In. unfold diff_keys, g_orphans.
    rewrite !filter_In, !negb_true_iff, !smem_notIn, an_s_targeted. cbn. tauto.
  - apply ssort_NoDup. unfold diff_keys. apply NoDup_filter. exact Hg.
  - apply ssort_sorted.
Qed.

Lemma report_empty : forall g, reports (a_empty (analyze g)) (g_empty g).
Proof.
  intros g. unfold analyze. cbn [a_empty]. rewrite keys_to_slice_none. split; [| split].
  - intros x. rewrite ssort_In, an_s_empty_fold, fold_sadd_In.
    unfold g_empty. rewrite sdedup_In, in_map_iff. cbn. split.
    + intros [[] | (xb & H1 & H2 & H3)]. exists xb. split; [exact H3 |]. apply filter_In. auto.
    + intros (xb & H3 & H). apply filter_In in H. right. exists xb. tauto.
  - apply ssort_NoDup. rewrite an_s_empty_fold. apply fold_sadd_NoDup. constructor.
  - apply ssort_sorted.
Qed.

Lemma report_missing : forall g, reports (a_missing (analyze g)) (g_missing g).
Proof.
  intros g. unfold analyze. cbn [a_missing]. rewrite keys_to_slice_none. split; [| split].
  - intros x. rewrite ssort_In, an_s_missing_fold, fold_sadd_In.
    unfold g_missing, targets. rewrite sdedup_In, filter_In, in_map_iff. cbn. split.
    + intros [[] | (xb & H1 & H2 & H3)]. subst x. split; [exists xb; auto | exact H2].
    + intros ((xb & H3 & H1) & H2). subst x. right. exists xb. auto.
  - apply ssort_NoDup. rewrite an_s_missing_fold. apply fold_sadd_NoDup. constructor.
  - apply ssort_sorted.
Qed.

Lemma report_tvars : forall g, reports (a_tvars (analyze g)) (g_tvars g).
Proof.
  intros g. unfold analyze. cbn [a_tvars]. rewrite keys_to_slice_none. split; [| split].
  - intros x. rewrite ssort_In, an_s_tvars_fold, fold_sadd_In.
    unfold g_tvars, targets. rewrite sdedup_In, filter_In, in_map_iff. cbn. split.
    + intros [[] | (xb & H1 & H2 & H3)]. subst x. split; [exists xb; auto | exact H2].
    + intros ((xb & H3 & H1) & H2). subst x. right. exists xb. auto.
  - apply ssort_NoDup. rewrite an_s_tvars_fold. apply fold_sadd_NoDup. constructor.
  - apply ssort_sorted.
Qed.

Lemma report_interpreters : forall g, reports (a_interpreters (analyze g)) (g_interpreters g).
Proof.
  intros g. unfold analyze. cbn [a_interpreters].
  rewrite keys_to_slice_some, an_s_interp_fold. cbn [s_interp acc0].
  set (m := fold_left (fun s i => sadd i s) (interp_adds g) []).
  assert (Hm : forall i, In i m <-> In i (g_interp_used g)).
  { intros i. unfold m. rewrite (proj1 (fold_sadd_all (interp_adds g) [])).
    rewrite <- in_interp_adds. cbn. tauto. }
  assert (Hn : NoDup m)
    by (apply (proj2 (fold_sadd_all (interp_adds g) [])); constructor).
  split; [| split].
  - unfold g_interpreters. intros x. destruct m as [|y r] eqn:Em.
    + destruct (g_interp_used g) as [|z s] eqn:Eu; [tauto |].
      exfalso. apply (Hm z). left. reflexivity.
    + destruct (g_interp_used g) as [|z s] eqn:Eu.
      * exfalso. apply (Hm y). left. reflexivity.
      * rewrite ssort_In. apply Hm.
  - destruct m; [constructor; [intros [] | constructor] | apply ssort_NoDup; exact Hn].
  - destruct m; [constructor; constructor | apply ssort_sorted].
Qed.

Theorem analyze_faithful : forall g, NoDup (names g) -> analysis_faithful g (analyze g).
Proof.
  intros g Hg. unfold analysis_faithful.
  split; [reflexivity |].
  split; [unfold analyze; cbn [a_branches]; rewrite an_c_branches; reflexivity |].
  split; [unfold analyze; cbn [a_actions]; rewrite an_c_actions; reflexivity |].
  split; [unfold analyze; cbn [a_guards]; rewrite an_c_guards; reflexivity |].
  split; [unfold analyze; cbn [a_terminal]; rewrite an_s_terminal; apply Permutation_refl |].
  split; [apply report_orphans, Hg |].
  split; [apply report_empty |].
  split; [apply report_missing |].
  split; [apply report_tvars | apply report_interpreters].
Qed.

(** the report is a function of the graph as a set of nodes: the order in
    which the Go runtime ranges over Spec.Nodes is not observable (except in
    the order of the terminal nodes, which the theorem states as a
    permutation) *)
Lemma reports_unique : forall a b spec, reports a spec -> reports b spec -> a = b.
Proof.
  intros a b spec (Ha & Na & Sa) (Hb & Nb & Sb). apply sorted_unique; try assumption.
  intros x. rewrite (Ha x), (Hb x). tauto.
Qed.

(** in the words of the property: every reported set is the set it is named after *)
Theorem analyze_in_words : forall g, NoDup (names g) ->
  let a := analyze g in
  (forall t, In t (a_missing a) <-> missing_target g t) /\
  (forall x, In x (a_terminal a) <-> terminal_node g x) /\
  (forall x, In x (a_orphans a) <-> orphan_node g x) /\
  (forall x, In x (a_empty a) <-> has_empty_target g x) /\
  (forall t, In t (a_tvars a) <-> target_variable g t) /\
  ((exists i, uses_interpreter g i) -> forall i, In i (a_interpreters a) <-> uses_interpreter g i) /\
  ((forall i, ~ uses_interpreter g i) -> a_interpreters a = [default_interpreter]).
Proof.
  intros g Hg a.
  destruct (analyze_faithful g Hg) as (_ & _ & _ & _ & Ht & Ho & He & Hm & Hv & Hi).
  fold a in Ht, Ho, He, Hm, Hv, Hi.
  split; [intros t; rewrite <- g_missing_spec; apply Hm |].
  split.
  { intros x. rewrite <- g_terminal_spec. split; apply Permutation_in;
      [exact Ht | apply Permutation_sym, Ht]. }
  split; [intros x; rewrite <- g_orphans_spec; apply Ho |].
  split; [intros x; rewrite <- g_empty_spec; apply He |].
  split; [intros t; rewrite <- g_tvars_spec; apply Hv |].
  split.
  - intros (j & Hj) i.
    destruct (g_interpreters_spec g) as [(Hno & _) | (_ & Hall)]; [exfalso; apply (Hno j Hj) |].
    rewrite <- Hall. apply Hi.
  - intros Hno.
    destruct (g_interpreters_spec g) as [(_ & E) | ((j & Hj) & _)]; [| exfalso; apply (Hno j Hj)].
    destruct Hi as (Hs & Hn & _). rewrite E in Hs.
    destruct (a_interpreters a) as [|x r] eqn:Ea.
    + exfalso. apply (Hs default_interpreter). left. reflexivity.
    + assert (x = default_interpreter) as ->
        by (destruct (proj1 (Hs x) (or_introl eq_refl)) as [E'|[]]; auto).
      destruct r as [|y r]; [reflexivity |]. exfalso.
      assert (y = default_interpreter) as ->
        by (destruct (proj1 (Hs y) (or_intror (or_introl eq_refl))) as [E'|[]]; auto).
      inversion Hn as [|? ? Hx _]. apply Hx. left. reflexivity.
Qed.
