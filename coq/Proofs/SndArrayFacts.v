(** Facts about the array part of the matcher that do not depend on the
    recursive callee: [get_var], [index_facts], [jmem]/[jremove],
    [remove_idx], the shape of the results of [try_each]/[arraycat], and the
    final assembly of an injective assignment. *)
From Sheens Require Import Spec.Contain Proofs.SndBasics Proofs.SndSpecFacts.
From Coq Require Import Lia.

(** * Lists *)

Lemma Permutation_filter' {A} (f : A -> bool) l l' :
  Permutation l l' -> Permutation (filter f l) (filter f l').
Proof.
  induction 1 as [| x l l' HP IH | x y l | l l' l'' HP1 IH1 HP2 IH2]; cbn [filter].
  - constructor.
  - destruct (f x); [constructor|]; exact IH.
  - destruct (f x), (f y); try apply Permutation_refl. constructor.
  - eapply Permutation_trans; eassumption.
Qed.

Lemma filter_partition_perm {A} (f : A -> bool) l :
  Permutation l (filter f l ++ filter (fun x => negb (f x)) l).
Proof.
  induction l as [| a l IH]; cbn [filter]; [constructor|].
  destruct (f a); cbn [negb app].
  - constructor. exact IH.
  - eapply Permutation_trans; [constructor; exact IH|]. apply Permutation_middle.
Qed.

Lemma perm4 {A} (a b c d : list A) : Permutation ((a ++ b) ++ c ++ d) ((b ++ d) ++ a ++ c).
Proof.
  rewrite <- !app_assoc.
  eapply Permutation_trans; [apply Permutation_app_swap_app|].
  apply Permutation_app_head. rewrite (app_assoc a c d). apply Permutation_app_comm.
Qed.

Lemma NoDup_incl_perm {A} (l : list A) :
  NoDup l -> forall m, incl l m -> exists rest, Permutation (l ++ rest) m.
Proof.
  induction 1 as [| a l Hnin Hnd IH]; intros m Hincl.
  - exists m. apply Permutation_refl.
  - assert (Ha : In a m) by (apply Hincl; left; reflexivity).
    apply in_split in Ha. destruct Ha as [m1 [m2 ->]].
    destruct (IH (m1 ++ m2)) as [rest HP].
    + intros y Hy. assert (Hy' : In y (m1 ++ a :: m2)) by (apply Hincl; right; exact Hy).
      apply in_app_iff in Hy'. apply in_app_iff. destruct Hy' as [H | [H | H]]; auto.
      subst y. contradiction.
    + exists rest. cbn [app]. eapply Permutation_trans; [constructor; exact HP|].
      apply Permutation_middle.
Qed.

Lemma NoDup_map_filter {A B} (g : A -> B) (f : A -> bool) l :
  NoDup (map g l) -> NoDup (map g (filter f l)).
Proof.
  induction l as [| a l IH]; cbn [map filter]; intros H; [constructor|].
  inversion H as [| x xs Hnin Hnd]; subst.
  destruct (f a); cbn [map]; [|auto].
  constructor; [|auto]. intros Hin. apply Hnin.
  apply in_map_iff in Hin. destruct Hin as [y [Hy1 Hy2]]. apply filter_In in Hy2.
  apply in_map_iff. exists y. tauto.
Qed.

Lemma Forall2_impl' {A B} (R R' : A -> B -> Prop) l l' :
  (forall x y, R x y -> R' x y) -> Forall2 R l l' -> Forall2 R' l l'.
Proof. intros H. induction 1; constructor; auto. Qed.

Lemma Forall2_same {A} (R : A -> A -> Prop) l : (forall x, In x l -> R x x) -> Forall2 R l l.
Proof. apply Forall2_refl_in. Qed.

(** * [get_var] *)

Definition nonvar (x : json) : Prop :=
  match x with JStr s => is_var s = false | _ => True end.

Lemma nonvar_not_optional x : nonvar x -> is_optional_json x = false.
Proof.
  destruct x; cbn; try reflexivity. intros H.
  destruct (is_optional s) eqn:E; [|reflexivity]. apply opt_is_var in E. congruence.
Qed.

Lemma get_var_spec xs :
  forall v0 v cs,
    get_var xs v0 = Some (v, cs) ->
    Forall nonvar cs /\
    ((v = v0 /\ xs = cs) \/
     (v0 = None /\ exists s, v = Some s /\ is_var s = true /\ Permutation xs (JStr s :: cs))).
Proof.
  induction xs as [| x r IH]; intros v0 v cs; cbn [get_var].
  - intros [= <- <-]. split; [constructor | left; auto].
  - assert (Hconst : nonvar x ->
              match get_var r v0 with
              | Some (v', acc) => Some (v', x :: acc)
              | None => None
              end = Some (v, cs) ->
              Forall nonvar cs /\
              ((v = v0 /\ x :: r = cs) \/
               (v0 = None /\ exists s, v = Some s /\ is_var s = true /\
                                       Permutation (x :: r) (JStr s :: cs)))).
    { intros Hx. destruct (get_var r v0) as [[v' acc]|] eqn:E; [|discriminate].
      intros [= <- <-]. destruct (IH _ _ _ E) as [HF Hcase].
      split; [constructor; assumption|].
      destruct Hcase as [[-> ->] | [-> [s [-> [Hs HP]]]]]; [left; auto|].
      right. split; [reflexivity|]. exists s. split; [reflexivity|]. split; [exact Hs|].
      eapply Permutation_trans; [constructor; exact HP|]. constructor. }
    destruct x as [| b | z | s | l | kvs]; try (apply Hconst; exact I).
    destruct (is_var s) eqn:Es; [|apply Hconst; exact Es].
    destruct v0 as [s0|]; [discriminate|].
    intros E. destruct (IH _ _ _ E) as [HF Hcase]. split; [exact HF|].
    destruct Hcase as [[-> ->] | [Habs _]]; [|discriminate].
    right. split; [reflexivity|]. exists s. split; [reflexivity|]. split; [exact Es|].
    apply Permutation_refl.
Qed.

(** * [index_facts] *)

Lemma jmem_in x l : is_scalar x = true -> jmem x l = true -> In x l.
Proof.
  intros Hs H. unfold jmem in H. apply existsb_exists in H. destruct H as [y [Hy E]].
  apply scalar_eqb_eq in E; [|exact Hs]. subst y. exact Hy.
Qed.

Lemma jremove_in x y l : In y (jremove x l) -> In y l /\ x <> y.
Proof.
  induction l as [| z l IH]; cbn [jremove]; [contradiction|].
  destruct (json_eqb x z) eqn:E.
  - intros H. destruct (IH H). split; [right|]; assumption.
  - intros [<- | H].
    + split; [left; reflexivity|]. intros ->. rewrite json_eqb_refl in E. discriminate.
    + destruct (IH H). split; [right|]; assumption.
Qed.

Lemma index_facts_spec fa :
  forall i fxs fxa,
    index_facts i fa = (fxs, fxa) ->
    (forall y, In y fxs -> In y fa /\ is_scalar y = true) /\
    map snd fxa = filter (fun y => negb (is_scalar y)) fa /\
    Forall (fun e => i <= fst e) fxa /\ NoDup (map fst fxa).
Proof.
  induction fa as [| y r IH]; intros i fxs fxa; cbn [index_facts].
  - intros [= <- <-]. split; [intros y []|]. split; [reflexivity|]. split; constructor.
  - destruct (index_facts (S i) r) as [fxs1 fxa1] eqn:E.
    destruct (IH _ _ _ E) as [H1 [H2 [H3 H4]]].
    assert (H3' : Forall (fun e : nat * json => i <= fst e) fxa1).
    { eapply Forall_impl; [|exact H3]. cbn beta. intros e He. lia. }
    cbn [filter]. destruct (is_scalar y) eqn:Ey; cbn [negb]; intros [= <- <-].
    + split; [|auto].
      intros z Hz. destruct (jmem y fxs1).
      * destruct (H1 z Hz). split; [right|]; assumption.
      * destruct Hz as [<- | Hz]; [split; [left; reflexivity | exact Ey]|].
        destruct (H1 z Hz). split; [right|]; assumption.
    + split; [intros z Hz; destruct (H1 z Hz); split; [right|]; assumption|].
      split; [cbn [map snd]; rewrite H2; reflexivity|].
      split; [constructor; [cbn [fst]; lia | exact H3']|].
      cbn [map fst]. constructor; [|exact H4].
      intros Hin. apply in_map_iff in Hin. destruct Hin as [e [He1 He2]].
      rewrite Forall_forall in H3. specialize (H3 e He2). lia.
Qed.

(** * [remove_idx] *)

Lemma remove_idx_perm j fact (mm : list (nat * json)) :
  NoDup (map fst mm) -> In (j, fact) mm ->
  Permutation mm ((j, fact) :: remove_idx j mm).
Proof.
  unfold remove_idx. induction mm as [| [j' y] mm IH]; cbn [map fst In filter]; [contradiction|].
  intros Hnd Hin. inversion Hnd as [| x xs Hnin Hnd']; subst.
  destruct Hin as [Heq | Hin].
  - injection Heq as -> ->. rewrite Nat.eqb_refl. cbn [negb]. constructor.
    rewrite filter_all_true; [apply Permutation_refl|].
    intros [j1 y1] H1. cbn [fst]. apply negb_true_iff. apply Nat.eqb_neq. intros ->.
    apply Hnin. apply in_map_iff. exists (j, y1). split; [reflexivity | exact H1].
  - destruct (Nat.eqb j' j) eqn:E.
    + apply Nat.eqb_eq in E. subst j'. exfalso. apply Hnin.
      apply in_map_iff. exists (j, fact). split; [reflexivity | exact Hin].
    + cbn [negb]. eapply Permutation_trans; [constructor; apply IH; assumption|]. constructor.
Qed.

Lemma remove_idx_in j e (mm : list (nat * json)) : In e (remove_idx j mm) -> In e mm.
Proof. unfold remove_idx. intros H. apply filter_In in H. tauto. Qed.

Lemma remove_idx_nodup j (mm : list (nat * json)) :
  NoDup (map fst mm) -> NoDup (map fst (remove_idx j mm)).
Proof. apply NoDup_map_filter. Qed.

(** * Shape of the results of [mwb], [try_each], [arraycat] *)

Lemma mwb_inv rec bss p f r bs' :
  mwb rec bss p f = Ok r -> In bs' r ->
  exists bs a, In bs bss /\ rec p f bs = Ok a /\ In bs' a.
Proof.
  revert r. induction bss as [| bs bss IH]; intros r; cbn [mwb].
  - intros [= <-] [].
  - destruct (rec p f bs) as [a| |] eqn:Ea; try discriminate.
    destruct (mwb rec bss p f) as [b| |] eqn:Eb; try discriminate.
    intros [= <-] Hin. apply in_app_iff in Hin. destruct Hin as [Hin | Hin].
    + exists bs, a. split; [left; reflexivity | split; assumption].
    + destruct (IH b eq_refl Hin) as [bs1 [a1 [H1 [H2 H3]]]].
      exists bs1, a1. split; [right; exact H1 | split; assumption].
Qed.

Lemma try_each_inv rec bss x mm_all :
  forall mm r acc mm2,
    try_each rec bss x mm_all mm = Ok r -> In (acc, mm2) r ->
    exists j fact, In (j, fact) mm /\ mwb rec bss x fact = Ok acc /\ acc <> [] /\
                   mm2 = remove_idx j mm_all.
Proof.
  induction mm as [| [j fact] mm IH]; intros r acc mm2; cbn [try_each].
  - intros [= <-] [].
  - destruct (mwb rec bss x fact) as [a| |] eqn:Ea; try discriminate.
    destruct (try_each rec bss x mm_all mm) as [rest| |] eqn:Er; try discriminate.
    intros [= <-] Hin.
    assert (Hrest : In (acc, mm2) rest ->
              exists j0 fact0, In (j0, fact0) ((j, fact) :: mm) /\ mwb rec bss x fact0 = Ok acc /\
                               acc <> [] /\ mm2 = remove_idx j0 mm_all).
    { intros H. destruct (IH _ _ _ eq_refl H) as [j0 [fact0 [H1 H2]]].
      exists j0, fact0. split; [right; exact H1 | exact H2]. }
    destruct a as [| a0 a]; [auto|].
    destruct Hin as [Heq | Hin]; [|auto].
    injection Heq as <- <-. exists j, fact. split; [left; reflexivity|].
    split; [exact Ea|]. split; [discriminate | reflexivity].
Qed.

Section WithOrd.
Variable ord : order_oracle.
Hypothesis ord_perm : perm_oracle ord.

Lemma arraycat_inv rec x :
  forall pairs r acc mm2,
    arraycat ord rec pairs x = Ok r -> In (acc, mm2) r ->
    exists bss mm j fact,
      In (bss, mm) pairs /\ In (j, fact) mm /\ mwb rec bss x fact = Ok acc /\ acc <> [] /\
      mm2 = remove_idx j mm.
Proof.
  induction pairs as [| [bss mm] pairs IH]; intros r acc mm2; cbn [arraycat].
  - intros [= <-] [].
  - destruct (try_each rec bss x mm (ord _ mm)) as [a| |] eqn:Ea; try discriminate.
    destruct (arraycat ord rec pairs x) as [b| |] eqn:Eb; try discriminate.
    intros [= <-] Hin. apply in_app_iff in Hin. destruct Hin as [Hin | Hin].
    + destruct (try_each_inv _ _ _ _ _ _ _ _ Ea Hin) as [j [fact [H1 H2]]].
      exists bss, mm, j, fact. split; [left; reflexivity|].
      split; [eapply Permutation_in; [apply ord_perm | exact H1] | exact H2].
    + destruct (IH _ _ _ eq_refl Hin) as (bss' & mm' & j & fact & H1 & H2).
      exists bss', mm', j, fact. split; [right; exact H1 | exact H2].
Qed.
End WithOrd.

(** * Final assembly of the injective assignment *)

Lemma inj_assign_assemble {A} (P : A -> json -> bool) skip xs fa done ys scx scy restm :
  Permutation (filter (fun x => negb (skip x)) xs) (done ++ scx) ->
  Forall2 (fun x y => P x y = true) done ys ->
  Forall2 (fun x y => P x y = true) scx scy ->
  NoDup scy -> (forall y, In y scy -> In y fa /\ is_scalar y = true) ->
  Permutation (ys ++ restm) (filter (fun y => negb (is_scalar y)) fa) ->
  inj_assign P skip xs fa = true.
Proof.
  intros HPx HF1 HF2 Hnd Hsc HPy.
  destruct (NoDup_incl_perm scy Hnd (filter is_scalar fa)) as [rs Hrs].
  { intros y Hy. apply filter_In. apply Hsc. exact Hy. }
  assert (HF : Forall2 (fun x y => P x y = true) (done ++ scx) (ys ++ scy))
    by (apply Forall2_app; assumption).
  assert (Hasg : exists asg : list (A * json),
             map fst asg = done ++ scx /\ map snd asg = ys ++ scy /\
             forall x y, In (x, y) asg -> P x y = true).
  { clear - HF. induction HF as [| x y l l' Hxy _ [asg [E1 [E2 E3]]]].
    - exists []. split; [reflexivity|]. split; [reflexivity|]. intros x y [].
    - exists ((x, y) :: asg). cbn [map fst snd]. rewrite E1, E2.
      split; [reflexivity|]. split; [reflexivity|].
      intros x' y' [[= <- <-] | H]; auto. }
  destruct Hasg as [asg [E1 [E2 E3]]].
  apply (inj_assign_pairs P skip xs fa asg (restm ++ rs)).
  - rewrite E1. apply Permutation_sym. exact HPx.
  - exact E3.
  - rewrite E2. eapply Permutation_trans; [|apply Permutation_sym; apply (filter_partition_perm is_scalar)].
    eapply Permutation_trans; [|apply Permutation_app; [exact Hrs | exact HPy]].
    apply perm4.
Qed.
