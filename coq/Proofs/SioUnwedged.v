(** The captain never becomes inert (after the repair of D56).

    Before the repair a message to the captain that was no crew operation
    stayed in the captain's bindings, and the captain matched nothing from
    then on: the field [wedged] of the model's crew.  The repaired action
    (NewCaptainSpec, sio/captainspec.go) drops the binding of the message on
    every path, and in the model no function that produces a crew from a crew
    changes [wedged]:

    1. every such function leaves [wedged] as it was ([*_wedged]), so
       [wedged = false] is an invariant ([wedged_never_set]) and holds of
       every crew that [run_history] reaches from [init_crew]
       ([reachable_unwedged]), and of every crew booted from a store;
    2. hence the hypothesis [wedged S c = false] of the restart theorem of
       Proofs/SioRestart.v is redundant for the crews it speaks about
       ([restart_unobservable_reachable]); for arbitrary crews, which need not
       be reachable, it is not ([restart_unobservable_any_crew],
       [any_crew_needs_unwedged]);
    3. the same for the (refuted) two-schedule statement of
       Proofs/SioHistory.v. *)
From Coq Require Import List String Bool Permutation.
From Sheens Require Import Model.SioRecorder Spec.SioSpec Proofs.SioBasics Proofs.SioRouting Proofs.SioPersist
     Proofs.SioRestart Proofs.SioRecorderFacts Proofs.SioHistory.
Import ListNotations.
Open Scope string_scope.
Open Scope list_scope.

Section Unwedged.
Variable S : Type.
Variable react : S -> mid -> mstate -> json -> option mstate * list json.
Variable decode_src : json -> option S.
Variable resolves : S -> bool.
Variable src_eqb : S -> S -> bool.
Variable ord : forall A : Type, list (mid * A) -> list (mid * A).

Local Notation crew := (crew S).
Local Notation entry := (entry S).
Local Notation present := (present S react decode_src resolves).
Local Notation run_list := (run_list S react decode_src resolves).
Local Notation run_machines := (run_machines S react decode_src resolves ord).
Local Notation process := (process S react decode_src resolves ord).
Local Notation process_msg := (process_msg S react decode_src resolves src_eqb ord).
Local Notation get_changed := (get_changed S src_eqb ord).
Local Notation set_machine := (set_machine S resolves).
Local Notation delete_machine := (delete_machine S).
Local Notation hstep := (hstep S react decode_src resolves src_eqb ord).
Local Notation run_history := (run_history S react decode_src resolves src_eqb ord).
Local Notation boot_from := (boot_from S resolves ord).
Local Notation boot := (boot S resolves ord).

(** ** every function leaves the captain as it was *)
Lemma delete_machine_wedged c m : wedged S (delete_machine c m) = wedged S c.
Proof. reflexivity. Qed.

Lemma record_state_wedged c m mc st : wedged S (record_state S c m mc st) = wedged S c.
Proof. reflexivity. Qed.

Lemma do_op_wedged c op : wedged S (do_op S resolves c op) = wedged S c.
Proof.
  unfold do_op.
  assert (E1 : forall us c0,
             wedged S (fold_left (fun c1 u => set_machine c1 (fst u) (u_src S (snd u)) (u_state S (snd u))) us c0)
             = wedged S c0).
  { induction us as [|u r IH]; intros c0; simpl; [reflexivity|].
    rewrite IH. apply set_machine_wedged. }
  assert (E2 : forall ds c0, wedged S (fold_left delete_machine ds c0) = wedged S c0).
  { induction ds as [|d r IH]; intros c0; simpl; [reflexivity|].
    rewrite IH. apply delete_machine_wedged. }
  rewrite E2. apply E1.
Qed.

Lemma present_wedged c msg m c1 got b :
  present c msg m = Done (c1, got, b) -> wedged S c1 = wedged S c.
Proof.
  unfold SioCrew.present.
  destruct (String.eqb m captain_id).
  - destruct (wedged S c) eqn:Ew.
    + intros [= <- <- <-]. exact Ew.
    + destruct (as_crew_op S decode_src msg) as [| |op0]; try discriminate.
      * intros [= <- <- <-]. exact Ew.
      * set (op := strip_op S op0) in *; destruct (op_ordinary S op); try discriminate.
        intros [= <- <- <-]. rewrite do_op_wedged. exact Ew.
  - destruct (String.eqb m timers_id).
    + intros [= <- <- <-]. destruct (tm_shape msg); reflexivity.
    + destruct (aget m (machines S c)) as [mc|].
      * destruct (m_src S mc) as [s|].
        -- destruct (react s m (m_state S mc) msg) as [st ems].
           intros [= <- <- <-]. destruct st as [st1|]; reflexivity.
        -- intros [= <- <- <-]. reflexivity.
      * intros [= <- <- <-]. reflexivity.
Qed.

Lemma run_list_wedged msg mids : forall c c1 rs bs,
  run_list c msg mids = Done (c1, rs, bs) -> wedged S c1 = wedged S c.
Proof.
  induction mids as [|m rest IH]; intros c c1 rs bs H.
  - simpl in H. injection H as <- <- <-. reflexivity.
  - apply run_list_cons in H as (c2 & got & b & c3 & rs' & bs' & Hp & Hr & E).
    injection E as -> -> ->. rewrite (IH _ _ _ _ Hr). eapply present_wedged; eauto.
Qed.

Lemma run_machines_wedged c msg c1 rd :
  run_machines c msg = Done (c1, rd) -> wedged S c1 = wedged S c.
Proof.
  unfold SioCrew.run_machines.
  destruct (run_list c msg (dedup (to_machines S ord c msg))) as [[[c2 rs] bs]| |] eqn:HR; simpl; try discriminate.
  intros [= <- <-]. eapply run_list_wedged; eauto.
Qed.

Lemma process_wedged fuel : forall c q tr c' trf,
  process fuel c q tr = Done (c', trf) -> wedged S c' = wedged S c.
Proof.
  induction fuel as [|f IH]; intros c q tr c' trf H.
  - destruct q; simpl in H; [|discriminate]. injection H as <- <-. reflexivity.
  - destruct q as [|msg rest]; simpl in H.
    + injection H as <- <-. reflexivity.
    + destruct (run_machines c msg) as [[c1 rd]| |] eqn:HR; simpl in H; try discriminate.
      rewrite (IH _ _ _ _ _ H). eapply run_machines_wedged; eauto.
Qed.

Lemma get_changed_wedged c c' out tm : get_changed c = (c', out, tm) -> wedged S c' = wedged S c.
Proof. intros H. apply (get_changed_machines S src_eqb ord) in H as [_ W]. exact W. Qed.

Lemma process_msg_wedged fuel c msg c1 r :
  process_msg fuel c msg = Done (c1, r) -> wedged S c1 = wedged S c.
Proof.
  intros H. unfold SioCrew.process_msg in H.
  destruct (process fuel c [msg] []) as [[c2 tr]| |] eqn:HP; simpl in H; try discriminate.
  destruct (get_changed c2) as [[c3 ch] tm] eqn:HG. injection H as <- <-.
  rewrite (get_changed_wedged _ _ _ _ HG). eapply process_wedged; eauto.
Qed.

Lemma hstep_wedged fuel c store h c1 store1 r :
  hstep fuel (c, store) h = Done (c1, store1, r) -> wedged S c1 = wedged S c.
Proof.
  destruct h as [msg|m src st|m]; simpl.
  - destruct (process_msg fuel c msg) as [[c2 r2]| |] eqn:HP; simpl; try discriminate.
    intros [= <- <- <-]. eapply process_msg_wedged; eauto.
  - destruct (is_service m); try discriminate. intros [= <- <- <-]. apply set_machine_wedged.
  - destruct (is_service m); try discriminate. intros [= <- <- <-]. apply delete_machine_wedged.
Qed.

Lemma run_history_wedged fuel h : forall c store c1 store1,
  run_history fuel (c, store) h = Done (c1, store1) -> wedged S c1 = wedged S c.
Proof.
  induction h as [|x r IH]; intros c store c1 store1 H.
  - simpl in H. injection H as <- <-. reflexivity.
  - rewrite run_history_cons in H.
    destruct (hstep fuel (c, store) x) as [[[c2 s2] r2]| |] eqn:HS; simpl in H; try discriminate.
    rewrite (IH _ _ _ _ H). eapply hstep_wedged; eauto.
Qed.

Lemma run_outputs_wedged fuel h : forall c c1 outs,
  run_outputs S react decode_src resolves src_eqb ord fuel c h = Done (c1, outs) -> wedged S c1 = wedged S c.
Proof.
  induction h as [|x r IH]; intros c c1 outs H.
  - simpl in H. injection H as <- <-. reflexivity.
  - change (obind (hstep fuel (c, []) x) (fun '(c2, _, res) =>
            obind (run_outputs S react decode_src resolves src_eqb ord fuel c2 r) (fun '(c3, outs0) =>
            Done (c3, match res with Some rs => res_emitted S rs :: outs0 | None => outs0 end)))
            = Done (c1, outs)) in H.
    destruct (hstep fuel (c, []) x) as [[[c2 s2] r2]| |] eqn:HS; simpl in H; try discriminate.
    destruct (run_outputs S react decode_src resolves src_eqb ord fuel c2 r) as [[c3 o3]| |] eqn:HO;
      simpl in H; try discriminate.
    injection H as <- <-. rewrite (IH _ _ _ HO). eapply hstep_wedged; eauto.
Qed.

Lemma boot_from_wedged (store : list (mid * entry)) c : wedged S (boot_from c store) = wedged S c.
Proof.
  unfold SioCrew.boot_from. revert c.
  induction (dedup (map fst (ord entry store))) as [|k r IH]; intros c; simpl; [reflexivity|].
  rewrite IH. destruct (aget k store) as [e|]; [apply set_machine_wedged|reflexivity].
Qed.

Lemma boot_unwedged (store : list (mid * entry)) : wedged S (boot store) = false.
Proof. unfold SioCrew.boot. rewrite boot_from_wedged. reflexivity. Qed.

(** ** [wedged = false] is an invariant *)
Theorem reachable_unwedged : forall fuel h c store,
  run_history fuel (init_crew S, []) h = Done (c, store) -> wedged S c = false.
Proof. intros fuel h c store H. rewrite (run_history_wedged _ _ _ _ _ _ H). reflexivity. Qed.

(** ... from a booted crew as well *)
Theorem rebooted_unwedged : forall fuel h store0 c store,
  run_history fuel (boot store0, store0) h = Done (c, store) -> wedged S c = false.
Proof. intros fuel h store0 c store H. rewrite (run_history_wedged _ _ _ _ _ _ H). apply boot_unwedged. Qed.

(** every function that produces a crew from a crew keeps a captain that is
    not inert not inert; the initial crew and every booted crew have such a
    captain; so has every crew a history reaches *)
Theorem wedged_never_set :
  wedged S (init_crew S) = false
  /\ (forall store, wedged S (boot store) = false)
  /\ (forall c m src st, wedged S c = false -> wedged S (set_machine c m src st) = false)
  /\ (forall c m, wedged S c = false -> wedged S (delete_machine c m) = false)
  /\ (forall c m mc st, wedged S c = false -> wedged S (record_state S c m mc st) = false)
  /\ (forall c op, wedged S c = false -> wedged S (do_op S resolves c op) = false)
  /\ (forall c store, wedged S c = false -> wedged S (boot_from c store) = false)
  /\ (forall c msg m c1 got b,
        wedged S c = false -> present c msg m = Done (c1, got, b) -> wedged S c1 = false)
  /\ (forall c msg mids c1 rs bs,
        wedged S c = false -> run_list c msg mids = Done (c1, rs, bs) -> wedged S c1 = false)
  /\ (forall c msg c1 rd,
        wedged S c = false -> run_machines c msg = Done (c1, rd) -> wedged S c1 = false)
  /\ (forall fuel c q tr c1 trf,
        wedged S c = false -> process fuel c q tr = Done (c1, trf) -> wedged S c1 = false)
  /\ (forall c c1 out tm,
        wedged S c = false -> get_changed c = (c1, out, tm) -> wedged S c1 = false)
  /\ (forall fuel c msg c1 r,
        wedged S c = false -> process_msg fuel c msg = Done (c1, r) -> wedged S c1 = false)
  /\ (forall fuel c store x c1 store1 r,
        wedged S c = false -> hstep fuel (c, store) x = Done (c1, store1, r) -> wedged S c1 = false)
  /\ (forall fuel h c store c1 store1,
        wedged S c = false -> run_history fuel (c, store) h = Done (c1, store1) -> wedged S c1 = false)
  /\ (forall fuel h c c1 outs,
        wedged S c = false ->
        run_outputs S react decode_src resolves src_eqb ord fuel c h = Done (c1, outs) -> wedged S c1 = false)
  /\ (forall fuel h c store,
        run_history fuel (init_crew S, []) h = Done (c, store) -> wedged S c = false).
Proof.
  split; [reflexivity|]. split; [exact boot_unwedged|].
  split; [intros c m src st W; rewrite set_machine_wedged; exact W|].
  split; [intros c m W; exact W|].
  split; [intros c m mc st W; exact W|].
  split; [intros c op W; rewrite do_op_wedged; exact W|].
  split; [intros c store W; rewrite boot_from_wedged; exact W|].
  split; [intros c msg m c1 got b W H; rewrite (present_wedged _ _ _ _ _ _ H); exact W|].
  split; [intros c msg mids c1 rs bs W H; rewrite (run_list_wedged _ _ _ _ _ _ H); exact W|].
  split; [intros c msg c1 rd W H; rewrite (run_machines_wedged _ _ _ _ H); exact W|].
  split; [intros fuel c q tr c1 trf W H; rewrite (process_wedged _ _ _ _ _ _ H); exact W|].
  split; [intros c c1 out tm W H; rewrite (get_changed_wedged _ _ _ _ H); exact W|].
  split; [intros fuel c msg c1 r W H; rewrite (process_msg_wedged _ _ _ _ _ H); exact W|].
  split; [intros fuel c store x c1 store1 r W H; rewrite (hstep_wedged _ _ _ _ _ _ _ H); exact W|].
  split; [intros fuel h c store c1 store1 W H; rewrite (run_history_wedged _ _ _ _ _ _ H); exact W|].
  split; [intros fuel h c c1 outs W H; rewrite (run_outputs_wedged _ _ _ _ _ H); exact W|].
  exact reachable_unwedged.
Qed.

(** ** the restart theorem without the hypothesis on the captain *)
Section Restart.
Hypothesis ord_perm : forall A l, Permutation (ord A l) l.
Hypothesis src_eqb_sound : forall a b, src_eqb a b = true -> a = b.
Hypothesis react_named : forall s m st msg st', fst (react s m st msg) = Some st' -> ms_node st' <> "".

Local Notation inv := (inv S resolves).
Local Notation good := (good S).
Local Notation core_eq := (core_eq S).
Local Notation run_outputs := (run_outputs S react decode_src resolves src_eqb ord).

Theorem restart_unobservable_reachable : forall fuel h c store,
  run_history fuel (init_crew S, []) h = Done (c, store) -> ends_with_msg S h ->
  core_eq (boot store) c
  /\ inv (boot store) store
  /\ forall fuel' h2, orel (outputs_sim S) (run_outputs fuel' c h2) (run_outputs fuel' (boot store) h2).
Proof.
  intros fuel h c store H E.
  exact (restart_unobservable S react decode_src resolves src_eqb ord ord_perm src_eqb_sound react_named
           fuel h c store H E (reachable_unwedged fuel h c store H)).
Qed.

(** a crew booted from a store that tracks a crew with nothing cached has
    that crew's machines *)
Lemma boot_machines_tracked : forall c store,
  good c -> inv c store -> cache S c = [] -> machines S (boot store) = machines S c.
Proof.
  intros c store [Gs Gn] I Ec.
  destruct (boot_spec S resolves ord ord_perm store) as (M & _ & _ & Wb & [Bs _]).
  assert (T : forall m, store_view S resolves store m = live_view S c m).
  { intros m. destruct (I m) as (V & _). unfold inv_at in V. rewrite Ec in V. exact V. }
  assert (V : forall m, aget m (machines S (boot store)) = aget m (machines S c)).
  { intros m. apply view_of_mach_inj.
    pose proof (T m) as Tm. unfold live_view in Tm. rewrite <- Tm. rewrite M. unfold store_view.
    destruct (aget m store) as [[es esrc]|] eqn:Es; simpl; auto.
    unfold boot_mach, view_of_mach, view_of_entry. simpl. destruct es as [s|]; auto.
    rewrite defaulted_id; auto.
    unfold store_view in Tm. rewrite Es in Tm. simpl in Tm.
    destruct (aget m (machines S c)) as [mc|] eqn:Em; [|discriminate].
    simpl in Tm. unfold view_of_entry, view_of_mach in Tm. simpl in Tm.
    injection Tm as _ T2. rewrite T2. eapply Gn. exact Em. }
  apply ssorted_ext; auto.
Qed.

(** The same for ANY crew, reachable or not, that sits at a message boundary
    (nothing cached) with a store that tracks it, and whose machines are a
    key-sorted list of machines at named nodes: here the hypothesis on the
    captain is needed (a crew value with [wedged = true] ignores the
    operations its rebooted copy executes: [any_crew_needs_unwedged]). *)
Theorem restart_unobservable_any_crew : forall c store,
  good c -> inv c store -> cache S c = [] ->
  wedged S c = false ->
  core_eq (boot store) c
  /\ inv (boot store) store
  /\ forall fuel' h2, orel (outputs_sim S) (run_outputs fuel' c h2) (run_outputs fuel' (boot store) h2).
Proof.
  intros c store G I Ec W.
  destruct (boot_spec S resolves ord ord_perm store) as (_ & _ & _ & Wb & _).
  assert (CE : core_eq (boot store) c).
  { split; [apply boot_machines_tracked; assumption|congruence]. }
  split; [exact CE|]. split; [apply boot_inv; assumption|].
  intros fuel' h2. apply run_outputs_core. destruct CE. split; auto.
Qed.

End Restart.
End Unwedged.

(** ** on the recorder instance *)

(** the hypothesis of [restart_unobservable_any_crew] cannot be dropped: the
    empty crew with an inert captain and the empty store meet the other
    hypotheses; the crew booted from the store executes an operation that the
    crew ignores *)
Definition wedged_empty_crew : rcrew := mk_crew [] true [] [] false.
Lemma any_crew_needs_unwedged :
  good rcfg wedged_empty_crew /\ inv rcfg rresolves wedged_empty_crew [] /\ cache rcfg wedged_empty_crew = []
  /\ ~ core_eq rcfg (r_boot []) wedged_empty_crew
  /\ exists h2, ~ orel (outputs_sim rcfg) (run_outputs rcfg rreact rdecode rresolves rcfg_eqb ord_id 10 wedged_empty_crew h2)
                       (run_outputs rcfg rreact rdecode rresolves rcfg_eqb ord_id 10 (r_boot []) h2).
Proof.
  split; [|split; [|split; [reflexivity|split]]].
  - split; simpl; auto. intros m mc H. discriminate.
  - intros m. unfold inv_at. simpl. repeat split; intros; discriminate.
  - intros [_ W]. vm_compute in W. discriminate.
  - exists [OpMsg (JObj [("to", JStr "captain");
                         ("update", JObj [("a", JObj [("state", JObj [("node", JStr "flip")])])])])].
    vm_compute. intros [[M _] _]. discriminate.
Qed.

(** the two-schedule statement of Proofs/SioHistory.v without its hypothesis
    on the captain: the same proposition, and as false *)
Definition restart_two_schedules_full_reachable : Prop :=
  forall ord1 ord2 : forall A : Type, list (mid * A) -> list (mid * A),
  (forall A l, Permutation (ord1 A l) l) -> (forall A l, Permutation (ord2 A l) l) ->
  forall fuel h c store,
    run_history rcfg rreact rdecode rresolves rcfg_eqb ord1 fuel (init_crew rcfg, []) h = Done (c, store) ->
    ends_with_msg rcfg h ->
    forall h2,
      orel (fun x y => machines rcfg (fst x) = machines rcfg (fst y))
           (run_outputs rcfg rreact rdecode rresolves rcfg_eqb ord1 fuel c h2)
           (run_outputs rcfg rreact rdecode rresolves rcfg_eqb ord2 fuel (boot rcfg rresolves ord2 store) h2).

Lemma restart_two_schedules_full_iff :
  restart_two_schedules_full_reachable <-> restart_two_schedules_full.
Proof.
  split.
  - intros F ord1 ord2 P1 P2 fuel h c store H E _ h2. exact (F ord1 ord2 P1 P2 fuel h c store H E h2).
  - intros F ord1 ord2 P1 P2 fuel h c store H E h2.
    exact (F ord1 ord2 P1 P2 fuel h c store H E
             (reachable_unwedged rcfg rreact rdecode rresolves rcfg_eqb ord1 fuel h c store H) h2).
Qed.

Lemma restart_two_schedules_reachable_refuted : ~ restart_two_schedules_full_reachable.
Proof. intros F. apply restart_two_schedules_refuted. apply restart_two_schedules_full_iff. exact F. Qed.
