(** Proofs about the model of tools/expect (Model/Expect.v) against
    Spec/ExpectSpec.v: soundness of a passing verdict (with the causal
    segmentation), the consequences "never arrives => fails" and "no
    stand-in", correctness of the boolean oracle, and a partial converse. *)
From Sheens Require Import Spec.ExpectSpec.
From Coq Require Import Lia.

(** * Acceptance *)
Lemma accepts_b_iff : forall o m, accepts_b o m = true <-> accepts o m.
Proof.
  intros o m. unfold accepts_b, accepts. split.
  - destruct (Match (o_pat o) m []) as [r | |] eqn:E; try discriminate.
    destruct r as [|b rest]; try discriminate.
    destruct (guard_exec (o_guard o) b) eqn:G; try discriminate.
    intros _. exists b, rest. split; [reflexivity | exact G].
  - intros [b [rest [Hm Hg]]]. rewrite Hm, Hg. reflexivity.
Qed.

Lemma try_output_yes : forall o m, try_output o m = OYes <-> accepts o m.
Proof.
  intros o m. unfold try_output, accepts. split.
  - destruct (Match (o_pat o) m []) as [r | |] eqn:E; try discriminate.
    destruct r as [|b rest]; try discriminate.
    destruct (guard_exec (o_guard o) b) eqn:G; try discriminate.
    intros _. exists b, rest. split; [reflexivity | exact G].
  - intros [b [rest [Hm Hg]]]. rewrite Hm, Hg. reflexivity.
Qed.

Lemma try_output_not_yes : forall o m, try_output o m = ONo -> ~ accepts o m.
Proof.
  intros o m H Ha. apply try_output_yes in Ha. rewrite Ha in H. discriminate.
Qed.

(** * The counter [need] is the number of outstanding expected outputs *)
Definition is_outstanding (od : ostate) : bool := negb (o_inv (fst od)) && negb (snd od).
Definition outstanding (os : list ostate) : nat := List.length (filter is_outstanding os).

Lemma outstanding_cons_true : forall o r, outstanding ((o, true) :: r) = outstanding r.
Proof.
  intros o r. unfold outstanding. simpl. unfold is_outstanding at 1. simpl.
  rewrite andb_false_r. reflexivity.
Qed.

Lemma outstanding_cons_false_inv :
  forall o r, o_inv o = true -> outstanding ((o, false) :: r) = outstanding r.
Proof.
  intros o r H. unfold outstanding. simpl. unfold is_outstanding at 1. simpl.
  rewrite H. reflexivity.
Qed.

Lemma outstanding_cons_false_exp :
  forall o r, o_inv o = false -> outstanding ((o, false) :: r) = S (outstanding r).
Proof.
  intros o r H. unfold outstanding. simpl. unfold is_outstanding at 1. simpl.
  rewrite H. reflexivity.
Qed.

Lemma outstanding_cons_false_same :
  forall o r r', outstanding r' = outstanding r ->
  outstanding ((o, false) :: r') = outstanding ((o, false) :: r).
Proof.
  intros o r r' H. destruct (o_inv o) eqn:I.
  - rewrite !outstanding_cons_false_inv by exact I. exact H.
  - rewrite !outstanding_cons_false_exp by exact I. rewrite H. reflexivity.
Qed.

Lemma outstanding_zero :
  forall os o, outstanding os = 0 -> In (o, false) os -> o_inv o = false -> False.
Proof.
  intros os o H Hin Hi. unfold outstanding in H.
  assert (Hf : In (o, false) (filter is_outstanding os)).
  { apply filter_In. split; [exact Hin |]. unfold is_outstanding. simpl. rewrite Hi. reflexivity. }
  destruct (filter is_outstanding os); [contradiction | discriminate].
Qed.

Lemma outstanding_pos :
  forall os, outstanding os <> 0 -> exists o, In (o, false) os /\ o_inv o = false.
Proof.
  intros os H. unfold outstanding in H.
  destruct (filter is_outstanding os) as [|[o d] r] eqn:E; [contradiction H; reflexivity |].
  assert (Hin : In (o, d) (filter is_outstanding os)) by (rewrite E; left; reflexivity).
  apply filter_In in Hin. destruct Hin as [Hin Ho]. unfold is_outstanding in Ho. simpl in Ho.
  apply andb_true_iff in Ho. destruct Ho as [Hi Hd].
  destruct d; [discriminate |]. exists o. split; [exact Hin |].
  destruct (o_inv o); [discriminate | reflexivity].
Qed.

Lemma init_need_outstanding :
  forall outs, init_need outs = Z.of_nat (outstanding (init_state outs)).
Proof.
  intros outs. unfold init_need. f_equal. unfold outstanding, init_state.
  induction outs as [|o r IH]; [reflexivity |].
  simpl. unfold is_outstanding at 1. simpl. rewrite andb_true_r.
  destruct (negb (o_inv o)); simpl; rewrite IH; reflexivity.
Qed.

Lemma in_init_state : forall outs o d, In (o, d) (init_state outs) <-> (In o outs /\ d = false).
Proof.
  intros outs o d. unfold init_state. rewrite in_map_iff. split.
  - intros [x [Hx Hin]]. inversion Hx; subst. split; [exact Hin | reflexivity].
  - intros [Hin Hd]. subst d. exists o. split; [reflexivity | exact Hin].
Qed.

(** * One JSON line *)
Lemma line_outputs_spec :
  forall m os need os' need',
    line_outputs m os need = LOk os' need' ->
    (need' - Z.of_nat (outstanding os') = need - Z.of_nat (outstanding os))%Z
    /\ (forall o, In (o, false) os -> In (o, false) os' \/ (o_inv o = false /\ accepts o m))
    /\ (forall o, In (o, false) os -> o_inv o = true -> ~ accepts o m)
    /\ (forall o, In (o, false) os' -> In (o, false) os /\ (o_inv o = false -> ~ accepts o m))
    /\ map fst os' = map fst os.
Proof.
  intros m os. induction os as [|[o d] r IH]; intros need os' need' H.
  - simpl in H. inversion H; subst. repeat split; try (intros; contradiction); auto.
  - simpl in H. destruct d.
    + destruct (line_outputs m r need) as [w | r' n'] eqn:E; [discriminate |].
      inversion H; subst os' need'. clear H.
      destruct (IH _ _ _ E) as [Hn [Hk [Hi [Hb Hm]]]].
      rewrite !outstanding_cons_true. repeat split.
      * exact Hn.
      * intros o0 [Heq | Hin]; [discriminate |].
        destruct (Hk o0 Hin) as [H1 | H1]; [left; right; exact H1 | right; exact H1].
      * intros o0 [Heq | Hin]; [discriminate | apply Hi; exact Hin].
      * destruct H as [Heq | Hin]; [discriminate |]. right. apply (Hb o0 Hin).
      * destruct H as [Heq | Hin]; [discriminate |]. apply (Hb o0 Hin).
      * simpl. rewrite Hm. reflexivity.
    + destruct (try_output o m) eqn:T.
      * (* ONo *)
        destruct (line_outputs m r need) as [w | r' n'] eqn:E; [discriminate |].
        inversion H; subst os' need'. clear H.
        destruct (IH _ _ _ E) as [Hn [Hk [Hi [Hb Hm]]]].
        assert (Ho : (Z.of_nat (outstanding ((o, false) :: r')) - Z.of_nat (outstanding r')
                      = Z.of_nat (outstanding ((o, false) :: r)) - Z.of_nat (outstanding r))%Z).
        { destruct (o_inv o) eqn:I.
          - rewrite !outstanding_cons_false_inv by exact I. lia.
          - rewrite !outstanding_cons_false_exp by exact I. lia. }
        repeat split.
        -- unfold ostate in *. lia.
        -- intros o0 [Heq | Hin].
           ++ inversion Heq; subst. left. left. reflexivity.
           ++ destruct (Hk o0 Hin) as [H1 | H1]; [left; right; exact H1 | right; exact H1].
        -- intros o0 [Heq | Hin] Hinv.
           ++ inversion Heq; subst. apply try_output_not_yes. exact T.
           ++ apply Hi; assumption.
        -- destruct H as [Heq | Hin]; [left; exact Heq | right; apply (Hb o0 Hin)].
        -- destruct H as [Heq | Hin].
           ++ inversion Heq; subst. intros _. apply try_output_not_yes. exact T.
           ++ apply (Hb o0 Hin).
        -- simpl. rewrite Hm. reflexivity.
      * (* OYes *)
        destruct (o_inv o) eqn:I; [discriminate |].
        destruct (line_outputs m r (need - 1)) as [w | r' n'] eqn:E; [discriminate |].
        inversion H; subst os' need'. clear H.
        destruct (IH _ _ _ E) as [Hn [Hk [Hi [Hb Hm]]]].
        unfold ostate in *. rewrite outstanding_cons_true. rewrite (outstanding_cons_false_exp o r I).
        repeat split.
        -- lia.
        -- intros o0 [Heq | Hin].
           ++ inversion Heq; subst. right. split; [exact I | apply try_output_yes; exact T].
           ++ destruct (Hk o0 Hin) as [H1 | H1]; [left; right; exact H1 | right; exact H1].
        -- intros o0 [Heq | Hin] Hinv.
           ++ inversion Heq; subst. congruence.
           ++ apply Hi; assumption.
        -- destruct H as [Heq | Hin]; [discriminate | right; apply (Hb o0 Hin)].
        -- destruct H as [Heq | Hin]; [discriminate | apply (Hb o0 Hin)].
        -- simpl. rewrite Hm. reflexivity.
      * discriminate.
Qed.

(** * The reader's loop *)
Lemma read_loop_sound :
  forall ls os need rest,
    need = Z.of_nat (outstanding os) ->
    read_loop os need ls = SDone rest ->
    exists seg, ls = seg ++ rest /\
      (forall o, In (o, false) os -> o_inv o = false -> exists m, In (Some m) seg /\ accepts o m) /\
      (forall o m, In (o, false) os -> o_inv o = true -> In (Some m) seg -> ~ accepts o m).
Proof.
  intros ls. induction ls as [|l r IH]; intros os need rest Hneed H.
  - simpl in H. discriminate.
  - destruct l as [m |].
    + simpl in H.
      destruct (line_outputs m os need) as [w | os' need'] eqn:E; [discriminate |].
      destruct (line_outputs_spec _ _ _ _ _ E) as [Hn [Hk [Hi _]]].
      destruct (Z.eqb need' 0) eqn:Z0.
      * inversion H; subst rest. clear H. apply Z.eqb_eq in Z0.
        assert (Hz : outstanding os' = 0) by lia.
        exists [Some m]. split; [reflexivity |]. split.
        -- intros o Hin Hinv. destruct (Hk o Hin) as [Hin' | [_ Ha]].
           ++ exfalso. eapply outstanding_zero; eauto.
           ++ exists m. split; [left; reflexivity | exact Ha].
        -- intros o m' Hin Hinv [Heq | []]. inversion Heq; subst. apply Hi; assumption.
      * apply Z.eqb_neq in Z0.
        apply IH in H; [| lia].
        destruct H as [seg [Hls [Hexp Hforb]]].
        exists (Some m :: seg). split; [simpl; rewrite Hls; reflexivity |]. split.
        -- intros o Hin Hinv. destruct (Hk o Hin) as [Hin' | [_ Ha]].
           ++ destruct (Hexp o Hin' Hinv) as [m' [H1 H2]]. exists m'. split; [right; exact H1 | exact H2].
           ++ exists m. split; [left; reflexivity | exact Ha].
        -- intros o m' Hin Hinv [Heq | Hin2].
           ++ inversion Heq; subst. apply Hi; assumption.
           ++ destruct (Hk o Hin) as [Hin' | [Hc _]]; [| congruence].
              eapply Hforb; eauto.
    + simpl in H. apply IH in H; [| exact Hneed].
      destruct H as [seg [Hls [Hexp Hforb]]].
      exists (None :: seg). split; [simpl; rewrite Hls; reflexivity |]. split.
      * intros o Hin Hinv. destruct (Hexp o Hin Hinv) as [m' [H1 H2]].
        exists m'. split; [right; exact H1 | exact H2].
      * intros o m' Hin Hinv [Heq | Hin2]; [discriminate |]. eapply Hforb; eauto.
Qed.

Lemma read_step_sound :
  forall outs avail rest,
    read_step outs avail = SDone rest ->
    exists seg, avail = seg ++ rest /\ step_ok outs seg.
Proof.
  intros outs avail rest H. unfold read_step in H.
  apply read_loop_sound in H; [| apply init_need_outstanding].
  destruct H as [seg [Hls [Hexp Hforb]]]. exists seg. split; [exact Hls |]. split.
  - intros o Hin Hinv. apply Hexp; [| exact Hinv]. apply in_init_state. split; [exact Hin | reflexivity].
  - intros o m Hin Hinv. apply Hforb; [| exact Hinv]. apply in_init_state. split; [exact Hin | reflexivity].
Qed.

(** * Segmentations *)
Definition causal_from (pending : list line) (segs chunks : list (list line)) : Prop :=
  forall k, k <= List.length segs ->
  exists rest, List.concat (firstn k segs) ++ rest = pending ++ List.concat (firstn k chunks).

Lemma hd_firstn_tl :
  forall (chunks : list (list line)) k,
    hd [] chunks ++ List.concat (firstn k (tl chunks)) = List.concat (firstn (S k) chunks).
Proof.
  intros [|c cs] k; simpl.
  - rewrite firstn_nil. reflexivity.
  - reflexivity.
Qed.

Lemma causal_from_cons :
  forall pending chunks seg rest segs',
    pending ++ hd [] chunks = seg ++ rest ->
    causal_from rest segs' (tl chunks) ->
    causal_from pending (seg :: segs') chunks.
Proof.
  intros pending chunks seg rest segs' Hsplit Hc k Hk.
  destruct k as [|k'].
  - exists pending. simpl. rewrite app_nil_r. reflexivity.
  - simpl in Hk. destruct (Hc k' ltac:(lia)) as [r Hr].
    exists r. rewrite <- (hd_firstn_tl chunks k'). simpl.
    rewrite <- app_assoc, Hr. rewrite !app_assoc. rewrite <- Hsplit. reflexivity.
Qed.

Lemma causal_from_inv :
  forall pending chunks seg segs',
    causal_from pending (seg :: segs') chunks ->
    exists rest, pending ++ hd [] chunks = seg ++ rest /\ causal_from rest segs' (tl chunks).
Proof.
  intros pending chunks seg segs' Hc.
  destruct (Hc 1 ltac:(simpl; lia)) as [rest Hrest].
  assert (H1 : List.concat (firstn 1 chunks) = hd [] chunks).
  { destruct chunks as [|c cs]; simpl; [reflexivity | apply app_nil_r]. }
  rewrite H1 in Hrest. simpl in Hrest. rewrite app_nil_r in Hrest. exists rest. split; [symmetry; exact Hrest |].
  intros k Hk. destruct (Hc (S k) ltac:(simpl; lia)) as [r Hr].
  exists r. rewrite <- (hd_firstn_tl chunks k) in Hr. simpl in Hr.
  rewrite (app_assoc pending (hd [] chunks)) in Hr. rewrite <- Hrest in Hr.
  rewrite <- !app_assoc in Hr. apply app_inv_head in Hr. exact Hr.
Qed.

Lemma run_steps_sound :
  forall steps chunks pending,
    run_steps steps chunks pending = Pass ->
    exists segs, causal_from pending segs chunks /\ Forall2 step_ok steps segs.
Proof.
  intros steps. induction steps as [|outs more IH]; intros chunks pending H.
  - exists []. split; [| constructor].
    intros k Hk. simpl in Hk. assert (k = 0) by lia. subst k.
    exists pending. simpl. rewrite app_nil_r. reflexivity.
  - simpl in H. destruct (read_step outs (pending ++ hd [] chunks)) as [rest | w] eqn:E; [| discriminate].
    apply read_step_sound in E. destruct E as [seg [Hsplit Hok]].
    apply IH in H. destruct H as [segs' [Hc Hf]].
    exists (seg :: segs'). split.
    + eapply causal_from_cons; eauto.
    + constructor; assumption.
Qed.

(** * Main theorem: a passing verdict is sound *)
Theorem expect_run_sound :
  forall steps chunks, expect_run steps chunks = Pass -> session_sound steps chunks.
Proof.
  intros steps chunks H. unfold expect_run in H. apply run_steps_sound in H.
  destruct H as [segs [Hc Hf]]. exists segs. split; [| exact Hf].
  intros k Hk. destruct (Hc k Hk) as [r Hr]. exists r. exact Hr.
Qed.

Lemma nth_error_in_concat_firstn :
  forall (segs : list (list line)) k seg l,
    nth_error segs k = Some seg -> In l seg -> In l (List.concat (firstn (S k) segs)).
Proof.
  intros segs. induction segs as [|s r IH]; intros k seg l Hn Hin.
  - destruct k; discriminate.
  - destruct k as [|k'].
    + simpl in Hn. inversion Hn; subst. simpl. apply in_or_app. left. exact Hin.
    + simpl in Hn. change (firstn (S (S k')) (s :: r)) with (s :: firstn (S k') r).
      simpl. apply in_or_app. right. eapply IH; eauto.
Qed.

Lemma Forall2_nth_error :
  forall (A B : Type) (R : A -> B -> Prop) l1 l2 k a,
    Forall2 R l1 l2 -> nth_error l1 k = Some a ->
    exists b, nth_error l2 k = Some b /\ R a b.
Proof.
  intros A B R l1 l2 k a HF. revert k. induction HF as [|x y l1' l2' Hxy HF IH]; intros k Hn.
  - destruct k; discriminate.
  - destruct k as [|k'].
    + simpl in Hn. inversion Hn; subst. exists y. split; [reflexivity | exact Hxy].
    + simpl in Hn. simpl. apply IH. exact Hn.
Qed.

(** an expected message that has not arrived by the end of its step: fail *)
Theorem expect_run_never_arrives_fails :
  forall steps chunks, never_arrives steps chunks -> exists w, expect_run steps chunks = Fail w.
Proof.
  intros steps chunks [k [outs [o [Hn [Hin [Hinv Hno]]]]]].
  destruct (expect_run steps chunks) as [|w] eqn:E; [| exists w; reflexivity].
  exfalso. apply expect_run_sound in E. destruct E as [segs [Hc Hf]].
  destruct (Forall2_nth_error _ _ _ _ _ _ _ Hf Hn) as [seg [Hseg [Hexp _]]].
  destruct (Hexp o Hin Hinv) as [m [Hm Ha]].
  assert (Hk : S k <= List.length segs).
  { apply nth_error_Some. rewrite Hseg. discriminate. }
  destruct (Hc (S k) Hk) as [rest Hrest].
  apply (Hno m); [| exact Ha].
  rewrite <- Hrest. apply in_or_app. left.
  eapply nth_error_in_concat_firstn; eauto.
Qed.

Lemma in_concat_firstn :
  forall (chunks : list (list line)) k l, In l (List.concat (firstn k chunks)) -> In l (List.concat chunks).
Proof.
  intros chunks k l H. rewrite <- (firstn_skipn k chunks) at 1.
  rewrite concat_app. apply in_or_app. left. exact H.
Qed.

(** no line of the whole stream meets some expected output: fail, whatever
    else is in the stream and however often it is repeated *)
Theorem expect_run_no_stand_in :
  forall steps chunks, unmet_anywhere steps chunks -> exists w, expect_run steps chunks = Fail w.
Proof.
  intros steps chunks [outs [o [Hs [Hin [Hinv Hno]]]]].
  apply expect_run_never_arrives_fails.
  apply In_nth_error in Hs. destruct Hs as [k Hk].
  exists k, outs, o. repeat split; try assumption.
  intros m Hm. apply Hno. eapply in_concat_firstn; eauto.
Qed.

(** * The boolean oracle decides [session_sound] *)
Lemma line_accepted_iff :
  forall o l, line_accepted o l = true <-> exists m, l = Some m /\ accepts o m.
Proof.
  intros o [m |]; simpl.
  - rewrite accepts_b_iff. split.
    + intros H. exists m. split; [reflexivity | exact H].
    + intros [m' [Heq H]]. inversion Heq; subst. exact H.
  - split; [discriminate | intros [m' [Heq _]]; discriminate].
Qed.

Lemma exists_accepted_iff :
  forall o seg, existsb (line_accepted o) seg = true <-> exists m, In (Some m) seg /\ accepts o m.
Proof.
  intros o seg. rewrite existsb_exists. split.
  - intros [l [Hin H]]. apply line_accepted_iff in H. destruct H as [m [Heq Ha]]. subst l.
    exists m. split; assumption.
  - intros [m [Hin Ha]]. exists (Some m). split; [exact Hin |].
    apply line_accepted_iff. exists m. split; [reflexivity | exact Ha].
Qed.

Lemma unmet_anywhere_b_iff :
  forall steps chunks, unmet_anywhere_b steps chunks = true <-> unmet_anywhere steps chunks.
Proof.
  intros steps chunks. unfold unmet_anywhere_b, unmet_anywhere. rewrite existsb_exists. split.
  - intros [outs [Hs H]]. apply existsb_exists in H. destruct H as [o [Hin H]].
    apply andb_true_iff in H. destruct H as [Hinv Hno].
    exists outs, o. repeat split; try assumption.
    + destruct (o_inv o); [discriminate | reflexivity].
    + intros m Hm Ha. apply negb_true_iff in Hno.
      assert (existsb (line_accepted o) (List.concat chunks) = true).
      { apply exists_accepted_iff. exists m. split; assumption. }
      congruence.
  - intros [outs [o [Hs [Hin [Hinv Hno]]]]]. exists outs. split; [exact Hs |].
    apply existsb_exists. exists o. split; [exact Hin |].
    apply andb_true_iff. split; [rewrite Hinv; reflexivity |].
    apply negb_true_iff. destruct (existsb (line_accepted o) (List.concat chunks)) eqn:E; [| reflexivity].
    exfalso. apply exists_accepted_iff in E. destruct E as [m [Hm Ha]].
    apply (Hno m Hm). exact Ha.
Qed.

Lemma step_ok_b_iff : forall outs seg, step_ok_b outs seg = true <-> step_ok outs seg.
Proof.
  intros outs seg. unfold step_ok_b, step_ok. rewrite forallb_forall. split.
  - intros H. split.
    + intros o Hin Hinv. specialize (H o Hin). rewrite Hinv in H.
      apply exists_accepted_iff. exact H.
    + intros o m Hin Hinv Hm Ha. specialize (H o Hin). rewrite Hinv in H.
      apply negb_true_iff in H.
      assert (existsb (line_accepted o) seg = true).
      { apply exists_accepted_iff. exists m. split; assumption. }
      congruence.
  - intros [Hexp Hforb] o Hin. destruct (o_inv o) eqn:Hinv.
    + apply negb_true_iff. destruct (existsb (line_accepted o) seg) eqn:E; [| reflexivity].
      exfalso. apply exists_accepted_iff in E. destruct E as [m [Hm Ha]].
      eapply Hforb; eauto.
    + apply exists_accepted_iff. apply Hexp; assumption.
Qed.

Lemma splits_iff : forall (A : Type) (l a b : list A), In (a, b) (splits l) <-> l = a ++ b.
Proof.
  intros A l. induction l as [|x r IH]; intros a b.
  - simpl. split.
    + intros [H | []]. inversion H; subst. reflexivity.
    + intros H. symmetry in H. apply app_eq_nil in H. destruct H; subst. left. reflexivity.
  - simpl. split.
    + intros [H | H].
      * inversion H; subst. reflexivity.
      * apply in_map_iff in H. destruct H as [[a' b'] [Heq Hin]]. simpl in Heq.
        inversion Heq; subst. apply IH in Hin. subst r. reflexivity.
    + intros H. destruct a as [|y a'].
      * simpl in H. subst b. left. reflexivity.
      * simpl in H. inversion H; subst. right. apply in_map_iff.
        exists (a', b). split; [reflexivity |]. apply IH. reflexivity.
Qed.

Lemma sound_from_iff :
  forall steps chunks pending,
    sound_from steps chunks pending = true <->
    exists segs, causal_from pending segs chunks /\ Forall2 step_ok steps segs.
Proof.
  intros steps. induction steps as [|outs more IH]; intros chunks pending.
  - simpl. split; [| reflexivity]. intros _. exists []. split; [| constructor].
    intros k Hk. simpl in Hk. assert (k = 0) by lia. subst k.
    exists pending. simpl. rewrite app_nil_r. reflexivity.
  - simpl. rewrite existsb_exists. split.
    + intros [[seg rest] [Hin H]]. simpl in H. apply andb_true_iff in H. destruct H as [Hok Hrec].
      apply splits_iff in Hin. apply step_ok_b_iff in Hok. apply IH in Hrec.
      destruct Hrec as [segs' [Hc Hf]]. exists (seg :: segs'). split.
      * eapply causal_from_cons; eauto.
      * constructor; assumption.
    + intros [segs [Hc Hf]]. inversion Hf as [| o1 seg l1 segs' Hok Hf' ]; subst.
      apply causal_from_inv in Hc. destruct Hc as [rest [Hsplit Hc']].
      exists (seg, rest). split; [apply splits_iff; exact Hsplit |].
      simpl. apply andb_true_iff. split.
      * apply step_ok_b_iff. exact Hok.
      * apply IH. exists segs'. split; assumption.
Qed.

Theorem session_sound_b_iff :
  forall steps chunks, session_sound_b steps chunks = true <-> session_sound steps chunks.
Proof.
  intros steps chunks. unfold session_sound_b. rewrite sound_from_iff. unfold session_sound. split.
  - intros [segs [Hc Hf]]. exists segs. split; [| exact Hf].
    intros k Hk. destruct (Hc k Hk) as [r Hr]. exists r. exact Hr.
  - intros [segs [Hc Hf]]. exists segs. split; [| exact Hf].
    intros k Hk. destruct (Hc k Hk) as [r Hr]. exists r. exact Hr.
Qed.

(** the oracle never rejects a verdict the model gives *)
Corollary expect_run_oracle :
  forall steps chunks, expect_run steps chunks = Pass -> session_sound_b steps chunks = true.
Proof.
  intros steps chunks H. apply session_sound_b_iff. apply expect_run_sound. exact H.
Qed.

(** * Partial converse: when every step's expectations are met during the
    step and nothing errs or is forbidden, the run passes *)
Lemma line_outputs_ok :
  forall m os need,
    (forall o d w, In (o, d) os -> try_output o m <> OFail w) ->
    (forall o d, In (o, d) os -> o_inv o = true -> ~ accepts o m) ->
    exists os' need', line_outputs m os need = LOk os' need'.
Proof.
  intros m os. induction os as [|[o d] r IH]; intros need Herr Hforb.
  - exists [], need. reflexivity.
  - assert (Herr' : forall o0 d0 w, In (o0, d0) r -> try_output o0 m <> OFail w).
    { intros o0 d0 w Hin. apply (Herr o0 d0 w). right. exact Hin. }
    assert (Hforb' : forall o0 d0, In (o0, d0) r -> o_inv o0 = true -> ~ accepts o0 m).
    { intros o0 d0 Hin. apply (Hforb o0 d0). right. exact Hin. }
    simpl. destruct d.
    + destruct (IH need Herr' Hforb') as [r' [n' E]]. rewrite E. eauto.
    + destruct (try_output o m) eqn:T.
      * destruct (IH need Herr' Hforb') as [r' [n' E]]. rewrite E. eauto.
      * destruct (o_inv o) eqn:I.
        -- exfalso. apply (Hforb o false); [left; reflexivity | exact I | apply try_output_yes; exact T].
        -- destruct (IH (need - 1)%Z Herr' Hforb') as [r' [n' E]]. rewrite E. eauto.
      * exfalso. apply (Herr o false w); [left; reflexivity | exact T].
Qed.

Lemma in_map_fst_ex :
  forall (os os' : list ostate) o d,
    map fst os' = map fst os -> In (o, d) os' -> exists d0, In (o, d0) os.
Proof.
  intros os os' o d Hm Hin.
  assert (H : In o (map fst os)).
  { rewrite <- Hm. apply in_map_iff. exists (o, d). split; [reflexivity | exact Hin]. }
  apply in_map_iff in H. destruct H as [[o0 d0] [Heq Hin0]]. simpl in Heq. subst o0.
  exists d0. exact Hin0.
Qed.

Lemma read_loop_complete :
  forall ls os need,
    need = Z.of_nat (outstanding os) ->
    (forall o d m w, In (o, d) os -> In (Some m) ls -> try_output o m <> OFail w) ->
    (forall o d m, In (o, d) os -> o_inv o = true -> In (Some m) ls -> ~ accepts o m) ->
    (forall o, In (o, false) os -> o_inv o = false -> exists m, In (Some m) ls /\ accepts o m) ->
    (exists m, In (Some m) ls) ->
    exists seg rest, ls = seg ++ rest /\ read_loop os need ls = SDone rest.
Proof.
  intros ls. induction ls as [|l r IH]; intros os need Hneed Herr Hforb Hmet Hjson.
  - destruct Hjson as [m []].
  - destruct l as [m |].
    + simpl.
      destruct (line_outputs_ok m os need) as [os' [need' E]].
      { intros o d w Hin. apply (Herr o d m w Hin). left. reflexivity. }
      { intros o d Hin Hinv. apply (Hforb o d m Hin Hinv). left. reflexivity. }
      rewrite E. destruct (line_outputs_spec _ _ _ _ _ E) as [Hn [Hk [Hi [Hb Hm]]]].
      destruct (Z.eqb need' 0) eqn:Z0.
      * exists [Some m], r. split; reflexivity.
      * apply Z.eqb_neq in Z0.
        assert (Hmet' : forall o, In (o, false) os' -> o_inv o = false ->
                                  exists m0, In (Some m0) r /\ accepts o m0).
        { intros o Hin Hinv. destruct (Hb o Hin) as [Hin0 Hna].
          destruct (Hmet o Hin0 Hinv) as [m0 [[Heq | Hin1] Ha]].
          - inversion Heq; subst. exfalso. apply (Hna Hinv). exact Ha.
          - exists m0. split; assumption. }
        destruct (IH os' need') as [seg [rest [Hls Hrun]]].
        -- lia.
        -- intros o d m0 w Hin Hin1. destruct (in_map_fst_ex _ _ _ _ Hm Hin) as [d0 Hin0].
           apply (Herr o d0 m0 w Hin0). right. exact Hin1.
        -- intros o d m0 Hin Hinv Hin1. destruct (in_map_fst_ex _ _ _ _ Hm Hin) as [d0 Hin0].
           apply (Hforb o d0 m0 Hin0 Hinv). right. exact Hin1.
        -- exact Hmet'.
        -- assert (Hpos : outstanding os' <> 0) by lia.
           destruct (outstanding_pos _ Hpos) as [o [Hin Hinv]].
           destruct (Hmet' o Hin Hinv) as [m0 [Hin1 _]]. exists m0. exact Hin1.
        -- exists (Some m :: seg), rest. split; [simpl; rewrite Hls; reflexivity | exact Hrun].
    + simpl. destruct (IH os need Hneed) as [seg [rest [Hls Hrun]]].
      * intros o d m0 w Hin Hin1. apply (Herr o d m0 w Hin). right. exact Hin1.
      * intros o d m0 Hin Hinv Hin1. apply (Hforb o d m0 Hin Hinv). right. exact Hin1.
      * intros o Hin Hinv. destruct (Hmet o Hin Hinv) as [m0 [[Heq | Hin1] Ha]]; [discriminate |].
        exists m0. split; assumption.
      * destruct Hjson as [m0 [Heq | Hin1]]; [discriminate | exists m0; exact Hin1].
      * exists (None :: seg), rest. split; [simpl; rewrite Hls; reflexivity | exact Hrun].
Qed.

Lemma run_steps_complete :
  forall steps chunks, Forall2 step_met steps chunks ->
  forall pending all,
    incl pending all -> incl (List.concat chunks) all ->
    no_errors steps all -> nothing_forbidden steps all ->
    run_steps steps chunks pending = Pass.
Proof.
  intros steps chunks HF. induction HF as [|outs c more cs Hmet HF IH];
    intros pending all Hp Hc Herr Hforb.
  - reflexivity.
  - simpl. simpl in Hc.
    assert (Havail : incl (pending ++ c) all).
    { intros x Hx. apply in_app_or in Hx. destruct Hx as [Hx | Hx];
        [apply Hp; exact Hx | apply Hc; apply in_or_app; left; exact Hx]. }
    destruct Hmet as [Hjson Hexp].
    destruct (read_loop_complete (pending ++ c) (init_state outs) (init_need outs))
      as [seg [rest [Hls Hrun]]].
    + apply init_need_outstanding.
    + intros o d m w Hin Hin1. apply in_init_state in Hin. destruct Hin as [Hin _].
      apply (Herr outs o m w); [left; reflexivity | exact Hin | apply Havail; exact Hin1].
    + intros o d m Hin Hinv Hin1. apply in_init_state in Hin. destruct Hin as [Hin _].
      apply (Hforb outs o m); [left; reflexivity | exact Hin | exact Hinv | apply Havail; exact Hin1].
    + intros o Hin Hinv. apply in_init_state in Hin. destruct Hin as [Hin _].
      destruct (Hexp o Hin Hinv) as [m [Hin1 Ha]]. exists m. split; [| exact Ha].
      apply in_or_app. right. exact Hin1.
    + destruct Hjson as [m Hin1]. exists m. apply in_or_app. right. exact Hin1.
    + unfold read_step. rewrite Hrun. apply (IH rest all).
      * intros x Hx. apply Havail. rewrite Hls. apply in_or_app. right. exact Hx.
      * intros x Hx. apply Hc. apply in_or_app. right. exact Hx.
      * intros outs0 o m w Hs. apply (Herr outs0 o m w). right. exact Hs.
      * intros outs0 o m Hs. apply (Hforb outs0 o m). right. exact Hs.
Qed.

Theorem expect_run_pass_when_met :
  forall steps chunks,
    Forall2 step_met steps chunks ->
    no_errors steps (List.concat chunks) ->
    nothing_forbidden steps (List.concat chunks) ->
    expect_run steps chunks = Pass.
Proof.
  intros steps chunks HF Herr Hforb. unfold expect_run.
  apply (run_steps_complete steps chunks HF [] (List.concat chunks)); try assumption.
  - intros x [].
  - apply incl_refl.
Qed.


(** * [never_arrives_b] is sound for [never_arrives] *)
Lemma never_arrives_from_cons :
  forall k outs more chunks,
    never_arrives_from k (outs :: more) chunks =
    (existsb (fun o => negb (o_inv o) &&
                       negb (existsb (line_accepted o) (List.concat (firstn (S k) chunks)))) outs
     || never_arrives_from (S k) more chunks).
Proof. reflexivity. Qed.

Lemma never_arrives_from_sound :
  forall steps k chunks,
    never_arrives_from k steps chunks = true ->
    exists j outs o,
      nth_error steps j = Some outs /\ In o outs /\ o_inv o = false /\
      forall m, In (Some m) (List.concat (firstn (S (k + j)) chunks)) -> ~ accepts o m.
Proof.
  intros steps. induction steps as [|outs more IH]; intros k chunks H.
  - discriminate.
  - rewrite never_arrives_from_cons in H. apply orb_true_iff in H. destruct H as [H | H].
    + apply existsb_exists in H. destruct H as [o [Hin H]].
      apply andb_true_iff in H. destruct H as [Hinv Hno].
      exists 0, outs, o. rewrite Nat.add_0_r. repeat split; try assumption; try reflexivity.
      * destruct (o_inv o); [discriminate | reflexivity].
      * intros m Hm Ha. apply negb_true_iff in Hno.
        assert (existsb (line_accepted o) (List.concat (firstn (S k) chunks)) = true).
        { apply exists_accepted_iff. exists m. split; assumption. }
        congruence.
    + apply IH in H. destruct H as [j [outs' [o [Hn [Hin [Hinv Hno]]]]]].
      exists (S j), outs', o. repeat split; try assumption.
      replace (k + S j) with (S k + j) by lia. exact Hno.
Qed.

Lemma never_arrives_b_sound :
  forall steps chunks, never_arrives_b steps chunks = true -> never_arrives steps chunks.
Proof.
  intros steps chunks H. apply never_arrives_from_sound in H.
  destruct H as [j [outs [o [Hn [Hin [Hinv Hno]]]]]]. exists j, outs, o.
  repeat split; assumption.
Qed.

(** * The segment of a step ends where the step completes *)
Lemma read_loop_minimal :
  forall ls os need rest,
    need = Z.of_nat (outstanding os) ->
    read_loop os need ls = SDone rest ->
    exists pre m, ls = pre ++ Some m :: rest /\
      forall pre1 m1 post1, pre = pre1 ++ Some m1 :: post1 ->
        exists o, In (o, false) os /\ o_inv o = false /\
                  forall m', In (Some m') (pre1 ++ [Some m1]) -> ~ accepts o m'.
Proof.
  intros ls. induction ls as [|l r IH]; intros os need rest Hneed H.
  - simpl in H. discriminate.
  - destruct l as [m0 |].
    + simpl in H.
      destruct (line_outputs m0 os need) as [w | os' need'] eqn:E; [discriminate |].
      destruct (line_outputs_spec _ _ _ _ _ E) as [Hn [_ [_ [Hb _]]]].
      destruct (Z.eqb need' 0) eqn:Z0.
      * inversion H; subst rest. exists [], m0. split; [reflexivity |].
        intros pre1 m1 post1 Hsplit. destruct pre1; discriminate.
      * apply Z.eqb_neq in Z0.
        assert (Hneed' : need' = Z.of_nat (outstanding os')) by lia.
        destruct (IH os' need' rest Hneed' H) as [pre [m [Hls Hmin]]].
        exists (Some m0 :: pre), m. split; [simpl; rewrite Hls; reflexivity |].
        intros pre1 m1 post1 Hsplit. destruct pre1 as [|l1 pre1'].
        -- simpl in Hsplit. inversion Hsplit; subst m1 post1.
           assert (Hpos : outstanding os' <> 0) by lia.
           destruct (outstanding_pos _ Hpos) as [o [Hin Hinv]].
           destruct (Hb o Hin) as [Hin0 Hna].
           exists o. repeat split; try assumption.
           intros m' [Heq | []]. inversion Heq; subst m'. apply Hna. exact Hinv.
        -- simpl in Hsplit. injection Hsplit as Hl1 Hpre. subst l1.
           destruct (Hmin pre1' m1 post1 Hpre) as [o [Hin [Hinv Hno]]].
           destruct (Hb o Hin) as [Hin0 Hna].
           exists o. repeat split; try assumption.
           intros m' [Heq | Hin']; [inversion Heq; subst m'; apply Hna; exact Hinv |].
           apply Hno. exact Hin'.
    + simpl in H.
      destruct (IH os need rest Hneed H) as [pre [m [Hls Hmin]]].
      exists (None :: pre), m. split; [simpl; rewrite Hls; reflexivity |].
      intros pre1 m1 post1 Hsplit. destruct pre1 as [|l1 pre1']; [discriminate |].
      simpl in Hsplit. injection Hsplit as Hl1 Hpre. subst l1.
      destruct (Hmin pre1' m1 post1 Hpre) as [o [Hin [Hinv Hno]]].
      exists o. repeat split; try assumption.
      intros m' [Heq | Hin']; [discriminate |]. apply Hno. exact Hin'.
Qed.

Lemma read_step_sound_minimal :
  forall outs avail rest,
    read_step outs avail = SDone rest ->
    exists seg, avail = seg ++ rest /\ step_ok outs seg /\ step_minimal outs seg.
Proof.
  intros outs avail rest H.
  destruct (read_step_sound _ _ _ H) as [seg [Hsplit Hok]].
  exists seg. split; [exact Hsplit |]. split; [exact Hok |].
  unfold read_step in H.
  apply read_loop_minimal in H; [| apply init_need_outstanding].
  destruct H as [pre [m [Hls Hmin]]].
  exists pre, m. split.
  - apply (app_inv_tail rest). rewrite <- Hsplit, Hls. rewrite <- app_assoc. reflexivity.
  - intros pre1 m1 post1 Hp. destruct (Hmin pre1 m1 post1 Hp) as [o [Hin [Hinv Hno]]].
    apply in_init_state in Hin. destruct Hin as [Hin _].
    exists o. repeat split; assumption.
Qed.

Lemma run_steps_sound_minimal :
  forall steps chunks pending,
    run_steps steps chunks pending = Pass ->
    exists segs, causal_from pending segs chunks /\
                 Forall2 (fun outs seg => step_ok outs seg /\ step_minimal outs seg) steps segs.
Proof.
  intros steps. induction steps as [|outs more IH]; intros chunks pending H.
  - exists []. split; [| constructor].
    intros k Hk. simpl in Hk. assert (k = 0) by lia. subst k.
    exists pending. simpl. rewrite app_nil_r. reflexivity.
  - simpl in H. destruct (read_step outs (pending ++ hd [] chunks)) as [rest | w] eqn:E; [| discriminate].
    apply read_step_sound_minimal in E. destruct E as [seg [Hsplit [Hok Hmin]]].
    apply IH in H. destruct H as [segs' [Hc Hf]].
    exists (seg :: segs'). split.
    + eapply causal_from_cons; eauto.
    + constructor; [split; assumption | assumption].
Qed.

Theorem expect_run_sound_minimal :
  forall steps chunks,
    expect_run steps chunks = Pass ->
    exists segs, causal segs chunks /\
                 Forall2 (fun outs seg => step_ok outs seg /\ step_minimal outs seg) steps segs.
Proof.
  intros steps chunks H. unfold expect_run in H. apply run_steps_sound_minimal in H.
  destruct H as [segs [Hc Hf]]. exists segs. split; [| exact Hf].
  intros k Hk. destruct (Hc k Hk) as [r Hr]. exists r. exact Hr.
Qed.
