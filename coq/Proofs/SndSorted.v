(** [bset] keeps the keys sorted; sorted keys are duplicate free. *)
From Sheens Require Import Spec.Contain Proofs.SndBasics.
From Coq Require Import Lia NArith.

Lemma ascii_compare_refl c : Ascii.compare c c = Eq.
Proof. unfold Ascii.compare. apply N.compare_refl. Qed.

Lemma ascii_compare_lt_trans a b c :
  Ascii.compare a b = Lt -> Ascii.compare b c = Lt -> Ascii.compare a c = Lt.
Proof.
  unfold Ascii.compare. rewrite !N.compare_lt_iff. apply N.lt_trans.
Qed.

Lemma string_compare_lt_trans a :
  forall b c, String.compare a b = Lt -> String.compare b c = Lt -> String.compare a c = Lt.
Proof.
  induction a as [| c1 a IH]; intros [| c2 b] [| c3 c]; cbn [String.compare];
    try discriminate; try reflexivity.
  destruct (Ascii.compare c1 c2) eqn:E12; try discriminate;
    destruct (Ascii.compare c2 c3) eqn:E23; try discriminate; intros H1 H2.
  - apply Ascii.compare_eq_iff in E12, E23. subst c2 c3.
    rewrite ascii_compare_refl. eapply IH; eassumption.
  - apply Ascii.compare_eq_iff in E12. subst c2. rewrite E23. reflexivity.
  - apply Ascii.compare_eq_iff in E23. subst c3. rewrite E12. reflexivity.
  - rewrite (ascii_compare_lt_trans _ _ _ E12 E23). reflexivity.
Qed.

Lemma ltb_trans a b c : String.ltb a b = true -> String.ltb b c = true -> String.ltb a c = true.
Proof.
  unfold String.ltb. intros H1 H2.
  destruct (String.compare a b) eqn:E1; try discriminate.
  destruct (String.compare b c) eqn:E2; try discriminate.
  rewrite (string_compare_lt_trans _ _ _ E1 E2). reflexivity.
Qed.

Lemma ltb_irrefl a : String.ltb a a = false.
Proof. unfold String.ltb. rewrite string_compare_refl. reflexivity. Qed.

Lemma sorted_cons2 k v k1 v1 (r : bindings) :
  sorted_keys ((k, v) :: (k1, v1) :: r) = String.ltb k k1 && sorted_keys ((k1, v1) :: r).
Proof. reflexivity. Qed.

Lemma sorted_cons_key k v v' (r : bindings) :
  sorted_keys ((k, v) :: r) = sorted_keys ((k, v') :: r).
Proof. destruct r as [| [k1 v1] r]; reflexivity. Qed.

Lemma bset_sorted_aux k v :
  forall bs, sorted_keys bs = true ->
    sorted_keys (bset k v bs) = true /\
    (forall k0 v0, sorted_keys ((k0, v0) :: bs) = true -> String.ltb k0 k = true ->
                   sorted_keys ((k0, v0) :: bset k v bs) = true).
Proof.
  induction bs as [| [k1 v1] r IH]; intros Hs; cbn [bset].
  - split; [reflexivity|]. intros k0 v0 _ Hlt. rewrite sorted_cons2, Hlt. reflexivity.
  - destruct (String.compare k k1) eqn:C.
    + apply String.compare_eq_iff in C. subst k1.
      rewrite (sorted_cons_key k v1 v) in Hs. split; [exact Hs|].
      intros k0 v0 H0 Hlt. rewrite sorted_cons2, Hlt, Hs. reflexivity.
    + assert (Hlt1 : String.ltb k k1 = true) by (unfold String.ltb; rewrite C; reflexivity).
      split; [rewrite sorted_cons2, Hlt1, Hs; reflexivity|].
      intros k0 v0 H0 Hlt. rewrite !sorted_cons2, Hlt, Hlt1, Hs. reflexivity.
    + assert (Hlt1 : String.ltb k1 k = true).
      { unfold String.ltb. rewrite String.compare_antisym, C. reflexivity. }
      destruct (IH (sorted_keys_tail _ _ _ Hs)) as [_ IH2].
      pose proof (IH2 k1 v1 Hs Hlt1) as H1. split; [exact H1|].
      intros k0 v0 H0 Hlt. rewrite sorted_cons2 in H0. apply andb_true_iff in H0.
      destruct H0 as [H01 _].
      destruct (bset k v r) as [| [k2 v2] t] eqn:Eb.
      * rewrite sorted_cons2, H01. reflexivity.
      * rewrite sorted_cons2, H01, H1. reflexivity.
Qed.

Lemma bset_sorted k v bs : sorted_keys bs = true -> sorted_keys (bset k v bs) = true.
Proof. intros H. apply (bset_sorted_aux k v bs H). Qed.

Lemma sorted_lt_all k v (bs : bindings) :
  sorted_keys ((k, v) :: bs) = true -> forall k', In k' (map fst bs) -> String.ltb k k' = true.
Proof.
  revert k v. induction bs as [| [k1 v1] r IH]; intros k v Hs k' Hin; [destruct Hin|].
  rewrite sorted_cons2 in Hs. apply andb_true_iff in Hs. destruct Hs as [H1 H2].
  destruct Hin as [<- | Hin]; [exact H1|].
  eapply ltb_trans; [exact H1|]. eapply IH; eassumption.
Qed.

Lemma sorted_nodup (bs : bindings) : sorted_keys bs = true -> nodup_keys (map fst bs) = true.
Proof.
  induction bs as [| [k v] r IH]; intros Hs; [reflexivity|].
  cbn [map fst nodup_keys]. rewrite (IH (sorted_keys_tail _ _ _ Hs)), andb_true_r.
  apply negb_true_iff. destruct (existsb (String.eqb k) (map fst r)) eqn:E; [|reflexivity].
  apply existsb_eqb_in in E. pose proof (sorted_lt_all k v r Hs k E) as H.
  rewrite ltb_irrefl in H. discriminate.
Qed.
