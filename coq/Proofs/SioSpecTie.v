(** C14/C17: the sio crew model's hand-written routing predicates for the two
    service machines are what the specifications in the source say.

    Model/SioCrew.v does not run the timers machine and the captain through
    the engine model; it carries copies of what node "start" of their
    specifications accepts:

    - [tm_shape msg]: "the timers machine reacts to [msg]" - written after the
      two branch patterns of node "start" of Crew.NewTimersSpec
      (sio/timersspec.go);
    - the captain's branch of [present] treats every message routed to the
      captain as presented and goes on to what node "do" does - node "start"
      of Crew.NewCaptainSpec (sio/captainspec.go) has one branch, whose
      pattern is a variable.

    Gen/SioSpecs.v holds those branches as the translator
    (harness/cmd/genconsts) read them from the source of the tree under test:
    [sio_timers_start_branches], [sio_captain_start_branches] (pattern and
    target, in source order) and the branching types.  Here the hand-written
    predicates are proved equal to "some extracted pattern matches", with the
    matcher model the engine model uses for a message branch ([Match] of
    Model/Match.v, as in [try_branch] of Model/Step.v: the branch is taken
    when the result is [Ok] of a non-empty list).  An edit of the patterns in
    the source changes Gen/SioSpecs.v and these proofs no longer go through.

    Bindings.  A service machine waits in "start" with the bindings its
    action nodes left: the timers machine with {"timers": ...} and, after a
    failed request, "error" ([onlyTimers], [failed] in sio/timersspec.go), the
    captain with nothing or "error".  The theorems hold for EVERY bindings map
    that binds none of the patterns' variables (?in ?msg ?id; ?op); no other
    hypothesis: the message need not be well formed (an object with a repeated
    key is looked up by first occurrence in [tm_shape] and in the matcher
    model alike, [assoc]), so no [wf_json] is needed.

    What the model abstracts: [tm_shape] says that the timers machine reacts,
    not which branch it takes.  A message can match both patterns
    ([both_timers_branches_can_match]); the source takes the first ("make"). *)
From Coq Require Import List String Bool.
From Sheens Require Import Model.Match Model.SioCrew Gen.SioSpecs Proofs.SndBasics.
Import ListNotations.
Open Scope string_scope.
Open Scope list_scope.

(** a message branch with this pattern is taken (Model/Step.v, [try_branch]:
    [Match p against bs] is [Ok] of at least one candidate; there is no guard) *)
Definition accepts (bs : bindings) (msg p : json) : bool :=
  match Match p msg bs with
  | Ok (_ :: _) => true
  | _ => false
  end.

(** * The matcher model on the shapes that occur *)

(** an unbound, named variable matches anything and binds it *)
Lemma match_unbound_var ord n s f bs :
  is_var s = true -> is_anon s = false -> lookup s bs = None ->
  match_ ord (S n) (JStr s) f bs = Ok [bset s f bs].
Proof.
  intros Hv Ha Hl. cbn [match_]. rewrite Hv, Ha.
  unfold inequal. rewrite Hl. destruct (negb inequalities); reflexivity.
Qed.

(** one step of the matcher on an object pattern (stated so that the fuel of
    the recursive calls stays folded) *)
Lemma match_S_obj ord n kvs fkvs bs :
  match_ ord (S n) (JObj kvs) (JObj fkvs) bs = match_obj ord (match_ ord n) bs kvs fkvs.
Proof. reflexivity. Qed.

(** {"cancelTimer":"?id"} *)
Definition cancel_pattern : json := JObj [("cancelTimer", JStr "?id")].

Lemma match_cancel ord n msg bs :
  lookup "?id" bs = None ->
  match_ ord (S (S n)) cancel_pattern msg bs
  = match msg with
    | JObj kvs =>
        match assoc "cancelTimer" kvs with
        | Some v => Ok [bset "?id" v bs]
        | None => Ok []
        end
    | _ => Ok []
    end.
Proof.
  intros Hid. destruct msg as [| | | | |kvs]; try reflexivity.
  unfold cancel_pattern. rewrite match_S_obj. unfold match_obj.
  change (is_var "cancelTimer") with false. cbn iota.
  cbn [mapcat]. destruct (assoc "cancelTimer" kvs) as [v|]; [|reflexivity].
  cbn [mwb]. rewrite (match_unbound_var ord n "?id" v bs eq_refl eq_refl Hid).
  reflexivity.
Qed.

(** {"makeTimer":{"id":"?id","in":"?in","msg":"?msg"}} *)
Definition make_inner : list (string * json) :=
  [("id", JStr "?id"); ("in", JStr "?in"); ("msg", JStr "?msg")].
Definition make_pattern : json := JObj [("makeTimer", JObj make_inner)].

Lemma match_make_inner ord n t bs :
  lookup "?in" bs = None -> lookup "?msg" bs = None -> lookup "?id" bs = None ->
  match_obj ord (match_ ord (S n)) bs make_inner t
  = match assoc "id" t, assoc "in" t, assoc "msg" t with
    | Some i, Some d, Some m => Ok [bset "?msg" m (bset "?in" d (bset "?id" i bs))]
    | _, _, _ => Ok []
    end.
Proof.
  intros Hin Hmsg Hid. unfold match_obj, make_inner.
  change (has_var_key _) with false. rewrite andb_false_r. cbn iota.
  change (sort_kvs _) with make_inner. unfold make_inner.
  cbn [mapcat].
  destruct (assoc "id" t) as [i|]; [|reflexivity].
  cbn [mwb]. rewrite (match_unbound_var ord n "?id" i bs eq_refl eq_refl Hid).
  cbn [app].
  destruct (assoc "in" t) as [d|]; [|reflexivity].
  cbn [mwb].
  rewrite (match_unbound_var ord n "?in" d (bset "?id" i bs) eq_refl eq_refl)
    by (rewrite lookup_bset; exact Hin).
  cbn [app].
  destruct (assoc "msg" t) as [m|]; [|reflexivity].
  cbn [mwb].
  rewrite (match_unbound_var ord n "?msg" m (bset "?in" d (bset "?id" i bs)) eq_refl eq_refl)
    by (rewrite !lookup_bset; exact Hmsg).
  reflexivity.
Qed.

Lemma match_make ord n msg bs :
  lookup "?in" bs = None -> lookup "?msg" bs = None -> lookup "?id" bs = None ->
  match_ ord (S (S (S n))) make_pattern msg bs
  = match msg with
    | JObj kvs =>
        match assoc "makeTimer" kvs with
        | Some (JObj t) =>
            match assoc "id" t, assoc "in" t, assoc "msg" t with
            | Some i, Some d, Some m => Ok [bset "?msg" m (bset "?in" d (bset "?id" i bs))]
            | _, _, _ => Ok []
            end
        | _ => Ok []
        end
    | _ => Ok []
    end.
Proof.
  intros Hin Hmsg Hid. destruct msg as [| | | | |kvs]; try reflexivity.
  unfold make_pattern. rewrite match_S_obj. unfold match_obj at 1.
  change (is_var "makeTimer") with false. cbn iota.
  cbn [mapcat]. destruct (assoc "makeTimer" kvs) as [fv|]; [|reflexivity].
  cbn [mwb].
  destruct fv as [| | | | |t]; try reflexivity.
  rewrite match_S_obj. rewrite (match_make_inner ord n t bs Hin Hmsg Hid).
  destruct (assoc "id" t), (assoc "in" t), (assoc "msg" t); reflexivity.
Qed.

(** * The timers machine *)

(** what the two branches bind (the variables the action nodes "make" and
    "cancel" read), for every fuel the entry point [Match] could be given
    beyond the patterns' depth *)
Lemma Match_cancel msg bs :
  lookup "?id" bs = None ->
  Match cancel_pattern msg bs
  = match msg with
    | JObj kvs =>
        match assoc "cancelTimer" kvs with
        | Some v => Ok [bset "?id" v bs]
        | None => Ok []
        end
    | _ => Ok []
    end.
Proof. intros H. unfold Match. exact (match_cancel ord_id _ msg bs H). Qed.

Lemma Match_make msg bs :
  lookup "?in" bs = None -> lookup "?msg" bs = None -> lookup "?id" bs = None ->
  Match make_pattern msg bs
  = match msg with
    | JObj kvs =>
        match assoc "makeTimer" kvs with
        | Some (JObj t) =>
            match assoc "id" t, assoc "in" t, assoc "msg" t with
            | Some i, Some d, Some m => Ok [bset "?msg" m (bset "?in" d (bset "?id" i bs))]
            | _, _, _ => Ok []
            end
        | _ => Ok []
        end
    | _ => Ok []
    end.
Proof. intros H1 H2 H3. unfold Match. exact (match_make ord_id _ msg bs H1 H2 H3). Qed.

(** the extracted branches are these two patterns, in this order, with these
    targets (a change of the source's patterns stops here) *)
Lemma timers_branches_are :
  sio_timers_start_branches = [(make_pattern, "make"); (cancel_pattern, "cancel")].
Proof. reflexivity. Qed.

(** (T1) [tm_shape] is "some branch of node start is taken" *)
Theorem tm_shape_is_start_branches : forall bs msg,
  lookup "?in" bs = None -> lookup "?msg" bs = None -> lookup "?id" bs = None ->
  tm_shape msg = existsb (fun pt => accepts bs msg (fst pt)) sio_timers_start_branches.
Proof.
  intros bs msg Hin Hmsg Hid. rewrite timers_branches_are.
  cbn [existsb fst]. rewrite orb_false_r. unfold accepts.
  rewrite (Match_make msg bs Hin Hmsg Hid), (Match_cancel msg bs Hid).
  destruct msg as [| | | | |kvs]; try reflexivity.
  unfold tm_shape. f_equal.
  - destruct (assoc "makeTimer" kvs) as [[| | | | |t]|]; try reflexivity.
    destruct (assoc "id" t), (assoc "in" t), (assoc "msg" t); reflexivity.
  - destruct (assoc "cancelTimer" kvs); reflexivity.
Qed.

(** no branch of the timers machine's start node can fail to be matched
    (an error or exhausted fuel of the matcher model would make the engine
    model leave for the error node instead of trying the next branch):
    [accepts] = false means "does not match" *)
Theorem timers_start_never_errs : forall bs msg,
  lookup "?in" bs = None -> lookup "?msg" bs = None -> lookup "?id" bs = None ->
  forall pt, In pt sio_timers_start_branches -> exists r, Match (fst pt) msg bs = Ok r.
Proof.
  intros bs msg Hin Hmsg Hid pt. rewrite timers_branches_are.
  intros [<-|[<-|[]]]; cbn [fst].
  - rewrite (Match_make msg bs Hin Hmsg Hid).
    destruct msg as [| | | | |kvs]; try (eexists; reflexivity).
    destruct (assoc "makeTimer" kvs) as [[| | | | |t]|]; try (eexists; reflexivity).
    destruct (assoc "id" t), (assoc "in" t), (assoc "msg" t); eexists; reflexivity.
  - rewrite (Match_cancel msg bs Hid).
    destruct msg as [| | | | |kvs]; try (eexists; reflexivity).
    destruct (assoc "cancelTimer" kvs); eexists; reflexivity.
Qed.

(** * The captain *)

(** (T2) every branch of the captain's start node - there is one - takes
    every message, binds it to ?op and leads to "do" *)
Theorem captain_start_accepts_all :
  sio_captain_start_branches <> []
  /\ (forall pt, In pt sio_captain_start_branches -> snd pt = "do")
  /\ forall msg bs, lookup "?op" bs = None ->
     forall p, In p (map fst sio_captain_start_branches) ->
     exists r, Match p msg bs = Ok r /\ r <> [].
Proof.
  split; [discriminate|]. split.
  - intros pt [<-|[]]. reflexivity.
  - intros msg bs Hop p [<-|[]]. exists [bset "?op" msg bs]. split; [|discriminate].
    unfold Match. exact (match_unbound_var ord_id _ "?op" msg bs eq_refl eq_refl Hop).
Qed.

(** both start nodes wait for a message (branching type "message": the
    model presents a routed message to them and nothing else) *)
Theorem service_start_nodes_take_messages :
  sio_timers_start_type = "message" /\ sio_captain_start_type = "message".
Proof. split; reflexivity. Qed.

(** * Examples *)

Definition ex_bs : bindings := [("timers", JObj [])].
Definition ex_make : json :=
  JObj [("makeTimer", JObj [("id", JStr "t1"); ("in", JStr "1s"); ("msg", JObj [("to", JStr "a")])])].
Definition ex_cancel : json := JObj [("cancelTimer", JStr "t1")].
Definition ex_make_no_id : json :=
  JObj [("makeTimer", JObj [("in", JStr "1s"); ("msg", JNum 4)])].
Definition ex_both : json :=
  JObj [("cancelTimer", JStr "t0");
        ("makeTimer", JObj [("id", JStr "t1"); ("in", JStr "1s"); ("msg", JNull)])].

Definition taken (bs : bindings) (msg : json) (brs : list (json * string)) : list string :=
  map snd (filter (fun pt => accepts bs msg (fst pt)) brs).

Example timers_examples :
  taken ex_bs ex_make sio_timers_start_branches = ["make"] /\ tm_shape ex_make = true
  /\ taken ex_bs ex_cancel sio_timers_start_branches = ["cancel"] /\ tm_shape ex_cancel = true
  /\ taken ex_bs ex_make_no_id sio_timers_start_branches = [] /\ tm_shape ex_make_no_id = false
  /\ taken ex_bs (JStr "makeTimer") sio_timers_start_branches = [] /\ tm_shape (JStr "makeTimer") = false
  /\ taken ex_bs (JArr [ex_cancel]) sio_timers_start_branches = [] /\ tm_shape (JArr [ex_cancel]) = false.
Proof. vm_compute. repeat split. Qed.

(** (T3) one message can match both patterns; the source tries the branches
    in order, so it goes to "make"; [tm_shape] only says that the timers
    machine reacts *)
Example both_timers_branches_can_match :
  taken ex_bs ex_both sio_timers_start_branches = ["make"; "cancel"] /\ tm_shape ex_both = true.
Proof. vm_compute. split; reflexivity. Qed.

(** the hypothesis on the bindings is needed: a timers machine that had kept
    ?id = "t0" would only react to requests that repeat it (what [failed] in
    the source says about dropping the request's bindings) *)
Example bound_id_refutes_the_equation :
  let bs := [("?id", JStr "t0")] in
  tm_shape ex_cancel = true
  /\ existsb (fun pt => accepts bs ex_cancel (fst pt)) sio_timers_start_branches = false.
Proof. vm_compute. split; reflexivity. Qed.

Example captain_examples :
  taken [] (JStr "x") sio_captain_start_branches = ["do"]
  /\ taken [("error", JStr "no op")] ex_cancel sio_captain_start_branches = ["do"]
  /\ Match (JStr "?op") JNull [] = Ok [[("?op", JNull)]].
Proof. vm_compute. repeat split. Qed.
