(** Proofs about the text level of tools.Dot / tools.Mermaid
    (Model/ToolsText.v): the identifier written for a node name can be read
    back (so distinct names give distinct identifiers) and a name never ends
    the quoted string it is written in; the HTML-like [label=<...>] of a
    Graphviz node statement holds the name escaped by dotHTML, which stays
    inside the brackets and reads back ([dot_label_stays_inside_holds]).
    Before the repair D55 the label held the raw name, which could break out
    ([dot_label_raw_breaks_out]). *)
From Coq Require Import String Ascii List Bool Arith Lia DecimalString DecimalNat.
From Sheens Require Import Model.ToolsText.
Import ListNotations.
Local Open Scope string_scope.

(** * generalities *)
Lemma app_assoc_s : forall a b c : string, (a ++ b) ++ c = a ++ (b ++ c).
Proof. induction a as [|x a IH]; intros; cbn [append]; [reflexivity | now rewrite IH]. Qed.

Lemma app_nil_r_s : forall a : string, a ++ "" = a.
Proof. induction a as [|x a IH]; cbn [append]; [reflexivity | now rewrite IH]. Qed.

Fixpoint has_char (c : ascii) (s : string) : bool :=
  match s with
  | EmptyString => false
  | String d r => Ascii.eqb d c || has_char c r
  end.

Lemma has_char_app : forall c a b, has_char c (a ++ b) = has_char c a || has_char c b.
Proof.
  induction a as [|x a IH]; intros; cbn [append has_char]; [reflexivity|].
  now rewrite IH, orb_assoc.
Qed.

(** * the equations of the two escaping functions *)
Lemma dot_escape_nil : dot_escape "" = "".
Proof. reflexivity. Qed.

Lemma dot_escape_cons : forall c r,
  dot_escape (String c r) =
  if Ascii.eqb c bslash then String bslash (String bslash (dot_escape r))
  else if Ascii.eqb c dquote then String bslash (String dquote (dot_escape r))
  else String c (dot_escape r).
Proof.
  (* computes on the table read from the source (Gen/Names.v) *)
  intros. unfold dot_escape. cbn [byte_replace dot_pairs dot_id_escapes lookup_byte].
  unfold bslash, dquote.
  destruct (Ascii.eqb c "092"%char); [reflexivity|].
  destruct (Ascii.eqb c "034"%char); reflexivity.
Qed.

Lemma mermaid_text_nil : mermaid_text "" = "".
Proof. reflexivity. Qed.

Lemma mermaid_text_cons : forall c r,
  mermaid_text (String c r) =
  if Ascii.eqb c hash then "#35;" ++ mermaid_text r
  else if Ascii.eqb c dquote then "#quot;" ++ mermaid_text r
  else String c (mermaid_text r).
Proof.
  (* computes on the table read from the source (Gen/Names.v) *)
  intros. unfold mermaid_text. cbn [byte_replace mermaid_pairs mermaid_text_escapes lookup_byte].
  unfold hash, dquote.
  destruct (Ascii.eqb c "035"%char); [reflexivity|].
  destruct (Ascii.eqb c "034"%char); reflexivity.
Qed.

(** both work byte by byte *)
Lemma byte_replace_app : forall p a b, byte_replace p (a ++ b) = byte_replace p a ++ byte_replace p b.
Proof.
  induction a as [|x a IH]; intros; cbn [append byte_replace]; [reflexivity|].
  rewrite IH. destruct (lookup_byte p x); [now rewrite app_assoc_s | reflexivity].
Qed.

(** * Graphviz identifiers *)

(** Reading a quoted identifier at the beginning of a text: the opening
    quote, then characters up to the first quote that is not escaped; inside,
    backslash-backslash stands for a backslash and backslash-quote for a
    quote (no other escape is accepted).  The result is the name and the
    text behind the closing quote. *)
Fixpoint dot_scan_body (s : string) : option (string * string) :=
  match s with
  | EmptyString => None
  | String c r =>
      if Ascii.eqb c dquote then Some (EmptyString, r)
      else if Ascii.eqb c bslash then
        match r with
        | String d r' =>
            if Ascii.eqb d bslash || Ascii.eqb d dquote then
              match dot_scan_body r' with
              | Some (v, rest) => Some (String d v, rest)
              | None => None
              end
            else None
        | EmptyString => None
        end
      else
        match dot_scan_body r with
        | Some (v, rest) => Some (String c v, rest)
        | None => None
        end
  end.

Definition dot_scan (s : string) : option (string * string) :=
  match s with
  | String c r => if Ascii.eqb c dquote then dot_scan_body r else None
  | EmptyString => None
  end.

(** the whole text is one quoted identifier *)
Definition dot_unquote (s : string) : option string :=
  match dot_scan s with
  | Some (v, EmptyString) => Some v
  | _ => None
  end.

Lemma dot_scan_body_escape : forall s rest,
  dot_scan_body (dot_escape s ++ String dquote rest) = Some (s, rest).
Proof.
  induction s as [|c s IH]; intros rest.
  - rewrite dot_escape_nil. cbn [append dot_scan_body].
    replace (Ascii.eqb dquote dquote) with true by reflexivity. reflexivity.
  - rewrite dot_escape_cons.
    destruct (Ascii.eqb c bslash) eqn:Hb.
    + apply Ascii.eqb_eq in Hb. subst c.
      cbn [append dot_scan_body].
      replace (Ascii.eqb bslash dquote) with false by reflexivity.
      replace (Ascii.eqb bslash bslash) with true by reflexivity.
      cbn [orb]. now rewrite IH.
    + destruct (Ascii.eqb c dquote) eqn:Hq.
      * apply Ascii.eqb_eq in Hq. subst c.
        cbn [append dot_scan_body].
        replace (Ascii.eqb bslash dquote) with false by reflexivity.
        replace (Ascii.eqb bslash bslash) with true by reflexivity.
        replace (Ascii.eqb dquote dquote) with true by reflexivity.
        replace (Ascii.eqb dquote bslash) with false by reflexivity.
        cbn [orb]. now rewrite IH.
      * cbn [append dot_scan_body]. rewrite Hq, Hb. now rewrite IH.
Qed.

(** whatever follows the identifier, the reader stops exactly behind the
    closing quote that [dot_id] wrote, and has the name *)
Theorem dot_scan_id : forall name rest, dot_scan (dot_id name ++ rest) = Some (name, rest).
Proof.
  intros. unfold dot_id. cbn [append dot_scan].
  replace (Ascii.eqb dquote dquote) with true by reflexivity.
  rewrite app_assoc_s. cbn [append]. apply dot_scan_body_escape.
Qed.

Theorem dot_unquote_id : forall name, dot_unquote (dot_id name) = Some name.
Proof.
  intros. unfold dot_unquote.
  rewrite <- (app_nil_r_s (dot_id name)), dot_scan_id. reflexivity.
Qed.

Theorem dot_id_injective : forall a b, dot_id a = dot_id b -> a = b.
Proof.
  intros a b H. pose proof (dot_unquote_id a) as Ha. rewrite H, dot_unquote_id in Ha.
  now injection Ha.
Qed.

(** an edge statement head can be read back: both names, and the text
    behind the second identifier *)
Definition strip_prefix_s := fix strip (p s : string) {struct p} : option string :=
  match p with
  | EmptyString => Some s
  | String c p' =>
      match s with
      | String d s' => if Ascii.eqb c d then strip p' s' else None
      | EmptyString => None
      end
  end.

Lemma strip_prefix_app : forall p s, strip_prefix_s p (p ++ s) = Some s.
Proof.
  induction p as [|c p IH]; intros; cbn [append strip_prefix_s]; [reflexivity|].
  now rewrite Ascii.eqb_refl.
Qed.

Definition dot_read_edge (s : string) : option (string * string * string) :=
  match dot_scan s with
  | Some (a, r1) =>
      match strip_prefix_s " -> " r1 with
      | Some r2 =>
          match dot_scan r2 with
          | Some (b, r3) => Some (a, b, r3)
          | None => None
          end
      | None => None
      end
  | None => None
  end.

Theorem dot_read_edge_ids : forall a b rest,
  dot_read_edge (dot_id a ++ " -> " ++ dot_id b ++ rest) = Some (a, b, rest).
Proof.
  intros. unfold dot_read_edge. rewrite dot_scan_id, strip_prefix_app, dot_scan_id. reflexivity.
Qed.

Lemma app_inv_head_s : forall p a b : string, p ++ a = p ++ b -> a = b.
Proof.
  induction p as [|c p IH]; intros a b H; cbn [append] in H; [exact H|].
  injection H as H. now apply IH.
Qed.

Theorem dot_edge_head_injective : forall a b a' b',
  dot_edge_head a b = dot_edge_head a' b' -> a = a' /\ b = b'.
Proof.
  intros a b a' b' H. unfold dot_edge_head in H.
  apply app_inv_head_s in H.
  assert (E : dot_read_edge (dot_id a ++ " -> " ++ dot_id b ++ " [")
            = dot_read_edge (dot_id a' ++ " -> " ++ dot_id b' ++ " [")) by now rewrite H.
  rewrite !dot_read_edge_ids in E. now injection E.
Qed.

(** ** the identifier is one well-formed quoted string

    [dot_quoted_ok t]: [t] begins with a quote, ends with a quote, and
    between them every quote stands behind an odd number of consecutive
    backslashes (it is escaped), while the last quote stands behind an even
    number (it is not).  [odd] is the parity of the run of backslashes just
    read. *)
Fixpoint dot_body_ok (odd : bool) (s : string) : bool :=
  match s with
  | EmptyString => false                                   (* no closing quote *)
  | String c r =>
      if Ascii.eqb c dquote then
        if odd then dot_body_ok false r                    (* escaped: goes on *)
        else match r with EmptyString => true | _ => false end   (* closes: must be the end *)
      else if Ascii.eqb c bslash then dot_body_ok (negb odd) r
      else dot_body_ok false r
  end.

Definition dot_quoted_ok (s : string) : bool :=
  match s with
  | String c r => Ascii.eqb c dquote && dot_body_ok false r
  | EmptyString => false
  end.

Lemma dot_body_ok_escape : forall s, dot_body_ok false (dot_escape s ++ String dquote "") = true.
Proof.
  induction s as [|c s IH].
  - reflexivity.
  - rewrite dot_escape_cons.
    destruct (Ascii.eqb c bslash) eqn:Hb.
    + cbn [append dot_body_ok].
      replace (Ascii.eqb bslash dquote) with false by reflexivity.
      replace (Ascii.eqb bslash bslash) with true by reflexivity.
      cbn [negb]. exact IH.
    + destruct (Ascii.eqb c dquote) eqn:Hq.
      * cbn [append dot_body_ok].
        replace (Ascii.eqb bslash dquote) with false by reflexivity.
        replace (Ascii.eqb bslash bslash) with true by reflexivity.
        replace (Ascii.eqb dquote dquote) with true by reflexivity.
        cbn [negb]. exact IH.
      * cbn [append dot_body_ok]. rewrite Hq, Hb. exact IH.
Qed.

Theorem dot_id_quoted_ok : forall name, dot_quoted_ok (dot_id name) = true.
Proof.
  intros. unfold dot_id, dot_quoted_ok.
  replace (Ascii.eqb dquote dquote) with true by reflexivity.
  cbn [andb]. apply dot_body_ok_escape.
Qed.

(** what the recogniser accepts is read by the reader up to its very end: a
    text that passes [dot_quoted_ok] and decodes is one identifier *)
Theorem dot_id_one_token : forall name,
  dot_quoted_ok (dot_id name) = true /\ dot_scan (dot_id name) = Some (name, "").
Proof.
  intros. split; [apply dot_id_quoted_ok|].
  rewrite <- (app_nil_r_s (dot_id name)) at 1. apply dot_scan_id.
Qed.

(** ** the same with the reading rules of Graphviz itself

    lib/cgraph/scan.l, state qstring (transcribed by hand; Graphviz is not
    part of the build, so this reading is documentation that is proved
    about, not something the correspondence run exercises): a quote ends the
    string; backslash-quote gives a quote; backslash-backslash is kept as the
    two backslashes it is; backslash-newline is dropped; anything else,
    a lone backslash included, is kept.  Under these rules the identifier
    that Graphviz sees for a name is the name with every backslash doubled
    ([gv_name]) - still a different one for every name. *)
Definition newline : ascii := "010"%char.

Fixpoint gv_scan_body (s : string) : option (string * string) :=
  match s with
  | EmptyString => None
  | String c r =>
      if Ascii.eqb c dquote then Some (EmptyString, r)
      else if Ascii.eqb c bslash then
        match r with
        | String d r' =>
            if Ascii.eqb d dquote then
              match gv_scan_body r' with Some (v, rest) => Some (String dquote v, rest) | None => None end
            else if Ascii.eqb d bslash then
              match gv_scan_body r' with
              | Some (v, rest) => Some (String bslash (String bslash v), rest)
              | None => None
              end
            else if Ascii.eqb d newline then gv_scan_body r'
            else
              match gv_scan_body r with Some (v, rest) => Some (String bslash v, rest) | None => None end
        | EmptyString => None
        end
      else
        match gv_scan_body r with Some (v, rest) => Some (String c v, rest) | None => None end
  end.

Definition gv_scan (s : string) : option (string * string) :=
  match s with
  | String c r => if Ascii.eqb c dquote then gv_scan_body r else None
  | EmptyString => None
  end.

Definition gv_name (name : string) : string :=
  byte_replace [(bslash, String bslash (String bslash EmptyString))] name.

Lemma gv_name_cons : forall c r,
  gv_name (String c r) =
  if Ascii.eqb c bslash then String bslash (String bslash (gv_name r)) else String c (gv_name r).
Proof.
  intros. unfold gv_name. cbn [byte_replace lookup_byte].
  destruct (Ascii.eqb c bslash); reflexivity.
Qed.

Lemma gv_scan_body_escape : forall s rest,
  gv_scan_body (dot_escape s ++ String dquote rest) = Some (gv_name s, rest).
Proof.
  induction s as [|c s IH]; intros rest.
  - cbn [append dot_scan_body]. reflexivity.
  - rewrite dot_escape_cons, gv_name_cons.
    destruct (Ascii.eqb c bslash) eqn:Hb.
    + cbn [append gv_scan_body].
      replace (Ascii.eqb bslash dquote) with false by reflexivity.
      replace (Ascii.eqb bslash bslash) with true by reflexivity.
      now rewrite IH.
    + destruct (Ascii.eqb c dquote) eqn:Hq.
      * apply Ascii.eqb_eq in Hq. subst c.
        cbn [append gv_scan_body].
        replace (Ascii.eqb bslash dquote) with false by reflexivity.
        replace (Ascii.eqb bslash bslash) with true by reflexivity.
        replace (Ascii.eqb dquote dquote) with true by reflexivity.
        now rewrite IH.
      * cbn [append gv_scan_body]. rewrite Hq, Hb. now rewrite IH.
Qed.

Theorem gv_scan_id : forall name rest, gv_scan (dot_id name ++ rest) = Some (gv_name name, rest).
Proof.
  intros. unfold dot_id. cbn [append gv_scan].
  replace (Ascii.eqb dquote dquote) with true by reflexivity.
  rewrite app_assoc_s. cbn [append]. apply gv_scan_body_escape.
Qed.

Fixpoint gv_unname (s : string) : option string :=
  match s with
  | EmptyString => Some EmptyString
  | String c r =>
      if Ascii.eqb c bslash then
        match r with
        | String d r' =>
            if Ascii.eqb d bslash then option_map (String bslash) (gv_unname r') else None
        | EmptyString => None
        end
      else option_map (String c) (gv_unname r)
  end.

Lemma gv_unname_name : forall s, gv_unname (gv_name s) = Some s.
Proof.
  induction s as [|c s IH]; [reflexivity|].
  rewrite gv_name_cons. destruct (Ascii.eqb c bslash) eqn:Hb.
  - apply Ascii.eqb_eq in Hb. subst c. cbn [gv_unname].
    replace (Ascii.eqb bslash bslash) with true by reflexivity. now rewrite IH.
  - cbn [gv_unname]. rewrite Hb. now rewrite IH.
Qed.

Theorem gv_name_injective : forall a b, gv_name a = gv_name b -> a = b.
Proof.
  intros a b H. pose proof (gv_unname_name a) as Ha. rewrite H, gv_unname_name in Ha.
  now injection Ha.
Qed.

(** * Mermaid label text *)

(** Reading the text back: a quote cannot occur; a hash must begin one of
    the two entity codes that are written.  [skip] counts the characters of
    an entity code that was already recognised. *)
Fixpoint starts_with (p s : string) {struct p} : bool :=
  match p with
  | EmptyString => true
  | String c p' =>
      match s with
      | String d s' => Ascii.eqb c d && starts_with p' s'
      | EmptyString => false
      end
  end.

Fixpoint mermaid_untext_aux (skip : nat) (s : string) : option string :=
  match s with
  | EmptyString => match skip with O => Some EmptyString | S _ => None end
  | String c r =>
      match skip with
      | S k => mermaid_untext_aux k r
      | O =>
          if Ascii.eqb c dquote then None
          else if Ascii.eqb c hash then
            if starts_with "35;" r then option_map (String hash) (mermaid_untext_aux 3 r)
            else if starts_with "quot;" r then option_map (String dquote) (mermaid_untext_aux 5 r)
            else None
          else option_map (String c) (mermaid_untext_aux 0 r)
      end
  end.

Definition mermaid_untext (s : string) : option string := mermaid_untext_aux 0 s.

Theorem mermaid_untext_text : forall s, mermaid_untext (mermaid_text s) = Some s.
Proof.
  unfold mermaid_untext.
  induction s as [|c s IH]; [reflexivity|].
  rewrite mermaid_text_cons.
  destruct (Ascii.eqb c hash) eqn:Hh.
  - apply Ascii.eqb_eq in Hh. subst c.
    change ("#35;" ++ mermaid_text s)
      with (String hash (String "3"%char (String "5"%char (String ";"%char (mermaid_text s))))).
    cbn [mermaid_untext_aux].
    replace (Ascii.eqb hash dquote) with false by reflexivity.
    replace (Ascii.eqb hash hash) with true by reflexivity.
    replace (starts_with "35;" (String "3"%char (String "5"%char (String ";"%char (mermaid_text s))))) with true
      by reflexivity.
    now rewrite IH.
  - destruct (Ascii.eqb c dquote) eqn:Hq.
    + apply Ascii.eqb_eq in Hq. subst c.
      change ("#quot;" ++ mermaid_text s)
        with (String hash (String "q"%char (String "u"%char (String "o"%char (String "t"%char (String ";"%char (mermaid_text s))))))).
      cbn [mermaid_untext_aux].
      replace (Ascii.eqb hash dquote) with false by reflexivity.
      replace (Ascii.eqb hash hash) with true by reflexivity.
      replace (starts_with "35;" (String "q"%char (String "u"%char (String "o"%char (String "t"%char (String ";"%char (mermaid_text s)))))))
        with false by reflexivity.
      replace (starts_with "quot;" (String "q"%char (String "u"%char (String "o"%char (String "t"%char (String ";"%char (mermaid_text s)))))))
        with true by reflexivity.
      now rewrite IH.
    + cbn [mermaid_untext_aux]. rewrite Hq, Hh. now rewrite IH.
Qed.

Theorem mermaid_text_injective : forall a b, mermaid_text a = mermaid_text b -> a = b.
Proof.
  intros a b H. pose proof (mermaid_untext_text a) as Ha. rewrite H, mermaid_untext_text in Ha.
  now injection Ha.
Qed.

(** no quote at all in the text: the label, which stands between two
    quotes, cannot be closed by the name *)
Theorem mermaid_text_no_quote : forall s, has_char dquote (mermaid_text s) = false.
Proof.
  induction s as [|c s IH]; [reflexivity|].
  rewrite mermaid_text_cons.
  destruct (Ascii.eqb c hash) eqn:Hh.
  - rewrite has_char_app, IH. reflexivity.
  - destruct (Ascii.eqb c dquote) eqn:Hq.
    + rewrite has_char_app, IH. reflexivity.
    + cbn [has_char]. now rewrite Hq, IH.
Qed.

(** [mermaid_quoted_ok t]: a quote, no quote up to the last character, which
    is a quote *)
Fixpoint mermaid_body_ok (s : string) : bool :=
  match s with
  | EmptyString => false
  | String c r =>
      if Ascii.eqb c dquote then match r with EmptyString => true | _ => false end
      else mermaid_body_ok r
  end.

Definition mermaid_quoted_ok (s : string) : bool :=
  match s with
  | String c r => Ascii.eqb c dquote && mermaid_body_ok r
  | EmptyString => false
  end.

Lemma mermaid_body_ok_no_quote : forall t,
  has_char dquote t = false -> mermaid_body_ok (t ++ String dquote "") = true.
Proof.
  induction t as [|c t IH]; intros H.
  - reflexivity.
  - cbn [has_char] in H. apply orb_false_iff in H as [Hc Ht].
    cbn [append mermaid_body_ok]. rewrite Hc. now apply IH.
Qed.

Theorem mermaid_label_quoted_ok : forall name, mermaid_quoted_ok (mermaid_label name) = true.
Proof.
  intros. unfold mermaid_label, mermaid_quoted_ok.
  replace (Ascii.eqb dquote dquote) with true by reflexivity. cbn [andb].
  apply mermaid_body_ok_no_quote, mermaid_text_no_quote.
Qed.

(** every hash in the text begins an entity code that [mermaid_text] wrote *)
Theorem mermaid_text_entities_ok : forall s, exists v, mermaid_untext (mermaid_text s) = Some v.
Proof. intros. eexists. apply mermaid_untext_text. Qed.

(** reading a label at the beginning of a text: up to the first quote *)
Fixpoint mermaid_scan_body (s : string) : option (string * string) :=
  match s with
  | EmptyString => None
  | String c r =>
      if Ascii.eqb c dquote then Some (EmptyString, r)
      else match mermaid_scan_body r with Some (v, rest) => Some (String c v, rest) | None => None end
  end.

Definition mermaid_scan (s : string) : option (string * string) :=
  match s with
  | String c r =>
      if Ascii.eqb c dquote then
        match mermaid_scan_body r with
        | Some (t, rest) =>
            match mermaid_untext t with Some v => Some (v, rest) | None => None end
        | None => None
        end
      else None
  | EmptyString => None
  end.

Lemma mermaid_scan_body_no_quote : forall t rest,
  has_char dquote t = false -> mermaid_scan_body (t ++ String dquote rest) = Some (t, rest).
Proof.
  induction t as [|c t IH]; intros rest H.
  - reflexivity.
  - cbn [has_char] in H. apply orb_false_iff in H as [Hc Ht].
    cbn [append mermaid_scan_body]. rewrite Hc. now rewrite IH.
Qed.

Theorem mermaid_scan_label : forall name rest,
  mermaid_scan (mermaid_label name ++ rest) = Some (name, rest).
Proof.
  intros. unfold mermaid_label. cbn [append mermaid_scan].
  replace (Ascii.eqb dquote dquote) with true by reflexivity.
  rewrite app_assoc_s. cbn [append].
  rewrite mermaid_scan_body_no_quote by apply mermaid_text_no_quote.
  now rewrite mermaid_untext_text.
Qed.

(** * Mermaid node ids *)
Definition mermaid_unnid (s : string) : option nat :=
  match s with
  | String c r =>
      if Ascii.eqb c "n"%char then
        match NilEmpty.uint_of_string r with
        | Some d => Some (Nat.of_uint d)
        | None => None
        end
      else None
  | EmptyString => None
  end.

Theorem mermaid_unnid_nid : forall num, mermaid_unnid (mermaid_nid num) = Some num.
Proof.
  intros. unfold mermaid_nid, mermaid_unnid.
  replace (Ascii.eqb "n" "n") with true by reflexivity.
  rewrite NilEmpty.usu. now rewrite DecimalNat.Unsigned.of_to.
Qed.

Theorem mermaid_nid_injective : forall a b, mermaid_nid a = mermaid_nid b -> a = b.
Proof.
  intros a b H. pose proof (mermaid_unnid_nid a) as Ha. rewrite H, mermaid_unnid_nid in Ha.
  now injection Ha.
Qed.

(** an id is the letter n and digits: never a quote, a bracket or a blank *)
Definition is_digit (c : ascii) : bool :=
  let n := nat_of_ascii c in Nat.leb 48 n && Nat.leb n 57.

Fixpoint all_chars (p : ascii -> bool) (s : string) : bool :=
  match s with
  | EmptyString => true
  | String c r => p c && all_chars p r
  end.

Lemma string_of_uint_digits : forall d, all_chars is_digit (NilEmpty.string_of_uint d) = true.
Proof. induction d; cbn [NilEmpty.string_of_uint all_chars]; try rewrite IHd; reflexivity. Qed.

Lemma to_uint_not_nil : forall n, Nat.to_uint n <> Decimal.Nil.
Proof.
  intros n H. assert (E : Nat.of_uint (Nat.to_uint n) = n) by apply DecimalNat.Unsigned.of_to.
  pose proof (DecimalNat.Unsigned.to_of (Nat.to_uint n)) as T.
  rewrite E, H in T. cbn in T. discriminate T.
Qed.

Theorem mermaid_nid_shape : forall num,
  exists ds, mermaid_nid num = String "n"%char ds /\ ds <> "" /\ all_chars is_digit ds = true.
Proof.
  intros. exists (NilEmpty.string_of_uint (Nat.to_uint num)). split; [reflexivity|]. split.
  - pose proof (to_uint_not_nil num) as N. destruct (Nat.to_uint num); try congruence;
      cbn [NilEmpty.string_of_uint]; discriminate.
  - apply string_of_uint_digits.
Qed.

Theorem mermaid_label_injective : forall a b, mermaid_label a = mermaid_label b -> a = b.
Proof.
  intros a b H.
  assert (E : mermaid_scan (mermaid_label a ++ "") = mermaid_scan (mermaid_label b ++ "")) by now rewrite H.
  rewrite !mermaid_scan_label in E. now injection E.
Qed.

(** * the Graphviz label: the name inside label=<...>

    lib/cgraph/scan.l, state hstring: the text between angle brackets is read
    counting nesting: an opening bracket adds one level, a closing bracket
    removes one, and the bracket that removes the last level ends the
    string.  [html_scan depth s] is the text behind that bracket. *)
Fixpoint html_scan (depth : nat) (s : string) : option string :=
  match s with
  | EmptyString => None
  | String c r =>
      if Ascii.eqb c langle then html_scan (S depth) r
      else if Ascii.eqb c rangle then
        match depth with
        | O => None
        | S O => Some r
        | S d => html_scan d r
        end
      else html_scan depth r
  end.

Lemma dot_html_nil : dot_html "" = "".
Proof. reflexivity. Qed.

Lemma dot_html_cons : forall c r,
  dot_html (String c r) =
  if Ascii.eqb c amp then "&amp;" ++ dot_html r
  else if Ascii.eqb c langle then "&lt;" ++ dot_html r
  else if Ascii.eqb c rangle then "&gt;" ++ dot_html r
  else String c (dot_html r).
Proof.
  (* computes on the table read from the source (Gen/Names.v) *)
  intros. unfold dot_html. cbn [byte_replace html_pairs dot_html_escapes lookup_byte].
  unfold amp, langle, rangle.
  destruct (Ascii.eqb c "038"%char); [reflexivity|].
  destruct (Ascii.eqb c "060"%char); [reflexivity|].
  destruct (Ascii.eqb c "062"%char); reflexivity.
Qed.

(** the escaped text holds no angle bracket at all *)
Theorem dot_html_no_angle : forall s,
  has_char langle (dot_html s) = false /\ has_char rangle (dot_html s) = false.
Proof.
  induction s as [|c s [IHl IHr]]; [split; reflexivity|].
  rewrite dot_html_cons.
  destruct (Ascii.eqb c amp) eqn:Ha; [rewrite !has_char_app, IHl, IHr; split; reflexivity|].
  destruct (Ascii.eqb c langle) eqn:Hl; [rewrite !has_char_app, IHl, IHr; split; reflexivity|].
  destruct (Ascii.eqb c rangle) eqn:Hr; [rewrite !has_char_app, IHl, IHr; split; reflexivity|].
  cbn [has_char]. now rewrite Hl, Hr, IHl, IHr.
Qed.

(** a text without angle brackets is passed over at any depth *)
Lemma html_scan_plain_app : forall t u d,
  has_char langle t = false -> has_char rangle t = false ->
  html_scan d (t ++ u) = html_scan d u.
Proof.
  induction t as [|c t IH]; intros u d Hl Hr; [reflexivity|].
  cbn [has_char] in Hl, Hr.
  apply orb_false_iff in Hl as [Hl1 Hl2]. apply orb_false_iff in Hr as [Hr1 Hr2].
  cbn [append html_scan]. rewrite Hl1, Hr1. now apply IH.
Qed.

Theorem html_plain_stays_inside : forall t rest d,
  has_char langle t = false -> has_char rangle t = false ->
  html_scan (S d) (t ++ String rangle rest) =
  match d with O => Some rest | S d' => html_scan (S d') rest end.
Proof.
  intros t rest d Hl Hr. rewrite html_scan_plain_app by assumption.
  cbn [html_scan].
  replace (Ascii.eqb rangle langle) with false by reflexivity.
  replace (Ascii.eqb rangle rangle) with true by reflexivity.
  destruct d; reflexivity.
Qed.

(** "the name stays inside its label": after [label=<] the reader, going over
    the escaped name and the closing bracket that Dot writes, stops exactly
    there - for every name and whatever follows *)
Definition dot_label_stays_inside : Prop :=
  forall name rest, html_scan 1 (dot_label_name name ++ String rangle rest) = Some rest.

Theorem dot_label_stays_inside_holds : dot_label_stays_inside.
Proof.
  intros name rest. unfold dot_label_name.
  destruct (dot_html_no_angle name) as [Hl Hr].
  now rewrite html_plain_stays_inside.
Qed.

(** the whole label of a node with a doc string: the fixed markup is
    balanced and the two escaped texts hold no bracket *)
Theorem dot_node_label_stays_inside : forall name doc rest,
  html_scan 1 (dot_node_label name doc ++ String rangle rest) = Some rest.
Proof.
  intros name doc rest. unfold dot_node_label, dot_label_name.
  destruct (dot_html_no_angle name) as [Hl Hr].
  rewrite app_assoc_s, html_scan_plain_app by assumption.
  destruct doc as [|c doc'].
  - cbn [append html_scan].
    replace (Ascii.eqb rangle langle) with false by reflexivity.
    replace (Ascii.eqb rangle rangle) with true by reflexivity. reflexivity.
  - destruct (dot_html_no_angle (String c doc')) as [Dl Dr].
    set (D := dot_html (String c doc')) in *.
    rewrite !app_assoc_s.
    change (html_scan 1 ("<BR/><FONT POINT-SIZE='8'>" ++ D ++ "</FONT>" ++ String rangle rest))
      with (html_scan 1 (D ++ "</FONT>" ++ String rangle rest)).
    rewrite html_scan_plain_app by assumption.
    reflexivity.
Qed.

(** reading the escaped text back: no bracket can occur, an ampersand must
    begin one of the three entities that are written *)
Fixpoint html_unescape_aux (skip : nat) (s : string) : option string :=
  match s with
  | EmptyString => match skip with O => Some EmptyString | S _ => None end
  | String c r =>
      match skip with
      | S k => html_unescape_aux k r
      | O =>
          if Ascii.eqb c langle || Ascii.eqb c rangle then None
          else if Ascii.eqb c amp then
            if starts_with "amp;" r then option_map (String amp) (html_unescape_aux 4 r)
            else if starts_with "lt;" r then option_map (String langle) (html_unescape_aux 3 r)
            else if starts_with "gt;" r then option_map (String rangle) (html_unescape_aux 3 r)
            else None
          else option_map (String c) (html_unescape_aux 0 r)
      end
  end.

Definition html_unescape (s : string) : option string := html_unescape_aux 0 s.

Theorem html_unescape_html : forall s, html_unescape (dot_html s) = Some s.
Proof.
  unfold html_unescape.
  induction s as [|c s IH]; [reflexivity|].
  rewrite dot_html_cons.
  destruct (Ascii.eqb c amp) eqn:Ha.
  - apply Ascii.eqb_eq in Ha. subst c.
    change ("&amp;" ++ dot_html s)
      with (String amp (String "a"%char (String "m"%char (String "p"%char (String ";"%char (dot_html s)))))).
    cbn. now rewrite IH.
  - destruct (Ascii.eqb c langle) eqn:Hl.
    + apply Ascii.eqb_eq in Hl. subst c.
      change ("&lt;" ++ dot_html s)
        with (String amp (String "l"%char (String "t"%char (String ";"%char (dot_html s))))).
      cbn. now rewrite IH.
    + destruct (Ascii.eqb c rangle) eqn:Hr.
      * apply Ascii.eqb_eq in Hr. subst c.
        change ("&gt;" ++ dot_html s)
          with (String amp (String "g"%char (String "t"%char (String ";"%char (dot_html s))))).
        cbn. now rewrite IH.
      * cbn [html_unescape_aux]. rewrite Hl, Hr, Ha. cbn [orb]. now rewrite IH.
Qed.

Theorem dot_label_readable_back : forall name, html_unescape (dot_label_name name) = Some name.
Proof. exact html_unescape_html. Qed.

Theorem dot_label_name_injective : forall a b, dot_label_name a = dot_label_name b -> a = b.
Proof.
  intros a b H. pose proof (dot_label_readable_back a) as Ha. rewrite H, dot_label_readable_back in Ha.
  now injection Ha.
Qed.

(** ** D55, the code before the repair: the raw name inside label=<...> *)
Definition dot_raw_label_stays_inside : Prop :=
  forall name rest, html_scan 1 (dot_label_raw name ++ String rangle rest) = Some rest.

Definition label_witness_close : string := String rangle EmptyString.    (* the name > *)
Definition label_witness_open : string := String langle EmptyString.     (* the name < *)

(** the name > ended the label early (the rest of the statement then began
    with a stray bracket); the name < left it open for ever *)
Theorem dot_label_raw_breaks_out :
  html_scan 1 (dot_label_raw label_witness_close ++ String rangle " ]") = Some (String rangle " ]") /\
  html_scan 1 (dot_label_raw label_witness_open ++ String rangle " ]") = None.
Proof. split; reflexivity. Qed.

Theorem dot_raw_label_stays_inside_refuted : ~ dot_raw_label_stays_inside.
Proof.
  intros H. specialize (H label_witness_close " ]").
  destruct dot_label_raw_breaks_out as [E _]. rewrite E in H. discriminate H.
Qed.

(** the same two names after the repair *)
Example dot_label_witnesses_repaired :
  dot_label_name label_witness_close = "&gt;" /\ dot_label_name label_witness_open = "&lt;" /\
  html_scan 1 (dot_label_name label_witness_close ++ String rangle " ]") = Some " ]" /\
  html_scan 1 (dot_label_name label_witness_open ++ String rangle " ]") = Some " ]".
Proof. repeat split; reflexivity. Qed.

(** * examples: a nasty name *)
Definition nasty_name : string :=
  String "a"%char (String dquote (String bslash (String bslash (String dquote (String hash
  (String newline (String "009"%char (String rangle (String "195"%char (String "169"%char (String bslash EmptyString))))))))))).

Example nasty_dot_id :
  dot_id nasty_name =
  String dquote (String "a"%char (String bslash (String dquote (String bslash (String bslash (String bslash
  (String bslash (String bslash (String dquote (String hash (String newline (String "009"%char (String rangle
  (String "195"%char (String "169"%char (String bslash (String bslash (String dquote EmptyString)))))))))))))))))).
Proof. reflexivity. Qed.

Example nasty_mermaid_text :
  mermaid_text nasty_name =
  "a#quot;" ++ String bslash (String bslash ("#quot;#35;" ++ String newline (String "009"%char (String rangle
  (String "195"%char (String "169"%char (String bslash EmptyString))))))).
Proof. reflexivity. Qed.
