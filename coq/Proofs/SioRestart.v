(** C15, second half: a crew booted from the consumer's store is the crew
    (same machines, as a canonical key-sorted list), the same store keeps
    tracking it, and from then on it produces the same outputs.

    What a crew does depends only on its machines and on whether the captain
    still accepts operations ([core_eq]); the change cache and the previous
    reports influence only what is reported. *)
From Coq Require Import List String Bool Arith Lia Permutation.
From Sheens Require Import Proofs.CplBasics.
From Sheens Require Import Model.SioCrew Spec.SioSpec Proofs.SioBasics Proofs.SioRouting Proofs.SioPersist.
Import ListNotations.
Open Scope string_scope.
Open Scope list_scope.

Definition orel {A : Type} (R : A -> A -> Prop) (o1 o2 : outcome A) : Prop :=
  match o1, o2 with
  | Done a, Done b => R a b
  | OutOfFuel, OutOfFuel => True
  | Unmodelled, Unmodelled => True
  | _, _ => False
  end.

Section Restart.
Variable S : Type.
Variable react : S -> mid -> mstate -> json -> option mstate * list json.
Variable decode_src : json -> option S.
Variable resolves : S -> bool.
Variable src_eqb : S -> S -> bool.
Variable ord : forall A : Type, list (mid * A) -> list (mid * A).
Hypothesis ord_perm : forall A l, Permutation (ord A l) l.
Hypothesis src_eqb_sound : forall a b, src_eqb a b = true -> a = b.
(** a walk ends at a named node *)
Hypothesis react_named : forall s m st msg st', fst (react s m st msg) = Some st' -> ms_node st' <> "".

Local Notation crew := (crew S).
Local Notation mach := (mach S).
Local Notation chg := (chg S).
Local Notation entry := (entry S).
Local Notation present := (present S react decode_src resolves).
Local Notation run_list := (run_list S react decode_src resolves).
Local Notation run_machines := (run_machines S react decode_src resolves ord).
Local Notation process := (process S react decode_src resolves ord).
Local Notation process_msg := (process_msg S react decode_src resolves src_eqb ord).
Local Notation get_changed := (get_changed S src_eqb ord).
Local Notation set_machine := (set_machine S resolves).
Local Notation delete_machine := (delete_machine S).
Local Notation hstep := (hstep S react decode_src resolves src_eqb ord).
Local Notation run_history := (run_history S react decode_src resolves src_eqb ord).
Local Notation boot := (boot S resolves ord).
Local Notation inv := (inv S resolves).

(** ** [set_machine], exactly *)
Lemma set_machine_machines_eq c m src st :
  machines S (set_machine c m src st)
  = aset m (set_mach S resolves (aget m (machines S c)) src (option_map defaulted st)) (machines S c).
Proof. unfold SioCrew.set_machine. destruct (negb _ || _ || _); reflexivity. Qed.

(** ** a generic "preserved by everything" lemma for predicates on the machines *)
Section Preserve.
Variable P : crew -> Prop.
Hypothesis P_ext : forall c c', machines S c' = machines S c -> P c -> P c'.
Hypothesis P_set : forall c m src st, P c -> P (set_machine c m src st).
Hypothesis P_del : forall c m, P c -> P (delete_machine c m).
Hypothesis P_rec : forall c m mc s msg st1,
  aget m (machines S c) = Some mc -> m_src S mc = Some s ->
  fst (react s m (m_state S mc) msg) = Some st1 -> P c -> P (record_state S c m mc st1).

Lemma P_do_op c op : P c -> P (do_op S resolves c op).
Proof.
  unfold do_op. intros I.
  assert (I1 : P (fold_left (fun c0 u => set_machine c0 (fst u) (u_src S (snd u)) (u_state S (snd u)))
                            (op_update S op) c)).
  { revert c I. induction (op_update S op) as [|u r IH]; simpl; intros c I; auto. }
  revert I1. generalize (fold_left (fun c0 u => set_machine c0 (fst u) (u_src S (snd u)) (u_state S (snd u)))
                                   (op_update S op) c).
  induction (op_delete S op) as [|d r IH]; simpl; intros c0 I0; auto.
Qed.

Lemma P_present c msg m c1 got b : P c -> present c msg m = Done (c1, got, b) -> P c1.
Proof.
  intros I. unfold SioCrew.present.
  destruct (String.eqb m captain_id).
  - destruct (wedged S c).
    + intros [= <- <- <-]. exact I.
    + destruct (as_crew_op S decode_src msg) as [| |op0]; try discriminate.
      * intros [= <- <- <-]. eapply P_ext; [|exact I]. reflexivity.
      * set (op := strip_op S op0) in *; destruct (op_ordinary S op); try discriminate.
        intros [= <- <- <-]. apply P_do_op. exact I.
  - destruct (String.eqb m timers_id).
    + intros [= <- <- <-]. destruct (tm_shape msg); auto. eapply P_ext; [|exact I]. reflexivity.
    + destruct (aget m (machines S c)) as [mc|] eqn:Em.
      * destruct (m_src S mc) as [s|] eqn:Es.
        -- destruct (react s m (m_state S mc) msg) as [st ems] eqn:Er.
           intros [= <- <- <-]. destruct st as [st1|]; auto.
           eapply P_rec; eauto. rewrite Er. reflexivity.
        -- intros [= <- <- <-]. exact I.
      * intros [= <- <- <-]. exact I.
Qed.

Lemma P_run_list msg mids : forall c c1 rs bs, P c -> run_list c msg mids = Done (c1, rs, bs) -> P c1.
Proof.
  induction mids as [|m rest IH]; intros c c1 rs bs I H; simpl in H.
  - injection H as <- <- <-. exact I.
  - destruct (present c msg m) as [[[c2 got] b]| |] eqn:Hp; simpl in H; try discriminate.
    destruct (run_list c2 msg rest) as [[[c3 rs'] bs']| |] eqn:Hr; simpl in H; try discriminate.
    injection H as <- <- <-. eapply IH; [|exact Hr]. eapply P_present; eauto.
Qed.

Lemma P_run_machines c msg c1 rd : P c -> run_machines c msg = Done (c1, rd) -> P c1.
Proof.
  unfold SioCrew.run_machines. intros I.
  destruct (run_list c msg (dedup (to_machines S ord c msg))) as [[[c2 rs] bs]| |] eqn:HR; simpl; try discriminate.
  intros [= <- <-]. eapply P_run_list; eauto.
Qed.

Lemma P_process fuel : forall c q tr c' trf, P c -> process fuel c q tr = Done (c', trf) -> P c'.
Proof.
  induction fuel as [|f IH]; intros c q tr c' trf I H.
  - destruct q; simpl in H; [|discriminate]. injection H as <- <-. exact I.
  - destruct q as [|msg rest]; simpl in H.
    + injection H as <- <-. exact I.
    + destruct (run_machines c msg) as [[c1 rd]| |] eqn:HR; simpl in H; try discriminate.
      eapply IH; [|exact H]. eapply P_run_machines; eauto.
Qed.

Lemma get_changed_machines c c' out tm :
  get_changed c = (c', out, tm) -> machines S c' = machines S c /\ wedged S c' = wedged S c.
Proof.
  unfold SioCrew.get_changed. destruct (suppress S src_eqb _ _) as [prev o].
  intros [= <- <- <-]. auto.
Qed.

Lemma P_process_msg fuel c msg c1 r : P c -> process_msg fuel c msg = Done (c1, r) -> P c1.
Proof.
  intros I H. unfold SioCrew.process_msg in H.
  destruct (process fuel c [msg] []) as [[c2 tr]| |] eqn:HP; simpl in H; try discriminate.
  destruct (get_changed c2) as [[c3 ch] tm] eqn:HG. injection H as <- <-.
  apply get_changed_machines in HG as [E _]. eapply P_ext; [exact E|]. eapply P_process; eauto.
Qed.

Lemma P_hstep fuel c store h c1 store1 r : P c -> hstep fuel (c, store) h = Done (c1, store1, r) -> P c1.
Proof.
  intros I. destruct h as [msg|m src st|m]; simpl.
  - destruct (process_msg fuel c msg) as [[c2 r2]| |] eqn:HP; simpl; try discriminate.
    intros [= <- <- <-]. eapply P_process_msg; eauto.
  - destruct (is_service m); try discriminate. intros [= <- <- <-]. auto.
  - destruct (is_service m); try discriminate. intros [= <- <- <-]. auto.
Qed.

Lemma P_run_history fuel h : forall c store c1 store1,
  P c -> run_history fuel (c, store) h = Done (c1, store1) -> P c1.
Proof.
  induction h as [|x r IH]; intros c store c1 store1 I H.
  - simpl in H. injection H as <- <-. exact I.
  - rewrite run_history_cons in H.
    destruct (hstep fuel (c, store) x) as [[[c2 s2] r2]| |] eqn:HS; simpl in H; try discriminate.
    eapply IH; [|exact H]. eapply P_hstep; eauto.
Qed.
End Preserve.

(** ** the machines stay a key-sorted list of machines at named nodes *)
Definition named (c : crew) : Prop :=
  forall m mc, aget m (machines S c) = Some mc -> ms_node (m_state S mc) <> "".
Definition good (c : crew) : Prop := ssorted (machines S c) /\ named c.

Lemma defaulted_named s : ms_node (defaulted s) <> "".
Proof.
  unfold defaulted. destruct (String.eqb (ms_node s) "") eqn:E; simpl.
  - discriminate.
  - intros H. rewrite H in E. discriminate.
Qed.
Lemma defaulted_id s : ms_node s <> "" -> defaulted s = s.
Proof.
  unfold defaulted. intros H. destruct (String.eqb (ms_node s) "") eqn:E; auto.
  apply String.eqb_eq in E. contradiction.
Qed.

Lemma good_init : good (init_crew S).
Proof. split; simpl; auto. intros m mc H. discriminate. Qed.

Lemma good_set c m src st : good c -> good (set_machine c m src st).
Proof.
  intros [Hs Hn]. split.
  - rewrite set_machine_machines_eq. apply aset_ssorted. exact Hs.
  - intros m' mc. rewrite set_machine_machines_eq, aget_aset.
    destruct (String.eqb m' m) eqn:E; [|apply Hn].
    intros [= <-]. unfold set_mach.
    destruct (aget m (machines S c)) as [old|] eqn:Eo; destruct st as [s|]; simpl;
      try apply defaulted_named; try discriminate.
    eapply Hn; eauto.
Qed.

Lemma good_del c m : good c -> good (delete_machine c m).
Proof.
  intros [Hs Hn]. split.
  - simpl. apply adel_ssorted. exact Hs.
  - intros m' mc. unfold SioCrew.delete_machine. simpl.
    rewrite aget_adel. destruct (String.eqb m' m); [discriminate|apply Hn].
Qed.

Lemma good_rec c m mc s msg st1 :
  aget m (machines S c) = Some mc -> m_src S mc = Some s ->
  fst (react s m (m_state S mc) msg) = Some st1 -> good c -> good (record_state S c m mc st1).
Proof.
  intros Em Es Er [Hs Hn]. split.
  - simpl. apply aset_ssorted. exact Hs.
  - intros m' mc'. unfold record_state. simpl.
    rewrite aget_aset. destruct (String.eqb m' m); [|apply Hn].
    intros [= <-]. simpl. eapply react_named; eauto.
Qed.

Lemma good_ext c c' : machines S c' = machines S c -> good c -> good c'.
Proof. unfold good, named. intros ->. auto. Qed.

Lemma good_run_history fuel h c store :
  run_history fuel (init_crew S, []) h = Done (c, store) -> good c.
Proof.
  apply (P_run_history good good_ext good_set good_del good_rec). exact good_init.
Qed.

(** ** boot *)
Definition boot_mach (e : entry) : mach :=
  mk_mach (resolved S resolves (e_src S e)) (match e_state S e with Some s => defaulted s | None => default_state end).
Definition boot_chg (e : entry) : chg :=
  mk_chg false (option_map defaulted (e_state S e)) (e_src S e).

Lemma boot_keys_spec (store : list (mid * entry)) : forall ks c,
  NoDup ks ->
  (forall m, In m ks -> aget m (machines S c) = None /\ aget m (cache S c) = None) ->
  let c' := fold_left (fun c m => match aget m store with
                                  | Some e => set_machine c m (e_src S e) (e_state S e)
                                  | None => c
                                  end) ks c in
  (forall m, aget m (machines S c')
             = if smem m ks then option_map boot_mach (aget m store) else aget m (machines S c))
  /\ (forall m, aget m (cache S c')
                = if smem m ks then option_map boot_chg (aget m store) else aget m (cache S c))
  /\ previous S c' = previous S c /\ wedged S c' = wedged S c
  /\ (good c -> good c').
Proof.
  induction ks as [|k r IH]; intros c ND A; simpl.
  - split; [|split; [|split; [|split]]]; auto.
  - inversion ND as [|? ? NI ND']; subst.
    destruct (A k (or_introl eq_refl)) as [Am Ac].
    set (c1 := match aget k store with
               | Some e => set_machine c k (e_src S e) (e_state S e)
               | None => c
               end).
    assert (L : (forall m, aget m (machines S c1)
                           = if String.eqb m k then option_map boot_mach (aget k store) else aget m (machines S c))
                /\ (forall m, aget m (cache S c1)
                              = if String.eqb m k then option_map boot_chg (aget k store) else aget m (cache S c))
                /\ previous S c1 = previous S c /\ wedged S c1 = wedged S c /\ (good c -> good c1)).
    { unfold c1. destruct (aget k store) as [e|] eqn:Ek.
      - destruct (set_machine_lookup S resolves c k (e_src S e) (e_state S e)) as (EM & EC & EP & EW).
        split; [|split; [|split; [|split]]]; auto.
        + intros m. rewrite EM, Am. destruct (String.eqb m k); auto.
          simpl. unfold set_mach, boot_mach. destruct (e_state S e); reflexivity.
        + intros m. rewrite EC, Am, Ac. simpl. destruct (String.eqb m k); auto.
          simpl. unfold set_chg, boot_chg, no_chg. simpl.
          destruct (e_state S e), (e_src S e); reflexivity.
        + apply good_set.
      - split; [|split; [|split; [|split]]]; auto; intros m; destruct (String.eqb m k) eqn:E; auto;
          apply String.eqb_eq in E; subst; simpl; auto. }
    destruct L as (LM & LC & LP & LW & LG).
    destruct (IH c1 ND') as (RM & RC & RP & RW & RG).
    { intros m Hm. rewrite LM, LC.
      destruct (String.eqb m k) eqn:E.
      - apply String.eqb_eq in E. subst. contradiction.
      - apply A. right. exact Hm. }
    fold c1. split; [|split; [|split; [|split]]].
    + intros m. rewrite RM, LM. destruct (String.eqb m k) eqn:E; simpl.
      * apply String.eqb_eq in E. subst. apply smem_false in NI. rewrite NI. reflexivity.
      * reflexivity.
    + intros m. rewrite RC, LC. destruct (String.eqb m k) eqn:E; simpl.
      * apply String.eqb_eq in E. subst. apply smem_false in NI. rewrite NI. reflexivity.
      * reflexivity.
    + congruence.
    + congruence.
    + auto.
Qed.

Lemma boot_spec (store : list (mid * entry)) :
  (forall m, aget m (machines S (boot store)) = option_map boot_mach (aget m store))
  /\ (forall m, aget m (cache S (boot store)) = option_map boot_chg (aget m store))
  /\ previous S (boot store) = [] /\ wedged S (boot store) = false /\ good (boot store).
Proof.
  unfold SioCrew.boot, SioCrew.boot_from.
  destruct (boot_keys_spec store (dedup (map fst (ord entry store))) (init_crew S)) as (M & C & P & W & G).
  { apply dedup_nodup. }
  { intros m _. auto. }
  assert (K : forall m, smem m (dedup (map fst (ord entry store))) = is_some (aget m store)).
  { intros m. apply eq_true_iff_eq. rewrite smem_in, dedup_in.
    assert (Pm : Permutation (map fst (ord entry store)) (map fst store))
      by (apply Permutation_map; apply ord_perm).
    split; intros H.
    - apply (Permutation_in _ Pm) in H. apply aget_in_keys in H.
      destruct (aget m store); [reflexivity|congruence].
    - apply (Permutation_in _ (Permutation_sym Pm)). apply aget_in_keys.
      destruct (aget m store); [congruence|discriminate]. }
  repeat split; auto.
  - intros m. rewrite M, K. destruct (aget m store); reflexivity.
  - intros m. rewrite C, K. destruct (aget m store); reflexivity.
  - apply G. apply good_init.
  - apply G. apply good_init.
Qed.

(** the same store tracks the booted crew *)
Lemma boot_inv store : inv (boot store) store.
Proof.
  destruct (boot_spec store) as (M & C & P & _).
  intros m. unfold inv_at. rewrite M, C, P. simpl.
  destruct (aget m store) as [[es esrc]|]; simpl.
  - split; [|split].
    + unfold pend, report4, fold_entry, boot_chg, boot_mach, view_of_entry, view_of_mach. simpl.
      destruct es, esrc; reflexivity.
    + intros r H. discriminate.
    + intros c0 [= <-] H. discriminate.
  - split; [reflexivity|split]; intros; discriminate.
Qed.

(** ** what a crew does depends on its machines and the captain only *)
Definition core_eq (c1 c2 : crew) : Prop :=
  machines S c1 = machines S c2 /\ wedged S c1 = wedged S c2.

Lemma core_set c1 c2 m src st : core_eq c1 c2 -> core_eq (set_machine c1 m src st) (set_machine c2 m src st).
Proof.
  intros [E1 E2]. split.
  - rewrite !set_machine_machines_eq, E1. reflexivity.
  - rewrite !set_machine_wedged. exact E2.
Qed.
Lemma core_del c1 c2 m : core_eq c1 c2 -> core_eq (delete_machine c1 m) (delete_machine c2 m).
Proof. intros [E1 E2]. split; simpl; congruence. Qed.

Lemma core_do_op c1 c2 op : core_eq c1 c2 -> core_eq (do_op S resolves c1 op) (do_op S resolves c2 op).
Proof.
  unfold do_op. intros E.
  assert (E1 : core_eq
    (fold_left (fun c0 u => set_machine c0 (fst u) (u_src S (snd u)) (u_state S (snd u))) (op_update S op) c1)
    (fold_left (fun c0 u => set_machine c0 (fst u) (u_src S (snd u)) (u_state S (snd u))) (op_update S op) c2)).
  { revert c1 c2 E. induction (op_update S op) as [|u r IH]; simpl; intros c1 c2 E; auto.
    apply IH. apply core_set. exact E. }
  revert E1.
  generalize (fold_left (fun c0 u => set_machine c0 (fst u) (u_src S (snd u)) (u_state S (snd u))) (op_update S op) c1).
  generalize (fold_left (fun c0 u => set_machine c0 (fst u) (u_src S (snd u)) (u_state S (snd u))) (op_update S op) c2).
  induction (op_delete S op) as [|d r IH]; simpl; intros a b E1; auto.
  apply IH. apply core_del. exact E1.
Qed.

Definition present_sim (x y : crew * bool * option (list json)) : Prop :=
  core_eq (fst (fst x)) (fst (fst y)) /\ snd (fst x) = snd (fst y) /\ snd x = snd y.

Lemma present_core c1 c2 msg m :
  core_eq c1 c2 -> orel present_sim (present c1 msg m) (present c2 msg m).
Proof.
  intros [E1 E2]. unfold SioCrew.present. rewrite <- E1, <- E2.
  destruct (String.eqb m captain_id).
  - destruct (wedged S c1) eqn:Ew; simpl.
    + repeat split; simpl; auto; congruence.
    + destruct (as_crew_op S decode_src msg) as [| |op0]; simpl; auto.
      * repeat split; simpl; auto; congruence.
      * set (op := strip_op S op0) in *; destruct (op_ordinary S op); simpl; auto.
        split; [|auto]. apply core_do_op. split; auto. congruence.
  - destruct (String.eqb m timers_id); simpl.
    + destruct (tm_shape msg); repeat split; simpl; auto.
    + destruct (aget m (machines S c1)) as [mc|]; simpl; [|repeat split; simpl; auto].
      destruct (m_src S mc) as [s|]; simpl; [|repeat split; simpl; auto].
      destruct (react s m (m_state S mc) msg) as [st ems]. simpl.
      destruct st as [st1|]; repeat split; simpl; auto. congruence.
Qed.

Definition list_sim (x y : crew * list mid * list (mid * list json)) : Prop :=
  core_eq (fst (fst x)) (fst (fst y)) /\ snd (fst x) = snd (fst y) /\ snd x = snd y.

Lemma run_list_core msg mids : forall c1 c2,
  core_eq c1 c2 -> orel list_sim (run_list c1 msg mids) (run_list c2 msg mids).
Proof.
  induction mids as [|m rest IH]; intros c1 c2 E; simpl.
  - repeat split; auto; apply E.
  - pose proof (present_core c1 c2 msg m E) as HP.
    destruct (present c1 msg m) as [[[a1 g1] b1]| |], (present c2 msg m) as [[[a2 g2] b2]| |];
      simpl in *; try contradiction; auto.
    destruct HP as (Ea & Eg & Eb). simpl in *. subst g2 b2.
    pose proof (IH a1 a2 Ea) as HR.
    destruct (run_list a1 msg rest) as [[[d1 r1] s1]| |], (run_list a2 msg rest) as [[[d2 r2] s2]| |];
      simpl in *; try contradiction; auto.
    destruct HR as (Ed & Er & Es). simpl in *. subst r2 s2. repeat split; auto; apply Ed.
Qed.

Definition round_sim (x y : round S) : Prop :=
  rd_msg S x = rd_msg S y /\ rd_recips S x = rd_recips S y /\ rd_batches S x = rd_batches S y.

Lemma run_machines_core c1 c2 msg :
  core_eq c1 c2 ->
  orel (fun x y => core_eq (fst x) (fst y) /\ round_sim (snd x) (snd y)) (run_machines c1 msg) (run_machines c2 msg).
Proof.
  intros E. unfold SioCrew.run_machines.
  assert (T : to_machines S ord c1 msg = to_machines S ord c2 msg).
  { unfold to_machines, all_machines. destruct E as [-> _]. reflexivity. }
  rewrite T. pose proof (run_list_core msg (dedup (to_machines S ord c2 msg)) c1 c2 E) as HR.
  destruct (run_list c1 msg _) as [[[d1 r1] s1]| |], (run_list c2 msg _) as [[[d2 r2] s2]| |];
    simpl in *; try contradiction; auto.
  destruct HR as (Ed & Er & Es). simpl in *. subst. repeat split; auto; apply Ed.
Qed.

Lemma process_core fuel : forall c1 c2 q tr1 tr2,
  core_eq c1 c2 -> Forall2 round_sim tr1 tr2 ->
  orel (fun x y => core_eq (fst x) (fst y) /\ Forall2 round_sim (snd x) (snd y))
       (process fuel c1 q tr1) (process fuel c2 q tr2).
Proof.
  induction fuel as [|f IH]; intros c1 c2 q tr1 tr2 E F.
  - destruct q; simpl; auto. split; auto.
    clear -F. induction F; simpl; [constructor|]. apply Forall2_app; auto.
  - destruct q as [|msg rest]; simpl.
    + split; auto. clear -F. induction F; simpl; [constructor|]. apply Forall2_app; auto.
    + pose proof (run_machines_core c1 c2 msg E) as HR.
      destruct (run_machines c1 msg) as [[a1 rd1]| |], (run_machines c2 msg) as [[a2 rd2]| |];
        simpl in *; try contradiction; auto.
      destruct HR as [Ea Er].
      assert (B : batch_msgs S rd1 = batch_msgs S rd2).
      { unfold batch_msgs. destruct Er as (_ & _ & ->). reflexivity. }
      rewrite B. apply IH; auto.
Qed.

Lemma emitted_sim tr1 tr2 : Forall2 round_sim tr1 tr2 -> emitted_of S tr1 = emitted_of S tr2.
Proof.
  unfold emitted_of. induction 1 as [|x y l l' H F IH]; simpl; auto.
  rewrite !filter_app, IH. destruct H as (_ & _ & ->). reflexivity.
Qed.

Definition result_sim (x y : crew * result S) : Prop :=
  core_eq (fst x) (fst y) /\ res_emitted S (snd x) = res_emitted S (snd y)
  /\ Forall2 round_sim (res_trace S (snd x)) (res_trace S (snd y)).

Lemma process_msg_core fuel c1 c2 msg :
  core_eq c1 c2 -> orel result_sim (process_msg fuel c1 msg) (process_msg fuel c2 msg).
Proof.
  intros E. unfold SioCrew.process_msg.
  pose proof (process_core fuel c1 c2 [msg] [] [] E (Forall2_nil _)) as HP.
  destruct (process fuel c1 [msg] []) as [[a1 t1]| |], (process fuel c2 [msg] []) as [[a2 t2]| |];
    simpl in *; try contradiction; auto.
  destruct HP as [Ea Et].
  destruct (get_changed a1) as [[b1 ch1] tm1] eqn:G1. destruct (get_changed a2) as [[b2 ch2] tm2] eqn:G2.
  apply get_changed_machines in G1 as [M1 W1]. apply get_changed_machines in G2 as [M2 W2].
  simpl. repeat split; simpl; auto.
  - destruct Ea. congruence.
  - destruct Ea. congruence.
  - apply emitted_sim. exact Et.
Qed.

(** the outputs of a crew over a history: Result.Emitted of every message *)
Fixpoint run_outputs (fuel : nat) (c : crew) (h : list (hop S)) : outcome (crew * list (list (list json))) :=
  match h with
  | [] => Done (c, [])
  | x :: r =>
      obind (hstep fuel (c, []) x) (fun '(c1, _, res) =>
      obind (run_outputs fuel c1 r) (fun '(c2, outs) =>
      Done (c2, match res with Some rs => res_emitted S rs :: outs | None => outs end)))
  end.

Definition outputs_sim (x y : crew * list (list (list json))) : Prop :=
  core_eq (fst x) (fst y) /\ snd x = snd y.

Lemma run_outputs_core fuel h : forall c1 c2,
  core_eq c1 c2 -> orel outputs_sim (run_outputs fuel c1 h) (run_outputs fuel c2 h).
Proof.
  induction h as [|x r IH]; intros c1 c2 E; simpl.
  - split; auto.
  - destruct x as [msg|m src st|m]; simpl.
    + pose proof (process_msg_core fuel c1 c2 msg E) as HP.
      destruct (process_msg fuel c1 msg) as [[a1 r1]| |], (process_msg fuel c2 msg) as [[a2 r2]| |];
        simpl in *; try contradiction; auto.
      destruct HP as (Ea & Ee & _). simpl in *.
      pose proof (IH a1 a2 Ea) as HR.
      destruct (run_outputs fuel a1 r) as [[b1 o1]| |], (run_outputs fuel a2 r) as [[b2 o2]| |];
        simpl in *; try contradiction; auto.
      destruct HR as [Eb Eo]. simpl in *. split; simpl; auto. congruence.
    + destruct (is_service m); simpl; auto.
      pose proof (IH _ _ (core_set c1 c2 m src st E)) as HR.
      destruct (run_outputs fuel (set_machine c1 m src st) r) as [[b1 o1]| |],
               (run_outputs fuel (set_machine c2 m src st) r) as [[b2 o2]| |];
        simpl in *; try contradiction; auto.
    + destruct (is_service m); simpl; auto.
      pose proof (IH _ _ (core_del c1 c2 m E)) as HR.
      destruct (run_outputs fuel (delete_machine c1 m) r) as [[b1 o1]| |],
               (run_outputs fuel (delete_machine c2 m) r) as [[b2 o2]| |];
        simpl in *; try contradiction; auto.
Qed.

(** ** the theorems *)
Lemma view_of_mach_inj (a b : option mach) :
  option_map (view_of_mach S) a = option_map (view_of_mach S) b -> a = b.
Proof.
  destruct a as [[s1 t1]|], b as [[s2 t2]|]; simpl; try discriminate; auto.
  unfold view_of_mach. simpl. intros [= -> ->]. reflexivity.
Qed.

Theorem boot_equiv : forall fuel h c store,
  run_history fuel (init_crew S, []) h = Done (c, store) -> ends_with_msg S h ->
  machines S (boot store) = machines S c
  /\ forall m, live_view S (boot store) m = live_view S c m.
Proof.
  intros fuel h c store H E.
  pose proof (good_run_history _ _ _ _ H) as [Gs Gn].
  destruct (boot_spec store) as (M & _ & _ & _ & [Bs _]).
  assert (V : forall m, aget m (machines S (boot store)) = aget m (machines S c)).
  { intros m. apply view_of_mach_inj.
    pose proof (store_tracks_crew S react decode_src resolves src_eqb ord ord_perm src_eqb_sound _ _ _ _ H E m) as T.
    unfold live_view in T. rewrite <- T. rewrite M. unfold store_view.
    destruct (aget m store) as [[es esrc]|] eqn:Es; simpl; auto.
    unfold boot_mach, view_of_mach, view_of_entry. simpl. destruct es as [s|]; auto.
    rewrite defaulted_id; auto.
    (* the stored state is the live state, and live machines are at named nodes *)
    unfold store_view in T. rewrite Es in T. simpl in T.
    destruct (aget m (machines S c)) as [mc|] eqn:Em; [|discriminate].
    simpl in T. unfold view_of_entry, view_of_mach in T. simpl in T.
    injection T as _ T2. rewrite T2. eapply Gn. exact Em. }
  split.
  - apply ssorted_ext; auto.
  - intros m. unfold live_view. rewrite V. reflexivity.
Qed.

Theorem restart_unobservable : forall fuel h c store,
  run_history fuel (init_crew S, []) h = Done (c, store) -> ends_with_msg S h ->
  wedged S c = false ->
  core_eq (boot store) c
  /\ inv (boot store) store
  /\ forall fuel' h2, orel outputs_sim (run_outputs fuel' c h2) (run_outputs fuel' (boot store) h2).
Proof.
  intros fuel h c store H E W.
  destruct (boot_equiv _ _ _ _ H E) as [M _].
  destruct (boot_spec store) as (_ & _ & _ & Wb & _).
  assert (CE : core_eq (boot store) c) by (split; congruence).
  split; [exact CE|]. split; [apply boot_inv|].
  intros fuel' h2. apply run_outputs_core. destruct CE. split; auto.
Qed.

End Restart.
