(** Completeness with inequality variables whose bounds are given in the
    initial bindings [bs0]: an assignment [sg] that embeds the pattern in the
    sense of [embeds_ineq bs0 sg] (Spec/EmbedOpt.v) is returned together
    with the bounds, [bunion bs0 sg].  Arrays, optional variables, repeated
    inequality variables and counterparts that also occur as plain variables
    are covered.  Derived from the general witness theorem instantiated at
    the whole final binding set [bunion bs0 sg] and the names of [bs0]. *)
From Sheens Require Export Proofs.MatchCompleteOpt.
From Coq Require Import Lia.
From Sheens Require Import Proofs.MatchLinear Proofs.SndSorted.

(** * [bunion] *)
Lemma bset_In' : forall k v (bs : bindings) kv, In kv (bset k v bs) -> kv = (k, v) \/ In kv bs.
Proof.
  intros k v bs kv; induction bs as [|[k1 v1] r IH]; cbn [bset]; intros H.
  - destruct H as [<-|[]]; left; reflexivity.
  - destruct (String.compare k k1).
    + destruct H as [<-|H]; [left; reflexivity | right; right; exact H].
    + destruct H as [<-|H]; [left; reflexivity | right; exact H].
    + destruct H as [<-|H]; [right; left; reflexivity|].
      destruct (IH H) as [->|Hr]; [left; reflexivity | right; right; exact Hr].
Qed.

Lemma bunion_In : forall bs0 sg kv, In kv (bunion bs0 sg) -> In kv sg \/ In kv bs0.
Proof.
  intros bs0 sg kv; induction sg as [|[k v] r IH]; cbn [bunion fold_right fst snd]; intros H.
  - right; exact H.
  - apply bset_In' in H. destruct H as [->|H]; [left; left; reflexivity|].
    destruct (IH H) as [Hr|Hb]; [left; right; exact Hr | right; exact Hb].
Qed.

Lemma lookup_bunion : forall bs0 sg k,
  lookup k (bunion bs0 sg) = match lookup k sg with Some v => Some v | None => lookup k bs0 end.
Proof.
  intros bs0 sg k; induction sg as [|[k1 v1] r IH]; cbn [bunion fold_right fst snd lookup]; [reflexivity|].
  rewrite lookup_bset. destruct (String.eqb k k1); [reflexivity | exact IH].
Qed.

Lemma bunion_sorted : forall bs0 sg, sorted_keys bs0 = true -> sorted_keys (bunion bs0 sg) = true.
Proof.
  intros bs0 sg H; induction sg as [|[k v] r IH]; cbn [bunion fold_right fst snd]; [exact H|].
  apply bset_sorted. exact IH.
Qed.

Lemma restr_bset_notin : forall L k v (bs : bindings), ~ In k L -> restr L (bset k v bs) = restr L bs.
Proof.
  intros L k v bs Hn. apply smem_false in Hn.
  induction bs as [|[k1 v1] r IH]; cbn [bset].
  - rewrite restr_cons, Hn. reflexivity.
  - destruct (String.compare k k1) eqn:C.
    + apply String.compare_eq_iff in C; subst k1. rewrite !restr_cons, Hn. reflexivity.
    + rewrite (restr_cons L k v), Hn. reflexivity.
    + rewrite !restr_cons, IH. reflexivity.
Qed.

Lemma restr_bunion_keys : forall L bs0 sg,
  (forall k, In k (map fst sg) -> ~ In k L) -> restr L (bunion bs0 sg) = restr L bs0.
Proof.
  intros L bs0 sg; induction sg as [|[k v] r IH]; intros H; cbn [bunion fold_right fst snd]; [reflexivity|].
  rewrite restr_bset_notin; [|apply H; left; reflexivity].
  apply IH. intros k' Hk'. apply H. right; exact Hk'.
Qed.

Lemma assigned_to_bunion : forall bs0 sg s y,
  assigned_to sg s y = true -> assigned_to (bunion bs0 sg) s y = true.
Proof.
  intros bs0 sg s y H. unfold assigned_to in *. rewrite lookup_bunion.
  destruct (lookup s sg); [exact H | discriminate].
Qed.

Lemma is_num_inv : forall w, is_num w = true -> exists b, w = JNum b.
Proof. intros w H. destruct w; try discriminate. eexists; reflexivity. Qed.

(** * Completeness with given bounds *)
Theorem match_complete_ineq : forall ord, perm_oracle ord -> forall p f bs0 sg,
  c02_pre_ineq p f bs0 sg = true -> embeds_ineq bs0 sg p f = true ->
  exists n0, forall fuel, n0 <= fuel ->
    exists bss, match_ ord fuel p f bs0 = Ok bss /\ In (bunion bs0 sg) bss.
Proof.
  intros ord Hord p f bs0 sg Hpre He. unfold c02_pre_ineq in Hpre.
  repeat rewrite andb_true_iff in Hpre.
  destruct Hpre as [[[[[[[[[[[[[Hsup Hwfp] Hwff] Hvff] Hasp] Hasf] Hsort0] Hnum0] Hkeys0] Hvfs] Hsort]
                       Hksg] Hplain] Hrep].
  exists (need (json_depth f) p). intros fuel Hfuel.
  set (S := bunion bs0 sg). set (L0 := map fst bs0).
  (* the side conditions, unpacked *)
  assert (Hbk : forall k, In k L0 <-> In k (ineq_vars p)).
  { unfold same_keys in Hkeys0. apply andb_true_iff in Hkeys0. destruct Hkeys0 as [H1 H2].
    rewrite forallb_forall in H1, H2. intros k. split; intros Hk.
    - apply smem_In. apply H1. exact Hk.
    - apply smem_In. apply H2. exact Hk. }
  assert (Hiq : forall k, In k (ineq_vars p) <-> In k (pvars p) /\ no_ineq_var k = false).
  { intros k. unfold ineq_vars. rewrite filter_In, negb_true_iff. tauto. }
  assert (Hsk : forall k, In k (map fst sg) -> In k (bvars p) /\ is_anon k = false /\ ~ In k L0).
  { rewrite forallb_forall in Hksg. intros k Hk. specialize (Hksg k Hk).
    apply andb_true_iff in Hksg. destruct Hksg as [H1 H2].
    apply smem_In in H1. unfold nonanon_bvars in H1. apply filter_In in H1. destruct H1 as [H1 H3].
    apply negb_true_iff in H3. apply negb_true_iff in H2. apply smem_false in H2. tauto. }
  assert (Hb0num : forall k w, lookup k bs0 = Some w -> exists b, w = JNum b).
  { intros k w Hl. apply lookup_In in Hl. rewrite forallb_forall in Hnum0.
    apply is_num_inv. apply (Hnum0 (k, w) Hl). }
  assert (Hb0none : forall k, no_ineq_var k = true -> lookup k bs0 = None).
  { intros k Hk. destruct (lookup k bs0) eqn:El; [|reflexivity].
    assert (Hin : In k L0) by (apply In_map_fst_lookup; rewrite El; discriminate).
    apply Hbk, Hiq in Hin. destruct Hin as [_ Hin]. congruence. }
  (* the whole final binding set *)
  assert (HsortS : sorted_keys S = true) by (apply bunion_sorted; exact Hsort0).
  assert (HvfS : var_free_bs S = true).
  { unfold var_free_bs. apply forallb_forall. intros kv Hin. apply bunion_In in Hin.
    destruct Hin as [Hin|Hin].
    - unfold var_free_bs in Hvfs. rewrite forallb_forall in Hvfs. apply Hvfs; exact Hin.
    - rewrite forallb_forall in Hnum0. destruct (is_num_inv _ (Hnum0 kv Hin)) as [b ->]. reflexivity. }
  assert (HanonS : lookup anon_var S = None).
  { unfold S. rewrite lookup_bunion.
    rewrite (keys_no_anon sg (fun k Hk => proj1 (proj2 (Hsk k Hk)))).
    apply Hb0none. reflexivity. }
  assert (Hrestr0 : restr L0 S = bs0).
  { unfold S. rewrite restr_bunion_keys; [|intros k Hk; apply Hsk; exact Hk].
    apply restr_all. intros k Hk; exact Hk. }
  assert (Hgood0 : good (json_depth f) bs0).
  { unfold good. apply Forall_forall. intros kv Hin. rewrite forallb_forall in Hnum0.
    destruct (is_num_inv _ (Hnum0 kv Hin)) as [b ->]. split; [reflexivity|].
    cbn [json_depth]. apply json_depth_pos. }
  destruct (match_supported_ok_g ord Hord (json_depth f) fuel p f bs0 Hsup
              (conj Hvff (le_n _)) Hgood0 Hfuel) as [bss Hb].
  exists bss; split; [exact Hb|].
  pose proof (match_wit_g ord Hord S HsortS HvfS HanonS fuel p f L0 bss) as Hw.
  rewrite Hrestr0 in Hw. rewrite restr_all in Hw.
  - apply Hw; [exact Hb | exact Hasf | |].
    + (* the embedding, in the general form *)
      apply (embeds_with_impl (unassigned sg) (ineq_at bs0 sg)); [|exact He].
      intros s Hs. split.
      * intros Ho. unfold unassigned, S. rewrite lookup_bunion.
        destruct (lookup s sg); [reflexivity|].
        rewrite (Hb0none s); [reflexivity|]. unfold no_ineq_var. rewrite (optional_no_ineq s Ho). reflexivity.
      * intros _ y Hy. unfold ineq_at in *. destruct (ineq_parse s) as [[op vv]|] eqn:Ep.
        -- destruct (lookup s bs0) as [[| | b | | |]|] eqn:Eb; try discriminate.
           destruct y as [| | a | | |]; try discriminate.
           apply andb_true_iff in Hy. destruct Hy as [Hsat Hvv].
           assert (Hnsg : lookup s sg = None).
           { destruct (lookup s sg) eqn:Esg; [|reflexivity]. exfalso.
             assert (H1 : In s (map fst sg)) by (apply In_map_fst_lookup; rewrite Esg; discriminate).
             apply Hsk in H1. destruct H1 as [_ [_ H1]]. apply H1.
             apply In_map_fst_lookup. rewrite Eb. discriminate. }
           unfold S at 1. rewrite lookup_bunion, Hnsg, Eb, Hsat. cbn [andb].
           apply assigned_to_bunion. exact Hvv.
        -- apply assigned_to_bunion. exact Hy.
    + split.
      * intros s w Hin Hc Hl. unfold S in Hl. rewrite lookup_bunion in Hl.
        destruct (lookup s sg) as [w'|] eqn:Esg.
        -- inversion Hl; subst w'.
           assert (H1 : In s (map fst sg)) by (apply In_map_fst_lookup; rewrite Esg; discriminate).
           destruct (Hsk s H1) as [_ [_ Hn0]].
           destruct Hc as [Hc|Hc]; [contradiction|].
           rewrite forallb_forall in Hrep. specialize (Hrep (s, w) (lookup_In _ _ _ Esg)).
           cbn [fst snd] in Hrep. apply orb_true_iff in Hrep. destruct Hrep as [Hle|Hsc]; [|exact Hsc].
           apply Nat.leb_le in Hle. fold (bvars p) in Hc. lia.
        -- destruct (Hb0num s w Hl) as [b ->]. reflexivity.
      * intros s Hs Hn. apply Hbk, Hiq. split; assumption.
  - intros k Hk. apply in_map_iff in Hk. destruct Hk as [[k' v] [<- Hin]]. cbn [fst].
    apply bunion_In in Hin. apply in_or_app. destruct Hin as [Hin|Hin].
    + left. apply Hsk. apply (in_map fst) in Hin. exact Hin.
    + right. apply (in_map fst) in Hin. exact Hin.
Qed.

(** * With no bounds and no inequality variables this is the statement for
      optional variables: [match_complete_opt] is an instance *)
Lemma all_plain_or_opt_no_ineq : forall p, all_plain_or_opt p = true ->
  forall v, In v (pvars p) -> no_ineq_var v = true.
Proof.
  intros p H v Hv. unfold all_plain_or_opt in H. rewrite forallb_forall in H.
  specialize (H v Hv). apply orb_true_iff in H.
  destruct H as [Ha|Hn]; [apply anon_no_ineq; exact Ha | exact Hn].
Qed.

Lemma filter_none : forall (A : Type) (g : A -> bool) l,
  (forall x, In x l -> g x = false) -> filter g l = [].
Proof.
  intros A g l; induction l as [|x l IH]; intros H; [reflexivity|].
  cbn [filter]. rewrite (H x (or_introl eq_refl)). apply IH. intros y Hy; apply H; right; exact Hy.
Qed.

Lemma bunion_nil : forall sg, sorted_keys sg = true -> bunion [] sg = sg.
Proof.
  induction sg as [|[k v] r IH]; intros Hs; [reflexivity|].
  cbn [bunion fold_right fst snd]. fold (bunion [] r). rewrite (IH (sorted_tail _ _ Hs)).
  apply bset_head_lt. eapply sorted_head_lt; exact Hs.
Qed.

Theorem embeds_ineq_extends_opt : forall p f sg,
  c02_pre_opt p f sg = true ->
  c02_pre_ineq p f [] sg = true /\ bunion [] sg = sg /\
  (embeds_opt sg p f = true -> embeds_ineq [] sg p f = true).
Proof.
  intros p f sg H. unfold c02_pre_opt in H. repeat rewrite andb_true_iff in H.
  destruct H as [[[[[[[[[[[Hsup Hpl] Hwfp] Hwff] Hvff] Hasp] Hasf] Hvfs] Hsort] Hk1] Hk2] Hrep].
  pose proof (all_plain_or_opt_no_ineq p Hpl) as Hni.
  assert (Hbv : bvars p = pvars p).
  { unfold bvars. apply flat_map_bv_id. intros v Hv. apply bv_no_ineq. apply Hni; exact Hv. }
  split; [|split].
  - unfold c02_pre_ineq, nonanon_bvars. rewrite Hbv. fold (nonanon_vars p).
    unfold ineq_vars. rewrite (filter_none _ (fun v => negb (no_ineq_var v)) (pvars p));
      [|intros v Hv; rewrite (Hni v Hv); reflexivity].
    rewrite Hsup, Hwfp, Hwff, Hvff, Hasp, Hasf, Hvfs, Hsort, Hrep.
    cbn [map sorted_keys forallb same_keys andb].
    rewrite (forallb_impl _ (fun k => smem k (nonanon_vars p))
               (fun k => smem k (nonanon_vars p) && negb (smem k [])) (map fst sg));
      [| intros k Hk; rewrite Hk; reflexivity | exact Hk1].
    rewrite (forallb_impl _ (fun v => is_optional v || smem v (map fst sg))
               (fun v => is_optional v || negb (no_ineq_var v) || smem v (map fst sg)) (nonanon_vars p));
      [reflexivity | | exact Hk2].
    intros v Hv. destruct (is_optional v); [reflexivity|]. cbn [orb] in Hv. rewrite Hv. apply orb_true_r.
  - apply bunion_nil. exact Hsort.
  - intros He. unfold embeds_opt in He. unfold embeds_ineq.
    apply (embeds_with_impl (unassigned sg) (assigned_to sg)); [|exact He].
    intros s Hs. split; [reflexivity|]. intros _ y Hy. unfold ineq_at.
    specialize (Hni s Hs). unfold no_ineq_var in Hni. destruct (ineq_parse s); [discriminate | exact Hy].
Qed.

(** * Why the bounds must be given *)
(** an inequality variable without a bound among the bindings is an ordinary
    variable: it is bound itself, its counterpart is not *)
Lemma inequality_without_bound_refuted :
  exists p f sg,
    embeds_ineq [("?<n", JNum 160)] sg p f = true /\
    Match p f [] = Ok [[("?<n", JNum 48)]] /\ sg = [("?n", JNum 48)].
Proof.
  exists (JObj [("n", JStr "?<n")]), (JObj [("n", JNum 48)]), [("?n", JNum 48)].
  vm_compute. repeat split; reflexivity.
Qed.

(** * Non-vacuity *)
(** inequality variables as an object value, inside an array and as the
    variable of an array; a repeated inequality variable; a counterpart that
    also occurs as a plain variable; an optional variable next to them *)
Definition exi_p : json :=
  JObj [("n", JStr "?<n"); ("m", JStr "?n"); ("t", JStr "?>=lo"); ("u", JStr "?<n");
        ("l", JArr [JObj [("w", JStr "?!=w")]; JStr "?<=top"]); ("o", JStr "??opt")].
Definition exi_f : json :=
  JObj [("n", JNum 48); ("m", JNum 48); ("t", JNum 20); ("u", JNum 48);
        ("l", JArr [JNum 28; JObj [("w", JNum 8); ("z", JNull)]]); ("extra", JBool true)].
Definition exi_bs0 : bindings :=
  [("?!=w", JNum 12); ("?<=top", JNum 28); ("?<n", JNum 160); ("?>=lo", JNum 20)].
Definition exi_sg : bindings :=
  [("?lo", JNum 20); ("?n", JNum 48); ("?top", JNum 28); ("?w", JNum 8)].

Example exi_pre : c02_pre_ineq exi_p exi_f exi_bs0 exi_sg = true.
Proof. vm_compute. reflexivity. Qed.
Example exi_embeds : embeds_ineq exi_bs0 exi_sg exi_p exi_f = true.
Proof. vm_compute. reflexivity. Qed.
Example exi_found :
  match Match exi_p exi_f exi_bs0 with Ok r => c02_found (bunion exi_bs0 exi_sg) r | _ => false end = true.
Proof. vm_compute. reflexivity. Qed.
Example exi_has_inequality : negb (forallb no_ineq_var (pvars exi_p)) = true.
Proof. vm_compute. reflexivity. Qed.

Print Assumptions match_complete_ineq.
