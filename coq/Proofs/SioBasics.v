(** Basic lemmas for the sio crew proofs: association lists keyed by machine
    id ([aget]/[aset]/[adel]), key-sorted lists as canonical forms, [dedup],
    [smem]. *)
From Coq Require Import List String Bool Arith Lia Permutation.
From Sheens Require Import Model.SioCrew Proofs.SortKvs.
Import ListNotations.
Open Scope string_scope.
Open Scope list_scope.

Lemma eqb_refl' s : String.eqb s s = true.
Proof. apply String.eqb_refl. Qed.

Lemma compare_refl s : String.compare s s = Eq.
Proof.
  pose proof (String.compare_antisym s s) as H.
  destruct (String.compare s s); cbn in H; congruence.
Qed.

Lemma compare_eqb_false a b : String.compare a b <> Eq -> String.eqb a b = false.
Proof.
  intros H. destruct (String.eqb a b) eqn:E; auto.
  apply String.eqb_eq in E. subst. rewrite compare_refl in H. congruence.
Qed.

Lemma compare_gt_lt a b : String.compare a b = Gt -> String.compare b a = Lt.
Proof. intros H. rewrite String.compare_antisym, H. reflexivity. Qed.
Lemma compare_lt_gt a b : String.compare a b = Lt -> String.compare b a = Gt.
Proof. intros H. rewrite String.compare_antisym, H. reflexivity. Qed.

(** ** aget / aset / adel *)
Section Assoc.
Context {A : Type}.
Implicit Types (m : list (string * A)) (k : string) (v : A).

Lemma aget_aset_eq k v m : aget k (aset k v m) = Some v.
Proof.
  induction m as [|[k' v'] r IH]; simpl.
  - rewrite eqb_refl'. reflexivity.
  - destruct (String.compare k k') eqn:C; simpl.
    + rewrite eqb_refl'. reflexivity.
    + rewrite eqb_refl'. reflexivity.
    + rewrite compare_eqb_false by congruence. exact IH.
Qed.

Lemma aget_aset_neq k k' v m : k' <> k -> aget k' (aset k v m) = aget k' m.
Proof.
  intros N. induction m as [|[k2 v2] r IH]; simpl.
  - destruct (String.eqb k' k) eqn:E; auto. apply String.eqb_eq in E. contradiction.
  - destruct (String.compare k k2) eqn:C; simpl.
    + apply String.compare_eq_iff in C. subst k2.
      destruct (String.eqb k' k) eqn:E; auto. apply String.eqb_eq in E. contradiction.
    + destruct (String.eqb k' k) eqn:E; auto. apply String.eqb_eq in E. contradiction.
    + destruct (String.eqb k' k2); auto.
Qed.

Lemma aget_aset k k' v m :
  aget k' (aset k v m) = if String.eqb k' k then Some v else aget k' m.
Proof.
  destruct (String.eqb k' k) eqn:E.
  - apply String.eqb_eq in E. subst. apply aget_aset_eq.
  - apply aget_aset_neq. intros ->. rewrite eqb_refl' in E. discriminate.
Qed.

Lemma aget_adel_eq k m : aget k (adel k m) = None.
Proof.
  induction m as [|[k' v'] r IH]; simpl; auto.
  destruct (String.eqb k k') eqn:E; simpl; auto. rewrite E. exact IH.
Qed.

Lemma aget_adel_neq k k' m : k' <> k -> aget k' (adel k m) = aget k' m.
Proof.
  intros N. induction m as [|[k2 v2] r IH]; simpl; auto.
  destruct (String.eqb k k2) eqn:E; simpl.
  - apply String.eqb_eq in E. subst k2.
    destruct (String.eqb k' k) eqn:E2; auto. apply String.eqb_eq in E2. contradiction.
  - destruct (String.eqb k' k2); auto.
Qed.

Lemma aget_adel k k' m :
  aget k' (adel k m) = if String.eqb k' k then None else aget k' m.
Proof.
  destruct (String.eqb k' k) eqn:E.
  - apply String.eqb_eq in E. subst. apply aget_adel_eq.
  - apply aget_adel_neq. intros ->. rewrite eqb_refl' in E. discriminate.
Qed.

Lemma aget_in_keys k m : aget k m <> None <-> In k (map fst m).
Proof.
  induction m as [|[k' v'] r IH]; simpl.
  - split; [congruence | tauto].
  - destruct (String.eqb k k') eqn:E.
    + apply String.eqb_eq in E. subst. split; [auto | congruence].
    + rewrite IH. split; [auto | intros [H|H]; auto].
      subst. rewrite eqb_refl' in E. discriminate.
Qed.

Lemma aget_none_not_in k m : aget k m = None <-> ~ In k (map fst m).
Proof.
  rewrite <- aget_in_keys. destruct (aget k m); split; intros; try congruence; try tauto.
  exfalso. apply H. congruence.
Qed.

Lemma aget_some_in k v m : aget k m = Some v -> In (k, v) m.
Proof.
  induction m as [|[k' v'] r IH]; simpl; [congruence|].
  destruct (String.eqb k k') eqn:E.
  - apply String.eqb_eq in E. subst. intros [= ->]. auto.
  - auto.
Qed.

Lemma aget_nodup_in k v m : NoDup (map fst m) -> In (k, v) m -> aget k m = Some v.
Proof.
  induction m as [|[k' v'] r IH]; simpl; [tauto|].
  intros ND [H|H].
  - inversion H; subst. rewrite eqb_refl'. reflexivity.
  - inversion ND as [|? ? NI ND']; subst.
    destruct (String.eqb k k') eqn:E.
    + apply String.eqb_eq in E. subst. exfalso. apply NI.
      change k' with (fst (k', v)). apply in_map. exact H.
    + auto.
Qed.

(** ** key-sorted lists *)
Fixpoint lt_all k m : Prop :=
  match m with
  | [] => True
  | (k', _) :: r => String.compare k k' = Lt /\ lt_all k r
  end.
Fixpoint ssorted m : Prop :=
  match m with
  | [] => True
  | (k, _) :: r => lt_all k r /\ ssorted r
  end.

Lemma lt_all_trans k k' m : String.compare k k' = Lt -> lt_all k' m -> lt_all k m.
Proof.
  intros H. induction m as [|[k2 v2] r IH]; simpl; auto.
  intros [H1 H2]. split; auto. eapply string_compare_lt_trans; eauto.
Qed.

Lemma lt_all_aget k m : lt_all k m -> aget k m = None.
Proof.
  induction m as [|[k' v'] r IH]; simpl; auto.
  intros [H1 H2]. rewrite compare_eqb_false by congruence. auto.
Qed.

Lemma lt_all_aset k k' v m : String.compare k k' = Lt -> lt_all k m -> lt_all k (aset k' v m).
Proof.
  intros H. induction m as [|[k2 v2] r IH]; simpl.
  - auto.
  - intros [H1 H2]. destruct (String.compare k' k2) eqn:C; simpl; auto.
Qed.

Lemma aset_ssorted k v m : ssorted m -> ssorted (aset k v m).
Proof.
  induction m as [|[k' v'] r IH]; simpl; auto.
  intros [H1 H2]. destruct (String.compare k k') eqn:C; simpl.
  - apply String.compare_eq_iff in C. subst. auto.
  - split; auto. split; auto. eapply lt_all_trans; eauto.
  - split; auto. apply lt_all_aset; auto. apply compare_gt_lt. exact C.
Qed.

Lemma lt_all_adel k k' m : lt_all k m -> lt_all k (adel k' m).
Proof.
  induction m as [|[k2 v2] r IH]; simpl; auto.
  intros [H1 H2]. destruct (String.eqb k' k2); simpl; auto.
Qed.

Lemma adel_ssorted k m : ssorted m -> ssorted (adel k m).
Proof.
  induction m as [|[k' v'] r IH]; simpl; auto.
  intros [H1 H2]. destruct (String.eqb k k'); simpl; auto.
  split; auto. apply lt_all_adel. exact H1.
Qed.

(** two key-sorted lists with the same contents are the same list *)
Lemma ssorted_ext m m' :
  ssorted m -> ssorted m' -> (forall k, aget k m = aget k m') -> m = m'.
Proof.
  revert m'. induction m as [|[k v] r IH]; intros [|[k' v'] r']; simpl; intros S1 S2 E.
  - reflexivity.
  - specialize (E k'). rewrite eqb_refl' in E. discriminate.
  - specialize (E k). rewrite eqb_refl' in E. discriminate.
  - destruct S1 as [L1 S1]. destruct S2 as [L2 S2].
    assert (K : k = k').
    { destruct (String.compare k k') eqn:C.
      - apply String.compare_eq_iff in C. exact C.
      - (* k < k': k is not in the second list *)
        pose proof (E k) as Ek. rewrite eqb_refl' in Ek.
        rewrite compare_eqb_false in Ek by congruence.
        rewrite (lt_all_aget k r') in Ek; [discriminate|].
        eapply lt_all_trans; eauto.
      - pose proof (E k') as Ek. rewrite eqb_refl' in Ek.
        apply compare_gt_lt in C.
        rewrite compare_eqb_false in Ek by congruence.
        rewrite (lt_all_aget k' r) in Ek; [discriminate|].
        eapply lt_all_trans; eauto. }
    subst k'. pose proof (E k) as Ek. rewrite eqb_refl' in Ek. injection Ek as ->.
    f_equal. apply IH; auto.
    intros k2. specialize (E k2). destruct (String.eqb k2 k) eqn:E2; auto.
    apply String.eqb_eq in E2. subst.
    rewrite (lt_all_aget _ _ L1), (lt_all_aget _ _ L2). reflexivity.
Qed.

Lemma lt_all_not_in k m : lt_all k m -> ~ In k (map fst m).
Proof. intros H. apply aget_none_not_in. apply lt_all_aget. exact H. Qed.

Lemma ssorted_nodup m : ssorted m -> NoDup (map fst m).
Proof.
  induction m as [|[k v] r IH]; simpl; [constructor|].
  intros [L S]. constructor; auto. apply lt_all_not_in. exact L.
Qed.
End Assoc.

(** ** smem, dedup, strings_of *)
Lemma smem_in s l : smem s l = true <-> In s l.
Proof.
  induction l as [|x r IH]; simpl; [split; [discriminate|tauto]|].
  rewrite orb_true_iff, IH, String.eqb_eq. split; intros [H|H]; auto.
Qed.
Lemma smem_false s l : smem s l = false <-> ~ In s l.
Proof. rewrite <- smem_in. destruct (smem s l); split; intros; congruence. Qed.

Lemma in_filter_neq (x y : string) l :
  In y (filter (fun z => negb (String.eqb x z)) l) <-> In y l /\ x <> y.
Proof.
  rewrite filter_In, negb_true_iff. split; intros [H1 H2]; split; auto.
  - intros ->. rewrite eqb_refl' in H2. discriminate.
  - destruct (String.eqb x y) eqn:E; auto. apply String.eqb_eq in E. contradiction.
Qed.

Lemma dedup_in x l : In x (dedup l) <-> In x l.
Proof.
  induction l as [|y r IH]; simpl; [tauto|].
  rewrite in_filter_neq, IH. split.
  - intros [H|[H _]]; auto.
  - intros [H|H]; auto. destruct (string_dec y x); auto.
Qed.

Lemma NoDup_filter {A} (f : A -> bool) l : NoDup l -> NoDup (filter f l).
Proof.
  induction 1 as [|x l NI ND IH]; simpl; [constructor|].
  destruct (f x); auto. constructor; auto. rewrite filter_In. tauto.
Qed.

Lemma dedup_nodup l : NoDup (dedup l).
Proof.
  induction l as [|y r IH]; simpl; constructor.
  - rewrite in_filter_neq. tauto.
  - apply NoDup_filter. exact IH.
Qed.

Lemma dedup_id l : NoDup l -> dedup l = l.
Proof.
  induction 1 as [|x l NI ND IH]; simpl; auto.
  rewrite IH. f_equal. clear IH ND. induction l as [|y r IHr]; simpl; auto.
  destruct (String.eqb x y) eqn:E; simpl.
  - apply String.eqb_eq in E. subst. exfalso. apply NI. left. reflexivity.
  - f_equal. apply IHr. intros H. apply NI. right. exact H.
Qed.

Lemma strings_of_in s l : In s (strings_of l) <-> In (JStr s) l.
Proof.
  induction l as [|x r IH]; simpl; [tauto|].
  destruct x; simpl; rewrite IH; split; intros H; auto;
    try (destruct H as [H|H]; [discriminate|auto]).
  - destruct H as [H|H]; [left; congruence | auto].
  - destruct H as [H|H]; [left; congruence | auto].
Qed.

Lemma count_occ_nodup (l : list string) x :
  NoDup l -> count_occ string_dec l x = if smem x l then 1 else 0.
Proof.
  induction 1 as [|y l NI ND IH]; simpl; auto.
  destruct (string_dec y x) as [->|N].
  - rewrite eqb_refl'. simpl. rewrite IH.
    apply smem_false in NI. rewrite NI. reflexivity.
  - rewrite IH. destruct (String.eqb x y) eqn:E; auto.
    apply String.eqb_eq in E. subst. contradiction.
Qed.
