(** The implementations BEFORE the repairs (D16, D17): the statements that are
    theorems of the repaired models are false of [cstep_pre].  Each witness is
    a concrete schedule, checked by evaluation; replayed on the unrepaired Go
    code it is the finding (the corpus scenarios of harness/timers.go). *)
From Coq Require Import ZArith List Bool Arith Lia.
From Sheens Require Import Model.Timers.
Import ListNotations.
Local Open Scope Z_scope.

Definition the (o : option cstate) : cstate := match o with Some s => s | None => cinit end.

(** D16, first schedule: while the handler of x's message runs, x is still in
    the map: the handler's add is refused *)
Definition d16a : list clabel :=
  [CVis (VTick 0); CVis (VAdd 0 0 15 true); CVis (VTick 15); CTimerC 0; CVis (VReport 0)].

Theorem mcrew_prefix_id_not_free_in_handler :
  exists s, cexec_pre Mcrew cinit d16a = Some s /\
            (exists r, In r (cgors s) /\ gg r = 0%nat /\ gpc r = Emitting) /\
            cstep_pre Mcrew s (CVis (VAdd 1 0 15 true)) = None /\
            cstep_pre Mcrew s (CVis (VAdd 1 0 15 false)) = Some s.
Proof.
  exists (the (cexec_pre Mcrew cinit d16a)). split; [vm_compute; reflexivity|].
  split; [|split; vm_compute; reflexivity].
  eexists. split; [vm_compute; left; reflexivity|]. split; reflexivity.
Qed.

(** the repaired model accepts the add at the same point *)
Theorem mcrew_id_free_in_handler_now :
  exists s s', cexec Mcrew cinit
                 [CVis (VTick 0); CVis (VAdd 0 0 15 true); CVis (VTick 15); CTimerC 0; CClaim 0;
                  CVis (VReport 0)] = Some s /\
               (exists r, In r (cgors s) /\ gg r = 0%nat /\ gpc r = Emitting) /\
               cstep Mcrew s (CVis (VAdd 1 0 15 true)) = Some s' /\
               cstep Mcrew s (CVis (VAdd 1 0 15 false)) = None.
Proof.
  eexists. eexists. split; [vm_compute; reflexivity|].
  split; [|split; vm_compute; reflexivity].
  eexists. split; [left; reflexivity|]. split; reflexivity.
Qed.

(** D16, second schedule: the handler cancels x (accepted: x is still in the
    map although it has fired) and re-creates it; when emit returns the old
    goroutine deletes the NEW entry.  The new timer is live, not in the map,
    not cancellable, and fires. *)
Definition d16b : list clabel :=
  [CVis (VTick 0); CVis (VAdd 0 0 15 true); CVis (VTick 15); CTimerC 0; CVis (VReport 0);
   CVis (VRem 0 true); CVis (VAdd 1 0 15 true); CRet 0; CClean 0].

Definition d16b_state : cstate := the (cexec_pre Mcrew cinit d16b).

Lemma d16b_run : cexec_pre Mcrew cinit d16b = Some d16b_state.
Proof. vm_compute. reflexivity. Qed.

Theorem mcrew_prefix_map_is_pending_refuted :
  ~ (forall tr s, cexec_pre Mcrew cinit tr = Some s -> c_map_is_pending s).
Proof.
  intros H. specialize (H d16b d16b_state d16b_run (mkTm 1 0 30)). destruct H as [_ H].
  assert (Hin : In (mkTm 1 0 30) (cmap d16b_state)).
  { apply H. vm_compute. split; [right; left; reflexivity|].
    repeat split; intros X; repeat (destruct X as [X|X]; [discriminate|]); exact X. }
  vm_compute in Hin. exact Hin.
Qed.

Theorem mcrew_prefix_live_timer_not_in_map :
  exists r, In r (cgors d16b_state) /\ gpc r = Waiting /\ gclosed r = false /\
            ~ In (gtm r) (cmap d16b_state) /\
            (* a cancel request does not find it ... *)
            cstep_pre Mcrew d16b_state (CVis (VRem 0 true)) = None /\
            (* ... and it fires *)
            exists s', cexec_pre Mcrew d16b_state [CVis (VTick 30); CTimerC 1; CVis (VReport 1)] = Some s' /\
                       In (1%nat, 30) (cfired s').
Proof.
  exists (mkGor (mkTm 1 0 30) Waiting false).
  split; [vm_compute; right; left; reflexivity|].
  split; [reflexivity|]. split; [reflexivity|].
  split; [vm_compute; intros X; exact X|].
  split; [vm_compute; reflexivity|].
  eexists. split; [vm_compute; reflexivity|]. left. reflexivity.
Qed.

(** D16, third schedule: Rem succeeds at the due time (closing ctl); the
    select, with timer.C and ctl both ready, takes timer.C: the cancelled
    timer fires *)
Definition d16c : list clabel :=
  [CVis (VTick 0); CVis (VAdd 0 0 15 true); CVis (VTick 15); CVis (VRem 0 true); CTimerC 0;
   CVis (VReport 0)].

Definition d16c_state : cstate := the (cexec_pre Mcrew cinit d16c).

Lemma d16c_run : cexec_pre Mcrew cinit d16c = Some d16c_state.
Proof. vm_compute. reflexivity. Qed.

Theorem mcrew_prefix_not_after_cancel_refuted :
  ~ (forall tr s, cexec_pre Mcrew cinit tr = Some s -> c_not_after_cancel s).
Proof.
  intros H. destruct (H d16c d16c_state d16c_run 0%nat) as [H1 _].
  - vm_compute. left. reflexivity.
  - apply H1. vm_compute. left. reflexivity.
Qed.

(** the same schedule is not a run of the repaired model: after the
    successful Rem the goroutine can only skip *)
Theorem mcrew_rem_at_due_now :
  exists s, cexec Mcrew cinit
              [CVis (VTick 0); CVis (VAdd 0 0 15 true); CVis (VTick 15); CVis (VRem 0 true); CTimerC 0]
            = Some s /\
            cstep Mcrew s (CClaim 0) = None /\ cstep Mcrew s (CVis (VReport 0)) = None /\
            exists s', cstep Mcrew s (CSkip 0) = Some s' /\ cfired s' = [].
Proof.
  eexists. split; [vm_compute; reflexivity|].
  split; [vm_compute; reflexivity|]. split; [vm_compute; reflexivity|].
  eexists. split; [vm_compute; reflexivity|]. reflexivity.
Qed.

(** D17: sio's add on a pending id cancels it, drops the new timer and
    reports success: an accepted timer that is not pending and has no
    goroutine, so it never fires *)
Definition d17a : list clabel :=
  [CVis (VTick 0); CVis (VAdd 0 0 15 true); CVis (VTick 1); CVis (VAdd 1 0 15 true)].

Definition d17a_state : cstate := the (cexec_pre Sio cinit d17a).

Lemma d17a_run : cexec_pre Sio cinit d17a = Some d17a_state.
Proof. vm_compute. reflexivity. Qed.

Theorem sio_prefix_map_is_pending_refuted :
  ~ (forall tr s, cexec_pre Sio cinit tr = Some s -> c_map_is_pending s).
Proof.
  intros H. specialize (H d17a d17a_state d17a_run (mkTm 1 0 16)). destruct H as [_ H].
  assert (Hin : In (mkTm 1 0 16) (cmap d17a_state)).
  { apply H. vm_compute. split; [right; left; reflexivity|].
    repeat split; intros X; repeat (destruct X as [X|X]; [discriminate|]); exact X. }
  vm_compute in Hin. exact Hin.
Qed.

Theorem sio_prefix_accepted_timer_has_no_goroutine :
  In (mkTm 1 0 16) (cknown d17a_state) /\ ~ In 1%nat (ccancelled d17a_state) /\
  find_gor 1 (cgors d17a_state) = None /\ cmap d17a_state = [].
Proof.
  vm_compute. split; [right; left; reflexivity|]. split; [|split; reflexivity].
  intros [X|X]; [discriminate | exact X].
Qed.

(** D17: sio's goroutine also deletes by id after the message was sent: a
    cancel in the handler succeeds on a timer that has fired *)
Definition d17b : list clabel :=
  [CVis (VTick 0); CVis (VAdd 0 0 15 true); CVis (VTick 15); CTimerC 0; CVis (VReport 0);
   CVis (VRem 0 true)].

Definition d17b_state : cstate := the (cexec_pre Sio cinit d17b).

Lemma d17b_run : cexec_pre Sio cinit d17b = Some d17b_state.
Proof. vm_compute. reflexivity. Qed.

Theorem sio_prefix_not_after_cancel_refuted :
  ~ (forall tr s, cexec_pre Sio cinit tr = Some s -> c_not_after_cancel s).
Proof.
  intros H. destruct (H d17b d17b_state d17b_run 0%nat) as [H1 _].
  - vm_compute. left. reflexivity.
  - apply H1. vm_compute. left. reflexivity.
Qed.
