(** C10: isolation lemmas about Model/JsRuntime.v.

    - the result of an execution does not depend on the world it starts from
      when the policy's [pol_acquire] ignores the world (the code: goja.New()
      and a fresh env map) - hence not on any history of executions;
    - with deep-copied bindings no jscript changes the caller's bindings;
    - with props copied one level deep the top level of the caller's props
      (keys, scalar values, kinds of the containers) is never changed, and
      nothing at all is changed by a script without a nested props write;
    - sequences over shared caller objects: every execution gives the result
      it gives alone, under that side condition;
    - the pooled-runtime, shared-env, no-copy policies and the full-strength
      props statement are refuted by evaluated witnesses. *)
From Sheens Require Import Model.JsRuntime Model.ConcJs Proofs.ConcBase.
From Coq Require Import Lia.
Local Arguments String.eqb : simpl never.

(** * World independence *)

Definition ignores_world (p : policy) : Prop := forall w w', pol_acquire p w = pol_acquire p w'.

Lemma exec_world_independent :
  forall p, ignores_world p ->
  forall w w' s c, snd (exec p w s c) = snd (exec p w' s c).
Proof.
  intros p Hp w w' s c. unfold exec. rewrite (Hp w w').
  destruct (jrun_ops _ _) as [x failed]. reflexivity.
Qed.

Lemma history_free :
  forall p, ignores_world p ->
  forall h w s c, exec_after p w h s c = snd (exec p w s c).
Proof.
  intros p Hp h w s c. unfold exec_after. apply exec_world_independent. exact Hp.
Qed.

Lemma faithful_ignores_world : ignores_world faithful.
Proof. intros w w'. reflexivity. Qed.

(** * Frame lemmas on the aliasing discipline *)

Lemma caller_upd_other_bs :
  forall f path c, c_bs (caller_upd f RProps path c) = c_bs c.
Proof.
  intros f path c. unfold caller_upd. destruct (c_props c) as [b|]; [|reflexivity].
  destruct (jupd f path (JObj b)) as [j|]; [|reflexivity].
  destruct j; reflexivity.
Qed.

Lemma caller_upd_other_props :
  forall f path c, c_props (caller_upd f RBs path c) = c_props c.
Proof.
  intros f path c. unfold caller_upd. destruct (c_bs c) as [b|]; [|reflexivity].
  destruct (jupd f path (JObj b)) as [j|]; [|reflexivity].
  destruct j; reflexivity.
Qed.

Lemma write_through_bs :
  forall f p als c,
  Forall (fun a => al_root a = RProps) als ->
  c_bs (write_through f p als c) = c_bs c.
Proof.
  intros f p als. induction als as [|a r IH]; intros c Hall; simpl; [reflexivity|].
  inversion Hall as [|a' r' Ha Hr]; subst.
  rewrite IH by exact Hr.
  destruct (strip_prefix (al_view a) p) as [[|x rest]|]; try reflexivity.
  rewrite Ha. apply caller_upd_other_bs.
Qed.

Lemma drop_aliases_Forall :
  forall (P : alias -> Prop) p als, Forall P als -> Forall P (drop_aliases p als).
Proof.
  intros P p als H. unfold drop_aliases. induction H as [|a r Ha Hr IH]; simpl; [constructor|].
  destruct (negb (is_prefix p (al_view a))); [constructor; assumption | assumption].
Qed.

(** every operation keeps an alias invariant [P] and the part [proj] of the
    caller that write-through under [P] cannot reach *)
Section Frame.
  Variable A : Type.
  Variable proj : caller -> A.
  Variable P : alias -> Prop.
  Variable ok : jop -> Prop.      (* side condition on the operations *)
  Hypothesis frame_put : forall v p als c, ok (OAssign p v) -> Forall P als ->
                                           proj (write_through (put_at v) p als c) = proj c.
  Hypothesis frame_del : forall p als c, ok (ODelete p) -> Forall P als ->
                                         proj (write_through del_at p als c) = proj c.

  Lemma do_op_frame :
    forall op x x', ok op -> do_op op x = Some x' -> Forall P (x_alias x) ->
    proj (x_caller x') = proj (x_caller x) /\ Forall P (x_alias x').
  Proof.
    intros op x x' Hok H Hinv. destruct op; simpl in H.
    - destruct (env_assign path v (x_env x)); inversion H; subst; simpl.
      split; [apply frame_put; assumption | apply drop_aliases_Forall; assumption].
    - destruct (env_delete path (x_env x)); inversion H; subst; simpl.
      split; [apply frame_del; assumption | apply drop_aliases_Forall; assumption].
    - inversion H; subst; simpl; auto.
    - inversion H; subst; simpl; auto.
    - destruct (eget "out" (x_env x)) as [[| |]|]; inversion H; subst; simpl; auto.
    - inversion H; subst; simpl; auto.
    - inversion H; subst; simpl; auto.
    - inversion H; subst; simpl; auto.
    - inversion H; subst; simpl; auto.
  Qed.

  Lemma run_ops_frame :
    forall ops x, Forall ok ops -> Forall P (x_alias x) ->
    proj (x_caller (fst (jrun_ops ops x))) = proj (x_caller x).
  Proof.
    induction ops as [|op r IH]; intros x Hok Hinv; simpl; [reflexivity|].
    inversion Hok as [|o r' Ho Hr]; subst.
    destruct (do_op op x) as [x'|] eqn:E; [|reflexivity].
    destruct (do_op_frame op x x' Ho E Hinv) as [Hc Hi].
    rewrite IH by assumption. exact Hc.
  Qed.
End Frame.

Lemma aliases_of_root :
  forall m member r v, Forall (fun a => al_root a = r) (aliases_of m member r v).
Proof.
  intros m member r v. destruct m, v as [kvs|]; simpl; try constructor.
  - apply Forall_forall. intros a Ha. apply in_map_iff in Ha. destruct Ha as [kv [E _]]. subst. reflexivity.
  - reflexivity.
  - constructor.
Qed.

Lemma Forall_true : forall (A : Type) (l : list A), Forall (fun _ => True) l.
Proof. intros A l. induction l; constructor; auto. Qed.

(** * Bindings intact (deep copy) *)

Theorem bindings_intact :
  forall p, pol_bs p = Deep ->
  forall w s c, c_bs (snd (snd (exec p w s c))) = c_bs c.
Proof.
  intros p Hdeep w s c. unfold exec, exec_start. rewrite Hdeep.
  destruct (jrun_ops _ _) as [x failed] eqn:E. simpl.
  change x with (fst (x, failed)). rewrite <- E.
  rewrite (run_ops_frame _ c_bs (fun a => al_root a = RProps) (fun _ => True)).
  - reflexivity.
  - intros v p0 als c0 _ H. apply write_through_bs. exact H.
  - intros p0 als c0 _ H. apply write_through_bs. exact H.
  - apply Forall_true.
  - simpl. apply aliases_of_root.
Qed.

(** * Props: top level intact under a one-level copy *)

(** the kind of a value: scalars with their value, containers by sort only *)
Definition kind (j : json) : nat * json :=
  match j with
  | JObj _ => (1, JNull)
  | JArr _ => (2, JNull)
  | s => (0, s)
  end.
Definition top_shape (kvs : bindings) : list (string * (nat * json)) :=
  map (fun kv : string * json => (fst kv, kind (snd kv))) kvs.

Definition keeps_kind (f : json -> string -> option json) : Prop :=
  forall c k c', f c k = Some c' -> is_container c = true /\ kind c' = kind c.

Lemma put_at_keeps_kind : forall v, keeps_kind (put_at v).
Proof.
  intros v c k c' H. destruct c; simpl in H; try discriminate.
  - destruct (idx_of k); [|discriminate]. destruct (list_set n v l); inversion H. split; reflexivity.
  - inversion H. split; reflexivity.
Qed.
Lemma del_at_keeps_kind : keeps_kind del_at.
Proof. intros c k c' H. destruct c; simpl in H; try discriminate. inversion H. split; reflexivity. Qed.

Lemma jupd_cons2 :
  forall f k x rest j,
  jupd f (k :: x :: rest) j =
  match j with
  | JObj kvs =>
      match assoc k kvs with
      | Some c => match jupd f (x :: rest) c with
                  | Some c' => Some (JObj (kv_replace k c' kvs))
                  | None => None
                  end
      | None => None
      end
  | JArr l =>
      match idx_of k with
      | Some i =>
          match nth_error l i with
          | Some c => match jupd f (x :: rest) c with
                      | Some c' => option_map JArr (list_set i c' l)
                      | None => None
                      end
          | None => None
          end
      | None => None
      end
  | _ => None
  end.
Proof. reflexivity. Qed.

Lemma jupd_kind :
  forall f, keeps_kind f ->
  forall path j j', jupd f path j = Some j' -> is_container j = true /\ kind j' = kind j.
Proof.
  intros f Hf. induction path as [|k rest IH]; intros j j' H; [discriminate|].
  destruct rest as [|x rest'].
  - simpl in H. apply Hf in H. exact H.
  - rewrite jupd_cons2 in H. destruct j as [| | | |l|kvs]; try discriminate.
    + destruct (idx_of k) as [i|]; [|discriminate]. destruct (nth_error l i) as [c|]; [|discriminate].
      destruct (jupd f (x :: rest') c) as [c'|]; [|discriminate].
      destruct (list_set i c' l) as [l'|]; simpl in H; [|discriminate].
      inversion H. split; reflexivity.
    + destruct (assoc k kvs) as [c|]; [|discriminate].
      destruct (jupd f (x :: rest') c) as [c'|]; [|discriminate].
      inversion H. split; reflexivity.
Qed.

Lemma top_shape_replace :
  forall k c c' kvs, assoc k kvs = Some c -> kind c' = kind c ->
  top_shape (kv_replace k c' kvs) = top_shape kvs.
Proof.
  intros k c c'. induction kvs as [|[k0 v0] r IH]; intros Ha Hk; simpl in *; [reflexivity|].
  destruct (String.eqb k k0) eqn:E.
  - inversion Ha; subst. simpl. rewrite Hk. reflexivity.
  - simpl. rewrite IH by assumption. reflexivity.
Qed.

Lemma jupd_top_shape :
  forall f, keeps_kind f ->
  forall k x rest kvs kvs',
  jupd f (k :: x :: rest) (JObj kvs) = Some (JObj kvs') -> top_shape kvs' = top_shape kvs.
Proof.
  intros f Hf k x rest kvs kvs' H. rewrite jupd_cons2 in H.
  destruct (assoc k kvs) as [c|] eqn:Ea; [|discriminate].
  destruct (jupd f (x :: rest) c) as [c'|] eqn:Eu; [|discriminate].
  inversion H; subst.
  apply jupd_kind in Eu; [|exact Hf]. destruct Eu as [_ Hk].
  eapply top_shape_replace; eassumption.
Qed.

Definition props_shape (c : caller) : option (list (string * (nat * json))) :=
  option_map top_shape (c_props c).

Lemma caller_upd_props_shape :
  forall f, keeps_kind f ->
  forall r k x rest c, props_shape (caller_upd f r (k :: x :: rest) c) = props_shape c.
Proof.
  intros f Hf r k x rest c. unfold props_shape. destruct r.
  - rewrite caller_upd_other_props. reflexivity.
  - unfold caller_upd. destruct (c_props c) as [b|] eqn:Ep; [|rewrite Ep; reflexivity].
    destruct (jupd f (k :: x :: rest) (JObj b)) as [j|] eqn:Eu; [|rewrite Ep; reflexivity].
    destruct j; try (rewrite Ep; reflexivity).
    simpl. f_equal. eapply jupd_top_shape; eassumption.
Qed.

Lemma write_through_props_shape :
  forall f, keeps_kind f ->
  forall p als c, Forall (fun a => al_path a <> []) als ->
  props_shape (write_through f p als c) = props_shape c.
Proof.
  intros f Hf p als. induction als as [|a r IH]; intros c Hall; simpl; [reflexivity|].
  inversion Hall as [|a' r' Ha Hr]; subst.
  rewrite IH by exact Hr.
  destruct (strip_prefix (al_view a) p) as [[|x rest]|]; try reflexivity.
  destruct (al_path a) as [|k cp] eqn:Ecp; [congruence|].
  simpl. destruct cp as [|k2 cp']; simpl; apply caller_upd_props_shape; exact Hf.
Qed.

Lemma aliases_of_shallow_path :
  forall member r v, Forall (fun a => al_path a <> []) (aliases_of Shallow member r v).
Proof.
  intros member r v. destruct v as [kvs|]; simpl; [|constructor].
  apply Forall_forall. intros a Ha. apply in_map_iff in Ha. destruct Ha as [kv [E _]]. subst. simpl. discriminate.
Qed.

Lemma aliases_of_deep : forall member r v, aliases_of Deep member r v = [].
Proof. intros member r v. destruct v; reflexivity. Qed.

Theorem props_toplevel_intact :
  forall p, pol_bs p = Deep -> pol_props p = Shallow \/ pol_props p = Deep ->
  forall w s c, props_shape (snd (snd (exec p w s c))) = props_shape c.
Proof.
  intros p Hbs Hprops w s c. unfold exec, exec_start. rewrite Hbs.
  destruct (jrun_ops _ _) as [x failed] eqn:E. simpl.
  change x with (fst (x, failed)). rewrite <- E.
  rewrite (run_ops_frame _ props_shape (fun a => al_path a <> []) (fun _ => True)).
  - reflexivity.
  - intros v p0 als c0 _ H. apply write_through_props_shape; [apply put_at_keeps_kind | exact H].
  - intros p0 als c0 _ H. apply write_through_props_shape; [apply del_at_keeps_kind | exact H].
  - apply Forall_true.
  - cbn [x_alias]. rewrite aliases_of_deep. cbn [app].
    destruct Hprops as [H|H]; rewrite H.
    + apply aliases_of_shallow_path.
    + rewrite aliases_of_deep. constructor.
Qed.

(** * No nested props write: the caller's data is untouched *)

Definition props_view (a : alias) : Prop := exists k, al_view a = ["props"; k].

Lemma strip_prefix_props_nested :
  forall k p x rest, strip_prefix ["props"; k] p = Some (x :: rest) -> nested_props_path p = true.
Proof.
  intros k p x rest H. destruct p as [|m p1]; simpl in H; [discriminate|].
  destruct (String.eqb "props" m) eqn:Em; [|discriminate].
  destruct p1 as [|k' p2]; simpl in H; [discriminate|].
  destruct (String.eqb k k'); [|discriminate].
  inversion H; subst. simpl. rewrite String.eqb_sym. exact Em.
Qed.

Lemma write_through_not_nested :
  forall f p als c, nested_props_path p = false -> Forall props_view als ->
  write_through f p als c = c.
Proof.
  intros f p als. induction als as [|a r IH]; intros c Hn Hall; simpl; [reflexivity|].
  inversion Hall as [|a' r' Ha Hr]; subst.
  destruct Ha as [k Hk]. rewrite Hk.
  destruct (strip_prefix ["props"; k] p) as [[|x rest]|] eqn:Es; try (apply IH; assumption).
  apply strip_prefix_props_nested in Es. congruence.
Qed.

Lemma aliases_of_shallow_props_view :
  forall v, Forall props_view (aliases_of Shallow "props" RProps v).
Proof.
  intros v. destruct v as [kvs|]; simpl; [|constructor].
  apply Forall_forall. intros a Ha. apply in_map_iff in Ha. destruct Ha as [kv [E _]]. subst.
  exists (fst kv). reflexivity.
Qed.

Definition op_ok (op : jop) : Prop := op_nested_props_write op = false.

Lemma no_nested_ops : forall s, nested_props_write s = false -> Forall op_ok (scr_ops s).
Proof.
  intros s H. unfold nested_props_write in H. apply Forall_forall. intros op Hin.
  unfold op_ok. destruct (op_nested_props_write op) eqn:E; [|reflexivity].
  assert (existsb op_nested_props_write (scr_ops s) = true) as Hc.
  { apply existsb_exists. exists op. split; assumption. }
  congruence.
Qed.

Theorem no_nested_write_caller_intact :
  forall w s c, nested_props_write s = false -> snd (snd (exec faithful w s c)) = c.
Proof.
  intros w s c Hn. unfold exec, exec_start. simpl pol_bs. simpl pol_props.
  destruct (jrun_ops _ _) as [x failed] eqn:E. simpl.
  change x with (fst (x, failed)). rewrite <- E.
  rewrite (run_ops_frame _ (fun c => c) props_view op_ok).
  - reflexivity.
  - intros v p0 als c0 Hok H. apply write_through_not_nested; [exact Hok | exact H].
  - intros p0 als c0 Hok H. apply write_through_not_nested; [exact Hok | exact H].
  - apply no_nested_ops. exact Hn.
  - cbn [x_alias]. rewrite aliases_of_deep. cbn [app]. apply aliases_of_shallow_props_view.
Qed.

(** what a deep copy of props (a repair of D22) would establish: nothing a
    jscript does reaches the caller *)
Theorem deep_props_caller_intact :
  forall w s c, snd (snd (exec deep_props w s c)) = c.
Proof.
  intros w s c. unfold exec, exec_start. simpl pol_bs. simpl pol_props.
  destruct (jrun_ops _ _) as [x failed] eqn:E. simpl.
  change x with (fst (x, failed)). rewrite <- E.
  rewrite (run_ops_frame _ (fun c => c) (fun _ => False) (fun _ => True)).
  - reflexivity.
  - intros v p0 als c0 _ H. destruct als; [reflexivity | inversion H; contradiction].
  - intros p0 als c0 _ H. destruct als; [reflexivity | inversion H; contradiction].
  - apply Forall_true.
  - cbn [x_alias]. rewrite !aliases_of_deep. constructor.
Qed.

(** * Sequences over shared caller objects *)

Definition alone (s : jscript) (c : caller) : jres := fst (snd (exec faithful None s c)).

Theorem sequence_isolated :
  forall ss w c,
  forallb (fun s => negb (nested_props_write s)) ss = true ->
  fst (run_seq faithful w c ss) = map (fun s => (alone s c, c)) ss
  /\ snd (snd (run_seq faithful w c ss)) = c.
Proof.
  induction ss as [|s r IH]; intros w c H; simpl in *; [split; reflexivity|].
  apply andb_prop in H. destruct H as [Hs Hr].
  apply negb_true_iff in Hs.
  pose proof (no_nested_write_caller_intact w s c Hs) as Hc.
  pose proof (exec_world_independent faithful faithful_ignores_world w None s c) as Hw.
  destruct (exec faithful w s c) as [w' [res c']] eqn:E. simpl in Hc. subst c'.
  destruct (IH w' c Hr) as [IH1 IH2].
  destruct (run_seq faithful w' c r) as [obs fin] eqn:Er. simpl in *.
  split.
  - f_equal; [|exact IH1]. unfold alone. rewrite <- Hw. reflexivity.
  - exact IH2.
Qed.

(** * Concurrent executions

    Executions cut into atomic steps (start, one step per operation, return)
    and interleaved in any way, any number of them, of the same or of
    different scripts: under [faithful] the world is never written, so every
    execution that has had its turns has returned what [exec] returns alone. *)

Lemma faithful_step_read_only : forall w t, fst (exec_step faithful w t) = w.
Proof.
  intros w t. destruct t as [s c | ops tm x | r]; simpl; try reflexivity.
  destruct ops as [|op r]; simpl; [reflexivity|].
  destruct (do_op op x); reflexivity.
Qed.

Definition ethr_next (w : world) (t : ethr) : ethr := snd (exec_step faithful w t).

Lemma iterate_edone : forall w k r, iterate k (ethr_next w) (EDone r) = EDone r.
Proof. intros w k r. induction k as [|k IH]; simpl; [reflexivity | exact IH]. Qed.

Lemma run_thread :
  forall w ops tm x k, List.length ops < k ->
  iterate k (ethr_next w) (ERun ops tm x)
  = EDone (let '(x', failed) := jrun_ops ops x in ((if failed then RFail else finish tm x'), x_caller x')).
Proof.
  intros w ops. induction ops as [|op r IH]; intros tm x k Hk; (destruct k as [|k]; [simpl in Hk; lia|]).
  - simpl. unfold ethr_next at 2. simpl. apply iterate_edone.
  - simpl. unfold ethr_next at 2. simpl. destruct (do_op op x) as [x'|] eqn:E; simpl.
    + apply IH. simpl in Hk. lia.
    + apply iterate_edone.
Qed.

Lemma thread_is_exec :
  forall w s c k, S (List.length (scr_ops s)) < k ->
  iterate k (ethr_next w) (ENew s c) = EDone (snd (exec faithful w s c)).
Proof.
  intros w s c k Hk. destruct k as [|k]; [lia|].
  simpl. unfold ethr_next at 2. simpl.
  rewrite run_thread by lia. unfold exec. simpl pol_acquire.
  destruct (jrun_ops (scr_ops s) (exec_start faithful fresh_rt c)) as [x failed]. reflexivity.
Qed.

Theorem concurrent_eq_alone :
  forall sched w (cfg : list ethr) i s c,
  nth_error cfg i = Some (ENew s c) ->
  S (List.length (scr_ops s)) < turns i sched ->
  fst (interleave (exec_step faithful) sched w cfg) = w /\
  nth_error (snd (interleave (exec_step faithful) sched w cfg)) i = Some (EDone (snd (exec faithful w s c))).
Proof.
  intros sched w cfg i s c Hi Ht.
  destruct (ro_run _ _ (exec_step faithful) faithful_step_read_only sched w cfg) as [H1 H2].
  split; [exact H1|]. rewrite H2, Hi. simpl. f_equal.
  apply (thread_is_exec w s c). exact Ht.
Qed.

(** with a pooled runtime the interleaving matters *)
Lemma pooled_interleaving_matters :
  nth_error (snd (interleave (exec_step pooled_runtime) [0;0;0;0;0;0; 1;1;1;1;1;1] None
                             [ENew (mk_script [OSetGlobal "gx" (JNum 20)] TReads) (mk_caller None None);
                              ENew (mk_script [OReadGlobal "gx" "r0"] TReads) (mk_caller None None)])) 1
  <> nth_error (snd (interleave (exec_step pooled_runtime) [1;1;1;1;1;1; 0;0;0;0;0;0] None
                             [ENew (mk_script [OSetGlobal "gx" (JNum 20)] TReads) (mk_caller None None);
                              ENew (mk_script [OReadGlobal "gx" "r0"] TReads) (mk_caller None None)])) 1.
Proof. vm_compute. discriminate. Qed.

(** * Witnesses *)

Definition d22_props : bindings := [("cfg", JObj [("k", JStr "v")]); ("mid", JStr "m1")].
Definition d22_script : jscript := mk_script [OAssign ["props"; "cfg"; "k"] (JStr "hacked")] TReads.
Definition d22_caller : caller := mk_caller (Some [("a", JNum 4)]) (Some d22_props).

(** D22: a nested member of props is the caller's own map *)
Lemma props_nested_refuted :
  c_props (snd (snd (exec faithful None d22_script d22_caller)))
  = Some [("cfg", JObj [("k", JStr "hacked")]); ("mid", JStr "m1")].
Proof. vm_compute. reflexivity. Qed.

Definition props_intact_full : Prop :=
  forall w s c, c_props (snd (snd (exec faithful w s c))) = c_props c.
Lemma props_intact_full_refuted : ~ props_intact_full.
Proof.
  intro H. specialize (H None d22_script d22_caller).
  rewrite props_nested_refuted in H. vm_compute in H. discriminate.
Qed.

(** the polluter and the probe used against the non-faithful policies *)
Definition polluter : jscript :=
  mk_script [OSetGlobal "gx" (JNum 20); OPatchProto PObject "pp" (JStr "patched");
             OAssign ["zz"] (JBool true); OAssign ["bindings"; "a"; "deep"] (JNum 4)] TBindings.
Definition probe : jscript :=
  mk_script [OReadGlobal "gx" "r0"; OReadProto PObject "pp" "r1"; OReadEnv "zz" "r2";
             ORead ["bindings"; "a"; "deep"] "r3"] TReads.
Definition some_caller : caller :=
  mk_caller (Some [("a", JObj [("deep", JNum 0)])]) (Some [("mid", JStr "m1")]).

Definition history_free_for (p : policy) : Prop :=
  forall h w s c, exec_after p w h s c = snd (exec p w s c).

Lemma pooled_runtime_refuted : ~ history_free_for pooled_runtime.
Proof.
  intro H. specialize (H [(polluter, some_caller)] None probe some_caller).
  vm_compute in H. discriminate.
Qed.

Lemma shared_env_refuted : ~ history_free_for shared_env.
Proof.
  intro H. specialize (H [(polluter, some_caller)] None probe some_caller).
  vm_compute in H. discriminate.
Qed.

Lemma no_copy_bs_refuted :
  c_bs (snd (snd (exec no_copy_bs None polluter some_caller))) <> c_bs some_caller.
Proof. vm_compute. discriminate. Qed.

Lemma shallow_bs_refuted :
  c_bs (snd (snd (exec shallow_bs None polluter some_caller))) <> c_bs some_caller.
Proof. vm_compute. discriminate. Qed.

Lemma no_copy_props_refuted :
  props_shape (snd (snd (exec no_copy_props None
                               (mk_script [OAssign ["props"; "mid"] (JStr "other")] TReads) some_caller)))
  <> props_shape some_caller.
Proof. vm_compute. discriminate. Qed.

(** the theorems' hypotheses are satisfiable on instances where something
    happens: the polluter pollutes, the probe alone sees nothing *)
Lemma probe_alone_value :
  alone probe some_caller
  = ROk (Some [("r0", JNull); ("r1", JNull); ("r2", JStr "undefined"); ("r3", JNum 0)]) [].
Proof. vm_compute. reflexivity. Qed.

Lemma polluter_value :
  fst (snd (exec faithful None polluter some_caller))
  = ROk (Some [("a", JObj [("deep", JNum 4)])]) [].
Proof. vm_compute. reflexivity. Qed.

Lemma probe_after_polluter_value :
  exec_after faithful None [(polluter, some_caller)] probe some_caller
  = (ROk (Some [("r0", JNull); ("r1", JNull); ("r2", JStr "undefined"); ("r3", JNum 0)]) [], some_caller).
Proof. vm_compute. reflexivity. Qed.

Lemma probe_after_polluter_pooled_value :
  fst (exec_after pooled_runtime None [(polluter, some_caller)] probe some_caller)
  = ROk (Some [("r0", JNum 20); ("r1", JStr "patched"); ("r2", JStr "undefined"); ("r3", JNum 0)]) [].
Proof. vm_compute. reflexivity. Qed.
