(** C06: the ownership-tracked model (Model/Own.v) erases to [step] /
    [walk_stride]; no write the engine performs - and no in-place write an
    action function performs on the map it is handed - changes the contents
    of the caller's bindings map; every state in a returned stride holds a
    freshly allocated map.  Both hold for EVERY behaviour of actions and
    guards, including functions that mutate the map they are given and
    functions that hand it back: FuncAction.Exec hands them a copy.  With the
    wiring Exec had before the repair (the function works on the very map
    Exec was given) the first claim is false: [old_wiring_refuted]. *)
From Coq Require Import Lia.
From Sheens Require Import Model.Step Model.Own Spec.WalkSpec
     Proofs.SndBasics Proofs.SndSorted Proofs.StepFacts.

Section OwnProofs.
  Variable action : Type.
  Variable run : action -> option bindings -> exec_raw.
  Variable same : action -> option bindings -> bool.
  Variable mutates : action -> option bindings -> bool.

  Notation func_exec_on := (func_exec_on action run same mutates).
  Notation func_execT := (func_execT action run same mutates).
  Notation guard_loopT := (guard_loopT action func_execT).
  Notation try_branchT := (try_branchT action func_execT).
  Notation first_branchT := (first_branchT action func_execT).
  Notation considerT := (considerT action func_execT).
  Notation continueT := (continueT action func_execT).
  Notation stepT := (stepT action run same mutates).
  Notation walk_strideT := (walk_strideT action run same mutates).

  Definition has_map (t : tbs) : Prop := exists b, t_val t = Some b.

  (** * Erasure *)
  Lemma t_restore_val perm : forall t b,
    t_val t = Some b ->
    t_val (fst (t_restore perm t)) = Some (restore perm b) /\
    t_own (fst (t_restore perm t)) = t_own t.
  Proof.
    induction perm as [|[k v] r IH]; intros t b Hb; [split; [exact Hb | reflexivity]|].
    cbn [t_restore]. unfold t_extend. rewrite Hb. cbn [copy_bs].
    destruct (t_restore r (mk_tbs (t_own t) (Some (bset k v b)))) as [t2 l2] eqn:E.
    cbn [fst]. pose proof (IH (mk_tbs (t_own t) (Some (bset k v b))) (bset k v b) eq_refl) as H.
    rewrite E in H. cbn [fst t_own] in H. exact H.
  Qed.

  Definition ot_val (ot : option tbs) : option bindings :=
    match ot with Some t => t_val t | None => None end.

  (** the copy handed to the action function has the contents of the original *)
  Lemma func_exec_on_erase a perm g :
    let '((ot, em), err, _) := func_exec_on a perm g in
    (match xr_exe (run a (t_val g)) with
     | None => ((None, []), xr_err (run a (t_val g)))
     | Some (ob, em) => ((option_map (restore perm) ob, em), xr_err (run a (t_val g)))
     end) = ((ot_val ot, em), err) /\
    (forall t', ot = Some t' -> has_map t').
  Proof.
    unfold Own.func_exec_on.
    destruct (xr_exe (run a (t_val g))) as [[[b|] em]|].
    - pose proof (t_restore_val perm
                                (mk_tbs (if same a (t_val g) then t_own g else Fresh) (Some b)) b eq_refl) as [Hv _].
      destruct (t_restore perm (mk_tbs (if same a (t_val g) then t_own g else Fresh) (Some b))) as [t' l].
      cbn [fst] in Hv. cbn [ot_val option_map]. rewrite Hv. split; [reflexivity|].
      intros t'' H. inversion H. subst. eexists. exact Hv.
    - split; [reflexivity | discriminate].
    - split; [reflexivity | discriminate].
  Qed.

  Lemma func_execT_erase a t :
    let '((ot, em), err, _) := func_execT a t in
    func_exec action run a (t_val t) = ((ot_val ot, em), err) /\
    (forall t', ot = Some t' -> has_map t').
  Proof.
    unfold Own.func_execT, func_exec, t_copy. cbv zeta.
    set (perm := permanent_of (t_val t)). clearbody perm.
    destruct (t_val t) as [b0|].
    - exact (func_exec_on_erase a perm (mk_tbs Fresh (Some b0))).
    - exact (func_exec_on_erase a perm (mk_tbs Fresh None)).
  Qed.

  Definition erase_choice (c : option (option tbs)) : option (option bindings) :=
    option_map (fun o => match o with Some t => Some (copy_bs (t_val t)) | None => None end) c.

  Lemma guard_loopT_erase g cs :
    guard_loop action run g (map t_val cs) = erase_choice (fst (guard_loopT g cs)) /\
    (forall t', fst (guard_loopT g cs) = Some (Some t') -> has_map t').
  Proof.
    induction cs as [|c r IH]; cbn; [split; [reflexivity | discriminate]|].
    pose proof (func_execT_erase g c) as H.
    destruct (func_execT g c) as [[[ot em] err] l]. destruct H as [H Hm]. rewrite H.
    destruct err; cbn; [split; [reflexivity | discriminate]|].
    destruct ot as [t'|]; cbn.
    - destruct (Hm t' eq_refl) as [b Hb]. rewrite Hb. cbn. split; [reflexivity|].
      intros t'' E. inversion E. subst. eexists. exact Hb.
    - destruct (guard_loopT g r) as [res l']. cbn in *. exact IH.
  Qed.

  Definition erase_try (t : ttry) : try_res :=
    match t with
    | TTNone => TNone
    | TTTo s => TTo (erase_state s)
    | TTErr e => TErr e
    end.

  Lemma try_branchT_erase b t against :
    fst (try_branch action run b (t_val t) against) = erase_try (fst (try_branchT b t against)) /\
    (forall s, fst (try_branchT b t against) = TTTo s -> has_map (ts_bs s)).
  Proof.
    unfold try_branch, Own.try_branchT.
    destruct (br_pattern b) as [p|].
    - destruct (Match p against (copy_bs (t_val t))) as [r| |]; cbn; try (split; [reflexivity | discriminate]).
      destruct (br_guard b) as [g|].
      + pose proof (guard_loopT_erase g (map (fun x => mk_tbs Fresh (Some x)) r)) as [H Hm].
        rewrite map_map in H. cbn [t_val] in H. change (fun x : bindings => Some x) with (@Some bindings) in H. rewrite H.
        destruct (guard_loopT g (map (fun x => mk_tbs Fresh (Some x)) r)) as [[[t'|]|] l]; cbn in *.
        * destruct (Hm t' eq_refl) as [b' Hb]. rewrite Hb. cbn. unfold erase_state. cbn. rewrite Hb. split; [reflexivity|].
          intros s E. inversion E. subst. eexists. exact Hb.
        * split; [reflexivity | discriminate].
        * split; [reflexivity | discriminate].
      + destruct r as [|x [|y r']]; cbn; try (split; [reflexivity | discriminate]).
        split; [reflexivity|]. intros s E. inversion E. subst. eexists. reflexivity.
    - destruct (br_guard b) as [g|].
      + pose proof (guard_loopT_erase g [t]) as [H Hm]. cbn [map] in H. rewrite H.
        destruct (guard_loopT g [t]) as [[[t'|]|] l]; cbn in *.
        * destruct (Hm t' eq_refl) as [b' Hb]. rewrite Hb. cbn. unfold erase_state. cbn. rewrite Hb. split; [reflexivity|].
          intros s E. inversion E. subst. eexists. exact Hb.
        * split; [reflexivity | discriminate].
        * split; [reflexivity | discriminate].
      + destruct (t_val t) as [x|] eqn:Ev; cbn.
        * rewrite Ev. cbn. unfold erase_state. cbn. rewrite Ev. split; [reflexivity|].
          intros s E. inversion E. subst. eexists. exact Ev.
        * split; [reflexivity | discriminate].
  Qed.

  Lemma first_branchT_erase brs t against :
    fst (first_branch action run brs (t_val t) against) = erase_try (fst (first_branchT brs t against)).
  Proof.
    induction brs as [|b r IH]; cbn; [reflexivity|].
    pose proof (try_branchT_erase b t against) as [H _].
    destruct (try_branch action run b (t_val t) against) as [tr amb].
    destruct (try_branchT b t against) as [tt l]. cbn in H. subst tr.
    destruct tt; cbn; try reflexivity.
    destruct (first_branch action run r (t_val t) against) as [tr' amb'].
    destruct (first_branchT r t against) as [tt' l']. cbn in *. exact IH.
  Qed.

  Lemma considerT_erase bg t pending :
    fst (fst (consider action run bg (t_val t) pending)) = erase_try (fst (fst (considerT bg t pending))) /\
    snd (fst (consider action run bg (t_val t) pending)) = snd (fst (considerT bg t pending)).
  Proof.
    unfold consider, Own.considerT. destruct bg as [b|]; [|split; reflexivity].
    destruct (String.eqb (bg_type b) "message").
    - destruct pending as [m|]; [|split; reflexivity].
      pose proof (first_branchT_erase (bg_branches b) t m) as H.
      destruct (first_branch action run (bg_branches b) (t_val t) m) as [tr amb].
      destruct (first_branchT (bg_branches b) t m) as [tt l]. cbn in *. split; [exact H | reflexivity].
    - pose proof (first_branchT_erase (bg_branches b) t (JObj (copy_bs (t_val t)))) as H.
      destruct (first_branch action run (bg_branches b) (t_val t) (JObj (copy_bs (t_val t)))) as [tr amb].
      destruct (first_branchT (bg_branches b) t (JObj (copy_bs (t_val t)))) as [tt l]. cbn in *.
      split; [exact H | reflexivity].
  Qed.

  Definition erase_out (o : tstep_out) : option stride * option step_err :=
    (option_map erase_stride (tso_stride o), tso_err o).
  Definition plain_out (o : step_out) : option stride * option step_err := (so_stride o, so_err o).

  Lemma error_tbs_val base text from :
    t_val (fst (error_tbs base text from)) = Some (error_bindings (copy_bs (t_val base)) text from) /\
    t_own (fst (error_tbs base text from)) = Fresh.
  Proof. unfold error_tbs, error_bindings, t_extend, t_copy. cbn. split; reflexivity. Qed.

  Lemma continueT_erase n st pending have t em l0 :
    erase_out (continueT n st pending have t em l0) =
    plain_out (continue_ action run n (erase_state st) pending have (t_val t) em).
  Proof.
    unfold Own.continueT, continue_.
    pose proof (considerT_erase (nd_branching n) t pending) as [H1 H2].
    destruct (consider action run (nd_branching n) (t_val t) pending) as [[tr consumer] amb].
    destruct (considerT (nd_branching n) t pending) as [[tt consumer'] l]. cbn in H1, H2. subst tr consumer'.
    destruct tt as [|s'|e]; cbn.
    - destruct have; reflexivity.
    - reflexivity.
    - destruct have; reflexivity.
  Qed.

  Theorem stepT_erase s st pending :
    erase_out (stepT s st pending) = plain_out (step action run s (erase_state st) pending).
  Proof.
    rewrite step_unfold. unfold Own.stepT, Own.step_via. cbn [erase_state st_node st_bs].
    destruct (negb (sp_compiled s)); [reflexivity|].
    destruct (find_node (ts_node st) (sp_nodes s)) as [n|]; [|reflexivity].
    cbv zeta.
    destruct (negb _ && nd_uncompiled n); [reflexivity|].
    change (match nd_branching n with
            | Some b => String.eqb (bg_type b) "message"
            | None => false
            end) with (is_consumer action (nd_branching n)).
    destruct (_ && is_consumer action (nd_branching n)); [reflexivity|].
    destruct (nd_action n) as [a|].
    - pose proof (func_execT_erase a (ts_bs st)) as H.
      destruct (func_execT a (ts_bs st)) as [[[ot em] err] l]. destruct H as [H Hm]. rewrite H.
      destruct err; cbn [negb].
      + unfold t_extend, t_copy. cbn.
        destruct (negb (sp_err_branches s)).
        * destruct (String.eqb (sp_err_node s) ""); reflexivity.
        * rewrite continueT_erase. reflexivity.
      + rewrite continueT_erase. destruct ot as [t'|]; cbn.
        * destruct (Hm t' eq_refl) as [b Hb]. rewrite Hb. reflexivity.
        * reflexivity.
    - rewrite continueT_erase. reflexivity.
  Qed.

  Theorem walk_strideT_erase s st pendings :
    erase_stride (fst (walk_strideT s st pendings)) =
    fst (walk_stride action run s (erase_state st) pendings).
  Proof.
    unfold Own.walk_strideT, Own.walk_stride_via, walk_stride. cbv zeta.
    change (step_via action func_execT s st (peek pendings)) with (stepT s st (peek pendings)).
    pose proof (stepT_erase s st (peek pendings)) as H. unfold erase_out, plain_out in H.
    inversion H as [[Hs He]]. clear H Hs He.
    destruct (tso_err (stepT s st (peek pendings))) as [e|].
    - cbn [erase_state st_node]. destruct (String.eqb (ts_node st) error_node_literal).
      + destruct (tso_stride (stepT s st (peek pendings))); reflexivity.
      + pose proof (error_tbs_val (ts_bs st) err_text (erase_state st)) as [Hv _].
        destruct (error_tbs (ts_bs st) err_text (erase_state st)) as [eb l]. cbn in Hv.
        destruct (tso_stride (stepT s st (peek pendings))) as [sd|]; cbn;
          unfold erase_stride; cbn; unfold erase_state at 2; cbn; rewrite Hv; reflexivity.
    - destruct (tso_stride (stepT s st (peek pendings))); reflexivity.
  Qed.

  (** * Ownership *)

  (** the caller's map: its contents [c0].  Nothing is assumed of [run],
      [same] and [mutates]: an action or guard function may overwrite or
      delete bindings in the map it is handed, and may hand that map back. *)
  Variable c0 : option bindings.

  Definition tinv (t : tbs) : Prop := t_own t = Caller -> t_val t = c0.
  Definition log_ok (l : wlog) : Prop := Forall (fun w => fst w = Caller -> snd w = false) l.
  Definition fresh_state (s : tstate) : Prop := t_own (ts_bs s) = Fresh.

  Lemma log_ok_app a b : log_ok a -> log_ok b -> log_ok (a ++ b).
  Proof. unfold log_ok. intros. apply Forall_app. split; assumption. Qed.
  Lemma log_ok_nil : log_ok [].
  Proof. constructor. Qed.

  Lemma t_extend_fresh t k v :
    t_own t = Fresh -> log_ok (snd (t_extend t k v)) /\ t_own (fst (t_extend t k v)) = Fresh.
  Proof.
    intros H. unfold t_extend. cbn. split; [|exact H].
    constructor; [|constructor]. cbn. rewrite H. discriminate.
  Qed.

  Lemma t_restore_fresh perm : forall t,
    t_own t = Fresh ->
    log_ok (snd (t_restore perm t)) /\ t_own (fst (t_restore perm t)) = Fresh.
  Proof.
    induction perm as [|[k v] r IH]; intros t Hf; [split; [constructor | exact Hf]|].
    cbn [t_restore]. destruct (t_extend_fresh t k v Hf) as [Hl Ho].
    destruct (t_extend t k v) as [t1 l1]. cbn in Hl, Ho.
    destruct (IH t1 Ho) as [Hl2 Ho2]. destruct (t_restore r t1) as [t2 l2]. cbn in *.
    split; [apply log_ok_app; assumption | exact Ho2].
  Qed.

  (** a.F and the restore loop, when the function is handed a [Fresh] map:
      every write - the function's own included - goes to a [Fresh] map, and
      the returned map is [Fresh] whether or not the function handed its
      argument back *)
  Lemma func_exec_on_fresh a perm g :
    t_own g = Fresh ->
    let '((ot, _), _, l) := func_exec_on a perm g in
    log_ok l /\ (forall t', ot = Some t' -> t_own t' = Fresh).
  Proof.
    intros Hg. unfold Own.func_exec_on.
    assert (Hw : log_ok (action_writes action mutates a g)).
    { unfold action_writes. destruct (t_val g); [|apply log_ok_nil].
      destruct (mutates a _); [|apply log_ok_nil].
      constructor; [|constructor]. cbn. rewrite Hg. discriminate. }
    destruct (xr_exe (run a (t_val g))) as [[[b|] em]|];
      try (split; [exact Hw | discriminate]).
    assert (Hret : t_own (mk_tbs (if same a (t_val g) then t_own g else Fresh) (Some b)) = Fresh).
    { cbn. rewrite Hg. destruct (same a (t_val g)); reflexivity. }
    destruct (t_restore_fresh perm _ Hret) as [Hl Ho].
    destruct (t_restore perm (mk_tbs (if same a (t_val g) then t_own g else Fresh) (Some b))) as [t' l].
    cbn [fst snd] in *.
    split; [apply log_ok_app; assumption|]. intros t'' E. inversion E. subst. exact Ho.
  Qed.

  (** FuncAction.Exec: whatever the tag of the map it is given *)
  Lemma func_execT_fresh a t :
    let '((ot, _), _, l) := func_execT a t in
    log_ok l /\ (forall t', ot = Some t' -> t_own t' = Fresh).
  Proof.
    unfold Own.func_execT. cbv zeta.
    destruct (t_val t); apply func_exec_on_fresh; reflexivity.
  Qed.

  (** the function's own write is in the log, against the copy it was handed *)
  Lemma func_execT_logs_mutation a t b :
    t_val t = Some b -> mutates a (Some b) = true ->
    In (Fresh, true) (snd (func_execT a t)).
  Proof.
    intros Hb Hm. unfold Own.func_execT, Own.func_exec_on, action_writes, t_copy. cbv zeta.
    rewrite Hb. cbn [t_val t_own copy_bs]. rewrite Hm.
    destruct (xr_exe (run a (Some b))) as [[[b'|] em]|]; try (left; reflexivity).
    destruct (t_restore _ _) as [t' l]. cbn [snd]. left. reflexivity.
  Qed.

  Lemma func_execT_own a t :
    tinv t ->
    let '((ot, _), _, l) := func_execT a t in
    log_ok l /\ (forall t', ot = Some t' -> tinv t').
  Proof.
    intros _. pose proof (func_execT_fresh a t) as H.
    destruct (func_execT a t) as [[[ot em] err] l]. destruct H as [Hl Ho].
    split; [exact Hl|]. intros t' E Hc. rewrite (Ho t' E) in Hc. discriminate.
  Qed.

  Lemma guard_loopT_own g cs :
    Forall tinv cs -> log_ok (snd (guard_loopT g cs)).
  Proof.
    induction 1 as [|c r Hc _ IH]; cbn; [apply log_ok_nil|].
    pose proof (func_execT_own g c Hc) as H.
    destruct (func_execT g c) as [[[ot em] err] l]. destruct H as [Hl _].
    destruct err; [exact Hl|]. destruct ot; [exact Hl|].
    destruct (guard_loopT g r) as [res l']. cbn in *. apply log_ok_app; assumption.
  Qed.

  Lemma try_branchT_own b t against :
    tinv t -> log_ok (snd (try_branchT b t against)).
  Proof.
    intros Hinv. unfold Own.try_branchT.
    assert (Hg : forall g cs, Forall tinv cs ->
                 log_ok (snd (let '(chosen, l) := guard_loopT g cs in
                              match chosen with
                              | None => (TTErr EGuard, l)
                              | Some None => (TTNone, l)
                              | Some (Some t') => (TTTo (mk_tstate (target action b (copy_bs (t_val t'))) t'), l)
                              end))).
    { intros g cs Hcs. pose proof (guard_loopT_own g cs Hcs) as H.
      destruct (guard_loopT g cs) as [[[t'|]|] l]; exact H. }
    destruct (br_pattern b) as [p|].
    - destruct (Match p against (copy_bs (t_val t))) as [r| |]; try apply log_ok_nil.
      destruct (br_guard b) as [g|].
      + apply Hg. apply Forall_forall. intros x Hx. apply in_map_iff in Hx.
        destruct Hx as [y [<- _]]. intros H. discriminate.
      + destruct (map _ r) as [|c [|c2 r']]; try apply log_ok_nil.
        destruct (t_val c); apply log_ok_nil.
    - destruct (br_guard b) as [g|].
      + apply Hg. constructor; [exact Hinv | constructor].
      + destruct (t_val t); apply log_ok_nil.
  Qed.

  Lemma first_branchT_own brs t against :
    tinv t -> log_ok (snd (first_branchT brs t against)).
  Proof.
    intros Hinv. induction brs as [|b r IH]; cbn; [apply log_ok_nil|].
    pose proof (try_branchT_own b t against Hinv) as H.
    destruct (try_branchT b t against) as [tt l]. cbn in H.
    destruct tt; try exact H.
    destruct (first_branchT r t against) as [res l']. cbn in *. apply log_ok_app; assumption.
  Qed.

  Lemma considerT_own bg t pending :
    tinv t -> log_ok (snd (considerT bg t pending)).
  Proof.
    intros Hinv. unfold Own.considerT. destruct bg as [b|]; [|apply log_ok_nil].
    destruct (String.eqb (bg_type b) "message").
    - destruct pending as [m|]; [|apply log_ok_nil].
      pose proof (first_branchT_own (bg_branches b) t m Hinv) as H.
      destruct (first_branchT (bg_branches b) t m) as [r l]. exact H.
    - pose proof (first_branchT_own (bg_branches b) t (JObj (copy_bs (t_val t))) Hinv) as H.
      destruct (first_branchT (bg_branches b) t (JObj (copy_bs (t_val t)))) as [r l]. exact H.
  Qed.

  Lemma error_tbs_log base text from : log_ok (snd (error_tbs base text from)).
  Proof.
    unfold error_tbs, t_extend, t_copy. cbn.
    repeat (constructor; [cbn; discriminate|]). constructor.
  Qed.

  Definition stride_fresh (sd : tstride) : Prop :=
    fresh_state (tsd_from sd) /\ (forall s', tsd_to sd = Some s' -> fresh_state s').

  Lemma continueT_own n st pending have t em l0 :
    tinv t -> log_ok l0 ->
    let o := continueT n st pending have t em l0 in
    log_ok (tso_log o) /\ (forall sd, tso_stride o = Some sd -> stride_fresh sd).
  Proof.
    intros Hinv Hl0. unfold Own.continueT.
    pose proof (considerT_own (nd_branching n) t pending Hinv) as Hc.
    destruct (considerT (nd_branching n) t pending) as [[tt consumer] l]. cbn in Hc.
    assert (Hfrom : fresh_state (t_copy_state st)) by reflexivity.
    destruct tt as [|s'|e].
    - destruct have.
      + pose proof (error_tbs_log t no_branch_text (erase_state st)) as Hel.
        pose proof (error_tbs_val t no_branch_text (erase_state st)) as [_ Ho].
        destruct (error_tbs t no_branch_text (erase_state st)) as [eb l']. cbn in *.
        split; [repeat apply log_ok_app; assumption|].
        intros sd E. inversion E. subst. split; [exact Hfrom|]. cbn. intros s'' E'. inversion E'. exact Ho.
      + cbn. split; [apply log_ok_app; assumption|].
        intros sd E. inversion E. subst. split; [exact Hfrom | cbn; discriminate].
    - cbn. split; [apply log_ok_app; assumption|].
      intros sd E. inversion E. subst. split; [exact Hfrom|]. cbn. intros s'' E'. inversion E'. reflexivity.
    - destruct have.
      + pose proof (error_tbs_log t no_branch_text (erase_state st)) as Hel.
        pose proof (error_tbs_val t no_branch_text (erase_state st)) as [_ Ho].
        destruct (error_tbs t no_branch_text (erase_state st)) as [eb l']. cbn in *.
        split; [repeat apply log_ok_app; assumption|].
        intros sd E. inversion E. subst. split; [exact Hfrom|]. cbn. intros s'' E'. inversion E'. exact Ho.
      + cbn. split; [apply log_ok_app; assumption|].
        intros sd E. inversion E. subst. split; [exact Hfrom | cbn; discriminate].
  Qed.

  (** one step never changes the caller's map and returns only fresh maps *)
  Theorem stepT_own s st pending :
    tinv (ts_bs st) ->
    let o := stepT s st pending in
    log_ok (tso_log o) /\ (forall sd, tso_stride o = Some sd -> stride_fresh sd).
  Proof.
    intros Hinv. unfold Own.stepT, Own.step_via.
    destruct (negb (sp_compiled s)); [split; [apply log_ok_nil | discriminate]|].
    destruct (find_node (ts_node st) (sp_nodes s)) as [n|]; [|split; [apply log_ok_nil | discriminate]].
    cbv zeta.
    destruct (negb _ && nd_uncompiled n); [split; [apply log_ok_nil | discriminate]|].
    destruct (_ && match nd_branching n with Some b => _ | None => false end);
      [split; [apply log_ok_nil | discriminate]|].
    destruct (nd_action n) as [a|].
    - pose proof (func_execT_own a (ts_bs st) Hinv) as H.
      destruct (func_execT a (ts_bs st)) as [[[ot em] err] l]. destruct H as [Hl Hot].
      destruct err; cbn [negb].
      + unfold t_extend, t_copy. cbn [t_own t_val copy_bs].
        assert (Hl2 : log_ok (l ++ [(Fresh, negb (bindings_eqb (copy_bs (t_val (ts_bs st)))
                                                     (bset "actionError" err_text (copy_bs (t_val (ts_bs st))))))] ++
                                  [(Fresh, negb (bindings_eqb (bset "actionError" err_text (copy_bs (t_val (ts_bs st))))
                                                     (bset "error" err_text (bset "actionError" err_text (copy_bs (t_val (ts_bs st)))))))])).
        { apply log_ok_app; [exact Hl|]. repeat (constructor; [cbn; discriminate|]). constructor. }
        destruct (negb (sp_err_branches s)).
        * destruct (String.eqb (sp_err_node s) ""); cbn; (split; [exact Hl2|]); [discriminate|].
          intros sd E. inversion E. subst. split; [reflexivity|]. cbn. intros s' E'. inversion E'. reflexivity.
        * apply continueT_own; [intros H; discriminate | exact Hl2].
      + apply continueT_own; [|exact Hl].
        destruct ot as [t'|]; [exact (Hot t' eq_refl) | intros H; discriminate].
    - apply continueT_own; [exact Hinv | apply log_ok_nil].
  Qed.

  Theorem walk_strideT_own s st pendings :
    tinv (ts_bs st) ->
    log_ok (snd (walk_strideT s st pendings)) /\ stride_fresh (fst (walk_strideT s st pendings)).
  Proof.
    intros Hinv. unfold Own.walk_strideT, Own.walk_stride_via.
    change (step_via action func_execT s st (peek pendings)) with (stepT s st (peek pendings)).
    pose proof (stepT_own s st (peek pendings) Hinv) as [Hl Hs].
    assert (H0 : stride_fresh (mk_tstride (t_copy_state st) None None [])).
    { split; [reflexivity | cbn; discriminate]. }
    assert (Hsd : stride_fresh (match tso_stride (stepT s st (peek pendings)) with
                                | Some sd => sd
                                | None => mk_tstride (t_copy_state st) None None []
                                end)).
    { destruct (tso_stride (stepT s st (peek pendings))) as [sd|]; [exact (Hs sd eq_refl) | exact H0]. }
    destruct (tso_err (stepT s st (peek pendings))).
    - destruct (String.eqb (ts_node st) error_node_literal); [split; assumption|].
      pose proof (error_tbs_log (ts_bs st) err_text (erase_state st)) as Hel.
      pose proof (error_tbs_val (ts_bs st) err_text (erase_state st)) as [_ Ho].
      destruct (error_tbs (ts_bs st) err_text (erase_state st)) as [eb l]. cbn in *.
      split; [apply log_ok_app; assumption|].
      split; [exact (proj1 Hsd)|]. cbn. intros s' E. inversion E. exact Ho.
    - split; assumption.
  Qed.
End OwnProofs.

(** * The wiring FuncAction.Exec had before the repair is refuted

    A native action function works in place on the map it is handed.  The
    witness deletes the binding "x" and returns the bindings it was given
    (the harness renders [Native (mk_prog [ADel "x"] TRetBindings) _] as the
    Go closure  delete(bs, "x"); return core.NewExecution(bs), nil ).
    [native_same] / [native_mutates] describe the native rendering of the
    action language of Model/Action.v: the closure hands its argument back
    when the program returns _.bindings, and has changed it when its
    operations changed it. *)
From Sheens Require Import Model.Action.

Definition native_same (a : act) (bs : option bindings) : bool :=
  match a with
  | Native p _ => match pg_term p with TRetBindings => true | _ => false end
  | Js _ => false
  end.

Definition native_mutates (a : act) (bs : option bindings) : bool :=
  match a, bs with
  | Native p _, Some b =>
      match run_ops (pg_ops p) bs [] with
      | (Some b', _, _) => negb (bindings_eqb b b')
      | _ => false
      end
  | _, _ => false
  end.

Definition del_in_place : act := Native (mk_prog [ADel "x"] TRetBindings) false.
Definition del_caller_map : tbs := mk_tbs Caller (Some [("x", JNum 4); ("y", JNum 4)]).
Definition del_spec : aspec := mk_spec [("start", mk_node (Some del_in_place) false None)] false "" true.

(** with the action function working on the very map Exec was given, a
    write that changes a [Caller] map does occur ... *)
Theorem old_wiring_refuted :
  exists (a : act) (t : tbs),
    tinv (t_val t) t /\ t_own t = Caller /\
    In (Caller, true) (snd (func_execT_old act run_act native_same native_mutates a t)).
Proof.
  exists del_in_place, del_caller_map.
  split; [intros _; reflexivity|]. split; [reflexivity|].
  vm_compute. left. reflexivity.
Qed.

(** ... so the log is not [log_ok], for FuncAction.Exec and for a whole step ... *)
Lemma caller_write_not_ok l : In (Caller, true) l -> ~ log_ok l.
Proof.
  intros Hin Hok. unfold log_ok in Hok. rewrite Forall_forall in Hok.
  specialize (Hok _ Hin eq_refl). discriminate.
Qed.

Theorem old_wiring_step_refuted :
  let st := mk_tstate "start" del_caller_map in
  tinv (t_val del_caller_map) (ts_bs st) /\
  In (Caller, true) (tso_log (stepT_old act run_act native_same native_mutates del_spec st None)) /\
  ~ log_ok (tso_log (stepT_old act run_act native_same native_mutates del_spec st None)).
Proof.
  cbv zeta. split; [intros _; reflexivity|].
  assert (H : In (Caller, true)
                 (tso_log (stepT_old act run_act native_same native_mutates del_spec
                                     (mk_tstate "start" del_caller_map) None))).
  { vm_compute. left. reflexivity. }
  split; [exact H | exact (caller_write_not_ok _ H)].
Qed.

(** ... and the statement proved above for the repaired wiring ([stepT_own],
    first half) is false of the old one *)
Theorem old_wiring_no_theorem :
  ~ (forall (action : Type) run same mutates (c0 : option bindings)
            (s : spec action) (st : tstate) (pending : option json),
       tinv c0 (ts_bs st) ->
       log_ok (tso_log (stepT_old action run same mutates s st pending))).
Proof.
  intros H. destruct old_wiring_step_refuted as [Hinv [_ Hno]].
  exact (Hno (H act run_act native_same native_mutates _ del_spec _ None Hinv)).
Qed.

(** the same behaviour under the repaired wiring: the function's write goes
    to the copy *)
Example repaired_wiring_same_witness :
  snd (func_execT act run_act native_same native_mutates del_in_place del_caller_map) = [(Fresh, true)] /\
  snd (func_execT_old act run_act native_same native_mutates del_in_place del_caller_map) = [(Caller, true)].
Proof. vm_compute. split; reflexivity. Qed.
