(** Statements proved about C02, their assumptions, and non-vacuity checks. *)
From Sheens Require Import Proofs.MatchComplete Proofs.MatchLinear Proofs.EmbedsExtra.

Check match_complete.
Print Assumptions match_complete.
Print Assumptions match_complete_strong.
Print Assumptions match_linear_results_embed.
Print Assumptions match_linear_results_embed_strong.
Print Assumptions match_supported_no_err.
Print Assumptions match_supported_ok.
Print Assumptions embeds_extra_key.
Print Assumptions embeds_extra_elem.
Print Assumptions embeds_adds_extras.

(** the hypotheses are satisfiable, and the conclusion is what the model computes *)
Definition ex_p : json :=
  JObj [("a", JArr [JObj [("k", JStr "?x")]; JStr "?y"; JNum 4; JObj [("k", JStr "?z"); ("m", JStr "?x")]]);
        ("b", JObj [("?key", JStr "?")]); ("c", JStr "?x")].
Definition ex_f : json :=
  JObj [("a", JArr [JNum 4; JObj [("k", JNum 1); ("m", JNum 2)]; JObj [("k", JNum 2); ("m", JNum 2); ("n", JNull)];
                    JArr [JStr "u"]; JStr "v"]);
        ("b", JObj [("p", JNum 7)]); ("c", JNum 2); ("d", JBool true)].
Definition ex_sg : bindings :=
  [("?key", JStr "p"); ("?x", JNum 2); ("?y", JArr [JStr "u"]); ("?z", JNum 1)].

Example ex_pre : c02_pre ex_p ex_f ex_sg = true.
Proof. vm_compute. reflexivity. Qed.
Example ex_embeds : embeds ex_sg ex_p ex_f = true.
Proof. vm_compute. reflexivity. Qed.
Example ex_found : match Match ex_p ex_f [] with Ok r => c02_found ex_sg r | _ => false end = true.
Proof. vm_compute. reflexivity. Qed.
Example ex_need : need (json_depth ex_f) ex_p = 8.
Proof. vm_compute. reflexivity. Qed.

(** [adds_extras] is inhabited beyond reflexivity: a nested extra property,
    a top-level extra property and an extra array element *)
Example ex_adds :
  adds_extras (JObj [("a", JObj [("b", JStr "?x")]); ("l", JArr [JNum 1])])
              (JObj [("a", JObj [("b", JNum 1)]); ("l", JArr [JNum 1])])
              (JObj [("a", JObj [("b", JNum 1); ("c", JNum 2)]); ("l", JArr [JNum 1; JNum 9]); ("d", JNum 3)]).
Proof.
  apply AE_obj. intros k y H. cbn [assoc] in H.
  destruct (String.eqb k "a") eqn:Ea.
  - apply String.eqb_eq in Ea; subst k. inversion H; subst y.
    eexists; split; [reflexivity|]. split.
    + intros kp q [Hq|[Hq|[]]] Hk; inversion Hq; subst kp q.
      * apply AE_obj. intros k y Hb. cbn [assoc] in Hb. destruct (String.eqb k "b") eqn:Eb; [|discriminate].
        apply String.eqb_eq in Eb; subst k. inversion Hb; subst y.
        eexists; split; [reflexivity|]. split; [intros; apply AE_same | reflexivity].
      * destruct Hk as [Hk|Hk]; discriminate.
    + intros Hno. destruct (Hno "a" _ (or_introl eq_refl)) as [Hc _]. congruence.
  - destruct (String.eqb k "l") eqn:El; [|discriminate].
    apply String.eqb_eq in El; subst k. inversion H; subst y.
    eexists; split; [reflexivity|]. split.
    + intros kp q [Hq|[Hq|[]]] Hk; inversion Hq; subst kp q.
      * destruct Hk as [Hk|Hk]; discriminate.
      * apply (AE_arr [JNum 1] [JNum 1] [JNum 1] [JNum 9]).
        constructor; [|constructor]. split; [intros; apply AE_same | discriminate].
    + intros Hno. destruct (Hno "l" _ (or_intror (or_introl eq_refl))) as [Hc _]. congruence.
Qed.
