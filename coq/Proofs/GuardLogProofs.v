(** The guard-log oracle of Corr/StepCorr.v ([glog_ok]) against the model's
    own guard log (Spec/GuardLog.v):

    (a) SOUNDNESS - for every specification, state, pending message and
        every candidate-order oracle, the observation and the log the
        instrumented model step produces pass [glog_ok]
        ([glog_oracle_sound]); no side condition is needed, and not even
        that the oracle permutes (the protocol is about the calls made);
    (b) ORDER-INSENSITIVITY - when the model does not flag the step
        [so_ambiguous], the instrumented step's result is the same under
        every permutation oracle, and is [step]'s
        ([step_logged_order_free]);
    (c) DISCRIMINATION - a concrete case on which the comparison
        [step_agrees] is silent (the step is ambiguous) and [glog_ok]
        accepts the two honest logs but rejects the log of a guard loop that
        runs on every candidate and lets the last accepted one win. *)
From Coq Require Import Lia.
From Sheens Require Import Model.Step Spec.GuardLog Proofs.CplBasics Corr.StepCorr.

(** * Equality tests are reflexive / decide equality *)
Lemma bindings_eqb_eq (a b : bindings) : bindings_eqb a b = true <-> a = b.
Proof.
  unfold bindings_eqb. rewrite json_eqb_eq. split; [intros H; inversion H; reflexivity | intros ->; reflexivity].
Qed.
Lemma guard_says_eqb_eq (x y : guard_says) : guard_says_eqb x y = true <-> x = y.
Proof.
  destruct x as [a| |], y as [b| |]; cbn [guard_says_eqb]; try (split; congruence).
  rewrite bindings_eqb_eq. split; [intros ->; reflexivity | intros H; inversion H; reflexivity].
Qed.
Lemma guard_says_eqb_refl (x : guard_says) : guard_says_eqb x x = true.
Proof. apply guard_says_eqb_eq. reflexivity. Qed.
Lemma state_eqb_refl (s : state) : state_eqb s s = true.
Proof.
  unfold state_eqb. rewrite String.eqb_refl. destruct (st_bs s) as [b|]; cbn [opt_eqb andb]; [|reflexivity].
  apply bindings_eqb_eq. reflexivity.
Qed.

(** * The last element of a log *)
Definition last_call {A : Type} (l : list A) : option A := last (map Some l) None.

Lemma last_call_cons {A : Type} (x : A) (l : list A) :
  last_call (x :: l) = match l with [] => Some x | _ => last_call l end.
Proof. unfold last_call. destruct l; reflexivity. Qed.
Lemma last_call_app {A : Type} (l1 l2 : list A) :
  last_call (l1 ++ l2) = match l2 with [] => last_call l1 | _ => last_call l2 end.
Proof.
  induction l1 as [|x l1 IH].
  - destruct l2; reflexivity.
  - change ((x :: l1) ++ l2) with (x :: (l1 ++ l2)). rewrite !last_call_cons, IH.
    destruct l1 as [|y l1]; destruct l2 as [|z l2]; reflexivity.
Qed.
Lemma last_call_map {A B : Type} (f : A -> B) (l : list A) :
  last_call (map f l) = option_map f (last_call l).
Proof.
  induction l as [|x l IH]; [reflexivity|].
  change (map f (x :: l)) with (f x :: map f l). rewrite !last_call_cons, IH.
  destruct l; reflexivity.
Qed.
Lemma last_call_in {A : Type} (l : list A) (x : A) : last_call l = Some x -> In x l.
Proof.
  induction l as [|y l IH]; [discriminate|].
  rewrite last_call_cons. destruct l as [|z l].
  - intros H; inversion H; left; reflexivity.
  - intros H; right; exact (IH H).
Qed.

(** * The protocol, for any action type and behaviour *)
Section Protocol.
  Variable action : Type.
  Variable run : action -> option bindings -> exec_raw.

  Definition is_reject (v : guard_says) : bool := match v with GReject => true | _ => false end.
  Definition all_reject (l : list mcall) : bool := forallb (fun m => is_reject (mc_says m)) l.

  (** [glog_calls_ok], on the model's log type *)
  Fixpoint mlog_calls_ok (brs : list (branch action)) (log : list mcall) (prev : nat) : bool :=
    match log with
    | [] => true
    | m :: r =>
        Nat.leb prev (mc_idx m)
        && match nth_error brs (mc_idx m) with
           | Some b =>
               match br_guard b with
               | Some g => guard_says_eqb (guard_on action run g (mc_cand m)) (mc_says m)
               | None => false
               end
           | None => false
           end
        && match r with
           | [] => true
           | _ => is_reject (mc_says m)
           end
        && mlog_calls_ok brs r (mc_idx m)
    end.

  (** [glog_final_ok], on the model's log type *)
  Definition mlog_final_ok (go : go_step) (brs : list (branch action)) (log : list mcall) : bool :=
    match last_call log with
    | None => true
    | Some m =>
        match mc_says m, go with
        | GReject, _ => true
        | GAccept b', GStep (Some sd) GNone =>
            match nth_error brs (mc_idx m), sd_to sd with
            | Some b, Some st' =>
                state_eqb st' (copy_state (mk_state (target action b b') (Some b')))
            | _, _ => false
            end
        | GAccept _, _ => false
        | GFail, GStep _ GNone => false
        | GFail, _ => true
        end
    end.

  Lemma mlog_calls_ok_weaken brs log p q :
    p <= q -> mlog_calls_ok brs log q = true -> mlog_calls_ok brs log p = true.
  Proof.
    intros Hpq. destruct log as [|m r]; [reflexivity|].
    cbn [mlog_calls_ok]. rewrite !andb_true_iff.
    intros [[[H1 H2] H3] H4]. repeat split; try assumption.
    apply Nat.leb_le in H1. apply Nat.leb_le. lia.
  Qed.

  Lemma mlog_calls_ok_app brs l1 : forall l2 prev j,
    mlog_calls_ok brs l1 prev = true -> all_reject l1 = true ->
    (forall m, In m l1 -> mc_idx m <= j) -> prev <= j ->
    mlog_calls_ok brs l2 j = true ->
    mlog_calls_ok brs (l1 ++ l2) prev = true.
  Proof.
    induction l1 as [|m r IH]; intros l2 prev j H1 Hrej Hidx Hpj H2.
    - cbn [app]. exact (mlog_calls_ok_weaken brs l2 prev j Hpj H2).
    - change ((m :: r) ++ l2) with (m :: (r ++ l2)).
      cbn [mlog_calls_ok] in H1 |- *. cbn [all_reject forallb] in Hrej.
      apply andb_true_iff in Hrej. destruct Hrej as [Hm Hr].
      rewrite !andb_true_iff in H1. destruct H1 as [[[Ha Hb] Hc] Hd].
      rewrite !andb_true_iff. repeat split; try assumption.
      + rewrite Hm. destruct (r ++ l2); reflexivity.
      + apply (IH l2 (mc_idx m) j); try assumption.
        * intros m' Hin. apply Hidx. right. exact Hin.
        * apply Hidx. left. reflexivity.
  Qed.

  Lemma all_reject_last l : all_reject l = true ->
    match last_call l with Some m => mc_says m = GReject | None => True end.
  Proof.
    intros H. destruct (last_call l) as [m|] eqn:E; [|exact I].
    apply last_call_in in E. unfold all_reject in H. rewrite forallb_forall in H.
    specialize (H m E). destruct (mc_says m); try discriminate. reflexivity.
  Qed.

  (** ** the guard loop *)
  (** what the loop returns is read off the last call *)
  Definition loop_of_last (l : list mcall) : option (option bindings) :=
    match last_call l with
    | None => Some None
    | Some m =>
        match mc_says m with
        | GReject => Some None
        | GAccept b => Some (Some b)
        | GFail => None
        end
    end.

  Lemma guard_loop_logged_spec brs i b g :
    nth_error brs i = Some b -> br_guard b = Some g ->
    forall cs x l, guard_loop_logged action run i g cs = (x, l) ->
      mlog_calls_ok brs l i = true
      /\ (forall m, In m l -> mc_idx m = i)
      /\ x = loop_of_last l
      /\ (x = Some None -> all_reject l = true).
  Proof.
    intros Hb Hg. induction cs as [|c r IH]; intros x l E.
    - cbn [guard_loop_logged] in E. inversion E; subst. repeat split; try reflexivity.
      intros m [].
    - cbn [guard_loop_logged] in E.
      assert (Hon : guard_on action run g c =
                    let '((ob, _), err) := func_exec action run g c in
                    if err then GFail else match ob with Some b0 => GAccept b0 | None => GReject end)
        by reflexivity.
      destruct (func_exec action run g c) as [[ob em] err]. cbn beta iota in Hon.
      destruct err.
      + inversion E; subst. cbn [mlog_calls_ok mc_idx mc_cand mc_says].
        rewrite Hb, Hg, Hon, Nat.leb_refl. cbn [guard_says_eqb andb].
        repeat split; try reflexivity.
        * intros m [<-|[]]. reflexivity.
        * discriminate.
      + destruct ob as [b0|].
        * inversion E; subst. cbn [mlog_calls_ok mc_idx mc_cand mc_says].
          rewrite Hb, Hg, Hon, Nat.leb_refl, guard_says_eqb_refl. cbn [andb].
          repeat split; try reflexivity.
          -- intros m [<-|[]]. reflexivity.
          -- discriminate.
        * destruct (guard_loop_logged action run i g r) as [x' l'] eqn:E'.
          inversion E; subst. destruct (IH x l' eq_refl) as (H1 & H2 & H3 & H4).
          repeat split.
          -- cbn [mlog_calls_ok mc_idx mc_cand mc_says].
             rewrite Hb, Hg, Hon, Nat.leb_refl, H1. cbn [guard_says_eqb is_reject andb].
             destruct l'; reflexivity.
          -- intros m [<-|Hin]; [reflexivity | exact (H2 m Hin)].
          -- rewrite H3. unfold loop_of_last. rewrite last_call_cons.
             destruct l' as [|m' l'']; reflexivity.
          -- intros Hx. cbn [all_reject forallb mc_says is_reject andb]. exact (H4 Hx).
  Qed.

  (** ** one branch, the branches in order *)
  (** what the last call says about the branch result *)
  Definition try_final (brs : list (branch action)) (t : try_res) (log : list mcall) : Prop :=
    match last_call log with
    | None => True
    | Some m =>
        match mc_says m with
        | GReject => True
        | GAccept b' =>
            exists b, nth_error brs (mc_idx m) = Some b
                      /\ t = TTo (mk_state (target action b b') (Some b'))
        | GFail => t = TErr EGuard
        end
    end.

  Variable cord : cand_oracle.

  Lemma try_branch_logged_spec brs i b bs against t amb l :
    nth_error brs i = Some b ->
    try_branch_logged action run cord i b bs against = (t, amb, l) ->
      mlog_calls_ok brs l i = true
      /\ (forall m, In m l -> mc_idx m = i)
      /\ try_final brs t l
      /\ (t = TNone -> all_reject l = true).
  Proof.
    intros Hb. unfold try_branch_logged.
    destruct (match br_pattern b with
              | Some p => match Match p against (copy_bs bs) with
                          | Ok r => Ok (map Some r) | Err => Err | Fuel => Fuel end
              | None => Ok [bs]
              end) as [cs0| |].
    - destruct (br_guard b) as [g|] eqn:Hg.
      + destruct (guard_loop_logged action run i g (cord i cs0)) as [x l0] eqn:E.
        destruct (guard_loop_logged_spec brs i b g Hb Hg _ _ _ E) as (H1 & H2 & H3 & H4).
        cbn [fst snd].
        assert (Hfin : forall t0, t0 = match x with
                                       | None => TErr EGuard
                                       | Some None => TNone
                                       | Some (Some bs') => TTo (mk_state (target action b bs') (Some bs'))
                                       end -> try_final brs t0 l0).
        { intros t0 ->. unfold try_final. rewrite H3. unfold loop_of_last.
          destruct (last_call l0) as [m|] eqn:El; [|exact I].
          assert (Hi : mc_idx m = i) by (apply H2; apply last_call_in; exact El).
          destruct (mc_says m) as [b'| |]; [|exact I|reflexivity].
          exists b. rewrite Hi. split; [exact Hb|reflexivity]. }
        destruct x as [[bs'|]|]; intros E'; inversion E'; subst; repeat split; try assumption;
          try (apply Hfin; reflexivity); try discriminate.
        intros _. apply H4. reflexivity.
      + cbn [fst snd].
        destruct (match cord i cs0 with [] => Some None | [c] => Some c | _ :: _ :: _ => None end)
          as [[bs'|]|]; intros E'; inversion E'; subst; repeat split; try reflexivity;
          try (intros m []); exact I.
    - intros E'; inversion E'; subst. repeat split; try reflexivity; try (intros m []); exact I.
    - intros E'; inversion E'; subst. repeat split; try reflexivity; try (intros m []); exact I.
  Qed.

  Lemma first_branch_logged_spec brs : forall rest i bs against t amb l,
    (forall k, nth_error rest k = nth_error brs (i + k)) ->
    first_branch_logged action run cord i rest bs against = (t, amb, l) ->
      mlog_calls_ok brs l i = true
      /\ try_final brs t l
      /\ (t = TNone -> all_reject l = true).
  Proof.
    induction rest as [|b r IH]; intros i bs against t amb l Hnth E.
    - cbn [first_branch_logged] in E. inversion E; subst. repeat split; try reflexivity.
    - cbn [first_branch_logged] in E.
      assert (Hb : nth_error brs i = Some b).
      { specialize (Hnth 0). cbn [nth_error] in Hnth. rewrite Nat.add_0_r in Hnth. symmetry. exact Hnth. }
      destruct (try_branch_logged action run cord i b bs against) as [[t1 amb1] l1] eqn:E1.
      destruct (try_branch_logged_spec brs i b bs against t1 amb1 l1 Hb E1) as (H1 & H2 & H3 & H4).
      destruct t1 as [|s1|e1].
      + destruct (first_branch_logged action run cord (S i) r bs against) as [[t2 amb2] l2] eqn:E2.
        inversion E; subst.
        assert (Hnth' : forall k, nth_error r k = nth_error brs (S i + k)).
        { intros k. specialize (Hnth (S k)). cbn [nth_error] in Hnth. rewrite Hnth. f_equal. lia. }
        destruct (IH (S i) bs against t amb2 l2 Hnth' E2) as (G1 & G2 & G3).
        specialize (H4 eq_refl).
        repeat split.
        * apply (mlog_calls_ok_app brs l1 l2 i (S i)); try assumption; try lia.
          intros m Hin. rewrite (H2 m Hin). lia.
        * unfold try_final. rewrite last_call_app. destruct l2 as [|m2 l2'].
          -- pose proof (all_reject_last l1 H4) as Hl. destruct (last_call l1) as [m|]; [|exact I].
             rewrite Hl. exact I.
          -- exact G2.
        * intros Ht. unfold all_reject. rewrite forallb_app. fold (all_reject l1) (all_reject l2).
          rewrite H4, (G3 Ht). reflexivity.
      + inversion E; subst. repeat split; try assumption.
      + inversion E; subst. repeat split; try assumption.
  Qed.

  Definition node_branches_of (n : node action) : list (branch action) :=
    match nd_branching n with Some bg => bg_branches bg | None => [] end.

  Lemma consider_logged_spec n bs pending t consumer amb l :
    consider_logged action run cord (nd_branching n) bs pending = (t, consumer, amb, l) ->
      mlog_calls_ok (node_branches_of n) l 0 = true /\ try_final (node_branches_of n) t l.
  Proof.
    unfold consider_logged, node_branches_of. destruct (nd_branching n) as [bg|].
    - destruct (String.eqb (bg_type bg) "message").
      + destruct pending as [m|].
        * destruct (first_branch_logged action run cord 0 (bg_branches bg) bs m) as [[t' amb'] l'] eqn:E.
          intros E'; inversion E'; subst.
          destruct (first_branch_logged_spec (bg_branches bg) (bg_branches bg) 0 bs m t amb l
                      (fun k => eq_refl) E) as (H1 & H2 & _).
          split; assumption.
        * intros E'; inversion E'; subst. split; [reflexivity|exact I].
      + destruct (first_branch_logged action run cord 0 (bg_branches bg) bs (JObj (copy_bs bs)))
          as [[t' amb'] l'] eqn:E.
        intros E'; inversion E'; subst.
        destruct (first_branch_logged_spec (bg_branches bg) (bg_branches bg) 0 bs _ t amb l
                    (fun k => eq_refl) E) as (H1 & H2 & _).
        split; assumption.
    - intros E'; inversion E'; subst. split; [reflexivity|exact I].
  Qed.

  Definition go_of (o : step_out) : go_step := GStep (so_stride o) (err_class (so_err o)).

  Lemma continue_logged_spec n st pending have bs em o l :
    continue_logged action run cord n st pending have bs em = (o, l) ->
      mlog_calls_ok (node_branches_of n) l 0 = true
      /\ mlog_final_ok (go_of o) (node_branches_of n) l = true.
  Proof.
    unfold continue_logged.
    destruct (consider_logged action run cord (nd_branching n) bs pending) as [[[t consumer] amb] l0] eqn:E.
    destruct (consider_logged_spec n bs pending t consumer amb l0 E) as [H1 H2].
    assert (Hfin : forall o0, o0 = o ->
              (forall st', t = TTo st' -> so_stride o = Some (mk_stride (copy_state st) (Some (copy_state st'))
                                                           (if consumer then pending else None) em)
                                          /\ so_err o = None) ->
              (t = TErr EGuard -> so_err o = Some EGuard) ->
              mlog_final_ok (go_of o) (node_branches_of n) l0 = true).
    { intros o0 _ HTo HErr. unfold mlog_final_ok. unfold try_final in H2.
      destruct (last_call l0) as [m|]; [|reflexivity].
      destruct (mc_says m) as [b'| |]; [| reflexivity |].
      - destruct H2 as [b [Hb Ht]]. destruct (HTo _ Ht) as [Hs He].
        unfold go_of. rewrite Hs, He. cbn [err_class sd_to]. rewrite Hb. apply state_eqb_refl.
      - unfold go_of. rewrite (HErr H2). cbn [err_class]. destruct (so_stride o); reflexivity. }
    destruct t as [|st'|e]; intros E'; inversion E'; subst; split; try exact H1;
      apply (Hfin _ eq_refl); cbn [so_stride so_err]; try discriminate.
    - intros st0 Ht. inversion Ht; subst. split; reflexivity.
    - intros Ht. inversion Ht; subst. reflexivity.
  Qed.

  (** the branches of the node a state is at (the list the indices of the
      log refer to) *)
  Definition branches_at (s : spec action) (st : state) : list (branch action) :=
    match find_node (st_node st) (sp_nodes s) with
    | Some n => node_branches_of n
    | None => []
    end.

  (** the model's own log obeys the protocol, under every order *)
  Theorem step_logged_protocol s st pending o l :
    step_logged action run cord s st pending = (o, l) ->
      mlog_calls_ok (branches_at s st) l 0 = true
      /\ mlog_final_ok (go_of o) (branches_at s st) l = true.
  Proof.
    unfold step_logged, branches_at.
    assert (Hnil : forall o0 : step_out, (o0, @nil mcall) = (o, l) ->
              forall brs, mlog_calls_ok brs l 0 = true /\ mlog_final_ok (go_of o) brs l = true).
    { intros o0 E brs. inversion E; subst. split; reflexivity. }
    destruct (negb (sp_compiled s)); [intros E; exact (Hnil _ E _)|].
    destruct (find_node (st_node st) (sp_nodes s)) as [n|]; [|intros E; exact (Hnil _ E _)].
    cbv zeta.
    destruct (negb (match nd_action n with Some _ => true | None => false end) && nd_uncompiled n);
      [intros E; exact (Hnil _ E _)|].
    destruct ((match nd_action n with Some _ => true | None => false end)
              && match nd_branching n with
                 | Some b => String.eqb (bg_type b) "message" | None => false end);
      [intros E; exact (Hnil _ E _)|].
    destruct (nd_action n) as [a|].
    - destruct (func_exec action run a (st_bs st)) as [[ob emitted] err].
      destruct (negb err); [apply continue_logged_spec|].
      destruct (negb (sp_err_branches s)); [|apply continue_logged_spec].
      destruct (String.eqb (sp_err_node s) ""); intros E; exact (Hnil _ E _).
    - apply continue_logged_spec.
  Qed.
End Protocol.

(** * (b) Without the ambiguity flag, the order does not matter *)
Section OrderFree.
  Variable action : Type.
  Variable run : action -> option bindings -> exec_raw.

  (** the verdicts of the candidates the guard does not reject, in order *)
  Definition verdicts (g : action) (cs : list (option bindings)) : list guard_says :=
    filter (fun r => negb (guard_says_eqb r GReject)) (map (guard_on action run g) cs).

  Definition loop_of (v : guard_says) : option (option bindings) :=
    match v with GAccept b => Some (Some b) | GFail => None | GReject => Some None end.

  (** the guard loop returns what the first non-rejecting verdict says *)
  Lemma guard_loop_verdicts g cs :
    guard_loop action run g cs = match verdicts g cs with [] => Some None | v :: _ => loop_of v end.
  Proof.
    induction cs as [|c r IH]; [reflexivity|].
    unfold verdicts. cbn [map filter guard_loop].
    assert (Hon : guard_on action run g c =
                  let '((ob, _), err) := func_exec action run g c in
                  if err then GFail else match ob with Some b0 => GAccept b0 | None => GReject end)
      by reflexivity.
    destruct (func_exec action run g c) as [[ob em] err]. cbn beta iota in Hon. rewrite Hon.
    destruct err; [reflexivity|]. destruct ob as [b0|]; [reflexivity|].
    cbn [guard_says_eqb negb]. exact IH.
  Qed.

  Lemma filter_perm {A : Type} (f : A -> bool) (l l' : list A) :
    Permutation l l' -> Permutation (filter f l) (filter f l').
  Proof.
    induction 1 as [|x l l' HP IH|x y l|l l' l'' H1 IH1 H2 IH2].
    - apply perm_nil.
    - cbn [filter]. destruct (f x); [apply perm_skip|]; exact IH.
    - cbn [filter]. destruct (f x), (f y); try apply Permutation_refl. apply perm_swap.
    - exact (perm_trans IH1 IH2).
  Qed.

  Lemma verdicts_perm g cs cs' :
    Permutation cs' cs -> Permutation (verdicts g cs') (verdicts g cs).
  Proof. intros HP. unfold verdicts. apply filter_perm. apply Permutation_map. exact HP. Qed.

  Lemma order_free_same g cs :
    guard_order_free action run g cs = true ->
    exists v, forall x, In x (verdicts g cs) -> x = v.
  Proof.
    unfold guard_order_free. fold (verdicts g cs).
    destruct (verdicts g cs) as [|r rest]; intros H.
    - exists GReject. intros x [].
    - exists r. intros x [<-|Hin]; [reflexivity|].
      rewrite forallb_forall in H. symmetry. apply guard_says_eqb_eq. exact (H x Hin).
  Qed.

  (** [guard_order_free] means what its name says *)
  Lemma order_free_perm g cs cs' :
    Permutation cs' cs -> guard_order_free action run g cs = true ->
    guard_loop action run g cs' = guard_loop action run g cs
    /\ guard_order_free action run g cs' = true.
  Proof.
    intros HP Hof. destruct (order_free_same g cs Hof) as [v Hv].
    pose proof (verdicts_perm g cs cs' HP) as HPv.
    assert (Hv' : forall x, In x (verdicts g cs') -> x = v).
    { intros x Hin. apply Hv. exact (Permutation_in x HPv Hin). }
    split.
    - rewrite !guard_loop_verdicts.
      destruct (verdicts g cs) as [|a ra], (verdicts g cs') as [|a' ra'].
      + reflexivity.
      + apply Permutation_sym, Permutation_nil in HPv. discriminate HPv.
      + apply Permutation_nil in HPv. discriminate HPv.
      + rewrite (Hv a (or_introl eq_refl)), (Hv' a' (or_introl eq_refl)). reflexivity.
    - unfold guard_order_free. fold (verdicts g cs').
      destruct (verdicts g cs') as [|a' ra']; [reflexivity|].
      apply forallb_forall. intros x Hin. apply guard_says_eqb_eq.
      rewrite (Hv' a' (or_introl eq_refl)), (Hv' x (or_intror Hin)). reflexivity.
  Qed.

  Variable cord : cand_oracle.
  Hypothesis cord_perm : cand_perm cord.

  Lemma try_branch_logged_order_free i b bs against :
    snd (try_branch action run b bs against) = false ->
    fst (try_branch_logged action run cord i b bs against) = try_branch action run b bs against.
  Proof.
    unfold try_branch_logged, try_branch.
    destruct (match br_pattern b with
              | Some p => match Match p against (copy_bs bs) with
                          | Ok r => Ok (map Some r) | Err => Err | Fuel => Fuel end
              | None => Ok [bs]
              end) as [cs| |]; [|reflexivity|reflexivity].
    pose proof (cord_perm i cs) as HP. remember (cord i cs) as cs' eqn:Hcs'.
    destruct (br_guard b) as [g|].
    - destruct (guard_order_free action run g cs) eqn:Hof.
      + intros _. destruct (order_free_perm g cs cs' HP Hof) as [HL HO].
        rewrite guard_loop_logged_erase, HL.
        destruct (guard_loop action run g cs) as [[bs'|]|];
          destruct cs' as [|c1' [|c2' r']]; destruct cs as [|c1 [|c2 r]];
          rewrite ?HO, ?Hof; reflexivity.
      + destruct cs as [|c1 [|c2 r]].
        * apply Permutation_sym, Permutation_nil in HP. rewrite HP. intros _.
          rewrite guard_loop_logged_erase.
          destruct (guard_loop action run g []) as [[bs'|]|]; reflexivity.
        * apply Permutation_sym, Permutation_length_1_inv in HP. rewrite HP. intros _.
          rewrite guard_loop_logged_erase.
          destruct (guard_loop action run g [c1]) as [[bs'|]|]; reflexivity.
        * intros Hamb. exfalso. cbn [negb] in Hamb.
          destruct (guard_loop action run g (c1 :: c2 :: r)) as [[bs'|]|]; discriminate Hamb.
    - intros _. cbn [fst snd]. destruct cs as [|c1 [|c2 r]].
      + apply Permutation_sym, Permutation_nil in HP. rewrite HP. reflexivity.
      + apply Permutation_sym, Permutation_length_1_inv in HP. rewrite HP. destruct c1; reflexivity.
      + apply Permutation_length in HP. destruct cs' as [|c1' [|c2' r']]; try discriminate HP.
        reflexivity.
  Qed.

  Lemma first_branch_logged_order_free brs : forall i bs against,
    snd (first_branch action run brs bs against) = false ->
    fst (first_branch_logged action run cord i brs bs against) = first_branch action run brs bs against.
  Proof.
    induction brs as [|b r IH]; intros i bs against; [reflexivity|].
    cbn [first_branch first_branch_logged].
    pose proof (try_branch_logged_order_free i b bs against) as Ht.
    destruct (try_branch action run b bs against) as [t amb]. cbn [snd] in Ht.
    destruct (try_branch_logged action run cord i b bs against) as [[t1 amb1] l1]. cbn [fst] in Ht.
    destruct t as [|s1|e1].
    - specialize (IH (S i) bs against).
      destruct (first_branch action run r bs against) as [t2 amb2]. cbn [snd] in IH |- *.
      intros Hor. apply orb_false_iff in Hor. destruct Hor as [Ha Hb].
      specialize (Ht Ha). specialize (IH Hb). inversion Ht; subst.
      destruct (first_branch_logged action run cord (S i) r bs against) as [[t3 amb3] l3].
      cbn [fst] in IH |- *. inversion IH; subst. reflexivity.
    - cbn [snd]. intros Ha. specialize (Ht Ha). inversion Ht; subst. reflexivity.
    - cbn [snd]. intros Ha. specialize (Ht Ha). inversion Ht; subst. reflexivity.
  Qed.

  Lemma consider_logged_order_free bg bs pending :
    snd (consider action run bg bs pending) = false ->
    fst (consider_logged action run cord bg bs pending) = consider action run bg bs pending.
  Proof.
    unfold consider_logged, consider. destruct bg as [b|]; [|reflexivity].
    destruct (String.eqb (bg_type b) "message").
    - destruct pending as [m|]; [|reflexivity].
      pose proof (first_branch_logged_order_free (bg_branches b) 0 bs m) as H.
      destruct (first_branch action run (bg_branches b) bs m) as [t amb]. cbn [snd] in H |- *.
      intros Ha. specialize (H Ha).
      destruct (first_branch_logged action run cord 0 (bg_branches b) bs m) as [[t' amb'] l'].
      cbn [fst] in H |- *. inversion H; subst. reflexivity.
    - pose proof (first_branch_logged_order_free (bg_branches b) 0 bs (JObj (copy_bs bs))) as H.
      destruct (first_branch action run (bg_branches b) bs (JObj (copy_bs bs))) as [t amb].
      cbn [snd] in H |- *. intros Ha. specialize (H Ha).
      destruct (first_branch_logged action run cord 0 (bg_branches b) bs (JObj (copy_bs bs)))
        as [[t' amb'] l'].
      cbn [fst] in H |- *. inversion H; subst. reflexivity.
  Qed.

  Lemma continue_logged_order_free n st pending have bs em :
    so_ambiguous (continue_plain action run n st pending have bs em) = false ->
    fst (continue_logged action run cord n st pending have bs em)
    = continue_plain action run n st pending have bs em.
  Proof.
    unfold continue_logged, continue_plain.
    pose proof (consider_logged_order_free (nd_branching n) bs pending) as H.
    destruct (consider action run (nd_branching n) bs pending) as [[tr consumer] amb]. cbn [snd] in H.
    intros Ha. assert (Hamb : amb = false) by (destruct tr; exact Ha). specialize (H Hamb).
    destruct (consider_logged action run cord (nd_branching n) bs pending) as [[[tr' consumer'] amb'] log].
    cbn [fst] in H. inversion H; subst. destruct tr; reflexivity.
  Qed.

  (** [step], written with [continue_plain] (the same term, by computation) *)
  Lemma step_as_continue s st pending :
    step action run s st pending =
    if negb (sp_compiled s) then mk_step_out None (Some ENotCompiled) false else
    match find_node (st_node st) (sp_nodes s) with
    | None => mk_step_out None (Some EUnknownNode) false
    | Some n =>
        let have := match nd_action n with Some _ => true | None => false end in
        if negb have && nd_uncompiled n then mk_step_out None (Some EUncompiledAction) false else
        if have && match nd_branching n with
                   | Some b => String.eqb (bg_type b) "message"
                   | None => false
                   end
        then mk_step_out None (Some EBadBranching) false else
        match nd_action n with
        | None => continue_plain action run n st pending have (st_bs st) []
        | Some a =>
            let '((ob, emitted), err) := func_exec action run a (st_bs st) in
            let ebs := copy_bs ob in
            if negb err then continue_plain action run n st pending have (Some ebs) emitted
            else
              let bs := bset "error" err_text (bset "actionError" err_text (copy_bs (st_bs st))) in
              if negb (sp_err_branches s) then
                if String.eqb (sp_err_node s) "" then mk_step_out None (Some EAction) false
                else mk_step_out
                       (Some (mk_stride (copy_state st)
                                        (Some (mk_state (sp_err_node s) (Some bs))) None emitted))
                       None false
              else continue_plain action run n st pending have (Some bs) emitted
        end
    end.
  Proof. reflexivity. Qed.

  (** a step the model does not flag ambiguous has the same result under
      every candidate order: the model's [step] *)
  Theorem step_logged_order_free s st pending :
    so_ambiguous (step action run s st pending) = false ->
    fst (step_logged action run cord s st pending) = step action run s st pending.
  Proof.
    rewrite step_as_continue. unfold step_logged.
    destruct (negb (sp_compiled s)); [reflexivity|].
    destruct (find_node (st_node st) (sp_nodes s)) as [n|]; [|reflexivity].
    cbv zeta.
    destruct (negb (match nd_action n with Some _ => true | None => false end) && nd_uncompiled n);
      [reflexivity|].
    destruct ((match nd_action n with Some _ => true | None => false end)
              && match nd_branching n with
                 | Some b => String.eqb (bg_type b) "message" | None => false end);
      [reflexivity|].
    destruct (nd_action n) as [a|].
    - destruct (func_exec action run a (st_bs st)) as [[ob emitted] err].
      destruct (negb err); [apply continue_logged_order_free|].
      destruct (negb (sp_err_branches s)); [|apply continue_logged_order_free].
      destruct (String.eqb (sp_err_node s) ""); reflexivity.
    - apply continue_logged_order_free.
  Qed.
End OrderFree.

(** any two candidate orders give the same result *)
Corollary step_logged_order_free2 action run (c1 c2 : cand_oracle) s st pending :
  cand_perm c1 -> cand_perm c2 ->
  so_ambiguous (step action run s st pending) = false ->
  fst (step_logged action run c1 s st pending) = fst (step_logged action run c2 s st pending).
Proof.
  intros H1 H2 Ha.
  rewrite (step_logged_order_free action run c1 H1 s st pending Ha),
          (step_logged_order_free action run c2 H2 s st pending Ha). reflexivity.
Qed.

(** * (a) The oracle of Corr/StepCorr.v accepts the model's own logs *)

(** the trivial conversion between the model's log type and the harness's *)
Definition verdict_of (v : guard_says) : gverdict :=
  match v with GAccept b => GVAccept b | GReject => GVReject | GFail => GVFail end.
Definition gcall_of (m : mcall) : gcall :=
  mk_gcall (mc_idx m) (mc_cand m) (verdict_of (mc_says m)).
Definition mcall_of (g : gcall) : mcall :=
  mk_mcall (gl_idx g) (gl_cand g) (says_of (gl_v g)).

Lemma says_of_verdict_of v : says_of (verdict_of v) = v.
Proof. destruct v; reflexivity. Qed.
Lemma verdict_of_says_of v : verdict_of (says_of v) = v.
Proof. destruct v; reflexivity. Qed.
Lemma mcall_of_gcall_of m : mcall_of (gcall_of m) = m.
Proof. destruct m as [i c v]. unfold mcall_of, gcall_of. cbn. rewrite says_of_verdict_of. reflexivity. Qed.
Lemma gcall_of_mcall_of g : gcall_of (mcall_of g) = g.
Proof. destruct g as [i c v]. unfold mcall_of, gcall_of. cbn. rewrite verdict_of_says_of. reflexivity. Qed.

Lemma glog_calls_ok_map brs log : forall prev,
  glog_calls_ok brs (map gcall_of log) prev = mlog_calls_ok act run_act brs log prev.
Proof.
  induction log as [|m r IH]; intros prev; [reflexivity|].
  cbn [map glog_calls_ok mlog_calls_ok gcall_of gl_idx gl_cand gl_v].
  rewrite IH, says_of_verdict_of.
  destruct r as [|m' r']; destruct (mc_says m); reflexivity.
Qed.

Lemma glog_final_ok_map c brs log :
  glog_final_ok c brs (map gcall_of log) = mlog_final_ok act (sc_go c) brs log.
Proof.
  unfold glog_final_ok, mlog_final_ok.
  change (last (map Some (map gcall_of log)) None) with (last_call (map gcall_of log)).
  rewrite last_call_map. destruct (last_call log) as [m|]; [|reflexivity].
  cbn [option_map gcall_of gl_v gl_idx].
  destruct (mc_says m); destruct (sc_go c) as [[sd|] e| | |]; try destruct e; reflexivity.
Qed.

(** SOUNDNESS of [glog_ok]: whatever the order in which each branch's
    candidates are listed, the observation and the guard log of the
    instrumented model step are accepted.  No side condition: where the step
    stops before any branch is considered (specification not compiled, node
    unknown, uncompiled action, action with message branching, action error
    routed to the error node) the log is empty. *)
Theorem glog_oracle_sound :
  forall (cord : cand_oracle) (s : aspec) (st : state) (pending : option json)
         (o : step_out) (log : list mcall) (intact shared repeat : bool),
  step_logged act run_act cord s st pending = (o, log) ->
  glog_ok (mk_scase s st pending (GStep (so_stride o) (err_class (so_err o)))
                    intact shared repeat (Some (map gcall_of log))) = true.
Proof.
  intros cord s st pending o log intact shared repeat E.
  destruct (step_logged_protocol act run_act cord s st pending o log E) as [H1 H2].
  unfold glog_ok. cbn [sc_glog].
  rewrite glog_calls_ok_map, glog_final_ok_map. cbn [sc_go].
  change (node_branches (mk_scase s st pending (GStep (so_stride o) (err_class (so_err o)))
                                  intact shared repeat (Some (map gcall_of log))))
    with (branches_at act s st).
  fold (go_of o). rewrite H1, H2. reflexivity.
Qed.

(** the same, stated with the oracles of Model/Match.v *)
Corollary glog_oracle_sound_ord :
  forall (ord : order_oracle), perm_oracle ord ->
  forall (s : aspec) (st : state) (pending : option json),
  let r := step_logged act run_act (cand_of_order ord) s st pending in
  glog_ok (mk_scase s st pending (GStep (so_stride (fst r)) (err_class (so_err (fst r))))
                    true false true (Some (map gcall_of (snd r)))) = true.
Proof.
  intros ord _ s st pending r. apply (glog_oracle_sound (cand_of_order ord)).
  subst r. destruct (step_logged act run_act (cand_of_order ord) s st pending); reflexivity.
Qed.

(** and with the identity order the observation is [astep]'s *)
Corollary glog_oracle_accepts_model :
  forall (s : aspec) (st : state) (pending : option json),
  let o := astep s st pending in
  glog_ok (mk_scase s st pending (GStep (so_stride o) (err_class (so_err o)))
                    true false true
                    (Some (map gcall_of (snd (step_logged act run_act cand_id s st pending))))) = true.
Proof.
  intros s st pending o. subst o. unfold astep.
  rewrite <- (step_logged_erase act run_act s st pending).
  apply (glog_oracle_sound cand_id).
  destruct (step_logged act run_act cand_id s st pending); reflexivity.
Qed.

(** * Examples: the statements are not vacuous *)
Open Scope string_scope.
Open Scope list_scope.

Definition g_any : act := Js (mk_prog [] TRetBindings).                  (* accepts every candidate *)
Definition g_x2 : act := Js (mk_prog [] (TRetIfEq "?x" (JNum 2))).       (* accepts ?x = 2 only *)
Definition g_boom : act := Js (mk_prog [] TThrow).                        (* fails *)
Definition ex_msg : json := JObj [("a", JArr [JNum 1; JNum 2; JNum 3])].
Definition ex_pat : json := JObj [("a", JArr [JStr "?x"])].              (* three candidates on ex_msg *)
Definition ex_start : state := mk_state "start" (Some []).
Definition rev_oracle : cand_oracle := fun _ l => rev l.
Lemma rev_oracle_perm : cand_perm rev_oracle.
Proof. intros i l. apply Permutation_sym, Permutation_rev. Qed.

(** one guarded branch with three candidates of which the guard accepts one:
    not ambiguous; the two orders give different logs and the same result *)
Definition ex_spec_x2 : aspec :=
  mk_spec
    [("start", mk_node None false
        (Some (mk_branching "message"
                 [mk_branch (Some (JObj [("never", JStr "?y")])) (Some g_any) "zero";
                  mk_branch (Some ex_pat) (Some g_x2) "one";
                  mk_branch None None "two"])))]
    false "" true.

Example ex_x2_logs :
  map gcall_of (snd (step_logged act run_act cand_id ex_spec_x2 ex_start (Some ex_msg)))
  = [mk_gcall 1 (Some [("?x", JNum 1)]) GVReject;
     mk_gcall 1 (Some [("?x", JNum 2)]) (GVAccept [("?x", JNum 2)])]
  /\ map gcall_of (snd (step_logged act run_act rev_oracle ex_spec_x2 ex_start (Some ex_msg)))
  = [mk_gcall 1 (Some [("?x", JNum 3)]) GVReject;
     mk_gcall 1 (Some [("?x", JNum 2)]) (GVAccept [("?x", JNum 2)])]
  /\ so_ambiguous (astep ex_spec_x2 ex_start (Some ex_msg)) = false
  /\ fst (step_logged act run_act rev_oracle ex_spec_x2 ex_start (Some ex_msg))
     = astep ex_spec_x2 ex_start (Some ex_msg).
Proof. vm_compute. repeat split; reflexivity. Qed.

(** an action that fails, its error routed to the branches
    (ActionErrorBranches), a guard that rejects, then a guard that fails:
    the log is that of the current node's branches and ends with the failure *)
Definition ex_spec_err : aspec :=
  mk_spec
    [("start", mk_node (Some (Js (mk_prog [AEmit (JStr "lost")] TThrow))) false
        (Some (mk_branching "bindings"
                 [mk_branch (Some (JObj [("actionError", JStr "?e")]))
                            (Some (Js (mk_prog [] (TRetIfEq "nope" (JNum 4))))) "zero";
                  mk_branch None (Some g_boom) "one"])))]
    true "" true.

Example ex_err_log :
  let r := step_logged act run_act rev_oracle ex_spec_err ex_start None in
  map (fun m => (mc_idx m, mc_says m)) (snd r) = [(0, GReject); (1, GFail)]
  /\ err_class (so_err (fst r)) = GOther
  /\ glog_ok (mk_scase ex_spec_err ex_start None
                       (GStep (so_stride (fst r)) (err_class (so_err (fst r))))
                       true false true (Some (map gcall_of (snd r)))) = true.
Proof. vm_compute. repeat split; reflexivity. Qed.

(** an action that fails, error routed to the branches, and a guard that
    accepts: To comes from the guard's bindings *)
Definition ex_spec_err_acc : aspec :=
  mk_spec
    [("start", mk_node (Some (Js (mk_prog [] TThrow))) false
        (Some (mk_branching "bindings"
                 [mk_branch (Some (JObj [("actionError", JStr "?e")])) (Some g_any) "recover"])))]
    true "" true.

Example ex_err_acc_log :
  let r := step_logged act run_act cand_id ex_spec_err_acc ex_start None in
  List.length (snd r) = 1
  /\ option_map st_node (match so_stride (fst r) with Some sd => sd_to sd | None => None end)
     = Some "recover"
  /\ glog_ok (mk_scase ex_spec_err_acc ex_start None
                       (GStep (so_stride (fst r)) (err_class (so_err (fst r))))
                       true false true (Some (map gcall_of (snd r)))) = true.
Proof. vm_compute. repeat split; reflexivity. Qed.

(** * (c) Discrimination *)
(** one guarded branch, three candidates, the guard accepts each: the model
    flags the step ambiguous, so [step_agrees] is silent whatever the
    implementation returned *)
Definition ex_spec_any : aspec :=
  mk_spec
    [("start", mk_node None false
        (Some (mk_branching "message"
                 [mk_branch (Some ex_pat) (Some g_any) "one";
                  mk_branch None None "two"])))]
    false "" true.

Definition ex_to (n : Z) : go_step :=
  GStep (Some (mk_stride ex_start (Some (mk_state "one" (Some [("?x", JNum n)])))
                         (Some ex_msg) [])) GNone.
Definition acc_call (n : Z) : gcall :=
  mk_gcall 0 (Some [("?x", JNum n)]) (GVAccept [("?x", JNum n)]).

(** honest: the first candidate in Match order wins, one call *)
Definition disc_honest_first : scase :=
  mk_scase ex_spec_any ex_start (Some ex_msg) (ex_to 1) true false true (Some [acc_call 1]).
(** honest, other order: the candidates listed in reverse, the first wins, one call *)
Definition disc_honest_last : scase :=
  mk_scase ex_spec_any ex_start (Some ex_msg) (ex_to 3) true false true (Some [acc_call 3]).
(** broken loop: the guard ran on every candidate and the last accepted one
    won - the SAME returned stride as [disc_honest_last] *)
Definition disc_run_all : scase :=
  mk_scase ex_spec_any ex_start (Some ex_msg) (ex_to 3) true false true
           (Some [acc_call 1; acc_call 2; acc_call 3]).
(** broken loop: stopped at the first acceptance but took the bindings of
    another candidate *)
Definition disc_wrong_bindings : scase :=
  mk_scase ex_spec_any ex_start (Some ex_msg) (ex_to 3) true false true (Some [acc_call 1]).

Theorem glog_oracle_discriminates :
  (* the comparison of results cannot tell *)
  so_ambiguous (model_step disc_run_all) = true
  /\ step_agrees stride_eqb disc_run_all = true
  /\ step_agrees c04_proj disc_run_all = true
  /\ step_agrees stride_eqb disc_wrong_bindings = true
  (* the log oracle can *)
  /\ glog_ok disc_run_all = false
  /\ glog_ok disc_wrong_bindings = false
  (* and it accepts what the model shows under the two orders *)
  /\ glog_ok disc_honest_first = true
  /\ glog_ok disc_honest_last = true
  /\ sc_go disc_honest_first
     = go_of (fst (step_logged act run_act cand_id ex_spec_any ex_start (Some ex_msg)))
  /\ sc_glog disc_honest_first
     = Some (map gcall_of (snd (step_logged act run_act cand_id ex_spec_any ex_start (Some ex_msg))))
  /\ sc_go disc_honest_last
     = go_of (fst (step_logged act run_act rev_oracle ex_spec_any ex_start (Some ex_msg)))
  /\ sc_glog disc_honest_last
     = Some (map gcall_of (snd (step_logged act run_act rev_oracle ex_spec_any ex_start (Some ex_msg)))).
Proof. vm_compute. repeat split; reflexivity. Qed.
