(** Generic facts about the interleaving semantics of Model/ConcJs.v: threads
    whose steps leave the shared state unchanged obtain, in every interleaving,
    exactly what they obtain alone (used by C10 for executions, by C12 for
    walkers over one specification). *)
From Sheens Require Import Model.ConcJs.
From Coq Require Import List Arith Lia.
Import ListNotations.

(** * Lists *)

Lemma nth_error_set_nth_same :
  forall (L : Type) i (x : L) l y, nth_error l i = Some y -> nth_error (set_nth i x l) i = Some x.
Proof.
  intros L i x l. revert i. induction l as [|a r IH]; intros i y H; destruct i; simpl in *; try discriminate.
  - reflexivity.
  - eapply IH. exact H.
Qed.

Lemma nth_error_set_nth_other :
  forall (L : Type) i j (x : L) l, i <> j -> nth_error (set_nth i x l) j = nth_error l j.
Proof.
  intros L i j x l. revert i j. induction l as [|a r IH]; intros i j H; destruct i, j; simpl; try reflexivity.
  - congruence.
  - apply IH. congruence.
Qed.

Lemma iterate_succ_r : forall (L : Type) k (f : L -> L) x, f (iterate k f x) = iterate (S k) f x.
Proof. intros L k f. induction k as [|k IH]; intros x; simpl; [reflexivity | apply IH]. Qed.

Lemma iterate_add : forall (L : Type) a b (f : L -> L) x, iterate (a + b) f x = iterate b f (iterate a f x).
Proof. intros L a b f. induction a as [|a IH]; intros x; simpl; [reflexivity | apply IH]. Qed.

(** * (a) read-only shared state: any interleaving = alone *)

Section ReadOnly.
  Variables Sh L : Type.
  Variable step : Sh -> L -> Sh * L.
  Hypothesis read_only : forall sh l, fst (step sh l) = sh.

  Theorem ro_run :
    forall sched sh cfg,
    fst (interleave step sched sh cfg) = sh /\
    forall i, nth_error (snd (interleave step sched sh cfg)) i
              = option_map (iterate (turns i sched) (fun l => snd (step sh l))) (nth_error cfg i).
  Proof.
    induction sched as [|j r IH]; intros sh cfg; simpl.
    - split; [reflexivity|]. intros i. destruct (nth_error cfg i); reflexivity.
    - destruct (nth_error cfg j) as [l|] eqn:Ej.
      + pose proof (read_only sh l) as Hro. destruct (step sh l) as [sh' l'] eqn:Es. simpl in Hro. subst sh'.
        destruct (IH sh (set_nth j l' cfg)) as [IH1 IH2]. split; [exact IH1|].
        intros i. rewrite IH2. destruct (Nat.eqb i j) eqn:Eij.
        * apply Nat.eqb_eq in Eij. subst i. rewrite (nth_error_set_nth_same _ j l' cfg l Ej). rewrite Ej.
          simpl. rewrite Es. reflexivity.
        * apply Nat.eqb_neq in Eij. rewrite nth_error_set_nth_other by congruence. reflexivity.
      + destruct (IH sh cfg) as [IH1 IH2]. split; [exact IH1|].
        intros i. rewrite IH2. destruct (Nat.eqb i j) eqn:Eij; [|reflexivity].
        apply Nat.eqb_eq in Eij. subst i. rewrite Ej. reflexivity.
  Qed.
End ReadOnly.

(** the hypothesis matters: a step that leaves something in the shared state
    (a cache filled lazily) makes a thread's result depend on the others *)
Definition caching_step (cache : nat) (l : nat) : nat * nat := (S cache, l + cache).
Lemma hidden_write_breaks_independence :
  nth_error (snd (interleave caching_step [0; 1] 0 [10; 10])) 1 <> nth_error (snd (interleave caching_step [1] 0 [10; 10])) 1.
Proof. vm_compute. discriminate. Qed.

