(** A state written out as JSON text *with string escapes* and read back is
    the very same state (Model/StateTextEsc.v), whatever characters its node
    name, binding names and bound strings contain; and the escape-aware
    encoding extends the one of Model/StateText.v conservatively. *)
From Sheens Require Import Model.StateTextEsc Proofs.JsonTextFacts Proofs.JsonTextEscProofs
     Proofs.StateTextProofs.

Lemma ascii_state_json st : ascii_state st = true -> ascii_json (state_json st) = true.
Proof.
  unfold ascii_state, state_json. intros H. apply andb_true_iff in H. destruct H as [Hn Hb].
  cbn [ascii_json forallb fst snd ascii_string]. rewrite Hn.
  destruct (st_bs st) as [b|]; cbn [ascii_json] in *; [rewrite Hb|]; reflexivity.
Qed.

Lemma noesc_state_json st : noesc_state st = true -> noesc_json (state_json st) = true.
Proof.
  unfold noesc_state, state_json. intros H. apply andb_true_iff in H. destruct H as [Hn Hb].
  cbn [noesc_json forallb fst snd noesc_string]. rewrite Hn.
  destruct (st_bs st) as [b|]; cbn [noesc_json] in *; [rewrite Hb|]; reflexivity.
Qed.

(** * The round trip *)

(** in the model, for every byte string: no side condition *)
Theorem decode_encode_state_esc_bytes : forall st, decode_state_esc (encode_state_esc st) = Some st.
Proof.
  intros st. unfold decode_state_esc, encode_state_esc.
  rewrite (parse_print_esc_bytes (state_json st)). apply state_of_state_json.
Qed.

(** the statement about Go: every state whose strings are ASCII *)
Theorem decode_encode_state_esc : forall st,
  ascii_state st = true -> decode_state_esc (encode_state_esc st) = Some st.
Proof.
  intros st H. unfold decode_state_esc, encode_state_esc.
  rewrite (parse_print_esc _ (ascii_state_json st H)). apply state_of_state_json.
Qed.

(** two states with the same stored text are the same state *)
Corollary encode_state_esc_inj_bytes : forall a b, encode_state_esc a = encode_state_esc b -> a = b.
Proof.
  intros a b E. pose proof (decode_encode_state_esc_bytes a) as Pa.
  rewrite E, (decode_encode_state_esc_bytes b) in Pa. congruence.
Qed.

Corollary encode_state_esc_inj : forall a b,
  ascii_state a = true -> ascii_state b = true -> encode_state_esc a = encode_state_esc b -> a = b.
Proof.
  intros a b Ha Hb E. pose proof (decode_encode_state_esc a Ha) as Pa.
  rewrite E, (decode_encode_state_esc b Hb) in Pa. congruence.
Qed.

(** persisting at a message boundary is unobservable *)
Corollary reload_unobservable_esc : forall (A : Type) (process : state -> A) st,
  ascii_state st = true ->
  option_map process (decode_state_esc (encode_state_esc st)) = Some (process st).
Proof. intros A process st H. rewrite (decode_encode_state_esc st H). reflexivity. Qed.

(** * Conservativity over Model/StateText.v *)

(** whatever stored text the decoder without escapes reads, the decoder with
    escapes reads as the same state *)
Theorem decode_state_esc_conservative : forall s st,
  decode_state s = Some st -> decode_state_esc s = Some st.
Proof.
  intros s st H. unfold decode_state in H. unfold decode_state_esc.
  destruct (parse s) as [j |] eqn:E; [| discriminate].
  rewrite (parse_esc_conservative s j E). exact H.
Qed.

(** where no string needs an escape the two encoders write the same text *)
Theorem encode_state_esc_noesc : forall st,
  noesc_state st = true -> encode_state_esc st = encode_state st.
Proof.
  intros st H. unfold encode_state_esc, encode_state.
  exact (print_esc_noesc _ (noesc_state_json st H)).
Qed.

(** a text stored by the encoder without escapes (a plain state: [<], [>],
    [&] allowed) is read back by the decoder with escapes *)
Theorem decode_esc_encode_plain : forall st,
  plain_state st = true -> decode_state_esc (encode_state st) = Some st.
Proof.
  intros st H. exact (decode_state_esc_conservative _ _ (decode_encode_state st H)).
Qed.

(** on plain states the two complete pipelines agree *)
Theorem state_text_esc_conservative : forall st,
  plain_state st = true ->
  decode_state_esc (encode_state_esc st) = decode_state (encode_state st).
Proof.
  intros st H. rewrite (decode_encode_state st H). apply decode_encode_state_esc_bytes.
Qed.

(** plain characters are not all ASCII (bytes from 128 on are plain) and
    ASCII characters are not all plain: neither fragment contains the other;
    the byte-level theorems above cover both *)
Lemma noesc_state_plain : forall st, noesc_state st = true -> plain_state st = true.
Proof.
  intros st H. unfold noesc_state, plain_state in *. apply andb_true_iff in H. destruct H as [Hn Hb].
  rewrite (noesc_plain_string _ Hn). cbn [andb].
  destruct (st_bs st) as [b |]; [| reflexivity]. exact (noesc_plain_json (JObj b) Hb).
Qed.
