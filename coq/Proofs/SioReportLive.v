(** C15: what a crew reports is what the crew has.

    [cache_live]: an invariant of the change cache ([Crew.changed]) alone,
    a sibling of [inv] of Proofs/SioPersist.v (which relates the cache to a
    consumer's store).  Per machine id [m] with a cached change [ch], with
    [mc] the lookup of [m] among the live machines ([live_entry mc ch]):

    - a pending change that is no deletion names a live machine;
    - a cached state is the CURRENT state of a live machine - whatever
      [c_deleted] says: after a deletion the cached state is [None]
      ([delete_machine] drops the earlier changes, the repair of D14), and
      every later state in the cache is written together with the machine's
      ([set_machine], [record_state]);
    - a pending deletion of a machine that does not exist (any more) is a
      pure deletion: no state and no specification source.  (A pending
      deletion of a machine that EXISTS - deleted and created again, D14 -
      may carry both, and may also carry no state: [set_machine] without a
      state after a deletion leaves [c_state = None] while the machine is at
      the default state; [report_of] reads the state of such a machine from
      the machine, not from the cache.)

    No clause had to be weakened for the model: [delete_machine] is the only
    step that removes a machine and it sets [c_deleted]; [set_machine] and
    [record_state] leave the machine in place; [get_changed] empties the
    cache.  (Operations on the two service machines are outside the model:
    [hstep] and [present] answer [Unmodelled]; updates of a service machine
    without a state are dropped by [strip_op] before [do_op].  The lemmas on
    [set_machine] / [delete_machine] below hold for every id.)

    The consequence for [get_changed] ([report_live]): every report it
    returns that is no deletion names a live machine and a state in it is
    that machine's state; a deletion with a state (the replacement report of
    D14) carries the state of the machine that exists now; a deletion
    without a state names a machine that does not exist and carries no
    source.  This needs the order oracle to enumerate only keys of the cache
    ([ord_perm]); [suppress] only drops reports ([suppress_out_subset]). *)
From Coq Require Import List String Bool Arith Lia Permutation.
From Sheens Require Import Proofs.CplBasics.
From Sheens Require Import Model.SioCrew Spec.SioSpec Proofs.SioBasics Proofs.SioPersist.
Import ListNotations.
Open Scope string_scope.
Open Scope list_scope.

Section ReportLive.
Variable S : Type.
Variable react : S -> mid -> mstate -> json -> option mstate * list json.
Variable decode_src : json -> option S.
Variable resolves : S -> bool.
Variable src_eqb : S -> S -> bool.
Variable ord : forall A : Type, list (mid * A) -> list (mid * A).
Hypothesis ord_perm : forall A l, Permutation (ord A l) l.

Local Notation crew := (crew S).
Local Notation mach := (mach S).
Local Notation chg := (chg S).
Local Notation entry := (entry S).
Local Notation present := (present S react decode_src resolves).
Local Notation run_list := (run_list S react decode_src resolves).
Local Notation run_machines := (run_machines S react decode_src resolves ord).
Local Notation process := (process S react decode_src resolves ord).
Local Notation process_msg := (process_msg S react decode_src resolves src_eqb ord).
Local Notation get_changed := (get_changed S src_eqb ord).
Local Notation set_machine := (set_machine S resolves).
Local Notation delete_machine := (delete_machine S).
Local Notation hstep := (hstep S react decode_src resolves src_eqb ord).
Local Notation run_history := (run_history S react decode_src resolves src_eqb ord).
Local Notation set_mach := (set_mach S resolves).
Local Notation set_chg := (set_chg S).

(** ** the invariant *)
Definition live_entry (mc : option mach) (ch : chg) : Prop :=
  (c_deleted S ch = false -> exists mc0, mc = Some mc0)
  /\ (forall st, c_state S ch = Some st -> exists mc0, mc = Some mc0 /\ m_state S mc0 = st)
  /\ (c_deleted S ch = true -> mc = None -> c_state S ch = None /\ c_src S ch = None).

Definition cache_live (c : crew) : Prop :=
  forall m ch, aget m (cache S c) = Some ch -> live_entry (aget m (machines S c)) ch.

(** the three clauses in the words of the property *)
Lemma cache_live_state c m ch st :
  cache_live c -> aget m (cache S c) = Some ch -> c_deleted S ch = false -> c_state S ch = Some st ->
  exists mc, aget m (machines S c) = Some mc /\ m_state S mc = st.
Proof. intros I E _ Es. destruct (I m ch E) as (_ & B & _). apply B. exact Es. Qed.

Lemma cache_live_exists c m ch :
  cache_live c -> aget m (cache S c) = Some ch -> c_deleted S ch = false ->
  exists mc, aget m (machines S c) = Some mc.
Proof. intros I E Ed. destruct (I m ch E) as (A & _ & _). apply A. exact Ed. Qed.

Lemma cache_live_pure_deletion c m ch :
  cache_live c -> aget m (cache S c) = Some ch -> c_deleted S ch = true -> aget m (machines S c) = None ->
  c_state S ch = None /\ c_src S ch = None.
Proof. intros I E Ed En. destruct (I m ch E) as (_ & _ & C). apply C; assumption. Qed.

Lemma cache_live_init : cache_live (init_crew S).
Proof. intros m ch H. discriminate. Qed.

Lemma cache_live_empty c : cache S c = [] -> cache_live c.
Proof. intros E m ch H. rewrite E in H. discriminate. Qed.

(** ** record-level preservation *)
Definition olive (mc : option mach) (och : option chg) : Prop :=
  forall ch, och = Some ch -> live_entry mc ch.

Lemma live_set old och src st' :
  olive old och -> live_entry (Some (set_mach old src st')) (set_chg och src st').
Proof.
  intros I. split; [|split].
  - intros _. eexists. reflexivity.
  - intros st Es. eexists. split; [reflexivity|].
    unfold SioPersist.set_chg in Es. simpl in Es.
    destruct st' as [s|]; simpl in Es.
    + injection Es as <-. destruct old; reflexivity.
    + destruct och as [ch|]; [|discriminate].
      destruct (I ch eq_refl) as (_ & B & _). destruct (B _ Es) as (mc0 & -> & Em).
      simpl. exact Em.
  - intros _ E. discriminate.
Qed.

Lemma live_set_untouched mc och :
  olive (Some mc) och -> olive (Some (set_mach (Some mc) None None)) och.
Proof. destruct mc. simpl. auto. Qed.

Lemma live_delete : live_entry None (mk_chg (S := S) true None None).
Proof.
  split; [|split].
  - intros E. discriminate.
  - intros st E. discriminate.
  - intros _ _. split; reflexivity.
Qed.

Lemma live_record src d csrc st :
  live_entry (Some (mk_mach src st)) (mk_chg (S := S) d (Some st) csrc).
Proof.
  split; [|split].
  - intros _. eexists. reflexivity.
  - intros st0 [= <-]. eexists. split; reflexivity.
  - intros _ E. discriminate.
Qed.

(** ** the primitive operations *)
Lemma set_machine_live c m src st : cache_live c -> cache_live (set_machine c m src st).
Proof.
  intros I m' ch H.
  destruct (set_machine_lookup S resolves c m src st) as (EM & EC & _ & _).
  rewrite EC in H. rewrite EM. destruct (String.eqb m' m) eqn:E; [|apply I; exact H].
  apply String.eqb_eq in E. subst m'.
  assert (O : olive (aget m (machines S c)) (aget m (cache S c))) by (intros ch0 E0; apply I; exact E0).
  destruct (negb (is_some (aget m (machines S c))) || is_some src || is_some st) eqn:T.
  - injection H as <-. apply live_set. exact O.
  - apply orb_false_iff in T as [T T3]. apply orb_false_iff in T as [T1 T2].
    destruct src; [discriminate|]. destruct st; [discriminate|]. simpl.
    destruct (aget m (machines S c)) as [mc|]; [|discriminate].
    apply (live_set_untouched _ _ O). exact H.
Qed.

Lemma delete_machine_live c m : cache_live c -> cache_live (delete_machine c m).
Proof.
  intros I m' ch. unfold SioCrew.delete_machine. simpl.
  rewrite aget_adel, aget_aset. destruct (String.eqb m' m) eqn:E; [|apply I].
  intros [= <-]. apply live_delete.
Qed.

Lemma record_state_live c m mc st : cache_live c -> cache_live (record_state S c m mc st).
Proof.
  intros I m' ch. unfold record_state. simpl.
  rewrite !aget_aset. destruct (String.eqb m' m) eqn:E; [|apply I].
  intros [= <-]. apply live_record.
Qed.

Lemma do_op_live c op : cache_live c -> cache_live (do_op S resolves c op).
Proof.
  unfold do_op. intros I.
  assert (I1 : cache_live (fold_left (fun c0 u => set_machine c0 (fst u) (u_src S (snd u)) (u_state S (snd u)))
                                     (op_update S op) c)).
  { revert c I. induction (op_update S op) as [|u r IH]; simpl; intros c I; auto.
    apply IH. apply set_machine_live. exact I. }
  revert I1. generalize (fold_left (fun c0 u => set_machine c0 (fst u) (u_src S (snd u)) (u_state S (snd u)))
                                   (op_update S op) c).
  induction (op_delete S op) as [|d r IH]; simpl; intros c0 I0; auto.
  apply IH. apply delete_machine_live. exact I0.
Qed.

Lemma cache_live_same c c' :
  machines S c' = machines S c -> cache S c' = cache S c -> cache_live c -> cache_live c'.
Proof. intros E1 E2 I m ch. rewrite E1, E2. apply I. Qed.

Lemma present_live c msg m c1 got b :
  cache_live c -> present c msg m = Done (c1, got, b) -> cache_live c1.
Proof.
  intros I. unfold SioCrew.present.
  destruct (String.eqb m captain_id).
  - destruct (wedged S c).
    + intros [= <- <- <-]. exact I.
    + destruct (as_crew_op S decode_src msg) as [| |op0]; try discriminate.
      * intros [= <- <- <-]. exact I.
      * set (op := strip_op S op0) in *; destruct (op_ordinary S op); try discriminate.
        intros [= <- <- <-]. apply do_op_live. exact I.
  - destruct (String.eqb m timers_id).
    + intros [= <- <- <-]. destruct (tm_shape msg); [|exact I].
      eapply cache_live_same; [..|exact I]; reflexivity.
    + destruct (aget m (machines S c)) as [mc|] eqn:Em.
      * destruct (m_src S mc) as [s|].
        -- destruct (react s m (m_state S mc) msg) as [st ems].
           intros [= <- <- <-]. destruct st as [st1|]; auto.
           apply record_state_live; auto.
        -- intros [= <- <- <-]. exact I.
      * intros [= <- <- <-]. exact I.
Qed.

Lemma run_list_live msg mids : forall c c1 rs bs,
  cache_live c -> run_list c msg mids = Done (c1, rs, bs) -> cache_live c1.
Proof.
  induction mids as [|m rest IH]; intros c c1 rs bs I H; simpl in H.
  - injection H as <- <- <-. exact I.
  - destruct (present c msg m) as [[[c2 got] b]| |] eqn:Hp; simpl in H; try discriminate.
    destruct (run_list c2 msg rest) as [[[c3 rs'] bs']| |] eqn:Hr; simpl in H; try discriminate.
    injection H as <- <- <-. eapply IH; [|exact Hr]. eapply present_live; eauto.
Qed.

Lemma run_machines_live c msg c1 rd :
  cache_live c -> run_machines c msg = Done (c1, rd) -> cache_live c1.
Proof.
  unfold SioCrew.run_machines. intros I.
  destruct (run_list c msg (dedup (to_machines S ord c msg))) as [[[c2 rs] bs]| |] eqn:HR; simpl; try discriminate.
  intros [= <- <-]. eapply run_list_live; eauto.
Qed.

Lemma process_live fuel : forall c q tr c' trf,
  cache_live c -> process fuel c q tr = Done (c', trf) -> cache_live c'.
Proof.
  induction fuel as [|f IH]; intros c q tr c' trf I H.
  - destruct q; simpl in H; [|discriminate]. injection H as <- <-. exact I.
  - destruct q as [|msg rest]; simpl in H.
    + injection H as <- <-. exact I.
    + destruct (run_machines c msg) as [[c1 rd]| |] eqn:HR; simpl in H; try discriminate.
      eapply IH; [|exact H]. eapply run_machines_live; eauto.
Qed.

(** ** GetChanged *)
Lemma suppress_out_subset reports : forall prev prev' out,
  suppress S src_eqb prev reports = (prev', out) -> forall x, In x out -> In x reports.
Proof.
  induction reports as [|[m0 r0] rest IH]; intros prev prev' out H x Hx; simpl in H.
  - injection H as <- <-. exact Hx.
  - destruct (c_deleted S r0).
    + destruct (suppress S src_eqb (adel m0 prev) rest) as [p o] eqn:Hs. injection H as <- <-.
      destruct Hx as [<-|Hx]; [left; reflexivity|right; eapply IH; eauto].
    + destruct (aget m0 prev) as [old|].
      * destruct (chg_eqb S src_eqb r0 old).
        -- right. eapply IH; eauto.
        -- destruct (suppress S src_eqb (aset m0 r0 prev) rest) as [p o] eqn:Hs. injection H as <- <-.
           destruct Hx as [<-|Hx]; [left; reflexivity|right; eapply IH; eauto].
      * destruct (suppress S src_eqb (aset m0 r0 prev) rest) as [p o] eqn:Hs. injection H as <- <-.
        destruct Hx as [<-|Hx]; [left; reflexivity|right; eapply IH; eauto].
Qed.

Lemma get_changed_shape c c' out tm :
  get_changed c = (c', out, tm) -> machines S c' = machines S c /\ cache S c' = [].
Proof.
  unfold SioCrew.get_changed.
  destruct (suppress S src_eqb _ _) as [prev o]. intros [= <- <- <-]. split; reflexivity.
Qed.

Lemma get_changed_live c c' out tm : get_changed c = (c', out, tm) -> cache_live c'.
Proof. intros H. apply cache_live_empty. apply (get_changed_shape _ _ _ _ H). Qed.

(** every report comes from a cached change (this is where the order oracle
    must enumerate keys of the cache only) *)
Lemma get_changed_out_from_cache c c' out tm m r :
  get_changed c = (c', out, tm) -> In (m, r) out ->
  exists ch, aget m (cache S c) = Some ch /\ r = report_of S c m ch.
Proof.
  unfold SioCrew.get_changed.
  set (keys := dedup (map fst (ord chg (cache S c)))).
  set (reports := map (fun m => (m, report_of S c m (cache_get S c m))) keys).
  destruct (suppress S src_eqb (previous S c) reports) as [prev o] eqn:Hs.
  intros [= <- <- <-] Hin.
  apply (suppress_out_subset _ _ _ _ Hs) in Hin. unfold reports in Hin.
  apply in_map_iff in Hin as (k & [= -> <-] & Hk).
  unfold keys in Hk. apply (proj1 (dedup_in _ _)) in Hk.
  assert (P : Permutation (map fst (ord chg (cache S c))) (map fst (cache S c)))
    by (apply Permutation_map; apply ord_perm).
  apply (Permutation_in _ P) in Hk. apply (proj2 (aget_in_keys _ _)) in Hk.
  unfold cache_get. destruct (aget m (cache S c)) as [ch|]; [|congruence].
  exists ch. split; reflexivity.
Qed.

(** what a report says about the machines *)
Definition report_live (ms : list (mid * mach)) (m : mid) (r : chg) : Prop :=
  (c_deleted S r = false ->
     exists mc, aget m ms = Some mc /\ forall st, c_state S r = Some st -> m_state S mc = st)
  /\ (c_deleted S r = true -> forall st, c_state S r = Some st ->
     exists mc, aget m ms = Some mc /\ m_state S mc = st)
  /\ (c_deleted S r = true -> c_state S r = None -> aget m ms = None /\ c_src S r = None).

Lemma report_of_live c m ch :
  live_entry (aget m (machines S c)) ch -> report_live (machines S c) m (report_of S c m ch).
Proof.
  intros (A & B & _). unfold report_of, report_live.
  destruct (c_deleted S ch) eqn:Ed.
  - destruct (aget m (machines S c)) as [mc|]; simpl.
    + split; [|split].
      * intros E. discriminate.
      * intros _ st [= <-]. exists mc. split; reflexivity.
      * intros _ E. discriminate.
    + split; [|split].
      * intros E. discriminate.
      * intros _ st E. discriminate.
      * intros _ _. split; reflexivity.
  - simpl. split; [|split].
    + intros _. destruct (A eq_refl) as (mc & Em). exists mc. split; [exact Em|].
      intros st Es. destruct (B _ Es) as (mc' & Em' & Est). congruence.
    + intros E. discriminate.
    + intros E. discriminate.
Qed.

Lemma get_changed_reports_live c c' out tm :
  cache_live c -> get_changed c = (c', out, tm) ->
  machines S c' = machines S c
  /\ forall m r, In (m, r) out -> report_live (machines S c') m r.
Proof.
  intros I H. destruct (get_changed_shape _ _ _ _ H) as [EM _]. split; [exact EM|].
  intros m r Hin. rewrite EM.
  destruct (get_changed_out_from_cache _ _ _ _ _ _ H Hin) as (ch & Ec & ->).
  apply report_of_live. apply I. exact Ec.
Qed.

(** ** ProcessMsg and histories *)
Lemma process_msg_live fuel c msg c1 r :
  process_msg fuel c msg = Done (c1, r) -> cache_live c1 /\ cache S c1 = [].
Proof.
  intros H. unfold SioCrew.process_msg in H.
  destruct (process fuel c [msg] []) as [[c2 tr]| |] eqn:HP; simpl in H; try discriminate.
  destruct (get_changed c2) as [[c3 ch] tm] eqn:HG. injection H as <- <-.
  split; [exact (get_changed_live _ _ _ _ HG)|apply (get_changed_shape _ _ _ _ HG)].
Qed.

Lemma process_msg_reports_live fuel c msg c1 r :
  cache_live c -> process_msg fuel c msg = Done (c1, r) ->
  forall m rep, In (m, rep) (res_changed S r) -> report_live (machines S c1) m rep.
Proof.
  intros I H. unfold SioCrew.process_msg in H.
  destruct (process fuel c [msg] []) as [[c2 tr]| |] eqn:HP; simpl in H; try discriminate.
  destruct (get_changed c2) as [[c3 ch] tm] eqn:HG. injection H as <- <-. simpl.
  apply process_live in HP; auto.
  apply (get_changed_reports_live _ _ _ _ HP HG).
Qed.

Lemma hstep_live fuel c store h c1 store1 r :
  cache_live c -> hstep fuel (c, store) h = Done (c1, store1, r) -> cache_live c1.
Proof.
  intros I. destruct h as [msg|m src st|m]; simpl.
  - destruct (process_msg fuel c msg) as [[c2 r2]| |] eqn:HP; simpl; try discriminate.
    intros [= <- <- <-]. apply (process_msg_live _ _ _ _ _ HP).
  - destruct (is_service m); try discriminate. intros [= <- <- <-]. apply set_machine_live. exact I.
  - destruct (is_service m); try discriminate. intros [= <- <- <-]. apply delete_machine_live. exact I.
Qed.

(** the reports of a message inside a history *)
Lemma hstep_reports_live fuel c store msg c1 store1 r :
  cache_live c -> hstep fuel (c, store) (OpMsg msg) = Done (c1, store1, Some r) ->
  forall m rep, In (m, rep) (res_changed S r) -> report_live (machines S c1) m rep.
Proof.
  intros I. simpl.
  destruct (process_msg fuel c msg) as [[c2 r2]| |] eqn:HP; simpl; try discriminate.
  intros [= <- <- <-]. apply (process_msg_reports_live _ _ _ _ _ I HP).
Qed.

Lemma run_history_live fuel h : forall c store c1 store1,
  cache_live c -> run_history fuel (c, store) h = Done (c1, store1) -> cache_live c1.
Proof.
  induction h as [|x r IH]; intros c store c1 store1 I H.
  - simpl in H. injection H as <- <-. exact I.
  - rewrite run_history_cons in H.
    destruct (hstep fuel (c, store) x) as [[[c2 s2] r2]| |] eqn:HS; simpl in H; try discriminate.
    eapply IH; [|exact H]. eapply hstep_live; eauto.
Qed.

Lemma run_history_snoc fuel h : forall cs c1 s1 x c2 s2 r,
  run_history fuel cs h = Done (c1, s1) -> hstep fuel (c1, s1) x = Done (c2, s2, r) ->
  run_history fuel cs (h ++ [x]) = Done (c2, s2).
Proof.
  induction h as [|y h IH]; intros cs c1 s1 x c2 s2 r H Hx.
  - simpl in H. injection H as ->. change ([] ++ [x]) with [x]. rewrite run_history_cons, Hx. reflexivity.
  - rewrite <- app_comm_cons, run_history_cons. rewrite run_history_cons in H.
    destruct (hstep fuel cs y) as [[[c s] r0]| |]; simpl in *; try discriminate.
    eapply IH; eauto.
Qed.

(** ** the theorems of the property *)
Theorem cache_live_reachable : forall fuel h c store,
  run_history fuel (init_crew S, []) h = Done (c, store) -> cache_live c.
Proof. intros fuel h c store H. exact (run_history_live _ _ _ _ _ _ cache_live_init H). Qed.

Theorem cache_live_invariant :
  cache_live (init_crew S)
  /\ forall c, cache_live c ->
       (forall m src st, cache_live (set_machine c m src st))
       /\ (forall m, cache_live (delete_machine c m))
       /\ (forall m mc st, cache_live (record_state S c m mc st))
       /\ (forall op, cache_live (do_op S resolves c op))
       /\ (forall msg m c1 got b, present c msg m = Done (c1, got, b) -> cache_live c1)
       /\ (forall msg c1 rd, run_machines c msg = Done (c1, rd) -> cache_live c1)
       /\ (forall fuel q tr c1 trf, process fuel c q tr = Done (c1, trf) -> cache_live c1)
       /\ (forall c1 out tm, get_changed c = (c1, out, tm) -> cache_live c1 /\ cache S c1 = [])
       /\ (forall fuel msg c1 r, process_msg fuel c msg = Done (c1, r) -> cache_live c1)
       /\ (forall fuel store h c1 store1 r, hstep fuel (c, store) h = Done (c1, store1, r) -> cache_live c1)
       /\ (forall fuel store h c1 store1, run_history fuel (c, store) h = Done (c1, store1) -> cache_live c1).
Proof.
  split; [exact cache_live_init|]. intros c I.
  split; [intros; apply set_machine_live; exact I|].
  split; [intros; apply delete_machine_live; exact I|].
  split; [intros; apply record_state_live; exact I|].
  split; [intros; apply do_op_live; exact I|].
  split; [intros; eapply present_live; eauto|].
  split; [intros; eapply run_machines_live; eauto|].
  split; [intros; eapply process_live; eauto|].
  split; [intros c1 out tm H; split; [eapply get_changed_live; eauto|apply (get_changed_shape _ _ _ _ H)]|].
  split; [intros fuel msg c1 r H; apply (process_msg_live _ _ _ _ _ H)|].
  split; [intros; eapply hstep_live; eauto|].
  intros; eapply run_history_live; eauto.
Qed.

Theorem report_is_live_state_any_crew : forall c c' out tm,
  cache_live c -> get_changed c = (c', out, tm) ->
  machines S c' = machines S c
  /\ forall m r, In (m, r) out -> report_live (machines S c') m r.
Proof. exact get_changed_reports_live. Qed.

Theorem report_is_live_state : forall fuel h c store c' out tm,
  run_history fuel (init_crew S, []) h = Done (c, store) ->
  get_changed c = (c', out, tm) ->
  machines S c' = machines S c
  /\ forall m r, In (m, r) out -> report_live (machines S c') m r.
Proof.
  intros fuel h c store c' out tm H HG.
  exact (get_changed_reports_live _ _ _ _ (cache_live_reachable _ _ _ _ H) HG).
Qed.

Theorem process_msg_reports_live_state : forall fuel h c store fuel' msg c1 r,
  run_history fuel (init_crew S, []) h = Done (c, store) ->
  process_msg fuel' c msg = Done (c1, r) ->
  forall m rep, In (m, rep) (res_changed S r) -> report_live (machines S c1) m rep.
Proof.
  intros fuel h c store fuel' msg c1 r H HP.
  exact (process_msg_reports_live _ _ _ _ _ (cache_live_reachable _ _ _ _ H) HP).
Qed.

(** every message of a history *)
Theorem history_msg_reports_live_state : forall fuel h c store msg c1 store1 r,
  run_history fuel (init_crew S, []) h = Done (c, store) ->
  hstep fuel (c, store) (OpMsg msg) = Done (c1, store1, Some r) ->
  run_history fuel (init_crew S, []) (h ++ [OpMsg msg]) = Done (c1, store1)
  /\ forall m rep, In (m, rep) (res_changed S r) -> report_live (machines S c1) m rep.
Proof.
  intros fuel h c store msg c1 store1 r H Hs. split.
  - eapply run_history_snoc; eauto.
  - exact (hstep_reports_live _ _ _ _ _ _ _ (cache_live_reachable _ _ _ _ H) Hs).
Qed.

End ReportLive.

(** the hypothesis on the order oracle is needed: an "iteration order" that
    renames the keys of the map makes [get_changed] look up a change that
    nobody cached ([cache_get] answers the empty change, as [Crew.change]
    would) and report a machine that does not exist.  No Go map iteration
    does that; the hypothesis [ord_perm] is what says so. *)
Definition ord_rename (A : Type) (l : list (mid * A)) : list (mid * A) := map (fun kv => ("zz", snd kv)) l.

Lemma report_live_needs_ord :
  let c := set_machine unit (fun _ => true) (init_crew unit) "a" None None in
  cache_live unit c
  /\ exists c' out tm r,
       get_changed unit (fun _ _ => true) ord_rename c = (c', out, tm)
       /\ In ("zz", r) out /\ c_deleted unit r = false /\ aget "zz" (machines unit c') = None.
Proof.
  split.
  - apply set_machine_live. apply cache_live_init.
  - vm_compute. eexists _, _, _, _. split; [reflexivity|]. split; [left; reflexivity|]. split; reflexivity.
Qed.
