(** Further consequences for the models of the repaired implementations:
    ids are reusable from the moment a timer fires, a pending timer is
    cancellable, a due timer can always make progress, a restart re-arms
    exactly the pending timers. *)
From Coq Require Import ZArith List Bool Arith Lia.
From Sheens Require Import Model.Timers Proofs.TimersBase Proofs.TimersSpec Proofs.TimersInv
  Proofs.TimersRefine.
Import ListNotations.
Local Open Scope Z_scope.

Lemma find_gor_in : forall l r, NoDup (map gg l) -> In r l -> find_gor (gg r) l = Some r.
Proof.
  intros l r Hnd Hin. destruct (find_gor (gg r) l) as [r'|] eqn:Hf.
  - apply find_gor_some in Hf. destruct Hf as [H1 H2]. f_equal.
    apply (gor_unique l r' r Hnd H1 Hin H2).
  - exfalso. unfold find_gor in Hf. pose proof (find_none _ _ Hf r Hin) as Hn.
    simpl in Hn. rewrite Nat.eqb_refl in Hn. discriminate.
Qed.

Lemma find_id_in : forall l e, NoDup (map tid l) -> In e l -> find_id (tid e) l = Some e.
Proof.
  intros l e Hnd Hin. destruct (find_id (tid e) l) as [e'|] eqn:Hf.
  - f_equal. symmetry. apply (find_id_unique (tid e) l e' e Hnd Hf Hin). reflexivity.
  - exfalso. apply (find_id_none _ _ Hf e Hin). reflexivity.
Qed.

Section Reachable.
  Variable p : impl.
  Variable tr : list clabel.
  Variable s : cstate.
  Hypothesis Hreach : cexec p cinit tr = Some s.

  Let I : CInv p s := cinv_reachable p tr s Hreach.

  (** no live timer is missing from the map: a goroutine that can still fire
      (in its select or past timer.C, control channel open) has its entry in
      the map, so a cancel request finds it *)
  Theorem model_live_timer_in_map : forall r,
    In r (cgors s) -> gpc r = Waiting \/ gpc r = Due -> gclosed r = false -> In (gtm r) (cmap s).
  Proof. intros r Hr Hpc Hcl. exact (ci_live p s I r Hr Hpc Hcl). Qed.

  (** a pending timer is cancellable, and cancelling records it *)
  Theorem model_pending_cancellable : forall e,
    In e (cmap s) ->
    exists s', cstep p s (CVis (VRem (tid e) true)) = Some s' /\
               In (tg e) (ccancelled s') /\ ~ In e (cmap s').
  Proof.
    intros e He. simpl. unfold c_rem. rewrite (find_id_in (cmap s) e (ci_ids p s I) He).
    eexists. split; [reflexivity|]. simpl. split; [left; reflexivity|].
    intros Hx. apply in_rm_id in Hx. destruct Hx as [_ Hx]. apply Hx. reflexivity.
  Qed.

  (** a free id accepts a new timer, which is then in the map *)
  Theorem model_free_id_accepts : forall g i d,
    ~ In g (map tg (cknown s)) -> find_id i (cmap s) = None ->
    exists s', cstep p s (CVis (VAdd g i d true)) = Some s' /\
               In (mkTm g i (cclock s + d)) (cmap s').
  Proof.
    intros g i d Hfresh Hfree. simpl. apply memn_false in Hfresh. rewrite Hfresh, Hfree.
    eexists. split; [reflexivity|]. unfold c_insert. simpl. apply in_or_app. right. left. reflexivity.
  Qed.

  (** a pending timer that is due can always take its next step towards
      firing: no request and no other goroutine can wedge it *)
  Theorem model_progress : forall e,
    In e (cmap s) -> tdue e <= cclock s ->
    (exists s', cstep p s (CTimerC (tg e)) = Some s') \/
    (exists s', cstep p s (match p with Mcrew => CClaim (tg e) | Sio => CVis (VReport (tg e)) end)
                = Some s').
  Proof.
    intros e He Hd. destruct (ci_mg p s I e He) as [r [H1 [H2 [H3 H4]]]].
    assert (Hg : gg r = tg e) by (unfold gg; rewrite H2; reflexivity).
    pose proof (find_gor_in (cgors s) r (ci_gens p s I) H1) as Hf. rewrite Hg in Hf.
    assert (Hmine : mine r (cmap s) = true) by (apply (mine_of_in p s I); rewrite H2; exact He).
    destruct H3 as [H3|H3].
    - left. simpl. unfold c_timerc, with_gor. rewrite Hf, H3, H2.
      apply Z.leb_le in Hd. rewrite Hd. eexists. reflexivity.
    - right. destruct p; simpl; unfold with_gor; rewrite Hf, H3, Hmine; eexists; reflexivity.
  Qed.
End Reachable.

(** mcrew: from the moment a timer's goroutine has claimed its entry (so
    before emit is even called) the id is free, and stays usable by the
    handler: a timer created under it while the handler runs is accepted,
    is in the map, and a cancel finds it *)
Theorem mcrew_id_reusable_by_handler : forall tr s g r s1 s2 g' d,
  cexec Mcrew cinit tr = Some s ->
  find_gor g (cgors s) = Some r ->
  cstep Mcrew s (CClaim g) = Some s1 ->
  cstep Mcrew s1 (CVis (VReport g)) = Some s2 ->
  ~ In g' (map tg (cknown s)) ->
  let i := tid (gtm r) in
  find_id i (cmap s1) = None /\
  exists s3 s4,
    cstep Mcrew s2 (CVis (VAdd g' i d true)) = Some s3 /\ In (mkTm g' i (cclock s2 + d)) (cmap s3) /\
    cstep Mcrew s3 (CVis (VRem i true)) = Some s4 /\ In g' (ccancelled s4) /\
    find_id i (cmap s4) = None.
Proof.
  intros tr s g r s1 s2 g' d Hreach Hf H1 H2 Hfresh i.
  simpl in H1. unfold with_gor in H1. rewrite Hf in H1.
  destruct (gpc r) eqn:Hpc; try discriminate.
  destruct (mine r (cmap s)) eqn:Hmine; [|discriminate]. inversion H1; subst s1. clear H1.
  split; [simpl; apply find_id_rm_id|].
  simpl in H2. unfold with_gor in H2. simpl in H2.
  destruct (find_gor g (upd_gor g (set_pc Claimed) (cgors s))) as [r2|] eqn:Hf2; [|discriminate].
  destruct (gpc r2); try discriminate. inversion H2; subst s2. clear H2.
  simpl. apply memn_false in Hfresh. rewrite Hfresh. fold i. rewrite (find_id_rm_id i (cmap s)).
  eexists. eexists. split; [reflexivity|]. unfold c_insert. simpl.
  split; [apply in_or_app; right; left; reflexivity|].
  unfold c_rem. simpl.
  assert (Hfind : find_id i (rm_id i (cmap s) ++ [mkTm g' i (cclock s + d)])
                  = Some (mkTm g' i (cclock s + d))).
  { unfold find_id. rewrite find_app_none.
    - simpl. unfold id_is. simpl. rewrite Nat.eqb_refl. reflexivity.
    - apply (find_id_rm_id i (cmap s)). }
  rewrite Hfind. split; [reflexivity|]. simpl. split; [left; reflexivity|].
  apply find_id_rm_id.
Qed.

(** sio: the crew loop's claim frees the id before the message is processed *)
Theorem sio_report_frees_id : forall tr s g r s1,
  cexec Sio cinit tr = Some s -> find_gor g (cgors s) = Some r ->
  cstep Sio s (CVis (VReport g)) = Some s1 ->
  find_id (tid (gtm r)) (cmap s1) = None /\ In g (map fst (cfired s1)).
Proof.
  intros tr s g r s1 _ Hf H1. simpl in H1. unfold with_gor in H1. rewrite Hf in H1.
  destruct (gpc r); try discriminate. destruct (mine r (cmap s)); [|discriminate].
  inversion H1; subst s1. simpl. split; [apply find_id_rm_id | left; reflexivity].
Qed.

(** sio: a restart re-arms exactly the pending timers: the map is unchanged
    and every entry has a goroutine in its select with the original due time;
    nothing else can fire *)
Theorem sio_restart : forall tr s,
  cexec Sio cinit tr = Some s ->
  exists s', cstep Sio s (CVis VBoot) = Some s' /\ cmap s' = cmap s /\
    (forall e, In e (cmap s) ->
       exists r, In r (cgors s') /\ gtm r = e /\ gpc r = Waiting /\ gclosed r = false) /\
    (forall r, In r (cgors s') -> gpc r <> Gone -> In (gtm r) (cmap s')) /\
    cfired s' = cfired s /\ ccancelled s' = ccancelled s.
Proof.
  intros tr s Hreach. pose proof (cinv_reachable Sio tr s Hreach) as I.
  destruct (ci_sio Sio s I eq_refl) as [Hsaved _].
  exists (c_boot s). split; [reflexivity|]. unfold c_boot. simpl.
  split; [exact Hsaved|]. split; [|split; [|split; reflexivity]].
  - intros e He. destruct (ci_mg Sio s I e He) as [r [H1 [H2 _]]].
    exists (mkGor (gtm r) Waiting false). split; [|simpl; auto].
    apply in_map_iff. exists r. split; [|exact H1].
    assert (existsb (tm_eqb (gtm r)) (csaved s) = true) as ->; [|reflexivity].
    apply existsb_exists. exists e. split; [rewrite Hsaved; exact He | apply tm_eqb_eq; exact H2].
  - intros r' H' Hpc. apply in_map_iff in H'. destruct H' as [r [E Hr]]. subst r'.
    destruct (existsb (tm_eqb (gtm r)) (csaved s)) eqn:Ex; simpl in *.
    + apply existsb_exists in Ex. destruct Ex as [e [E1 E2]]. apply tm_eqb_eq in E2. rewrite E2. exact E1.
    + contradiction Hpc. reflexivity.
Qed.
