(** Regression witnesses for D9: the definition of Compile before the repair
    ([compile_prefix]: every pattern parsed twice) does not satisfy the
    representation theorem, and the two concrete failures of DESIGN section 4
    are reproduced by it. *)
From Sheens Require Import Model.Compile Proofs.CompileBase Proofs.CompileRepr.

Definition ex_interps : interps := host_interps ["ecmascript"].

Definition prog_keep : prog := mk_prog [] TRetBindings.
Definition prog_emit : prog := mk_prog [AEmit (JObj [("arrived", JBool true)])] TRetBindings.

(** start --(message matches the pattern, guard accepts)--> there (emits) *)
Definition one_pattern_doc (p : json) : adoc :=
  mk_adoc
    [("start", Some (mk_dnode None None
                (Some (mk_dbranching "message"
                   [Some (mk_dbranch p None (Some (mk_asource "ecmascript" (SProg prog_keep))) "there")]))));
     ("there", Some (mk_dnode None (Some (mk_asource "ecmascript" (SProg prog_emit)))
                (Some (mk_dbranching "" [Some (mk_dbranch JNull None None "start")]))))]
    "" "" false false "" None None None None false.

Definition all_text (p : json) : bool := true.

(** (a) the bare variable "?x": written as the JSON text ["?x"] (with its
    quotes) it did not compile, written inline it did *)
Lemma prefix_bare_variable :
  compile_prefix ex_interps true (with_text all_text (one_pattern_doc (JStr "?x"))) = inl CPattern
  /\ exists a', compile_prefix ex_interps true (with_inline (one_pattern_doc (JStr "?x"))) = inr a'.
Proof. split; [vm_compute; reflexivity | eexists; vm_compute; reflexivity]. Qed.

(** (b) the string "1": written as text it silently became the number 1 *)
Lemma prefix_string_becomes_number :
  exists a' b',
    compile_prefix ex_interps true (with_text all_text (one_pattern_doc (JStr "1"))) = inr a'
    /\ compile_prefix ex_interps true (with_inline (one_pattern_doc (JStr "1"))) = inr b'
    /\ doc_patterns a' = [JNum 4; JNull] /\ doc_patterns b' = [JStr "1"; JNull]
    /\ fst (doc_walk a' (fun _ => false) 5 (mk_state "start" (Some [])) [JStr "1"])
       <> fst (doc_walk b' (fun _ => false) 5 (mk_state "start" (Some [])) [JStr "1"]).
Proof.
  eexists. eexists. split; [vm_compute; reflexivity |]. split; [vm_compute; reflexivity |].
  split; [vm_compute; reflexivity |]. split; [vm_compute; reflexivity |].
  vm_compute. discriminate.
Qed.

Definition text_inline_statement (cmp : interps -> bool -> adoc -> cres adoc) : Prop :=
  forall I force sel a, covers_strings sel -> plain_doc a ->
  cmp I force (with_text sel a) = cmp I force (with_inline a).

Theorem compile_prefix_refuted : ~ text_inline_statement compile_prefix.
Proof.
  intros H.
  assert (Hp : plain_doc (one_pattern_doc (JStr "?x"))).
  { apply plain_doc_of_bool. vm_compute. reflexivity. }
  pose proof (H ex_interps true all_text (one_pattern_doc (JStr "?x")) (fun _ => eq_refl) Hp) as E.
  destruct prefix_bare_variable as [E1 [a' E2]]. rewrite E1, E2 in E. discriminate.
Qed.

(** the repaired definition on the same two inputs *)
Lemma repaired_bare_variable :
  exists a',
    compile ex_interps true (with_text all_text (one_pattern_doc (JStr "?x"))) = inr a'
    /\ compile ex_interps true (with_inline (one_pattern_doc (JStr "?x"))) = inr a'
    /\ doc_patterns a' = [JStr "?x"; JNull].
Proof. eexists. repeat split; vm_compute; reflexivity. Qed.

Lemma repaired_string_stays_string :
  exists a',
    compile ex_interps true (with_text all_text (one_pattern_doc (JStr "1"))) = inr a'
    /\ doc_patterns a' = [JStr "1"; JNull].
Proof. eexists. split; vm_compute; reflexivity. Qed.
