(** Representation independence of Spec.Compile over the JSON text model
    with string escapes, and conservativity of that model of Compile over the
    one without escapes (Model/CompileEsc.v, Model/Compile.v).

    1. The proofs of Proofs/CompileRepr.v use the round trip
       [parse (print j) = Some j] as a black box: they are re-run here in a
       Section over an abstract text model (a printer, a parser, a side
       condition under which the parser inverts the printer).  The instance
       at [parse], [print], [plain_json] is the existing theorem; the
       instance at [parse_esc], [print_esc] has *no* side condition in the
       model ([parse_print_esc_bytes] holds for every byte string) and the
       side condition [ascii_doc] as a statement about Go (the text model is
       exactly what encoding/json does on the bytes below 128).
    2. Conservativity: [compile_esc] agrees with [compile] wherever [compile]
       does not reject a pattern text; and every successful [compile_esc] is
       a successful [compile] of a document with the same patterns written
       inline, so that the theorems about the *result* of [compile]
       (idempotence, reload, no late errors, known branching types) hold of
       the result of [compile_esc]. *)
From Sheens Require Import Model.CompileEsc Proofs.CanonFacts Proofs.JsonTextFacts
     Proofs.JsonTextEscProofs Proofs.CompileBase Proofs.CompileRepr Proofs.CompileIdem
     Proofs.CompileReject.

(** * At [parse] / [print] the parameterised definitions are those of
    Model/Compile.v *)
Lemma default_pattern_parser_with_parse : forall s p,
  default_pattern_parser_with parse s p = default_pattern_parser s p.
Proof. reflexivity. Qed.
Lemma parse_pattern_with_parse : forall s p, parse_pattern_with parse s p = parse_pattern s p.
Proof. reflexivity. Qed.
Lemma parse_patterns_with_parse : forall a, parse_patterns_with parse a = parse_patterns a.
Proof. reflexivity. Qed.
Lemma compile_after_parse_patterns : forall I force a,
  compile_after I force (parse_patterns a) = compile I force a.
Proof. reflexivity. Qed.
Lemma compile_with_parse : forall I force a, compile_with parse I force a = compile I force a.
Proof. reflexivity. Qed.
Lemma textify_with_print : forall sel p, textify_with print sel p = textify sel p.
Proof. reflexivity. Qed.
Lemma with_text_with_print : forall sel a, with_text_with print sel a = with_text sel a.
Proof. reflexivity. Qed.

(** * Documents all of whose pattern strings are ASCII *)
Definition ascii_doc (a : adoc) : Prop := Forall (fun p => ascii_json p = true) (doc_patterns a).

Lemma ascii_doc_of_bool : forall a, forallb ascii_json (doc_patterns a) = true -> ascii_doc a.
Proof.
  intros a H. unfold ascii_doc. apply Forall_forall. intros p Hp.
  rewrite forallb_forall in H. exact (H p Hp).
Qed.

(** documents whose pattern strings need no escape at all *)
Definition noesc_doc (a : adoc) : Prop := Forall (fun p => noesc_json p = true) (doc_patterns a).

Lemma noesc_doc_plain : forall a, noesc_doc a -> plain_doc a.
Proof.
  intros a H. unfold noesc_doc, plain_doc in *. rewrite Forall_forall in *.
  intros p Hp. exact (noesc_plain_json p (H p Hp)).
Qed.

(** * Whatever the parser: the syntaxes other than "json" do not use it *)
Lemma default_pattern_parser_with_not_json : forall ps s p,
  String.eqb s "json" = false ->
  default_pattern_parser_with ps s p = default_pattern_parser s p.
Proof.
  intros ps s p H. unfold default_pattern_parser_with, default_pattern_parser.
  rewrite H. reflexivity.
Qed.

Lemma parse_pattern_with_not_json : forall ps s p,
  String.eqb s "json" = false -> parse_pattern_with ps s p = parse_pattern s p.
Proof.
  intros ps s p H. unfold parse_pattern_with, parse_pattern.
  rewrite (default_pattern_parser_with_not_json ps s p H). reflexivity.
Qed.

Lemma parse_patterns_with_not_json : forall ps a,
  String.eqb (ad_syntax a) "json" = false -> parse_patterns_with ps a = parse_patterns a.
Proof.
  intros ps a H. unfold parse_patterns_with, parse_patterns.
  rewrite (tr_nodes_ext (parse_pattern_with ps (ad_syntax a)) (parse_pattern (ad_syntax a)) (ad_nodes a)
             (fun p _ => parse_pattern_with_not_json ps (ad_syntax a) p H)).
  reflexivity.
Qed.

(** a document that does not declare the json syntax compiles the same way
    under every text model *)
Theorem compile_with_not_json : forall ps I force a,
  String.eqb (ad_syntax a) "json" = false -> compile_with ps I force a = compile I force a.
Proof.
  intros ps I force a H. unfold compile_with. rewrite (parse_patterns_with_not_json ps a H).
  reflexivity.
Qed.

Corollary compile_with_inline : forall ps I force a,
  compile_with ps I force (with_inline a) = compile I force (with_inline a).
Proof. intros ps I force a. apply compile_with_not_json. reflexivity. Qed.

(** * Text versus inline over an abstract text model *)
Section TextModel.
  Variable ps : string -> option json.
  Variable pr : json -> string.
  (** the values on which the parser inverts the printer *)
  Variable good : json -> Prop.
  Hypothesis ps_pr : forall j, good j -> ps (pr j) = Some j.

  Definition good_doc (a : adoc) : Prop := Forall good (doc_patterns a).

  Lemma parse_pattern_textify_with : forall sel p,
    covers_strings sel -> good p ->
    parse_pattern_with ps "json" (textify_with pr sel p) = parse_pattern_with ps "none" p.
  Proof.
    intros sel p Hsel Hp. unfold parse_pattern_with, textify_with, default_pattern_parser_with.
    change (String.eqb "json" "none" || String.eqb "json" "")%bool with false.
    change (String.eqb "json" "json") with true.
    change (String.eqb "none" "none" || String.eqb "none" "")%bool with true.
    cbv iota.
    destruct (sel p) eqn:E.
    - rewrite (ps_pr p Hp). reflexivity.
    - destruct p; try reflexivity. rewrite (Hsel s) in E. discriminate E.
  Qed.

  Lemma parse_patterns_text_inline_with : forall sel a,
    covers_strings sel -> good_doc a ->
    parse_patterns_with ps (with_text_with pr sel a) = parse_patterns_with ps (with_inline a).
  Proof.
    intros sel a Hsel Hp. unfold parse_patterns_with, with_text_with, with_inline.
    assert (Hn : ad_nodes (with_syntax "json" (map_patterns (textify_with pr sel) a))
                 = map (map_node (textify_with pr sel)) (ad_nodes a)).
    { rewrite <- map_patterns_nodes. reflexivity. }
    change (ad_syntax (with_syntax "json" (map_patterns (textify_with pr sel) a))) with "json".
    change (ad_syntax (with_syntax "none" a)) with "none".
    change (ad_nodes (with_syntax "none" a)) with (ad_nodes a).
    rewrite Hn. rewrite tr_nodes_map.
    rewrite (tr_nodes_ext _ (parse_pattern_with ps "none") (ad_nodes a)).
    - destruct (tr_nodes (parse_pattern_with ps "none") (ad_nodes a)) as [e | ns]; [reflexivity |].
      simpl. f_equal. unfold map_patterns. rewrite tr_nodes_pure. destruct a; reflexivity.
    - intros p Hin. apply parse_pattern_textify_with; [exact Hsel |].
      unfold good_doc in Hp. rewrite Forall_forall in Hp. apply Hp. exact Hin.
  Qed.

  Theorem compile_text_inline_with : forall I force sel a,
    covers_strings sel -> good_doc a ->
    compile_with ps I force (with_text_with pr sel a) = compile_with ps I force (with_inline a).
  Proof.
    intros I force sel a Hsel Hp. unfold compile_with.
    rewrite (parse_patterns_text_inline_with sel a Hsel Hp). reflexivity.
  Qed.

  Theorem text_inline_behaviour_with : forall I force sel a,
    covers_strings sel -> good_doc a ->
    match compile_with ps I force (with_text_with pr sel a), compile_with ps I force (with_inline a) with
    | inr x, inr y =>
        forall bp limit st msgs, doc_walk x bp limit st msgs = doc_walk y bp limit st msgs
    | inl e, inl e' => e = e'
    | _, _ => False
    end.
  Proof.
    intros I force sel a Hsel Hp. rewrite (compile_text_inline_with I force sel a Hsel Hp).
    destruct (compile_with ps I force (with_inline a)); [reflexivity |]. intros; reflexivity.
  Qed.
End TextModel.

(** sanity: the instance at the model without escapes is the theorem of
    Proofs/CompileRepr.v *)
Lemma compile_text_inline_again : forall I force sel a,
  covers_strings sel -> plain_doc a ->
  compile I force (with_text sel a) = compile I force (with_inline a).
Proof.
  exact (compile_text_inline_with parse print (fun p => plain_json p = true) parse_print).
Qed.

(** * The instance with escapes *)

(** in the model, for every byte string: no side condition at all *)
Theorem compile_esc_text_inline_bytes : forall I force sel a,
  covers_strings sel ->
  compile_esc I force (with_text_esc sel a) = compile_esc I force (with_inline a).
Proof.
  intros I force sel a Hsel.
  apply (compile_text_inline_with parse_esc print_esc (fun _ => True)
           (fun j _ => parse_print_esc_bytes j) I force sel a Hsel).
  unfold good_doc. apply Forall_forall. intros p _. exact Logic.I.
Qed.

(** the statement about Go: patterns whose strings are ASCII - quotes,
    backslashes, control characters, [<], [>], [&] included - written as
    JSON text compile to the very same Spec value as the inline form *)
Theorem compile_esc_text_inline : forall I force sel a,
  covers_strings sel -> ascii_doc a ->
  compile_esc I force (with_text_esc sel a) = compile_esc I force (with_inline a).
Proof. intros I force sel a Hsel _. exact (compile_esc_text_inline_bytes I force sel a Hsel). Qed.

Theorem text_inline_behaviour_esc : forall I force sel a,
  covers_strings sel -> ascii_doc a ->
  match compile_esc I force (with_text_esc sel a), compile_esc I force (with_inline a) with
  | inr x, inr y =>
      forall bp limit st msgs, doc_walk x bp limit st msgs = doc_walk y bp limit st msgs
  | inl e, inl e' => e = e'
  | _, _ => False
  end.
Proof.
  intros I force sel a Hsel _.
  apply (text_inline_behaviour_with parse_esc print_esc (fun _ => True)
           (fun j _ => parse_print_esc_bytes j) I force sel a Hsel).
  unfold good_doc. apply Forall_forall. intros p _. exact Logic.I.
Qed.

(** the inline side does not use the text model: the right-hand sides above
    are [compile] itself *)
Theorem compile_esc_text_is_compile_inline : forall I force sel a,
  covers_strings sel -> ascii_doc a ->
  compile_esc I force (with_text_esc sel a) = compile I force (with_inline a).
Proof.
  intros I force sel a Hsel Ha. rewrite (compile_esc_text_inline I force sel a Hsel Ha).
  exact (compile_with_inline parse_esc I force a).
Qed.

(** * Conservativity *)

(** ** A parser that reads more compiles more, to the same values *)
Lemma mapM_mono : forall A B (f g : A -> cres B) l l',
  (forall x y, In x l -> f x = inr y -> g x = inr y) ->
  mapM f l = inr l' -> mapM g l = inr l'.
Proof.
  induction l as [| x r IH]; intros l' Hfg H; simpl in H; [exact H |].
  simpl. destruct (f x) as [e | y] eqn:Ex; [discriminate |].
  destruct (mapM f r) as [e | ys] eqn:Er; [discriminate |].
  rewrite (Hfg x y (or_introl eq_refl) Ex).
  rewrite (IH ys (fun x0 y0 Hin => Hfg x0 y0 (or_intror Hin)) eq_refl). exact H.
Qed.

Lemma mapM_inr_all : forall A B (f : A -> cres B) l l',
  mapM f l = inr l' -> forall x, In x l -> exists y, f x = inr y.
Proof.
  intros A B f l l' H x Hin.
  destruct (Forall2_in_l _ _ _ _ _ x (mapM_Forall2 _ _ f l l' H) Hin) as [y [_ Hy]].
  exists y. exact Hy.
Qed.

Section Mono.
  Variables f g : json -> cres json.

  Lemma tr_branch_mono : forall ob ob1,
    (forall p q, In p (branch_patterns ob) -> f p = inr q -> g p = inr q) ->
    tr_branch f ob = inr ob1 -> tr_branch g ob = inr ob1.
  Proof.
    intros [b |] ob1 Hfg H; [| exact H]. simpl in *.
    destruct (f (db_pattern b)) as [e | q] eqn:E; [discriminate |].
    rewrite (Hfg (db_pattern b) q (or_introl eq_refl) E). exact H.
  Qed.

  Lemma tr_node_mono : forall kn kn1,
    (forall p q, In p (node_patterns kn) -> f p = inr q -> g p = inr q) ->
    tr_node f kn = inr kn1 -> tr_node g kn = inr kn1.
  Proof.
    intros [k [n |]] kn1 Hfg H; [| exact H]. unfold tr_node, node_patterns in *. simpl in *.
    destruct (dn_branching n) as [bg |]; [| exact H].
    destruct (mapM (tr_branch f) (dg_branches bg)) as [e | brs] eqn:Em; [discriminate |].
    rewrite (mapM_mono _ _ (tr_branch f) (tr_branch g) (dg_branches bg) brs); [exact H | | exact Em].
    intros ob ob1 Hob Hb. apply tr_branch_mono; [| exact Hb].
    intros p q Hp. apply Hfg. apply in_flat_map. exists ob. auto.
  Qed.

  Lemma tr_nodes_mono : forall ns ns1,
    (forall p q, In p (nodes_patterns ns) -> f p = inr q -> g p = inr q) ->
    tr_nodes f ns = inr ns1 -> tr_nodes g ns = inr ns1.
  Proof.
    intros ns ns1 Hfg H. unfold tr_nodes in *.
    apply (mapM_mono _ _ (tr_node f) (tr_node g) ns ns1); [| exact H].
    intros kn kn1 Hkn Hn. apply tr_node_mono; [| exact Hn].
    intros p q Hp. apply Hfg. unfold nodes_patterns. apply in_flat_map. exists kn. auto.
  Qed.

  (** a traversal that succeeds has succeeded on every pattern *)
  Lemma tr_branch_inr_all : forall ob ob1,
    tr_branch f ob = inr ob1 -> forall p, In p (branch_patterns ob) -> exists q, f p = inr q.
  Proof.
    intros [b |] ob1 H p Hp; [| contradiction]. simpl in *.
    destruct Hp as [E | []]. subst p.
    destruct (f (db_pattern b)) as [e | q]; [discriminate |]. exists q. reflexivity.
  Qed.

  Lemma tr_node_inr_all : forall kn kn1,
    tr_node f kn = inr kn1 -> forall p, In p (node_patterns kn) -> exists q, f p = inr q.
  Proof.
    intros [k [n |]] kn1 H p Hp; [| contradiction]. unfold tr_node, node_patterns in *. simpl in *.
    destruct (dn_branching n) as [bg |]; [| contradiction].
    destruct (mapM (tr_branch f) (dg_branches bg)) as [e | brs] eqn:Em; [discriminate |].
    apply in_flat_map in Hp. destruct Hp as [ob [Hob Hp]].
    destruct (mapM_inr_all _ _ _ _ _ Em ob Hob) as [ob1 Hob1].
    exact (tr_branch_inr_all ob ob1 Hob1 p Hp).
  Qed.

  Lemma tr_nodes_inr_all : forall ns ns1,
    tr_nodes f ns = inr ns1 -> forall p, In p (nodes_patterns ns) -> exists q, f p = inr q.
  Proof.
    intros ns ns1 H p Hp. unfold tr_nodes, nodes_patterns in *.
    apply in_flat_map in Hp. destruct Hp as [kn [Hkn Hp]].
    destruct (mapM_inr_all _ _ _ _ _ H kn Hkn) as [kn1 Hkn1].
    exact (tr_node_inr_all kn kn1 Hkn1 p Hp).
  Qed.
End Mono.

(** the pattern traversal only ever fails with the errors of [f] *)
Section FailsOnly.
  Variable f : json -> cres json.
  Variable e : cerr.
  Hypothesis Hf : forall p e', f p = inl e' -> e' = e.

  Lemma mapM_fail_only : forall A B (h : A -> cres B) l e',
    (forall x e1, h x = inl e1 -> e1 = e) -> mapM h l = inl e' -> e' = e.
  Proof.
    induction l as [| x r IH]; intros e' Hh H; simpl in H; [discriminate |].
    destruct (h x) as [e1 | y] eqn:Ex.
    - inversion H; subst. exact (Hh x e' Ex).
    - destruct (mapM h r) as [e2 | ys]; [| discriminate]. inversion H; subst.
      exact (IH e' Hh eq_refl).
  Qed.

  Lemma tr_branch_fail_only' : forall ob e', tr_branch f ob = inl e' -> e' = e.
  Proof.
    intros [b |] e' H; simpl in H; [| discriminate].
    destruct (f (db_pattern b)) as [e1 | q] eqn:E; simpl in H; [| discriminate].
    inversion H; subst. exact (Hf _ _ E).
  Qed.

  Lemma tr_node_fail_only' : forall kn e', tr_node f kn = inl e' -> e' = e.
  Proof.
    intros [k [n |]] e' H; unfold tr_node in H; simpl in H; [| discriminate].
    destruct (dn_branching n) as [bg |]; [| discriminate].
    destruct (mapM (tr_branch f) (dg_branches bg)) as [e1 | brs] eqn:Em; simpl in H; [| discriminate].
    inversion H; subst. exact (mapM_fail_only _ _ _ _ _ tr_branch_fail_only' Em).
  Qed.

  Lemma tr_nodes_fail_only' : forall ns e', tr_nodes f ns = inl e' -> e' = e.
  Proof.
    intros ns e' H. exact (mapM_fail_only _ _ _ _ _ tr_node_fail_only' H).
  Qed.
End FailsOnly.

Lemma parse_pattern_with_fail : forall ps s p e, parse_pattern_with ps s p = inl e -> e = CPattern.
Proof.
  intros ps s p e H. unfold parse_pattern_with in H.
  destruct (default_pattern_parser_with ps s p); [discriminate | congruence].
Qed.

Lemma parse_patterns_with_fail : forall ps a e, parse_patterns_with ps a = inl e -> e = CPattern.
Proof.
  intros ps a e H. unfold parse_patterns_with in H.
  destruct (tr_nodes (parse_pattern_with ps (ad_syntax a)) (ad_nodes a)) as [e1 | ns] eqn:E;
    simpl in H; [| discriminate].
  inversion H; subst.
  exact (tr_nodes_fail_only' _ CPattern (parse_pattern_with_fail ps (ad_syntax a)) _ _ E).
Qed.

Section ParserMono.
  Variables ps1 ps2 : string -> option json.
  Hypothesis ps_le : forall s j, ps1 s = Some j -> ps2 s = Some j.

  Lemma default_pattern_parser_with_mono : forall s p x,
    default_pattern_parser_with ps1 s p = Some x -> default_pattern_parser_with ps2 s p = Some x.
  Proof.
    intros s p x. unfold default_pattern_parser_with.
    destruct (String.eqb s "none" || String.eqb s "")%bool; [exact (fun H => H) |].
    destruct (String.eqb s "json"); [| exact (fun H => H)].
    destruct p; try exact (fun H => H). apply ps_le.
  Qed.

  Lemma parse_pattern_with_mono : forall s p q,
    parse_pattern_with ps1 s p = inr q -> parse_pattern_with ps2 s p = inr q.
  Proof.
    intros s p q H. unfold parse_pattern_with in *.
    destruct (default_pattern_parser_with ps1 s p) as [x |] eqn:E; [| discriminate].
    rewrite (default_pattern_parser_with_mono s p x E). exact H.
  Qed.

  Lemma parse_patterns_with_mono : forall a a1,
    parse_patterns_with ps1 a = inr a1 -> parse_patterns_with ps2 a = inr a1.
  Proof.
    intros a a1 H. unfold parse_patterns_with in *.
    destruct (tr_nodes (parse_pattern_with ps1 (ad_syntax a)) (ad_nodes a)) as [e | ns] eqn:E;
      simpl in H; [discriminate |].
    rewrite (tr_nodes_mono _ (parse_pattern_with ps2 (ad_syntax a)) (ad_nodes a) ns
               (fun p q _ => parse_pattern_with_mono (ad_syntax a) p q) E).
    exact H.
  Qed.

  (** what compiles with the weaker parser compiles to the same value with
      the stronger one *)
  Theorem compile_with_mono : forall I force a a',
    compile_with ps1 I force a = inr a' -> compile_with ps2 I force a = inr a'.
  Proof.
    intros I force a a' H. unfold compile_with in *.
    destruct (parse_patterns_with ps1 a) as [e | a1] eqn:E; [discriminate |].
    rewrite (parse_patterns_with_mono a a1 E). exact H.
  Qed.

  (** and so does every failure that is not the rejection of a pattern *)
  Theorem compile_with_mono_eq : forall I force a,
    compile_with ps1 I force a <> inl CPattern ->
    compile_with ps2 I force a = compile_with ps1 I force a.
  Proof.
    intros I force a H. unfold compile_with in *.
    destruct (parse_patterns_with ps1 a) as [e | a1] eqn:E.
    - exfalso. apply H. rewrite (parse_patterns_with_fail ps1 a e E). reflexivity.
    - rewrite (parse_patterns_with_mono a a1 E). reflexivity.
  Qed.
End ParserMono.

(** ** [compile_esc] extends [compile] *)
Theorem compile_esc_of_compile : forall I force a a',
  compile I force a = inr a' -> compile_esc I force a = inr a'.
Proof. exact (compile_with_mono parse parse_esc parse_esc_conservative). Qed.

Theorem compile_esc_conservative : forall I force a,
  compile I force a <> inl CPattern -> compile_esc I force a = compile I force a.
Proof. exact (compile_with_mono_eq parse parse_esc parse_esc_conservative). Qed.

(** every pattern text of the document is read by the parser without
    escapes *)
Definition reads_plain (a : adoc) : Prop :=
  forall s, In (JStr s) (doc_patterns a) -> parse s <> None.

Theorem compile_esc_conservative_reads : forall I force a,
  reads_plain a -> compile_esc I force a = compile I force a.
Proof.
  intros I force a Hr. unfold compile_esc, compile_with.
  change (compile I force a) with (compile_after I force (parse_patterns_with parse a)).
  f_equal. unfold parse_patterns_with.
  rewrite (tr_nodes_ext (parse_pattern_with parse_esc (ad_syntax a))
             (parse_pattern_with parse (ad_syntax a)) (ad_nodes a)); [reflexivity |].
  intros p Hp. unfold parse_pattern_with, default_pattern_parser_with.
  destruct (String.eqb (ad_syntax a) "none" || String.eqb (ad_syntax a) "")%bool; [reflexivity |].
  destruct (String.eqb (ad_syntax a) "json"); [| reflexivity].
  destruct p as [| | | s | |]; try reflexivity.
  destruct (parse s) as [j |] eqn:E.
  - rewrite (parse_esc_conservative s j E). reflexivity.
  - exfalso. exact (Hr s Hp E).
Qed.

(** ** The documents of the existing theorems *)

(** plain patterns written as text by the printer without escapes: the
    parser with escapes reads them to the same Spec value ... *)
Theorem compile_esc_with_text_plain : forall I force sel a,
  covers_strings sel -> plain_doc a ->
  compile_esc I force (with_text sel a) = compile I force (with_text sel a).
Proof.
  intros I force sel a Hsel Hp.
  rewrite (compile_text_inline I force sel a Hsel Hp).
  rewrite <- (compile_with_inline parse_esc I force a).
  exact (compile_text_inline_with parse_esc print (fun p => plain_json p = true)
           (fun j Hj => parse_esc_conservative _ _ (parse_print j Hj)) I force sel a Hsel Hp).
Qed.

(** ... and so do the two complete pipelines (each model's printer, then its
    parser), although on [<], [>], [&] the two printers write different
    texts *)
Theorem compile_esc_text_plain : forall I force sel a,
  covers_strings sel -> plain_doc a ->
  compile_esc I force (with_text_esc sel a) = compile I force (with_text sel a).
Proof.
  intros I force sel a Hsel Hp.
  rewrite (compile_text_inline I force sel a Hsel Hp).
  rewrite (compile_esc_text_inline_bytes I force sel a Hsel).
  exact (compile_with_inline parse_esc I force a).
Qed.

(** where no pattern string needs an escape the documents themselves are
    the same *)
Lemma map_patterns_ext : forall g h a,
  (forall p, In p (doc_patterns a) -> g p = h p) -> map_patterns g a = map_patterns h a.
Proof.
  intros g h a H. unfold map_patterns.
  rewrite (tr_nodes_ext (fun p => inr (g p)) (fun p => inr (h p)) (ad_nodes a)); [reflexivity |].
  intros p Hp. rewrite (H p Hp). reflexivity.
Qed.

Theorem with_text_esc_noesc : forall sel a, noesc_doc a -> with_text_esc sel a = with_text sel a.
Proof.
  intros sel a Hn. unfold with_text_esc, with_text_with, with_text. f_equal.
  apply map_patterns_ext. intros p Hp. unfold textify_with, textify.
  unfold noesc_doc in Hn. rewrite Forall_forall in Hn.
  rewrite (print_esc_noesc p (Hn p Hp)). reflexivity.
Qed.

(** ** Every result of [compile_esc] is a result of [compile] *)

(** the document with its pattern texts already read by [ps], written
    inline *)
Definition preparse_pattern (ps : string -> option json) (syntax : string) (p : json) : json :=
  match default_pattern_parser_with ps syntax p with Some x => x | None => p end.
Definition preparsed (ps : string -> option json) (a : adoc) : adoc :=
  with_syntax (if String.eqb (ad_syntax a) "" then "" else "none")
              (map_patterns (preparse_pattern ps (ad_syntax a)) a).

Lemma native_after : forall s, native_syntax (if String.eqb s "" then "" else "none").
Proof. intros s. destruct (String.eqb s ""); [left | right]; reflexivity. Qed.

Lemma parse_pattern_native : forall s x, native_syntax s -> parse_pattern s x = inr (canonicalize x).
Proof. intros s x [E | E]; subst s; reflexivity. Qed.

Lemma parse_patterns_preparsed : forall ps a a1,
  parse_patterns_with ps a = inr a1 -> parse_patterns (preparsed ps a) = inr a1.
Proof.
  intros ps a a1 H. unfold parse_patterns_with in H.
  destruct (tr_nodes (parse_pattern_with ps (ad_syntax a)) (ad_nodes a)) as [e | ns] eqn:E;
    simpl in H; [discriminate |].
  unfold parse_patterns, preparsed.
  set (s' := if String.eqb (ad_syntax a) "" then "" else "none") in *.
  change (ad_syntax (with_syntax s' (map_patterns (preparse_pattern ps (ad_syntax a)) a))) with s'.
  change (ad_nodes (with_syntax s' (map_patterns (preparse_pattern ps (ad_syntax a)) a)))
    with (ad_nodes (map_patterns (preparse_pattern ps (ad_syntax a)) a)).
  rewrite map_patterns_nodes, tr_nodes_map.
  rewrite (tr_nodes_ext _ (parse_pattern_with ps (ad_syntax a)) (ad_nodes a)).
  - rewrite E. simpl.
    assert (Hs : (if String.eqb s' "" then "" else "none") = s').
    { unfold s'. destruct (String.eqb (ad_syntax a) ""); reflexivity. }
    rewrite Hs. rewrite <- H. unfold map_patterns. rewrite tr_nodes_pure.
    destruct a; reflexivity.
  - intros p Hp. destruct (tr_nodes_inr_all _ _ _ E p Hp) as [q Hq].
    unfold preparse_pattern. unfold parse_pattern_with in *.
    destruct (default_pattern_parser_with ps (ad_syntax a) p) as [x |]; [| discriminate].
    exact (parse_pattern_native s' x (native_after (ad_syntax a))).
Qed.

Theorem compile_with_as_compile : forall ps I force a a',
  compile_with ps I force a = inr a' -> compile I force (preparsed ps a) = inr a'.
Proof.
  intros ps I force a a' H. unfold compile_with in H.
  destruct (parse_patterns_with ps a) as [e | a1] eqn:E; [discriminate |].
  rewrite <- compile_after_parse_patterns. rewrite (parse_patterns_preparsed ps a a1 E). exact H.
Qed.

(** rewriting the patterns does not touch the compiled actions *)
Lemma doc_pos_preparsed : forall okpos ps a, doc_pos okpos a -> doc_pos okpos (preparsed ps a).
Proof.
  intros okpos ps a [Hn [Hb Ht]]. unfold preparsed.
  set (g := preparse_pattern ps (ad_syntax a)).
  unfold doc_pos.
  change (ad_nodes (with_syntax (if String.eqb (ad_syntax a) "" then "" else "none") (map_patterns g a)))
    with (ad_nodes (map_patterns g a)).
  rewrite map_patterns_nodes.
  assert (Hbt : ad_boot (map_patterns g a) = ad_boot a /\ ad_toob (map_patterns g a) = ad_toob a).
  { unfold map_patterns. rewrite tr_nodes_pure. split; reflexivity. }
  destruct Hbt as [Eb Et].
  change (ad_boot (with_syntax (if String.eqb (ad_syntax a) "" then "" else "none") (map_patterns g a)))
    with (ad_boot (map_patterns g a)).
  change (ad_toob (with_syntax (if String.eqb (ad_syntax a) "" then "" else "none") (map_patterns g a)))
    with (ad_toob (map_patterns g a)).
  rewrite Eb, Et. split; [| split; assumption].
  rewrite Forall_forall in *. intros kn1 Hkn1. apply in_map_iff in Hkn1.
  destruct Hkn1 as [kn [E Hkn]]. subst kn1. pose proof (Hn kn Hkn) as Hk.
  destruct kn as [k [n |]]; unfold node_pos, map_node in *; simpl in *; [| exact Logic.I].
  destruct (dn_branching n) as [bg |] eqn:Ebg; simpl; [| rewrite Ebg; exact Hk].
  destruct Hk as [Ha Hbr]. split; [exact Ha |].
  rewrite Forall_forall in *. intros ob1 Hob1. apply in_map_iff in Hob1.
  destruct Hob1 as [ob [E Hob]]. subst ob1. pose proof (Hbr ob Hob) as Ho.
  destruct ob as [b |]; exact Ho.
Qed.

Lemma pristine_preparsed : forall ps a, pristine a -> pristine (preparsed ps a).
Proof. intros ps a. exact (doc_pos_preparsed _ ps a). Qed.

(** hence the theorems about what [compile] returns hold of what
    [compile_esc] returns.  A compiled value has the syntax "none" (or ""),
    under which the text model is not used: compiling it again is [compile]
    and [compile_esc] alike. *)
Lemma compile_with_syntax_native : forall ps I force a a',
  compile_with ps I force a = inr a' -> native_syntax (ad_syntax a').
Proof.
  intros ps I force a a' H. apply compile_with_as_compile in H.
  pose proof (compile_establishes I force (fun _ => True) (fun _ _ => True)
                (fun _ _ _ _ _ => Logic.I) Logic.I _ a' (doc_pos_true _) H) as Hff.
  exact (proj1 Hff).
Qed.

Lemma compile_with_native : forall ps I force a,
  native_syntax (ad_syntax a) -> compile_with ps I force a = compile I force a.
Proof.
  intros ps I force a [E | E]; apply compile_with_not_json; rewrite E; reflexivity.
Qed.

Theorem compile_esc_idempotent : forall I force a a',
  compile_esc I force a = inr a' -> compile_esc I false a' = inr a'.
Proof.
  intros I force a a' H. unfold compile_esc in *.
  rewrite (compile_with_native parse_esc I false a' (compile_with_syntax_native _ _ _ _ _ H)).
  exact (compile_idempotent I force _ a' (compile_with_as_compile _ _ _ _ _ H)).
Qed.

Theorem compile_esc_idempotent_forced : forall I force2 a a',
  compile_esc I true a = inr a' -> compile_esc I force2 a' = inr a'.
Proof.
  intros I force2 a a' H. unfold compile_esc in *.
  rewrite (compile_with_native parse_esc I force2 a' (compile_with_syntax_native _ _ _ _ _ H)).
  exact (compile_idempotent_forced I force2 _ a' (compile_with_as_compile _ _ _ _ _ H)).
Qed.

Theorem compile_esc_idempotent_pristine : forall I force force2 a a',
  pristine a -> compile_esc I force a = inr a' -> compile_esc I force2 a' = inr a'.
Proof.
  intros I force force2 a a' Hp H. unfold compile_esc in *.
  rewrite (compile_with_native parse_esc I force2 a' (compile_with_syntax_native _ _ _ _ _ H)).
  exact (compile_idempotent_pristine I force force2 _ a' (pristine_preparsed _ a Hp)
           (compile_with_as_compile _ _ _ _ _ H)).
Qed.

Theorem compile_esc_reload : forall I force force2 a a',
  pristine a -> compile_esc I force a = inr a' -> compile_esc I force2 (reload a') = inr a'.
Proof.
  intros I force force2 a a' Hp H. unfold compile_esc in *.
  rewrite (compile_with_native parse_esc I force2 (reload a')
             (compile_with_syntax_native _ _ _ _ _ H)).
  exact (compile_reload I force force2 _ a' (pristine_preparsed _ a Hp)
           (compile_with_as_compile _ _ _ _ _ H)).
Qed.

Theorem compiled_esc_no_late_errors : forall I force a a',
  compile_esc I force a = inr a' ->
  forall st pending e, so_err (doc_step a' st pending) = Some e -> late_ok e.
Proof.
  intros I force a a' H.
  exact (compiled_no_late_errors I force _ a' (compile_with_as_compile _ _ _ _ _ H)).
Qed.

Theorem compiled_esc_types_known : forall I force a a' name nd bg,
  compile_esc I force a = inr a' ->
  find_node name (sp_nodes (spec_of a')) = Some nd -> nd_branching nd = Some bg ->
  known_type (bg_type bg).
Proof.
  intros I force a a' name nd bg H.
  exact (compiled_types_known I force _ a' name nd bg (compile_with_as_compile _ _ _ _ _ H)).
Qed.

(** ** The extension is proper: a pattern text with an escape that only a
    person writes is rejected by [compile] and accepted by [compile_esc]
    (so the hypothesis of [compile_esc_conservative] cannot be dropped) *)
Lemma compile_esc_reads_more :
  let a := with_syntax "json"
             (set_nodes (mk_adoc [] "" "" false false "" None None None None false)
                [("start", Some (mk_dnode None None
                    (Some (mk_dbranching "message"
                       [Some (mk_dbranch (JStr """A\/""") None None "start")]))))]) in
  compile (fun _ => None) true a = inl CPattern
  /\ match compile_esc (fun _ => None) true a with
     | inr a' => doc_patterns a' = [JStr "A/"]
     | inl _ => False
     end.
Proof. split; vm_compute; reflexivity. Qed.
