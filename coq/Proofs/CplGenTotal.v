(** Part 1 of completeness without the restriction to plain variables: on
    the supported fragment - optional and inequality variables included -
    the matcher never errs from good bindings, and with enough fuel it
    terminates normally.  The proof of Proofs/MatchTotal.v with [okp]
    weakened to [supported]; the only new case is a variable for which
    [inequal] answers. *)
From Sheens Require Export Proofs.MatchTotal Spec.EmbedOpt.
From Coq Require Import Lia.
From Sheens Require Import Proofs.BoundMatch.

Lemma no_ineq_inequal : forall s f bs, no_ineq_var s = true -> inequal f bs s = NotUsing.
Proof.
  intros s f bs H. unfold no_ineq_var in H. unfold inequal.
  destruct (negb inequalities); [reflexivity|].
  destruct (ineq_parse s); [discriminate|].
  destruct (lookup s bs) as [[]|]; try reflexivity. destruct f; reflexivity.
Qed.

Lemma inequal_good : forall d s f bs r,
  good d bs -> gf d f -> inequal f bs s = Using r -> Forall (good d) r.
Proof.
  intros d s f bs r Hb Hf H. unfold inequal in H.
  destruct (negb inequalities); [discriminate|].
  destruct (lookup s bs) as [[| | b | | |]|]; try discriminate.
  destruct f as [| | a | | |]; try discriminate.
  destruct (ineq_parse s) as [[op vv]|]; [|discriminate].
  destruct (sat op a b).
  - destruct (lookup vv bs) as [[| | c | | |]|]; try discriminate.
    + destruct (Z.eqb c a); inversion H; subst; [constructor; [exact Hb | constructor] | constructor].
    + inversion H; subst. constructor; [apply good_bset; assumption | constructor].
  - inversion H; subst; constructor.
Qed.

Lemma supported_arr_in : forall xs x, supported (JArr xs) = true -> In x xs -> supported x = true.
Proof.
  intros xs x Hs Hin. cbn [supported] in Hs. apply andb_true_iff in Hs. destruct Hs as [_ Hs].
  rewrite forallb_forall in Hs. apply Hs; exact Hin.
Qed.

Lemma supported_obj_in : forall kvs k x, supported (JObj kvs) = true -> In (k, x) kvs -> supported x = true.
Proof.
  intros kvs k x Hs Hin. cbn [supported] in Hs. apply andb_true_iff in Hs. destruct Hs as [_ Hs].
  rewrite forallb_forall in Hs. apply (Hs (k, x)); exact Hin.
Qed.

Section GTotal.
  Variable ord : order_oracle.
  Hypothesis Hord : perm_oracle ord.
  Variable d : nat.
  Variable fa : bool.

  Notation sup p := (supported p = true).

  Section WithRec.
    Variable k : nat.
    Variable rec : rec_t.
    Definition rec_tot_g : Prop :=
      forall p f bs, fits_fuel d fa k p -> sup p -> gf d f -> good d bs ->
                     out_ok fa (Forall (good d)) (rec p f bs).
    Hypothesis Hrec : rec_tot_g.

    Lemma mwb_tot_g : forall bss p f,
      fits_fuel d fa k p -> sup p -> gf d f -> Forall (good d) bss ->
      out_ok fa (Forall (good d)) (mwb rec bss p f).
    Proof.
      induction bss as [|bs r IH]; intros p f Hk Hp Hf Hb; cbn [mwb].
      - constructor.
      - inversion Hb as [|a b Hbs Hr]; subst.
        pose proof (Hrec p f bs Hk Hp Hf Hbs) as H1.
        destruct (rec p f bs) as [a| |]; cbn [out_ok] in *; [|contradiction|exact H1].
        pose proof (IH p f Hk Hp Hf Hr) as H2.
        destruct (mwb rec r p f) as [b| |]; cbn [out_ok] in *; [|contradiction|exact H2].
        apply Forall_app; split; assumption.
    Qed.

    Lemma mapcat_tot_g : forall kvs bss fkvs,
      (forall k0 v, In (k0, v) kvs -> fits_fuel d fa k v /\ sup v) ->
      (forall k0 y, In (k0, y) fkvs -> gf d y) ->
      Forall (good d) bss ->
      out_ok fa (Forall (good d)) (mapcat rec bss kvs fkvs).
    Proof.
      induction kvs as [|[k0 v] r IH]; intros bss fkvs Hkv Hfk Hb; cbn [mapcat].
      - exact Hb.
      - assert (Hr : forall k1 v1, In (k1, v1) r -> fits_fuel d fa k v1 /\ sup v1)
          by (intros k1 v1 Hin; apply (Hkv k1 v1); right; exact Hin).
        destruct (assoc k0 fkvs) as [fv|] eqn:Ea.
        + destruct (Hkv k0 v (or_introl eq_refl)) as [Hk Hp].
          pose proof (mwb_tot_g bss v fv Hk Hp (Hfk _ _ (assoc_In _ _ _ Ea)) Hb) as H1.
          destruct (mwb rec bss v fv) as [[|a acc]| |]; cbn [out_ok] in *;
            [constructor | | contradiction | exact H1].
          apply IH; assumption.
        + destruct (is_optional_json v); [apply IH; assumption | constructor].
    Qed.

    Lemma propvar_loop_tot_g : forall fkvs bss k0 v,
      fits_fuel d fa k (JStr k0) -> fits_fuel d fa k v -> sup v ->
      (forall fk fv, In (fk, fv) fkvs -> gf d fv /\ gf d (JStr fk)) ->
      Forall (good d) bss ->
      out_ok fa (Forall (good d)) (propvar_loop rec bss k0 v fkvs).
    Proof.
      induction fkvs as [|[fk fv] r IH]; intros bss k0 v Hk0 Hk Hp Hfk Hb; cbn [propvar_loop].
      - constructor.
      - destruct (Hfk fk fv (or_introl eq_refl)) as [Hfv Hfks].
        assert (Hr : forall fk1 fv1, In (fk1, fv1) r -> gf d fv1 /\ gf d (JStr fk1))
          by (intros fk1 fv1 Hin; apply Hfk; right; exact Hin).
        pose proof (IH bss k0 v Hk0 Hk Hp Hr Hb) as H3.
        pose proof (mwb_tot_g bss (JStr k0) (JStr fk) Hk0 eq_refl Hfks Hb) as H1.
        destruct (mwb rec bss (JStr k0) (JStr fk)) as [[|a ext]| |]; cbn [out_ok] in H1;
          [exact H3 | | contradiction | exact H1].
        pose proof (mwb_tot_g (a :: ext) v fv Hk Hp Hfv H1) as H2.
        destruct (mwb rec (a :: ext) v fv) as [ext2| |]; cbn [out_ok] in *; [|contradiction|exact H2].
        destruct (propvar_loop rec bss k0 v r) as [g| |]; cbn [out_ok] in *; [|contradiction|exact H3].
        apply Forall_app; split; assumption.
    Qed.

    Lemma match_obj_tot_g : forall kvs fkvs bs,
      (forall k0 v, In (k0, v) kvs -> fits_fuel d fa k v /\ sup v) ->
      (forall k0 v, In (k0, v) kvs -> is_var k0 = true -> fits_fuel d fa k (JStr k0)) ->
      match kvs with [_] => true | _ => negb (has_var_key kvs) end = true ->
      gf d (JObj fkvs) -> good d bs ->
      out_ok fa (Forall (good d)) (match_obj ord rec bs kvs fkvs).
    Proof.
      intros kvs fkvs bs Hkv Hkey Hsup Hf Hb.
      assert (Hfk : forall k0 y, In (k0, y) fkvs -> gf d y)
        by (intros k0 y Hin; apply (gf_obj_in d fkvs k0 y Hf Hin)).
      assert (Hbs : Forall (good d) [bs]) by (constructor; [exact Hb | constructor]).
      unfold match_obj. destruct kvs as [|[k0 v] [|kv2 r]].
      - exact Hbs.
      - destruct (is_var k0) eqn:Ek.
        + rewrite allow_property_variables_true. unfold propvar.
          destruct (Hkv k0 v (or_introl eq_refl)) as [Hk Hp].
          pose proof (Hkey k0 v (or_introl eq_refl) Ek) as Hk0.
          apply propvar_loop_tot_g; try assumption.
          intros fk fv Hin. apply (gf_obj_in d fkvs fk fv Hf).
          eapply Permutation_in; [apply Hord | exact Hin].
        + apply mapcat_tot_g; assumption.
      - apply negb_true_iff in Hsup. rewrite Hsup, andb_false_r.
        apply mapcat_tot_g; try assumption.
        intros k1 v1 Hin. apply In_sort_kvs in Hin. apply Hkv in Hin. exact Hin.
    Qed.

    Lemma try_each_tot_g : forall mm bss x mm_all,
      fits_fuel d fa k x -> sup x -> Forall (good d) bss -> gmm d mm -> gmm d mm_all ->
      out_ok fa (good_pairs d) (try_each rec bss x mm_all mm).
    Proof.
      induction mm as [|[j fact] r IH]; intros bss x mm_all Hk Hp Hb Hm Hall; cbn [try_each].
      - constructor.
      - inversion Hm as [|a b Hfact Hr]; subst. cbn [snd] in Hfact.
        pose proof (mwb_tot_g bss x fact Hk Hp Hfact Hb) as H1.
        destruct (mwb rec bss x fact) as [acc| |]; cbn [out_ok] in *; [|contradiction|exact H1].
        pose proof (IH bss x mm_all Hk Hp Hb Hr Hall) as H2.
        destruct (try_each rec bss x mm_all r) as [rest| |]; cbn [out_ok] in *; [|contradiction|exact H2].
        destruct acc as [|a acc]; [exact H2|].
        constructor; [|exact H2]. cbn [fst snd]. split; [exact H1 | apply gmm_remove_idx; exact Hall].
    Qed.

    Lemma arraycat_tot_g : forall pairs x,
      fits_fuel d fa k x -> sup x -> good_pairs d pairs ->
      out_ok fa (good_pairs d) (arraycat ord rec pairs x).
    Proof.
      induction pairs as [|[bss mm] r IH]; intros x Hk Hp Hg; cbn [arraycat].
      - constructor.
      - inversion Hg as [|a b [Hb Hm] Hr]; subst. cbn [fst snd] in Hb, Hm.
        pose proof (try_each_tot_g (ord _ mm) bss x mm Hk Hp Hb (gmm_ord ord Hord d _ Hm) Hm) as H1.
        destruct (try_each rec bss x mm (ord _ mm)) as [a| |]; cbn [out_ok] in *; [|contradiction|exact H1].
        pose proof (IH x Hk Hp Hr) as H2.
        destruct (arraycat ord rec r x) as [b| |]; cbn [out_ok] in *; [|contradiction|exact H2].
        apply Forall_app; split; assumption.
    Qed.

    Lemma arr_loop_tot_g : forall xs fe fxs pairs,
      (forall x, In x xs -> fits_fuel d fa k x /\ sup x) ->
      Forall (gf d) fxs -> good_pairs d pairs ->
      out_ok fa (arr_loop_good d) (arr_loop ord rec fe xs fxs pairs).
    Proof.
      induction xs as [|x r IH]; intros fe fxs pairs Hx Hfxs Hg; cbn [arr_loop].
      - split; assumption.
      - assert (Hr : forall x', In x' r -> fits_fuel d fa k x' /\ sup x')
          by (intros x' Hin; apply Hx; right; exact Hin).
        destruct (is_scalar x).
        + destruct (jmem x fxs); [|exact I]. apply IH; [exact Hr | apply Forall_jremove; exact Hfxs | exact Hg].
        + destruct fe; [exact I|].
          destruct (Hx x (or_introl eq_refl)) as [Hk Hp].
          pose proof (arraycat_tot_g pairs x Hk Hp Hg) as H1.
          destruct (arraycat ord rec pairs x) as [[|a np]| |]; cbn [out_ok] in *;
            [exact I | | contradiction | exact H1].
          apply IH; assumption.
    Qed.

    Lemma match_arr_tot_g : forall xs f bs,
      Nat.leb (count_vars_direct xs) 1 = true ->
      (forall x, In x xs -> fits_fuel d fa k x /\ sup x) ->
      gf d f -> good d bs ->
      out_ok fa (Forall (good d)) (match_arr ord rec bs xs f).
    Proof.
      intros xs f bs Hc Hx Hf Hb. unfold match_arr.
      apply Nat.leb_le in Hc.
      destruct (get_var_some xs None) as [v [cs Eg]]; [lia|]. rewrite Eg.
      destruct (get_var_incl _ _ _ _ Eg) as [Hincl [Hv _]].
      destruct f as [| | | | fa0 |]; try constructor.
      destruct (index_facts 0 fa0) as [fxs fxa] eqn:Ei.
      destruct (index_facts_good d fa0 0 fxs fxa (fun y Hin => gf_arr_in d fa0 y Hf Hin) Ei) as [Hfxs Hfxa].
      assert (Hg0 : good_pairs d [([bs], fxa)]).
      { constructor; [|constructor]. cbn [fst snd]. split; [|exact Hfxa]. constructor; [exact Hb | constructor]. }
      pose proof (arr_loop_tot_g cs (match fxa with [] => true | _ => false end) fxs _
                    (fun x Hin => Hx x (Hincl x Hin)) Hfxs Hg0) as H1.
      destruct (arr_loop ord rec _ cs fxs [([bs], fxa)]) as [[[fxs' pairs]|]| |];
        cbn [out_ok arr_loop_good] in *; [| constructor | contradiction | exact H1].
      destruct H1 as [Hfxs' Hps].
      set (merged := map (fun pr : pair_t => (fst pr, snd pr ++ number_from (List.length fa0) fxs')) pairs).
      assert (Hm : good_pairs d merged).
      { unfold merged, good_pairs. apply Forall_forall. intros pr Hpr.
        unfold good_pairs in Hps. rewrite Forall_forall in Hps.
        apply in_map_iff in Hpr. destruct Hpr as [pr0 [<- Hpr0]]. cbn [fst snd].
        destruct (Hps pr0 Hpr0) as [Ha Hbm]. split; [exact Ha|].
        apply Forall_app; split; [exact Hbm | apply number_from_good; exact Hfxs']. }
      destruct v as [vname|]; [|apply combine_pairs_good; exact Hm].
      destruct (Hv vname eq_refl) as [Habs|[Hin Hvar]]; [discriminate|].
      destruct (Hx _ Hin) as [Hk Hp].
      pose proof (arraycat_tot_g merged (JStr vname) Hk Hp Hm) as H2.
      destruct (arraycat ord rec merged (JStr vname)) as [[|a np]| |]; cbn [out_ok] in *;
        [ | apply combine_pairs_good; exact H2 | contradiction | exact H2].
      destruct (is_optional vname); [apply combine_pairs_good; exact Hm | constructor].
    Qed.
  End WithRec.

  Theorem match_tot_g : forall fuel p f bs,
    (fa = false -> need d p <= fuel) -> sup p -> gf d f -> good d bs ->
    out_ok fa (Forall (good d)) (match_ ord fuel p f bs).
  Proof.
    induction fuel as [|n IH]; intros p f bs Hk Hp Hf Hb.
    - cbn [match_ out_ok]. destruct fa; [reflexivity|]. pose proof (need_pos d p). specialize (Hk eq_refl). lia.
    - assert (Hrec : rec_tot_g n (match_ ord n)) by (intros p' f' bs' Hk'; apply IH; exact Hk').
      assert (Hone : Forall (good d) [bs]) by (constructor; [exact Hb | constructor]).
      cbn [match_]. destruct p as [| b | z | s | xs | kvs].
      + destruct f; cbn [out_ok]; (exact Hone || constructor).
      + destruct f as [| y | | | |]; cbn [out_ok]; try constructor.
        destruct (Bool.eqb b y); [exact Hone | constructor].
      + destruct f as [| | y | | |]; cbn [out_ok]; try constructor.
        destruct (Z.eqb z y); [exact Hone | constructor].
      + destruct (is_var s) eqn:Es.
        * destruct (is_anon s) eqn:Ea; [exact Hone|].
          destruct (inequal f bs s) as [|r] eqn:Ei.
          2:{ cbn [out_ok]. eapply inequal_good; eauto. }
          destruct (lookup s bs) as [b|] eqn:El.
          -- pose proof (good_lookup d s bs b Hb El) as Hgb.
             rewrite (bound_match_var_free _ b f bs (proj1 Hgb)). apply IH; try assumption.
             ++ intros Hfa. specialize (Hk Hfa). unfold need in *. cbn [var_free] in Hk.
                rewrite Es in Hk. cbn [negb json_depth] in Hk. destruct Hgb as [Hvf Hd]. rewrite Hvf. lia.
             ++ apply var_free_supported. apply Hgb.
          -- constructor; [apply good_bset; assumption | constructor].
        * destruct f as [| | | t | |]; cbn [out_ok]; try constructor.
          destruct (String.eqb s t); [exact Hone | constructor].
      + apply match_arr_tot_g with (k := n); try assumption.
        * cbn [supported] in Hp. apply andb_true_iff in Hp. tauto.
        * intros x Hin. split; [|eapply supported_arr_in; eauto].
          intros Hfa. specialize (Hk Hfa). pose proof (need_arr_lt d x xs Hin). lia.
      + destruct f as [| | | | | fkvs]; cbn [out_ok]; try constructor.
        apply match_obj_tot_g with (k := n); try assumption.
        * intros k0 v Hin. split; [|eapply supported_obj_in; eauto].
          intros Hfa. specialize (Hk Hfa). pose proof (need_obj_lt d k0 v kvs Hin). lia.
        * intros k0 v Hin Hvar.
          intros Hfa. specialize (Hk Hfa). pose proof (need_obj_key d k0 v kvs Hin Hvar). lia.
        * cbn [supported] in Hp. apply andb_true_iff in Hp. tauto.
  Qed.
End GTotal.

(** the supported fragment never errs from variable-free bindings *)
Theorem match_supported_no_err_g : forall ord, perm_oracle ord -> forall fuel p f bs,
  supported p = true -> var_free f = true -> var_free_bs bs = true ->
  match_ ord fuel p f bs <> Err.
Proof.
  intros ord Hord fuel p f bs Hs Hf Hb E.
  set (d := Nat.max (json_depth f) (json_depth (JObj bs))).
  assert (Hgood : good d bs).
  { unfold good. apply Forall_forall. intros kv Hin. split.
    - unfold var_free_bs in Hb. rewrite forallb_forall in Hb. apply Hb; exact Hin.
    - pose proof (depth_obj_lt kv bs Hin). unfold d. lia. }
  pose proof (match_tot_g ord Hord d true fuel p f bs
                (fun H => ltac:(discriminate)) Hs
                (conj Hf (Nat.le_max_l _ _)) Hgood) as H.
  rewrite E in H. exact H.
Qed.

(** with fuel above [need] the matcher terminates normally *)
Theorem match_supported_ok_g : forall ord, perm_oracle ord -> forall d fuel p f bs,
  supported p = true -> gf d f -> good d bs ->
  need d p <= fuel ->
  exists bss, match_ ord fuel p f bs = Ok bss.
Proof.
  intros ord Hord d fuel p f bs Hs Hf Hb Hn.
  pose proof (match_tot_g ord Hord d false fuel p f bs (fun _ => Hn) Hs Hf Hb) as H.
  destruct (match_ ord fuel p f bs) as [bss| |]; cbn [out_ok] in H; [|contradiction|discriminate].
  exists bss; reflexivity.
Qed.
