(** Walk accounting (C05): theorems about [walk] of Model/Step.v, for every
    action type, every behaviour of actions and guards, every specification,
    breakpoint predicate, step limit, start state and message list. *)
From Coq Require Import Lia.
From Sheens Require Import Model.Step Spec.WalkSpec Proofs.SndBasics Proofs.StepFacts.

Lemma state_eqb_refl st : state_eqb st st = true.
Proof.
  unfold state_eqb. rewrite String.eqb_refl. destruct (st_bs st) as [b|]; cbn; [|reflexivity].
  unfold bindings_eqb. exact (json_eqb_refl (JObj b)).
Qed.

Lemma copy_state_idem st : copy_state (copy_state st) = copy_state st.
Proof. reflexivity. Qed.

Lemma consumed_of_app a b : consumed_of (a ++ b) = consumed_of a ++ consumed_of b.
Proof.
  induction a as [|sd r IH]; [reflexivity|]. cbn. destruct (sd_consumed sd); cbn; rewrite IH; reflexivity.
Qed.

(** where the state chain of a stride list ends (without copying) *)
Definition chain_end (prev : state) (sds : list stride) : state :=
  fold_left (fun p sd => match sd_to sd with Some t => t | None => p end) sds prev.

Lemma chain_ok_app prev a b :
  chain_ok prev (a ++ b) = chain_ok prev a && chain_ok (chain_end prev a) b.
Proof.
  revert prev. induction a as [|sd r IH]; intros prev; [reflexivity|].
  cbn. rewrite IH. rewrite andb_assoc. reflexivity.
Qed.

Lemma final_state_app st a b : final_state st (a ++ b) = final_state (final_state st a) b.
Proof. unfold final_state. apply fold_left_app. Qed.

Lemma chain_end_app st a b : chain_end st (a ++ b) = chain_end (chain_end st a) b.
Proof. unfold chain_end. apply fold_left_app. Qed.

Section Walk.
  Variable action : Type.
  Variable run : action -> option bindings -> exec_raw.
  Variable s : spec action.
  Variable bp : state -> bool.

  Notation walk_stride := (walk_stride action run s).
  Notation walk_loop := (walk_loop action run s bp).
  Notation walk := (walk action run s bp).

  (** the pending list after a recorded stride *)
  Definition pendings_after (sd : stride) (pendings : list json) : list json :=
    match sd_consumed sd with Some _ => tl pendings | None => pendings end.

  Lemma pendings_split st pendings :
    let sd := fst (walk_stride st pendings) in
    pendings = consumed_of [sd] ++ pendings_after sd pendings.
  Proof.
    cbn. unfold pendings_after.
    destruct (walk_stride_consumed action run s st pendings) as [H | H].
    - rewrite H. reflexivity.
    - destruct (sd_consumed (fst (walk_stride st pendings))) as [m|] eqn:E; [|reflexivity].
      symmetry in H. cbn. apply peek_some. exact H.
  Qed.

  (** * The invariant carried through the loop *)
  Record winv (st0 : state) (msgs : list json) (st : state) (pendings : list json)
         (acc : list stride) : Prop := mk_winv {
    wi_msgs : msgs = consumed_of (rev acc) ++ pendings;
    wi_final : final_state st0 (rev acc) = st;
    wi_chain : chain_ok st0 (rev acc) = true;
    wi_end : copy_state (chain_end st0 (rev acc)) = copy_state st
  }.

  Lemma winv_step st0 msgs st pendings acc :
    winv st0 msgs st pendings acc ->
    let sd := fst (walk_stride st pendings) in
    winv st0 msgs (match sd_to sd with Some t => copy_state t | None => st end)
         (pendings_after sd pendings) (sd :: acc).
  Proof.
    intros [Hm Hf Hc He]. cbn zeta.
    set (sd := fst (walk_stride st pendings)).
    split; cbn [rev].
    - pose proof (pendings_split st pendings) as Hp. cbv zeta in Hp. fold sd in Hp.
      rewrite consumed_of_app, <- app_assoc, <- Hp. exact Hm.
    - rewrite final_state_app, Hf. cbn. destruct (sd_to sd); reflexivity.
    - rewrite chain_ok_app, Hc. cbn.
      unfold sd at 1. rewrite walk_stride_from, He, state_eqb_refl. reflexivity.
    - rewrite chain_end_app. cbn. destruct (sd_to sd) as [t|]; [reflexivity | exact He].
  Qed.

  (** the conclusions about a finished walk *)
  Record wpost (st0 : state) (msgs : list json) (limit0 : nat) (w : walked) : Prop := mk_wpost {
    (* ordered, exactly-once consumption; truthful remainder *)
    wp_account : exists dropped,
        msgs = consumed_of (w_strides w) ++ dropped ++ w_remaining w /\
        (w_stopped w <> Done -> dropped = []) /\
        (w_stopped w = Done -> w_remaining w = []) /\
        (* nothing is discarded at a node able to consume it *)
        (dropped <> [] ->
         forall p, sd_consumed (fst (walk_stride (final_state st0 (w_strides w)) p)) = None);
    wp_limit : List.length (w_strides w) <= limit0;
    wp_chain : chain_ok st0 (w_strides w) = true;
    (* Done means quiescent: without a new message nothing happens *)
    wp_quiescent : w_stopped w = Done ->
        sd_to (fst (walk_stride (final_state st0 (w_strides w)) [])) = None;
    wp_no_internal : w_stopped w <> InternalError
  }.

  Lemma walk_loop_post st0 msgs limit0 :
    Forall (fun m => m <> JNull) msgs ->
    forall limit st pendings acc amb w amb',
      winv st0 msgs st pendings acc ->
      List.length acc + limit <= limit0 ->
      walk_loop limit st pendings acc amb = (w, amb') ->
      wpost st0 msgs limit0 w.
  Proof.
    intros Hnn. induction limit as [|n IH]; intros st pendings acc amb w amb' Hinv Hlen Hw.
    - cbn in Hw. inversion Hw. subst w. destruct Hinv as [Hm Hf Hc He].
      split; cbn [w_strides w_remaining w_stopped]; try discriminate.
      + exists []. repeat split; try discriminate; try congruence; exact Hm.
      + rewrite rev_length. lia.
      + exact Hc.
    - cbn [Step.walk_loop] in Hw.
      destruct (bp st).
      { inversion Hw. subst w. destruct Hinv as [Hm Hf Hc He].
        split; cbn [w_strides w_remaining w_stopped]; try discriminate.
        + exists []. repeat split; try discriminate; try congruence; exact Hm.
        + rewrite rev_length. lia.
        + exact Hc. }
      pose proof (winv_step _ _ _ _ _ Hinv) as Hinv'. cbn zeta in Hinv'.
      destruct (walk_stride st pendings) as [sd a] eqn:Ews. cbn [fst] in Hinv'.
      unfold pendings_after in Hinv'.
      remember (match sd_consumed sd with Some _ => tl pendings | None => pendings end) as pendings' eqn:Hp'.
      assert (Hsd : sd = fst (walk_stride st pendings)) by (rewrite Ews; reflexivity).
      destruct (sd_to sd) as [t|] eqn:Eto.
      { eapply IH; [exact Hinv' | cbn [List.length]; lia | exact Hw]. }
      (* went nowhere *)
      assert (Hdone : forall dropped,
                 pendings' = dropped ->
                 (dropped <> [] ->
                  forall p, sd_consumed (fst (walk_stride st p)) = None) ->
                 sd_to (fst (walk_stride st [])) = None ->
                 wpost st0 msgs limit0 (mk_walked (rev (sd :: acc)) [] Done)).
      { intros dropped Hd Hnc Hq. destruct Hinv' as [Hm' Hf' Hc' He'].
        split; cbn [w_strides w_remaining w_stopped]; try discriminate.
        - exists dropped. rewrite app_nil_r. repeat split; try congruence.
          intros Hne p. rewrite Hf'. apply Hnc. exact Hne.
        - rewrite rev_length. cbn [List.length]. lia.
        - exact Hc'.
        - intros _. rewrite Hf'. exact Hq. }
      destruct pendings' as [|m' r'].
      { (* nothing left to offer *)
        inversion Hw. subst w. apply (Hdone []); [reflexivity | congruence |].
        destruct (sd_consumed sd) as [m|] eqn:Ec.
        - rewrite Hsd in Ec. exact (proj1 (walk_stride_consumer_waits action run s st pendings m Ec)).
        - (* not consumed and nothing pending: pendings = [] *)
          try rewrite Ec in Hp'. subst pendings. rewrite <- Hsd. exact Eto. }
      destruct (sd_consumed sd) as [m|] eqn:Ec.
      { (* consumed, stays, more to offer *)
        eapply IH; [exact Hinv' | cbn [List.length]; lia | exact Hw]. }
      (* offered a message, neither moved nor consumed: done, the rest is dropped *)
      inversion Hw. subst w.
      try rewrite Ec in Hp'.
      assert (Hpk : peek pendings = Some m').
      { subst pendings. apply peek_cons.
        destruct Hinv as [Hm _ _ _]. rewrite Hm in Hnn.
        apply Forall_app in Hnn. destruct Hnn as [_ Hnn]. inversion Hnn. assumption. }
      assert (Hind : forall p, walk_stride st p = walk_stride st pendings).
      { apply (walk_stride_unconsumed_indep action run s st pendings m' Hpk). rewrite <- Hsd. exact Ec. }
      apply (Hdone (m' :: r')); [reflexivity | |].
      + intros _ p. rewrite Hind, <- Hsd. exact Ec.
      + rewrite Hind, <- Hsd. exact Eto.
  Qed.

  Theorem walk_post limit st msgs w amb :
    Forall (fun m => m <> JNull) msgs ->
    walk limit st msgs = (w, amb) -> wpost st msgs limit w.
  Proof.
    intros Hnn Hw. unfold Step.walk in Hw.
    eapply (walk_loop_post st msgs limit Hnn limit st msgs [] false); [| cbn; lia | exact Hw].
    split; cbn; try reflexivity.
  Qed.

  (** the clauses one by one *)
  Section Clauses.
    Variables (limit : nat) (st : state) (msgs : list json) (w : walked) (amb : bool).
    Hypothesis nonnull : Forall (fun m => m <> JNull) msgs.
    Hypothesis Hw : walk limit st msgs = (w, amb).

    Lemma walk_accounting :
      exists dropped,
        msgs = consumed_of (w_strides w) ++ dropped ++ w_remaining w /\
        (w_stopped w <> Done -> dropped = []) /\
        (w_stopped w = Done -> w_remaining w = []) /\
        (dropped <> [] ->
         forall p, sd_consumed (fst (walk_stride (final_state st (w_strides w)) p)) = None).
    Proof. exact (wp_account _ _ _ _ (walk_post _ _ _ _ _ nonnull Hw)). Qed.

    Lemma walk_step_bound : List.length (w_strides w) <= limit.
    Proof. exact (wp_limit _ _ _ _ (walk_post _ _ _ _ _ nonnull Hw)). Qed.

    Lemma walk_chain : chain_ok st (w_strides w) = true.
    Proof. exact (wp_chain _ _ _ _ (walk_post _ _ _ _ _ nonnull Hw)). Qed.

    Lemma walk_done_quiescent :
      w_stopped w = Done -> sd_to (fst (walk_stride (final_state st (w_strides w)) [])) = None.
    Proof. exact (wp_quiescent _ _ _ _ (walk_post _ _ _ _ _ nonnull Hw)). Qed.

    Lemma walk_never_internal_error : w_stopped w <> InternalError.
    Proof. exact (wp_no_internal _ _ _ _ (walk_post _ _ _ _ _ nonnull Hw)). Qed.

    (** truthful stop: at the limit or a breakpoint, exactly the unconsumed remainder *)
    Lemma walk_truthful_stop :
      w_stopped w = Limited \/ w_stopped w = BreakpointReached ->
      msgs = consumed_of (w_strides w) ++ w_remaining w.
    Proof.
      intros Hs. destruct walk_accounting as [dropped [Hm [Hd _]]].
      rewrite Hd in Hm; [exact Hm|]. destruct Hs as [H | H]; rewrite H; discriminate.
    Qed.
  End Clauses.
End Walk.
