(** Correspondence and property oracle for the text level of tools.Dot /
    tools.Mermaid (C20): what the generated cases_toolstext_*.v files
    evaluate.

    A case [mk_ttcase name dot mer] is a node name (any bytes) and the two
    texts the Go code wrote for it, cut out of the output of tools.Dot and
    tools.Mermaid on a small specification that has the name as a node name or
    as a branch target: [dot] the Graphviz identifier (with its quotes),
    [mer] the Mermaid label text (without the quotes Mermaid statements put
    around it).  A case [mk_ttnid num id] is the id Mermaid wrote for the
    [num]-th node it declared.  A case [mk_ttlabel name label] is the text Go
    wrote for the name inside the HTML-like label of the Graphviz node (or
    placeholder) statement, [mk_ttdoc doc text] the text it wrote there for
    a doc string.

    [toolstext_mismatches]: the Go text is not [dot_id name] /
    [mermaid_text name] / [mermaid_nid num] / [dot_label_name name] /
    [dot_html doc] of Model/ToolsText.v.
    [toolstext_violations]: the property decided on the Go text alone: the
    identifier reads back as the name ([dot_unquote]) and is one well-formed
    quoted string ([dot_quoted_ok]); the Mermaid text reads back as the name
    and holds no quote; the id reads back as the number; the label text is
    passed over by the bracket-counting reader, which stops at the closing
    bracket that follows it ([html_scan]), and reads back as the name
    ([html_unescape]); and no two cases
    of the file with different names (numbers) were given the same
    identifier, label text or id. *)
From Sheens Require Export Corr.Base Model.ToolsText Proofs.ToolsTextProofs.

Inductive ttcase : Type :=
| mk_ttcase (name dot mer : string)
| mk_ttnid (num : Z) (id : string)
| mk_ttlabel (name label : string)
| mk_ttdoc (doc text : string).

(** a string given by its bytes (for names that are not printable ASCII) *)
Definition sb (bytes : list Z) : string :=
  fold_right (fun z acc => String (ascii_of_N (Z.to_N z)) acc) EmptyString bytes.

Definition opt_str_eqb (a : option string) (b : string) : bool :=
  match a with Some x => String.eqb x b | None => false end.

(** * model against implementation *)
Definition tt_agrees (c : ttcase) : bool :=
  match c with
  | mk_ttcase name dot mer => String.eqb (dot_id name) dot && String.eqb (mermaid_text name) mer
  | mk_ttnid num id => String.eqb (mermaid_nid (Z.to_nat num)) id
  | mk_ttlabel name label => String.eqb (dot_label_name name) label
  | mk_ttdoc doc text => String.eqb (dot_html doc) text
  end.

Definition toolstext_mismatches (cases : list ttcase) : list nat :=
  bad_indexes (fun c => negb (tt_agrees c)) 0 cases.

(** * the property, decided on what the implementation wrote *)
Definition tt_dot_ok (name dot : string) : bool :=
  opt_str_eqb (dot_unquote dot) name && dot_quoted_ok dot.

Definition tt_mer_ok (name mer : string) : bool :=
  opt_str_eqb (mermaid_untext mer) name && negb (has_char dquote mer).

Definition tt_nid_ok (num : Z) (id : string) : bool :=
  match mermaid_unnid id with
  | Some k => Nat.eqb k (Z.to_nat num) && (0 <=? num)%Z
  | None => false
  end.

(** the label text alone, followed by the closing bracket, is exactly one
    bracketed string, and it reads back as the name *)
Definition tt_label_ok (name label : string) : bool :=
  match html_scan 1 (label ++ String rangle EmptyString) with
  | Some EmptyString => opt_str_eqb (html_unescape label) name
  | _ => false
  end.

Definition tt_ok (c : ttcase) : bool :=
  match c with
  | mk_ttcase name dot mer => tt_dot_ok name dot && tt_mer_ok name mer
  | mk_ttnid num id => tt_nid_ok num id
  | mk_ttlabel name label => tt_label_ok name label
  | mk_ttdoc doc text => tt_label_ok doc text
  end.

(** two different names (numbers) with one rendering *)
Definition tt_collide (a b : ttcase) : bool :=
  match a, b with
  | mk_ttcase n d m, mk_ttcase n' d' m' =>
      negb (String.eqb n n') && (String.eqb d d' || String.eqb m m')
  | mk_ttnid k i, mk_ttnid k' i' => negb (Z.eqb k k') && String.eqb i i'
  | mk_ttlabel n l, mk_ttlabel n' l' => negb (String.eqb n n') && String.eqb l l'
  | mk_ttdoc n l, mk_ttdoc n' l' => negb (String.eqb n n') && String.eqb l l'
  | _, _ => false
  end.

Fixpoint tt_violations_from (seen : list ttcase) (i : nat) (l : list ttcase) : list nat :=
  match l with
  | [] => []
  | c :: r =>
      if negb (tt_ok c) || existsb (tt_collide c) seen
      then i :: tt_violations_from (c :: seen) (S i) r
      else tt_violations_from (c :: seen) (S i) r
  end.

Definition toolstext_violations (cases : list ttcase) : list nat := tt_violations_from [] 0 cases.

(** finer views *)
Definition toolstext_dot_violations (cases : list ttcase) : list nat :=
  bad_indexes (fun c => match c with mk_ttcase n d _ => negb (tt_dot_ok n d) | _ => false end) 0 cases.
Definition toolstext_mer_violations (cases : list ttcase) : list nat :=
  bad_indexes (fun c => match c with mk_ttcase n _ m => negb (tt_mer_ok n m) | _ => false end) 0 cases.
Definition toolstext_nid_violations (cases : list ttcase) : list nat :=
  bad_indexes (fun c => match c with mk_ttnid k i => negb (tt_nid_ok k i) | _ => false end) 0 cases.
Definition toolstext_label_violations (cases : list ttcase) : list nat :=
  bad_indexes (fun c => match c with
                        | mk_ttlabel n l | mk_ttdoc n l => negb (tt_label_ok n l)
                        | _ => false
                        end) 0 cases.

(** a case is non-trivial when the name holds a byte that has to be escaped
    there (quote, backslash, hash; ampersand or angle bracket in a label) or
    is an id of two digits or more *)
Definition tt_nontrivial_case (c : ttcase) : bool :=
  match c with
  | mk_ttcase n _ _ => has_char dquote n || has_char bslash n || has_char hash n
  | mk_ttnid k _ => (10 <=? k)%Z
  | mk_ttlabel n _ | mk_ttdoc n _ => has_char amp n || has_char langle n || has_char rangle n
  end.
Definition toolstext_nontrivial (cases : list ttcase) : nat := count_true tt_nontrivial_case cases.

(** label texts written by Go that do not end where Dot ends them (the
    bracket-counting part of [tt_label_ok] alone): 0 since the repair D55;
    before it, every name with an angle bracket *)
Definition tt_label_breaks (c : ttcase) : bool :=
  match c with
  | mk_ttlabel _ l | mk_ttdoc _ l =>
      match html_scan 1 (l ++ String rangle EmptyString) with
      | Some EmptyString => false
      | _ => true
      end
  | _ => false
  end.
Definition toolstext_label_breaks (cases : list ttcase) : nat := count_true tt_label_breaks cases.

(** * the oracle and the model *)
Lemma opt_str_eqb_some : forall s, opt_str_eqb (Some s) s = true.
Proof. intros. cbn. apply String.eqb_refl. Qed.

Theorem tt_model_passes : forall name,
  tt_ok (mk_ttcase name (dot_id name) (mermaid_text name)) = true /\
  tt_agrees (mk_ttcase name (dot_id name) (mermaid_text name)) = true.
Proof.
  intros. cbn [tt_ok tt_agrees]. unfold tt_dot_ok, tt_mer_ok.
  rewrite dot_unquote_id, dot_id_quoted_ok, mermaid_untext_text, mermaid_text_no_quote.
  rewrite !opt_str_eqb_some, !String.eqb_refl. split; reflexivity.
Qed.

Theorem tt_model_nid_passes : forall num : nat,
  tt_ok (mk_ttnid (Z.of_nat num) (mermaid_nid num)) = true /\
  tt_agrees (mk_ttnid (Z.of_nat num) (mermaid_nid num)) = true.
Proof.
  intros. cbn [tt_ok tt_agrees]. unfold tt_nid_ok.
  rewrite mermaid_unnid_nid, Nat2Z.id, Nat.eqb_refl, String.eqb_refl.
  split; [|reflexivity]. cbn [andb]. apply Z.leb_le. apply Nat2Z.is_nonneg.
Qed.

Theorem tt_model_label_passes : forall name,
  tt_ok (mk_ttlabel name (dot_label_name name)) = true /\
  tt_agrees (mk_ttlabel name (dot_label_name name)) = true /\
  tt_ok (mk_ttdoc name (dot_html name)) = true /\
  tt_agrees (mk_ttdoc name (dot_html name)) = true.
Proof.
  intros. cbn [tt_ok tt_agrees]. unfold tt_label_ok.
  change (dot_html name) with (dot_label_name name).
  rewrite (dot_label_stays_inside_holds name EmptyString), dot_label_readable_back.
  rewrite opt_str_eqb_some, String.eqb_refl. repeat split.
Qed.

Theorem tt_label_ok_sound : forall name label,
  tt_ok (mk_ttlabel name label) = true ->
  html_scan 1 (label ++ String rangle EmptyString) = Some EmptyString /\ html_unescape label = Some name.
Proof.
  intros name label H. cbn [tt_ok] in H. unfold tt_label_ok in H.
  destruct (html_scan 1 (label ++ String rangle EmptyString)) as [[|]|]; try discriminate.
  split; [reflexivity|]. unfold opt_str_eqb in H.
  destruct (html_unescape label) as [x|]; [|discriminate]. apply String.eqb_eq in H. now subst.
Qed.

(** what the oracle accepts: the text determines the name *)
Theorem tt_ok_sound : forall name dot mer,
  tt_ok (mk_ttcase name dot mer) = true ->
  dot_unquote dot = Some name /\ dot_quoted_ok dot = true /\
  mermaid_untext mer = Some name /\ has_char dquote mer = false.
Proof.
  intros name dot mer H. cbn [tt_ok] in H. unfold tt_dot_ok, tt_mer_ok in H.
  apply andb_true_iff in H as [H1 H2].
  apply andb_true_iff in H1 as [Ha Hb]. apply andb_true_iff in H2 as [Hc Hd].
  unfold opt_str_eqb in Ha, Hc.
  destruct (dot_unquote dot) as [x|]; [|discriminate].
  destruct (mermaid_untext mer) as [y|]; [|discriminate].
  apply String.eqb_eq in Ha. apply String.eqb_eq in Hc. subst.
  apply negb_true_iff in Hd. auto.
Qed.

(** two accepted cases with the same identifier (or the same label text)
    have the same name: the per-case oracle already excludes collisions *)
Theorem tt_ok_no_collision : forall n d m n' d' m',
  tt_ok (mk_ttcase n d m) = true -> tt_ok (mk_ttcase n' d' m') = true ->
  d = d' \/ m = m' -> n = n'.
Proof.
  intros * H H' E.
  apply tt_ok_sound in H as (A & _ & B & _). apply tt_ok_sound in H' as (A' & _ & B' & _).
  destruct E as [E|E]; subst; congruence.
Qed.

Example sb_example : sb [97; 34; 10; 195; 169]%Z =
  String "a" (String dquote (String newline (String "195" (String "169" EmptyString)))).
Proof. reflexivity. Qed.
