(** Correspondence and property oracles for the sio crew host (C14, C15):
    what the generated cases_sio_*.v files evaluate.

    A case is a history of operations on one [sio.Crew] (captain messages,
    ordinary messages, direct SetMachine / DeleteMachine calls) with what
    the harness observed after every step: Result.Emitted, Result.Changed,
    Crew.Machines, the captain's and the timers machine's probes, the store
    of the reference consumer (the real Stdio fold, read back from its state
    file), the machines of a second crew booted from that file, and the
    behaviour of that second crew on the rest of the history.

    [sio_mismatches] replays the history on the model ([r_hstep], the very
    definitions the theorems are about) and compares the projected
    observables.  Go iterates over its maps in random order, so unless the
    history is a chain of single-recipient messages ([sc_det]) batches are
    compared as multisets and the recorders' logs as multisets.

    [c14_violations] / [c15_violations] are the property oracles: they look
    only at what Go returned. *)
From Sheens Require Export Corr.Base Model.SioRecorder Spec.SioSpec.

Inductive go_status : Type := GOk | GHang | GPanic | GErr.

Definition rmach := mach rcfg.
Definition rchg := chg rcfg.
Definition rentry := entry rcfg.

Record sstep : Type := mk_sstep {
  ss_op : hop rcfg;
  ss_emitted : list (list json);          (* Result.Emitted *)
  ss_changed : list (mid * rchg);         (* Result.Changed, ordinary ids, sorted *)
  ss_timers : bool;                       (* the number of pending timers of the timers machine changed *)
  ss_live : list (mid * rmach);           (* Crew.Machines after the step, ordinary ids, sorted *)
  ss_wedged : bool;                       (* the captain's bindings hold a message *)
  ss_store : list (mid * rentry);         (* the consumer's state file after the step *)
  ss_booted : bool;                       (* a second crew was booted from the state file here *)
  ss_boot : list (mid * rmach);           (* its Machines right after the boot *)
  ss_twin_emitted : list (list (list json));   (* its Result.Emitted for every later message step *)
  ss_twin_live : list (mid * rmach)       (* its Machines after the last step *)
}.

Record sio_case : Type := mk_sio_case {
  sc_timers_id : string;
  sc_captain_id : string;
  sc_det : bool;
  sc_status : go_status;
  sc_steps : list sstep
}.

Definition opt_eqb {A : Type} (eqb : A -> A -> bool) (a b : option A) : bool :=
  match a, b with
  | Some x, Some y => eqb x y
  | None, None => true
  | _, _ => false
  end.
Fixpoint list_eqb {A : Type} (eqb : A -> A -> bool) (a b : list A) : bool :=
  match a, b with
  | [], [] => true
  | x :: a', y :: b' => eqb x y && list_eqb eqb a' b'
  | _, _ => false
  end.
Definition alist_eqb {A : Type} (eqb : A -> A -> bool) (a b : list (mid * A)) : bool :=
  list_eqb (fun x y => String.eqb (fst x) (fst y) && eqb (snd x) (snd y)) a b.

(** states: exactly, or up to the order of the recorder's log *)
Definition ms_agree (det : bool) (a b : mstate) : bool :=
  String.eqb (ms_node a) (ms_node b) &&
  (if det then bindings_eqb (ms_bs a) (ms_bs b)
   else bindings_eqb (bremove "log" (ms_bs a)) (bremove "log" (ms_bs b))
        && Bool.eqb (is_some (lookup "log" (ms_bs a))) (is_some (lookup "log" (ms_bs b)))
        && perm_eqb json_eqb (log_of (ms_bs a)) (log_of (ms_bs b))).
Definition mach_agree (det : bool) (a b : rmach) : bool :=
  opt_eqb rcfg_eqb (m_src _ a) (m_src _ b) && ms_agree det (m_state _ a) (m_state _ b).
Definition chg_agree (det : bool) (a b : rchg) : bool :=
  Bool.eqb (c_deleted _ a) (c_deleted _ b)
  && opt_eqb (ms_agree det) (c_state _ a) (c_state _ b)
  && opt_eqb rcfg_eqb (c_src _ a) (c_src _ b).
Definition entry_agree (det : bool) (a b : rentry) : bool :=
  opt_eqb (ms_agree det) (e_state _ a) (e_state _ b) && opt_eqb rcfg_eqb (e_src _ a) (e_src _ b).
Definition batch_eqb : list json -> list json -> bool := list_eqb json_eqb.
Definition emitted_agree (det : bool) (a b : list (list json)) : bool :=
  if det then list_eqb batch_eqb a b else perm_eqb batch_eqb a b.

(** ---------- model against implementation ---------- *)
Definition sio_fuel : nat := 3000.

(** Each check compares only the observables of its own property:
    - C14: Emitted, the two service-machine probes, and - in steps during
      which no processed message names the captain, i.e. no crew operation
      runs - the machines with their states (the recorders' logs);
    - C15: the reports (which machines, deleted, specification source,
      bindings other than the recorder's log), and machines, consumer's
      store and booted crew projected the same way (node and log are what
      routing decides; the oracle compares them exactly, Go against Go).
    After every message step (C14: after every step; the change cache, which
    a direct call leaves non-empty, is of no concern to routing) the model is
    re-synchronised with what Go showed (machines, captain, store;
    [previous] = the last report Go made per machine), so that a divergence
    is counted where it arises and a defect outside the property's
    projection is not carried along. *)
Inductive proj : Type := P14 | P15.

Definition ms_agree15 (a b : mstate) : bool :=
  bindings_eqb (bremove "log" (ms_bs a)) (bremove "log" (ms_bs b)).
Definition mach_agree15 (a b : rmach) : bool :=
  opt_eqb rcfg_eqb (m_src _ a) (m_src _ b) && ms_agree15 (m_state _ a) (m_state _ b).
Definition chg_agree15 (a b : rchg) : bool :=
  Bool.eqb (c_deleted _ a) (c_deleted _ b)
  && opt_eqb ms_agree15 (c_state _ a) (c_state _ b)
  && opt_eqb rcfg_eqb (c_src _ a) (c_src _ b).
Definition entry_agree15 (a b : rentry) : bool :=
  opt_eqb ms_agree15 (e_state _ a) (e_state _ b) && opt_eqb rcfg_eqb (e_src _ a) (e_src _ b).

Definition step_static (s : sstep) : bool :=
  match ss_op s with
  | OpMsg msg => negb (existsb names_captain (msg :: List.concat (ss_emitted s)))
  | _ => false
  end.

Definition step_agrees (p : proj) (det : bool) (c : rcrew) (store : list (mid * rentry))
           (r : option (result rcfg)) (s : sstep) : bool :=
  match p with
  | P14 =>
      match r with
      | Some res => emitted_agree det (res_emitted _ res) (ss_emitted s)
                    && Bool.eqb (res_timers _ res) (ss_timers s)
                    && Bool.eqb (wedged _ c) (ss_wedged s)
                    && (if step_static s then alist_eqb (mach_agree det) (machines _ c) (ss_live s) else true)
      | None => true
      end
  | P15 =>
      match r with
      | Some res => alist_eqb chg_agree15 (res_changed _ res) (ss_changed s)
      | None => match ss_changed s with [] => true | _ => false end
      end
      && alist_eqb mach_agree15 (machines _ c) (ss_live s)
      && alist_eqb entry_agree15 store (ss_store s)
      && (if ss_booted s then alist_eqb mach_agree15 (machines _ (r_boot store)) (ss_boot s) else true)
  end.

Definition is_msg_step (s : sstep) : bool := match ss_op s with OpMsg _ => true | _ => false end.

Definition next_previous (prev : list (mid * rchg)) (s : sstep) : list (mid * rchg) :=
  fold_left (fun p mr => if c_deleted _ (snd mr) then adel (fst mr) p else aset (fst mr) (snd mr) p)
            (ss_changed s) prev.

Fixpoint model_steps (p : proj) (det : bool) (cs : rcrew * list (mid * rentry))
         (prev : list (mid * rchg)) (steps : list sstep) : bool :=
  match steps with
  | [] => true
  | s :: rest =>
      match r_hstep sio_fuel cs (ss_op s) with
      | Done (c1, st1, r) =>
          step_agrees p det c1 st1 r s
          && (if is_msg_step s || match p with P14 => true | P15 => false end
              then let prev' := next_previous prev s in
                   model_steps p det (mk_crew (ss_live s) (ss_wedged s) [] prev' false, ss_store s) prev' rest
              else model_steps p det (c1, st1) prev rest)
      | _ => false
      end
  end.

Definition case_ok_status (c : sio_case) : bool :=
  match sc_status c with GOk => true | _ => false end.

Definition sio_agrees (p : proj) (c : sio_case) : bool :=
  case_ok_status c
  && String.eqb (sc_timers_id c) timers_id && String.eqb (sc_captain_id c) captain_id
  && model_steps p (sc_det c) (init_crew rcfg, []) [] (sc_steps c).

Definition c14_mismatches (cases : list sio_case) : list nat :=
  bad_indexes (fun c => negb (sio_agrees P14 c)) 0 cases.
Definition c15_mismatches (cases : list sio_case) : list nat :=
  bad_indexes (fun c => negb (sio_agrees P15 c)) 0 cases.

(** the whole history on the model without re-synchronisation, every
    observable compared (states up to the order of the log unless the
    history is a chain): used by the thorough tier of both checks *)
Definition full_step_agrees (det : bool) (c : rcrew) (store : list (mid * rentry))
           (r : option (result rcfg)) (s : sstep) : bool :=
  match r with
  | Some res => emitted_agree det (res_emitted _ res) (ss_emitted s)
                && alist_eqb (chg_agree det) (res_changed _ res) (ss_changed s)
                && Bool.eqb (res_timers _ res) (ss_timers s)
  | None => match ss_emitted s, ss_changed s with [], [] => negb (ss_timers s) | _, _ => false end
  end
  && alist_eqb (mach_agree det) (machines _ c) (ss_live s)
  && Bool.eqb (wedged _ c) (ss_wedged s)
  && alist_eqb (entry_agree det) store (ss_store s)
  && (if ss_booted s then alist_eqb (mach_agree det) (machines _ (r_boot store)) (ss_boot s) else true).

Fixpoint full_model_steps (det : bool) (cs : rcrew * list (mid * rentry)) (steps : list sstep) : bool :=
  match steps with
  | [] => true
  | s :: rest =>
      match r_hstep sio_fuel cs (ss_op s) with
      | Done (c1, st1, r) => full_step_agrees det c1 st1 r s && full_model_steps det (c1, st1) rest
      | _ => false
      end
  end.

Definition sio_mismatches (cases : list sio_case) : list nat :=
  bad_indexes (fun c => negb (case_ok_status c
                               && String.eqb (sc_timers_id c) timers_id && String.eqb (sc_captain_id c) captain_id
                               && full_model_steps (sc_det c) (init_crew rcfg, []) (sc_steps c))) 0 cases.

(** ---------- C14: the oracle on what Go returned ---------- *)
Definition go_can_see (live : list (mid * rmach)) (m : mid) : bool :=
  is_service m || match aget m live with Some mc => is_some (m_src _ mc) | None => false end.

(** the batches the recorders owe for one processed message *)
Definition expected_batches (live : list (mid * rmach)) (ids : mid -> bool) (o : json) : list (list json) :=
  flat_map (fun me => match m_src _ (snd me) with
                      | Some cfg => if addressed ids o (fst me)
                                    then let b := rec_emissions cfg (fst me) o in
                                         if nonempty b then [b] else []
                                    else []
                      | None => []
                      end) live.

(** Result.Emitted is, message by message in processing order, the batches
    owed for that message (in any order among themselves), and nothing else *)
Fixpoint check_batches (live : list (mid * rmach)) (ids : mid -> bool) (order : list json)
         (bs : list (list json)) : bool :=
  match order with
  | [] => match bs with [] => true | _ => false end
  | o :: rest =>
      let exp := expected_batches live ids o in
      let n := List.length exp in
      perm_eqb batch_eqb exp (firstn n bs) && check_batches live ids rest (skipn n bs)
  end.

Definition logs_mode (cfg : rcfg) : bool :=
  match rc_mode cfg with RFwd | RRev | RMute => true | _ => false end.

(** one message step during which no processed message names the captain:
    the crew is the same before and after except for what the walks did *)
Definition c14_step_ok (before : list (mid * rmach)) (wedged_before : bool) (msg : json) (s : sstep) : bool :=
  let order := msg :: List.concat (ss_emitted s) in
  if existsb (names_captain) order then true else
  let ids := go_can_see before in
  (* same machines, same specifications *)
  list_eqb (fun a b => String.eqb (fst a) (fst b) && opt_eqb rcfg_eqb (m_src _ (snd a)) (m_src _ (snd b)))
           before (ss_live s)
  (* every recorder saw exactly the processed messages addressed to it, once each, in processing order *)
  && forallb (fun me =>
                match aget (fst me) (ss_live s) with
                | None => false
                | Some after =>
                    match m_src _ (snd me) with
                    | Some cfg =>
                        if logs_mode cfg then
                          list_eqb json_eqb (log_of (ms_bs (m_state _ after)))
                                   (log_of (ms_bs (m_state _ (snd me)))
                                    ++ map digest (filter (fun o => addressed ids o (fst me)) order))
                        else ms_agree true (m_state _ (snd me)) (m_state _ after)
                    | None => ms_agree true (m_state _ (snd me)) (m_state _ after)
                    end
                end) before
  (* the service machines saw only what names them *)
  && Bool.eqb (ss_wedged s) wedged_before
  && Bool.eqb (ss_timers s) (existsb (fun o => addressed ids o timers_id && tm_shape o) order)
  (* every emission reported once, grouped per processed message, breadth first *)
  && check_batches before ids order (ss_emitted s).

Fixpoint c14_steps_ok (before : list (mid * rmach)) (wedged_before : bool) (steps : list sstep) : bool :=
  match steps with
  | [] => true
  | s :: rest =>
      match ss_op s with
      | OpMsg msg => c14_step_ok before wedged_before msg s
      | _ => true
      end && c14_steps_ok (ss_live s) (ss_wedged s) rest
  end.

Definition c14_ok (c : sio_case) : bool :=
  case_ok_status c && c14_steps_ok [] false (sc_steps c).
Definition c14_violations (cases : list sio_case) : list nat :=
  bad_indexes (fun c => negb (c14_ok c)) 0 cases.

(** ---------- C15: the oracle on what Go returned ---------- *)
Definition mach_view (mc : rmach) : option rcfg * mstate := (m_src _ mc, m_state _ mc).
(** what a store entry says about its machine: the stored source stands for the specification it
    resolves to - a source that is only a name ([RNamed]) resolves to nothing, the machine has no
    specification (Spec/SioSpec.v [view_of_entry]) *)
Definition entry_view (e : rentry) : option rcfg * mstate :=
  (resolved _ rresolves (e_src _ e), match e_state _ e with Some s => s | None => default_state end).
Definition view_agree (det : bool) (a b : option rcfg * mstate) : bool :=
  opt_eqb rcfg_eqb (fst a) (fst b) && ms_agree det (snd a) (snd b).

(** the second crew's Emitted against the original's, step by step *)
Fixpoint twin_emitted_ok (det : bool) (later : list sstep) (tw : list (list (list json))) : bool :=
  match later with
  | [] => match tw with [] => true | _ => false end
  | s :: rest =>
      if is_msg_step s then
        match tw with
        | e :: tw' => emitted_agree det (ss_emitted s) e && twin_emitted_ok det rest tw'
        | [] => false
        end
      else twin_emitted_ok det rest tw
  end.

Definition final_live (here : sstep) (later : list sstep) : list (mid * rmach) :=
  ss_live (last later here).

Fixpoint c15_steps_ok (det : bool) (steps : list sstep) : bool :=
  match steps with
  | [] => true
  | s :: rest =>
      (if is_msg_step s then
         (* the store that applied every report equals the live crew *)
         alist_eqb (view_agree true) (map (fun me => (fst me, entry_view (snd me))) (ss_store s))
                   (map (fun me => (fst me, mach_view (snd me))) (ss_live s))
       else true)
      (* a machine's source is one that resolved: a source that resolves to nothing is not the machine's *)
      && forallb (fun me => match m_src _ (snd me) with Some cfg => rresolves cfg | None => true end) (ss_live s)
      && (if ss_booted s then
            (* a crew rebuilt from the store is the live crew ... *)
            alist_eqb (mach_agree true) (ss_boot s) (ss_live s)
            (* ... and behaves like it from then on (a captain that holds a message that
               was no operation is outside the property's histories: it is inert, and
               its state is not part of what a crew reports) *)
            && (ss_wedged s
                || twin_emitted_ok det rest (ss_twin_emitted s)
                   && alist_eqb (mach_agree det) (ss_twin_live s) (final_live s rest))
          else true)
      && c15_steps_ok det rest
  end.

Definition c15_ok (c : sio_case) : bool :=
  case_ok_status c && c15_steps_ok (sc_det c) (sc_steps c).
Definition c15_violations (cases : list sio_case) : list nat :=
  bad_indexes (fun c => negb (c15_ok c)) 0 cases.

(** evidence counters (decided on the Go observations) *)
Definition c14_nontrivial (cases : list sio_case) : nat :=
  count_true (fun c => existsb (fun s => is_msg_step s && nonempty (ss_emitted s)) (sc_steps c)) cases.
Definition c15_nontrivial (cases : list sio_case) : nat :=
  count_true (fun c => existsb (fun s => ss_booted s) (sc_steps c)
                       && existsb (fun s => existsb (fun mr => c_deleted _ (snd mr)) (ss_changed s)) (sc_steps c)) cases.

(** short constructors for the generated cases files *)
Definition rc (label : string) (mode : rmode) : rcfg := mk_rcfg label mode.
Definition gs (node : string) (bs : bindings) : mstate := mk_ms node bs.
Definition gm (src : option rcfg) (st : mstate) : rmach := mk_mach src st.
Definition gc (deleted : bool) (st : option mstate) (src : option rcfg) : rchg := mk_chg deleted st src.
Definition ge (st : option mstate) (src : option rcfg) : rentry := mk_entry st src.
Definition om (msg : json) : hop rcfg := OpMsg msg.
Definition os (m : mid) (src : option rcfg) (st : option mstate) : hop rcfg := OpSet m src st.
Definition od (m : mid) : hop rcfg := OpDel m.

(** evidence only (never part of a verdict): the number of cases on which the
    whole-history comparison of every observable disagrees *)
Definition sio_full_mismatch_count (cases : list sio_case) : nat := List.length (sio_mismatches cases).
