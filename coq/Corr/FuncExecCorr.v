(** Correspondence and oracle for FuncAction.Exec called directly (component
    "funcexec"; C18, C08). *)
From Sheens Require Export Corr.StepCorr.

Inductive go_fexec : Type :=
| FRet (ob : option bindings) (em : list json) (err : bool)
| FPanic
| FUnrep.

Record fcase : Type := mk_fcase {
  fc_act : act;
  fc_bs : option bindings;
  fc_go : go_fexec;
  fc_intact : bool        (* the bindings given to Exec are unchanged *)
}.

Definition fexec_agrees (c : fcase) : bool :=
  let '((ob, em), err) := func_exec act run_act (fc_act c) (fc_bs c) in
  match fc_go c with
  | FRet gob gem gerr =>
      opt_eqb bindings_eqb ob gob && list_eqb json_eqb em gem && Bool.eqb err gerr
  | FUnrep => true
  | FPanic => false
  end.
Definition fexec_mismatches (cases : list fcase) : list nat :=
  bad_indexes (fun c => negb (fexec_agrees c)) 0 cases.

(** C18 on what Exec returned: whenever it returns bindings (with or without
    an error), every permanent binding given to it is there with its value *)
Definition fexec_c18_violations (cases : list fcase) : list nat :=
  bad_indexes (fun c => match fc_go c with
                        | FRet (Some out) _ _ =>
                            negb (forallb (fun kv : string * json =>
                                             negb (is_permanent (fst kv)) ||
                                             opt_eqb json_eqb (lookup (fst kv) out) (Some (snd kv)))
                                          (copy_bs (fc_bs c)))
                        | FRet None _ _ => false
                        | FPanic => true
                        | FUnrep => false
                        end) 0 cases.
Definition fexec_c18_nontrivial (cases : list fcase) : nat :=
  count_true (fun c => existsb (fun kv : string * json => is_permanent (fst kv)) (copy_bs (fc_bs c))
                       && match fc_go c with FRet (Some _) _ _ => true | _ => false end) cases.

(** C08 on what Exec returned for a script: an error comes with no emission *)
Definition fexec_c08_violations (cases : list fcase) : list nat :=
  bad_indexes (fun c => match fc_act c, fc_go c with
                        | Js _, FRet _ (_ :: _) true => true
                        | _, FPanic => true
                        | _, _ => false
                        end) 0 cases.
