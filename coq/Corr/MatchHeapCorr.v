(** What the heap-level matcher (Model/MatchHeap.v) predicts for the identity
    probes of the Go harness (C03): the harness compares the identities of
    the maps [match.Match] returns with each other and with the caller's
    map, and snapshots the caller's map; [heap_alias_report] computes the
    same two observations on the heap model.  Only evaluation lives here;
    that the report is [(true, true)] for every input is
    [heap_alias_report_true] in Proofs/MatchHeapProofs.v. *)
From Sheens Require Export Model.MatchHeap Corr.MatchCorr.

Fixpoint nodupb (l : list addr) : bool :=
  match l with
  | [] => true
  | x :: r => negb (existsb (Nat.eqb x) r) && nodupb r
  end.

Definition is_write_to (a : addr) (e : event) : bool :=
  match e with EvWrite x _ => Nat.eqb x a | _ => false end.

Definition returns_addr (x : addr) (e : event) : bool :=
  match e with EvReturn l => existsb (Nat.eqb x) l | _ => false end.

(** on a log kept newest first: no write to a map after a return of it *)
Fixpoint no_late_b (L : list event) : bool :=
  match L with
  | [] => true
  | EvWrite x _ :: r => negb (existsb (returns_addr x) r) && no_late_b r
  | _ :: r => no_late_b r
  end.

(** (the returned maps are pairwise distinct and none is the caller's map,
     the caller's map has its contents and was never written) *)
Definition heap_alias_report (p f : json) (bs : bindings) : bool * bool :=
  let o := HMatch p f bs in
  let out := res_addrs (fst o) in
  (nodupb out && negb (existsb (Nat.eqb caller_addr) out),
   bindings_eqb (hread (snd o) caller_addr) bs
   && negb (existsb (is_write_to caller_addr) (st_log (snd o)))).

(** the identities themselves: equal numbers = the same Go map; 0 = the caller's *)
Definition heap_identities (p f : json) (bs : bindings) : list addr :=
  res_addrs (fst (HMatch p f bs)).

Definition heap_late_write_free (p f : json) (bs : bindings) : bool :=
  no_late_b (st_log (snd (HMatch p f bs))).

(** how many maps the call allocated (Bindings.Copy calls) and how many
    in-place writes it made: comparable with an instrumented run *)
Definition heap_copies (p f : json) (bs : bindings) : nat :=
  count_true (fun e => match e with EvCopy _ _ => true | _ => false end)
             (st_log (snd (HMatch p f bs))).
Definition heap_writes (p f : json) (bs : bindings) : nat :=
  count_true (fun e => match e with EvWrite _ _ => true | _ => false end)
             (st_log (snd (HMatch p f bs))).

Fixpoint bss_eqb (x y : list bindings) : bool :=
  match x, y with
  | [], [] => true
  | a :: r, b :: t => bindings_eqb a b && bss_eqb r t
  | _, _ => false
  end.

Definition res_bs_eqb (a b : res (list bindings)) : bool :=
  match a, b with
  | Ok x, Ok y => bss_eqb x y
  | Err, Err => true
  | Fuel, Fuel => true
  | _, _ => false
  end.

(** the heap model read back against the pure model *)
Definition heap_erases (p f : json) (bs : bindings) : bool :=
  res_bs_eqb (read_res (HMatch p f bs)) (Match p f bs).

(** * Against the observations recorded for a generated case

    [mc_independent]: the Go results are distinct maps (and distinct from
    the given one); [mc_intact]: deep snapshots of the arguments unchanged.
    The model's prediction and the observation must coincide whenever Go
    returned normally. *)
Definition heap_alias_agrees (c : mcase) : bool :=
  match mc_go c with
  | GoOk _ =>
      let '(distinct, intact) := heap_alias_report (mc_p c) (mc_f c) (mc_bs c) in
      Bool.eqb distinct (mc_independent c) && Bool.eqb intact (mc_intact c)
  | _ => true
  end.

Definition heap_alias_mismatches (cases : list mcase) : list nat :=
  bad_indexes (fun c => negb (heap_alias_agrees c)) 0 cases.

(** number of cases in which the question is not trivial: at least two maps returned *)
Definition heap_alias_nontrivial (cases : list mcase) : nat :=
  count_true (fun c => match heap_identities (mc_p c) (mc_f c) (mc_bs c) with
                       | _ :: _ :: _ => true
                       | _ => false
                       end) cases.
