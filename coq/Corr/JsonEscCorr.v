(** Correspondence and oracle for the escape-aware JSON text model
    (Model/JsonTextEsc.v): what the generated cases_jsonesc_*.v files
    evaluate.  The cases have the format of the component jsontext
    ([jtcase] of Corr/CompileCorr.v): a text handed to json.Unmarshal with
    what came back, a value handed to json.Marshal with the text that came
    back, and whether Go's decoder gave the value back from that text.

    [jsonesc_mismatches]: Go's encoder wrote a text other than [print_esc],
    or Go's decoder returned something other than [parse_esc] (an error on
    Go's side is [None]).  The harness hands over no text that Go accepts
    and that lies outside the fragment (a [\u] escape of 0x80 and above, bytes
    that are not UTF-8, U+2028 / U+2029).
    [jsonesc_violations]: Unmarshal (Marshal v) is not v. *)
From Sheens Require Export Corr.CompileCorr Model.JsonTextEsc.

(** * Strings with arbitrary bytes in the generated files: printable runs
    are literals, the other bytes are given by their codes *)
Definition zs (l : list Z) : string :=
  string_of_list_ascii (map (fun z => ascii_of_N (Z.to_N z)) l).
Definition sc (l : list string) : string := String.concat EmptyString l.

Definition je_dec_agrees (c : jtcase) : bool :=
  opt_eqb json_eqb (option_map canonicalize (parse_esc (jt_text c))) (jt_go c).
Definition je_enc_agrees (c : jtcase) : bool :=
  String.eqb (print_esc (canonicalize (jt_val c))) (jt_go_text c).
Definition je_agrees (c : jtcase) : bool := je_dec_agrees c && je_enc_agrees c.

Definition jsonesc_mismatches (cases : list jtcase) : list nat :=
  bad_indexes (fun c => negb (je_agrees c)) 0 cases.
Definition jsonesc_dec_mismatches (cases : list jtcase) : list nat :=
  bad_indexes (fun c => negb (je_dec_agrees c)) 0 cases.
Definition jsonesc_enc_mismatches (cases : list jtcase) : list nat :=
  bad_indexes (fun c => negb (je_enc_agrees c)) 0 cases.

(** the property: a text written by the encoder denotes the value *)
Definition jsonesc_violations (cases : list jtcase) : list nat :=
  bad_indexes (fun c => negb (jt_go_back c)) 0 cases.

(** non-trivial: an escape was decoded (the text has a backslash and Go
    accepted it) or encoded (the text Go wrote has a backslash) *)
Definition has_backslash (s : string) : bool :=
  existsb (fun c => Ascii.eqb c "\"%char) (list_ascii_of_string s).
Definition jsonesc_nontrivial (cases : list jtcase) : nat :=
  count_true (fun c => (has_backslash (jt_text c) && match jt_go c with Some _ => true | None => false end)
                       || has_backslash (jt_go_text c)) cases.
(** what the model without escapes would have got wrong or refused *)
Definition jsonesc_beyond_plain (cases : list jtcase) : nat :=
  count_true (fun c => negb (jt_agrees c)) cases.
