(** Abbreviations used by the generated cases files, and list helpers for
    the comparison functions. *)
From Sheens Require Export Model.Match.

Definition jnull := JNull.
Definition jt := JBool true.
Definition jf := JBool false.
Definition jn (z : Z) := JNum z.
Definition js (s : string) := JStr s.
Definition ja (l : list json) := JArr l.
Definition jo (kvs : list (string * json)) := JObj kvs.

(** indexes (from 0) of the elements satisfying [bad] *)
Fixpoint bad_indexes {A : Type} (bad : A -> bool) (i : nat) (l : list A) : list nat :=
  match l with
  | [] => []
  | x :: r => if bad x then i :: bad_indexes bad (S i) r else bad_indexes bad (S i) r
  end.

Fixpoint remove_first {A : Type} (eqb : A -> A -> bool) (x : A) (l : list A) : option (list A) :=
  match l with
  | [] => None
  | y :: r => if eqb x y then Some r
              else match remove_first eqb x r with Some r' => Some (y :: r') | None => None end
  end.

(** multiset equality *)
Fixpoint perm_eqb {A : Type} (eqb : A -> A -> bool) (a b : list A) : bool :=
  match a with
  | [] => match b with [] => true | _ => false end
  | x :: r => match remove_first eqb x b with Some b' => perm_eqb eqb r b' | None => false end
  end.

Definition count_true {A : Type} (f : A -> bool) (l : list A) : nat :=
  List.length (filter f l).
