(** Correspondence and property oracle for C10 (component jsiso): what the
    generated cases_jsiso_*.v files evaluate.

    A case: polluting scripts, a probe script, the caller's bindings and
    props, and what the Go code did with them - the probe alone (fresh copies
    of the caller's data), then either the sequence polluters ; probe over the
    *same* caller objects, or polluters || probe on 16 goroutines (each
    execution on its own copies).  After every execution the caller's
    bindings and props were snapshotted. *)
From Sheens Require Export Corr.Base Model.JsRuntime.

Inductive gres : Type :=
| GRes (r : jres)
| GUnrep.            (* a panic, or a result that is not plain JSON data *)

Record obs : Type := mk_obs {
  ob_res : gres;
  ob_bs : option bindings;       (* the caller's bindings after the execution *)
  ob_props : option bindings     (* the caller's props after the execution *)
}.

Record iso_case : Type := mk_iso_case {
  ic_par : bool;
  ic_polluters : list jscript;
  ic_probe : jscript;
  ic_bs : option bindings;
  ic_props : option bindings;
  ic_go_alone : gres;
  ic_go_pol : list obs;          (* one per polluter *)
  ic_go_probe : list obs;        (* seq: one; par: one per probing goroutine *)
  ic_stable : bool               (* par: all repetitions / goroutines of one script observed the same *)
}.

Fixpoint list_eqb {A : Type} (eqb : A -> A -> bool) (a b : list A) : bool :=
  match a, b with
  | [], [] => true
  | x :: r, y :: s => eqb x y && list_eqb eqb r s
  | _, _ => false
  end.
Definition opt_eqb {A : Type} (eqb : A -> A -> bool) (a b : option A) : bool :=
  match a, b with
  | None, None => true
  | Some x, Some y => eqb x y
  | _, _ => false
  end.
Definition jres_eqb (a b : jres) : bool :=
  match a, b with
  | RFail, RFail => true
  | ROk x ex, ROk y ey => opt_eqb bindings_eqb x y && list_eqb json_eqb ex ey
  | _, _ => false
  end.
Definition gres_eqb (a b : gres) : bool :=
  match a, b with
  | GRes x, GRes y => jres_eqb x y
  | _, _ => false        (* an unrepresentable result equals nothing *)
  end.
Definition obs_eqb (a b : obs) : bool :=
  gres_eqb (ob_res a) (ob_res b) && opt_eqb bindings_eqb (ob_bs a) (ob_bs b)
  && opt_eqb bindings_eqb (ob_props a) (ob_props b).

Definition case_caller (c : iso_case) : caller := mk_caller (ic_bs c) (ic_props c).

Definition model_obs (rc : jres * caller) : obs :=
  mk_obs (GRes (fst rc)) (c_bs (snd rc)) (c_props (snd rc)).

(** the model's prediction of everything the harness observed *)
Definition model_alone (c : iso_case) : gres :=
  GRes (fst (snd (exec faithful None (ic_probe c) (case_caller c)))).

Definition model_seq (c : iso_case) : list obs :=
  map model_obs (fst (run_seq faithful None (case_caller c) (ic_polluters c ++ [ic_probe c]))).

Definition model_par_pol (c : iso_case) : list obs :=
  map (fun s => model_obs (snd (exec faithful None s (case_caller c)))) (ic_polluters c).
Definition model_par_probe (c : iso_case) : obs :=
  model_obs (snd (exec faithful None (ic_probe c) (case_caller c))).

Definition iso_agrees (c : iso_case) : bool :=
  gres_eqb (model_alone c) (ic_go_alone c) &&
  if ic_par c then
    list_eqb obs_eqb (model_par_pol c) (ic_go_pol c)
    && forallb (obs_eqb (model_par_probe c)) (ic_go_probe c)
    && negb (match ic_go_probe c with [] => true | _ => false end)
  else
    list_eqb obs_eqb (model_seq c) (ic_go_pol c ++ ic_go_probe c).

Definition iso_mismatches (cases : list iso_case) : list nat :=
  bad_indexes (fun c => negb (iso_agrees c)) 0 cases.

(** the property, on what Go did (no model involved): the caller's bindings
    and props are as before after every execution; the probe after / beside
    the polluters returns what it returned alone *)
Definition caller_intact (c : iso_case) (o : obs) : bool :=
  opt_eqb bindings_eqb (ob_bs o) (ic_bs c) && opt_eqb bindings_eqb (ob_props o) (ic_props c).
Definition bs_intact (c : iso_case) (o : obs) : bool := opt_eqb bindings_eqb (ob_bs o) (ic_bs c).

Definition c10_ok (c : iso_case) : bool :=
  forallb (caller_intact c) (ic_go_pol c ++ ic_go_probe c)
  && forallb (fun o => gres_eqb (ob_res o) (ic_go_alone c)) (ic_go_probe c)
  && ic_stable c
  && negb (match ic_go_probe c with [] => true | _ => false end).

Definition c10_violations (cases : list iso_case) : list nat :=
  bad_indexes (fun c => negb (c10_ok c)) 0 cases.

(** C06 at the interpreter boundary: after every execution (also one that fails, also one given bindings that JSON
    cannot write) the caller's bindings are what they were *)
Definition c06_js_ok (c : iso_case) : bool :=
  forallb (bs_intact c) (ic_go_pol c ++ ic_go_probe c) && ic_stable c.
Definition c06_js_violations (cases : list iso_case) : list nat :=
  bad_indexes (fun c => negb (c06_js_ok c)) 0 cases.

(** known finding D22, exactly: the property fails, some script of the case
    assigns or deletes below a member of props, the caller's bindings are
    intact everywhere, and everything Go did is what the model - whose only
    channel to the caller is that nested write (C10_caller_intact_partial,
    C10_bindings_intact, C10_props_intact_toplevel) - predicts *)
Definition d22_shape (c : iso_case) : bool :=
  negb (c10_ok c)
  && iso_agrees c
  && existsb nested_props_write (ic_probe c :: ic_polluters c)
  && forallb (bs_intact c) (ic_go_pol c ++ ic_go_probe c)
  && ic_stable c.
Definition K_props_nested_write (cases : list iso_case) : list nat :=
  bad_indexes d22_shape 0 cases.

Definition polluting_op (op : jop) : bool :=
  match op with
  | OAssign _ _ | ODelete _ | OSetGlobal _ _ | OPatchProto _ _ _ => true
  | _ => false
  end.
Definition reading_op (op : jop) : bool :=
  match op with
  | ORead _ _ | OReadGlobal _ _ | OReadProto _ _ _ | OReadEnv _ _ => true
  | _ => false
  end.
Definition c10_nontrivial (cases : list iso_case) : nat :=
  count_true (fun c => existsb (fun s => existsb polluting_op (scr_ops s)) (ic_polluters c)
                       && existsb reading_op (scr_ops (ic_probe c))) cases.
