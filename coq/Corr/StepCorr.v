(** Correspondence and property oracles for Spec.Step / Spec.Walk
    (C04-C08, C18): what the generated cases_step_*.v / cases_walk_*.v files
    evaluate.  Each property compares only the observables it is about. *)
From Sheens Require Export Corr.Base Spec.Contain Model.Action Spec.WalkSpec Spec.GuardLog Spec.SilentSpec.

Inductive go_err : Type :=
| GNone | GNotCompiled | GUnknownNode | GUncompiled | GBadBranching | GTooMany | GOther.

Inductive go_step : Type :=
| GStep (sd : option stride) (e : go_err)
| GStepPanic
| GStepHang
| GStepUnrep.     (* a state or message that is not plain JSON data *)

(** one call of a guard as the implementation made it (harness/guardlog.go):
    the branch's index in the current node's list, the candidate it was given,
    what it said *)
Inductive gverdict : Type := GVAccept (b : bindings) | GVReject | GVFail.
Record gcall : Type := mk_gcall { gl_idx : nat; gl_cand : option bindings; gl_v : gverdict }.

Record scase : Type := mk_scase {
  sc_spec : aspec;
  sc_st : state;
  sc_pending : option json;
  sc_go : go_step;
  sc_intact : bool;      (* deep snapshots of every argument unchanged (two runs) *)
  sc_shared : bool;      (* a returned state shares its bindings map with the input *)
  sc_repeat : bool;      (* two identical calls gave equal results *)
  sc_glog : option (list gcall)   (* the guard calls of the first run, in order; None = not recorded *)
}.

Definition err_class (e : option step_err) : go_err :=
  match e with
  | None => GNone
  | Some ENotCompiled => GNotCompiled
  | Some EUnknownNode => GUnknownNode
  | Some EUncompiledAction => GUncompiled
  | Some EBadBranching => GBadBranching
  | Some ETooMany => GTooMany
  | Some _ => GOther
  end.
Definition go_err_eqb (a b : go_err) : bool :=
  match a, b with
  | GNone, GNone | GNotCompiled, GNotCompiled | GUnknownNode, GUnknownNode
  | GUncompiled, GUncompiled | GBadBranching, GBadBranching | GTooMany, GTooMany
  | GOther, GOther => true
  | _, _ => false
  end.

Definition model_step (c : scase) : step_out := astep (sc_spec c) (sc_st c) (sc_pending c).

(** full correspondence for one step (used by C04's thorough tier and as the
    base of the projections); a step whose guard saw several candidates is
    not compared (the choice is documented as arbitrary) *)
Definition step_agrees (proj : stride -> stride -> bool) (c : scase) : bool :=
  let o := model_step c in
  if so_ambiguous o then true else
  match sc_go c with
  | GStep sd e => opt_eqb proj (so_stride o) sd && go_err_eqb (err_class (so_err o)) e
  | _ => false
  end.

Definition step_mismatches (cases : list scase) : list nat :=
  bad_indexes (fun c => negb (step_agrees stride_eqb c)) 0 cases.

(** The guard protocol of Branch.try, checked on the calls the implementation
    made - also for the steps whose chosen candidate depends on the order in
    which the matcher listed the candidates (those the comparison above
    skips).  Branches are visited in order; only the last call may accept or
    fail (the loop stops there, and so does the step's search); every call
    says what the model's guard says about that candidate ([guard_on]:
    FuncAction.Exec around the rendered program); an accepting last call
    decides the step: To = (the branch's target for those bindings, those
    bindings) and no error; a failing last call makes the step fail. *)
Definition says_of (v : gverdict) : guard_says :=
  match v with GVAccept b => GAccept b | GVReject => GReject | GVFail => GFail end.

Definition node_branches (c : scase) : list (branch act) :=
  match find_node (st_node (sc_st c)) (sp_nodes (sc_spec c)) with
  | Some n => match nd_branching n with Some bg => bg_branches bg | None => [] end
  | None => []
  end.

Fixpoint glog_calls_ok (brs : list (branch act)) (log : list gcall) (prev : nat) : bool :=
  match log with
  | [] => true
  | gc :: r =>
      Nat.leb prev (gl_idx gc)
      && match nth_error brs (gl_idx gc) with
         | Some b =>
             match br_guard b with
             | Some g => guard_says_eqb (guard_on act run_act g (gl_cand gc)) (says_of (gl_v gc))
             | None => false
             end
         | None => false
         end
      && match r with
         | [] => true
         | _ => match gl_v gc with GVReject => true | _ => false end
         end
      && glog_calls_ok brs r (gl_idx gc)
  end.

Definition glog_final_ok (c : scase) (brs : list (branch act)) (log : list gcall) : bool :=
  match last (map Some log) None with
  | None => true
  | Some gc =>
      match gl_v gc, sc_go c with
      | GVReject, _ => true
      | GVAccept b', GStep (Some sd) GNone =>
          match nth_error brs (gl_idx gc), sd_to sd with
          | Some b, Some st' =>
              state_eqb st' (copy_state (mk_state (target act b b') (Some b')))
          | _, _ => false
          end
      | GVAccept _, _ => false
      | GVFail, GStep _ GNone => false
      | GVFail, _ => true
      end
  end.

Definition glog_ok (c : scase) : bool :=
  match sc_glog c with
  | None => true
  | Some log =>
      let brs := node_branches c in
      glog_calls_ok brs log 0 && glog_final_ok c brs log
  end.
Definition glog_violations (cases : list scase) : list nat :=
  bad_indexes (fun c => negb (glog_ok c)) 0 cases.
Definition glog_multi (cases : list scase) : nat :=
  count_true (fun c => match sc_glog c with Some (_ :: _ :: _) => true | _ => false end) cases.

(** Replay under the implementation's own candidate order.  The calls the
    implementation made tell in which order the matcher listed the candidates
    of each branch (as far as the guard got); [go_order] completes that to an
    order of all the model's candidates (multiset-wise: a pattern can yield
    the same binding set twice) and [step_logged] (Spec/GuardLog.v: the model
    step under a candidate order, with the guard calls it makes) is run under
    it.  The log it produces must be the implementation's log, call by call,
    and its result the implementation's result - for every step, also those
    whose choice among several acceptable candidates depends on the order
    (nothing is skipped any more).  If the implementation presented something
    that is no candidate of the branch, or a candidate more often than the
    pattern yields it, the model keeps its own order and the logs differ. *)
Definition ob_eqb (a b : option bindings) : bool := opt_eqb bindings_eqb a b.

Fixpoint take_one (c : option bindings) (l : list (option bindings)) : option (list (option bindings)) :=
  match l with
  | [] => None
  | x :: r => if ob_eqb c x then Some r
              else match take_one c r with Some r' => Some (x :: r') | None => None end
  end.
Fixpoint take_out (pr l : list (option bindings)) : option (list (option bindings)) :=
  match pr with
  | [] => Some l
  | c :: r => match take_one c l with Some l' => take_out r l' | None => None end
  end.
Definition presented (log : list gcall) (i : nat) : list (option bindings) :=
  map gl_cand (filter (fun g => Nat.eqb (gl_idx g) i) log).
Definition go_order (log : list gcall) : cand_oracle :=
  fun i cands =>
    let pr := presented log i in
    match take_out pr cands with
    | Some rest => pr ++ rest
    | None => cands
    end.

Definition call_eqb (m : mcall) (g : gcall) : bool :=
  Nat.eqb (mc_idx m) (gl_idx g) && ob_eqb (mc_cand m) (gl_cand g)
  && guard_says_eqb (mc_says m) (says_of (gl_v g)).
Fixpoint calls_eqb (ms : list mcall) (gs : list gcall) : bool :=
  match ms, gs with
  | [], [] => true
  | m :: ms', g :: gs' => call_eqb m g && calls_eqb ms' gs'
  | _, _ => false
  end.

Definition replay_agrees (proj : stride -> stride -> bool) (c : scase) : bool :=
  match sc_glog c with
  | None => true
  | Some log =>
      let '(o, mlog) := step_logged act run_act (go_order log) (sc_spec c) (sc_st c) (sc_pending c) in
      calls_eqb mlog log
      && match sc_go c with
         | GStep sd e => opt_eqb proj (so_stride o) sd && go_err_eqb (err_class (so_err o)) e
         | _ => false
         end
  end.
Definition replay_ambiguous (cases : list scase) : nat :=
  count_true (fun c => so_ambiguous (model_step c)
                       && match sc_glog c with Some _ => true | None => false end) cases.

(** C04: To (node, bindings), consumed flag, error class *)
Definition c04_proj (a b : stride) : bool :=
  opt_eqb state_eqb (sd_to a) (sd_to b) && opt_eqb json_eqb (sd_consumed a) (sd_consumed b).
Definition c04_violations (cases : list scase) : list nat :=
  bad_indexes (fun c => negb (step_agrees c04_proj c) || negb (glog_ok c) || negb (replay_agrees c04_proj c)) 0 cases.
Definition c04_nontrivial (cases : list scase) : nat :=
  count_true (fun c => match so_stride (model_step c) with
                       | Some sd => match sd_to sd with Some _ => true | None => false end
                       | None => false
                       end) cases.

(** C06: nothing but the aliasing / snapshot observations *)
Definition c06_step_violations (cases : list scase) : list nat :=
  bad_indexes (fun c => negb (sc_intact c) || sc_shared c
                        || (negb (sc_repeat c) && negb (so_ambiguous (model_step c)))) 0 cases.
Definition no_mismatches {A : Type} (cases : list A) : list nat := [].

(** C07: crash / hang / normal; failures surfaced *)
Definition has_error_binding (s : option state) : bool :=
  match s with
  | Some st => match lookup "error" (copy_bs (st_bs st)) with Some (JStr _) => true | _ => false end
  | None => false
  end.
Definition c07_step_violations (cases : list scase) : list nat :=
  bad_indexes (fun c => match sc_go c with
                        | GStep sd e =>
                            (* a failure of the step is a returned error or an error-carrying To *)
                            let o := model_step c in
                            match so_err o, e with
                            | Some _, GNone => true
                            | _, _ => false
                            end
                        | _ => true
                        end) 0 cases.
Definition c07_step_mismatches (cases : list scase) : list nat :=
  bad_indexes (fun c => match sc_go c with
                        | GStep sd e => negb (go_err_eqb (err_class (so_err (model_step c))) e)
                                        && negb (so_ambiguous (model_step c))
                        | _ => true
                        end) 0 cases.

(** the implementation's own account: a stride whose end state gained the binding "actionError" is the stride of an
    action that failed, and reports no message (a native action that hands back an execution together with its
    error is the one exception Step makes).  [has_key], [hands_back_on_error] and [failed_action_silent] are defined
    in Spec/SilentSpec.v (exported above); Proofs/C08Silent.v proves that the model itself satisfies the clause. *)

(** C08: emitted lists only *)
Definition c08_step_violations (cases : list scase) : list nat :=
  bad_indexes (fun c =>
                 let o := model_step c in
                 match sc_go c with
                 | GStep (Some s) _ => negb (failed_action_silent (sc_spec c) s)
                 | _ => false
                 end ||
                 if so_ambiguous o then false else
                 match sc_go c with
                 | GStep sd _ =>
                     negb (list_eqb json_eqb
                             (match so_stride o with Some s => sd_emitted s | None => [] end)
                             (match sd with Some s => sd_emitted s | None => [] end))
                 | _ => false
                 end) 0 cases.

(** C18: every permanent binding present before is present, with its value,
    in the state the step produced - unless the action returned no bindings
    at all (null), which the property does not cover *)
Definition action_returns_null (c : scase) : bool :=
  match find_node (st_node (sc_st c)) (sp_nodes (sc_spec c)) with
  | Some n =>
      match nd_action n with
      | Some a =>
          let r := run_act a (st_bs (sc_st c)) in
          match xr_exe r, xr_err r with
          | Some (None, _), false => true
          | _, _ => false
          end
      | None => false
      end
  | None => false
  end.
Definition permanent_kept (before : option bindings) (after : option state) : bool :=
  match after with
  | None => true
  | Some st' =>
      forallb (fun kv : string * json =>
                 negb (is_permanent (fst kv)) ||
                 opt_eqb json_eqb (lookup (fst kv) (copy_bs (st_bs st'))) (Some (snd kv)))
              (copy_bs before)
  end.
Definition c18_violations (cases : list scase) : list nat :=
  bad_indexes (fun c => match sc_go c with
                        | GStep (Some sd) _ =>
                            negb (action_returns_null c) &&
                            negb (permanent_kept (st_bs (sc_st c)) (sd_to sd))
                        | _ => false
                        end) 0 cases.
Definition c18_nontrivial (cases : list scase) : nat :=
  count_true (fun c => existsb (fun kv : string * json => is_permanent (fst kv)) (copy_bs (st_bs (sc_st c)))
                       && match sc_go c with
                          | GStep (Some sd) _ => match sd_to sd with Some _ => true | None => false end
                          | _ => false
                          end) cases.

(** * Walk *)
Inductive bp_spec : Type := BpNone | BpNode (n : string) | BpHasKey (k : string).
Definition bp_fun (b : bp_spec) (st : state) : bool :=
  match b with
  | BpNone => false
  | BpNode n => String.eqb (st_node st) n
  | BpHasKey k => match lookup k (copy_bs (st_bs st)) with Some _ => true | None => false end
  end.

Inductive go_walk : Type :=
| GWalk (w : walked) (err : bool)
| GWalkPanic
| GWalkHang
| GWalkUnrep.

Record wcase : Type := mk_wcase {
  wc_spec : aspec;
  wc_st : state;
  wc_msgs : list json;
  wc_limit : option nat;        (* None = no control given *)
  wc_bp : bp_spec;
  wc_go : go_walk;
  wc_intact : bool;
  wc_shared : bool;
  wc_repeat : bool;
  wc_split : bool;              (* every Done/Done split gave the whole walk's final state and emissions *)
  wc_accessors : bool           (* Walked.To / From / DoEmitted say what the strides say (hosts read the accessors) *)
}.

Definition limit_of (c : wcase) : nat :=
  match wc_limit c with Some n => n | None => Z.to_nat default_limit end.
Definition model_walk (c : wcase) : walked * bool :=
  awalk (wc_spec c) (bp_fun (wc_bp c)) (limit_of c) (wc_st c) (wc_msgs c).

Definition stop_eqb (a b : stop_reason) : bool :=
  match a, b with
  | Done, Done | Limited, Limited | InternalError, InternalError
  | BreakpointReached, BreakpointReached => true
  | _, _ => false
  end.

Definition walk_agrees (proj : stride -> stride -> bool) (c : wcase) : bool :=
  let '(w, amb) := model_walk c in
  if amb then true else
  match wc_go c with
  | GWalk gw err =>
      list_eqb proj (w_strides w) (w_strides gw)
      && list_eqb json_eqb (w_remaining w) (w_remaining gw)
      && stop_eqb (w_stopped w) (w_stopped gw) && negb err
  | _ => false
  end.
Definition walk_mismatches (cases : list wcase) : list nat :=
  bad_indexes (fun c => negb (walk_agrees stride_eqb c)) 0 cases.

(** C05 projection: per stride (From.node, To.node, consumed), Remaining, stop reason *)
Definition c05_proj (a b : stride) : bool :=
  String.eqb (st_node (sd_from a)) (st_node (sd_from b))
  && opt_eqb String.eqb (option_map st_node (sd_to a)) (option_map st_node (sd_to b))
  && opt_eqb json_eqb (sd_consumed a) (sd_consumed b).
Definition c05_mismatches (cases : list wcase) : list nat :=
  bad_indexes (fun c => negb (walk_agrees c05_proj c)) 0 cases.

(** the clauses of C05 decided on what the implementation returned *)
Definition c05_ok (c : wcase) : bool :=
  match wc_go c with
  | GWalk gw err =>
      let sds := w_strides gw in
      match strip_prefix (consumed_of sds) (wc_msgs c) with
      | None => false                                   (* not consumed in order, each once *)
      | Some rest =>
          Nat.leb (List.length sds) (limit_of c)        (* step bound *)
          && match w_stopped gw with
             | Limited | BreakpointReached => list_eqb json_eqb (w_remaining gw) rest
             | Done =>
                 (* quiescent, and nothing dropped at a node able to consume it *)
                 match w_remaining gw with [] => true | _ => false end
                 && (let fin := final_state (wc_st c) sds in
                     let o := astep (wc_spec c) fin None in
                     (so_ambiguous o ||
                      match so_stride o, so_err o with
                      | Some sd, None => match sd_to sd with None => true | Some _ => false end
                      | _, _ => String.eqb (st_node fin) error_node_literal
                      end)
                     && match rest with
                        | [] => true
                        | m :: _ =>
                            let o' := astep (wc_spec c) fin (peek [m]) in
                            so_ambiguous o' ||
                            match so_stride o' with
                            | Some sd => match sd_consumed sd with None => true | Some _ => false end
                            | None => true
                            end
                        end)
             | InternalError => false
             end
          && chain_ok (wc_st c) sds
          && (wc_split c || snd (model_walk c))   (* the choice among several guard candidates is arbitrary *)
          && negb err
      end
  | _ => false
  end.
Definition c05_violations (cases : list wcase) : list nat :=
  bad_indexes (fun c => negb (c05_ok c)) 0 cases.
Definition c05_nontrivial (cases : list wcase) : nat :=
  count_true (fun c => match wc_go c with
                       | GWalk gw _ => Nat.leb 2 (List.length (w_strides gw))
                       | _ => false
                       end) cases.

Definition c06_walk_violations (cases : list wcase) : list nat :=
  bad_indexes (fun c => negb (wc_intact c) || wc_shared c
                        || (negb (wc_repeat c) && negb (snd (model_walk c)))) 0 cases.

(** C07 on walks: normal return; wherever the model says a stride ended at an
    error-carrying state, the implementation's stride ends at the same state *)
Definition c07_walk_violations (cases : list wcase) : list nat :=
  bad_indexes (fun c => match wc_go c with
                        | GWalk gw err => err
                        | _ => true
                        end) 0 cases.
Fixpoint error_strides_agree (ms gs : list stride) : bool :=
  match ms, gs with
  | m :: mr, g :: gr =>
      (if has_error_binding (sd_to m) then opt_eqb state_eqb (sd_to m) (sd_to g) else true)
      && error_strides_agree mr gr
  | [], [] => true
  | _, _ => false
  end.
Definition c07_walk_mismatches (cases : list wcase) : list nat :=
  bad_indexes (fun c => let '(w, amb) := model_walk c in
                        match wc_go c with
                        | GWalk gw _ => negb amb && negb (error_strides_agree (w_strides w) (w_strides gw))
                        | _ => true
                        end) 0 cases.
Definition c07_nontrivial (cases : list wcase) : nat :=
  count_true (fun c => existsb (fun sd => has_error_binding (sd_to sd)) (w_strides (fst (model_walk c)))) cases.

(** C08 on walks: the emitted lists, stride by stride *)
Definition c08_walk_violations (cases : list wcase) : list nat :=
  bad_indexes (fun c => let '(w, amb) := model_walk c in
                        match wc_go c with
                        | GWalk gw _ =>
                            negb (wc_accessors c) ||
                            negb (forallb (failed_action_silent (wc_spec c)) (w_strides gw)) ||
                            negb amb &&
                            negb (list_eqb (list_eqb json_eqb) (map sd_emitted (w_strides w))
                                           (map sd_emitted (w_strides gw)))
                        | _ => false
                        end) 0 cases.
Definition c08_nontrivial (cases : list wcase) : nat :=
  count_true (fun c => match List.concat (map sd_emitted (w_strides (fst (model_walk c)))) with
                       | [] => false | _ => true end) cases.

(** C18 on walks: every stride keeps the permanent bindings of the state it
    started from (the same action and guard objects run several times within
    one walk, with different bindings each time) - unless the action
    returned no bindings at all *)
Definition stride_action_returns_null (sp : aspec) (sd : stride) : bool :=
  match find_node (st_node (sd_from sd)) (sp_nodes sp) with
  | Some n =>
      match nd_action n with
      | Some a =>
          let r := run_act a (st_bs (sd_from sd)) in
          match xr_exe r, xr_err r with
          | Some (None, _), false => true
          | _, _ => false
          end
      | None => false
      end
  | None => false
  end.
Definition c18_walk_violations (cases : list wcase) : list nat :=
  bad_indexes (fun c => match wc_go c with
                        | GWalk gw _ =>
                            existsb (fun sd => negb (stride_action_returns_null (wc_spec c) sd)
                                               && negb (permanent_kept (st_bs (sd_from sd)) (sd_to sd)))
                                    (w_strides gw)
                        | _ => false
                        end) 0 cases.
Definition c18_walk_nontrivial (cases : list wcase) : nat :=
  count_true (fun c => match wc_go c with
                       | GWalk gw _ =>
                           existsb (fun sd => existsb (fun kv : string * json => is_permanent (fst kv))
                                                      (copy_bs (st_bs (sd_from sd)))
                                              && match sd_to sd with Some _ => true | None => false end)
                                   (w_strides gw)
                       | _ => false
                       end) cases.
