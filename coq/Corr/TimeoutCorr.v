(** Correspondence and property oracles for C11: components jstimeout
    (Interpreter.Exec under contexts that end) and jsroute (the timeout error
    through Spec.Walk). *)
From Sheens Require Export Corr.StepCorr Model.ConcJs.

(** * jstimeout *)

Inductive gclass : Type :=
| GInterrupted      (* the error is ecmascript.Interrupted *)
| GDone             (* no error *)
| GOtherErr         (* another error *)
| GHang.            (* did not return by deadline + 8 s *)

(** one batch of concurrent executions of one script under one kind of context *)
Record tcase : Type := mk_tcase {
  tc_infinite : bool;            (* the script never ends by itself *)
  tc_expired : bool;             (* the context is over when Exec is called *)
  tc_ends : bool;                (* the context ends at some moment (false: never, before the goroutines are counted) *)
  tc_outcomes : list gclass;     (* one per execution *)
  tc_prompt : bool;              (* every execution returned within deadline + slack *)
  tc_leak : bool                 (* more goroutines after the batch (and a settle loop) than before *)
}.

Definition model_kind (c : tcase) : option nat := if tc_infinite c then None else Some 2.

(** the results the protocol allows, by exploration of the transition system *)
Definition allowed (c : tcase) : list outcome :=
  if tc_ends c then outcomes faithful_variant (tc_expired c) (model_kind c)
  else outcomes_no_deadline faithful_variant (model_kind c).

Definition class_allowed (c : tcase) (g : gclass) : bool :=
  match g with
  | GInterrupted => existsb (outcome_eqb Interrupted) (allowed c)
  | GDone => existsb (outcome_eqb Finished) (allowed c)
  | _ => false
  end.

(** model vs implementation: every result is one the protocol can produce, and
    (C11_no_leak) no goroutine is left *)
Definition timeout_agrees (c : tcase) : bool :=
  forallb (class_allowed c) (tc_outcomes c) && negb (tc_leak c).
Definition timeout_mismatches (cases : list tcase) : list nat :=
  bad_indexes (fun c => negb (timeout_agrees c)) 0 cases.

(** the property on what Go did: an endless script is stopped with the timeout
    error, promptly; a finite one finishes or (if the context ends) is stopped;
    nothing hangs; no goroutine outlives the call *)
Definition is_interrupted (g : gclass) : bool := match g with GInterrupted => true | _ => false end.
Definition is_done (g : gclass) : bool := match g with GDone => true | _ => false end.
Definition c11_ok (c : tcase) : bool :=
  (if tc_infinite c then forallb is_interrupted (tc_outcomes c)
   else if tc_ends c then forallb (fun g => is_interrupted g || is_done g) (tc_outcomes c)
        else forallb is_done (tc_outcomes c))
  && tc_prompt c && negb (tc_leak c)
  && negb (match tc_outcomes c with [] => true | _ => false end).
Definition c11_violations (cases : list tcase) : list nat :=
  bad_indexes (fun c => negb (c11_ok c)) 0 cases.
Definition c11_nontrivial (cases : list tcase) : nat :=
  count_true (fun c => tc_infinite c || negb (tc_ends c)) cases.

(** * jsroute *)

Record rcase : Type := mk_rcase {
  rc_spec : aspec;               (* with the looping script(s) *)
  rc_st : state;
  rc_msgs : list json;
  rc_limit : nat;
  rc_go : go_walk;               (* Spec.Walk under a 25 ms deadline *)
  rc_go_throw : go_walk;         (* the same specification with a throw in place of the loop *)
  rc_prompt : bool
}.

Definition go_walk_eqb (a b : go_walk) : bool :=
  match a, b with
  | GWalk x ex, GWalk y ey =>
      list_eqb stride_eqb (w_strides x) (w_strides y)
      && list_eqb json_eqb (w_remaining x) (w_remaining y)
      && stop_eqb (w_stopped x) (w_stopped y) && Bool.eqb ex ey
  | _, _ => false
  end.

Definition route_agrees (c : rcase) : bool :=
  let '(w, amb) := awalk (rc_spec c) (fun _ => false) (rc_limit c) (rc_st c) (rc_msgs c) in
  amb ||
  match rc_go c with
  | GWalk gw _ =>
      list_eqb stride_eqb (w_strides w) (w_strides gw)
      && list_eqb json_eqb (w_remaining w) (w_remaining gw)
      && stop_eqb (w_stopped w) (w_stopped gw)
  | _ => false
  end.
Definition route_mismatches (cases : list rcase) : list nat :=
  bad_indexes (fun c => negb (route_agrees c)) 0 cases.

(** the property (Go vs Go): the walk returns promptly with exactly the walk of
    the throwing twin - the timeout is routed like any other action error - and
    that walk does carry the failure (an error binding somewhere, or a returned error) *)
Definition carries_failure (g : go_walk) : bool :=
  match g with
  | GWalk w err => err || existsb (fun sd => has_error_binding (sd_to sd)) (w_strides w)
  | _ => false
  end.
Definition c11_route_ok (c : rcase) : bool :=
  go_walk_eqb (rc_go c) (rc_go_throw c) && rc_prompt c && carries_failure (rc_go c).
Definition c11_route_violations (cases : list rcase) : list nat :=
  bad_indexes (fun c => negb (c11_route_ok c)) 0 cases.
